(* C07 - the third block of File.Merge: rebuilding the tree from the per-line values by run-length
   re-insertion, and flatten as its inverse. *)
From Coq Require Import List ZArith Lia Bool Arith.
From Herc Require Import FileMerge.Model.
Import ListNotations.
Open Scope Z_scope.

Definition in_u32 (v : Z) : Prop := 0 <= v < 4294967296.

Lemma u32_small v : in_u32 v -> u32 v = v.
Proof. intros H. unfold u32. apply Z.mod_small. exact H. Qed.

(* ------------------------------------------------------------------ closed form of the rebuilt list *)
Fixpoint runs (i : Z) (prev : option Z) (l : list Z) : nodes :=
  match l with
  | [] => []
  | v :: r =>
      let fresh := match prev with None => true | Some p => negb (v =? p) end in
      (if fresh then [(i, v)] else []) ++ runs (i + 1) (Some v) r
  end.

Lemma tree_insert_end : forall t k v, Forall (fun n : Z * Z => fst n < k) t -> tree_insert k v t = t ++ [(k, v)].
Proof.
  induction t as [|[k' v'] t IH]; intros k v HF; cbn [tree_insert app]; [reflexivity|].
  inversion HF as [|? ? Hk HF']; subst. cbn [fst] in Hk.
  destruct (Z.ltb_spec k k'); [lia|]. destruct (Z.eqb_spec k k'); [lia|].
  rewrite IH; auto.
Qed.

Lemma runs_keys : forall l i prev, Forall (fun n : Z * Z => i <= fst n < i + Z.of_nat (length l)) (runs i prev l).
Proof.
  induction l as [|v r IH]; intros i prev; cbn [runs]; [constructor|].
  apply Forall_app. split.
  - destruct (match prev with None => true | Some p => negb (v =? p) end); constructor; [|constructor].
    cbn [fst length]. lia.
  - eapply Forall_impl; [|apply (IH (i + 1) (Some v))]. intros n Hn. cbn beta in *. cbn [length]. lia.
Qed.

Lemma rebuild_go_closed : forall l i prev t,
  0 <= i -> i + Z.of_nat (length l) < 4294967296 -> Forall in_u32 l ->
  Forall (fun n : Z * Z => fst n < i) t ->
  rebuild_go i prev l t = (t ++ runs i prev l, i + Z.of_nat (length l)).
Proof.
  induction l as [|v r IH]; intros i prev t Hi Hn Hl Ht; cbn [rebuild_go runs].
  - rewrite app_nil_r. cbn [length]. f_equal. lia.
  - inversion Hl as [|? ? Hv Hl']; subst. cbn [length] in *.
    set (fresh := match prev with None => true | Some p => negb (v =? p) end).
    rewrite IH; try lia; auto.
    + f_equal; [|lia]. destruct fresh; cbn [app]; [|reflexivity].
      rewrite (u32_small i) by (unfold in_u32; lia). rewrite (u32_small v Hv).
      rewrite tree_insert_end by exact Ht. rewrite <- app_assoc. reflexivity.
    + destruct fresh.
      * rewrite (u32_small i) by (unfold in_u32; lia). rewrite (u32_small v Hv).
        rewrite tree_insert_end by exact Ht. apply Forall_app. split.
        -- eapply Forall_impl; [|exact Ht]. intros n Hk. cbn beta in *. lia.
        -- constructor; [cbn [fst]; lia|constructor].
      * eapply Forall_impl; [|exact Ht]. intros n Hk. cbn beta in *. lia.
Qed.

Theorem rebuild_closed : forall l, Forall in_u32 l -> Z.of_nat (length l) < 4294967296 ->
  rebuild l = runs 0 None l ++ [(Z.of_nat (length l), TreeEnd)].
Proof.
  intros l Hl Hn. unfold rebuild. rewrite rebuild_go_closed; auto; try lia. cbn [app].
  rewrite Z.add_0_l. rewrite u32_small by (unfold in_u32; lia).
  apply tree_insert_end. eapply Forall_impl; [|apply runs_keys]. intros n Hk. cbn beta in Hk. lia.
Qed.

(* ------------------------------------------------------------------ flatten (rebuild l) = l *)
Lemma repeat_snoc {A} (x : A) n : repeat x (S n) = repeat x n ++ [x].
Proof. induction n as [|n IH]; [reflexivity|]. cbn [repeat app] in *. rewrite <- IH. reflexivity. Qed.

Lemma flatten_runs : forall l i prev lines val,
  Z.of_nat (length lines) <= i -> i + Z.of_nat (length l) < 4294967296 ->
  (prev = Some val \/ (prev = None /\ i = 0)) ->
  flatten_go (runs i prev l ++ [(i + Z.of_nat (length l), TreeEnd)]) lines val
  = lines ++ repeat val (Z.to_nat (i - Z.of_nat (length lines))) ++ l.
Proof.
  induction l as [|v r IH]; intros i prev lines val Hlen Hn Hp.
  - cbn [runs app flatten_go length]. rewrite u32_small by (unfold in_u32; lia).
    rewrite app_nil_r. do 2 f_equal. lia.
  - cbn [runs length] in *.
    set (fresh := match prev with None => true | Some p => negb (v =? p) end).
    replace (i + Z.of_nat (S (length r))) with ((i + 1) + Z.of_nat (length r)) by lia.
    destruct fresh eqn:Ef; cbn [app].
    + cbn [flatten_go]. rewrite u32_small by (unfold in_u32; lia).
      rewrite IH.
      * rewrite app_length, repeat_length.
        replace (Z.to_nat (i + 1 - Z.of_nat (length lines + Z.to_nat (i - Z.of_nat (length lines))))) with 1%nat by lia.
        rewrite <- app_assoc. reflexivity.
      * rewrite app_length, repeat_length. lia.
      * lia.
      * left. reflexivity.
    + (* the line continues the current run *)
      assert (Hv : prev = Some val /\ v = val).
      { subst fresh. destruct prev as [p|]; [|discriminate]. apply negb_false_iff in Ef. apply Z.eqb_eq in Ef.
        destruct Hp as [Hp|[Hp _]]; [|discriminate]. injection Hp as ->. auto. }
      destruct Hv as [-> ->]. rewrite IH; try lia; [|left; reflexivity].
      replace (Z.to_nat (i + 1 - Z.of_nat (length lines))) with (S (Z.to_nat (i - Z.of_nat (length lines)))) by lia.
      rewrite repeat_snoc. rewrite <- !app_assoc. reflexivity.
Qed.

Theorem flatten_rebuild : forall l, Forall in_u32 l -> Z.of_nat (length l) < 4294967296 ->
  flatten (rebuild l) = l.
Proof.
  intros l Hl Hn. rewrite rebuild_closed by assumption. unfold flatten.
  pose proof (flatten_runs l 0 None [] TreeEnd) as H. cbn [length] in H. rewrite Z.add_0_l in H.
  rewrite H; [reflexivity|lia|lia|right; auto].
Qed.

(* ------------------------------------------------------------------ well-formedness of the rebuilt list *)
Definition hd_key_ge (b : Z) (ns : nodes) : Prop := match ns with [] => True | (k, _) :: _ => b <= k end.
Definition hd_val_ne (p : option Z) (ns : nodes) : Prop := match ns with [] => True | (_, v) :: _ => Some v <> p end.

Lemma keys_inc_runs : forall l i prev tail,
  keys_inc_b tail = true -> hd_key_ge (i + Z.of_nat (length l)) tail ->
  keys_inc_b (runs i prev l ++ tail) = true /\ hd_key_ge i (runs i prev l ++ tail).
Proof.
  induction l as [|v r IH]; intros i prev tail Ht Hh; cbn [runs length] in *.
  - cbn [app]. split; [exact Ht|]. destruct tail as [|[k w] tail]; cbn in *; lia.
  - destruct (IH (i + 1) (Some v) tail Ht) as [H1 H2].
    { destruct tail as [|[k w] tail]; cbn in *; lia. }
    rewrite <- app_assoc. set (X := runs (i + 1) (Some v) r ++ tail) in *.
    destruct (match prev with None => true | Some p => negb (v =? p) end); cbn [app].
    + split; [|cbn; lia]. cbn [keys_inc_b]. destruct X as [|[k' w'] X]; [reflexivity|].
      cbn [hd_key_ge] in H2. rewrite H1. destruct (Z.ltb_spec i k'); [reflexivity|lia].
    + split; [exact H1|]. destruct X as [|[k' w'] X]; cbn in *; lia.
Qed.

Lemma vals_differ_runs : forall l i prev n,
  Forall (fun v => v <> TreeEnd) l -> prev <> Some TreeEnd ->
  vals_differ_b (runs i prev l ++ [(n, TreeEnd)]) = true /\ hd_val_ne prev (runs i prev l ++ [(n, TreeEnd)]).
Proof.
  induction l as [|v r IH]; intros i prev n Hl Hp; cbn [runs].
  - cbn [app]. split; [reflexivity|]. cbn. congruence.
  - inversion Hl as [|? ? Hv Hl']; subst.
    destruct (IH (i + 1) (Some v) n Hl') as [H1 H2]; [congruence|].
    rewrite <- app_assoc. set (X := runs (i + 1) (Some v) r ++ [(n, TreeEnd)]) in *.
    destruct prev as [p|].
    + destruct (Z.eqb_spec v p) as [E|E]; cbn [negb app].
      * subst p. split; [exact H1|exact H2].
      * split; [|cbn; congruence]. cbn [vals_differ_b]. destruct X as [|[k' w'] X]; [reflexivity|].
        cbn [hd_val_ne] in H2. rewrite H1. destruct (Z.eqb_spec v w'); [congruence|reflexivity].
    + cbn [app]. split; [|cbn; congruence]. cbn [vals_differ_b]. destruct X as [|[k' w'] X]; [reflexivity|].
      cbn [hd_val_ne] in H2. rewrite H1. destruct (Z.eqb_spec v w'); [congruence|reflexivity].
Qed.

(* the readable form of wf_nodes_b *)
Definition wf_nodes (ns : nodes) : Prop :=
  (exists v rest, ns = (0, v) :: rest) /\
  (exists front k, ns = front ++ [(k, TreeEnd)]) /\
  (forall i a b, nth_error ns i = Some a -> nth_error ns (S i) = Some b -> fst a < fst b) /\
  (forall i a b, nth_error ns i = Some a -> nth_error ns (S i) = Some b -> snd a <> snd b).

Lemma keys_inc_b_nth : forall ns, keys_inc_b ns = true ->
  forall i a b, nth_error ns i = Some a -> nth_error ns (S i) = Some b -> fst a < fst b.
Proof.
  induction ns as [|[k v] ns IH]; intros H i a b Ha Hb; [destruct i; discriminate|].
  destruct ns as [|[k' v'] ns]; [destruct i; cbn in Hb; [discriminate|destruct i; discriminate]|].
  cbn [keys_inc_b] in H. apply andb_true_iff in H. destruct H as [Hk H].
  destruct i; cbn [nth_error] in Ha, Hb.
  - injection Ha as <-. injection Hb as <-. cbn [fst]. apply Z.ltb_lt. exact Hk.
  - apply (IH H i); assumption.
Qed.

Lemma vals_differ_b_nth : forall ns, vals_differ_b ns = true ->
  forall i a b, nth_error ns i = Some a -> nth_error ns (S i) = Some b -> snd a <> snd b.
Proof.
  induction ns as [|[k v] ns IH]; intros H i a b Ha Hb; [destruct i; discriminate|].
  destruct ns as [|[k' v'] ns]; [destruct i; cbn in Hb; [discriminate|destruct i; discriminate]|].
  cbn [vals_differ_b] in H. apply andb_true_iff in H. destruct H as [Hk H].
  destruct i; cbn [nth_error] in Ha, Hb.
  - injection Ha as <-. injection Hb as <-. cbn [snd]. apply negb_true_iff in Hk. apply Z.eqb_neq. exact Hk.
  - apply (IH H i); assumption.
Qed.

Theorem wf_nodes_b_sound ns : wf_nodes_b ns = true -> wf_nodes ns.
Proof.
  unfold wf_nodes_b. destruct ns as [|[k0 v0] ns']; [discriminate|]. intros H.
  apply andb_true_iff in H. destruct H as [H Hv]. apply andb_true_iff in H. destruct H as [H Hk].
  apply andb_true_iff in H. destruct H as [H0 Hl].
  apply Z.eqb_eq in H0. apply Z.eqb_eq in Hl. subst k0. repeat split.
  - eauto.
  - set (ns := (0, v0) :: ns') in *.
    assert (Hne : ns <> []) by discriminate.
    rewrite (app_removelast_last (0, 0) Hne). destruct (last ns (0, 0)) as [k v] eqn:E.
    cbn [snd] in Hl. subst v. eauto.
  - apply keys_inc_b_nth. exact Hk.
  - apply vals_differ_b_nth. exact Hv.
Qed.

Theorem rebuild_wf : forall l, Forall in_u32 l -> Z.of_nat (length l) < 4294967296 ->
  Forall (fun v => v <> TreeEnd) l -> wf_nodes_b (rebuild l) = true.
Proof.
  intros l Hl Hn He. rewrite rebuild_closed by assumption.
  destruct (keys_inc_runs l 0 None [(Z.of_nat (length l), TreeEnd)]) as [K1 K2]; [reflexivity|cbn; lia|].
  destruct (vals_differ_runs l 0 None (Z.of_nat (length l)) He) as [V1 V2]; [discriminate|].
  unfold wf_nodes_b. rewrite last_last. cbn [snd]. rewrite Z.eqb_refl, K1, V1.
  destruct l as [|v r]; reflexivity.
Qed.

(* without the hypothesis on TreeEnd everything but "adjacent values differ" still holds *)
Theorem rebuild_keys : forall l, Forall in_u32 l -> Z.of_nat (length l) < 4294967296 ->
  (exists v rest, rebuild l = (0, v) :: rest) /\
  (exists front, rebuild l = front ++ [(Z.of_nat (length l), TreeEnd)]) /\
  keys_inc_b (rebuild l) = true.
Proof.
  intros l Hl Hn. rewrite rebuild_closed by assumption.
  destruct (keys_inc_runs l 0 None [(Z.of_nat (length l), TreeEnd)]) as [K1 K2]; [reflexivity|cbn; lia|].
  repeat split; eauto. destruct l as [|v r]; cbn [runs app]; eauto.
Qed.

(* values that come out of flatten are uint32 values when the node values are *)
Lemma flatten_go_in_u32 : forall ns lines val,
  Forall (fun n : Z * Z => in_u32 (snd n)) ns -> Forall in_u32 lines -> in_u32 val ->
  Forall in_u32 (flatten_go ns lines val).
Proof.
  induction ns as [|[k v] ns IH]; intros lines val Hn Hl Hv; cbn [flatten_go]; [exact Hl|].
  inversion Hn as [|? ? Hk Hn']; subst. apply IH; auto.
  apply Forall_app. split; [exact Hl|]. apply Forall_forall. intros x Hx. apply repeat_spec in Hx. subst. exact Hv.
Qed.

Lemma flatten_in_u32 ns : Forall (fun n : Z * Z => in_u32 (snd n)) ns -> Forall in_u32 (flatten ns).
Proof. intros H. apply flatten_go_in_u32; auto. unfold in_u32, TreeEnd. lia. Qed.

(* everything about the third block in one statement *)
Theorem rebuild_flatten_wf : forall l, Forall in_u32 l -> Z.of_nat (length l) < 4294967296 ->
  flatten (rebuild l) = l /\
  (exists v rest, rebuild l = (0, v) :: rest) /\
  (exists front, rebuild l = front ++ [(Z.of_nat (length l), TreeEnd)]) /\
  (forall i a b, nth_error (rebuild l) i = Some a -> nth_error (rebuild l) (S i) = Some b -> fst a < fst b) /\
  (Forall (fun v => v <> TreeEnd) l ->
   forall i a b, nth_error (rebuild l) i = Some a -> nth_error (rebuild l) (S i) = Some b -> snd a <> snd b).
Proof.
  intros l Hl Hn. destruct (rebuild_keys l Hl Hn) as (H1 & H2 & H3).
  split; [apply flatten_rebuild; assumption|]. split; [exact H1|]. split; [exact H2|].
  split; [apply keys_inc_b_nth; exact H3|].
  intros He. pose proof (rebuild_wf l Hl Hn He) as W. apply wf_nodes_b_sound in W. apply W.
Qed.
