package main

// The scale streams: blob contents, trees, histories and branch counts that are large or sit on the constants of
// the code (1024: the head of a blob that checkLanguage hands to enry; 8000: the binary sniffing length of
// CachedBlob.CountLines) and on the usual machine limits.

import (
	"fmt"
	"math/rand"
	"os"
	"sort"
	"strings"

	. "verifharness/lib"
)

// ---------------------------------------------------------------------------------------------
// helpers

func linearOps(n int) []opT {
	ops := []opT{{kind: "fork", b: 0, n: 1}} // branch 1: the pristine clone
	for j := 0; j < n; j++ {
		ops = append(ops, opT{kind: "consume", b: 0, c: j})
	}
	return ops
}

func sortFiles(fs []fileT) []fileT {
	sort.Slice(fs, func(i, j int) bool { return fs[i].path < fs[j].path })
	return fs
}

func chain(trees [][]fileT) []commitT {
	cs := make([]commitT, len(trees))
	for i, t := range trees {
		cs[i] = commitT{files: sortFiles(append([]fileT{}, t...))}
		if i > 0 {
			cs[i].parents = []int{i - 1}
		}
	}
	return cs
}

func small(path string, mode int, data string) fileT {
	return fileT{path: path, mode: mode, data: []byte(data)}
}

// ---------------------------------------------------------------------------------------------
// scale-blob: big and boundary-sized blobs, text and binary, pairs that share a long prefix

var blobSizesQuick = []int{1023, 1024, 1025, 2000, 4095, 4096, 4097, 7999, 8000, 8001, 8192, 20000, 32767, 32768, 65535, 65536, 65537, 100000}
var blobSizesThorough = []int{16000, 262144, 1000000, 1048575, 1048576, 1048577, 5000000}
var nulOffsets = []int{0, 100, 1023, 1024, 7999, 8000, 8001}

// blobCase: one size, every variant of the contents in one tree.
//
//	c0  all variants added            c1  every variant modified in ONE byte (the two versions share a long prefix)
//	c2  only small.go changes (the rotating cache forgets the big blobs)
//	c3  half of them deleted, the others grow by one byte          c4  the rest deleted / moved
//
// replayed on the main branch, then from c1 on a fresh branch (first commit = every big blob an addition) and
// from c3 on another.
func blobCase(size int, variant int) caseT {
	type fv struct {
		name string
		g    genT
	}
	var vs []fv
	vs = append(vs, fv{"big/t.txt", genT{size: size, seed: 3 + variant, style: 0}})
	vs = append(vs, fv{"big/z.bin", genT{size: size, seed: 5 + variant, style: 1}})
	offs := append([]int{}, nulOffsets...)
	offs = append(offs, size-1, size-2, size/2)
	seen := map[int]bool{}
	for _, o := range offs {
		if o < 0 || o >= size || seen[o] {
			continue
		}
		seen[o] = true
		vs = append(vs, fv{fmt.Sprintf("big/n%d.bin", o), genT{size: size, seed: 11 + o + variant, style: 1, patches: [][2]int{{o, 0}}}})
		// a text file with a single NUL: binary for CountLines, text for a glance at its beginning
		if o == 8000 || o == 7999 || o == size-1 {
			vs = append(vs, fv{fmt.Sprintf("big/tn%d.txt", o), genT{size: size, seed: 13 + o, style: 0, patches: [][2]int{{o, 0}}}})
		}
	}
	diffAt := []int{size - 1, 8000, 8001, 7999, 1024, 1023, 1025, size / 2, 4096}
	trees := make([][]fileT, 5)
	for k, v := range vs {
		mode := modeReg
		if k%5 == 4 {
			mode = modeExec
		}
		v1 := v.g
		// the second version: one byte differs, as far behind as the size allows (rotating through the interesting places)
		d := size - 1
		for j := 0; j < len(diffAt); j++ {
			x := diffAt[(k+j+variant)%len(diffAt)]
			if x >= 0 && x < size {
				d = x
				break
			}
		}
		v2 := genT{size: size, seed: v.g.seed, style: v.g.style, patches: append(append([][2]int{}, v.g.patches...), [2]int{d, 1 + (k*37+variant)%250})}
		if k%3 == 2 {
			// the difference is the very last byte
			v2.patches[len(v2.patches)-1][0] = size - 1
		}
		// the third version: one byte longer, first `size` bytes as in the second
		v3 := genT{size: size + 1, seed: v2.seed, style: v2.style, patches: v2.patches}
		trees[0] = append(trees[0], genFile(v.name, mode, v1))
		trees[1] = append(trees[1], genFile(v.name, mode, v2))
		trees[2] = append(trees[2], genFile(v.name, mode, v2))
		switch k % 4 {
		case 0: // deleted in c3
		case 1: // grows in c3, deleted in c4
			trees[3] = append(trees[3], genFile(v.name, mode, v3))
		case 2: // grows in c3, moved in c4 (the same blob leaves one path and enters another)
			trees[3] = append(trees[3], genFile(v.name, mode, v3))
			trees[4] = append(trees[4], genFile("moved/"+v.name, mode, v3))
		default: // untouched in c3, back to the first version in c4
			trees[3] = append(trees[3], genFile(v.name, mode, v2))
			trees[4] = append(trees[4], genFile(v.name, mode, v1))
		}
	}
	for i := range trees {
		trees[i] = append(trees[i], small("small.go", modeReg, fmt.Sprintf("package a // %d\n", []int{0, 0, 1, 1, 2}[i])))
	}
	ops := linearOps(5)
	ops = append(ops, opT{kind: "fork", b: 1, n: 2},
		opT{kind: "consume", b: 2, c: 1}, opT{kind: "consume", b: 2, c: 2}, opT{kind: "consume", b: 2, c: 3},
		opT{kind: "consume", b: 3, c: 3}, opT{kind: "consume", b: 3, c: 4})
	var cfg cfgT
	cfg.skip = []string{}
	switch variant % 4 {
	case 1:
		cfg.langs = []string{"text", "go"}
	case 2:
		cfg.blacklist = true
		cfg.skip = []string{"vendor/", "moved/big/z"}
	case 3:
		cfg.regex = sp(`^(big|moved)/`)
	}
	return caseT{kind: "scale-blob", cfg: cfg, commits: chain(trees), ops: ops}
}

// a random history over a few big files
func blobRandom(rng *rand.Rand, maxSize int) caseT {
	pick := func() int {
		switch rng.Intn(4) {
		case 0:
			return []int{1024, 8000}[rng.Intn(2)] + rng.Intn(5) - 2
		case 1:
			return blobSizesQuick[rng.Intn(len(blobSizesQuick))]
		case 2:
			return 1 + rng.Intn(12000)
		default:
			s := 1000
			for s < maxSize && rng.Intn(3) > 0 {
				s *= 2 + rng.Intn(3)
			}
			if s > maxSize {
				s = maxSize
			}
			return s + rng.Intn(3) - 1
		}
	}
	names := []string{"assets/logo.bin", "assets/icon.png", "doc/manual.txt", "data/table.csv", "lib/big.go", "README"}
	n := 2 + rng.Intn(3)
	cur := map[string]fileT{}
	k := 3 + rng.Intn(4)
	trees := make([][]fileT, k)
	mk := func(name string) fileT {
		size := pick()
		g := genT{size: size, seed: rng.Intn(50), style: rng.Intn(2)}
		for j := rng.Intn(3); j > 0; j-- {
			o := append(append([]int{}, nulOffsets...), size-1, rng.Intn(size))[rng.Intn(len(nulOffsets)+2)]
			g.patches = append(g.patches, [2]int{o, 0})
		}
		return genFile(name, []int{modeReg, modeReg, modeExec}[rng.Intn(3)], g)
	}
	for i := 0; i < k; i++ {
		if i == 0 {
			for j := 0; j < n; j++ {
				cur[names[j]] = mk(names[j])
			}
		} else {
			for j := 1 + rng.Intn(2); j > 0; j-- {
				name := names[rng.Intn(len(names))]
				f, ok := cur[name]
				switch {
				case !ok:
					cur[name] = mk(name)
				case rng.Intn(6) == 0:
					delete(cur, name)
				case rng.Intn(5) == 0: // move
					delete(cur, name)
					f.path = names[rng.Intn(len(names))]
					cur[f.path] = f
				default: // a version that shares a long prefix: one byte changed, or grown / shrunk by a few bytes
					g := *f.gen
					g.patches = append([][2]int{}, g.patches...)
					switch rng.Intn(3) {
					case 0:
						g.patches = append(g.patches, [2]int{g.size - 1 - rng.Intn(min(g.size, 3)), 1 + rng.Intn(255)})
					case 1:
						g.size += 1 + rng.Intn(3)
					default:
						if g.size > 4 {
							g.size -= 1 + rng.Intn(3)
						}
					}
					cur[name] = genFile(name, f.mode, g)
				}
			}
		}
		for _, f := range cur {
			trees[i] = append(trees[i], f)
		}
		trees[i] = append(trees[i], small("small.go", modeReg, fmt.Sprintf("package a // %d\n", i)))
	}
	ops := linearOps(k)
	if rng.Intn(2) == 0 {
		s := rng.Intn(k)
		ops = append(ops, opT{kind: "fork", b: 1, n: 1})
		for j := s; j < k; j++ {
			ops = append(ops, opT{kind: "consume", b: 2, c: j})
		}
	}
	cfg := cfgT{skip: []string{}}
	if rng.Intn(4) == 0 {
		cfg.langs = []string{"text", "go", "csv"}
	}
	return caseT{kind: "scale-blob", cfg: cfg, commits: chain(trees), ops: ops}
}

// ---------------------------------------------------------------------------------------------
// scale-lang: files whose language depends on how much of the contents is looked at

const licenceText = `Permission is hereby granted, free of charge, to any person obtaining a copy
of this software and associated documentation files (the "Software"), to deal
in the Software without restriction, including without limitation the rights
to use, copy, modify, merge, publish, distribute, sublicense, and/or sell
copies of the Software, and to permit persons to whom the Software is
furnished to do so, subject to the following conditions:

The above copyright notice and this permission notice shall be included in all
copies or substantial portions of the Software.

THE SOFTWARE IS PROVIDED "AS IS", WITHOUT WARRANTY OF ANY KIND, EXPRESS OR
IMPLIED, INCLUDING BUT NOT LIMITED TO THE WARRANTIES OF MERCHANTABILITY,
FITNESS FOR A PARTICULAR PURPOSE AND NONINFRINGEMENT. IN NO EVENT SHALL THE
AUTHORS OR COPYRIGHT HOLDERS BE LIABLE FOR ANY CLAIM, DAMAGES OR OTHER
LIABILITY, WHETHER IN AN ACTION OF CONTRACT, TORT OR OTHERWISE, ARISING FROM,
OUT OF OR IN CONNECTION WITH THE SOFTWARE OR THE USE OR OTHER DEALINGS IN THE
SOFTWARE.
`

// licencePad returns a comment of exactly n bytes in the given style ("c": /* ... */, otherwise the prefix of a
// line comment), made of the licence text repeated as often as needed.  n = 0 gives nothing.
func licencePad(style string, n int) string {
	if n <= 0 {
		return ""
	}
	lines := strings.Split(strings.TrimRight(licenceText, "\n"), "\n")
	var sb strings.Builder
	open, pre, close := "", style, ""
	if style == "c" {
		open, pre, close = "/*\n", " *", " */\n"
	}
	if n < len(open)+len(close)+len(pre)+2 {
		// too short for a well-formed comment: blank lines
		return strings.Repeat("\n", n)
	}
	sb.WriteString(open)
	for i := 0; ; i++ {
		l := lines[i%len(lines)]
		line := pre + " " + l + "\n"
		if l == "" {
			line = pre + "\n"
		}
		rest := n - sb.Len() - len(close)
		if len(line) > rest {
			// the last line is cut (or stretched) to fit exactly
			if rest > 0 {
				body := pre + " " + l
				if len(body) >= rest {
					body = body[:rest-1]
				} else {
					body += strings.Repeat(".", rest-1-len(body))
				}
				sb.WriteString(body + "\n")
			}
			break
		}
		sb.WriteString(line)
	}
	sb.WriteString(close)
	s := sb.String()
	if len(s) != n {
		panic(fmt.Sprintf("licencePad(%q, %d) has %d bytes", style, n, len(s)))
	}
	return s
}

type langFam struct {
	name  string   // base name: the extension is ambiguous (or absent)
	style string   // comment style of the head
	body  string   // code that decides the language
	more  string   // appended by the second version (far behind the head)
	langs []string // the languages between which enry wavers for this name
}

var langFams = []langFam{
	{"ring.h", "c", "#ifndef RING_H\n#define RING_H\n#include <vector>\nnamespace ring {\nclass Buffer {\n public:\n  explicit Buffer(int n);\n private:\n  std::vector<int> data_;\n};\n}\n#endif\n", "// int pop();\n", []string{"c", "c++", "objective-c"}},
	{"view.h", "c", "#import <Foundation/Foundation.h>\n@interface View : NSObject\n@property (nonatomic) int x;\n- (void)draw;\n@end\n", "// @end\n", []string{"c", "objective-c", "c++"}},
	{"plain.h", "c", "#ifndef P_H\n#define P_H\nstruct p { int x; };\nint f(struct p *q);\n#endif\n", "/* end */\n", []string{"c", "c++"}},
	{"solve.m", "c", "#import <Foundation/Foundation.h>\n@implementation Solve\n- (void)run { NSLog(@\"x\"); }\n@end\n", "// more\n", []string{"m", "objective-c", "matlab"}},
	{"solve.m", "%", ":- module solve.\n:- interface.\n:- import_module io.\n:- pred main(io::di, io::uo) is det.\n", "% more\n", []string{"matlab", "mercury", "objective-c"}},
	{"tool.pl", "%", ":- module(tool, [run/1]).\nrun(X) :- X > 1, write(X), nl.\n", "% more\n", []string{"perl", "prolog"}},
	{"tool.pl", "#", "use v6;\nmy $x = 1;\nsay $x;\n", "# more\n", []string{"perl", "perl 6"}},
	{"tool.pl", "#", "use strict;\nuse warnings;\nmy $x = shift;\nprint \"$x\\n\";\n", "# more\n", []string{"perl", "prolog"}},
	{"doc.cls", "c", "public class Doc {\n  public void run() { System.debug('x'); }\n}\n", "// more\n", []string{"visual basic", "apex", "tex"}},
	{"doc.cls", "%", "\\NeedsTeXFormat{LaTeX2e}\n\\ProvidesClass{doc}\n\\LoadClass{article}\n", "% more\n", []string{"tex", "apex"}},
	{"run", "#", "print(1)\n# vim: set ft=python:\n", "", []string{"python", "shell"}},
	{"notes.txt", "#", "x = 1\n# -*- mode: ruby -*-\n", "", []string{"text", "ruby"}},
	{"conf.inc", "#", "<?php\necho 1;\n", "# more\n", []string{"c++", "php", "pascal"}},
	{"q.sql", "--", "CREATE OR REPLACE FUNCTION f() RETURNS void AS $$ BEGIN END; $$ LANGUAGE plpgsql;\n", "-- more\n", []string{"sql", "plpgsql"}},
	{"x.fs", "//", "module X\nlet f x = x + 1\n", "// more\n", []string{"glsl", "f#", "forth"}},
	{"job", "", "#!/usr/bin/env python\nprint(1)\n", "print(2)\n", []string{"python", "shell"}},
	{"job", "", "#!/bin/sh\necho 1\n", "echo 2\n", []string{"python", "shell"}},
}

var padSizes = []int{0, 300, 512, 900, 1000, 1010, 1016, 1020, 1022, 1023, 1024, 1025, 1026, 1030, 1079, 2000, 5000, 8100}

// the contents of a family member: pad + body (+ more); the modeline families put the second version's extra
// text BEFORE the modeline's last line so that the line stays among the last ones
func (f langFam) content(pad int, version int) string {
	s := licencePad(f.style, pad) + f.body
	if f.style == "" { // shebang families: the pad goes behind the first line
		i := strings.Index(f.body, "\n") + 1
		s = f.body[:i] + licencePad("#", pad) + f.body[i:]
	}
	if version == 2 {
		if f.more == "" {
			i := strings.LastIndex(strings.TrimRight(s, "\n"), "\n") + 1
			s = s[:i] + "y = 2\n" + s[i:]
		} else {
			s += f.more
		}
	}
	return s
}

// langCase: the target file(s) are present in the first commit, modified behind the head, deleted, added again in
// a later commit and moved; further branches start at the modification and at the re-addition.
func langCase(fams []langFam, pads []int, langs []string, cfg cfgT) caseT {
	cfg.langs = langs
	trees := make([][]fileT, 6)
	for i := range trees {
		trees[i] = append(trees[i], small("README.md", modeReg, "# ring\n"), small("src/main.c", modeReg, fmt.Sprintf("#include <stdio.h>\nint main(void) { return %d; }\n", min(i, 1))))
	}
	for k, f := range fams {
		p := fmt.Sprintf("src/m%d/%s", k, f.name)
		v1, v2 := f.content(pads[k], 1), f.content(pads[k], 2)
		mode := modeReg
		if f.style == "" || f.name == "run" {
			mode = modeExec
		}
		trees[0] = append(trees[0], small(p, mode, v1))
		trees[1] = append(trees[1], small(p, mode, v1))
		trees[2] = append(trees[2], small(p, mode, v2))
		trees[4] = append(trees[4], small(p, mode, v1))
		trees[5] = append(trees[5], small(fmt.Sprintf("lib/m%d/%s", k, f.name), mode, v1))
	}
	ops := linearOps(6)
	ops = append(ops, opT{kind: "fork", b: 1, n: 2},
		opT{kind: "consume", b: 2, c: 2}, opT{kind: "consume", b: 2, c: 3},
		opT{kind: "consume", b: 3, c: 4}, opT{kind: "consume", b: 3, c: 5})
	return caseT{kind: "scale-lang", cfg: cfg, commits: chain(trees), ops: ops}
}

func scaleLang(c *Config) {
	rng := c.Rng
	// every family x every pad size, the language sets rotating
	n := 0
	for fi, f := range langFams {
		for pi, pad := range padSizes {
			var langs []string
			switch (fi + pi) % 4 {
			case 0:
				langs = f.langs[:1]
			case 1:
				langs = f.langs[1:2]
			case 2:
				langs = f.langs
			default:
				langs = []string{f.langs[len(f.langs)-1], "go"}
			}
			if !c.Thorough() && pad < 900 && (fi+pi)%2 == 0 {
				continue
			}
			emit(c, langCase([]langFam{f}, []int{pad}, langs, cfgT{skip: []string{}}))
			n++
		}
	}
	// random combinations of two or three families, pads around the constant, other filters on top
	for i := c.Count(150, 1500); i > 0; i-- {
		k := 1 + rng.Intn(3)
		var fams []langFam
		var pads []int
		langSet := map[string]bool{}
		for j := 0; j < k; j++ {
			f := langFams[rng.Intn(len(langFams))]
			fams = append(fams, f)
			switch rng.Intn(3) {
			case 0:
				pads = append(pads, 960+rng.Intn(100))
			case 1:
				pads = append(pads, padSizes[rng.Intn(len(padSizes))])
			default:
				pads = append(pads, rng.Intn(2200))
			}
			for _, l := range f.langs {
				if rng.Intn(2) == 0 {
					langSet[l] = true
				}
			}
		}
		if rng.Intn(3) == 0 {
			langSet["c"] = true
		}
		langs := []string{}
		for l := range langSet {
			langs = append(langs, l)
		}
		sort.Strings(langs)
		cfg := cfgT{skip: []string{}}
		switch rng.Intn(6) {
		case 0:
			cfg.regex = sp(`^src/`)
		case 1:
			cfg.blacklist = true
			cfg.skip = []string{"lib/m1"}
		}
		emit(c, langCase(fams, pads, langs, cfg))
	}
}

// ---------------------------------------------------------------------------------------------
// scale-tree: trees of 10^3 .. 10^5 files

// treeNames lists n paths in the given shape.
func treeNames(shape string, n int) []string {
	names := make([]string, 0, n)
	ext := func(i int) string { return []string{".go", ".py", ".go", ".txt", ".go"}[i%5] }
	switch shape {
	case "flat":
		for i := 0; i < n; i++ {
			names = append(names, fmt.Sprintf("f%06d%s", i, ext(i)))
		}
	case "dirs": // about sqrt(n) directories
		w := 1
		for w*w < n {
			w++
		}
		for i := 0; i < n; i++ {
			names = append(names, fmt.Sprintf("d%04d/f%04d%s", i/w, i%w, ext(i)))
		}
	case "spine": // a deep right spine: one file and one directory per level, 64 levels, then wide
		depth := 64
		prefix := ""
		for i := 0; i < n; i++ {
			if i < depth {
				names = append(names, fmt.Sprintf("%sa%s", prefix, ext(i)))
				prefix += "z/"
			} else {
				names = append(names, fmt.Sprintf("%sf%06d%s", prefix, i, ext(i)))
			}
		}
	case "vendor": // half of the files under prefixes that the blacklist removes
		for i := 0; i < n; i++ {
			d := []string{"src", "vendor", "lib/gen", "node_modules/x", "pkg"}[i%5]
			names = append(names, fmt.Sprintf("%s/f%06d%s", d, i, ext(i/5)))
		}
	}
	return names
}

// treeCase: a big tree, then steps that touch the files at the multiples of a period, delete a range, add files,
// change modes and turn some files into submodule entries (only without a language restriction).
func treeCase(rng *rand.Rand, shape string, n int, period int, cfg cfgT) caseT {
	names := treeNames(shape, n)
	type st struct {
		mode int
		ver  int
	}
	cur := make(map[string]st, n)
	idx := make(map[string]int, n) // the contents of a file name it (short, and no two files share a blob)
	for i, p := range names {
		idx[p] = i
		m := modeReg
		if i%7 == 3 {
			m = modeExec
		}
		if i%211 == 17 {
			m = modeLink
		}
		cur[p] = st{m, 0}
	}
	noSub := restrictsLanguages(cfg)
	snap := func() []fileT {
		fs := make([]fileT, 0, len(cur))
		var subs []string
		for p, s := range cur {
			switch s.mode {
			case modeSub:
				subs = append(subs, p)
				fs = append(fs, small(p, modeSub, fmt.Sprintf("s%d", s.ver)))
			case modeLink:
				fs = append(fs, small(p, modeLink, fmt.Sprintf("f%d", s.ver)))
			default:
				fs = append(fs, small(p, s.mode, fmt.Sprintf("%x.%d\n", idx[p], s.ver)))
			}
		}
		if cfg.failMissing { // the strict mode: every submodule entry is registered
			sort.Strings(subs)
			fs = append(fs, small(".gitmodules", modeReg, gitmodules(subs)))
		}
		return fs
	}
	var trees [][]fileT
	trees = append(trees, snap())
	// c1: every period-th file modified
	for i := 0; i < n; i += period {
		s := cur[names[i]]
		s.ver++
		cur[names[i]] = s
	}
	trees = append(trees, snap())
	// c2: a range deleted, n/10 files added, the files at the multiples of period+1 change mode
	for i := n / 3; i < n/2; i++ {
		delete(cur, names[i])
	}
	for i := 0; i < n/10+1; i++ {
		p := fmt.Sprintf("new/%s/g%06d.go", shape, i)
		idx[p] = n + i
		cur[p] = st{modeReg, i % 3}
	}
	for i := 0; i < n/3; i += period + 1 {
		s := cur[names[i]]
		if s.mode == modeReg {
			s.mode = modeExec
		} else if s.mode == modeExec {
			s.mode = modeReg
		}
		cur[names[i]] = s
	}
	trees = append(trees, snap())
	// c3: the deleted range comes back with new contents; files at the multiples of 2*period-1 become submodule entries
	for i := n / 3; i < n/2; i += 2 {
		cur[names[i]] = st{modeReg, 5}
	}
	if !noSub {
		for i := n / 2; i < n; i += 2*period - 1 {
			cur[names[i]] = st{modeSub, 1}
		}
	}
	trees = append(trees, snap())
	ops := linearOps(4)
	ops = append(ops, opT{kind: "fork", b: 1, n: 1}, opT{kind: "consume", b: 2, c: 2}, opT{kind: "consume", b: 2, c: 3})
	_ = rng
	return caseT{kind: "scale-tree", cfg: cfg, commits: chain(trees), ops: ops}
}

func scaleTree(c *Config) {
	cfgs := []cfgT{
		{skip: []string{}, failMissing: true},
		{skip: []string{}, langs: []string{"go"}},
		{skip: []string{"vendor/", "lib/gen/", "d0001/", "z/z/z/z/z/z/z/z/z/z/"}, blacklist: true},
		{skip: []string{}, regex: sp(`[02468]\.(go|py)$`), langs: []string{"python", "go"}},
	}
	shapes := []string{"flat", "dirs", "spine", "vendor"}
	periods := []int{2, 3, 7, 8, 9, 15, 16, 17, 63, 64, 65, 255, 256, 257}
	sizes := []int{1025, 4097} // just above 2^10 and 2^12
	if c.Thorough() {
		sizes = []int{1025, 4097, 10000, 32769, 65537, 100000}
	}
	k := 0
	for _, n := range sizes {
		for si, shape := range shapes {
			if n > 30000 && n < 100000 && si%2 != (n/30000)%2 { // two of the four shapes
				continue
			}
			if n >= 100000 && si != 1 {
				continue
			}
			emit(c, treeCase(c.Rng, shape, n, periods[(k*5+si)%len(periods)], cfgs[(k+k/4)%len(cfgs)]))
			k++
		}
	}
}

// ---------------------------------------------------------------------------------------------
// scale-chain: long histories;  scale-forks: many branches alive, merges with many parents

func scaleChain(c *Config) {
	rng := c.Rng
	lens := []int{1025}
	if c.Thorough() {
		lens = []int{1025, 10000}
	}
	for _, k := range lens {
		// a long linear history
		parents := randomParents(rng, k, true, false)
		emit(c, draw(rng, "scale-chain", parents, stableCfg(rng), plan(parents)))
		// a long history with forks and merges (several roots)
		parents = randomParents(rng, k/2, false, true)
		emit(c, draw(rng, "scale-chain", parents, stableCfg(rng), plan(parents)))
	}
}

// forksCase: a root, w children of the root each on its own branch (one Fork(w-1)), grandchildren on some of them,
// then a merge of m of the children that is consumed once on each parent's branch, and - on a copy of one parent's
// branch - a merge commit whose parents do NOT include that branch's commit although they are many.
func forksCase(rng *rand.Rand, w, m int, cfg cfgT) caseT {
	base := tstate{"a.go": {modeReg, "v0\n"}, "b.py": {modeReg, "v0\n"}, "d/a.go": {modeExec, "v0\n"}, "sub": {modeSub, "s0"}}
	commits := []commitT{{files: base.files()}}
	ops := []opT{{kind: "fork", b: 0, n: 1}, {kind: "consume", b: 0, c: 0}, {kind: "fork", b: 0, n: w - 1}}
	// child i lives on branch 0 (i = 0) or on branch 1 + i
	branchOf := func(i int) int {
		if i == 0 {
			return 0
		}
		return 1 + i
	}
	for i := 0; i < w; i++ {
		t := base.clone()
		t[fmt.Sprintf("w/f%05d.go", i)] = fstate{modeReg, fmt.Sprintf("v%d\n", i)}
		if i%3 == 0 {
			t["a.go"] = fstate{modeReg, fmt.Sprintf("v%d\n", 1+i%4)}
		}
		if i%5 == 0 {
			delete(t, "b.py")
		}
		commits = append(commits, commitT{parents: []int{0}, files: t.files()})
		ops = append(ops, opT{kind: "consume", b: branchOf(i), c: 1 + i})
	}
	// the merge of the LAST m children: the previous commit of each of these branches is found at a different
	// position of the parent list (first .. last)
	var ps []int
	for i := w - m; i < w; i++ {
		ps = append(ps, 1+i)
	}
	mt := base.clone()
	mt["merged.go"] = fstate{modeReg, "m\n"}
	mi := len(commits)
	commits = append(commits, commitT{parents: ps, files: mt.files()})
	for i := w - m; i < w; i++ {
		ops = append(ops, opT{kind: "consume", b: branchOf(i), c: mi})
	}
	// children 0 .. w-m-1 are not among the parents: the merge must be refused there (sampled)
	for j := 0; j < 8 && w-m > 0; j++ {
		ops = append(ops, opT{kind: "consume", b: branchOf(rng.Intn(w - m)), c: mi})
	}
	// every branch goes on with its own grandchild (the branches that took the merge: a child of the merge)
	for i := 0; i < w; i++ {
		t := base.clone()
		t["a.go"] = fstate{modeReg, fmt.Sprintf("g%d\n", i)}
		p := 1 + i
		if i >= w-m {
			p = mi
		}
		commits = append(commits, commitT{parents: []int{p}, files: t.files()})
		ops = append(ops, opT{kind: "consume", b: branchOf(i), c: len(commits) - 1})
	}
	return caseT{kind: "scale-forks", cfg: cfg, commits: commits, ops: ops}
}

func scaleForks(c *Config) {
	rng := c.Rng
	emit(c, forksCase(rng, 40, 40, cfgT{skip: []string{}}))
	emit(c, forksCase(rng, 300, 33, cfgT{skip: []string{}, langs: []string{"go"}}))
	emit(c, forksCase(rng, 1025, 65, cfgT{skip: []string{"d/"}, blacklist: true}))
	if c.Thorough() {
		emit(c, forksCase(rng, 4097, 257, cfgT{skip: []string{}}))
	}
}

// ---------------------------------------------------------------------------------------------

func scale(c *Config) {
	if only := os.Getenv("C20_SCALE"); only != "" { // development aid: one of the scale streams alone
		switch only {
		case "lang":
			scaleLang(c)
		case "tree":
			scaleTree(c)
		case "chain":
			scaleChain(c)
		case "forks":
			scaleForks(c)
		}
		return
	}
	sizes := append([]int{}, blobSizesQuick...)
	if c.Thorough() {
		sizes = append(sizes, blobSizesThorough...)
	}
	for i, s := range sizes {
		emit(c, blobCase(s, i))
		if c.Thorough() && s <= 100000 {
			emit(c, blobCase(s, i+1))
			emit(c, blobCase(s, i+2))
		}
	}
	max := 200000
	if c.Thorough() {
		max = 3000000
	}
	for i := c.Count(60, 600); i > 0; i-- {
		emit(c, blobRandom(c.Rng, max))
	}
	scaleLang(c)
	scaleTree(c)
	scaleChain(c)
	scaleForks(c)
}
