(* C01 - burndown matrices = line-lifetime ground truth.
   Only statements closed by [exact] and their assumptions; the models are in theories/Burndown:
   Dense.v (groupSparseHistory), Analysis.v (abstract BurndownAnalysis over arrays), Lifetimes.v (declarative
   history and the ground-truth oracle), Linear.v / LinearProofs.v (linear histories with arbitrary edits),
   Replay.v (canonical scripts, plan validator). *)
From Coq Require Import List ZArith Bool.
From Herc Require Import Burndown.Base Burndown.Dense Burndown.DenseProofs Burndown.Lifetimes
  Burndown.LifetimesFacts Burndown.Analysis Burndown.SparseFacts Burndown.AnalysisFacts Burndown.LinearProofs
  Burndown.Replay Burndown.CommitProofs Burndown.PlanProofs Burndown.DagProofs Burndown.MatrixProofs.
Import ListNotations.
Open Scope Z_scope.

(* ---- the dense matrix: every cell, for every sparse history, sampling <, =, > granularity ---- *)
Theorem C01_dense : forall G S H lastTick,
  1 <= S -> 1 <= G -> H <> [] -> nodup_zb (map fst H) = true ->
  sparse_wfb H (dense_last H lastTick) = true ->
  exists M, group_sparse_history G S H lastTick = Ok (M, dense_last H lastTick) /\
    length M = Z.to_nat (dense_last H lastTick / S + 1) /\
    (forall row, In row M -> length row = Z.to_nat (dense_last H lastTick / G + 1)) /\
    (forall s b, 0 <= s <= dense_last H lastTick / S -> 0 <= b <= dense_last H lastTick / G ->
                 cell M s b = spec_cell G S H s b).
Proof. exact DenseProofs.C01_dense. Qed.
Print Assumptions C01_dense.

Example C01_dense_nonvacuous :
  group_sparse_history 3 2 [(5, [(5, 2); (0, -1)]); (0, [(0, 4)]); (2, [(2, 1); (0, -1)])] 7
  = Ok ([[4; 0; 0]; [4; 0; 0]; [3; 2; 0]; [3; 2; 0]], 7).
Proof. exact DenseProofs.C01_dense_nonvacuous. Qed.

(* the empty history is a panic (F11), a last tick before the last key too *)
Theorem C01_dense_empty_panics : forall G S lastTick, group_sparse_history G S [] lastTick = Panic PEmptyHistory.
Proof. exact (gsh_empty alloc_fixed). Qed.
Print Assumptions C01_dense_empty_panics.

(* the row allocation before the repair (one row per band) panics as soon as sampling < granularity *)
Theorem C01_dense_refuted_before_fix : exists G S H, 1 <= S <= G /\ nodup_zb (map fst H) = true /\
  sparse_wfb H (last_z (sort_z (map fst H)) 0) = true /\ group_sparse_history_old G S H (-1) = Panic PIndex.
Proof. exact DenseProofs.C01_dense_refuted_before_fix. Qed.
Print Assumptions C01_dense_refuted_before_fix.

(* ---- the ground-truth oracle the real matrices are compared with ---- *)
Theorem C01_truth_nonneg : forall h G S keep row,
  In row (truth_matrix h G S keep) -> forall v, In v row -> 0 <= v.
Proof. exact truth_matrix_nonneg. Qed.
Print Assumptions C01_truth_nonneg.

Theorem C01_truth_row_sum : forall h G S, 1 <= G -> conflict_free h = true -> forall keep s,
  sum_z (truth_row h G S keep s) =
  count (fun pl => keep pl && alive_at h ((s + 1) * S - 1) (snd pl)) (all_lines h).
Proof. exact truth_row_sum. Qed.
Print Assumptions C01_truth_row_sum.

Theorem C01_truth_last_row_is_head : forall h G S, 1 <= G -> 1 <= S ->
  conflict_free h = true -> single_head h = true ->
  sum_z (truth_row h G S keep_all (last_event h / S)) = lines_at_head h.
Proof. exact truth_project_last_row. Qed.
Print Assumptions C01_truth_last_row_is_head.

(* ---- linear histories with arbitrary edit scripts: no negative cell, row sums = lines alive ---- *)
Theorem C01_linear : forall cf G S cs b s M last,
  1 <= S -> 1 <= G -> lin_wf 0 [] cs = true -> lin_run cf cs branch0 shared0 = Ok (b, s) ->
  group_sparse_history G S (s_gh s) (-1) = Ok (M, last) ->
  forall sidx, 0 <= sidx <= last / S ->
    (forall bidx, 0 <= bidx <= last / G -> 0 <= cell M sidx bidx) /\
    (forall pre suf, cs = pre ++ suf ->
       (forall c, In c pre -> lc_tick c <= sample_end S sidx) ->
       (forall c, In c suf -> sample_end S sidx < lc_tick c) ->
       sum_z (map (cell M sidx) (zrange (last / G + 1))) = stotal (snap_run pre [])).
Proof. exact LinearProofs.C01_linear. Qed.
Print Assumptions C01_linear.

(* non-vacuity: three commits (insert 3 lines; replace 1 and append 2 in one script; delete the file and add
   another) run without error, pass lin_wf, and give the expected matrix *)
Definition ex_lin : list lcommit :=
  [ mkLC 0 0 [CInsert 1 3];
    mkLC 0 2 [CModify 1 3 5 [(DEq, 1); (DDel, 1); (DIns, 1); (DEq, 1); (DIns, 2)]];
    mkLC 0 5 [CDelete 1 5; CInsert 2 4] ].
Example C01_linear_nonvacuous :
  lin_wf 0 [] ex_lin = true /\
  match lin_run (mkCfg 0 false) ex_lin branch0 shared0 with
  | Ok (_, s) => group_sparse_history 2 2 (s_gh s) (-1) = Ok ([[3; 0; 0]; [2; 3; 0]; [0; 0; 4]], 5)
  | _ => False
  end.
Proof. vm_compute. auto. Qed.

(* ---- conflict-free histories, plans without merge actions (linear histories and forks) ---- *)
(* the sparse global history: for every weight P, the weighted sum of its entries is the sum over all commits
   of (lines born by c, booked at (tick c, tick c)) - (lines killed by c, booked at (tick c, birth tick)) *)
Theorem C01_global_sparse_merge_free : forall h cf aidx plan w,
  conflict_free h = true -> (forall c, 0 <= c < ncommits h -> tick_of h c < mark) ->
  (forall c, 0 <= znth 0 aidx c) ->
  plan_okb h plan = true -> merge_freeb plan = true -> run_hist cf h aidx plan = Ok w ->
  forall P, wsum P (s_gh (w_shared w)) = sum_z (map (contrib h P) (zrange (ncommits h))).
Proof.
  intros h cf aidx plan w Hcf Hm Ha Hok Hmf Er.
  exact (proj1 (global_sparse_merge_free h cf aidx Hcf Hm Ha plan w Hok (merge_freeb_no_merges plan Hmf) Er)).
Qed.
Print Assumptions C01_global_sparse_merge_free.

(* every cell of the dense project matrix is the ground-truth cell *)
Theorem C01_matrix_merge_free : forall h cf aidx plan w G S M last,
  conflict_free h = true -> (forall c, 0 <= c < ncommits h -> tick_of h c < mark) ->
  (forall c, 0 <= znth 0 aidx c) ->
  plan_okb h plan = true -> merge_freeb plan = true -> run_hist cf h aidx plan = Ok w ->
  1 <= G -> 1 <= S -> group_sparse_history G S (s_gh (w_shared w)) (-1) = Ok (M, last) ->
  forall s b, 0 <= s <= last / S -> 0 <= b <= last / G -> cell M s b = truth_cell h G S keep_all s b.
Proof. exact matrix_cells_merge_free. Qed.
Print Assumptions C01_matrix_merge_free.

(* non-vacuity: three commits, two heads (a fork), two developers, one line killed on a branch *)
Definition ex_h : hist := mkHist [[]; [0]; [0]] [0; 1; 2] [0; 1; 0]
  [(0, [mkLine 0 0 1; mkLine 1 0 (-1); mkLine 2 1 (-1); mkLine 3 2 (-1)]); (1, [mkLine 4 2 (-1)])].
Definition ex_plan : list action := [AEmerge 1; ACommit 0 1; AFork 1 [2]; ACommit 1 1; ACommit 2 2].
Example C01_matrix_merge_free_nonvacuous :
  conflict_free ex_h = true /\ plan_okb ex_h ex_plan = true /\ merge_freeb ex_plan = true /\
  match run_hist (mkCfg 2 true) ex_h [0; 1; 0] ex_plan with
  | Ok w => group_sparse_history 2 1 (s_gh (w_shared w)) (-1) = Ok (truth_project ex_h 2 1, 2)
  | _ => False
  end.
Proof. vm_compute. auto. Qed.

(* ---- conflict-free histories, any validated plan: linear, forks, diamonds, criss-cross, octopus ... ---- *)
Theorem C01_global_sparse : forall h cf aidx plan w,
  conflict_free h = true -> (forall c, 0 <= c < ncommits h -> tick_of h c < mark) ->
  (forall c, 0 <= znth 0 aidx c) ->
  plan_okb h plan = true -> run_hist cf h aidx plan = Ok w ->
  forall P, wsum P (s_gh (w_shared w)) = sum_z (map (contrib h P) (zrange (ncommits h))).
Proof.
  intros h cf aidx plan w Hcf Hm Ha Hok Er.
  exact (proj1 (global_sparse h cf aidx Hcf Hm Ha plan w Hok Er)).
Qed.
Print Assumptions C01_global_sparse.

(* C01_matrix: the dense project matrix IS the ground-truth matrix (same rows, same bands, same cells) *)
Theorem C01_matrix : forall h cf aidx plan w G S M last,
  conflict_free h = true -> (forall c, 0 <= c < ncommits h -> tick_of h c < mark) ->
  (forall c, 0 <= znth 0 aidx c) ->
  plan_okb h plan = true -> run_hist cf h aidx plan = Ok w ->
  1 <= G -> 1 <= S -> group_sparse_history G S (s_gh (w_shared w)) (-1) = Ok (M, last) ->
  M = truth_project h G S /\ last = last_event h.
Proof. exact matrix_eq. Qed.
Print Assumptions C01_matrix.

Theorem C01_matrix_cells : forall h cf aidx plan w G S M last,
  conflict_free h = true -> (forall c, 0 <= c < ncommits h -> tick_of h c < mark) ->
  (forall c, 0 <= znth 0 aidx c) ->
  plan_okb h plan = true -> run_hist cf h aidx plan = Ok w ->
  1 <= G -> 1 <= S -> group_sparse_history G S (s_gh (w_shared w)) (-1) = Ok (M, last) ->
  forall s b, 0 <= s <= last / S -> 0 <= b <= last / G -> cell M s b = truth_cell h G S keep_all s b.
Proof. exact matrix_cells. Qed.
Print Assumptions C01_matrix_cells.

(* corollary: with a single head the last row sums to the number of lines at HEAD *)
Theorem C01_last_row_is_head : forall h cf aidx plan w G S M last,
  conflict_free h = true -> single_head h = true ->
  (forall c, 0 <= c < ncommits h -> tick_of h c < mark) -> (forall c, 0 <= znth 0 aidx c) ->
  plan_okb h plan = true -> run_hist cf h aidx plan = Ok w ->
  1 <= G -> 1 <= S -> group_sparse_history G S (s_gh (w_shared w)) (-1) = Ok (M, last) ->
  sum_z (nth (Z.to_nat (last / S)) M []) = lines_at_head h.
Proof. exact last_row_is_head. Qed.
Print Assumptions C01_last_row_is_head.

(* corollary: no negative cell *)
Theorem C01_no_negative_cell : forall h cf aidx plan w G S M last,
  conflict_free h = true -> (forall c, 0 <= c < ncommits h -> tick_of h c < mark) ->
  (forall c, 0 <= znth 0 aidx c) ->
  plan_okb h plan = true -> run_hist cf h aidx plan = Ok w ->
  1 <= G -> 1 <= S -> group_sparse_history G S (s_gh (w_shared w)) (-1) = Ok (M, last) ->
  forall s b, 0 <= s <= last / S -> 0 <= b <= last / G -> 0 <= cell M s b.
Proof.
  intros h cf aidx plan w G S M last Hcf Hm Ha Hok Er HG HS Eg s b Hs Hb.
  rewrite (matrix_cells h cf aidx plan w G S M last Hcf Hm Ha Hok Er HG HS Eg s b Hs Hb).
  apply truth_cell_nonneg.
Qed.
Print Assumptions C01_no_negative_cell.

(* non-vacuity: a diamond with a merge that adds a line, two developers; commit 1 kills a line of commit 0 *)
Definition ex_dag : hist := mkHist [[]; [0]; [0]; [1; 2]] [0; 1; 1; 3] [0; 1; 0; 1]
  [(0, [mkLine 0 0 1; mkLine 1 0 (-1); mkLine 2 1 (-1); mkLine 5 3 (-1); mkLine 3 2 (-1)]); (1, [mkLine 4 2 (-1)])].
Definition ex_dag_plan : list action :=
  [AEmerge 1; ACommit 0 1; AFork 1 [2]; ACommit 1 1; ACommit 2 2; ACommit 3 1; ACommit 3 2; AMerge [1; 2]; ADelete 2].
Example C01_matrix_nonvacuous :
  conflict_free ex_dag = true /\ plan_okb ex_dag ex_dag_plan = true /\
  match run_hist (mkCfg 2 true) ex_dag [0; 1; 0; 1] ex_dag_plan with
  | Ok w => group_sparse_history 2 1 (s_gh (w_shared w)) (-1) = Ok (truth_project ex_dag 2 1, 3)
  | _ => False
  end.
Proof. vm_compute. auto. Qed.

(* ==== per-file matrices, per-developer matrices, ownership (C01_files / C01_people / C01_ownership) ==== *)
(* The proof is the weighted-sum invariant of C01_global_sparse carried by a VIEW (ViewFacts.v .. ViewDag.v): one of
   the sparse histories kept beside the global one, with the filter that says which tracker reports are booked in it
   (file p: the reports of the files whose history handle is the one fileHistories holds for p; developer i: the
   reports whose PREVIOUS value carries author i, so a death is booked against the line's author, not the killer).
   Invariants added to W of DagProofs.v: fileHistories' names map stays injective and every tracked file of every
   live branch carries the handle of its path (no path is ever deleted on a conflict-free history); the view is the
   sum of the kept contributions of the analysed commits; the view is a sub-history of the global history. *)
From Herc Require Import Burndown.FrameFacts Burndown.ViewFacts Burndown.ViewStep Burndown.ViewDag Burndown.ViewMatrix
  Burndown.OwnerProofs Burndown.FinalProofs.

(* the sparse history of file p (p0 is its path, behind the handle of fileHistories) and of developer i:
   births minus deaths of the kept lines, as C01_global_sparse with a filter *)
Theorem C01_files_sparse : forall h cf aidx plan w p k,
  conflict_free h = true -> (forall c, 0 <= c < ncommits h -> tick_of h c < mark) ->
  (forall c, 0 <= znth 0 aidx c) -> c_files cf = true ->
  plan_okb h plan = true -> run_hist cf h aidx plan = Ok w ->
  aget (s_names (w_shared w)) p = Some k ->
  forall P, wsum P (aget_d [] (s_fhs (w_shared w)) k) =
    sum_z (map (fun c =>
      (if P (tick_of h c) (tick_of h c)
       then count (fun pl => keep_path p pl && (l_born (snd pl) =? c)) (all_lines h) else 0)
      - count (fun pl => keep_path p pl && ((l_killer (snd pl) =? c) && P (tick_of h c) (birth_tick h (snd pl)))) (all_lines h))
      (zrange (ncommits h))).
Proof.
  intros h cf aidx plan w p k Hcf Hm Ha Hf Hok Er En P.
  pose proof (proj1 (view_sparse h cf aidx Hcf Hm Ha (file_view cf Hf p) (keep_path p) (fun _ _ _ _ _ => eq_refl) eq_refl plan w Hok Er) P) as E.
  cbn [v_proj file_view] in E. unfold fh_of in E. rewrite En in E. exact E.
Qed.
Print Assumptions C01_files_sparse.

Theorem C01_people_sparse : forall h cf aidx plan w i,
  conflict_free h = true -> (forall c, 0 <= c < ncommits h -> tick_of h c < mark) ->
  (forall c, 0 <= znth 0 aidx c) -> c_people cf <> 0 -> i <> author_missing ->
  plan_okb h plan = true -> run_hist cf h aidx plan = Ok w ->
  forall P, wsum P (aget_d [] (s_phs (w_shared w)) i) =
    sum_z (map (fun c =>
      (if P (tick_of h c) (tick_of h c)
       then count (fun pl => (znth 0 aidx (l_born (snd pl)) =? i) && (l_born (snd pl) =? c)) (all_lines h) else 0)
      - count (fun pl => (znth 0 aidx (l_born (snd pl)) =? i) &&
                         ((l_killer (snd pl) =? c) && P (tick_of h c) (birth_tick h (snd pl)))) (all_lines h))
      (zrange (ncommits h))).
Proof.
  intros h cf aidx plan w i Hcf Hm Ha Hp Hi Hok Er P.
  exact (proj1 (view_sparse h cf aidx Hcf Hm Ha (dev_view cf i Hi) (fun pl => znth 0 aidx (l_born (snd pl)) =? i)
                  (dev_link2 h cf aidx i Hcf Hm Ha Hp) eq_refl plan w Hok Er) P).
Qed.
Print Assumptions C01_people_sparse.

(* C01_files: the dense matrix of the history of path p, grouped with the project's last tick as the code does
   (rows up to the project's lastTick), IS the ground truth restricted to the lines of p: rows, bands, every cell *)
Theorem C01_files : forall h cf aidx plan w G S M last p k Mp lp,
  conflict_free h = true -> (forall c, 0 <= c < ncommits h -> tick_of h c < mark) ->
  (forall c, 0 <= znth 0 aidx c) -> c_files cf = true ->
  plan_okb h plan = true -> run_hist cf h aidx plan = Ok w ->
  1 <= G -> 1 <= S -> group_sparse_history G S (s_gh (w_shared w)) (-1) = Ok (M, last) ->
  aget (s_names (w_shared w)) p = Some k ->
  group_sparse_history G S (aget_d [] (s_fhs (w_shared w)) k) last = Ok (Mp, lp) ->
  Mp = truth_file h G S p /\ lp = last.
Proof. exact files_matrix. Qed.
Print Assumptions C01_files.

(* C01_people: the same for developer index i of the people dictionary, i being developer d of the history;
   births = lines of the commits d authored, deaths booked against the line's author *)
Theorem C01_people : forall h cf aidx plan w G S M last i d Mi li,
  conflict_free h = true -> (forall c, 0 <= c < ncommits h -> tick_of h c < mark) ->
  (forall c, 0 <= znth 0 aidx c) -> c_people cf <> 0 -> i <> author_missing ->
  (forall c, 0 <= c < ncommits h -> (znth 0 aidx c =? i) = (author_of h c =? d)) ->
  plan_okb h plan = true -> run_hist cf h aidx plan = Ok w ->
  1 <= G -> 1 <= S -> group_sparse_history G S (s_gh (w_shared w)) (-1) = Ok (M, last) ->
  group_sparse_history G S (aget_d [] (s_phs (w_shared w)) i) last = Ok (Mi, li) ->
  Mi = truth_dev h G S d /\ li = last.
Proof. exact people_matrix. Qed.
Print Assumptions C01_people.

(* a developer whose history is empty (Finalize then emits the zero matrix) has the zero ground truth *)
Theorem C01_people_empty : forall h cf aidx plan w G S i d,
  conflict_free h = true -> (forall c, 0 <= c < ncommits h -> tick_of h c < mark) ->
  (forall c, 0 <= znth 0 aidx c) -> c_people cf <> 0 -> i <> author_missing ->
  (forall c, 0 <= c < ncommits h -> (znth 0 aidx c =? i) = (author_of h c =? d)) ->
  plan_okb h plan = true -> run_hist cf h aidx plan = Ok w -> 1 <= G -> 1 <= S ->
  aget_d [] (s_phs (w_shared w)) i = [] ->
  forall s b, truth_cell h G S (keep_dev h d) s b = 0.
Proof. exact people_empty. Qed.
Print Assumptions C01_people_empty.

(* C01_ownership: on a live branch whose last commit descends from every commit (single head), the ownership walk
   over the file of path p counts per key i the lines of p alive at HEAD whose author has people index i
   (key -1 for all lines when people tracking is off) *)
Theorem C01_ownership : forall h cf aidx plan w b lb l0 p seq f,
  conflict_free h = true -> (forall c, 0 <= c < ncommits h -> tick_of h c < mark) ->
  (forall c, 0 <= znth 0 aidx c < author_missing) ->
  single_head h = true -> plan_okb h plan = true -> run_hist cf h aidx plan = Ok w ->
  aget (w_branches w) b = Some lb -> lb_last lb = Some l0 ->
  (forall c, 0 <= c < ncommits h -> ancb (ancs h) l0 c = true) ->
  In (p, seq) (h_paths h) -> aget (b_files (lb_state lb)) p = Some f ->
  forall i, aget_d 0 (ownership cf (f_vals f) []) i =
            count (fun pl => keep_path p pl &&
                             ((if c_people cf =? 0 then -1 else znth 0 aidx (l_born (snd pl))) =? i)) (head_lines h).
Proof.
  intros h cf aidx plan w b lb l0 p seq f Hcf Hm Ha.
  exact (ownership_head h cf aidx Hcf Hm Ha plan w b lb l0 p seq f).
Qed.
Print Assumptions C01_ownership.

(* ... in the vocabulary of the oracle truth_ownership: people index i = developer d of the history *)
Theorem C01_ownership_dev : forall h cf aidx plan w b lb l0 p seq f i d,
  conflict_free h = true -> (forall c, 0 <= c < ncommits h -> tick_of h c < mark) ->
  (forall c, 0 <= znth 0 aidx c < author_missing) -> c_people cf <> 0 ->
  (forall c, 0 <= c < ncommits h -> (znth 0 aidx c =? i) = (author_of h c =? d)) ->
  single_head h = true -> plan_okb h plan = true -> run_hist cf h aidx plan = Ok w ->
  aget (w_branches w) b = Some lb -> lb_last lb = Some l0 ->
  (forall c, 0 <= c < ncommits h -> ancb (ancs h) l0 c = true) ->
  In (p, seq) (h_paths h) -> aget (b_files (lb_state lb)) p = Some f ->
  aget_d 0 (ownership cf (f_vals f) []) i = count (fun pl => keep_path p pl && keep_dev h d pl) (head_lines h).
Proof. exact ownership_dev. Qed.
Print Assumptions C01_ownership_dev.

(* the branch Finalize reads (getMasterBranch = smallest index) is such a branch when the validated plan leaves
   every commit on it (master_all, evaluated by the driver on every single-head case) *)
Theorem C01_master_holds_all : forall h cf aidx plan w b lb,
  conflict_free h = true -> (forall c, 0 <= c < ncommits h -> tick_of h c < mark) -> (forall c, 0 <= znth 0 aidx c) ->
  plan_okb h plan = true -> master_all h plan = true -> run_hist cf h aidx plan = Ok w ->
  master w = Some (b, lb) ->
  aget (w_branches w) b = Some lb /\
  exists l0, lb_last lb = Some l0 /\ forall c, 0 <= c < ncommits h -> ancb (ancs h) l0 c = true.
Proof. exact master_full. Qed.
Print Assumptions C01_master_holds_all.

(* everything Finalize returns (Analysis.finalize = the dense matrices and ownership tables of burndown.go Finalize) *)
Theorem C01_finalize : forall h cf aidx plan w b lb l0 G S fin,
  conflict_free h = true -> single_head h = true ->
  (forall c, 0 <= c < ncommits h -> tick_of h c < mark) -> (forall c, 0 <= znth 0 aidx c < author_missing) ->
  c_people cf <= author_missing ->
  plan_okb h plan = true -> run_hist cf h aidx plan = Ok w -> 1 <= G -> 1 <= S ->
  aget (w_branches w) b = Some lb -> lb_last lb = Some l0 ->
  (forall c, 0 <= c < ncommits h -> ancb (ancs h) l0 c = true) ->
  finalize cf G S (lb_state lb) (w_shared w) = Ok fin ->
  fin_global fin = truth_project h G S /\
  (forall p M, In (p, M) (fin_files fin) -> M = truth_file h G S p) /\
  (forall p tbl seq, In (p, tbl) (fin_owner fin) -> In (p, seq) (h_paths h) ->
     forall i, aget_d 0 tbl i =
       count (fun pl => keep_path p pl &&
                        ((if c_people cf =? 0 then -1 else znth 0 aidx (l_born (snd pl))) =? i)) (head_lines h)) /\
  (forall j M d, nth_error (fin_people fin) j = Some M ->
     (forall c, 0 <= c < ncommits h -> (znth 0 aidx c =? Z.of_nat j) = (author_of h c =? d)) ->
     M = truth_dev h G S d).
Proof. exact finalize_truth. Qed.
Print Assumptions C01_finalize.

(* corollaries: no negative cell; with a single head the last row sums to the lines of the file / developer at HEAD *)
Theorem C01_files_no_negative_cell : forall h cf aidx plan w G S M last p k Mp lp,
  conflict_free h = true -> (forall c, 0 <= c < ncommits h -> tick_of h c < mark) ->
  (forall c, 0 <= znth 0 aidx c) -> c_files cf = true ->
  plan_okb h plan = true -> run_hist cf h aidx plan = Ok w ->
  1 <= G -> 1 <= S -> group_sparse_history G S (s_gh (w_shared w)) (-1) = Ok (M, last) ->
  aget (s_names (w_shared w)) p = Some k ->
  group_sparse_history G S (aget_d [] (s_fhs (w_shared w)) k) last = Ok (Mp, lp) ->
  forall row, In row Mp -> forall v, In v row -> 0 <= v.
Proof. exact files_nonneg. Qed.
Print Assumptions C01_files_no_negative_cell.

Theorem C01_files_last_row_is_head : forall h cf aidx plan w G S M last p k Mp lp,
  conflict_free h = true -> single_head h = true ->
  (forall c, 0 <= c < ncommits h -> tick_of h c < mark) -> (forall c, 0 <= znth 0 aidx c) ->
  c_files cf = true -> plan_okb h plan = true -> run_hist cf h aidx plan = Ok w ->
  1 <= G -> 1 <= S -> group_sparse_history G S (s_gh (w_shared w)) (-1) = Ok (M, last) ->
  aget (s_names (w_shared w)) p = Some k ->
  group_sparse_history G S (aget_d [] (s_fhs (w_shared w)) k) last = Ok (Mp, lp) ->
  sum_z (nth (Z.to_nat (last / S)) Mp []) = count (keep_path p) (head_lines h).
Proof. exact files_last_row. Qed.
Print Assumptions C01_files_last_row_is_head.

Theorem C01_people_no_negative_cell : forall h cf aidx plan w G S M last i d Mi li,
  conflict_free h = true -> (forall c, 0 <= c < ncommits h -> tick_of h c < mark) ->
  (forall c, 0 <= znth 0 aidx c) -> c_people cf <> 0 -> i <> author_missing ->
  (forall c, 0 <= c < ncommits h -> (znth 0 aidx c =? i) = (author_of h c =? d)) ->
  plan_okb h plan = true -> run_hist cf h aidx plan = Ok w ->
  1 <= G -> 1 <= S -> group_sparse_history G S (s_gh (w_shared w)) (-1) = Ok (M, last) ->
  group_sparse_history G S (aget_d [] (s_phs (w_shared w)) i) last = Ok (Mi, li) ->
  forall row, In row Mi -> forall v, In v row -> 0 <= v.
Proof. exact people_nonneg. Qed.
Print Assumptions C01_people_no_negative_cell.

Theorem C01_people_last_row_is_head : forall h cf aidx plan w G S M last i d Mi li,
  conflict_free h = true -> single_head h = true ->
  (forall c, 0 <= c < ncommits h -> tick_of h c < mark) -> (forall c, 0 <= znth 0 aidx c) ->
  c_people cf <> 0 -> i <> author_missing ->
  (forall c, 0 <= c < ncommits h -> (znth 0 aidx c =? i) = (author_of h c =? d)) ->
  plan_okb h plan = true -> run_hist cf h aidx plan = Ok w ->
  1 <= G -> 1 <= S -> group_sparse_history G S (s_gh (w_shared w)) (-1) = Ok (M, last) ->
  group_sparse_history G S (aget_d [] (s_phs (w_shared w)) i) last = Ok (Mi, li) ->
  sum_z (nth (Z.to_nat (last / S)) Mi []) = count (keep_dev h d) (head_lines h).
Proof. exact people_last_row. Qed.
Print Assumptions C01_people_last_row_is_head.

(* non-vacuity: the diamond of C01_matrix_nonvacuous (two paths, two developers, a merge that adds a line, a line of
   commit 0 killed on a branch): every hypothesis of C01_finalize / C01_master_holds_all holds and Finalize returns
   exactly the per-file, per-developer and ownership ground truth *)
Example C01_files_people_ownership_nonvacuous :
  conflict_free ex_dag = true /\ single_head ex_dag = true /\ plan_okb ex_dag ex_dag_plan = true /\
  master_all ex_dag ex_dag_plan = true /\
  match run_hist (mkCfg 2 true) ex_dag [0; 1; 0; 1] ex_dag_plan with
  | Ok w =>
      s_names (w_shared w) = [(0, 0); (1, 1)] /\
      match master w with
      | Some (b, lb) =>
          lb_last lb = Some 3 /\
          match finalize (mkCfg 2 true) 2 1 (lb_state lb) (w_shared w) with
          | Ok fin =>
              fin_files fin = [(0, truth_file ex_dag 2 1 0); (1, truth_file ex_dag 2 1 1)] /\
              fin_files fin = [(0, [[2; 0]; [3; 0]; [3; 0]; [3; 1]]); (1, [[0; 0]; [1; 0]; [1; 0]; [1; 0]])] /\
              fin_people fin = [truth_dev ex_dag 2 1 0; truth_dev ex_dag 2 1 1] /\
              fin_people fin = [[[2; 0]; [3; 0]; [3; 0]; [3; 0]]; [[0; 0]; [1; 0]; [1; 0]; [1; 1]]] /\
              fin_owner fin = [(0, truth_ownership ex_dag 0 [0; 1]); (1, truth_ownership ex_dag 1 [0; 1])] /\
              fin_owner fin = [(0, [(0, 2); (1, 2)]); (1, [(0, 1)])]
          | _ => False
          end
      | None => False
      end
  | _ => False
  end.
Proof. vm_compute. repeat split; reflexivity. Qed.

(* ---- coverage: which matrices exist, Finalize does not fail ---- *)
(* a path has a non-empty file history (hence a per-file matrix) iff it has at least one line in the history *)
Theorem C01_files_cover : forall h cf aidx plan w,
  conflict_free h = true -> (forall c, 0 <= c < ncommits h -> tick_of h c < mark) -> (forall c, 0 <= znth 0 aidx c) ->
  c_files cf = true -> plan_okb h plan = true -> run_hist cf h aidx plan = Ok w ->
  forall p, In p (paths_with_lines h) <->
            exists k, aget (s_names (w_shared w)) p = Some k /\ aget_d [] (s_fhs (w_shared w)) k <> [].
Proof. exact files_cover. Qed.
Print Assumptions C01_files_cover.

(* on the domain of the property (conflict-free, at least one line: the complement of F11) Finalize succeeds *)
Theorem C01_finalize_succeeds : forall h cf aidx plan w G S b,
  conflict_free h = true -> (forall c, 0 <= c < ncommits h -> tick_of h c < mark) -> (forall c, 0 <= znth 0 aidx c) ->
  c_people cf <= author_missing -> has_line h = true ->
  plan_okb h plan = true -> run_hist cf h aidx plan = Ok w -> 1 <= G -> 1 <= S ->
  exists fin, finalize cf G S b (w_shared w) = Ok fin.
Proof. exact finalize_succeeds. Qed.
Print Assumptions C01_finalize_succeeds.

(* what Finalize returns has exactly one per-file matrix and one ownership table per path with a line, and one
   developer matrix per people index (their contents: C01_finalize) *)
Theorem C01_finalize_cover : forall h cf aidx plan w b lb l0 G S fin,
  conflict_free h = true -> (forall c, 0 <= c < ncommits h -> tick_of h c < mark) -> (forall c, 0 <= znth 0 aidx c) ->
  c_files cf = true -> plan_okb h plan = true -> run_hist cf h aidx plan = Ok w ->
  aget (w_branches w) b = Some lb -> lb_last lb = Some l0 ->
  (forall c, 0 <= c < ncommits h -> ancb (ancs h) l0 c = true) ->
  finalize cf G S (lb_state lb) (w_shared w) = Ok fin ->
  NoDup (map fst (fin_files fin)) /\
  (forall p, In p (map fst (fin_files fin)) <-> In p (paths_with_lines h)) /\
  map fst (fin_owner fin) = map fst (fin_files fin) /\
  length (fin_people fin) = Z.to_nat (c_people cf).
Proof. exact finalize_cover. Qed.
Print Assumptions C01_finalize_cover.

Example C01_cover_nonvacuous :
  has_line ex_dag = true /\ paths_with_lines ex_dag = [0; 1] /\
  match run_hist (mkCfg 2 true) ex_dag [0; 1; 0; 1] ex_dag_plan with
  | Ok w => aget_d [] (s_fhs (w_shared w)) 0 <> [] /\ aget_d [] (s_fhs (w_shared w)) 1 <> []
  | _ => False
  end.
Proof. vm_compute. repeat split; discriminate. Qed.

(* ==== composition with C03/C07/C02 ==== *)
(* C01's theorems above are about an analysis over ARRAYS, validated by C01's own plan validator [plan_okb].
   This block discharges, inside Coq, the three cross-property hypotheses listed in docs/C01.md:
     (a) tracker = array               by the C03 model (File/Model.v: update, new_file) and its theorems,
     (b) File.Merge = the per-line rule by the C07 model (FileMerge/Model.v: merge_one, stamp_pass, rebuild),
     (c) the executed plan is valid    by C02's validator (Plan/Checker.v: plan_ok).
   Vocabulary (theories/Burndown/ComposeFile.v, ComposeMerge.v, ComposePlan.v, Compose.v):
     tfile = node list of the tree + history handle; flat_file f = its array (C03 flatten);
     tr_update / tr_new / thm_loop / tr_file_merge = File.Update / NewFile / the loop of handleModification /
       File.Merge on node lists, the delta records of the C03 / C07 models fed to the updaters of the analysis;
     rel_res R x y = both runs fail, or both succeed with R-related results;
     file_rel (f, s) (a, s') = f is a well-formed C03 state with uint32 values, flat_file f = a, s = s';
     trun = plan execution of the analysis over trackers (tstep, tconsume, tanalysis_merge ...: burndown.go
       transcribed as in Analysis.v with tfile in the place of the array), Hibernate / Boot = functions hib, boot;
     w_rel tw w = every tracked file of tw is a well-formed C03 state and flat_world tw = w (same shared histories);
     graph_of h = the parent lists of h as a C02 commit graph, tr_plan = C02 plan syntax -> C01 plan syntax. *)
From Coq Require Import Lia.
From Herc Require Import Burndown.ComposeFile Burndown.ComposeMerge Burndown.ComposePlan Burndown.Compose.

(* ---- (a) the C03 tracker realises the array interface, request by request ---- *)
(* side conditions: the value is a uint32 below TreeEnd, the new length fits a uint32; the EMPTY request at a
   position beyond 2^32-1 is excluded (there File.Update panics on its position guard while the array model
   returns; the analysis never issues it: its only empty request is the deletion of an empty file at position 0) *)
Theorem C01_tracker_update : forall cf f sh t pos ins del,
  tf_ok f -> 0 <= t < 4294967295 ->
  Z.of_nat (length (FS.flatten (tf_nodes f))) + ins <= 4294967295 ->
  (pos <= 4294967295 \/ ins <> 0 \/ del <> 0) ->
  rel_res file_rel (tr_update cf f sh t pos ins del) (arr_update cf (flat_file f) sh t pos ins del).
Proof. exact tr_update_agree. Qed.
Print Assumptions C01_tracker_update.

Theorem C01_tracker_new_file : forall cf hd sh t n,
  0 <= t <= 4294967295 -> 0 <= n <= 4294967295 ->
  rel_res file_rel (tr_new cf hd sh t n)
    (match update_time cf hd sh t t n with
     | Ok s2 => Ok (mkFile (repeat t (Z.to_nat n)) hd, s2)
     | Panic c => Panic c
     | Err c => Err c
     end).
Proof. exact tr_new_agree. Qed.
Print Assumptions C01_tracker_new_file.

(* the loop of handleModification: any diff script, as long as the lines it may insert fit a uint32 *)
Theorem C01_tracker_modification : forall cf t, 0 <= t < 4294967295 -> forall diffs pos pending f sh,
  tf_ok f ->
  Z.of_nat (length (FS.flatten (tf_nodes f))) + ins_of pending + ins_total diffs <= 4294967295 ->
  rel_res file_rel (thm_loop cf t diffs pos pending f sh) (hm_loop cf t diffs pos pending (flat_file f) sh).
Proof. exact thm_loop_agree. Qed.
Print Assumptions C01_tracker_modification.

(* what the delta records of one valid File.Update do to the observers = what the array model books *)
Theorem C01_tracker_reports : forall cf hd sh t P ins del s,
  FS.WF s -> FR.in_range s t P ins del -> (ins <> 0 \/ del <> 0) -> FR.compat_lines s t P del ->
  feed cf hd sh (FR.upd_reports t P ins del s) =
  bindr (if 0 <? ins then update_time cf hd sh t t ins else Ok sh)
        (fun s1 => report_deleted cf hd s1 t (firstn (Z.to_nat del) (skipn (Z.to_nat P) (FS.flatten s)))).
Proof. exact feed_upd_reports. Qed.
Print Assumptions C01_tracker_reports.

(* ---- (b) the C07 File.Merge realises the merge rule of the analysis ---- *)
Theorem C01_tracker_merge : forall cf day f others sh,
  tf_ok f -> Forall tf_ok others -> 0 <= day <= 4294967295 ->
  rel_res file_rel (tr_file_merge cf day f others sh)
                   (file_merge cf day (flat_file f) (map flat_file others) sh).
Proof. exact tr_file_merge_agree. Qed.
Print Assumptions C01_tracker_merge.

(* ... which is C07's declarative rule: first copy with the minimal real tick, else the merge day *)
Theorem C01_merge_is_C07_rule : forall cf day f others s f' s',
  file_merge cf day f others s = Ok (f', s') ->
  f_vals f' = MM.spec_lines day (f_vals f) (map f_vals others).
Proof. exact file_merge_is_C07_rule. Qed.
Print Assumptions C01_merge_is_C07_rule.

(* the notions that the developments define twice are equal *)
Theorem C01_same_notions :
  (forall v, FM.is_mark v = is_mark v) /\ (forall v, MM.mark v = is_mark v) /\
  (forall ns, FS.WF ns -> MM.flatten ns = FS.flatten ns) /\
  (forall a o, MM.merge_one a o = merge_lines a o) /\
  (forall v l, FS.hist v l = count (Z.eqb v) l) /\
  (forall l, vals_ok l -> Z.of_nat (length l) <= 4294967295 ->
     FS.WF (MM.rebuild l) /\ FS.flatten (MM.rebuild l) = l).
Proof.
  exact (conj is_mark_eq (conj mark_eq (conj flatten_eq (conj merge_one_eq (conj hist_count rebuild_WF))))).
Qed.
Print Assumptions C01_same_notions.

(* ---- the whole analysis: over real trackers = over arrays, along ANY plan, with ANY plumbing ---- *)
Theorem C01_tracker_run : forall cf author_of_commit tick_of_commit changes hib boot,
  (forall c, 0 <= author_of_commit c <= 262142) ->                 (* people index within 0..AuthorMissing *)
  (forall c, 0 <= tick_of_commit c < 4294967295) ->
  (forall last c, changes_fit (changes last c)) ->                 (* line counts fit a uint32 *)
  (forall b, hib b = b) -> (forall b, boot b = b) ->
  forall plan,
  rel_res w_rel (trun cf author_of_commit tick_of_commit changes hib boot plan)
                (run cf author_of_commit tick_of_commit changes plan).
Proof. exact trun_agree. Qed.
Print Assumptions C01_tracker_run.

(* ---- (c) a plan accepted by C02's validator is accepted by C01's ---- *)
(* the third hypothesis is needed: C02 demands the largest connected component only (C01_plan_coverage_needed) *)
Theorem C01_plan_validators : forall h p,
  commits_okb h = true -> PC.plan_ok (graph_of h) p = true ->
  (forall c, (c < length (h_parents h))%nat -> In c (PS.analysed p)) ->
  plan_okb h (tr_plan p) = true.
Proof. exact plan_ok_implies_plan_okb. Qed.
Print Assumptions C01_plan_validators.

Theorem C01_plan_validators_single_head : forall h p,
  commits_okb h = true -> single_head h = true -> PC.plan_ok (graph_of h) p = true ->
  plan_okb h (tr_plan p) = true.
Proof. exact plan_ok_implies_plan_okb_single_head. Qed.
Print Assumptions C01_plan_validators_single_head.

Example C01_plan_coverage_needed :
  commits_okb two_roots = true /\ PC.plan_ok (graph_of two_roots) two_roots_plan = true /\
  plan_okb two_roots (tr_plan two_roots_plan) = false.
Proof. exact coverage_needed. Qed.

(* ---- the composed end-to-end theorem ---- *)
(* Burndown analysis over C03 trackers and C07 merges, executed along a plan accepted by C02's plan_ok, on a
   conflict-free history: the dense project matrix IS the ground truth.
   Side conditions: ticks < 16383; people indices within 0..AuthorMissing (values fit a uint32); every path has
   fewer than 2^31 lines in its history (lengths fit a uint32 at every step); every commit is in the plan.
   Remaining external hypotheses, each named:
     Hdiff  (C20 tree diff + C11 file diff)  the changes of a commit are the canonical script of the two line sets,
     Hticks (C19)                            the tick of a commit is the day recorded in the history,
     Hauth  (C16)                            the author of a commit is its people index,
     Hhib   (C09)                            Hibernate / Boot leave the analysis state of a branch unchanged. *)
Theorem C01_matrix_composed :
  forall h cf aidx author_of_commit tick_of_commit changes hib boot p tw G S M last,
  conflict_free h = true ->
  (forall c, 0 <= c < ncommits h -> tick_of h c < mark) ->
  (forall c, 0 <= znth 0 aidx c <= 262142) ->
  (forall pl, In pl (h_paths h) -> 2 * Z.of_nat (length (snd pl)) <= 4294967295) ->
  forall (Hdiff : forall last c, changes last c = changes_of h (ancs h) last c)
         (Hticks : forall c, tick_of_commit c = tick_of h c)
         (Hauth : forall c, author_of_commit c = znth 0 aidx c)
         (Hhib : (forall b, hib b = b) /\ (forall b, boot b = b)),
  PC.plan_ok (graph_of h) p = true ->
  (forall c, (c < length (h_parents h))%nat -> In c (PS.analysed p)) ->
  trun cf author_of_commit tick_of_commit changes hib boot (tr_plan p) = Ok tw ->
  1 <= G -> 1 <= S -> group_sparse_history G S (s_gh (tw_shared tw)) (-1) = Ok (M, last) ->
  M = truth_project h G S /\ last = last_event h.
Proof.
  intros h cf aidx author_of_commit tick_of_commit changes hib boot p tw G S M last Hcf Hm Ha Hs Hdiff Hticks Hauth Hhib.
  exact (matrix_composed h cf aidx author_of_commit tick_of_commit changes hib boot Hcf Hm Ha Hs Hdiff Hticks Hauth Hhib
           p tw G S M last).
Qed.
Print Assumptions C01_matrix_composed.

(* the same with C01's single-head condition in the place of "every commit is in the plan" *)
Theorem C01_matrix_composed_single_head :
  forall h cf aidx author_of_commit tick_of_commit changes hib boot p tw G S M last,
  conflict_free h = true -> single_head h = true ->
  (forall c, 0 <= c < ncommits h -> tick_of h c < mark) ->
  (forall c, 0 <= znth 0 aidx c <= 262142) ->
  (forall pl, In pl (h_paths h) -> 2 * Z.of_nat (length (snd pl)) <= 4294967295) ->
  forall (Hdiff : forall last c, changes last c = changes_of h (ancs h) last c)
         (Hticks : forall c, tick_of_commit c = tick_of h c)
         (Hauth : forall c, author_of_commit c = znth 0 aidx c)
         (Hhib : (forall b, hib b = b) /\ (forall b, boot b = b)),
  PC.plan_ok (graph_of h) p = true ->
  trun cf author_of_commit tick_of_commit changes hib boot (tr_plan p) = Ok tw ->
  1 <= G -> 1 <= S -> group_sparse_history G S (s_gh (tw_shared tw)) (-1) = Ok (M, last) ->
  M = truth_project h G S /\ last = last_event h.
Proof.
  intros h cf aidx author_of_commit tick_of_commit changes hib boot p tw G S M last Hcf Hsh Hm Ha Hs Hdiff Hticks Hauth Hhib
         Hp E HG HS Eg.
  exact (matrix_composed_single_head h cf aidx author_of_commit tick_of_commit changes hib boot Hcf Hm Ha Hs Hdiff Hticks
           Hauth Hhib p tw G S M last Hp Hsh E HG HS Eg).
Qed.
Print Assumptions C01_matrix_composed_single_head.

(* the sparse history itself (the statement of C01_global_sparse) over trackers and a C02 plan *)
Theorem C01_global_sparse_composed :
  forall h cf aidx author_of_commit tick_of_commit changes hib boot p tw,
  conflict_free h = true ->
  (forall c, 0 <= c < ncommits h -> tick_of h c < mark) ->
  (forall c, 0 <= znth 0 aidx c <= 262142) ->
  (forall pl, In pl (h_paths h) -> 2 * Z.of_nat (length (snd pl)) <= 4294967295) ->
  forall (Hdiff : forall last c, changes last c = changes_of h (ancs h) last c)
         (Hticks : forall c, tick_of_commit c = tick_of h c)
         (Hauth : forall c, author_of_commit c = znth 0 aidx c)
         (Hhib : (forall b, hib b = b) /\ (forall b, boot b = b)),
  PC.plan_ok (graph_of h) p = true ->
  (forall c, (c < length (h_parents h))%nat -> In c (PS.analysed p)) ->
  trun cf author_of_commit tick_of_commit changes hib boot (tr_plan p) = Ok tw ->
  forall P, wsum P (s_gh (tw_shared tw)) = sum_z (map (contrib h P) (zrange (ncommits h))).
Proof.
  intros h cf aidx author_of_commit tick_of_commit changes hib boot p tw Hcf Hm Ha Hs Hdiff Hticks Hauth Hhib.
  exact (global_sparse_composed h cf aidx author_of_commit tick_of_commit changes hib boot Hcf Hm Ha Hs Hdiff Hticks Hauth
           Hhib p tw).
Qed.
Print Assumptions C01_global_sparse_composed.

(* the model run over arrays succeeds iff the run over trackers does (so "the model run succeeds" of the
   theorems above the line and "the tracker run succeeds" here are the same hypothesis) *)
Theorem C01_runs_succeed_together :
  forall h cf aidx plan,
  conflict_free h = true ->
  (forall c, 0 <= c < ncommits h -> tick_of h c < mark) ->
  (forall c, 0 <= znth 0 aidx c <= 262142) ->
  (forall pl, In pl (h_paths h) -> 2 * Z.of_nat (length (snd pl)) <= 4294967295) ->
  (forall tw, trun cf (fun c => znth 0 aidx c) (tick_of h) (changes_of h (ancs h)) (fun b => b) (fun b => b) plan = Ok tw ->
     run_hist cf h aidx plan = Ok (flat_world tw) /\ tw_ok tw) /\
  (forall w, run_hist cf h aidx plan = Ok w ->
     exists tw, trun cf (fun c => znth 0 aidx c) (tick_of h) (changes_of h (ancs h)) (fun b => b) (fun b => b) plan = Ok tw /\
                flat_world tw = w /\ tw_ok tw).
Proof.
  intros h cf aidx plan Hcf Hm Ha Hs. split.
  - intros tw. apply (trun_is_run_hist h cf aidx _ _ _ _ _ Hcf Hm Ha Hs); unfold diffs_canonical, ticks_are_days,
      authors_are_indices, hibernation_identity; auto.
  - intros w. apply (run_hist_is_trun h cf aidx _ _ _ _ _ Hcf Hm Ha Hs); unfold diffs_canonical, ticks_are_days,
      authors_are_indices, hibernation_identity; auto.
Qed.
Print Assumptions C01_runs_succeed_together.

(* non-vacuity: the diamond ex_dag over real trackers along the C02 plan of props/C02.v (C02_accepts_diamond):
   every hypothesis of C01_matrix_composed holds, the run succeeds, the matrix is the ground truth, and the
   surviving branch holds the two files as C03 node lists (values = tick + author * 2^14) *)
Example C01_matrix_composed_nonvacuous :
  conflict_free ex_dag = true /\ PC.plan_ok (graph_of ex_dag) diamond_plan02 = true /\
  tr_plan diamond_plan02 = ex_dag_plan /\
  (forall c, (c < length (h_parents ex_dag))%nat -> In c (PS.analysed diamond_plan02)) /\
  (forall pl, In pl (h_paths ex_dag) -> 2 * Z.of_nat (length (snd pl)) <= 4294967295) /\
  match trun (mkCfg 2 true) (fun c => znth 0 [0; 1; 0; 1] c) (tick_of ex_dag) (changes_of ex_dag (ancs ex_dag))
             (fun b => b) (fun b => b) (tr_plan diamond_plan02) with
  | Ok tw => group_sparse_history 2 1 (s_gh (tw_shared tw)) (-1) = Ok (truth_project ex_dag 2 1, 3) /\
             map (fun kb => map (fun kf => tf_nodes (snd kf)) (tb_files (tlb_state (snd kb)))) (tw_branches tw)
             = [[[(0, 0); (1, 16385); (2, 16387); (3, 1); (4, 4294967295)]; [(0, 1); (1, 4294967295)]]]
  | _ => False
  end.
Proof.
  split; [vm_compute; reflexivity|]. split; [vm_compute; reflexivity|]. split; [vm_compute; reflexivity|].
  split; [exact ex_all_planned|]. split; [exact ex_sizes_ok|]. vm_compute. split; reflexivity.
Qed.

(* ---- C01_linear over real trackers: arbitrary edit scripts on one branch ---- *)
(* lin_fits: people indices within 0..AuthorMissing, ticks uint32, line counts of every change fit a uint32 *)
Theorem C01_linear_composed : forall cf G S cs tb s M last,
  1 <= S -> 1 <= G -> lin_wf 0 [] cs = true ->
  Forall (fun c => 0 <= lc_author c <= 262142 /\ 0 <= lc_tick c < 4294967295 /\ changes_fit (lc_changes c)) cs ->
  tlin_run cf cs tbranch0 shared0 = Ok (tb, s) ->
  group_sparse_history G S (s_gh s) (-1) = Ok (M, last) ->
  forall sidx, 0 <= sidx <= last / S ->
    (forall bidx, 0 <= bidx <= last / G -> 0 <= cell M sidx bidx) /\
    (forall pre suf, cs = pre ++ suf ->
       (forall c, In c pre -> lc_tick c <= sample_end S sidx) ->
       (forall c, In c suf -> sample_end S sidx < lc_tick c) ->
       sum_z (map (cell M sidx) (zrange (last / G + 1))) = stotal (snap_run pre [])).
Proof. exact linear_composed. Qed.
Print Assumptions C01_linear_composed.

Example C01_linear_composed_nonvacuous :
  lin_wf 0 [] ex_lin = true /\
  Forall (fun c => 0 <= lc_author c <= 262142 /\ 0 <= lc_tick c < 4294967295 /\ changes_fit (lc_changes c)) ex_lin /\
  match tlin_run (mkCfg 0 false) ex_lin tbranch0 shared0 with
  | Ok (tb, s) => group_sparse_history 2 2 (s_gh s) (-1) = Ok ([[3; 0; 0]; [2; 3; 0]; [0; 0; 4]], 5) /\
                  map (fun kf => tf_nodes (snd kf)) (tb_files tb) = [[(0, 5); (4, 4294967295)]]
  | _ => False
  end.
Proof.
  split; [vm_compute; reflexivity|]. split.
  - unfold ex_lin, changes_fit. repeat (apply Forall_cons || apply Forall_nil); cbn [lc_author lc_tick lc_changes];
      (split; [lia|split; [lia|]]); repeat (apply Forall_cons || apply Forall_nil);
      vm_compute; repeat split; discriminate.
  - vm_compute. split; reflexivity.
Qed.

(* ---- the per-file and per-developer matrices (C01_files, C01_people above) over trackers and a C02 plan ---- *)
(* the shared histories of the tracker run ARE those of the array run (C01_tracker_run), so every theorem above
   about w_shared transfers; spelled out for the two dense matrices *)
Theorem C01_files_composed :
  forall h cf aidx author_of_commit tick_of_commit changes hib boot p tw G S M last path k Mp lp,
  conflict_free h = true ->
  (forall c, 0 <= c < ncommits h -> tick_of h c < mark) ->
  (forall c, 0 <= znth 0 aidx c <= 262142) ->
  (forall pl, In pl (h_paths h) -> 2 * Z.of_nat (length (snd pl)) <= 4294967295) ->
  forall (Hdiff : forall last c, changes last c = changes_of h (ancs h) last c)
         (Hticks : forall c, tick_of_commit c = tick_of h c)
         (Hauth : forall c, author_of_commit c = znth 0 aidx c)
         (Hhib : (forall b, hib b = b) /\ (forall b, boot b = b)),
  c_files cf = true ->
  PC.plan_ok (graph_of h) p = true ->
  (forall c, (c < length (h_parents h))%nat -> In c (PS.analysed p)) ->
  trun cf author_of_commit tick_of_commit changes hib boot (tr_plan p) = Ok tw ->
  1 <= G -> 1 <= S -> group_sparse_history G S (s_gh (tw_shared tw)) (-1) = Ok (M, last) ->
  aget (s_names (tw_shared tw)) path = Some k ->
  group_sparse_history G S (aget_d [] (s_fhs (tw_shared tw)) k) last = Ok (Mp, lp) ->
  Mp = truth_file h G S path /\ lp = last.
Proof.
  intros h cf aidx author_of_commit tick_of_commit changes hib boot p tw G S M last path k Mp lp
         Hcf Hm Ha Hs Hdiff Hticks Hauth Hhib Hf Hp Hall E HG HS Eg En Ef.
  destruct (trun_is_run_hist h cf aidx author_of_commit tick_of_commit changes hib boot Hcf Hm Ha Hs Hdiff Hticks Hauth Hhib
              (tr_plan p) tw E) as [Er _].
  exact (C01_files h cf aidx (tr_plan p) (flat_world tw) G S M last path k Mp lp Hcf Hm (fun c => proj1 (Ha c)) Hf
           (plan_ok_implies_plan_okb h p (proj1 (cf_parts h Hcf)) Hp Hall) Er HG HS Eg En Ef).
Qed.
Print Assumptions C01_files_composed.

Theorem C01_people_composed :
  forall h cf aidx author_of_commit tick_of_commit changes hib boot p tw G S M last i d Mi li,
  conflict_free h = true ->
  (forall c, 0 <= c < ncommits h -> tick_of h c < mark) ->
  (forall c, 0 <= znth 0 aidx c <= 262142) ->
  (forall pl, In pl (h_paths h) -> 2 * Z.of_nat (length (snd pl)) <= 4294967295) ->
  forall (Hdiff : forall last c, changes last c = changes_of h (ancs h) last c)
         (Hticks : forall c, tick_of_commit c = tick_of h c)
         (Hauth : forall c, author_of_commit c = znth 0 aidx c)
         (Hhib : (forall b, hib b = b) /\ (forall b, boot b = b)),
  c_people cf <> 0 -> i <> author_missing ->
  (forall c, 0 <= c < ncommits h -> (znth 0 aidx c =? i) = (author_of h c =? d)) ->
  PC.plan_ok (graph_of h) p = true ->
  (forall c, (c < length (h_parents h))%nat -> In c (PS.analysed p)) ->
  trun cf author_of_commit tick_of_commit changes hib boot (tr_plan p) = Ok tw ->
  1 <= G -> 1 <= S -> group_sparse_history G S (s_gh (tw_shared tw)) (-1) = Ok (M, last) ->
  group_sparse_history G S (aget_d [] (s_phs (tw_shared tw)) i) last = Ok (Mi, li) ->
  Mi = truth_dev h G S d /\ li = last.
Proof.
  intros h cf aidx author_of_commit tick_of_commit changes hib boot p tw G S M last i d Mi li
         Hcf Hm Ha Hs Hdiff Hticks Hauth Hhib Hpe Hi Hid Hp Hall E HG HS Eg Ei.
  destruct (trun_is_run_hist h cf aidx author_of_commit tick_of_commit changes hib boot Hcf Hm Ha Hs Hdiff Hticks Hauth Hhib
              (tr_plan p) tw E) as [Er _].
  exact (C01_people h cf aidx (tr_plan p) (flat_world tw) G S M last i d Mi li Hcf Hm (fun c => proj1 (Ha c)) Hpe Hi Hid
           (plan_ok_implies_plan_okb h p (proj1 (cf_parts h Hcf)) Hp Hall) Er HG HS Eg Ei).
Qed.
Print Assumptions C01_people_composed.

(* ---- the edge of the domain: path deletion on a DAG (theories/Burndown/PathDel.v) ----
   [conflict_free] histories never delete a path: a path that exists in a commit exists in every descendant (a file whose
   lines are all killed stays as an empty file).  C01_global_sparse, C01_matrix, C01_files, C01_people, C01_ownership,
   C01_finalize and their corollaries therefore cover histories WITHOUT path deletion (and without renames): their
   canonical change lists never contain CDelete and handle_deletion is never executed. *)
From Herc Require Import Burndown.Linear Burndown.PathDel.

Theorem C01_domain_paths_never_disappear : forall h c a seq,
  conflict_free h = true -> 0 <= c < ncommits h -> ancb (ancs h) c a = true ->
  path_exists (ancs h) a seq = true -> path_exists (ancs h) c seq = true.
Proof. exact path_exists_mono. Qed.
Print Assumptions C01_domain_paths_never_disappear.

(* With path deletions admitted (conflict_free_pd: a file is deleted by a one-parent commit that kills all its lines, nobody
   touches the file concurrently, a deleted path may be re-created as a new file; every merge still the clean union of its
   parents, every line killed by at most one commit) the statement of C01_matrix is FALSE of the model - and of the Go code,
   which returns the same matrix on this history (known finding, PROPFAIL marker [path-deleted-on-a-branch]):
   R (f: 3 lines, h: 1 line) -> A deletes f -> A2 re-creates f (2 lines);  R -> B adds a line to h;  M = merge (A, B);
   M2 = merge (M, A2).  When M is replayed on B's branch, deletions[f] has been cleared by A2's insertion and
   handleDeletion books the three old lines a second time, at tick 0: row 0 is [1; 0; 0] instead of [4; 0; 0], the rows
   after it start with -2. *)
Theorem C01_matrix_refuted_with_path_deletion :
  exists (pd : pdhist) (plan : list action) (cf : cfg) (aidx : list Z) (G S : Z) (w : world) (M : list (list Z)) (last : Z),
    conflict_free_pd pd = true /\
    forallb (fun c => tick_of (pd_h pd) c <? mark) (zrange (ncommits (pd_h pd))) = true /\
    plan_okb (pd_h pd) plan = true /\
    run_hist_pd cf pd aidx plan = Ok w /\
    1 <= G /\ 1 <= S /\
    group_sparse_history G S (s_gh (w_shared w)) (-1) = Ok (M, last) /\
    M <> truth_project (pd_h pd) G S /\
    nonneg_matrix M = false /\
    truth_project (pd_h pd) G S = [[4; 0; 0]; [1; 1; 0]; [1; 1; 2]] /\ M = [[1; 0; 0]; [-2; 1; 0]; [-2; 1; 2]].
Proof. exact matrix_refuted_with_path_deletion. Qed.
Print Assumptions C01_matrix_refuted_with_path_deletion.

(* control: the same history without the re-creation is analysed correctly (deletions[f] is still set when M is replayed) *)
Example C01_path_deletion_control :
  conflict_free_pd ctl_pd = true /\ plan_okb ctl_h ctl_plan = true /\
  match run_hist_pd (mkCfg 0 false) ctl_pd [0; 0; 0; 0] ctl_plan with
  | Ok w => group_sparse_history 1 1 (s_gh (w_shared w)) (-1) = Ok (truth_project ctl_h 1 1, 1)
  | _ => False
  end.
Proof. exact path_deletion_control. Qed.
