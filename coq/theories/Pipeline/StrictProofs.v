(* Soundness of the strict validator [chain_order_ok] of Strict.v, its relation to [order_ok], and the
   refutation witness of the region [shallow_secondb]. *)
From Coq Require Import List ZArith Lia Bool Permutation.
From Herc Require Import Toposort.Model Toposort.Assoc Pipeline.Resolve Pipeline.CheckerProofs Pipeline.Strict
  Pipeline.Witnesses.
Import ListNotations.
Open Scope Z_scope.

(* the literal reading with chained providers: strictly before, and nobody after *)
Definition respects_chain (order : list item) : Prop :=
  forall l1 c l3, order = l1 ++ c :: l3 -> forall e, In e (ireq c) ->
    (exists p, In p l1 /\ In e (iprov p)) /\ (forall p, In p l3 -> ~ In e (iprov p)).

Lemma positions_chain_sound : forall rest bef, positions_chain bef rest = true ->
  forall r1 c r3, rest = r1 ++ c :: r3 -> forall e, In e (ireq c) ->
    (exists p, In p (bef ++ r1) /\ In e (iprov p)) /\ (forall p, In p r3 -> ~ In e (iprov p)).
Proof.
  induction rest as [|c0 after IH]; intros bef H r1 c r3 E e He.
  - destruct r1; discriminate.
  - cbn [positions_chain] in H. apply andb_prop in H. destruct H as [H0 H1].
    destruct r1 as [|x r1]; cbn [app] in E.
    + injection E as -> ->. rewrite app_nil_r.
      rewrite forallb_forall in H0. specialize (H0 e He). unfold req_chain in H0.
      apply andb_prop in H0. destruct H0 as [Ha Hb]. split.
      * apply existsb_exists in Ha. destruct Ha as (p & Hp & Hpe). exists p. split; [exact Hp|]. apply providesb_In. exact Hpe.
      * intros p Hp Hpe. rewrite forallb_forall in Hb. specialize (Hb p Hp).
        apply providesb_In in Hpe. rewrite Hpe in Hb. discriminate.
    + injection E as -> ->.
      destruct (IH (bef ++ [x]) H1 r1 c r3 eq_refl e He) as [(p & Hp & Hpe) Hq]. split; [|exact Hq].
      exists p. split; [|exact Hpe]. rewrite <- app_assoc in Hp. exact Hp.
Qed.

Theorem chain_order_ok_sound items order : chain_order_ok items order = true ->
  respects_chain order /\ Permutation order items.
Proof.
  unfold chain_order_ok. intros H. apply andb_prop in H. destruct H as [Hp Ho]. split.
  - intros l1 c l3 E e He. exact (positions_chain_sound order [] Ho l1 c l3 E e He).
  - apply perm_b_sound. exact Hp.
Qed.

(* the strict reading implies the reading with the BlobCache exception: the only provider that does not
   run strictly before the consumer is the consumer itself, which requires its own output *)
Lemma chain_respects items order : respects_chain order -> respects items order.
Proof.
  intros H l1 c l3 E e He. destruct (H l1 c l3 E e He) as [H1 H2]. split; [exact H1|].
  intros p Hp Hpe. destruct Hp as [<-|Hp].
  - exists e. split; [apply d_base; exact Hpe|exact He].
  - exfalso. exact (H2 p Hp Hpe).
Qed.


(* the strict validator is stronger than [order_ok] *)
Lemma downstream_incl items : forall fuel E e, In e E -> In e (downstream_b fuel items E).
Proof.
  induction fuel as [|f IH]; intros E e He; cbn [downstream_b]; [exact He|].
  apply IH. apply in_or_app. left. exact He.
Qed.

Lemma feedsb_self items c e : In e (iprov c) -> In e (ireq c) -> feedsb items c c = true.
Proof.
  intros Hp Hr. unfold feedsb. apply intersects_spec. exists e. split; [exact Hr|].
  apply downstream_incl. exact Hp.
Qed.

Lemma positions_chain_ok items : forall rest bef, positions_chain bef rest = true -> positions_ok items bef rest = true.
Proof.
  induction rest as [|c after IH]; intros bef H; [reflexivity|].
  cbn [positions_chain] in H. apply andb_prop in H. destruct H as [H0 H1].
  cbn [positions_ok]. apply andb_true_intro. split; [|apply IH; exact H1].
  apply forallb_forall. intros e He. rewrite forallb_forall in H0. specialize (H0 e He).
  unfold req_chain in H0. apply andb_prop in H0. destruct H0 as [Ha Hb].
  unfold req_ok. apply andb_true_intro. split; [exact Ha|].
  cbn [forallb]. apply andb_true_intro. split.
  - destruct (providesb c e) eqn:Ec; [|reflexivity]. cbn [negb orb].
    apply (feedsb_self items c e); [apply providesb_In; exact Ec|exact He].
  - apply forallb_forall. intros p Hp. rewrite forallb_forall in Hb. rewrite (Hb p Hp). reflexivity.
Qed.

Theorem chain_order_ok_order_ok items order : chain_order_ok items order = true -> order_ok items order = true.
Proof.
  unfold chain_order_ok, order_ok. intros H. apply andb_prop in H. destruct H as [Hp Ho].
  rewrite Hp. cbn [andb]. apply positions_chain_ok. exact Ho.
Qed.

Theorem strict_checker_main : forall items order, chain_order_ok items order = true ->
  (forall l1 c l3, order = l1 ++ c :: l3 -> forall e, In e (ireq c) ->
     (exists p, In p l1 /\ In e (iprov p)) /\ (forall p, In p l3 -> ~ In e (iprov p))) /\
  Permutation order items /\
  order_ok items order = true.
Proof.
  intros items order H. destruct (chain_order_ok_sound items order H) as [A B].
  split; [exact A|]. split; [exact B|]. exact (chain_order_ok_order_ok items order H).
Qed.

(* ---- the region of the BreadthSort heuristic: refutation witness ----
   names 1 A  2 B  3 C  4 D ; keys 5 [a] 6 [b] 7 [d].
   D provides d;  A provides a, requires d;  B provides b, requires a;  C provides b, requires d and b.
   C is the end of the chain of b, but it is nearer to the root D (distance 2) than B (distance 4):
   resolve chains B behind C, the cycle [b] -> C -> [b] stays and Toposort fails, although
   D, A, B, C runs every item after all the other providers of what it requires. *)
Definition w_shallow_items : list item :=
  [ mkItem 0 4 [7] []; mkItem 1 1 [5] [7]; mkItem 2 2 [6] [5]; mkItem 3 3 [6] [7; 6] ].

Theorem chained_shallow_refuted : exists ch dis items good,
  domain_okb dis items = true /\ region_of items = RRenames /\ shallow_secondb items = true /\
  resolve ch dis items = Err SortFailure /\ chain_order_ok items good = true.
Proof.
  exists ch0, dis0, w_shallow_items, w_shallow_items. repeat split; vm_compute; reflexivity.
Qed.

(* three cascaded stages, the last refiner fed by a one-item side chain (the seeder's cascade(3,1)) :
   names 1 Raw1 2 Raw2 3 Raw3 4 Refine1 5 Refine2 6 Refine3 7 Report 8 Side1 ; keys 11 [k1] 12 [k2] 13 [k3] 14 [model] *)
Definition w_cascade31 : list item :=
  [ mkItem 0 1 [11] []; mkItem 1 4 [11] [11]; mkItem 2 2 [12] [11]; mkItem 3 5 [12] [12];
    mkItem 4 3 [13] [12]; mkItem 5 6 [13] [13; 14]; mkItem 6 8 [14] []; mkItem 7 7 [] [13] ].

Example cascade31_refuted : domain_okb dis0 w_cascade31 = true /\ region_of w_cascade31 = RSeveral /\
  shallow_secondb w_cascade31 = true /\ resolve ch0 dis0 w_cascade31 = Err SortFailure /\
  chain_order_ok w_cascade31
    [ mkItem 0 1 [11] []; mkItem 1 4 [11] [11]; mkItem 2 2 [12] [11]; mkItem 3 5 [12] [12];
      mkItem 4 3 [13] [12]; mkItem 6 8 [14] []; mkItem 5 6 [13] [13; 14]; mkItem 7 7 [] [13] ] = true.
Proof. repeat split; vm_compute; reflexivity. Qed.

(* the built-in shape is outside the region, and the order resolve returns for it is not strict (BlobCache
   consumes the changes of TreeDiff, before RenameAnalysis): no strict order exists for it *)
Example renames_not_shallow : shallow_secondb renames_items' = false.
Proof. vm_compute. reflexivity. Qed.

(* four cascaded stages with a four-item side chain (the smallest witness of seeded change C10-s3) are outside
   the region: the unmodified model resolves them, the order is accepted by the strict validator.
   names 1-4 Raw1-4  5-8 Refine1-4  9 Report  10-13 Side1-4 ; keys 21-24 [k1]-[k4]  25 [model]  26-28 [side1]-[side3] *)
Definition w_cascade44 : list item :=
  [ mkItem 0 1 [21] []; mkItem 1 5 [21] [21]; mkItem 2 2 [22] [21]; mkItem 3 6 [22] [22];
    mkItem 4 3 [23] [22]; mkItem 5 7 [23] [23]; mkItem 6 4 [24] [23]; mkItem 7 8 [24] [24; 25];
    mkItem 8 10 [26] []; mkItem 9 11 [27] [26]; mkItem 10 12 [28] [27]; mkItem 11 13 [25] [28];
    mkItem 12 9 [] [24] ].

Example cascade44_clean : domain_okb dis0 w_cascade44 = true /\ region_of w_cascade44 = RSeveral /\
  shallow_secondb w_cascade44 = false /\
  exists order, resolve ch0 dis0 w_cascade44 = Ok order /\ chain_order_ok w_cascade44 order = true.
Proof.
  split; [vm_compute; reflexivity|]. split; [vm_compute; reflexivity|]. split; [vm_compute; reflexivity|].
  eexists. split; vm_compute; reflexivity.
Qed.
