(* Executable model of Pipeline.DeployItem / AddItem / SetFeature (internal/core/pipeline.go) over
   the registry of internal/core/registry.go (definitions only; proofs in DeployProofs.v).

   Strings (item names, entity keys, feature names) are used by this code only as map keys, so they
   are integer codes here (the replay driver numbers the strings).  The registry is its two Go maps:
     provided   : key  -> the registered items that provide it, in registration order
     registered : name -> the registered item of that name
   Summon(key) = provided[key] ++ [registered[key]].  Summoned items are fresh zero-valued instances;
   what DeployItem reads of them is Name(), Requires(), Features() (and resolve later Provides()). *)
From Coq Require Import List ZArith Lia Bool.
From Herc Require Import Toposort.Model.
Import ListNotations.
Open Scope Z_scope.

Record rentry := mkR { rname : Z; rprov : list Z; rreq : list Z; rfeat : list Z }.

Record registry := mkReg { provided : list (Z * list rentry); registered : list (Z * rentry) }.

Definition summon (r : registry) (key : Z) : list rentry :=
  (match aget (provided r) key with Some l => l | None => [] end) ++
  (match aget (registered r) key with Some x => [x] | None => [] end).

Definition universe (r : registry) : list rentry :=
  flat_map snd (provided r) ++ map snd (registered r).

Definition memz (x : Z) (l : list Z) : bool := existsb (Z.eqb x) l.

(* FeaturedPipelineItem: every feature of the item is switched on in pipeline.features
   (an item that is not a FeaturedPipelineItem has no features) *)
Definition enabledb (feats : list Z) (x : rentry) : bool := forallb (fun f => memz f feats) (rfeat x).

Record dstate := mkD { d_added : list Z; d_queue : list rentry; d_items : list rentry }.

(* for _, sibling := range Registry.Summon(dep) *)
Fixpoint sib_loop (feats : list Z) (sibs : list rentry) (d : dstate) : dstate :=
  match sibs with
  | [] => d
  | sib :: r =>
      if memz (rname sib) (d_added d) then sib_loop feats r d
      else if enabledb feats sib
           then sib_loop feats r (mkD (d_added d ++ [rname sib]) (d_queue d ++ [sib]) (d_items d ++ [sib]))
           else sib_loop feats r d
  end.

(* for _, dep := range head.Requires() *)
Fixpoint dep_loop (r : registry) (feats : list Z) (deps : list Z) (d : dstate) : dstate :=
  match deps with
  | [] => d
  | dep :: ds => dep_loop r feats ds (sib_loop feats (summon r dep) d)
  end.

(* for len(queue) > 0 *)
Fixpoint queue_loop (fuel : nat) (r : registry) (feats : list Z) (d : dstate) : option dstate :=
  match fuel with
  | O => None
  | Datatypes.S f =>
      match d_queue d with
      | [] => Some d
      | head :: q => queue_loop f r feats (dep_loop r feats (rreq head) (mkD (d_added d) q (d_items d)))
      end
  end.

(* the pipeline as far as DeployItem is concerned: items in AddItem order, enabled features *)
Record pipeline := mkP { p_items : list rentry; p_feats : list Z }.

Definition deploy (r : registry) (p : pipeline) (item : rentry) : option pipeline :=
  let feats := p_feats p ++ rfeat item in
  let d0 := mkD (map rname (p_items p) ++ [rname item]) [item] (p_items p ++ [item]) in
  match queue_loop (Datatypes.S (Datatypes.S (length (universe r)))) r feats d0 with
  | None => None
  | Some d => Some (mkP (d_items d) feats)
  end.

(* SetFeature *)
Definition set_feature (p : pipeline) (f : Z) : pipeline := mkP (p_items p) (p_feats p ++ [f]).

(* a sequence of deployments, as the command line does for every selected leaf *)
Fixpoint deploy_all (r : registry) (p : pipeline) (l : list rentry) : option pipeline :=
  match l with
  | [] => Some p
  | x :: rest => match deploy r p x with None => None | Some p' => deploy_all r p' rest end
  end.

(* the items added by one deployment *)
Definition added_by (p p' : pipeline) : list rentry := skipn (length (p_items p)) (p_items p').

Definition rentry_eq_dec (a b : rentry) : {a = b} + {a <> b}.
Proof. decide equality; try apply (list_eq_dec Z.eq_dec); apply Z.eq_dec. Defined.

(* registry well-formedness: one item per name *)
Definition reg_okb (r : registry) : bool :=
  forallb (fun x => forallb (fun y => negb (rname x =? rname y) || (if rentry_eq_dec x y then true else false))
                            (universe r)) (universe r).

(* ---- the declarative closure, executable: least fixpoint by iteration over the universe ---- *)
(* one round: add every enabled, not yet named sibling of a requirement of a member *)
Definition closure_round (r : registry) (feats : list Z) (pre : list Z) (S : list rentry) : list rentry :=
  fold_left (fun acc x =>
    fold_left (fun acc dep =>
      fold_left (fun acc sib =>
        if enabledb feats sib && negb (memz (rname sib) pre) && negb (memz (rname sib) (map rname acc))
        then acc ++ [sib] else acc) (summon r dep) acc) (rreq x) acc) S S.

Fixpoint closure_iter (fuel : nat) (r : registry) (feats : list Z) (pre : list Z) (S : list rentry) : list rentry :=
  match fuel with
  | O => S
  | Datatypes.S f => closure_iter f r feats pre (closure_round r feats pre S)
  end.

(* names of the closure of [item]; [pre] = names already in the pipeline *)
Definition closure_names (r : registry) (p : pipeline) (item : rentry) : list Z :=
  let feats := p_feats p ++ rfeat item in
  let pre := map rname (p_items p) ++ [rname item] in
  sortZ (map rname (closure_iter (Datatypes.S (length (universe r))) r feats pre [item])).
