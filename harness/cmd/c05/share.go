// The `shared allocator` families of C05 (round 3: classes R3-6 shared structures, R3-1 re-use, R3-4 copy then
// mutate).  Several trees live on ONE allocator; a cell freed by one tree is handed to another one by the next
// malloc.  Anything a tree remembers about a CELL (a memo of the last lookup, a cached position) instead of
// about ITS OWN node is wrong from that moment on, and only a READ on the first tree shows it.  So these
// families issue every read operation (Get, FindGE, FindLE, Min, Max, Len, forward and backward iteration,
// Item() of the held iterators) on EVERY tree after every mutation of ANY tree, with the keys that were just
// queried / deleted / inserted elsewhere.  Only the existing operation language is used (the driver judges
// every answer against the sorted map and against the model).
//
//	pp     directed "ping-pong", enumerated exhaustively over a small universe: prefill A and B; READ k on A;
//	       FREE k's cell on A (DeleteWithKey / DeleteWithIterator / Erase / after a CloneDeep); B (or A itself)
//	       inserts exactly as many new keys as there are gaps, so that EVERY freed cell is re-used whatever gap
//	       malloc picks; read everything on every tree; then the same in the other direction.
//	exm    every sequence of n steps over {Insert, DeleteWithKey, read group} x 2 trees x 2 keys from every
//	       prefilled state, followed by the reads of every key on every tree.
//	share  random: 2-3 trees, a universe of 2..8 keys, every mutation followed by reads on all trees.
package main

import (
	"fmt"
	"math/rand"
	"sort"

	. "verifharness/lib"
)

// what the generator knows about the state (the trees are maps): which keys each tree holds, how many cells
// are live and how many were ever allocated (gaps = cells - live)
type shareSim struct {
	sets  []map[int]bool
	live  int
	cells int
}

func newShareSim(n int) *shareSim {
	s := &shareSim{}
	for i := 0; i < n; i++ {
		s.sets = append(s.sets, map[int]bool{})
	}
	return s
}

func (s *shareSim) gaps() int { return s.cells - s.live }

func (s *shareSim) grow(n int) {
	s.live += n
	if s.live > s.cells {
		s.cells = s.live
	}
}

func (s *shareSim) ins(t, k int) bool {
	if s.sets[t][k] {
		return false
	}
	s.sets[t][k] = true
	s.grow(1)
	return true
}

func (s *shareSim) del(t, k int) bool {
	if !s.sets[t][k] {
		return false
	}
	delete(s.sets[t], k)
	s.live--
	return true
}

func (s *shareSim) erase(t int) {
	s.live -= len(s.sets[t])
	s.sets[t] = map[int]bool{}
}

func (s *shareSim) clone(src, dst int) bool {
	if src == dst || len(s.sets[dst]) != 0 {
		return false
	}
	for k := range s.sets[src] {
		s.sets[dst][k] = true
	}
	s.grow(len(s.sets[src]))
	return true
}

func (s *shareSim) keys(t int) []int {
	var l []int
	for k := range s.sets[t] {
		l = append(l, k)
	}
	sort.Ints(l)
	return l
}

type shareGen struct {
	r   *rand.Rand
	sim *shareSim
	ops []op
	nv  int
}

func (g *shareGen) add(o op) { g.ops = append(g.ops, o) }

func (g *shareGen) val() int {
	g.nv++
	switch g.nv % 11 {
	case 3:
		return 0
	case 7:
		return negLimit
	}
	return 1000*(g.nv%97) + g.nv%13
}

func (g *shareGen) ins(t, k, r int) bool {
	g.add(op{kind: "ins", t: t, k: k, v: g.val(), r: r})
	return g.sim.ins(t, k)
}

func (g *shareGen) delk(t, k int) bool {
	g.add(op{kind: "delk", t: t, k: k})
	return g.sim.del(t, k)
}

// the lookups of key k on tree t, in the order `rot` (registers ra, rb receive the iterators)
func (g *shareGen) lookups(t, k, rot, ra, rb int) {
	for j := 0; j < 3; j++ {
		switch (j + rot) % 3 {
		case 0:
			g.add(op{kind: "get", t: t, k: k})
		case 1:
			g.add(op{kind: "fge", t: t, k: k, r: ra})
		case 2:
			g.add(op{kind: "fle", t: t, k: k, r: rb})
		}
	}
}

// every read operation on tree t: the lookups of every key of `keys`, Len, Min + complete forward iteration,
// Max + complete backward iteration
func (g *shareGen) readTree(t int, keys []int, rot int, walks bool) {
	for _, k := range keys {
		g.lookups(t, k, rot, 2, 3)
	}
	g.add(op{kind: "len", t: t})
	n := len(g.sim.sets[t])
	g.add(op{kind: "min", t: t, r: 2})
	if walks {
		for j := 0; j < n; j++ {
			g.add(op{kind: "next", r: 2})
		}
	}
	g.add(op{kind: "max", t: t, r: 3})
	if walks {
		for j := 0; j < n; j++ {
			g.add(op{kind: "prev", r: 3})
		}
	}
}

func (g *shareGen) readAll(first int, keys []int, rot int, walks bool) {
	nt := len(g.sim.sets)
	for j := 0; j < nt; j++ {
		g.readTree((first+j)%nt, keys, rot, walks)
	}
}

// the universes of the directed families: small keys, both ends of the domain, the sign bit
var shareUniverses = [][]int{
	{10, 20, 30, 40, 50, 60},
	{0, 1, 2, 3, 4, 5},
	{4294967290, 4294967291, 4294967292, 4294967293, 4294967294, 4294967295},
	{0, 1, 2147483647, 2147483648, 4294967294, 4294967295},
}

func subset(mask int, uni []int) []int {
	var l []int
	for i, k := range uni {
		if mask&(1<<uint(i)) != 0 {
			l = append(l, k)
		}
	}
	return l
}

// fresh keys for the refill that are not in tree t: first `want`, then the rest of the universe, then keys
// next to the universe
func (g *shareGen) freshKeys(t int, want int, uni []int, n int) []int {
	var l []int
	seen := map[int]bool{}
	try := func(k int) {
		if len(l) < n && k >= 0 && k <= negLimit && !seen[k] && !g.sim.sets[t][k] {
			seen[k] = true
			l = append(l, k)
		}
	}
	try(want)
	for _, k := range uni {
		try(k)
	}
	for d := 1; len(l) < n && d < 64; d++ {
		for _, k := range uni {
			try(k + d*7)
			try(k - d*7)
		}
	}
	return l
}

// one direction of the ping-pong: read k on tree a, free its cell, re-use every gap from tree b, read all
func (g *shareGen) pingPong(a, b, k, kk int, how int, uni []int, rot int) {
	nt := len(g.sim.sets)
	r := g.r
	// 1. the reads on a, the last one decides what a "last found node" memo holds
	g.add(op{kind: "min", t: a, r: 0})
	g.add(op{kind: "max", t: a, r: 0})
	g.add(op{kind: "len", t: a})
	g.lookups(a, k, rot, 0, 0)
	switch rot % 4 {
	case 1:
		g.add(op{kind: "next", r: 0})
		g.add(op{kind: "prev", r: 0})
	case 2:
		g.add(op{kind: "prev", r: 0})
		g.add(op{kind: "next", r: 0})
	}
	// an iterator of another tree is held across everything (Item() is recorded after every operation)
	if len(g.sim.sets[b]) > 0 {
		g.add(op{kind: "min", t: b, r: 1})
	}
	// 2. free
	switch how {
	case 0:
		g.delk(a, k)
	case 1:
		g.add(op{kind: "fge", t: a, k: k, r: 1})
		if g.sim.sets[a][k] {
			g.add(op{kind: "deli", r: 1})
			g.sim.del(a, k)
		}
	case 2:
		g.add(op{kind: "erase", t: a})
		g.sim.erase(a)
	case 3:
		// copy, then mutate either side: the clone goes to an empty third tree, the key leaves a or the clone
		c := -1
		for t := 0; t < nt; t++ {
			if t != a && t != b && len(g.sim.sets[t]) == 0 {
				c = t
			}
		}
		if c >= 0 && g.sim.clone(a, c) {
			g.add(op{kind: "clone", t: a, k: c})
			g.add(op{kind: "get", t: c, k: k})
			if r.Intn(2) == 0 {
				g.delk(c, k)
			} else {
				g.delk(a, k)
			}
		} else {
			g.delk(a, k)
		}
	}
	// 3. every gap is filled again: by b, or (re-use of the tree itself) by a
	target := b
	if how == 2 && rot%3 == 0 {
		target = a
	}
	n := g.sim.gaps()
	fresh := g.freshKeys(target, kk, uni, n)
	for _, q := range fresh {
		g.ins(target, q, -1)
	}
	// 4. every read on every tree, the keys just used first
	keys := []int{kk, k}
	seen := map[int]bool{kk: true, k: true}
	for _, q := range append(append([]int{}, fresh...), uni...) {
		if !seen[q] {
			seen[q] = true
			keys = append(keys, q)
		}
	}
	g.readAll(a, keys, rot, true)
}

func ppCase(r *rand.Rand, nt int, uni []int, maskA, maskB, maskC, k, kk, how, rot int) []op {
	g := &shareGen{r: r, sim: newShareSim(nt)}
	fill := func(t int, keys []int, ord int) {
		keys = append([]int{}, keys...)
		switch ord {
		case 1:
			sort.Sort(sort.Reverse(sort.IntSlice(keys)))
		case 2:
			r.Shuffle(len(keys), func(i, j int) { keys[i], keys[j] = keys[j], keys[i] })
		}
		for _, q := range keys {
			g.ins(t, q, -1)
		}
	}
	ord := rot % 3
	// the trees are filled in turn (their cells interleave in the arena when the order is shuffled)
	if ord == 2 {
		fill(1, subset(maskB, uni), 2)
		fill(0, subset(maskA, uni), 2)
	} else {
		fill(0, subset(maskA, uni), ord)
		fill(1, subset(maskB, uni), ord)
	}
	if nt > 2 {
		fill(2, subset(maskC, uni), ord)
	}
	g.pingPong(0, 1, k, kk, how, uni, rot)
	// and back: a key that b holds now leaves b and its cell goes to a
	back := g.sim.keys(1)
	if len(back) > 0 {
		k2 := back[r.Intn(len(back))]
		if g.sim.sets[1][kk] && r.Intn(2) == 0 {
			k2 = kk
		}
		g.pingPong(1, 0, k2, k, how%3, uni, rot+1)
	}
	return g.ops
}

// pp: (prefill of A) x (key of A that is read and freed) x (prefill of B) x (key B inserts) x (way of freeing),
// enumerated over a universe of `nu` keys; `draws` cases each with a drawn read order, number of trees,
// prefill of the third tree, insertion order and key universe
func pingPongFamily(c *Config, nu, draws int) {
	r := c.Rng
	for maskA := 1; maskA < 1<<uint(nu); maskA++ {
		for maskB := 0; maskB < 1<<uint(nu); maskB++ {
			for ia := 0; ia < nu; ia++ {
				if maskA&(1<<uint(ia)) == 0 {
					continue
				}
				for ib := 0; ib < nu; ib++ {
					if maskB&(1<<uint(ib)) != 0 {
						continue
					}
					for how := 0; how < 4; how++ {
						for d := 0; d < draws; d++ {
							uni := shareUniverses[0][:nu]
							if d > 0 {
								uni = shareUniverses[r.Intn(len(shareUniverses))][:nu]
								if r.Intn(2) == 0 {
									uni = shareUniverses[3][6-nu:]
								}
							}
							nt := 2 + r.Intn(2)
							maskC := 0
							if how == 3 {
								nt = 3
							} else if nt == 3 {
								maskC = r.Intn(1 << uint(nu))
							}
							rot := r.Intn(12)
							ops := ppCase(r, nt, uni, maskA, maskB, maskC, uni[ia], uni[ib], how, rot)
							emit(c, fmt.Sprintf("pp%d", nu), nt, ops)
						}
					}
				}
			}
		}
	}
}

// exm: from every prefilled state of 2 trees over 2 keys, every sequence of n steps over
// {Insert, DeleteWithKey, read group} x tree x key; then the lookups of every key on every tree
func exhaustiveShared(c *Config, n int, half bool) {
	keys := []int{10, 20}
	type step struct{ kind, t, k int }
	var alphabet []step
	for kind := 0; kind < 3; kind++ {
		for t := 0; t < 2; t++ {
			for _, k := range keys {
				alphabet = append(alphabet, step{kind, t, k})
			}
		}
	}
	idx := make([]int, n)
	for pre := 0; pre < 16; pre++ {
		for i := range idx {
			idx[i] = 0
		}
		for {
			g := &shareGen{r: c.Rng, sim: newShareSim(2)}
			// prefill: bit 0/1 = tree 0 holds 10/20, bit 2/3 = tree 1; tree 1 first when both hold 20 (the cells interleave)
			order := []int{0, 1, 2, 3}
			if pre&10 == 10 {
				order = []int{3, 0, 2, 1}
			}
			for _, b := range order {
				if pre&(1<<uint(b)) != 0 {
					g.ins(b/2, keys[b%2], -1)
				}
			}
			for _, x := range idx {
				s := alphabet[x]
				switch s.kind {
				case 0:
					g.ins(s.t, s.k, -1)
				case 1:
					g.delk(s.t, s.k)
				case 2:
					g.lookups(s.t, s.k, 0, 0, 1)
				}
			}
			for t := 0; t < 2; t++ {
				for _, k := range keys {
					g.lookups(t, k, 0, 2, 3)
				}
				g.add(op{kind: "len", t: t})
				g.add(op{kind: "min", t: t, r: 2})
				g.add(op{kind: "max", t: t, r: 3})
			}
			// quick tier: the first step is on tree 0 (the mirror images - trees exchanged - are in the thorough tier)
			if !(half && alphabet[idx[0]].t != 0) {
				emit(c, fmt.Sprintf("exm%d", n), 2, g.ops)
			}
			i := n - 1
			for i >= 0 {
				idx[i]++
				if idx[i] < len(alphabet) {
					break
				}
				idx[i] = 0
				i--
			}
			if i < 0 {
				break
			}
		}
	}
}

// share: random sequences on 2-3 trees over a tiny universe; after EVERY mutation every tree is read with the
// key of this mutation and of the previous one
func sharedRandom(c *Config) (int, []op) {
	r := c.Rng
	nt := 2 + r.Intn(2)
	g := &shareGen{r: r, sim: newShareSim(nt)}
	base := shareUniverses[r.Intn(len(shareUniverses))]
	uni := append([]int{}, base...)
	if r.Intn(3) == 0 {
		for _, k := range []int{base[0] + 7, base[5] - 7} {
			if k >= 0 && k <= negLimit {
				uni = append(uni, k)
			}
		}
	}
	uni = uni[:2+r.Intn(len(uni)-1)]
	n := 4 + r.Intn(24)
	prev := uni[0]
	for i := 0; i < n; i++ {
		t, k := r.Intn(nt), uni[r.Intn(len(uni))]
		// a read right before the mutation (what a memo would remember)
		if r.Intn(2) == 0 {
			g.lookups(t, k, r.Intn(3), 0, 1)
		}
		switch x := r.Intn(20); {
		case x < 8:
			g.ins(t, k, -1)
		case x < 13:
			g.delk(t, k)
		case x < 16:
			g.add(op{kind: "fge", t: t, k: k, r: 1})
			if g.sim.sets[t][k] {
				g.add(op{kind: "deli", r: 1})
				g.sim.del(t, k)
			}
		case x < 17:
			g.add(op{kind: "erase", t: t})
			g.sim.erase(t)
		case x < 18:
			d := r.Intn(nt)
			if len(g.sim.sets[d]) != 0 && r.Intn(2) == 0 {
				g.add(op{kind: "erase", t: d})
				g.sim.erase(d)
			}
			if g.sim.clone(t, d) {
				g.add(op{kind: "clone", t: t, k: d})
			}
		default:
			// refill every gap from one tree
			fresh := g.freshKeys(t, k, uni, g.sim.gaps())
			for _, q := range fresh {
				g.ins(t, q, -1)
			}
		}
		keys := []int{k}
		if prev != k {
			keys = append(keys, prev)
		}
		if r.Intn(3) == 0 {
			keys = uni
		}
		g.readAll(r.Intn(nt), keys, r.Intn(3), r.Intn(3) == 0)
		prev = k
	}
	return nt, g.ops
}

func sharedFamilies(c *Config) {
	switch c.Tier {
	case "quick":
		pingPongFamily(c, 3, 2)
		exhaustiveShared(c, 3, true)
	case "thorough":
		pingPongFamily(c, 3, 6)
		pingPongFamily(c, 4, 3)
		exhaustiveShared(c, 4, false)
	default:
		pingPongFamily(c, 3, 4)
	}
	for i := c.Count(300, 6000); i > 0; i-- {
		nt, ops := sharedRandom(c)
		emit(c, fmt.Sprintf("share%d", nt), nt, ops)
	}
}
