(* C09 - a concrete analysis item that satisfies the assumptions of the theorems (non-vacuity), and
   concrete plans, oracles and adversaries for the Examples of coq/props/C09.v. *)
From Coq Require Import List ZArith Bool NArith Lia.
From Herc Require Import Hibernation.Model.
Import ListNotations.
Open Scope Z_scope.

(* the state is the log of what the item has seen; the temp file is the log behind its length *)
Definition ex_decode (_ : unit) (bytes : list N) : option (list N) :=
  match bytes with
  | [] => None
  | len :: rest => if (N.to_nat len <=? length rest)%nat then Some (firstn (N.to_nat len) rest) else None
  end.

Definition ex_ops : ops (list N) (list N) unit (list N) N := {|
  size := fun s => Z.of_nat (length s);
  compress := fun s => s;
  decompress := fun h => h;
  strip := fun _ => tt;
  encode := fun h => N.of_nat (length h) :: h;
  decode := ex_decode;
  consume := fun c i m s => Ok (c :: i :: (if m then 1%N else 0%N) :: s);
  clone := fun s => s;
  merge := fun ss => Ok (map (fun _ => 77%N :: concat ss) ss);
  finalize := fun s => Ok s;
  init := [9%N]
|}.

Lemma ex_boot_hibernate : forall s, size ex_ops s <> 0 -> decompress ex_ops (compress ex_ops s) = s.
Proof. reflexivity. Qed.

Lemma ex_file_roundtrip : forall h, decode ex_ops (strip ex_ops h) (encode ex_ops h) = Some h.
Proof.
  intros h. cbn. rewrite Nat2N.id. rewrite Nat.leb_refl. now rewrite firstn_all.
Qed.

Lemma ex_truncation_detected : forall h j,
    (j < length (encode ex_ops h))%nat -> decode ex_ops (strip ex_ops h) (firstn j (encode ex_ops h)) = None.
Proof.
  intros h j Hj. cbn in *. destruct j as [|j]; cbn; [reflexivity|].
  rewrite Nat2N.id. rewrite firstn_length.
  destruct (length h <=? Nat.min j (length h))%nat eqn:E; [|reflexivity].
  apply Nat.leb_le in E. lia.
Qed.

(* temp-file names 1, 2, 3, ...; every operation succeeds *)
Definition ex_io (i : nat) : io_choice := {| io_name := N.of_nat i + 1; io_result := IoOk |}.
Lemma ex_names_inj : forall i j, io_name (ex_io i) = io_name (ex_io j) -> i = j.
Proof. intros i j E. cbn in E. lia. Qed.
Lemma ex_names_new : forall i, fs_mem (byte:=N) (io_name (ex_io i)) [] = false.
Proof. reflexivity. Qed.

(* the k-th operation fails at the given stage *)
Definition ex_io_fail (k stage : nat) (i : nat) : io_choice :=
  {| io_name := N.of_nat i + 1; io_result := if Nat.eqb i k then IoFail stage else IoOk |}.
Lemma ex_fail_names_inj : forall k stage i j, io_name (ex_io_fail k stage i) = io_name (ex_io_fail k stage j) -> i = j.
Proof. intros k stage i j E. cbn in E. lia. Qed.

Definition no_adv (i : nat) : list tamper := [].
Definition adv_at (k : nat) (ts : list tamper) (i : nat) : list tamper := if Nat.eqb i k then ts else [].

(* a plan of the shape prepareRunPlan produces: branch 1 sleeps while branch 2 works *)
Definition ex_plan : list action :=
  [AEmerge 1; ACommit 1 0; AFork 1 [2]; AHibernate 1 []; ACommit 2 1; ACommit 2 2;
   ABoot 1 []; ACommit 1 3; AHibernate 2 []; ACommit 1 4; ABoot 2 []; AMerge 1 [2]; ADelete 2; ACommit 1 5].

Definition on_disk : config := {| thr := 0; disk := true |}.
Definition in_memory : config := {| thr := 2; disk := false |}.
Definition above_arena : config := {| thr := 1000; disk := true |}.   (* the F6 situation *)
