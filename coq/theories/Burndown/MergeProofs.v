(* Merge commits: the replay in merge mode on the branch of each (non-redundant) parent, and
   BurndownAnalysis.Merge of those branches.  (Spike lemmas merge_good / merge_reports_births, now about the
   concrete analysis model.) *)
From Coq Require Import List ZArith Lia Bool Permutation.
From Herc Require Import Burndown.Base Burndown.Dense Burndown.Lifetimes Burndown.LifetimesFacts Burndown.AncFacts
  Burndown.Analysis Burndown.SparseFacts Burndown.AnalysisFacts Burndown.Replay Burndown.HunkProofs
  Burndown.LinearProofs Burndown.StepProofs Burndown.CommitProofs.
Import ListNotations.
Open Scope Z_scope.

(* ---------- File.Merge on arrays that are images of one line list ---------- *)
Definition comb (l ol : Z) : Z :=
  if is_mark ol then l else if is_mark l || (Z.land ol mark <? Z.land l mark) then ol else l.

Lemma merge_lines_map {X} (g f : X -> Z) (L : list X) :
  merge_lines (map g L) (map f L) = map (fun x => comb (g x) (f x)) L.
Proof. induction L as [|x L IH]; [reflexivity|]. cbn [map merge_lines]. rewrite IH. reflexivity. Qed.

Lemma merge_others_map {X} (L : list X) : forall (fs : list (X -> Z)) (g : X -> Z),
  merge_others (map g L) (map (fun f => map f L) fs) =
  Ok (map (fun x => fold_left (fun acc f => comb acc (f x)) fs (g x)) L).
Proof.
  induction fs as [|f fs IH]; intros g; cbn [map merge_others fold_left].
  - reflexivity.
  - rewrite !map_length, Nat.eqb_refl. cbn [negb]. rewrite merge_lines_map. rewrite (IH (fun x => comb (g x) (f x))).
    reflexivity.
Qed.

(* values are either the real value v (no mark) or the mark value tm *)
Lemma fold_comb v tm : is_mark v = false -> is_mark tm = true ->
  forall ys y0, (y0 = v \/ y0 = tm) -> (forall y, In y ys -> y = v \/ y = tm) ->
  fold_left comb ys y0 = if existsb (fun y => negb (is_mark y)) (y0 :: ys) then v else tm.
Proof.
  intros Hv Htm. induction ys as [|y ys IH]; intros y0 H0 Hys; cbn [fold_left existsb].
  - destruct H0 as [->| ->]; rewrite ?Hv, ?Htm; reflexivity.
  - assert (Hc : comb y0 y = v \/ comb y0 y = tm).
    { unfold comb. destruct (Hys y (or_introl eq_refl)) as [->| ->], H0 as [->| ->]; rewrite ?Hv, ?Htm; cbn; auto.
      rewrite Z.ltb_irrefl. auto. }
    rewrite (IH _ Hc) by (intros; apply Hys; right; auto). cbn [existsb].
    unfold comb. destruct (Hys y (or_introl eq_refl)) as [->| ->], H0 as [->| ->];
      rewrite ?Hv, ?Htm, ?Z.ltb_irrefl; cbn [negb orb]; rewrite ?Hv, ?Htm; cbn [negb orb]; auto.
Qed.

Lemma memz_in_iff x l : memz x l = true <-> In x l.
Proof.
  unfold memz. rewrite existsb_exists. split.
  - intros (y & Hy & E). apply Z.eqb_eq in E. subst. auto.
  - intros H. exists x. split; auto. apply Z.eqb_refl.
Qed.

Section Resolve.
  Variable cf : cfg.

  Lemma resolve_marks_map {X} hd day (g : X -> Z) : forall (L : list X) s r s',
    resolve_marks cf hd day (map g L) s = Ok (r, s') ->
    r = map (fun x => if is_mark (g x) then day else g x) L /\
    (forall P, wsum P (s_gh s') = wsum P (s_gh s) + eff cf P day day (count (fun x => is_mark (g x)) L)) /\
    (forall T, gh_ok T (s_gh s) -> (is_mark day = false -> 0 <= tp cf day <= T) -> gh_ok T (s_gh s')) /\
    (is_mark day = false -> forall k, In k (keys (s_gh s')) <->
       In k (keys (s_gh s)) \/ (0 < count (fun x => is_mark (g x)) L /\ k = tp cf day)).
  Proof.
    induction L as [|x L IH]; intros s r s' E; cbn [map resolve_marks] in E.
    - injection E as <- <-. split; [reflexivity|]. split; [intros P; unfold count; cbn; rewrite eff_0; lia|split; [auto|]].
      intros _ k. unfold count. cbn. intuition lia.
    - destruct (is_mark (g x)) eqn:Em.
      + destruct (update_time cf hd s day day 1) as [s1| |] eqn:E1; try discriminate.
        destruct (resolve_marks cf hd day (map g L) s1) as [[r1 s2]| |] eqn:E2; try discriminate.
        injection E as <- <-. destruct (IH _ _ _ E2) as (R1 & R2 & R3 & R4). split; [cbn [map]; rewrite Em, R1; reflexivity|].
        split; [|split].
        * intros P. rewrite R2, (update_time_gh cf P _ _ _ _ _ _ E1), count_cons, Em. rewrite <- (eff_add cf day P 1). lia.
        * intros T Hok Hd. apply R3; auto. eapply update_time_ok; eauto. intros Hm _. specialize (Hd Hm). lia.
        * intros Hd k. rewrite (R4 Hd k), count_cons, Em.
          destruct (update_time_cases _ _ _ _ _ _ _ E1) as [(Ec & _)|[(_ & Ec & _)|(_ & _ & E3)]]; try congruence.
          rewrite E3, keys_sp_add. pose proof (count_nonneg (fun x0 => is_mark (g x0)) L). intuition lia.
      + destruct (resolve_marks cf hd day (map g L) s) as [[r1 s2]| |] eqn:E2; try discriminate.
        injection E as <- <-. destruct (IH _ _ _ E2) as (R1 & R2 & R3 & R4). split; [cbn [map]; rewrite Em, R1; reflexivity|].
        split; [|split; [exact R3|]]. { intros P. rewrite R2, count_cons, Em. reflexivity. }
        intros Hd k. rewrite (R4 Hd k), count_cons, Em. intuition lia.
  Qed.
End Resolve.

Section Merge.
  Variable h : hist.
  Variable cf : cfg.
  Variable aidx : list Z.
  Hypothesis Hcf : conflict_free h = true.
  Hypothesis Hmark : forall c, 0 <= c < ncommits h -> tick_of h c < mark.
  Hypothesis Haidx : forall c, 0 <= znth 0 aidx c.
  Notation A := (ancs h).
  Notation valf := (val h cf aidx).

  Variable m : Z.
  Hypothesis Hm : 0 <= m < ncommits h.

  Definition tM : Z := pack cf (znth 0 aidx m) mark.
  Lemma tM_mark : is_mark tM = true.
  Proof. unfold tM. rewrite is_mark_pack by (auto; unfold mark; lia). apply Z.eqb_refl. Qed.

  Lemma eff_mark P v d : eff cf P tM v d = 0.
  Proof. unfold eff. rewrite tM_mark. destruct (is_mark v); reflexivity. Qed.
  Lemma effs_mark P vs : effs cf P tM vs = 0.
  Proof. unfold effs. induction vs as [|v r IH]; [reflexivity|]. cbn [map]. rewrite sum_z_cons, IH, eff_mark. reflexivity. Qed.

  (* the branch of parent l after the replay of m in merge mode *)
  Definition mgood (l : Z) (b : branch) : Prop :=
    forall pl, In pl (h_paths h) ->
      pgood (path_exists A m (snd pl)) (aliveb A m) (nv tM (aliveb A l) valf) (b_files b) (fst pl) (snd pl).

  Theorem consume_merge_good l b s b' s' :
    0 <= l < ncommits h -> (forall a, ancb A l a = true -> ancb A m a = true) ->
    bgood h cf aidx (Some l) b ->
    consume cf (znth 0 aidx m) (tick_of h m) true (changes_of h A (Some l) m) b s = Ok (b', s') ->
    mgood l b' /\ (forall P, wsum P (s_gh s') = wsum P (s_gh s)) /\
    (forall T, gh_ok T (s_gh s) -> gh_ok T (s_gh s')) /\
    b_tick b' = tick_of h m /\ b_mauthor b' = znth 0 aidx m /\
    b_merged b' = merged_after A (Some l) m mark (h_paths h) [] /\ s_gh s' = s_gh s.
  Proof.
    intros Hl Hsub Hg E. unfold consume in E.
    set (b1 := mkBranch (b_files b) [] (znth 0 aidx m) mark (b_prev b)) in *.
    destruct (handle_changes cf (znth 0 aidx m) (changes_of h A (Some l) m) b1 s) as [[b2 s2]| |] eqn:E2; try discriminate.
    injection E as <- <-. unfold changes_of in E2.
    destruct (paths_step cf A (Some l) m valf (znth 0 aidx m) (h_paths h) b1 s b2 s2 (paths_nodup h Hcf))
      as (Q1 & Q2 & Q3 & Q4 & Q5 & Q6 & Q7 & Q8); auto.
    { intros pl Hin E. unfold old_exists, path_exists in *. apply existsb_exists in E. destruct E as (x & Hx & E).
      apply existsb_exists. exists x. split; auto. }
    change (b_tick b1) with mark in *. change (b_merged b1) with (@nil (Z * bool)) in *.
    change (b_mauthor b1) with (znth 0 aidx m) in *. fold tM in Q1, Q4, Q5.
    split; [exact Q1|]. split.
    { intros P. cbn [s_gh]. rewrite Q4, eff_mark, effs_mark. lia. }
    split.
    { intros T Hok. cbn [s_gh]. apply Q5; auto; intros Hc; rewrite tM_mark in Hc; discriminate. }
    split; [reflexivity|]. split; [exact Q7|]. split; [exact Q6|].
    cbn [s_gh]. fold tM in Q8.
    assert (Hpre : is_mark tM = false -> forall (pl : Z * list line) (l0 : line), In pl (h_paths h) -> In l0 (snd pl) ->
                   old_alive A (Some l) l0 = true -> is_mark (valf l0) = false).
    { intros Hc. rewrite tM_mark in Hc. discriminate. }
    destruct (Q8 Hpre) as [K _]. apply K. apply tM_mark.
  Qed.

  (* ---------- the parents' branches ---------- *)
  Variable ls : list Z.
  Hypothesis HU : forall a, ancb A m a = (a =? m) || existsb (fun l => ancb A l a) ls.
  Hypothesis Hnew : forall l, In l ls -> ancb A l m = false.
  Hypothesis Hrange : forall l, In l ls -> 0 <= l < ncommits h.
  Hypothesis Hkill : forall pl, In pl (all_lines h) -> l_killer (snd pl) <> m.

  Lemma sub_anc l a : In l ls -> ancb A l a = true -> ancb A m a = true.
  Proof.
    intros Hl E. rewrite HU. apply orb_true_iff. right. apply existsb_exists. exists l. split; auto.
  Qed.

  Lemma born_m_alive p seq x : In (p, seq) (h_paths h) -> In x seq -> l_born x = m -> aliveb A m x = true.
  Proof.
    intros Hp Hx Hb. destruct (line_facts h Hcf p seq x Hp Hx) as [_ Hk]. unfold aliveb.
    rewrite Hb, HU, Z.eqb_refl. cbn [orb andb].
    destruct Hk as [Hk|(Hkr & Hka & Hkn)]; [rewrite Hk; reflexivity|].
    destruct (Z.leb_spec 0 (l_killer x)); [|lia]. cbn [andb]. rewrite HU.
    destruct (Z.eqb_spec (l_killer x) m) as [Ek|_]; [exfalso; apply (Hkill (p, x)); [eapply in_all_lines; eauto|exact Ek]|].
    cbn [orb]. destruct (existsb (fun l => ancb A l (l_killer x)) ls) eqn:Ee; [|reflexivity].
    apply existsb_exists in Ee. destruct Ee as (l & Hl & El). rewrite Hb in Hka.
    pose proof (Hnew l Hl) as Hn.
    rewrite (ancb_trans h (commits_ok h Hcf) l (l_killer x) m (Hrange l Hl) El Hka) in Hn. discriminate.
  Qed.

  Lemma merge_alive p seq x : In (p, seq) (h_paths h) -> In x seq -> aliveb A m x = true ->
    (l_born x =? m) = negb (existsb (fun l => aliveb A l x) ls).
  Proof.
    intros Hp Hx Ha. destruct (Z.eqb_spec (l_born x) m) as [Eb|Nb].
    - symmetry. apply negb_true_iff. destruct (existsb (fun l => aliveb A l x) ls) eqn:Ee; [|reflexivity].
      apply existsb_exists in Ee. destruct Ee as (l & Hl & El). unfold aliveb in El. rewrite Eb, (Hnew l Hl) in El. discriminate.
    - symmetry. apply negb_false_iff. unfold aliveb in Ha. apply andb_prop in Ha. destruct Ha as [Ha1 Ha2].
      rewrite HU in Ha1. destruct (Z.eqb_spec (l_born x) m); [contradiction|]. cbn [orb] in Ha1.
      apply existsb_exists in Ha1. destruct Ha1 as (l & Hl & El). apply existsb_exists. exists l. split; auto.
      unfold aliveb. rewrite El. cbn [andb]. apply negb_true_iff. apply negb_true_iff in Ha2.
      destruct (0 <=? l_killer x); [|reflexivity]. cbn [andb] in *.
      destruct (ancb A l (l_killer x)) eqn:Ek; [|reflexivity]. rewrite (sub_anc l _ Hl Ek) in Ha2. discriminate.
  Qed.

  Definition dayv : Z := pack cf (znth 0 aidx m) (tick_of h m).
  Lemma dayv_facts : is_mark dayv = false /\ tp cf dayv = tick_of h m.
  Proof.
    pose proof (tick_nonneg h Hcf m Hm). pose proof (Hmark m Hm). unfold dayv, mark in *.
    rewrite is_mark_pack, tp_pack by (auto; lia). split; auto. apply Z.eqb_neq. unfold mark. lia.
  Qed.

  (* File.Merge of the k copies of one path gives every line of m its birth value and reports the lines born at m *)
  Lemma file_merge_spec p seq (fs : list file) s f' s' :
    In (p, seq) (h_paths h) -> ls <> [] ->
    Forall2 (fun l f => f_vals f = map (nv tM (aliveb A l) valf) (filter (aliveb A m) seq)) ls fs ->
    match fs with f0 :: others => file_merge cf dayv f0 others s | [] => Err POther end = Ok (f', s') ->
    f_vals f' = map valf (filter (aliveb A m) seq) /\
    (forall P, wsum P (s_gh s') = wsum P (s_gh s) + eff cf P dayv dayv (count (fun x => l_born x =? m) seq)) /\
    (forall T, gh_ok T (s_gh s) -> tick_of h m <= T -> gh_ok T (s_gh s')) /\
    (forall k, In k (keys (s_gh s')) <-> In k (keys (s_gh s)) \/ (0 < count (fun x => l_born x =? m) seq /\ k = tick_of h m)).
  Proof.
    intros Hp Hne HF E. set (L := filter (aliveb A m) seq) in *.
    remember ls as ls0 eqn:Els in HF.
    destruct HF as [|l0 f0 ls' others H0 HF']; [congruence|].
    unfold file_merge in E.
    assert (Eo : map f_vals others = map (fun f => map f L) (map (fun l => nv tM (aliveb A l) valf) ls')).
    { clear - HF'. induction HF' as [|l f ls' fs' Hf HF IH]; [reflexivity|]. cbn [map]. rewrite Hf, IH. reflexivity. }
    rewrite H0, Eo, merge_others_map in E.
    set (g := fun x => fold_left (fun acc f => comb acc (f x)) (map (fun l => nv tM (aliveb A l) valf) ls') (nv tM (aliveb A l0) valf x)) in *.
    destruct (resolve_marks cf (f_hist f0) dayv (map g L) s) as [[r s1]| |] eqn:E1; try discriminate.
    injection E as <- <-. cbn [f_vals]. destruct (resolve_marks_map cf _ _ g L s r s1 E1) as (R1 & R2 & R3 & R4).
    (* the value of every line of L after the per-line rule *)
    assert (Hg : forall x, In x L -> g x = if l_born x =? m then tM else valf x).
    { intros x Hx. unfold L in Hx. apply filter_In in Hx. destruct Hx as [Hx Ha].
      destruct (val_nomark h cf aidx Hcf Hmark Haidx p seq x Hp Hx) as [Hvn _].
      unfold g.
      assert (Efold : forall (ks : list Z) y0,
                fold_left (fun acc f => comb acc (f x)) (map (fun l => nv tM (aliveb A l) valf) ks) y0 =
                fold_left comb (map (fun l => nv tM (aliveb A l) valf x) ks) y0).
      { induction ks as [|k ks IHk]; intros y0; [reflexivity|]. cbn [fold_left map]. apply IHk. }
      rewrite Efold. rewrite (fold_comb (valf x) tM Hvn tM_mark).
      - rewrite (merge_alive p seq x Hp Hx Ha). rewrite <- Els.
        assert (Eex : forall ks, existsb (fun y => negb (is_mark y)) (map (fun l => nv tM (aliveb A l) valf x) ks) =
                      existsb (fun l => aliveb A l x) ks).
        { intros ks. induction ks as [|k ks IHk]; [reflexivity|]. cbn [map existsb]. rewrite IHk. f_equal.
          unfold nv. destruct (aliveb A k x); [rewrite Hvn|rewrite tM_mark]; reflexivity. }
        change (nv tM (aliveb A l0) valf x :: map (fun l => nv tM (aliveb A l) valf x) ls') with
               (map (fun l => nv tM (aliveb A l) valf x) (l0 :: ls')).
        rewrite Eex. destruct (existsb (fun l => aliveb A l x) (l0 :: ls')); reflexivity.
      - unfold nv. destruct (aliveb A l0 x); auto.
      - intros y Hy. apply in_map_iff in Hy. destruct Hy as (k & <- & _). unfold nv. destruct (aliveb A k x); auto. }
    split.
    { rewrite R1. apply map_ext_in. intros x Hx. rewrite (Hg x Hx). assert (Hx' := Hx). unfold L in Hx'. apply filter_In in Hx'.
      destruct (Z.eqb_spec (l_born x) m) as [Eb|Nb].
      - rewrite tM_mark. unfold dayv, val. rewrite Eb. reflexivity.
      - destruct (val_nomark h cf aidx Hcf Hmark Haidx p seq x Hp (proj1 Hx')) as [Hvn _]. rewrite Hvn. reflexivity. }
    assert (Ecnt : count (fun x => is_mark (g x)) L = count (fun x => l_born x =? m) seq).
    { rewrite (count_ext_in _ (fun x => l_born x =? m) L).
      - unfold L. rewrite count_filter. apply count_ext_in. intros x Hx.
        destruct (Z.eqb_spec (l_born x) m) as [Eb|Nb]; [|apply andb_false_r].
        rewrite (born_m_alive p seq x Hp Hx Eb). reflexivity.
      - intros x Hx. rewrite (Hg x Hx). assert (Hx' := Hx). unfold L in Hx'. apply filter_In in Hx'.
        destruct (Z.eqb_spec (l_born x) m); [apply tM_mark|].
        destruct (val_nomark h cf aidx Hcf Hmark Haidx p seq x Hp (proj1 Hx')) as [Hvn _]. exact Hvn. }
    split.
    { intros P. rewrite R2, Ecnt. reflexivity. }
    split.
    { intros T Hok HT. apply R3; auto. intros _. destruct dayv_facts as [_ Ht]. rewrite Ht.
      pose proof (tick_nonneg h Hcf m Hm). lia. }
    intros k. destruct dayv_facts as [Hdn Hdt]. rewrite (R4 Hdn k), Ecnt, Hdt. reflexivity.
  Qed.

  (* ---------- BurndownAnalysis.Merge over the touched paths ---------- *)
  Notation born_m := (fun x : line => l_born x =? m).
  Definition seq_of (p : Z) : list line := aget_d [] (h_paths h) p.

  Lemma seq_of_in p seq : In (p, seq) (h_paths h) -> seq_of p = seq.
  Proof.
    intros Hin. unfold seq_of, aget_d. pose proof (paths_nodup h Hcf) as Hnd.
    induction (h_paths h) as [|[p' s'] r IH]; [destruct Hin|]. cbn [aget map fst] in *. inversion Hnd; subst.
    destruct Hin as [E|Hin].
    - injection E as -> ->. rewrite Z.eqb_refl. reflexivity.
    - destruct (Z.eqb_spec p' p) as [->|Hne]; [|apply IH; auto].
      exfalso. apply H1. change p with (fst (p, seq)). apply in_map. exact Hin.
  Qed.

  (* the state of the branch of parent l when the paths in D have been merged *)
  Definition mid (D : list Z) (l : Z) (b : branch) : Prop :=
    forall pl, In pl (h_paths h) ->
      if memz (fst pl) D
      then exists hd, aget (b_files b) (fst pl) = Some (mkFile (map valf (filter (aliveb A m) (snd pl))) hd)
      else pgood (path_exists A m (snd pl)) (aliveb A m) (nv tM (aliveb A l) valf) (b_files b) (fst pl) (snd pl).

  Definition same_meta (b b' : branch) : Prop :=
    b_tick b' = b_tick b /\ b_mauthor b' = b_mauthor b /\ b_merged b' = b_merged b /\ b_prev b' = b_prev b.

  Lemma some_files_all p seq D : In (p, seq) (h_paths h) -> memz p D = false -> path_exists A m seq = true ->
    forall ks all, Forall2 (mid D) ks all ->
      Forall2 (fun l f => f_vals f = map (nv tM (aliveb A l) valf) (filter (aliveb A m) seq)) ks
              (some_files (map (fun b => aget (b_files b) p) all)).
  Proof.
    intros Hp HD Hex ks all HF. induction HF as [|l b ks' all' Hb HF IH].
    - constructor.
    - specialize (Hb (p, seq) Hp). cbn [fst snd] in Hb. rewrite HD in Hb.
      unfold pgood in Hb. rewrite Hex in Hb. destruct Hb as [hd Hb].
      cbn [map some_files]. rewrite Hb. constructor; auto.
  Qed.

  Lemma merge_keys_spec : forall keys D all s all' s',
    NoDup (map fst keys) ->
    (forall kv, In kv keys -> memz (fst kv) D = false /\ snd kv = true /\
                 exists seq, In (fst kv, seq) (h_paths h) /\ path_exists A m seq = true) ->
    ls <> [] -> Forall2 (mid D) ls all ->
    merge_keys cf dayv keys all s = Ok (all', s') ->
    Forall2 (mid (fold_left (fun D kv => fst kv :: D) keys D)) ls all' /\
    Forall2 same_meta all all' /\
    (forall P, wsum P (s_gh s') = wsum P (s_gh s) +
               sum_z (map (fun kv => eff cf P dayv dayv (count born_m (seq_of (fst kv)))) keys)) /\
    (forall T, gh_ok T (s_gh s) -> tick_of h m <= T -> gh_ok T (s_gh s')) /\
    (forall k, In k (SparseFacts.keys (s_gh s')) <-> In k (SparseFacts.keys (s_gh s)) \/
       ((exists kv, In kv keys /\ 0 < count born_m (seq_of (fst kv))) /\ k = tick_of h m)).
  Proof.
    induction keys as [|[p v] keys IH]; intros D all s all' s' Hnd Hk Hne HF E.
    - cbn in E. injection E as <- <-. cbn [fold_left map]. split; auto. split.
      { clear. induction all; constructor; auto. repeat split. }
      split; [intros P; cbn; lia|split; [auto|]]. intros k. split; [auto|]. intros [H|[(kv & [] & _) _]]; auto.
    - destruct (Hk (p, v) (or_introl eq_refl)) as (HD & Hv & seq & Hp & Hex). cbn [fst snd] in *. subst v.
      cbn [merge_keys] in E.
      pose proof (some_files_all p seq D Hp HD Hex ls all HF) as HFs.
      inversion Hnd as [|? ? Hnotin Hnd']; subst.
      destruct (some_files (map (fun b => aget (b_files b) p) all)) as [|f0 others] eqn:Efs.
      { exfalso. apply Hne. remember ls as ls0 eqn:Els in HFs. remember (@nil file) as e eqn:Ee in HFs.
        destruct HFs; [congruence|discriminate]. }
      destruct (file_merge cf dayv f0 others s) as [[f' s1]| |] eqn:Em; try discriminate.
      destruct (file_merge_spec p seq (f0 :: others) s f' s1 Hp Hne HFs Em) as (M1 & M2 & M3 & M4).
      set (all1 := map (fun b => with_files b (aset (b_files b) p f')) all) in *.
      assert (HF1 : Forall2 (mid (p :: D)) ls all1).
      { unfold all1. clear - HF M1 Hp Hcf. induction HF as [|l b ks' all0 Hb HF IH]; [constructor|].
        cbn [map]. constructor; auto. intros pl Hin. specialize (Hb pl Hin). unfold with_files. cbn [b_files].
        unfold pgood in *. rewrite !aget_aset. unfold memz in *. cbn [existsb]. destruct (Z.eqb_spec (fst pl) p) as [Ep|Np].
        - rewrite Ep, Z.eqb_refl. cbn [orb]. exists (f_hist f'). destruct f' as [v' h']. cbn [f_vals f_hist] in *. subst v'.
          destruct pl as [p' seq']. cbn [fst snd] in *. subst p'.
          rewrite <- (seq_of_in p seq Hp), (seq_of_in p seq' Hin). reflexivity.
        - cbn [orb]. destruct (Z.eqb_spec p (fst pl)); [congruence|]. exact Hb. }
      assert (Hk' : forall kv, In kv keys -> memz (fst kv) (p :: D) = false /\ snd kv = true /\
                 exists seq, In (fst kv, seq) (h_paths h) /\ path_exists A m seq = true).
      { intros kv Hin. destruct (Hk kv (or_intror Hin)) as (K1 & K2 & K3). split; [|auto].
        unfold memz in *. cbn [existsb]. rewrite K1, orb_false_r. apply Z.eqb_neq. intros Eq. apply Hnotin.
        rewrite <- Eq. apply in_map. exact Hin. }
      destruct (IH (p :: D) all1 s1 all' s' Hnd' Hk' Hne HF1 E) as (R1 & R2 & R3 & R4 & R5).
      cbn [fold_left fst]. split; [exact R1|]. split.
      { clear - R2. unfold all1 in R2. revert all' R2. induction all as [|b all0 IHa]; intros all' R2; inversion R2; subst; constructor; auto. }
      split.
      { intros P. rewrite R3, M2. cbn [map fst]. rewrite sum_z_cons, (seq_of_in p seq Hp). lia. }
      split; [intros T Hok HT; apply R4; auto|].
      intros k. rewrite (R5 k), (M4 k). cbn [fst]. rewrite <- (seq_of_in p seq Hp). split.
      + intros [[H|[H1 H2]]|[(kv & Hin & Hc) H2]]; auto.
        * right. split; auto. exists (p, true). split; [left; auto|auto].
        * right. split; auto. exists kv. split; [right; auto|auto].
      + intros [H|[(kv & [<-|Hin] & Hc) H2]]; auto.
        right. split; auto. exists kv. auto.
  Qed.

  (* ---------- the keys of Merge: the paths some replay touched ---------- *)
  Hypothesis Hsub : forall l, In l ls -> forall seq, old_exists A (Some l) seq = true -> path_exists A m seq = true.

  Lemma touched_exists l seq : In l ls -> touched A (Some l) m seq = true -> path_exists A m seq = true.
  Proof.
    intros Hl. unfold touched. pose proof (Hsub l Hl seq) as Hs.
    destruct (old_exists A (Some l) seq), (path_exists A m seq); auto; try discriminate.
  Qed.

  Lemma untouched_good l seq files p : touched A (Some l) m seq = false ->
    pgood (path_exists A m seq) (aliveb A m) (nv tM (aliveb A l) valf) files p seq ->
    pgood (path_exists A m seq) (aliveb A m) valf files p seq.
  Proof.
    unfold touched, pgood. intros Ht Hg. destruct (path_exists A m seq) eqn:En; [|exact Hg].
    destruct (old_exists A (Some l) seq) eqn:Eo; [|discriminate].
    apply negb_false_iff in Ht. rewrite forallb_forall in Ht.
    destruct Hg as [hd Hg]. exists hd. rewrite Hg. f_equal. f_equal. apply map_ext_in. intros x Hx.
    apply filter_In in Hx. destruct Hx as [Hx Ha]. specialize (Ht x Hx). unfold lstatus, old_alive in Ht. rewrite Ha in Ht.
    unfold nv. destruct (aliveb A l x); [reflexivity|discriminate].
  Qed.

  Lemma born_touched l p seq x : In l ls -> In (p, seq) (h_paths h) -> In x seq -> l_born x = m ->
    touched A (Some l) m seq = true.
  Proof.
    intros Hl Hp Hx Hb. pose proof (born_m_alive p seq x Hp Hx Hb) as Ha.
    assert (Hn : aliveb A l x = false) by (unfold aliveb; rewrite Hb, (Hnew l Hl); reflexivity).
    assert (Hex : path_exists A m seq = true).
    { unfold path_exists. apply existsb_exists. exists x. split; auto. unfold aliveb in Ha. apply andb_prop in Ha. tauto. }
    unfold touched. rewrite Hex. destruct (old_exists A (Some l) seq); [|reflexivity].
    apply negb_true_iff. destruct (forallb _ seq) eqn:Ef; [|reflexivity]. rewrite forallb_forall in Ef.
    specialize (Ef x Hx). unfold lstatus, old_alive in Ef. rewrite Hn, Ha in Ef. discriminate.
  Qed.

  (* entries of mergedFiles after a replay *)
  Lemma merged_after_in l : forall paths m0 kv,
    In kv (merged_after A (Some l) m mark paths m0) ->
    In kv m0 \/ (snd kv = true /\ exists seq, In (fst kv, seq) paths /\ touched A (Some l) m seq = true).
  Proof.
    unfold merged_after. induction paths as [|[p seq] paths IH]; intros m0 kv Hin; cbn [fold_left] in Hin; [auto|].
    apply IH in Hin. destruct Hin as [Hin|(E & seq' & Hs & Ht)].
    - cbn [fst snd] in Hin. rewrite Z.eqb_refl in Hin. cbn [andb] in Hin.
      destruct (touched A (Some l) m seq) eqn:Et; [|auto].
      apply in_aset in Hin. destruct Hin as [->|Hin]; [|auto]. right. split; auto. exists seq. split; [left; auto|auto].
    - right. split; auto. exists seq'. split; [right; auto|auto].
  Qed.

  Lemma merged_after_cover l : forall paths m0 p seq, In (p, seq) paths -> touched A (Some l) m seq = true ->
    exists v, aget (merged_after A (Some l) m mark paths m0) p = Some v.
  Proof.
    unfold merged_after. induction paths as [|[p' seq'] paths IH]; intros m0 p seq Hin Ht; [destruct Hin|].
    cbn [fold_left fst snd]. rewrite Z.eqb_refl. cbn [andb]. destruct Hin as [E|Hin].
    - injection E as -> ->. rewrite Ht.
      assert (Hkeep : forall paths0 m1, (exists v, aget m1 p = Some v) ->
                exists v, aget (fold_left (fun m2 pl => if true && touched A (Some l) m (snd pl) then aset m2 (fst pl) true else m2) paths0 m1) p = Some v).
      { induction paths0 as [|[q sq] paths0 IHp]; intros m1 Hm1; [exact Hm1|]. cbn [fold_left fst snd andb].
        apply IHp. destruct (touched A (Some l) m sq); [|exact Hm1]. rewrite aget_aset. destruct (q =? p); eauto. }
      apply Hkeep. rewrite aget_aset, Z.eqb_refl. eauto.
    - eapply IH; eauto.
  Qed.

  (* keys := fold of merged_keys over the branches *)
  Definition key_ok (kv : Z * bool) : Prop :=
    snd kv = true /\ exists l seq, In l ls /\ In (fst kv, seq) (h_paths h) /\ touched A (Some l) m seq = true.

  Lemma merged_keys_ok : forall m0 ks, NoDup (map fst ks) -> (forall kv, In kv ks -> key_ok kv) ->
    (forall kv, In kv m0 -> key_ok kv) ->
    NoDup (map fst (merged_keys ks m0)) /\ (forall kv, In kv (merged_keys ks m0) -> key_ok kv) /\
    (forall p, (exists v, aget ks p = Some v) \/ (exists v, aget m0 p = Some v) -> exists v, aget (merged_keys ks m0) p = Some v).
  Proof.
    induction m0 as [|[k v] m0 IH]; intros ks Hnd Hks Hm0; cbn [merged_keys].
    - split; auto. split; auto. intros p [H|[v Hv]]; [auto|discriminate].
    - assert (Hkv : key_ok (k, v)) by (apply Hm0; left; auto).
      destruct (IH (aset ks k (aget_d false ks k || v))) as (R1 & R2 & R3).
      + apply nodup_aset. exact Hnd.
      + intros kv Hin. apply in_aset in Hin. destruct Hin as [->|Hin]; [|auto].
        destruct Hkv as [Ev Hq]. cbn [snd] in Ev. subst v. split; [cbn [snd]; apply orb_true_r|exact Hq].
      + intros kv Hin. apply Hm0. right; auto.
      + split; auto. split; auto. intros p Hp. apply R3. cbn [aget] in Hp. destruct Hp as [[v' Hv']|[v' Hv']].
        * left. rewrite aget_aset. destruct (k =? p); eauto.
        * destruct (Z.eqb_spec k p) as [->|Hne]; [left; rewrite aget_aset, Z.eqb_refl; eauto|right; eauto].
  Qed.

  Lemma keys_ok : forall all ks0, NoDup (map fst ks0) -> (forall kv, In kv ks0 -> key_ok kv) ->
    (forall b, In b all -> forall kv, In kv (b_merged b) -> key_ok kv) ->
    let keys := fold_left (fun ks b => merged_keys ks (b_merged b)) all ks0 in
    NoDup (map fst keys) /\ (forall kv, In kv keys -> key_ok kv) /\
    (forall p, (exists v, aget ks0 p = Some v) \/ (exists b v, In b all /\ aget (b_merged b) p = Some v) -> exists v, aget keys p = Some v).
  Proof.
    induction all as [|b all IH]; intros ks0 Hnd Hks Hall; cbn [fold_left].
    - split; auto. split; auto. intros p [H|(b & v & [] & _)]; auto.
    - destruct (merged_keys_ok (b_merged b) ks0 Hnd Hks (Hall b (or_introl eq_refl))) as (M1 & M2 & M3).
      destruct (IH (merged_keys ks0 (b_merged b)) M1 M2) as (R1 & R2 & R3).
      { intros b' Hb'. apply Hall. right; auto. }
      split; auto. split; auto. intros p Hp. apply R3. destruct Hp as [Hp|(b' & v & [<-|Hb'] & Hv)].
      + left. apply M3. left; auto.
      + left. apply M3. right; eauto.
      + right. eauto.
  Qed.

  (* ---------- sums over the keys = sums over all paths ---------- *)
  Lemma sum_absent (w : list line -> Z) k : forall paths : list (Z * list line), ~ In k (map fst paths) ->
    sum_z (map (fun pl => if fst pl =? k then w (snd pl) else 0) paths) = 0.
  Proof.
    induction paths as [|[p seq] paths IH]; intros Hn; [reflexivity|]. cbn [map fst snd] in *. rewrite sum_z_cons.
    destruct (Z.eqb_spec p k); [exfalso; apply Hn; left; auto|]. rewrite IH; [lia|]. intros H; apply Hn; right; auto.
  Qed.

  Lemma sum_single (w : list line -> Z) k : forall paths : list (Z * list line), NoDup (map fst paths) ->
    sum_z (map (fun pl => if fst pl =? k then w (snd pl) else 0) paths) =
    match aget paths k with Some seq => w seq | None => 0 end.
  Proof.
    induction paths as [|[p seq] paths IH]; intros Hnd; [reflexivity|].
    inversion Hnd as [|? ? Hn Hnd']; subst. cbn [map fst snd aget]. rewrite sum_z_cons.
    destruct (Z.eqb_spec p k) as [->|Hne].
    - rewrite sum_absent by exact Hn. lia.
    - rewrite IH by exact Hnd'. lia.
  Qed.

  Lemma sum_keys (w : list line -> Z) : forall ks : list Z, NoDup ks ->
    sum_z (map (fun k => match aget (h_paths h) k with Some seq => w seq | None => 0 end) ks) =
    sum_z (map (fun pl => if memz (fst pl) ks then w (snd pl) else 0) (h_paths h)).
  Proof.
    induction ks as [|k ks IH]; intros Hnd.
    - cbn [map memz existsb]. symmetry. induction (h_paths h) as [|x l IHl]; [reflexivity|]. cbn [map]. rewrite sum_z_cons, IHl. reflexivity.
    - inversion Hnd as [|? ? Hn Hnd']; subst. cbn [map]. rewrite sum_z_cons, (IH Hnd').
      rewrite <- (sum_single w k (h_paths h) (paths_nodup h Hcf)).
      assert (E : forall (f g : Z * list line -> Z) l, sum_z (map f l) + sum_z (map g l) = sum_z (map (fun x => f x + g x) l)).
      { intros f g l. induction l as [|x l IHl]; [reflexivity|]. cbn [map]. rewrite !sum_z_cons. lia. }
      rewrite E. f_equal. apply map_ext. intros [p seq]. cbn [fst snd]. unfold memz. cbn [existsb].
      destruct (Z.eqb_spec p k) as [->|Hne]; cbn [orb].
      + assert (existsb (Z.eqb k) ks = false).
        { destruct (existsb (Z.eqb k) ks) eqn:Ee; auto. apply existsb_exists in Ee. destruct Ee as (y & Hy & Ey).
          apply Z.eqb_eq in Ey. subst. tauto. }
        rewrite H. lia.
      + lia.
  Qed.

  (* ---------- BurndownAnalysis.Merge ---------- *)
  Definition replayed (l : Z) (b : branch) : Prop :=
    mgood l b /\ b_merged b = merged_after A (Some l) m mark (h_paths h) [] /\
    b_tick b = tick_of h m /\ b_mauthor b = znth 0 aidx m.

  Lemma fold_cons_in (keys : list (Z * bool)) : forall D p,
    In p (fold_left (fun D kv => fst kv :: D) keys D) <-> In p (map fst keys) \/ In p D.
  Proof.
    induction keys as [|kv keys IH]; intros D p; cbn [fold_left map]; [cbn [In]; tauto|].
    rewrite IH. cbn [In]. tauto.
  Qed.

  Lemma Forall2_in_l {X Y} (R : X -> Y -> Prop) xs ys x : Forall2 R xs ys -> In x xs -> exists y, In y ys /\ R x y.
  Proof. induction 1; cbn; [tauto|]. intros [->|H']; [eauto|]. destruct (IHForall2 H') as (y0 & ? & ?). eauto. Qed.
  Lemma Forall2_in_r {X Y} (R : X -> Y -> Prop) xs ys y : Forall2 R xs ys -> In y ys -> exists x, In x xs /\ R x y.
  Proof. induction 1; cbn; [tauto|]. intros [->|H']; [eauto|]. destruct (IHForall2 H') as (x0 & ? & ?). eauto. Qed.

  Lemma count_paths (f : line -> bool) :
    sum_z (map (fun pl => count f (snd pl)) (h_paths h)) = count (fun pl => f (snd pl)) (all_lines h).
  Proof.
    unfold all_lines. induction (h_paths h) as [|[p seq] r IH]; [reflexivity|].
    cbn [map flat_map fst snd]. rewrite sum_z_cons, count_app, IH, count_map. reflexivity.
  Qed.

  Theorem analysis_merge_spec all s all' s' : ls <> [] -> Forall2 replayed ls all ->
    analysis_merge cf all s = Ok (all', s') ->
    Forall2 (fun (_ : Z) b' => bgood h cf aidx (Some m) b') ls all' /\
    (forall P, wsum P (s_gh s') = wsum P (s_gh s) + contrib h P m) /\
    (forall T, gh_ok T (s_gh s) -> tick_of h m <= T -> gh_ok T (s_gh s')) /\
    (forall k, In k (SparseFacts.keys (s_gh s')) <-> In k (SparseFacts.keys (s_gh s)) \/ (event h m = true /\ k = tick_of h m)).
  Proof.
    intros Hne HF E. unfold analysis_merge in E.
    destruct all as [|me rest]; [exfalso; apply Hne; remember ls as ls0 in HF; remember (@nil branch) as e in HF; destruct HF; [congruence|discriminate]|].
    set (keys := fold_left (fun ks b => merged_keys ks (b_merged b)) (me :: rest) []) in *.
    assert (Hday : pack cf (b_mauthor me) (b_tick me) = dayv).
    { remember ls as ls0 in HF. remember (me :: rest) as al in HF. destruct HF as [|l0 b0 ? ? Hr _]; [discriminate|].
      injection Heqal as -> _. destruct Hr as (_ & _ & -> & ->). reflexivity. }
    rewrite Hday in E.
    (* the keys *)
    destruct (keys_ok (me :: rest) [] (NoDup_nil _) (fun kv (H : In kv []) => match H with end)) as (K1 & K2 & K3).
    { intros b Hb kv Hkv. destruct (Forall2_in_r _ _ _ b HF Hb) as (l & Hl & (_ & Em & _)).
      rewrite Em in Hkv. apply merged_after_in in Hkv. destruct Hkv as [[]|(Ev & seq & Hs & Ht)].
      split; auto. exists l, seq. auto. }
    fold keys in K1, K2, K3.
    assert (Hcover : forall l p seq, In l ls -> In (p, seq) (h_paths h) -> touched A (Some l) m seq = true -> In p (map fst keys)).
    { intros l p seq Hl Hp Ht. destruct (Forall2_in_l _ _ _ l HF Hl) as (b & Hb & (_ & Em & _)).
      destruct (merged_after_cover l (h_paths h) [] p seq Hp Ht) as [v Hv]. rewrite <- Em in Hv.
      destruct (K3 p) as [v' Hv']; [right; eauto|]. apply aget_in in Hv'. change p with (fst (p, v')). apply in_map. exact Hv'. }
    destruct (merge_keys cf dayv keys (me :: rest) s) as [[all1 s1]| |] eqn:Em; try discriminate.
    destruct (merge_keys_spec keys [] (me :: rest) s all1 s1 K1) as (R1 & R2 & R3 & R4 & R5); auto.
    { intros kv Hkv. split; [reflexivity|]. destruct (K2 kv Hkv) as (Ev & l & seq & Hl & Hp & Ht). split; auto.
      exists seq. split; auto. eapply touched_exists; eauto. }
    { clear - HF. induction HF as [|l b ? ? Hr HF IH]; constructor; auto. destruct Hr as [Hg _]. intros pl Hin. cbn. apply Hg. exact Hin. }
    set (Dfin := fold_left (fun D kv => fst kv :: D) keys []) in *.
    assert (HD : forall p, memz p Dfin = true <-> In p (map fst keys)).
    { intros p. rewrite memz_in_iff. unfold Dfin. rewrite fold_cons_in. cbn [In]. tauto. }
    (* the result *)
    assert (Hres : exists me1 rest1, all1 = me1 :: rest1 /\ all' = on_new_tick me1 :: rest1 /\ s' = s1).
    { inversion R2; subst. injection E as <- <-. eauto. }
    destruct Hres as (me1 & rest1 & -> & -> & ->).
    split.
    { assert (HG : forall l b1, In l ls -> mid Dfin l b1 -> forall b2, b_files b2 = b_files b1 -> bgood h cf aidx (Some m) b2).
      { intros l b1 Hl Hmid b2 Ef [p seq] Hin. specialize (Hmid (p, seq) Hin). cbn [fst snd] in *. rewrite Ef.
        change (old_exists A (Some m) seq) with (path_exists A m seq). change (old_alive A (Some m)) with (aliveb A m).
        destruct (memz p Dfin) eqn:EmD.
        - apply HD in EmD. apply in_map_iff in EmD. destruct EmD as (kv & Ek & Hkv).
          destruct (K2 kv Hkv) as (_ & l' & seq' & Hl' & Hp' & Ht'). rewrite Ek in Hp'.
          assert (seq' = seq) by (rewrite <- (seq_of_in p seq' Hp'), (seq_of_in p seq Hin); reflexivity). subst seq'.
          unfold pgood. rewrite (touched_exists l' seq Hl' Ht'). exact Hmid.
        - apply (untouched_good l); auto. destruct (touched A (Some l) m seq) eqn:Et; auto.
          assert (In p (map fst keys)) by (eapply Hcover; eauto). apply HD in H. congruence. }
      assert (G : forall ks bs bs', Forall2 (mid Dfin) ks bs -> Forall2 (fun b b' => b_files b' = b_files b) bs bs' ->
                  (forall l, In l ks -> In l ls) ->
                  Forall2 (fun (_ : Z) b' => bgood h cf aidx (Some m) b') ks bs').
      { intros ks bs bs' HF2. revert bs'. induction HF2 as [|l b ? ? Hm' HF2 IH]; intros bs' HE Hsub'; inversion HE; subst; constructor.
        - apply (HG l b); auto. apply Hsub'. left; auto.
        - apply IH; auto. intros; apply Hsub'; right; auto. }
      apply (G ls (me1 :: rest1)); auto. constructor; [reflexivity|].
      clear. induction rest1; constructor; auto. }
    split.
    { intros P. rewrite R3. f_equal. unfold contrib.
      destruct dayv_facts as [Hdn Hdt].
      assert (Eeff : forall x, eff cf P dayv dayv x = if P (tick_of h m) (tick_of h m) then x else 0).
      { intros x. unfold eff. rewrite Hdn, Hdt. reflexivity. }
      assert (Ed : count (fun pl => (l_killer (snd pl) =? m) && P (tick_of h m) (birth_tick h (snd pl))) (all_lines h) = 0).
      { unfold count. rewrite (filter_ext_in _ (fun _ => false)); [clear; induction (all_lines h); cbn; auto|].
        intros pl Hin. destruct (Z.eqb_spec (l_killer (snd pl)) m) as [Ek|]; [exfalso; eapply Hkill; eauto|reflexivity]. }
      rewrite Ed, Z.sub_0_r.
      rewrite (map_ext _ (fun kv => if P (tick_of h m) (tick_of h m) then count born_m (seq_of (fst kv)) else 0)) by (intros; apply Eeff).
      destruct (P (tick_of h m) (tick_of h m)).
      - rewrite <- (count_paths born_m).
        transitivity (sum_z (map (fun k => match aget (h_paths h) k with Some seq => count born_m seq | None => 0 end) (map fst keys))).
        { rewrite map_map. f_equal. apply map_ext. intros kv. unfold seq_of, aget_d. destruct (aget (h_paths h) (fst kv)); reflexivity. }
        rewrite (sum_keys (fun seq => count born_m seq) (map fst keys) K1).
        f_equal. apply map_ext_in. intros [p seq] Hin. cbn [fst snd].
        destruct (memz p (map fst keys)) eqn:Emk; [reflexivity|].
        (* a path outside the keys has no line born at m *)
        symmetry. unfold count. rewrite (filter_ext_in _ (fun _ => false)); [clear; induction seq; cbn; auto|].
        intros x Hx. destruct (Z.eqb_spec (l_born x) m) as [Eb|]; [|reflexivity]. exfalso.
        destruct ls as [|l0 ls0] eqn:Els; [congruence|].
        assert (Hin0 : In l0 ls) by (rewrite Els; left; auto).
        rewrite <- Els in *.
        pose proof (born_touched l0 p seq x Hin0 Hin Hx Eb) as Ht.
        pose proof (Hcover l0 p seq Hin0 Hin Ht) as Hk. apply memz_in_iff in Hk. congruence.
      - clear. induction keys; cbn; auto. }
    split; [intros T Hok HT; apply R4; auto|].
    intros k. rewrite (R5 k).
    assert (Eev : (exists kv, In kv keys /\ 0 < count born_m (seq_of (fst kv))) <-> event h m = true).
    { unfold event. rewrite existsb_exists. split.
      - intros (kv & Hkv & Hc). destruct (K2 kv Hkv) as (_ & l & seq & Hl & Hp & _).
        rewrite (seq_of_in _ seq Hp) in Hc.
        assert (exists x, In x seq /\ l_born x = m) as (x & Hx & Eb).
        { clear - Hc. induction seq as [|y r IH]; [cbn in Hc; lia|]. rewrite count_cons in Hc.
          destruct (Z.eqb_spec (l_born y) m); [exists y; split; [left; auto|auto]|].
          destruct IH as (x & ? & ?); [lia|]. exists x. split; [right; auto|auto]. }
        exists (fst kv, x). split; [eapply in_all_lines; eauto|]. cbn [snd]. rewrite Eb, Z.eqb_refl. reflexivity.
      - intros ([p x] & Hin & Ex). cbn [snd] in Ex. apply orb_prop in Ex. destruct Ex as [Ex|Ex].
        2:{ apply Z.eqb_eq in Ex. exfalso. apply (Hkill (p, x) Hin Ex). }
        apply Z.eqb_eq in Ex. unfold all_lines in Hin. apply in_flat_map in Hin. destruct Hin as ([p' seq] & Hp & Hx).
        cbn [fst snd] in Hx. apply in_map_iff in Hx. destruct Hx as (x' & E0 & Hx). injection E0 as -> ->.
        destruct ls as [|l0 ls0] eqn:Els; [congruence|]. assert (Hin0 : In l0 ls) by (rewrite Els; left; auto). rewrite <- Els in *.
        pose proof (born_touched l0 p seq x Hin0 Hp Hx Ex) as Ht.
        pose proof (Hcover l0 p seq Hin0 Hp Ht) as Hk. apply in_map_iff in Hk. destruct Hk as (kv & Ek & Hkv).
        exists kv. split; auto. rewrite Ek, (seq_of_in p seq Hp).
        clear - Hx Ex. induction seq as [|y r IH]; [destruct Hx|]. rewrite count_cons. pose proof (count_nonneg born_m r).
        destruct Hx as [->|Hx]; [rewrite Ex, Z.eqb_refl; lia|]. specialize (IH Hx). destruct (l_born y =? m); lia. }
    rewrite Eev. reflexivity.
  Qed.
End Merge.
