Require Extraction.
Require Import ExtrOcamlBasic.
From Herc Require Import Base.Conv Alloc.Varint Alloc.Model Alloc.Serialize.
Extraction "c06_model.ml" conv_anchor new_alloc size used clone malloc free write_cell with_thr hibernate boot
  serialize serialize_fail deserialize parse_file file_bytes write_varint read_varint deinterleave
  liveb oracle_disjoint oracle_live oracle_used oracle_gaps step run init_world ids_of.
