"""Loads lib/props/Cxx.py (one CONFIG dict per property) into PROPS."""
import importlib.util
import os

PROPS = {}
_d = os.path.join(os.path.dirname(os.path.abspath(__file__)), 'props')
for _f in sorted(os.listdir(_d)):
    if _f.endswith('.py') and _f[0] == 'C':
        _spec = importlib.util.spec_from_file_location('props_' + _f[:-3], os.path.join(_d, _f))
        _m = importlib.util.module_from_spec(_spec)
        _spec.loader.exec_module(_m)
        PROPS[_f[:-3]] = _m.CONFIG
