// Scale family of the C09 harness: parametric histories whose tracked files have 10^3 .. 10^6 line
// intervals, so that the node arena of BurndownAnalysis and its hibernation file are large (the file
// crosses 64 KiB, 256 KiB, 1 MiB; the arena length crosses 128, 16512, 65536, the widths of the variable
// width integers of the file format).  The history is described by a handful of numbers (the trace records
// those, not the 10^5 lines) and expanded deterministically into a synth.Hist.
package main

import (
	"fmt"

	git "gopkg.in/src-d/go-git.v4"
	"gopkg.in/src-d/go-git.v4/plumbing/object"

	. "verifharness/lib"
	"verifharness/synth"
)

// scaleP describes one large history.
//
//	commit 0 (author 0, tick 0): F files of L lines (file i has L + i%3 lines, so lengths are not all multiples
//	         of 8), a tuning file "t" of T lines, K small files s0..s(K-1) of 3 lines;
//	commit 1: in every big file and in "t" every line whose index is P-1 modulo P (t: every second line) is
//	         rewritten, so a file of n lines has about 2n/P line intervals that cannot fuse: V = 0 another author
//	         one tick later, V = 1 another author in the same tick, V = 2 the same author one tick later;
//	then K arms that start at commit 1, A commits each (interleaved in the numbering, authors 0..2 in turn, ticks
//	         growing): arm j appends a line to sj; when G > 0 the first commit of arm 0 also deletes every G-th
//	         rewritten line of the big files (the allocator gets that many gaps) and the first commit of arm 1
//	         rewrites every G-th line of the other residue class once more (both parents of the merge changed the
//	         big files, on different lines);
//	the merge of the K arm tips (K = 2: the diamond of a feature branch, K >= 4: an octopus, which with hibernation
//	         distance K-3 is booted by ONE action), and a last commit on top of it.
type scaleP struct {
	F, L, P, V, T, K, A, G int
}

func (p scaleP) sx() Sx {
	return T("hist", T("scale", T("F", I(p.F)), T("L", I(p.L)), T("P", I(p.P)), T("V", I(p.V)), T("T", I(p.T)),
		T("K", I(p.K)), T("A", I(p.A)), T("G", I(p.G))))
}

func scaleFromSx(s Sx) (scaleP, bool) {
	sc, ok := s.Field("scale")
	if !ok {
		return scaleP{}, false
	}
	g := func(t string) int {
		f, ok := sc.Field(t)
		if !ok {
			panic("replay: scale history without " + t)
		}
		return f.Args()[0].Int()
	}
	return scaleP{F: g("F"), L: g("L"), P: g("P"), V: g("V"), T: g("T"), K: g("K"), A: g("A"), G: g("G")}, true
}

func (p scaleP) hist() *synth.Hist {
	h := &synth.Hist{Seqs: map[string][]*synth.Line{}}
	next := 0
	add := func(parents []int, tick, author int) int {
		c := h.N
		h.N++
		h.Parents = append(h.Parents, parents)
		h.Tick = append(h.Tick, tick)
		h.Author = append(h.Author, author)
		return c
	}
	fresh := func(born int) *synth.Line {
		l := &synth.Line{ID: next, Born: born, Killer: -1}
		next++
		return l
	}
	var big []string
	for i := 0; i < p.F; i++ {
		big = append(big, fmt.Sprintf("f%05d", i))
	}
	h.Paths = append(h.Paths, big...)
	if p.T > 0 {
		h.Paths = append(h.Paths, "t")
	}
	for j := 0; j < p.K; j++ {
		h.Paths = append(h.Paths, fmt.Sprintf("s%d", j))
	}
	// commits 0 and 1
	add(nil, 0, 0)
	t1, a1 := 1, 1
	switch p.V {
	case 1:
		t1 = 0
	case 2:
		a1 = 0
	}
	add([]int{0}, t1, a1)
	fill := func(path string, n, period int) {
		seq := make([]*synth.Line, 0, n+n/period+1)
		for k := 0; k < n; k++ {
			l := fresh(0)
			seq = append(seq, l)
			if k%period == period-1 {
				l.Killer = 1
				seq = append(seq, fresh(1))
			}
		}
		h.Seqs[path] = seq
	}
	for i, f := range big {
		fill(f, p.L+i%3, p.P)
	}
	if p.T > 0 {
		fill("t", p.T, 2)
	}
	for j := 0; j < p.K; j++ {
		f := fmt.Sprintf("s%d", j)
		h.Seqs[f] = []*synth.Line{fresh(0), fresh(0), fresh(0)}
	}
	// the arms, interleaved
	tips := make([]int, p.K)
	for j := range tips {
		tips[j] = 1
	}
	tick := t1
	for k := 0; k < p.A; k++ {
		for j := 0; j < p.K; j++ {
			if (k+j)%2 == 0 {
				tick++
			}
			c := add([]int{tips[j]}, tick, (k+j)%3)
			tips[j] = c
			f := fmt.Sprintf("s%d", j)
			h.Seqs[f] = append(h.Seqs[f], fresh(c))
			if p.G > 0 && k == 0 && j < 2 {
				for _, b := range big {
					seq := h.Seqs[b]
					out := make([]*synth.Line, 0, len(seq)+len(seq)/p.G+1)
					n := 0
					for _, l := range seq {
						out = append(out, l)
						if l.Born != 1 || l.Killer >= 0 {
							continue
						}
						n++
						if j == 0 && n%p.G == 0 {
							l.Killer = c // arm 0 deletes the line
						}
						if j == 1 && n%p.G == p.G/2 && p.G > 1 {
							l.Killer = c // arm 1 rewrites it
							out = append(out, fresh(c))
						}
					}
					h.Seqs[b] = out
				}
			}
		}
	}
	tick++
	m := add(append([]int{}, tips...), tick, 1)
	tick++
	c := add([]int{m}, tick, 2)
	h.Seqs["s0"] = append(h.Seqs["s0"], fresh(c))
	return h
}

// built repositories of the large histories are kept (the pipeline only reads them)
type builtRepo struct {
	repo    *git.Repository
	commits []*object.Commit
}

var scaleRepos = map[scaleP]builtRepo{}

func scaleBuild(p scaleP, h *synth.Hist) (*git.Repository, []*object.Commit) {
	if b, ok := scaleRepos[p]; ok {
		return b.repo, b.commits
	}
	if len(scaleRepos) > 1 {
		scaleRepos = map[scaleP]builtRepo{}
	}
	repo, commits := h.Build()
	scaleRepos[p] = builtRepo{repo, commits}
	return repo, commits
}
