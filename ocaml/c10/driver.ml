(* C10: replay the harness trace through the extracted Gallina models of Pipeline.resolve and
   Pipeline.DeployItem, and judge the implementation's outputs with the extracted validators. *)
open C10_model
open Conv

(* round 4: strings travel %-escaped through the trace (an atom cannot hold blanks, parentheses or arbitrary bytes;
   "%_" is the empty string).  Every case is decoded before it is judged - the ranks below are those of the real
   bytes - and everything that is printed is escaped again. *)
let unescape (s : string) : string =
  if not (String.contains s '%') then s
  else begin
    let b = Buffer.create (String.length s) in
    let n = String.length s in
    let i = ref 0 in
    while !i < n do
      if s.[!i] <> '%' then (Buffer.add_char b s.[!i]; incr i)
      else if !i + 1 < n && s.[!i + 1] = '_' then i := !i + 2
      else if !i + 2 < n then (Buffer.add_char b (Char.chr (int_of_string ("0x" ^ String.sub s (!i + 1) 2))); i := !i + 3)
      else i := n
    done;
    Buffer.contents b
  end
let escape (s : string) : string =
  if s = "" then "%_"
  else begin
    let b = Buffer.create (String.length s) in
    String.iter (fun c ->
      let k = Char.code c in
      if k <= 0x20 || k >= 0x7f || c = '(' || c = ')' || c = '%' then Buffer.add_string b (Printf.sprintf "%%%02X" k)
      else Buffer.add_char b c) s;
    Buffer.contents b
  end
let rec decode_sx = function A s -> A (unescape s) | L l -> L (List.map decode_sx l)
let rec string_of_sx = function
  | A s -> escape s
  | L l -> "(" ^ String.concat " " (List.map string_of_sx l) ^ ")"

(* ---------- strings -> integer codes ----------
   resolve uses strings through equality and Go's string order (byte-wise, = OCaml's compare on
   strings).  Every string that can become a graph node is ranked. *)
type spec = { sid : int; sname : string; sprov : string list; sreq : string list }

let strings_of_sx s = List.map atom (args s)

let spec_of_sx (s : sx) : spec =
  match args s with
  | [i; n; p; r] -> { sid = int_of_sx i; sname = atom n; sprov = strings_of_sx p; sreq = strings_of_sx r }
  | _ -> failwith "item shape"

let node_table (items : spec list) : (string, int) Hashtbl.t * string array =
  let names = List.map (fun s -> s.sname) items in
  let usage : (string, int) Hashtbl.t = Hashtbl.create 64 in
  List.iter (fun n -> Hashtbl.replace usage n (1 + try Hashtbl.find usage n with Not_found -> 0)) names;
  let dis = Hashtbl.fold (fun n u acc ->
      if u > 1 then List.rev_append (List.init u (fun k -> Printf.sprintf "%s_%d" n (k + 1))) acc else acc) usage [] in
  let ents = List.concat_map (fun s -> List.map (fun e -> "[" ^ e ^ "]") (s.sprov @ s.sreq)) items in
  let all = List.sort_uniq compare (names @ dis @ ents) in
  let tbl = Hashtbl.create 64 in
  List.iteri (fun i s -> Hashtbl.replace tbl s (i + 1)) all;
  (tbl, Array.of_list all)

let show_ints l = "[" ^ String.concat " " (List.map string_of_int l) ^ "]"

(* ---------- map-iteration choices ---------- *)
let by_hash (f : int -> int) (l : z list) : z list =
  List.map snd (List.sort compare (List.map (fun x -> (f (int_of_z x), x)) l))

let id_choices : choices =
  { ch_parents = (fun _ l -> l); ch_roots = (fun l -> l); ch_bfs = (fun _ l -> l); ch_cycle = (fun _ _ l -> l) }

let seeded_choices (seed : int) : choices =
  { ch_parents = (fun k l -> by_hash (fun x -> Hashtbl.hash (seed, 1, int_of_z k, x)) l);
    ch_roots = (fun l -> by_hash (fun x -> Hashtbl.hash (seed, 2, x)) l);
    ch_bfs = (fun n l -> by_hash (fun x -> Hashtbl.hash (seed, 3, int_of_z n, x)) l);
    ch_cycle = (fun k n l -> by_hash (fun x -> Hashtbl.hash (seed, 4, int_of_z k, int_of_z n, x)) l) }

let show_res (r : item list res) : string =
  match r with
  | Ok l -> "(ok" ^ String.concat "" (List.map (fun it -> " " ^ string_of_int (int_of_z it.iid)) l) ^ ")"
  | Err Ambiguous -> "(err ambig)"
  | Err Unsatisfied -> "(err unsat)"
  | Err SortFailure -> "(err sort)"
  | Panic -> "(panic index)"
  | Unspec -> "(unspec)"
  | Fuel -> "(fuel)"


(* ---------- is there an order in which every item runs after ALL the other providers of what it requires? ----------
   Greedy construction (untrusted): an item can be placed next when every entity it requires has a
   provider among the placed items and no provider other than the item itself is still unplaced.  The
   conditions only get weaker when more items are placed, so the greedy choice loses nothing.  The
   result counts only if the extracted, proved-sound strict validator chain_order_ok accepts it
   (C10_strict_order_checker_sound; it implies order_ok). *)
(* M (statistic only): a provider p of e may run after the consumer c if p requires something derived
   from c's outputs through items that run at or after c (the BlobCache / RenameAnalysis exception) *)
let feeds_within (rest : item list) (c : item) (p : item) : bool =
  let d = Hashtbl.create 16 in
  List.iter (fun e -> Hashtbl.replace d e ()) c.iprov;
  let changed = ref true in
  while !changed do
    changed := false;
    List.iter (fun x ->
      if List.exists (Hashtbl.mem d) x.ireq then
        List.iter (fun e -> if not (Hashtbl.mem d e) then (Hashtbl.replace d e (); changed := true)) x.iprov) rest
  done;
  List.exists (Hashtbl.mem d) p.ireq

let suffix_chain_ok (order : item list) : bool =
  let rec go before = function
    | [] -> true
    | (c :: after) as rest ->
        List.for_all (fun e ->
          List.exists (fun p -> List.mem e p.iprov) before
          && List.for_all (fun p -> not (List.mem e p.iprov) || feeds_within rest c p) rest) c.ireq
        && go (c :: before) after in
  go [] order

let find_valid_order (items : item list) : (string * item list) option =
  let arr = Array.of_list items in
  let n = Array.length arr in
  let prov = Array.map (fun it -> List.map int_of_z it.iprov) arr in
  let req = Array.map (fun it -> List.map int_of_z it.ireq) arr in
  let providers : (int, int list) Hashtbl.t = Hashtbl.create 64 in
  Array.iteri (fun i l -> List.iter (fun e ->
    Hashtbl.replace providers e (i :: (try Hashtbl.find providers e with Not_found -> []))) l) prov;
  let provs e = try Hashtbl.find providers e with Not_found -> [] in
  let greedy placeable =
    let placed = Array.make n false in
    let order = ref [] and k = ref 0 in
    let progress = ref true in
    while !progress do
      progress := false;
      for c = 0 to n - 1 do
        if not placed.(c) && placeable placed c then (placed.(c) <- true; order := arr.(c) :: !order; incr k; progress := true)
      done
    done;
    if !k < n then None else Some (List.rev !order) in
  let strict placed c =
    List.for_all (fun e ->
      let ps = provs e in
      List.exists (fun p -> placed.(p)) ps && List.for_all (fun p -> placed.(p) || p = c) ps) req.(c) in
  let suffix placed c =
    let rest = List.filter_map (fun i -> if placed.(i) then None else Some arr.(i)) (List.init n (fun i -> i)) in
    List.for_all (fun e ->
      let ps = provs e in
      List.exists (fun p -> placed.(p)) ps
      && List.for_all (fun p -> placed.(p) || feeds_within rest arr.(c) arr.(p)) ps) req.(c) in
  match greedy strict with
  | Some o when chain_order_ok items o -> Some ("strict", o)
  | _ ->
      if n > 64 then None
      else match greedy suffix with
      | Some o when suffix_chain_ok o -> Some ("suffix", o)
      | _ -> None

(* ---------- the resolve part of a case ---------- *)
let check_resolve ?(note = "") (id : int) (kind : string) (specs : spec list) (outs : sx list) (must_succeed : bool) =
  let (tbl, _) = node_table specs in
  let code s = try z_of_int (Hashtbl.find tbl s) with Not_found -> failwith ("no code for " ^ s) in
  let name_of = Hashtbl.create 64 in
  Hashtbl.iter (fun s c -> Hashtbl.replace name_of c s) tbl;
  let dis n k = code (Printf.sprintf "%s_%d" (Hashtbl.find name_of (int_of_z n)) (int_of_z k)) in
  let ent e = code ("[" ^ e ^ "]") in
  let items = List.map (fun s -> { iid = z_of_int s.sid; iname = code s.sname;
                                   iprov = List.map ent s.sprov; ireq = List.map ent s.sreq }) specs in
  let by_id = Hashtbl.create 32 in
  List.iter (fun it -> Hashtbl.replace by_id (int_of_z it.iid) it) items;
  let in_domain = domain_okb dis items in
  let n_items = List.length items in
  let names = List.map (fun s -> s.sname) specs in
  let dup_names = List.length (List.sort_uniq compare names) < n_items in
  (* the scale family: more than 64 items are judged by the property oracles only (no model run, no region) *)
  let large = n_items > 64 in
  if large then count "resolve_large_unmodelled";
  let amb = if large then [] else ambiguous_keys id_choices dis items in
  let maxp = int_of_nat (max_providers items) in
  (* every property failure names the region of the input space it lies in *)
  let shallow = (if large then false else match region_of items with RSeveral | RRenames -> shallow_secondb items | _ -> false) in
  (* round 3: the refiner of a doubly provided entity transitively requires two other consumers of the entity (TwoPaths.v) *)
  let two_feed = (not large) && (not shallow) && (match region_of items with RSeveral | RRenames -> two_feeders_b items | _ -> false) in
  let region = if large then "[scale]" else match region_of items with
    | RUnchained -> "[unchained]"
    | RThree -> "[three-providers]"
    | RNoRequire -> "[chained:no-provider-requires-entity]"
    | RShared -> "[chained:item-provides-two-ambiguous-entities]"
    | (RSeveral | RRenames) when shallow -> "[chained:second-provider-not-farther-from-roots]"
    | (RSeveral | RRenames) when two_feed -> "[chained:refiner-fed-by-two-consumers]"
    | RSeveral -> "[chained:unclassified:several-ambiguous-entities]"
    | RRenames -> "[chained:unclassified:renames-shape]" in
  (* round 3: outside the domain only because the generated node names of the items collide ("X", "X", "X_1") *)
  let collide = (not large) && (not in_domain) && collision_only_b dis items in
  let region = if collide then "[generated-node-name-equals-item-name]" else region in
  if collide then count "resolve_node_name_collision";
  if not large then
  count ("region_" ^ (match region_of items with RUnchained -> "unchained" | RThree -> "three" | RNoRequire -> "norequire"
                      | RShared -> "shared" | (RSeveral | RRenames) when shallow -> "shallow_second"
                      | (RSeveral | RRenames) when two_feed -> "two_feeders"
                      | RSeveral -> "several" | RRenames -> "renames"));
  let propfail id text = propfail id (region ^ " " ^ text) in
  count "resolve_cases";
  if not in_domain then count "resolve_outside_domain";
  if amb <> [] then count "resolve_chained";
  (* model outcomes: one when no map order is involved, else the set over a family of orders *)
  let model = Hashtbl.create 8 in
  let add_model ch = Hashtbl.replace model (show_res (resolve ch dis items)) () in
  (* the family of map orders is walked lazily: identity first, then seeds 1..48 (on a miss up to 59) *)
  let next_seed = ref 0 in
  let add_next () =
    (if !next_seed = 0 then add_model id_choices else add_model (seeded_choices !next_seed)); incr next_seed in
  if not large then add_next ();
  let rec model_has so limit =
    Hashtbl.mem model so || (amb <> [] && !next_seed <= limit && (add_next (); model_has so limit)) in
  let valid_order = lazy (find_valid_order items) in
  (* (o <outcome> <run>...): the runs differ in the other options of Initialize (DAG dump, DumpPlan, ...) *)
  let real = List.map (fun o -> match args o with
      | x :: runs -> (x, if List.length runs >= 4 || runs = [] then note else note ^ " {observed in run(s) " ^ String.concat " " (List.map atom runs)
                                                                          ^ "; Initialize options of the runs: 0 none, 1 DAG dump, 2 DumpPlan+PrintActions+hibernation, 3 all}")
      | _ -> failwith "outcome shape") outs in
  if List.length real > 1 then count "resolve_nondeterministic";
  let unstable_sort = dup_names && n_items > 12 in
  List.iter (fun (o, runs_note) ->
    let so = string_of_sx o in
    let propfail id text = propfail id (text ^ runs_note) in
    let mismatch id text = mismatch id (text ^ runs_note) in
    (* fine correspondence *)
    if large then ()
    else if unstable_sort then count "resolve_unstable_sort_region"
    else if model_has so 48 && not (Hashtbl.mem model "(fuel)") then ()
    else if Hashtbl.mem model "(fuel)" then mismatch id "resolve: model out of fuel"
    else begin
      if model_has so 59 then ()
      else if Hashtbl.mem model "(unspec)" then count "resolve_model_unspecified"
      else mismatch id (Printf.sprintf "resolve (%s): implementation %s, model %s" kind so
             (String.concat " | " (Hashtbl.fold (fun k () acc -> k :: acc) model [])))
    end;
    (* property *)
    if in_domain then begin
      match tag o, args o with
      | "ok", ids ->
          count "resolve_ok";
          let ids = List.map int_of_sx ids in
          if List.exists (fun i -> not (Hashtbl.mem by_id i)) ids then
            propfail id ("resolve: the resolved order contains an item that was not deployed: " ^ show_ints ids)
          else begin
            let order = List.map (Hashtbl.find by_id) ids in
            if not (perm_b order items) then
              propfail id ("resolve: the resolved order loses or duplicates an item: " ^ show_ints ids)
            else if large then begin
              (* the strict validator is quadratic; order_ok (cubic and more) only when no strict order exists *)
              if chain_order_ok items order then count "resolve_large_ok_strict"
              else match Lazy.force valid_order with
                | Some ("strict", _) ->
                    propfail id (Printf.sprintf "resolve: success reported for %d items, but an item runs before another provider of an entity it requires although an order without such an inversion exists" n_items)
                | _ -> if not (order_ok items order) then
                         propfail id (Printf.sprintf "resolve: success reported for %d items but the order violates a requirement" n_items)
            end
            else if not (order_ok items order) then
              propfail id ("resolve: success reported but the order violates a requirement (an item runs before a provider that does not depend on it, or sees no provider at all): " ^ show_ints ids)
            else if maxp <= 1 && not (positions_strict [] order) then
              propfail id ("resolve: one provider per entity, but an item does not run after its provider: " ^ show_ints ids)
            else if maxp = 2 && not (chain_order_ok items order) then begin
              count "resolve_ok_not_strict";
              match Lazy.force valid_order with
              | Some ("strict", o) ->
                  propfail id ("resolve: success reported, but an item runs before another provider of an entity it requires although the order "
                               ^ show_ints (List.map (fun it -> int_of_z it.iid) o) ^ " has no such inversion: " ^ show_ints ids)
              | _ -> ()
            end
          end
      | "err", [A "unsat"] ->
          count "resolve_err_unsat";
          if not (unsatisfiedb items) then propfail id "resolve: 'unsatisfied dependency' although every requirement has a provider"
      | "err", [A "ambig"] ->
          count "resolve_err_ambig";
          if maxp < 3 then propfail id "resolve: 'ambiguous graph' although no entity has three providers"
      | "err", [A "sort"] ->
          count "resolve_err_sort";
          if large then begin
            match Lazy.force valid_order with
            | Some ("strict", _) ->
                propfail id (Printf.sprintf "resolve: 'topological sort failure' for %d items although the requirements are not cyclic: an order exists in which every item runs after all the other providers of what it requires" n_items)
            | _ -> ()
          end
          else if maxp <= 1 then begin
            if not (cyclicb items) && not (unsatisfiedb items) then
              propfail id "resolve: 'topological sort failure' although the requirements are acyclic, satisfied and unambiguous"
          end else begin
            count "resolve_err_sort_chained";
            (* the error is only due when the requirements are cyclic: not when some order of the items is
               accepted by the validator (every requirement provided before, later providers chained behind) *)
            match Lazy.force valid_order with
            | Some ("suffix", o) ->
                count "resolve_err_sort_chained_suffix_order_exists";
                (* round 3: judged in the region two_feeders_b only, by the round-1 validator order_ok (C10_order_checker_sound) *)
                if two_feed then begin
                  count "resolve_err_sort_two_feeders";
                  if order_ok items o then
                    propfail id ("resolve: 'topological sort failure' although the requirements are not cyclic beyond the refinement loop the chaining block is written for: the validator accepts the order "
                                 ^ show_ints (List.map (fun it -> int_of_z it.iid) o) ^ " (every requirement provided before; the refiner, which runs after two consumers of its entity, depends on both)")
                end
            | Some (how, o) ->
                count "resolve_err_sort_chained_valid_order_exists";
                propfail id ("resolve: 'topological sort failure' although the requirements are not cyclic (" ^ how ^ "): every item runs after all the other providers of what it requires in the order "
                             ^ show_ints (List.map (fun it -> int_of_z it.iid) o))
            | None -> ()
          end
      | "err", _ -> propfail id ("resolve: unexpected error " ^ so)
      | "panic", _ -> propfail id ("resolve panics instead of returning an order or an error: " ^ so)
      | _ -> failwith ("outcome " ^ so)
    end
    else if collide then begin
      (* not in the domain of the order oracles; "never loses or duplicates an item" is judged nevertheless *)
      match tag o, args o with
      | "ok", ids ->
          let ids = List.map int_of_sx ids in
          if List.sort compare ids <> List.sort compare (List.map (fun s -> s.sid) specs) then
            propfail id (Printf.sprintf "resolve: success reported but the resolved order loses or duplicates an item (%d deployed, %d in the order): %s"
                           n_items (List.length ids) (show_ints ids))
      | _ -> ()
    end;
    if must_succeed && tag o <> "ok" then
      propfail id ("initialization fails for a subset of the built-in analyses with the optional features enabled: " ^ so)
  ) real

(* ---------- the deployment part ---------- *)
(* the registry table of a case: string codes, the two Go maps, the entry of a deployment spec *)
let parse_registry (c : sx) =
  let codes : (string, int) Hashtbl.t = Hashtbl.create 64 in
  let code s = match Hashtbl.find_opt codes s with
    | Some i -> z_of_int i
    | None -> let i = Hashtbl.length codes + 1 in Hashtbl.replace codes s i; z_of_int i in
  let reg = field "reg" c in
  let entry name p r f = { rname = code name; rprov = List.map code p; rreq = List.map code r; rfeat = List.map code f } in
  let ents = List.map (fun e -> match args e with
      | [p; r; f] -> (tag e, entry (tag e) (strings_of_sx p) (strings_of_sx r) (strings_of_sx f))
      | _ -> failwith "ent shape") (args (field "ent" reg)) in
  let find_ent n = try List.assoc n ents with Not_found -> failwith ("unknown registered item " ^ n) in
  let registry = {
    provided = List.map (fun p -> (code (tag p), List.map (fun n -> find_ent (atom n)) (args p))) (args (field "prov" reg));
    registered = List.map (fun (n, e) -> (code n, e)) ents } in
  let root_of d = match args d with
      | [A "real"; A n] -> find_ent n
      | [A "synth"; A n; p; r; f; _] -> entry n (strings_of_sx p) (strings_of_sx r) (strings_of_sx f)
      | _ -> failwith "deploy shape" in
  let name_of (i : int) = escape (Hashtbl.fold (fun s j acc -> if i = j then s else acc) codes "?") in
  (code, registry, root_of, name_of)

let check_deploy (id : int) (kind : string) (c : sx) : spec list * sx list =
  let (code, registry, root_of, name_of) = parse_registry c in
  let feats = List.map code (strings_of_sx (field "feats" c)) in
  let roots = List.map root_of (args (field "deploys" c)) in
  let obs = field "obs" c in
  (match field_opt "nondet" obs with
   | Some _ -> propfail id "DeployItem deploys different item sets on equal inputs"
   | None -> ());
  let added = args (field "added" obs) in
  let in_domain = reg_okb registry in
  if not in_domain then count "deploy_registry_outside_domain";
  let p = ref { p_items = []; p_feats = feats } in
  let ok = ref true in
  List.iteri (fun i root ->
    if !ok && i < List.length added then begin
      count "deployments";
      let a = List.nth added i in
      if tag a = "panic" then (propfail id "DeployItem panics"; ok := false)
      else begin
        let real_names = List.map (fun x -> int_of_z (code (atom x))) (args a) in
        (match deploy registry !p root with
         | None -> mismatch id "deploy: model out of fuel"; ok := false
         | Some p' ->
             let before = List.length !p.p_items in
             let model_names = List.filteri (fun k _ -> k >= before) (List.map (fun e -> int_of_z e.rname) p'.p_items) in
             if model_names <> real_names then begin
               mismatch id (Printf.sprintf "deploy #%d (%s): implementation added %s, model %s" i kind
                              (string_of_sx a) (show_ints model_names));
               ok := false
             end;
             (* property: the added set is the closure of the root under enabled providers of requirements *)
             if in_domain then begin
               let want = List.map int_of_z (closure_names registry !p root) in
               if List.sort compare real_names <> want then
                 propfail id (Printf.sprintf "deploy #%d: the deployed set %s is not the closure of the item under the enabled providers of its requirements [%s] (features switched on by the user: %s; registry = the providers of every entity in the order of their registration, see the field reg of the case)"
                                i (string_of_sx a) (String.concat " " (List.map name_of want)) (string_of_sx (field "feats" c)))
             end;
             p := p')
      end
    end) roots;
  let items = List.map spec_of_sx (args (field "items" obs)) in
  (* the pipeline content seen by resolve must be the model's *)
  if !ok then begin
    let model_items = List.map (fun e -> int_of_z e.rname) !p.p_items in
    let real_items = List.map (fun s -> int_of_z (code s.sname)) items in
    if model_items <> real_items then mismatch id "deploy: pipeline items differ from the model's"
    else List.iter2 (fun e s ->
        if List.map int_of_z e.rprov <> List.map (fun x -> int_of_z (code x)) s.sprov
        || List.map int_of_z e.rreq <> List.map (fun x -> int_of_z (code x)) s.sreq then
          mismatch id ("deploy: provides/requires of deployed item differ from the registry table: " ^ escape s.sname))
        !p.p_items items
  end;
  (items, args (field "outs" obs))


(* ---------- API operation sequences ----------
   The pipeline of the model: instances (id, registry entry) in AddItem order + the enabled features.
   SetFeature / DeployItem are the extracted set_feature / deploy; AddItem appends, RemoveItem deletes
   the first occurrence of the instance and nothing else (pipeline.go, three lines each). *)
let check_seq (id : int) (kind : string) (c : sx) : (spec list * sx list) option =
  let (code, registry, root_of, name_of) = parse_registry c in
  let show_names l = "[" ^ String.concat " " (List.map name_of l) ^ "]" in
  let in_domain = reg_okb registry in
  let obs = field "obs" c in
  (match field_opt "nondet" obs with
   | Some _ -> propfail id "the same sequence of API calls leaves different pipelines on equal inputs"
   | None -> ());
  (* one replay of the call sequence against one recorded run: (steps, the instance table of a run with Initialize calls) *)
  let replay (steps : sx list) (insts : (int, spec) Hashtbl.t) (run_note : string) : (int * rentry) list option =
  let items : (int * rentry) list ref = ref [] in
  let removed : (int * rentry) list ref = ref [] in   (* instances taken out by RemoveItem, oldest first *)
  let feats = ref [] in
  let next = ref 0 in
  let fresh () = let i = !next in incr next; i in
  let find name which =
    let l = List.filter (fun (_, e) -> e.rname = code name) !items in
    match l, which with
    | [], _ -> None
    | x :: _, "first" -> Some x
    | _, _ -> Some (List.nth l (List.length l - 1)) in
  let rec remove_first i = function
    | [] -> []
    | (j, e) :: r -> if i = j then r else (j, e) :: remove_first i r in
  let show l = "(s" ^ String.concat "" (List.map (fun (i, e) -> Printf.sprintf " %d %s" i (name_of (int_of_z e.rname))) l) ^ ")" in
  let ok = ref true in
  let deploy_step k (inst : int option) (root : rentry) (real : (int * int) list) =
    count "deployments";
    let p = { p_items = List.map snd !items; p_feats = !feats } in
    match deploy registry p root with
    | None -> mismatch id "deploy: model out of fuel"; ok := false
    | Some p' ->
        let before = List.length !items in
        let added = List.filteri (fun j _ -> j >= before) p'.p_items in
        let added_ids = List.mapi (fun j e -> ((if j = 0 then (match inst with Some i -> i | None -> fresh ()) else fresh ()), e)) added in
        (* property: the names added by this call are the closure of the root under the enabled providers of
           its requirements, and nothing else was touched *)
        if in_domain then begin
          let want = List.map int_of_z (closure_names registry p root) in
          let old_real = List.filteri (fun j _ -> j < before) real and new_real = List.filteri (fun j _ -> j >= before) real in
          let model_old = List.map (fun (i, e) -> (i, int_of_z e.rname)) !items in
          if old_real <> model_old then ()  (* reported as a mismatch below *)
          else if List.sort compare (List.map snd new_real) <> want then
            propfail id (Printf.sprintf "call #%d (DeployItem): the items added to the pipeline %s are not the closure of the deployed item under the enabled providers of its requirements %s%s"
                           k (show_names (List.map snd new_real)) (show_names want) run_note)
        end;
        items := !items @ added_ids;
        feats := p'.p_feats in
  (* round 3: Initialize in the middle of a sequence.  The item set the call sees is the model's pipeline (in its
     current order, which matters for same-named items); the outcome and the outcome of the twin (a fresh pipeline
     with the same instances) are judged like a final Initialize; the pipeline after the call must hold the same
     instances - also when the call fails - and the model continues from the order the implementation left. *)
  let init_step k (st : sx) (real : (int * int) list) =
    count "op_init_calls";
    let out = List.hd (args st) in
    if tag out = "skipped" then count "seq_same_instance_twice"
    else begin
      let before = !items in
      let specs = List.map (fun (i, e) ->
          let sp = try Hashtbl.find insts i with Not_found -> failwith "instance table" in
          if List.map int_of_z e.rprov <> List.map (fun x -> int_of_z (code x)) sp.sprov
          || List.map int_of_z e.rreq <> List.map (fun x -> int_of_z (code x)) sp.sreq
          || int_of_z e.rname <> int_of_z (code sp.sname) then
            mismatch id ("sequence: name/provides/requires of a pipeline item differ from its specification: " ^ escape sp.sname);
          sp) before in
      let note = Printf.sprintf " {call #%d of the sequence: Initialize%s}" k run_note in
      check_resolve ~note id kind specs [L [A "o"; out]] false;
      (match field_opt "twin" st with
       | Some t ->
           count "op_init_twins";
           check_resolve ~note:(Printf.sprintf " {call #%d of the sequence: Initialize of a FRESH pipeline holding the same instances%s}" k run_note)
             id kind specs [L [A "o"; List.hd (args t)]] false
       | None -> ());
      let before_ids = List.map fst before and after_ids = List.map fst real in
      let show_ids l = show (List.filter_map (fun i -> match List.assoc_opt i before with Some e -> Some (i, e) | None -> None) l) in
      if tag out <> "ok" then begin
        count "op_init_failed";
        if List.sort compare before_ids <> List.sort compare after_ids then
          propfail id (Printf.sprintf "[failed-initialize] call #%d: Initialize returned %s and the pipeline lost or duplicated items: before the call %s, after it %s (%d -> %d items)%s"
                         k (string_of_sx out) (show before) (show_ids after_ids) (List.length before_ids) (List.length after_ids) run_note)
        else begin
          (* fine: a failing resolve leaves the items sorted by name (stable for at most 12 items) *)
          let names = List.map (fun (i, _) -> (Hashtbl.find insts i).sname) before in
          let distinct_names = List.length (List.sort_uniq compare names) = List.length names in
          if List.length before <= 12 || distinct_names then begin
            let sorted = List.stable_sort (fun (i, _) (j, _) -> compare (Hashtbl.find insts i).sname (Hashtbl.find insts j).sname) before in
            if List.map fst sorted <> after_ids then
              mismatch id (Printf.sprintf "call #%d (failing Initialize): pipeline of the implementation %s, of the model %s%s" k (show_ids after_ids) (show sorted) run_note)
          end
        end
      end;
      (* continue from what the implementation left (ids that were never in the pipeline cannot be continued) *)
      if List.for_all (fun i -> List.mem_assoc i before) after_ids then
        items := List.map (fun i -> (i, List.assoc i before)) after_ids
      else begin
        mismatch id (Printf.sprintf "call #%d (Initialize): the pipeline holds an instance that was not in it before the call%s" k run_note);
        ok := false
      end
    end in
  List.iteri (fun k o ->
    if !ok && k < List.length steps then begin
      let st = List.nth steps k in
      if tag st = "panic" then (propfail id (Printf.sprintf "call #%d panics%s" k run_note); ok := false)
      else begin
        let rec pairs = function
          | i :: n :: r -> (int_of_sx i, int_of_z (code (atom n))) :: pairs r
          | _ -> [] in
        let real = pairs (args (if tag st = "i" then field "s" st else st)) in
        count ("op_" ^ tag o);
        (match tag o, args o with
         | "feat", [A f] -> feats := (set_feature { p_items = []; p_feats = !feats } (code f)).p_feats
         | "add", [d] -> items := !items @ [(fresh (), root_of d)]
         | "deploy", [d] -> deploy_step k None (root_of d) real
         | "rm", [A n; A w] -> (match find n w with Some (i, e) -> items := remove_first i !items; removed := !removed @ [(i, e)] | None -> ())
         | "readd", [A n; A w] -> (match find n w with Some x -> items := !items @ [x] | None -> ())
         | "redeploy", [A n; A w] -> (match find n w with Some (i, e) -> deploy_step k (Some i) e real | None -> ())
         | "restore", [A n; A w] ->
             let l = List.filter (fun (_, e) -> e.rname = code n) !removed in
             (match (if w = "first" then l else List.rev l) with
              | (i, e) :: _ -> removed := List.filter (fun (j, _) -> j <> i) !removed; items := !items @ [(i, e)]
              | [] -> ())
         | "init", _ -> init_step k st real
         | _ -> failwith ("op shape " ^ string_of_sx o));
        let model = List.map (fun (i, e) -> (i, int_of_z e.rname)) !items in
        if !ok && model <> real then begin
          mismatch id (Printf.sprintf "call #%d %s (%s): pipeline of the implementation %s, of the model %s%s" k (tag o) kind
                         (string_of_sx (if tag st = "i" then field "s" st else st)) (show !items) run_note);
          ok := false
        end
      end
    end) (args (field "ops" c));
  if !ok then Some !items else None in
  match field_opt "steps" obs with
  | Some steps ->
      (* rounds 1-2: no Initialize inside the sequence, one at the end *)
      let specs = List.map spec_of_sx (args (field "items" obs)) in
      let outs = args (field "outs" obs) in
      (match replay (args steps) (Hashtbl.create 1) "" with
       | None -> None
       | Some items ->
           if List.exists (fun o -> match args o with x :: _ -> tag x = "skipped" | _ -> false) outs then (count "seq_same_instance_twice"; None)
           else begin
             List.iter2 (fun (_, e) s ->
               if List.map int_of_z e.rprov <> List.map (fun x -> int_of_z (code x)) s.sprov
               || List.map int_of_z e.rreq <> List.map (fun x -> int_of_z (code x)) s.sreq then
                 mismatch id ("sequence: provides/requires of a pipeline item differ from its specification: " ^ escape s.sname))
               items specs;
             Some (specs, outs)
           end)
  | None ->
      (* round 3: one (run (rs <run>...) (insts ...) (steps ...)) per distinct behaviour of the 4 runs *)
      List.iter (fun r ->
        count "seqinit_runs";
        let insts = Hashtbl.create 32 in
        List.iter (fun x -> let sp = spec_of_sx x in Hashtbl.replace insts sp.sid sp) (args (field "insts" r));
        let rs = List.map atom (args (field "rs" r)) in
        let run_note = if List.length rs >= 4 then "" else " {run(s) " ^ String.concat " " rs ^ "}" in
        ignore (replay (args (field "steps" r)) insts run_note)) (args obs);
      None

let () =
  iter_cases (fun id c ->
    let c = decode_sx c in
    let kind = atom (List.hd (args (field "kind" c))) in
    count ("kind_" ^ kind);
    match field_opt "ops" c, field_opt "deploys" c with
    | Some _, _ ->
        (match check_seq id kind c with
         | Some (items, outs) -> check_resolve id kind items outs false
         | None -> ())
    | None, Some _ ->
        let (items, outs) = check_deploy id kind c in
        let uast_on = List.mem "uast" (strings_of_sx (field "feats" c)) in
        let must = uast_on && (kind = "leaves" || kind = "leaves-rev" || kind = "single") in
        check_resolve id kind items outs must
    | None, None ->
        let items = List.map spec_of_sx (args (field "items" c)) in
        check_resolve id kind items (args (field "obs" c)) false)
