(* Composition of C01 with C03: the tracker interface that Burndown/Analysis.v assumes ("a tracked file is the
   plain array of its per-line values, File.Update is arr_update, the reported deltas are those of the array")
   is realised by the C03 model of internal/burndown/file.go (File/Model.v: node lists, [update], [new_file]).

   [tr_update] / [tr_new] are File.Update / NewFile on a REAL tracker state (C03 node list) with the Updater
   calls (the delta records that the C03 model returns) fed to the four updaters of BurndownAnalysis.
   The theorems of this file say that they agree with [arr_update] / the array of [handle_insertion] of
   Analysis.v step by step: same array after the edit (through [flatten]), exactly the same shared histories,
   and failure on one side iff failure on the other.  Side conditions (all stated on the request):
   0 <= t < 2^32-1 (the value fits a uint32 and is not TreeEnd), the new length fits a uint32.

   Where the developments define the same notion twice, the definitions are proved equal here:
   the merge-mark test, the array edit, the histogram, the effect of the reported deltas on a sparse history. *)
From Coq Require Import List ZArith Lia Bool.
From Herc Require Import Burndown.Base Burndown.Dense Burndown.Analysis Burndown.SparseFacts Burndown.AnalysisFacts.
From Herc Require File.Model File.Spec File.NodeLists File.Locate File.DelLoop File.Values File.Refines File.Deltas
  File.Rejects File.Sequences.
Import ListNotations.
Open Scope Z_scope.

Module FM := Herc.File.Model.
Module FS := Herc.File.Spec.
Module FN := Herc.File.NodeLists.
Module FL := Herc.File.Locate.
Module FD := Herc.File.DelLoop.
Module FV := Herc.File.Values.
Module FR := Herc.File.Refines.
Module FE := Herc.File.Deltas.
Module FJ := Herc.File.Rejects.
Module FQ := Herc.File.Sequences.

(* ---------- results ---------- *)
Definition bindr {A B} (x : result A) (f : A -> result B) : result B :=
  match x with Ok a => f a | Panic c => Panic c | Err c => Err c end.

(* two runs agree: both succeed with related values, or both fail *)
Definition rel_res {A B} (R : A -> B -> Prop) (x : result A) (y : result B) : Prop :=
  match x, y with
  | Ok a, Ok b => R a b
  | Ok _, _ => False
  | _, Ok _ => False
  | _, _ => True
  end.

Lemma rel_res_ok {A B} (R : A -> B -> Prop) x b : rel_res R x (Ok b) -> exists a, x = Ok a /\ R a b.
Proof. destruct x; cbn; intros H; try contradiction. eauto. Qed.
Lemma rel_res_ok_l {A B} (R : A -> B -> Prop) a y : rel_res R (Ok a) y -> exists b, y = Ok b /\ R a b.
Proof. destruct y; cbn; intros H; try contradiction. eauto. Qed.

(* ---------- the Updater calls of a tracked file ---------- *)
(* what newFile attaches to a File: updateGlobal, updateFile (if files are tracked), updateAuthor and
   updateMatrix (if people are tracked) - the part of Analysis.update_time after the mark tests *)
Definition updaters (cf : cfg) (hd : option Z) (s : shared) (cur prev d : Z) : result shared :=
  let s1 := update_global cf s cur prev d in
  let s2 := match hd with Some h => update_file cf h s1 cur prev d | None => s1 end in
  if c_people cf =? 0 then Ok s2
  else match update_author cf s2 cur prev d with
       | Ok s3 => update_matrix cf s3 cur prev d
       | e => e
       end.

Lemma update_time_updaters cf hd s cur prev d :
  update_time cf hd s cur prev d =
  if is_mark prev then (if cur =? prev then Ok s else Panic PMark)
  else if is_mark cur then Ok s else updaters cf hd s cur prev d.
Proof. reflexivity. Qed.

(* the delta records of the C03 model (currentTime, previousTime, delta), handed to the updaters in order *)
Fixpoint feed (cf : cfg) (hd : option Z) (s : shared) (ds : list (Z * Z * Z)) : result shared :=
  match ds with
  | [] => Ok s
  | (cur, prev, d) :: r => match updaters cf hd s cur prev d with
                           | Ok s' => feed cf hd s' r
                           | e => e
                           end
  end.

Definition cls (c : FM.pclass) : pclass := match c with FM.PMark => PMark | _ => POther end.

(* a tracked file: the node list of its tree and the handle of the history object its updater is bound to *)
Record tfile := mkTFile { tf_nodes : list (Z * Z); tf_hist : option Z }.

Definition flat_file (f : tfile) : file := mkFile (FS.flatten (tf_nodes f)) (tf_hist f).

(* File.Update on the tracker, observers attached *)
Definition tr_update (cf : cfg) (f : tfile) (s : shared) (t pos ins del : Z) : result (tfile * shared) :=
  match FM.update t pos ins del (tf_nodes f) with
  | FM.Panic c => Panic (cls c)
  | FM.Ok (ns, ds) =>
      match feed cf (tf_hist f) s ds with
      | Ok s' => Ok (mkTFile ns (tf_hist f), s')
      | Panic c => Panic c
      | Err c => Err c
      end
  end.

(* NewFile(time, length, updaters...) *)
Definition tr_new (cf : cfg) (hd : option Z) (s : shared) (t len : Z) : result (tfile * shared) :=
  match FM.new_file t len with
  | FM.Panic c => Panic (cls c)
  | FM.Ok (ns, ds) =>
      match feed cf hd s ds with
      | Ok s' => Ok (mkTFile ns hd, s')
      | Panic c => Panic c
      | Err c => Err c
      end
  end.

(* values are uint32 (needed when File.Merge rebuilds the tree) *)
Definition vals_ok (l : list Z) : Prop := Forall (fun v => 0 <= v <= FM.MaxU32) l.
Definition tf_ok (f : tfile) : Prop := FS.WF (tf_nodes f) /\ vals_ok (FS.flatten (tf_nodes f)).

(* ---------- the same notion defined twice ---------- *)
Lemma is_mark_eq v : FM.is_mark v = is_mark v.
Proof. reflexivity. Qed.

Lemma arr_update_vals_eq cf f s t pos ins del f' s' :
  arr_update cf f s t pos ins del = Ok (f', s') -> (ins <> 0 \/ del <> 0) ->
  f_vals f' = FS.arr_update t pos ins del (f_vals f).
Proof.
  unfold arr_update. intros E Hne.
  destruct ((pos <? 0) || (ins <? 0) || (del <? 0)); [discriminate|].
  destruct ((ins =? 0) && (del =? 0)) eqn:Ez.
  { apply andb_prop in Ez. destruct Ez as [E1 E2]. apply Z.eqb_eq in E1, E2. lia. }
  destruct ((Z.of_nat (length (f_vals f)) <? pos) || (Z.of_nat (length (f_vals f)) <? pos + del)); [discriminate|].
  destruct (if 0 <? ins then update_time cf (f_hist f) s t t ins else Ok s) as [s1| |]; try discriminate.
  destruct (report_deleted cf (f_hist f) s1 t _) as [s2| |]; try discriminate.
  inversion E; subst. reflexivity.
Qed.

Lemma hist_count v l : FS.hist v l = count (Z.eqb v) l.
Proof.
  unfold FS.hist, count. induction l as [|x l IH]; [reflexivity|].
  cbn [count_occ filter]. destruct (Z.eq_dec x v) as [->|Hne].
  - rewrite Z.eqb_refl. cbn [length]. lia.
  - replace (v =? x) with false by (symmetry; apply Z.eqb_neq; congruence). exact IH.
Qed.

(* ---------- association lists, sparse histories ---------- *)
Lemma aget_aset_same {V} (l : list (Z * V)) k x : aget (aset l k x) k = Some x.
Proof.
  induction l as [|[k' v] r IH]; cbn [aset aget].
  - rewrite Z.eqb_refl. reflexivity.
  - destruct (Z.eqb_spec k' k) as [->|Hne]; cbn [aget].
    + rewrite Z.eqb_refl. reflexivity.
    + replace (k' =? k) with false by (symmetry; apply Z.eqb_neq; auto). exact IH.
Qed.

Lemma aset_aset {V} (l : list (Z * V)) k x y : aset (aset l k x) k y = aset l k y.
Proof.
  induction l as [|[k' v] r IH]; cbn [aset].
  - rewrite Z.eqb_refl. reflexivity.
  - destruct (Z.eqb_spec k' k) as [->|Hne]; cbn [aset].
    + rewrite Z.eqb_refl. reflexivity.
    + replace (k' =? k) with false by (symmetry; apply Z.eqb_neq; auto). rewrite IH. reflexivity.
Qed.

Lemma aget_d_aset_same {V} (d : V) (l : list (Z * V)) k x : aget_d d (aset l k x) k = x.
Proof. unfold aget_d. rewrite aget_aset_same. reflexivity. Qed.

Lemma inner_add_add row k a b : inner_add (inner_add row k a) k b = inner_add row k (a + b).
Proof.
  induction row as [|[k' v] r IH]; cbn [inner_add].
  - rewrite Z.eqb_refl. reflexivity.
  - destruct (Z.eqb_spec k' k) as [->|Hne]; cbn [inner_add].
    + rewrite Z.eqb_refl. f_equal. f_equal. lia.
    + replace (k' =? k) with false by (symmetry; apply Z.eqb_neq; auto). rewrite IH. reflexivity.
Qed.

Lemma sp_add_add H t k a b : sp_add (sp_add H t k a) t k b = sp_add H t k (a + b).
Proof.
  induction H as [|[t' row] r IH]; cbn [sp_add].
  - rewrite Z.eqb_refl. cbn [inner_add]. rewrite Z.eqb_refl. reflexivity.
  - destruct (Z.eqb_spec t' t) as [->|Hne]; cbn [sp_add].
    + rewrite Z.eqb_refl, inner_add_add. reflexivity.
    + replace (t' =? t) with false by (symmetry; apply Z.eqb_neq; auto). rewrite IH. reflexivity.
Qed.

(* two Updater calls with the same (current, previous) and deltas of the same (negative) sign are one call *)
Lemma updaters_add cf hd s c p a b : a < 0 -> b < 0 ->
  bindr (updaters cf hd s c p a) (fun s1 => updaters cf hd s1 c p b) = updaters cf hd s c p (a + b).
Proof.
  intros Ha Hb. destruct s as [gh fhs names next phs mx dels].
  unfold updaters, update_global, update_file, update_author, update_matrix, with_gh, with_fhs, with_phs, with_mx, bindr.
  replace (0 <? a) with false by (symmetry; apply Z.ltb_ge; lia).
  replace (0 <? b) with false by (symmetry; apply Z.ltb_ge; lia).
  replace (0 <? a + b) with false by (symmetry; apply Z.ltb_ge; lia).
  rewrite !andb_false_r.
  destruct hd as [h|]; cbn [s_gh s_fhs s_names s_next s_phs s_mx s_dels];
    destruct (c_people cf =? 0);
    rewrite ?aget_d_aset_same, ?aset_aset, ?sp_add_add; try reflexivity;
    destruct (unpack cf p) as [pa pt]; cbn [fst snd];
    destruct (pa =? author_missing); cbn [s_gh s_fhs s_names s_next s_phs s_mx s_dels];
    rewrite ?aget_d_aset_same, ?aset_aset, ?sp_add_add; try reflexivity;
    destruct ((pa <? 0) || (c_people cf <=? pa)); cbn [s_gh s_fhs s_names s_next s_phs s_mx s_dels];
    rewrite ?aget_d_aset_same, ?aset_aset, ?sp_add_add, ?inner_add_add; reflexivity.
Qed.

Lemma update_time_add cf hd s t v a b : a < 0 -> b < 0 ->
  bindr (update_time cf hd s t v a) (fun s1 => update_time cf hd s1 t v b) = update_time cf hd s t v (a + b).
Proof.
  intros Ha Hb.
  assert (U : forall s0 d, update_time cf hd s0 t v d =
            if is_mark v then (if t =? v then Ok s0 else Panic PMark)
            else if is_mark t then Ok s0 else updaters cf hd s0 t v d) by (intros; reflexivity).
  rewrite (U s a), (U s (a + b)).
  destruct (is_mark v) eqn:Ev.
  - destruct (t =? v) eqn:E; cbn [bindr]; [|reflexivity]. rewrite U. reflexivity.
  - destruct (is_mark t) eqn:Et.
    + cbn [bindr]. rewrite U. reflexivity.
    + rewrite <- (updaters_add cf hd s t v a b Ha Hb). unfold bindr.
      destruct (updaters cf hd s t v a) as [s1| |]; try reflexivity.
      rewrite U. reflexivity.
Qed.

(* ---------- reports: one call per node = one call per line ---------- *)
Lemma report_deleted_app cf hd t l1 l2 : forall s,
  report_deleted cf hd s t (l1 ++ l2) = bindr (report_deleted cf hd s t l1) (fun s1 => report_deleted cf hd s1 t l2).
Proof.
  induction l1 as [|v r IH]; intros s; cbn [app report_deleted bindr]; [reflexivity|].
  destruct (update_time cf hd s t v (-1)) as [s1| |]; cbn [bindr]; auto.
Qed.

Lemma report_deleted_repeat cf hd t v : forall m s,
  report_deleted cf hd s t (repeat v (S m)) = update_time cf hd s t v (- Z.of_nat (S m)).
Proof.
  induction m as [|m IH]; intros s.
  - cbn [repeat report_deleted]. change (- Z.of_nat 1) with (-1).
    destruct (update_time cf hd s t v (-1)); reflexivity.
  - change (repeat v (S (S m))) with (v :: repeat v (S m)). cbn [report_deleted].
    replace (- Z.of_nat (S (S m))) with (-1 + - Z.of_nat (S m)) by lia.
    rewrite <- update_time_add by lia. unfold bindr.
    destruct (update_time cf hd s t v (-1)) as [s1| |]; try reflexivity. apply IH.
Qed.

Lemma feed_app cf hd a b : forall s,
  feed cf hd s (a ++ b) = bindr (feed cf hd s a) (fun s1 => feed cf hd s1 b).
Proof.
  induction a as [|[[c p] d] r IH]; intros s; cbn [app feed bindr]; [reflexivity|].
  destruct (updaters cf hd s c p d) as [s1| |]; cbn [bindr]; auto.
Qed.

(* the Updater calls of one updateTime of the tracker = Analysis.update_time *)
Lemma feed_rep cf hd s t v d : FD.compat t v -> feed cf hd s (FD.rep t v d) = update_time cf hd s t v d.
Proof.
  intros Hc. rewrite update_time_updaters. unfold FD.rep. change FM.is_mark with is_mark.
  destruct (is_mark v) eqn:Ev.
  - rewrite (Hc Ev), Z.eqb_refl. reflexivity.
  - destruct (is_mark t); [reflexivity|]. cbn [feed]. destruct (updaters cf hd s t v d); reflexivity.
Qed.

(* the deletion loop: the calls made node by node are the calls the array model makes line by line *)
Lemma feed_rep_list cf hd t P Q : P < Q -> forall rest ck cv s,
  FS.inc ck rest -> FL.first_gt P rest -> Q <= FM.klast ck rest -> FD.compat_list t Q (ck, cv) rest ->
  feed cf hd s (FD.rep_list t P Q (ck, cv) rest) =
  report_deleted cf hd s t (map (FN.vfrom cv rest) (FR.zseq (Z.max ck P) (Z.to_nat (Q - Z.max ck P)))).
Proof.
  intros HPQ. induction rest as [|[nk nv] rest IH]; intros ck cv s Hinc Hgt Hk Hc.
  - cbn in Hk. replace (Z.to_nat (Q - Z.max ck P)) with 0%nat by lia. reflexivity.
  - destruct Hinc as [Hn Hinc]. cbn [FL.first_gt] in Hgt. cbn [FM.klast] in Hk.
    cbn [FD.rep_list FD.compat_list fst snd] in *.
    destruct (Z.ltb_spec ck Q) as [Hlt|Hge].
    + destruct Hc as [Hcv Hc].
      set (a := Z.max ck P). assert (Ha : a < nk) by (unfold a; lia).
      set (m := Z.min nk Q - a). assert (Hm : 0 < m) by (unfold m, a; lia).
      rewrite feed_app, (feed_rep cf hd s t cv (- m) Hcv).
      replace (Z.to_nat (Q - a)) with (Z.to_nat m + Z.to_nat (Q - Z.min nk Q))%nat by (unfold m; lia).
      rewrite FR.zseq_app, map_app, report_deleted_app.
      rewrite (FR.map_zseq_const cv a (Z.to_nat m)).
      2:{ intros i Hi. cbn [FN.vfrom]. destruct (Z.ltb_spec i nk); [reflexivity|exfalso; unfold m in *; lia]. }
      destruct (Z.to_nat m) as [|m'] eqn:Em; [exfalso; lia|].
      rewrite report_deleted_repeat. replace (- Z.of_nat (S m')) with (- m) by lia.
      unfold bindr. destruct (update_time cf hd s t cv (- m)) as [s1| |]; try reflexivity.
      replace (a + Z.of_nat (S m')) with (Z.min nk Q) by (unfold m in *; lia).
      destruct (Z.ltb_spec nk Q) as [HnQ|HnQ].
      * replace (Z.min nk Q) with nk by lia.
        rewrite (FR.map_zseq_ext (FN.vfrom cv ((nk, nv) :: rest)) (FN.vfrom nv rest) nk).
        2:{ intros i Hi. cbn [FN.vfrom]. destruct (Z.ltb_spec i nk); [exfalso; lia|reflexivity]. }
        rewrite (IH nk nv s1 Hinc).
        -- replace (Z.max nk P) with nk by lia. reflexivity.
        -- destruct rest as [|[k2 v2] r2]; cbn in *; auto. lia.
        -- exact Hk.
        -- exact Hc.
      * replace (Z.to_nat (Q - Z.min nk Q)) with 0%nat by lia. cbn [FR.zseq seq map report_deleted].
        destruct rest as [|nxt rest']; cbn [FD.rep_list]; [reflexivity|].
        cbn [fst]. replace (nk <? Q) with false by (symmetry; apply Z.ltb_ge; lia). reflexivity.
    + replace (Z.to_nat (Q - Z.max ck P)) with 0%nat by lia. reflexivity.
Qed.

(* all Updater calls of one File.Update, against the array model's calls *)
Lemma feed_upd_reports cf hd sh t P ins del s :
  FS.WF s -> FR.in_range s t P ins del -> (ins <> 0 \/ del <> 0) -> FR.compat_lines s t P del ->
  feed cf hd sh (FR.upd_reports t P ins del s) =
  bindr (if 0 <? ins then update_time cf hd sh t t ins else Ok sh)
        (fun s1 => report_deleted cf hd s1 t (firstn (Z.to_nat del) (skipn (Z.to_nat P) (FS.flatten s)))).
Proof.
  intros HWF0 Hr Hne Hc. pose proof (FV.WF_WF2 _ HWF0) as HWF.
  destruct Hr as (Ht & HP & Hi & Hd & Hlen & H32).
  unfold FR.upd_reports. rewrite feed_app.
  assert (Hins : feed cf hd sh (if ins >? 0 then FD.rep t t ins else []) =
                 (if 0 <? ins then update_time cf hd sh t t ins else Ok sh)).
  { rewrite Z.gtb_ltb. destruct (0 <? ins); [|reflexivity]. apply feed_rep. intros _. reflexivity. }
  rewrite Hins. unfold bindr.
  destruct (if 0 <? ins then update_time cf hd sh t t ins else Ok sh) as [s1| |]; try reflexivity.
  (* the deleted lines *)
  rewrite (FR.flatten_tab s HWF), FQ.firstn_skipn_tab by lia.
  destruct (Z.eqb_spec del 0) as [Ed|Nd].
  { subst del. reflexivity. }
  destruct HWF as (Hinc & Hend & v0 & r & Es). subst s.
  destruct (FL.find_le_spec r (0, v0) [] P ltac:(cbn; lia)) as (L & [ok ov] & R & Ef & Es & Hok & Hgt).
  change ([] ++ L) with L in Ef. cbn [fst] in Hok. rewrite Ef.
  rewrite Es in *. destruct (FV.inc_decomp _ _ _ Hinc) as (HL & HLo & HR). cbn [fst] in *.
  assert (HQ : P + del <= FM.klast ok R).
  { unfold FL.slen in Hlen. rewrite FN.klast_app in Hlen. exact Hlen. }
  assert (Hcl : FD.compat_list t (P + del) (ok, ov) R) by (apply (FR.compat_lines_list L); auto; lia).
  rewrite (feed_rep_list cf hd t P (P + del) ltac:(lia) R ok ov s1 HR Hgt HQ Hcl).
  replace (Z.max ok P) with P by lia. replace (P + del - P) with del by lia.
  f_equal. apply FR.map_zseq_ext. intros i Hi'. rewrite FV.sval_L_cons by exact Hinc.
  destruct (Z.ltb_spec i (FM.klast (-1) L)); [exfalso; lia|].
  destruct (Z.ltb_spec i ok); [exfalso; lia|reflexivity].
Qed.

(* a deleted line carrying the merge mark with another tick makes the array model fail too *)
Lemma report_deleted_marks cf hd t : forall vs s s', report_deleted cf hd s t vs = Ok s' ->
  forall v, In v vs -> is_mark v = true -> v = t.
Proof.
  induction vs as [|x r IH]; intros s s' E v Hin Hm; [destruct Hin|].
  cbn [report_deleted] in E. destruct (update_time cf hd s t x (-1)) as [s1| |] eqn:E1; try discriminate.
  destruct Hin as [->|Hin]; [|eapply IH; eauto].
  rewrite update_time_updaters, Hm in E1. destruct (Z.eqb_spec t v); [congruence|discriminate].
Qed.

Lemma vals_ok_arr_update t pos ins del a :
  0 <= t <= FM.MaxU32 -> vals_ok a -> vals_ok (FS.arr_update t pos ins del a).
Proof.
  intros Ht Ha. unfold vals_ok, FS.arr_update in *. rewrite Forall_forall in *. intros v Hv.
  apply in_app_or in Hv. destruct Hv as [Hv|Hv]; [apply Ha; eapply In_firstn; eauto|].
  apply in_app_or in Hv. destruct Hv as [Hv|Hv]; [apply repeat_spec in Hv; subst; exact Ht|].
  apply Ha. eapply In_skipn'; eauto.
Qed.

(* ---------- File.Update: the tracker and the array agree ---------- *)
Definition file_rel (x : tfile * shared) (y : file * shared) : Prop :=
  tf_ok (fst x) /\ flat_file (fst x) = fst y /\ snd x = snd y.

Lemma tr_update_nonempty cf ns hd sh t pos ins del :
  FS.WF ns -> vals_ok (FS.flatten ns) -> 0 <= t < FM.MaxU32 ->
  Z.of_nat (length (FS.flatten ns)) + ins <= FM.MaxU32 ->
  0 <= pos -> 0 <= ins -> 0 <= del -> (ins <> 0 \/ del <> 0) ->
  rel_res file_rel
    match FM.update t pos ins del ns with
    | FM.Ok (ns', ds) => match feed cf hd sh ds with
                         | Ok s' => Ok (mkTFile ns' hd, s') | Panic c => Panic c | Err c => Err c end
    | FM.Panic c => Panic (cls c)
    end
    (if (Z.of_nat (length (FS.flatten ns)) <? pos) || (Z.of_nat (length (FS.flatten ns)) <? pos + del)
     then Panic POther
     else match (if 0 <? ins then update_time cf hd sh t t ins else Ok sh) with
          | Ok s1 =>
              match report_deleted cf hd s1 t (firstn (Z.to_nat del) (skipn (Z.to_nat pos) (FS.flatten ns))) with
              | Ok s2 => Ok (mkFile (firstn (Z.to_nat pos) (FS.flatten ns) ++ repeat t (Z.to_nat ins) ++
                                     skipn (Z.to_nat (pos + del)) (FS.flatten ns)) hd, s2)
              | Panic c => Panic c
              | Err c => Err c
              end
          | Panic c => Panic c
          | Err c => Err c
          end).
Proof.
  intros HWF Hvals Ht Hbud Hp Hi Hd Hne.
  pose proof (FV.WF_WF2 _ HWF) as HWF2.
  assert (Hs32 : FL.slen ns <= FM.MaxU32) by (destruct HWF as (_ & _ & _ & H0); exact H0).
  pose proof (FJ.alen_flatten ns HWF2) as Hal. unfold FS.alen in Hal.
  set (n := Z.of_nat (length (FS.flatten ns))) in *.
  destruct ((n <? pos) || (n <? pos + del)) eqn:Eout.
  - (* out of range: both panic *)
    assert (Hcond : n < pos \/ n < pos + del).
    { apply orb_prop in Eout. destruct Eout as [E|E]; apply Z.ltb_lt in E; auto. }
    destruct (FQ.update_rejects_prop t pos ins del ns HWF) as (c & Ec).
    { do 8 right. split; [exact Hne|]. rewrite FV.len_slen, <- Hal. exact Hcond. }
    rewrite Ec. exact I.
  - apply orb_false_elim in Eout. destruct Eout as [E1 E2]. apply Z.ltb_ge in E1, E2.
    assert (Hrb : FS.in_rangeb t pos ins del (FS.flatten ns) = true).
    { unfold FS.in_rangeb, FS.alen. fold n. rewrite !andb_true_iff, !Z.leb_le, Z.ltb_lt. lia. }
    assert (Hrange : FR.in_range ns t pos ins del) by (apply FQ.in_rangeb_range; auto).
    destruct (FS.mark_okb t pos del (FS.flatten ns)) eqn:Emk.
    + (* a valid request: the C03 refinement theorem *)
      assert (Hc : FR.compat_lines ns t pos del).
      { apply FQ.mark_okb_lines; auto. rewrite <- Hal. fold n. lia. }
      destruct (FR.update_refines t pos ins del ns HWF Hrange Hne Hc) as (ns' & E & W & Hl & Hf).
      rewrite E, (feed_upd_reports cf hd sh t pos ins del ns HWF Hrange Hne Hc). unfold bindr.
      destruct (if 0 <? ins then update_time cf hd sh t t ins else Ok sh) as [s1| |]; try exact I.
      destruct (report_deleted cf hd s1 t _) as [s2| |]; try exact I.
      cbn [rel_res]. unfold file_rel, tf_ok, flat_file. cbn [fst snd tf_nodes tf_hist].
      split; [split; [exact W|]|split; [|reflexivity]].
      * rewrite Hf. apply vals_ok_arr_update; [lia|exact Hvals].
      * rewrite Hf. reflexivity.
    + (* a deleted line carries the mark with another tick: both fail *)
      destruct (FQ.update_mark_conflict t pos ins del ns HWF Hrb Emk) as (c & Ec). rewrite Ec.
      destruct (if 0 <? ins then update_time cf hd sh t t ins else Ok sh) as [s1| |]; try exact I.
      destruct (report_deleted cf hd s1 t _) as [s2| |] eqn:Er; try exact I.
      exfalso. pose proof (report_deleted_marks cf hd t _ _ _ Er) as Hm.
      unfold FS.mark_okb in Emk. apply not_true_iff_false in Emk. apply Emk. apply forallb_forall.
      intros v Hv. change FM.is_mark with is_mark. destruct (is_mark v) eqn:Ev; [|reflexivity].
      cbn [negb orb]. apply Z.eqb_eq. apply Hm; auto.
Qed.

Theorem tr_update_agree cf f sh t pos ins del :
  tf_ok f -> 0 <= t < FM.MaxU32 ->
  FS.alen (FS.flatten (tf_nodes f)) + ins <= FM.MaxU32 ->
  (pos <= FM.MaxU32 \/ ins <> 0 \/ del <> 0) ->
  rel_res file_rel (tr_update cf f sh t pos ins del) (arr_update cf (flat_file f) sh t pos ins del).
Proof.
  intros [HWF Hvals] Ht Hbud Hpos. destruct f as [ns hd]. cbn [tf_nodes tf_hist] in *.
  pose proof (FV.WF_WF2 _ HWF) as HWF2.
  assert (Hs32 : FL.slen ns <= FM.MaxU32) by (destruct HWF as (_ & _ & _ & H0); exact H0).
  pose proof (FJ.alen_flatten ns HWF2) as Hal. unfold FS.alen in Hal, Hbud.
  unfold tr_update, arr_update, flat_file. cbn [tf_nodes tf_hist f_vals f_hist].
  (* a request the array model rejects is rejected by the tracker *)
  assert (Hrej : forall y : result (file * shared),
            (t < 0 \/ FM.MaxU32 <= t \/ pos < 0 \/ FM.MaxU32 < pos \/ ins < 0 \/ del < 0 \/ FM.MaxU32 < ins \/ FM.MaxU32 < del \/
             ((ins <> 0 \/ del <> 0) /\ (FM.len ns < pos \/ FM.len ns < pos + del))) ->
            (forall v, y <> Ok v) ->
            rel_res file_rel
              match FM.update t pos ins del ns with
              | FM.Ok (ns', ds) => match feed cf hd sh ds with
                                   | Ok s' => Ok (mkTFile ns' hd, s') | Panic c => Panic c | Err c => Err c end
              | FM.Panic c => Panic (cls c)
              end y).
  { intros y Hcond Hy. destruct (FQ.update_rejects_prop t pos ins del ns HWF Hcond) as (c & Ec). rewrite Ec.
    destruct y; cbn; auto. exfalso. eapply Hy; reflexivity. }
  destruct (Z.ltb_spec pos 0) as [Hp|Hp]; [apply Hrej; [lia|discriminate]|].
  destruct (Z.ltb_spec ins 0) as [Hi|Hi]; [apply Hrej; [lia|discriminate]|].
  destruct (Z.ltb_spec del 0) as [Hd|Hd]; [apply Hrej; [lia|discriminate]|]. cbn [orb].
  destruct (Z.eqb_spec ins 0) as [Ei|Ni]; [destruct (Z.eqb_spec del 0) as [Ed|Nd]|]; cbn [andb].
  - (* the empty request *)
    subst ins del. rewrite FJ.update_noop by lia. cbn [feed]. cbn [rel_res]. unfold file_rel, tf_ok, flat_file.
    cbn [fst snd tf_nodes tf_hist]. auto.
  - apply (tr_update_nonempty cf ns hd sh t pos ins del); auto.
  - apply (tr_update_nonempty cf ns hd sh t pos ins del); auto.
Qed.

(* ---------- NewFile ---------- *)
Theorem tr_new_agree cf hd sh t n :
  0 <= t <= FM.MaxU32 -> 0 <= n <= FM.MaxU32 ->
  rel_res file_rel (tr_new cf hd sh t n)
    (match update_time cf hd sh t t n with
     | Ok s2 => Ok (mkFile (repeat t (Z.to_nat n)) hd, s2)
     | Panic c => Panic c
     | Err c => Err c
     end).
Proof.
  intros Ht Hn. unfold tr_new.
  destruct (FQ.new_file_spec t n Ht Hn) as (s & E & W & Hf & Hl). rewrite E.
  rewrite (feed_rep cf hd sh t t n) by (intros _; reflexivity).
  destruct (update_time cf hd sh t t n) as [s2| |]; try exact I.
  cbn [rel_res]. unfold file_rel, tf_ok, flat_file. cbn [fst snd tf_nodes tf_hist].
  rewrite Hf. split; [split; [exact W|]|split; reflexivity].
  unfold vals_ok. apply Forall_forall. intros v Hv. apply repeat_spec in Hv. subst. exact Ht.
Qed.

(* ---------- the loop of handleModification over a tracker ---------- *)
(* identical to Analysis.hm_loop with tr_update in the place of arr_update *)
Fixpoint thm_loop (cf : cfg) (t : Z) (diffs : list (dop * Z)) (pos : Z) (pending : dop * Z)
         (f : tfile) (s : shared) : result (tfile * shared) :=
  let apply (e : dop * Z) (pos : Z) : result (tfile * shared * Z) :=
    match fst e with
    | DIns => match tr_update cf f s t pos (snd e) 0 with
              | Ok (f', s') => Ok (f', s', pos + snd e)
              | Panic c => Panic c | Err c => Err c
              end
    | _ => match tr_update cf f s t pos 0 (snd e) with
           | Ok (f', s') => Ok (f', s', pos)
           | Panic c => Panic c | Err c => Err c
           end
    end in
  match diffs with
  | [] =>
      if 0 <? snd pending then
        match apply pending pos with
        | Ok (f', s', _) => Ok (f', s')
        | Panic c => Panic c | Err c => Err c
        end
      else Ok (f, s)
  | (DEq, len) :: rest =>
      if 0 <? snd pending then
        match apply pending pos with
        | Ok (f', s', pos') => thm_loop cf t rest (pos' + len) (DEq, 0) f' s'
        | Panic c => Panic c | Err c => Err c
        end
      else thm_loop cf t rest (pos + len) pending f s
  | (DIns, len) :: rest =>
      if 0 <? snd pending then
        match fst pending with
        | DIns => Err POther
        | _ => match tr_update cf f s t pos len (snd pending) with
               | Ok (f', s') => thm_loop cf t rest (pos + len) (DEq, 0) f' s'
               | Panic c => Panic c | Err c => Err c
               end
        end
      else thm_loop cf t rest pos (DIns, len) f s
  | (DDel, len) :: rest =>
      if 0 <? snd pending then Err POther
      else thm_loop cf t rest pos (DDel, len) f s
  end.

(* the lines a script may still insert: the uint32 budget of handleModification *)
Definition ins_of (e : dop * Z) : Z := match fst e with DIns => Z.max 0 (snd e) | _ => 0 end.
Definition ins_total (diffs : list (dop * Z)) : Z := sum_z (map ins_of diffs).

Lemma ins_total_nonneg diffs : 0 <= ins_total diffs.
Proof.
  unfold ins_total. induction diffs as [|[o l] r IH]; cbn [map]; [cbn; lia|]. rewrite sum_z_cons.
  unfold ins_of at 1. cbn [fst snd]. destruct o; lia.
Qed.

Lemma flat_len f f' : flat_file f = f' -> Z.of_nat (length (f_vals f')) = FS.alen (FS.flatten (tf_nodes f)).
Proof. intros <-. reflexivity. Qed.

Lemma alen_arr_update t pos ins del a : 0 <= pos -> 0 <= ins -> 0 <= del -> pos + del <= FS.alen a ->
  FS.alen (FS.arr_update t pos ins del a) = FS.alen a + ins - del.
Proof.
  intros Hp Hi Hd Hr. unfold FS.alen, FS.arr_update in *.
  rewrite !app_length, firstn_length, repeat_length, skipn_length. lia.
Qed.

(* length after a successful array edit *)
Lemma arr_update_len cf f s t pos ins del f' s' :
  arr_update cf f s t pos ins del = Ok (f', s') ->
  Z.of_nat (length (f_vals f')) = Z.of_nat (length (f_vals f)) + ins - del /\ 0 <= ins /\ 0 <= del.
Proof.
  unfold arr_update. intros E.
  destruct ((pos <? 0) || (ins <? 0) || (del <? 0)) eqn:G; [discriminate|].
  apply orb_false_elim in G. destruct G as [G G3]. apply orb_false_elim in G. destruct G as [G1 G2].
  apply Z.ltb_ge in G1, G2, G3.
  destruct ((ins =? 0) && (del =? 0)) eqn:Ez.
  { apply andb_prop in Ez. destruct Ez as [E1 E2]. apply Z.eqb_eq in E1, E2. inversion E; subst. lia. }
  destruct ((Z.of_nat (length (f_vals f)) <? pos) || (Z.of_nat (length (f_vals f)) <? pos + del)) eqn:R; [discriminate|].
  apply orb_false_elim in R. destruct R as [R1 R2]. apply Z.ltb_ge in R1, R2.
  destruct (if 0 <? ins then update_time cf (f_hist f) s t t ins else Ok s) as [s1| |]; try discriminate.
  destruct (report_deleted cf (f_hist f) s1 t _) as [s2| |]; try discriminate.
  inversion E; subst. cbn [f_vals].
  rewrite !app_length, firstn_length, repeat_length, skipn_length. lia.
Qed.

Theorem thm_loop_agree cf t : 0 <= t < FM.MaxU32 -> forall diffs pos pending f sh,
  tf_ok f ->
  FS.alen (FS.flatten (tf_nodes f)) + ins_of pending + ins_total diffs <= FM.MaxU32 ->
  rel_res file_rel (thm_loop cf t diffs pos pending f sh) (hm_loop cf t diffs pos pending (flat_file f) sh).
Proof.
  intros Ht. induction diffs as [|[o len] rest IH]; intros pos pending f sh Hok Hbud.
  - (* end of the script *)
    cbn [thm_loop hm_loop]. destruct (Z.ltb_spec 0 (snd pending)) as [Hp|Hp].
    2:{ cbn [rel_res]. unfold file_rel. auto. }
    unfold ins_total in Hbud. cbn [map] in Hbud. change (sum_z []) with 0 in Hbud.
    destruct pending as [po pl]. cbn [fst snd] in *. unfold ins_of in Hbud. cbn [fst snd] in Hbud.
    destruct po.
    + pose proof (tr_update_agree cf f sh t pos 0 pl Hok Ht ltac:(lia) ltac:(lia)) as A.
      destruct (tr_update cf f sh t pos 0 pl) as [[f1 s1]| |], (arr_update cf (flat_file f) sh t pos 0 pl) as [[g1 u1]| |];
        cbn [rel_res] in *; auto.
    + pose proof (tr_update_agree cf f sh t pos pl 0 Hok Ht ltac:(lia) ltac:(lia)) as A.
      destruct (tr_update cf f sh t pos pl 0) as [[f1 s1]| |], (arr_update cf (flat_file f) sh t pos pl 0) as [[g1 u1]| |];
        cbn [rel_res] in *; auto.
    + pose proof (tr_update_agree cf f sh t pos 0 pl Hok Ht ltac:(lia) ltac:(lia)) as A.
      destruct (tr_update cf f sh t pos 0 pl) as [[f1 s1]| |], (arr_update cf (flat_file f) sh t pos 0 pl) as [[g1 u1]| |];
        cbn [rel_res] in *; auto.
  - pose proof (ins_total_nonneg rest) as Hnn.
    assert (Hcons : ins_total ((o, len) :: rest) = ins_of (o, len) + ins_total rest) by reflexivity.
    rewrite Hcons in Hbud.
    destruct pending as [po pl]. unfold ins_of in Hbud. cbn [fst snd] in Hbud.
    assert (Step : forall i d, i + 0 <= ins_of (po, pl) + ins_of (o, len) -> (i <> 0 \/ d <> 0) ->
              forall pos', rel_res file_rel
                match tr_update cf f sh t pos i d with
                | Ok (f', s') => thm_loop cf t rest pos' (DEq, 0) f' s' | Panic c => Panic c | Err c => Err c end
                match arr_update cf (flat_file f) sh t pos i d with
                | Ok (f', s') => hm_loop cf t rest pos' (DEq, 0) f' s' | Panic c => Panic c | Err c => Err c end).
    { intros i d Hi Hne pos'. unfold ins_of in Hi. cbn [fst snd] in Hi.
      assert (Hb1 : FS.alen (FS.flatten (tf_nodes f)) + i <= FM.MaxU32) by (destruct po, o; lia).
      pose proof (tr_update_agree cf f sh t pos i d Hok Ht Hb1 (or_intror Hne)) as A.
      destruct (tr_update cf f sh t pos i d) as [[f1 s1]| |], (arr_update cf (flat_file f) sh t pos i d) as [[g1 u1]| |] eqn:EA;
        cbn [rel_res] in *; auto; try contradiction.
      unfold file_rel in A. cbn [fst snd] in A. destruct A as (Hok1 & Hf1 & Hs1). subst g1 u1.
      destruct (arr_update_len _ _ _ _ _ _ _ _ _ EA) as (HL & Hl0 & Hl1). cbn [flat_file f_vals] in HL.
      apply IH; [exact Hok1|]. unfold FS.alen, ins_of in *. cbn [fst snd] in *. destruct po, o; lia. }
    destruct o; cbn [thm_loop hm_loop fst snd].
    + (* DEq *)
      destruct (Z.ltb_spec 0 pl) as [Hp|Hp].
      2:{ apply IH; [exact Hok|]. unfold ins_of in *. cbn [fst snd] in *. destruct po; lia. }
      destruct po.
      * pose proof (Step 0 pl ltac:(unfold ins_of; cbn [fst snd]; lia) ltac:(lia)) as S1.
        specialize (S1 (pos + len)).
        destruct (tr_update cf f sh t pos 0 pl) as [[f1 s1]| |], (arr_update cf (flat_file f) sh t pos 0 pl) as [[g1 u1]| |];
          cbn [rel_res] in *; auto.
      * pose proof (Step pl 0 ltac:(unfold ins_of; cbn [fst snd]; lia) ltac:(lia)) as S1.
        specialize (S1 (pos + pl + len)).
        destruct (tr_update cf f sh t pos pl 0) as [[f1 s1]| |], (arr_update cf (flat_file f) sh t pos pl 0) as [[g1 u1]| |];
          cbn [rel_res] in *; auto.
      * pose proof (Step 0 pl ltac:(unfold ins_of; cbn [fst snd]; lia) ltac:(lia)) as S1.
        specialize (S1 (pos + len)).
        destruct (tr_update cf f sh t pos 0 pl) as [[f1 s1]| |], (arr_update cf (flat_file f) sh t pos 0 pl) as [[g1 u1]| |];
          cbn [rel_res] in *; auto.
    + (* DIns *)
      destruct (Z.ltb_spec 0 pl) as [Hp|Hp].
      2:{ apply IH; [exact Hok|]. unfold ins_of in *. cbn [fst snd] in *. destruct po; lia. }
      destruct po; [|exact I|].
      * apply Step; [unfold ins_of; cbn [fst snd]; lia|lia].
      * apply Step; [unfold ins_of; cbn [fst snd]; lia|lia].
    + (* DDel *)
      destruct (Z.ltb_spec 0 pl) as [Hp|Hp]; [exact I|].
      apply IH; [exact Hok|]. unfold ins_of in *. cbn [fst snd] in *. destruct po; lia.
Qed.
