(* C11, part 1: executable model of the three places that decide how many lines a blob has.

     count_lines       internal/plumbing/blob_cache.go  CachedBlob.CountLines
     split_lines       github.com/sergi/go-diff v1.0.0  diffmatchpatch.diffLinesToRunesMunge, the line
                       splitting inside DiffLinesToRunes (FileDiff.Consume takes len(src), len(dst) of its
                       result as OldLinesOfCode / NewLinesOfCode)
     remove_spaces  internal/plumbing/diff.go        stripWhitespace (strings.Replace(str, " ", "", -1))

   A blob is a list of bytes, a byte is a Z in 0..255 (nothing below depends on the range).
   Definitions only; the proofs are in LineCountProofs.v. *)
From Coq Require Import List ZArith Bool Arith.
Import ListNotations.

Notation bytes := (list Z) (only parsing).

Definition is_nl (c : Z) : bool := (c =? 10)%Z.      (* '\n' *)
Definition is_nul (c : Z) : bool := (c =? 0)%Z.
Definition is_sp (c : Z) : bool := (c =? 32)%Z.      (* ' ' *)

(* ---------------------------------------------------------------- CachedBlob.CountLines *)

(* sniffLen := 8000 (written through Z so that no large unary numeral is ever built by the parser) *)
Definition sniff_len : nat := Z.to_nat 8000.

(* bytes.IndexByte(sniff, 0) >= 0 *)
Definition has_nul (b : bytes) : bool := existsb is_nul b.

(* bytes.Count(b.Data, []byte{'\n'}) *)
Fixpoint count_nl (b : bytes) : nat :=
  match b with
  | [] => 0
  | c :: r => if is_nl c then S (count_nl r) else count_nl r
  end.

(* b.Data[len(b.Data)-1]; None stands for the index panic on an empty slice (never reached: CountLines
   returns early on empty data) *)
Fixpoint last_byte (b : bytes) : option Z :=
  match b with
  | [] => None
  | [c] => Some c
  | _ :: r => last_byte r
  end.

Inductive count_result := Lines (n : nat) | Binary | CountPanic.

(* sniff := b.Data; if len(sniff) > sniffLen { sniff = sniff[:sniffLen] }  is  firstn sniff_len *)
Definition sniffed (b : bytes) : bytes := firstn sniff_len b.

Definition count_lines (b : bytes) : count_result :=
  match b with
  | [] => Lines 0                                        (* if len(b.Data) == 0 { return 0, nil } *)
  | _ =>
      if has_nul (sniffed b) then Binary                 (* return 0, ErrorBinary *)
      else
        let lines := count_nl b in
        match last_byte b with
        | Some c => if is_nl c then Lines lines else Lines (S lines)
        | None => CountPanic
        end
  end.

(* the domain of the property: no NUL in the sniffed prefix *)
Definition textb (b : bytes) : bool := negb (has_nul (sniffed b)).

(* ---------------------------------------------------------------- diffLinesToRunesMunge *)

(* One turn of the loop body:  lineEnd = indexOf(text, "\n", lineStart); if lineEnd == -1 { lineEnd =
   len(text)-1 }; line := text[lineStart:lineEnd+1]; lineStart = lineEnd+1.
   [take_line rest] returns the line (with its '\n' when there is one) and what follows it. *)
Fixpoint take_line (b : bytes) : bytes * bytes :=
  match b with
  | [] => ([], [])
  | c :: r => if is_nl c then ([c], r) else let (l, r') := take_line r in (c :: l, r')
  end.

(* for lineEnd < len(text)-1 { ... }: the loop runs while text[lineStart:] is not empty.  Fuel = number of turns
   allowed; [split_lines] gives it len(text), which LineCountProofs.munge_fuel shows to be enough. *)
Fixpoint munge (fuel : nat) (b : bytes) : list bytes :=
  match fuel with
  | O => []
  | S f =>
      match b with
      | [] => []
      | _ => let (l, r) := take_line b in l :: munge f r
      end
  end.

Definition split_lines (b : bytes) : list bytes := munge (length b) b.

(* The line ids of DiffLinesToRunes: lineArray starts as [""], every new line is appended and gets its index;
   the two texts share the table.  Quadratic (association list instead of Go's map): used on small cases only. *)
Fixpoint list_eqb (x y : bytes) : bool :=
  match x, y with
  | [], [] => true
  | a :: x', b :: y' => (a =? b)%Z && list_eqb x' y'
  | _, _ => false
  end.

Fixpoint lookup_line (tbl : list bytes) (l : bytes) (i : nat) : option nat :=
  match tbl with
  | [] => None
  | x :: r => if list_eqb x l then Some i else lookup_line r l (S i)
  end.

(* tbl is lineArray without the junk entry at index 0, oldest first; ids start at 1 *)
Fixpoint lines_to_ids (tbl : list bytes) (ls : list bytes) : list nat * list bytes :=
  match ls with
  | [] => ([], tbl)
  | l :: r =>
      match lookup_line tbl l 1 with
      | Some i => let (ids, tbl') := lines_to_ids tbl r in (i :: ids, tbl')
      | None => let (ids, tbl') := lines_to_ids (tbl ++ [l]) r in (S (length tbl) :: ids, tbl')
      end
  end.

Definition diff_lines_to_runes (a b : bytes) : list nat * list nat :=
  let (ia, tbl) := lines_to_ids [] (split_lines a) in
  let (ib, _) := lines_to_ids tbl (split_lines b) in
  (ia, ib).

(* ---------------------------------------------------------------- stripWhitespace *)

(* strings.Replace(str, " ", "", -1): every byte 0x20 is removed, wherever it is; tabs, CR and every other byte stay *)
Definition remove_spaces (b : bytes) : bytes := filter (fun c => negb (is_sp c)) b.

(* stripWhitespace as it is since commit 3944bd2 (repair of finding F9): a last line made of spaces only is kept
   as one space, so that it stays a line.
     response := strings.Replace(str, " ", "", -1)
     if n := len(str); n > 0 && str[n-1] == ' ' && (len(response) == 0 || response[len(response)-1] == '\n') {
         response += " " } *)
Definition strip_whitespace (b : bytes) : bytes :=
  let r := remove_spaces b in
  match last_byte b with
  | Some c =>
      if is_sp c then
        match last_byte r with
        | None => r ++ [32%Z]
        | Some d => if is_nl d then r ++ [32%Z] else r
        end
      else r
  | None => r
  end.

Definition strip (ignore_whitespace : bool) (b : bytes) : bytes :=
  if ignore_whitespace then strip_whitespace b else b.

(* What FileDiff.Consume reports as OldLinesOfCode / NewLinesOfCode for a blob *)
Definition diff_loc (ignore_whitespace : bool) (b : bytes) : nat :=
  length (split_lines (strip ignore_whitespace b)).

(* stripWhitespace before that commit (kept to state what was wrong: theorems named ..._before_fix) *)
Definition strip_before_fix (ignore_whitespace : bool) (b : bytes) : bytes :=
  if ignore_whitespace then remove_spaces b else b.
Definition diff_loc_before_fix (ignore_whitespace : bool) (b : bytes) : nat :=
  length (split_lines (strip_before_fix ignore_whitespace b)).

(* FileDiff.Consume since commit 742df3d: line identifiers (runes) at or above 0xD800 are shifted by 0x800, because
   diffmatchpatch turns rune slices into strings, where every UTF-16 surrogate becomes U+FFFD.  The identifiers are
   not visible in FileDiffData (the consumers use rune counts only); see LineCountProofs.shift_id_spec. *)
Definition shift_id (id : Z) : Z := if (55296 <=? id)%Z then (id + 2048)%Z else id.

(* The part of the blob after its last '\n' (the whole blob when there is none) *)
Definition has_nl (b : bytes) : bool := existsb is_nl b.
Fixpoint last_seg (b : bytes) : bytes :=
  match b with
  | [] => []
  | c :: r => if is_nl c then last_seg r else if has_nl r then last_seg r else c :: r
  end.

(* "the last line is not empty and consists of spaces only": the blobs that finding F9 was about *)
Definition last_blank (b : bytes) : bool :=
  match last_seg b with
  | [] => false
  | s => forallb is_sp s
  end.
