(* The statements of coq/props/C05.v, assembled from the proof files. *)
From Coq Require Import List ZArith Lia Bool.
Import ListNotations.
From Herc Require Import RBTree.Model RBTree.Spec RBTree.Arena RBTree.InsertProofs RBTree.DeleteProofs
  RBTree.MapProofs RBTree.LookupProofs RBTree.HeightProofs RBTree.ArenaProofs RBTree.SeqProofs.
Open Scope Z_scope.

Theorem insert_map ni nk nv t : bst t ->
  let '(t', ok, it) := insert ni nk nv t in
  elems t' = s_insert ni nk nv (elems t) /\
  ok = negb (s_mem nk (elems t)) /\
  it = (if s_mem nk (elems t) then 0 else ni).
Proof.
  intros Hb. pose proof (insert_elems ni nk nv t Hb). pose proof (insert_result ni nk nv t Hb) as [? ?].
  destruct (insert ni nk nv t) as [[t' ok] it]. auto.
Qed.

Theorem delete_map x t : bst t ->
  match delete_key x t with
  | DDone t' => s_mem x (elems t) = true /\ elems t' = s_delete x (elems t)
  | DNotFound => s_mem x (elems t) = false /\ s_delete x (elems t) = elems t
  | DUnspec => ~ is_redblack t
  end.
Proof.
  intros Hb. pose proof (delete_key_elems x t Hb) as H.
  destruct (delete_key x t) eqn:E; auto.
  intros Hrb. pose proof (delete_key_defined x t Hrb) as D. rewrite E in D.
  destruct (mem x t); [destruct D; discriminate|discriminate].
Qed.

Theorem lookup_map t : bst t -> NoDup (ids t) -> ids_ok t ->
  (forall x, mem x t = s_mem x (elems t)) /\
  (forall x, get x t = s_get x (elems t)) /\
  (forall x, it_find_ge x t = pos_fwd (s_find_ge x (elems t))) /\
  (forall x, it_find_le x t = Some (pos_bwd (s_find_le x (elems t)))) /\
  min_id t = pos_fwd (s_min (elems t)) /\
  it_max t = pos_bwd (s_max (elems t)) /\
  tsize t = Z.of_nat (length (elems t)) /\
  (forall m, item_of m t = s_item m (elems t)) /\
  (forall m, next_in m t limit = option_map pos_fwd (s_next m (elems t))) /\
  (forall m, prev_in m t neg_limit = option_map pos_bwd (s_prev m (elems t))) /\
  walk_fwd (S (length (elems t))) (min_id t) t = eids (elems t) /\
  walk_bwd (S (length (elems t))) (it_max t) t = rev (eids (elems t)).
Proof.
  intros Hb Hn Hok. repeat match goal with |- _ /\ _ => split end.
  - intros x. apply mem_elems; auto.
  - intros x. apply get_spec; auto.
  - intros x. apply it_find_ge_spec; auto.
  - intros x. apply it_find_le_spec; auto.
  - apply min_id_spec.
  - apply it_max_spec; auto.
  - apply tsize_spec.
  - intros m. apply item_of_spec.
  - intros m. rewrite next_in_spec. destruct (s_next m (elems t)) as [[e|]|]; reflexivity.
  - intros m. rewrite prev_in_spec. destruct (s_prev m (elems t)) as [[e|]|]; reflexivity.
  - rewrite <- ids_eids. apply walk_fwd_spec; auto.
  - rewrite <- ids_eids. apply walk_bwd_spec; auto.
Qed.

Theorem insert_rb ni nk nv t : is_redblack t /\ bst t ->
  is_redblack (fst (fst (insert ni nk nv t))) /\ bst (fst (fst (insert ni nk nv t))).
Proof. intros [H1 H2]. split; [apply insert_RB|apply insert_bst]; auto. Qed.

Theorem delete_rb x t t' : is_redblack t /\ bst t -> delete_key x t = DDone t' ->
  is_redblack t' /\ bst t'.
Proof. intros [H1 H2] E. split; [eapply delete_key_RB|eapply delete_key_bst]; eauto. Qed.

Theorem iterators_stable t : bst t ->
  (forall ni nk nv m, m <> ni -> item_of m (fst (fst (insert ni nk nv t))) = item_of m t) /\
  (forall x t' m, delete_key x t = DDone t' -> (forall v, item_of m t <> Some (x, v)) ->
                  item_of m t' = item_of m t).
Proof.
  intros Hb. split.
  - intros. apply insert_stable; auto.
  - intros. eapply delete_stable; eauto.
Qed.

Theorem sequences n ops : all_defined (init n) ops ->
  let s := fst (run (init n) ops) in
  Inv s /\
  spec_run (repeat [] n) ops = (abs s, snd (run (init n) ops)) /\
  forall ti, let t := get_tree s ti in
    is_redblack t /\ bst t /\ NoDup (ids t) /\ ids_ok t /\
    Z.of_nat (height t) <= 2 * Z.log2 (tsize t + 1) /\
    links_consistent (root_id t) (cells 0 t) /\
    (forall tj i, tj <> ti -> In i (ids t) -> ~ In i (ids (get_tree s tj))).
Proof.
  intros Hd. destruct (run_refines ops (init n) (init_Inv n) Hd) as [HI Hr].
  split; [auto|]. split.
  - rewrite <- Hr. f_equal. unfold abs, init. cbn [trees]. clear. induction n as [|n IH]; cbn [repeat map elems]; [reflexivity|]. rewrite IH. reflexivity.
  - intros ti. apply Inv_tree; auto.
Qed.
