// Round 4 of the plan stream: the CONTENT of the values the fabricated commits are made of (docs/STRENGTHEN_BRIEF.md R4-2, R4-3).
//
// Hash style (field hst; absent / 0 = planlib.Hash: the rank in the four leading bytes, zeros, a final 1).  The byte ORDER of the
// hashes is the field ranks in every style; what varies is WHERE the hashes differ:
//
//	hst = off + 100*b + 10000*tail
//	b = 0   every hash starts with the same off hex digits (off = 1, 2, 4, 7, 8, 14, 16, 32), the rank follows as eight hex digits
//	b > 0   the rank is split: rank >> b in the eight leading hex digits, then common digits up to off (>= 8), then the low b bits
//	        as eight hex digits: groups of 2^b hashes (neighbours in byte order) agree in their first off hex digits
//	tail    0 the digits after the rank are the same in every hash (the hashes share a suffix too), 1 they are pseudo-random
//	hst = 99999  pseudo-random 160-bit values, sorted and handed out by rank
//
// A hash outside the commit set (negative parent) is made the same way from the rank n + k, so that it shares the prefix too.
//
// Time (field times, seconds after planlib.TimeBase): modes 7..11 of timesFor reach what planlib.TimesFor does not - commits dated
// 2100, dated 36 hours after the moment of generation, before 1970, at the ends of the domain (Unix 0, -1, 2^31-1, 2^31, 2^32,
// 9999-12-31, year 1), the whole history in the future.  Field tzm = 1: zone offsets that are not zero and an author date that
// differs from the committer date.  The planner must read neither.
package main

import (
	"crypto/sha1"
	"encoding/binary"
	"math/rand"
	"sort"
	"time"

	"gopkg.in/src-d/go-git.v4/plumbing"
	"gopkg.in/src-d/go-git.v4/plumbing/object"
	pl "verifharness/planlib"
)

const hstRandom = 99999

// hashStyles are the styles the generators draw from (0 = the plain style of the earlier rounds).
var hashStyles = []int{0, 8, 10008, 16, 32, 1, 10002, 4, 7, 10014, 108, 10116, 208, 132, hstRandom, 10007}

var filler = [20]byte{0xd3, 0xde, 0xb3, 0x3d, 0x1e, 0x6e, 0x6a, 0x52, 0xd4, 0x60, 0x14, 0xf4, 0x5a, 0x12, 0xf9, 0x16, 0xb3, 0xab, 0x63, 0x7f}

func setNibble(h *plumbing.Hash, at int, v byte) {
	if at%2 == 0 {
		h[at/2] = h[at/2]&0x0f | v<<4
	} else {
		h[at/2] = h[at/2]&0xf0 | v&0x0f
	}
}

// put writes v as eight hex digits at the hex-digit offset at.
func put(h *plumbing.Hash, at int, v uint32) {
	for j := 0; j < 8; j++ {
		setNibble(h, at+j, byte(v>>uint(4*(7-j)))&15)
	}
}

// hasher returns the rank -> hash function of a style for a history of n commits.
func hasher(hst, n int) func(rank int) plumbing.Hash {
	if hst == 0 {
		return pl.Hash
	}
	if hst == hstRandom {
		// deterministic in n; ranks beyond n (hashes outside the set) are appended above the largest
		total := n + 64
		hs := make([]plumbing.Hash, total)
		for i := range hs {
			var b [8]byte
			binary.BigEndian.PutUint64(b[:], uint64(n)<<32|uint64(i))
			hs[i] = plumbing.Hash(sha1.Sum(b[:]))
		}
		sort.Slice(hs, func(i, j int) bool { return string(hs[i][:]) < string(hs[j][:]) })
		return func(rank int) plumbing.Hash {
			if rank < total {
				return hs[rank]
			}
			return pl.Hash(rank)
		}
	}
	off, b, tail := hst%100, hst/100%100, hst/10000
	if off > 32 {
		off = 32
	}
	if b > 0 && off < 8 {
		off = 8
	}
	return func(rank int) plumbing.Hash {
		h := plumbing.Hash(filler)
		end := off + 8
		if b == 0 {
			put(&h, off, uint32(rank))
		} else {
			put(&h, 0, uint32(rank)>>uint(b))
			put(&h, off, uint32(rank)&(1<<uint(b)-1))
		}
		if tail == 1 {
			var x [4]byte
			binary.BigEndian.PutUint32(x[:], uint32(rank))
			s := sha1.Sum(x[:])
			for j := end; j < 40; j++ {
				setNibble(&h, j, s[j/2]&15)
			}
		}
		return h
	}
}

var planZones = []*time.Location{time.UTC, time.FixedZone("", 14*3600), time.FixedZone("", -12*3600), time.FixedZone("", 5*3600+45*60),
	time.FixedZone("", -(3*3600 + 30*60))}

// commitsOf fabricates the commits of g (planlib.Graph.Commits with a hash style and a zone mode): slice order g.Order
// (reversed when rev is set) and the hash -> number table.
func commitsOf(g pl.Graph, hst, tzm int, rev bool) ([]*object.Commit, map[plumbing.Hash]int) {
	if hst == 0 && tzm == 0 {
		return g.Commits(rev)
	}
	hash := hasher(hst, g.N)
	cs := make([]*object.Commit, g.N)
	id := make(map[plumbing.Hash]int, g.N)
	for i := 0; i < g.N; i++ {
		cs[i] = &object.Commit{Hash: hash(g.Ranks[i])}
		if len(g.Times) == g.N {
			when := time.Unix(pl.TimeBase+int64(g.Times[i]), 0)
			cs[i].Committer.When = when
			cs[i].Author.When = when
			if tzm != 0 {
				x := g.Times[i]%7 + i
				if x < 0 {
					x = -x
				}
				cs[i].Committer.When = when.In(planZones[x%len(planZones)])
				cs[i].Author.When = when.Add(time.Duration(x%4-1) * 25 * time.Hour).In(planZones[(x/2)%len(planZones)])
			}
		}
		id[cs[i].Hash] = i
	}
	if len(id) != g.N {
		panic("hash style gives equal hashes to different commits")
	}
	for _, e := range g.Edges {
		if e[1] >= 0 {
			cs[e[0]].ParentHashes = append(cs[e[0]].ParentHashes, cs[e[1]].Hash)
		} else {
			x := hash(g.N - 1 - e[1])
			if hst == 0 {
				x = pl.Hash(0xee<<24 | (-1-e[1])<<8) // as planlib: a leading 0xee
			}
			cs[e[0]].ParentHashes = append(cs[e[0]].ParentHashes, x)
		}
	}
	res := make([]*object.Commit, g.N)
	for k, i := range g.Order {
		if rev {
			res[g.N-1-k] = cs[i]
		} else {
			res[k] = cs[i]
		}
	}
	return res, id
}

const numTimeModes = 12

var (
	rel2100  = int(time.Date(2100, 1, 1, 0, 0, 0, 0, time.UTC).Unix() - pl.TimeBase)
	rel9999  = int(time.Date(9999, 12, 31, 23, 59, 59, 0, time.UTC).Unix() - pl.TimeBase)
	relYear1 = int(time.Time{}.Unix() - pl.TimeBase)
)

// timesFor: modes 0..6 = planlib.TimesFor, 7..11 see the head of the file.
func timesFor(mode, n int, r *rand.Rand) []int {
	if mode < 7 {
		return pl.TimesFor(mode, n, r)
	}
	if n == 0 {
		return nil
	}
	ts := make([]int, n)
	for i := range ts {
		ts[i] = 60 * i
	}
	some := func(f func(i int) int) {
		hit := false
		for i := range ts {
			if r.Intn(3) == 0 {
				ts[i], hit = f(i), true
			}
		}
		if !hit {
			i := r.Intn(n)
			ts[i] = f(i)
		}
	}
	now := int(time.Now().Unix() - pl.TimeBase)
	switch mode {
	case 7:
		some(func(i int) int { return rel2100 + 60*i })
	case 8:
		some(func(i int) int { return now + 36*3600 + i })
	case 9:
		some(func(i int) int { return -pl.TimeBase - 1 - 86400*365*r.Intn(70) })
	case 10:
		ends := []int{-pl.TimeBase, -pl.TimeBase - 1, 1<<31 - 1 - pl.TimeBase, 1<<31 - pl.TimeBase, 1<<32 - pl.TimeBase, rel9999, relYear1, 0}
		for i := range ts {
			ts[i] = ends[r.Intn(len(ends))]
		}
	default:
		for i := range ts {
			ts[i] = now + 86400 + 60*(n-i)
		}
	}
	return ts
}

// sweepTimes: the timestamp assignment of the k-th hash order of the m-th DAG (every mode occurs for every graph as k varies).
func sweepTimes(n, m, k int) []int {
	mode := (m + k) % numTimeModes
	if mode == 0 {
		return nil
	}
	return timesFor(mode, n, rand.New(rand.NewSource(int64(m)*7919+int64(k))))
}

// sweepStyle: the hash style and the zone mode of the k-th hash order of the m-th DAG in repetition rep.
func sweepStyle(m, k, rep int) (hst, tzm int) {
	return hashStyles[(m+2*k+k/12+5*rep)%len(hashStyles)], (m/3 + k/2 + rep) % 2
}
