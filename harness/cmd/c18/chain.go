// Chained merges (round 3, "copy then mutate" / aliasing across chained operations): three or four results are combined
// the way `hercules combine a b c` does, keeping every intermediate result IN MEMORY and handing that very object to the
// next MergeResults call.
//
//	(case n (kind ch-..) (nt 1) (an devs|couples|burndown) (chain L|R|LR|V) (cs (c ...) (c ...) (c ...) [(c ...)])
//	        (rs <result> <result> <result> [<result>]) (obs (step ...) ...))
//
//	L  = (A + B) + C            R  = A + (B + C)
//	LR = (A + B) + (C + D)      V  = A + B, then A + C with the SAME object A (an operand used by two merges)
//
// Observation, per call: (step a b (c1 ..) (c2 ..) (r1 <image>) (r2 <image>) (inputs x y z) <idtab> [<filetab>] <out>) where
// the images are the plain-data pictures of the two operands taken BEFORE the call (for burndown a history is pictured by
// its code = the sum of its last row, as everywhere in this harness), so the driver judges every call exactly like a
// single pair against the operands as they were; (inputs x y z): the first / the second operand / all other live results
// (the originals and the earlier intermediates) still read the same after the call (full serialisation, not the picture).
package main

import (
	"fmt"
	"math/rand"
	"runtime"
	"sort"
	"strings"
	"time"

	"gopkg.in/src-d/hercules.v10"
	"gopkg.in/src-d/hercules.v10/leaves"
	. "verifharness/lib"
)

// chainSteps gives the calls of a shape as (first operand, second operand, slot of the result); slots 0..n-1 are the inputs.
func chainSteps(shape string) (n int, steps [][3]int) {
	switch shape {
	case "L":
		return 3, [][3]int{{0, 1, 3}, {3, 2, 4}}
	case "R":
		return 3, [][3]int{{1, 2, 3}, {0, 3, 4}}
	case "LR":
		return 4, [][3]int{{0, 1, 4}, {2, 3, 5}, {4, 5, 6}}
	case "V":
		return 3, [][3]int{{0, 1, 3}, {0, 2, 4}}
	}
	panic("unknown chain shape " + shape)
}

func matString(sb *strings.Builder, m [][]int64) {
	sb.WriteByte('[')
	for _, r := range m {
		fmt.Fprint(sb, r)
	}
	sb.WriteByte(']')
}

// snapshot serialises a result completely (every cell of every history).
func snapshot(res interface{}) string {
	switch r := res.(type) {
	case leaves.DevsResult:
		return devsOut(r).String()
	case leaves.CouplesResult:
		return couplesOut(r).String()
	case leaves.BurndownResult:
		var sb strings.Builder
		people, ts, sampling, granularity := leaves.VerifC18BurndownResultFields(r)
		fmt.Fprint(&sb, people, int64(ts), sampling, granularity)
		matString(&sb, r.GlobalHistory)
		for _, h := range r.PeopleHistories {
			matString(&sb, h)
		}
		sb.WriteByte('|')
		matString(&sb, r.PeopleMatrix)
		var fs []string
		for k := range r.FileHistories {
			fs = append(fs, k)
		}
		sort.Strings(fs)
		fmt.Fprint(&sb, fs, len(r.FileOwnership))
		return sb.String()
	}
	return fmt.Sprintf("%T", res)
}

// image is the plain-data picture of an operand in the format of the input fields.
func image(res interface{}) Sx {
	switch r := res.(type) {
	case leaves.DevsResult:
		return devsOut(r)
	case leaves.CouplesResult:
		return couplesOut(r)
	case leaves.BurndownResult:
		people, ts, sampling, granularity := leaves.VerifC18BurndownResultFields(r)
		b := Burndown{People: people, TickSize: int64(ts), Sampling: sampling, Granularity: granularity, Global: [][]int64{}, PM: [][]int64{}}
		if len(r.GlobalHistory) > 0 {
			b.Global = [][]int64{{code(r.GlobalHistory)}}
		}
		for _, h := range r.PeopleHistories {
			b.PH = append(b.PH, [][]int64{{code(h)}})
		}
		for _, row := range r.PeopleMatrix {
			b.PM = append(b.PM, row)
		}
		return b.sx()
	}
	panic(fmt.Sprintf("unexpected result type %T", res))
}

func peopleOfResult(res interface{}) []string {
	switch r := res.(type) {
	case leaves.DevsResult:
		p, _ := leaves.VerifC18DevsResultFields(r)
		return append([]string{}, p...)
	case leaves.CouplesResult:
		return append([]string{}, leaves.VerifC18CouplesResultPeople(r)...)
	case leaves.BurndownResult:
		p, _, _, _ := leaves.VerifC18BurndownResultFields(r)
		return append([]string{}, p...)
	}
	return nil
}

func commonImage(r *hercules.CommonAnalysisResult, tag string) Sx {
	x := commonOut(r)
	x.List[0] = A(tag)
	return x
}

// chainProgress, when set (child process), is told about every call before and after it is made.
var chainProgress func(Sx)

// crashedChain rebuilds the observation of a chained case whose child process died: the completed calls, then the call
// that was being made, recorded as a panic of the implementation.
func crashedChain(parts []Sx) []Sx {
	var obs []Sx
	var pre *Sx
	for i := range parts {
		p := parts[i]
		switch p.Tag() {
		case "pre":
			pre = &parts[i]
		case "post":
			if pre != nil {
				obs = append(obs, T("step", append(append([]Sx{}, pre.Args()...), p.Args()...)...))
				pre = nil
			}
		}
	}
	if pre != nil {
		obs = append(obs, T("step", append(append([]Sx{}, pre.Args()...), T("out", T("panic")))...))
	}
	return obs
}

// observeChain runs the calls of a chained case (in this process).
func observeChain(in input) []Sx {
	n, steps := chainSteps(in.chain)
	slots := make([]interface{}, n+len(steps))
	coms := make([]*hercules.CommonAnalysisResult, n+len(steps))
	for i := 0; i < n; i++ {
		switch in.an {
		case "devs":
			slots[i] = in.dvs[i].build()
		case "couples":
			slots[i] = in.cps[i].build()
		case "burndown":
			slots[i] = in.bds[i].build()
		}
		coms[i] = in.cs[i].build()
	}
	// ONE analysis object makes all the calls of the chain (BurndownAnalysis.MergeResults stores the tick size in it)
	dvA, cpA, bdA := &leaves.DevsAnalysis{}, &leaves.CouplesAnalysis{}, &leaves.BurndownAnalysis{}
	var obs []Sx
	for _, st := range steps {
		a, b, dst := st[0], st[1], st[2]
		ra, rb, ca, cb := slots[a], slots[b], coms[a], coms[b]
		if ra == nil || rb == nil {
			break // an earlier call failed: the rest of the chain does not exist
		}
		snaps := make([]string, len(slots))
		for i, s := range slots {
			if s != nil {
				snaps[i] = snapshot(s) + commonOut(coms[i]).String()
			}
		}
		fs := []Sx{I(a), I(b), commonImage(ca, "c1"), commonImage(cb, "c2"), T("r1", image(ra)), T("r2", image(rb))}
		idtab := idTable(peopleOfResult(ra), peopleOfResult(rb))
		var filetab *Sx
		if in.an == "couples" {
			ft, fm := leaves.VerifC18MergeLiteral(append([]string{}, ra.(leaves.CouplesResult).Files...), append([]string{}, rb.(leaves.CouplesResult).Files...))
			x := tableSx("filetab", ft, fm)
			filetab = &x
		}
		if filetab != nil {
			fs = append(fs, *filetab)
		}
		fs = append(fs, idtab)
		npre := len(fs)
		if chainProgress != nil {
			chainProgress(T("pre", fs...))
		}
		var res interface{}
		baseline := runtime.NumGoroutine()
		_, p := Catch(func() {
			switch in.an {
			case "devs":
				res = dvA.MergeResults(ra, rb, ca, cb)
			case "couples":
				res = cpA.MergeResults(ra, rb, ca, cb)
			case "burndown":
				res = bdA.MergeResults(ra, rb, ca, cb)
			}
		})
		if !p {
			for deadline := time.Now().Add(10 * time.Second); runtime.NumGoroutine() > baseline; {
				if time.Now().After(deadline) {
					panic("worker goroutines of MergeResults did not finish")
				}
				time.Sleep(20 * time.Microsecond)
			}
		}
		same := func(i int) bool { return snapshot(slots[i])+commonOut(coms[i]).String() == snaps[i] }
		others := true
		for i, s := range slots {
			if s != nil && i != a && i != b && !same(i) {
				others = false
			}
		}
		fs = append(fs, T("inputs", B(same(a)), B(same(b)), B(others)))
		switch r := res.(type) {
		case nil:
			fs = append(fs, T("out", T("panic")))
		case error:
			fs = append(fs, T("out", T("tickerr")))
		case leaves.DevsResult:
			fs = append(fs, T("out", T("ok", devsOut(r))))
			slots[dst] = r
		case leaves.CouplesResult:
			fs = append(fs, T("out", T("ok", couplesOut(r))))
			slots[dst] = r
		case leaves.BurndownResult:
			fs = append(fs, T("out", T("ok", burndownOut(r))))
			slots[dst] = r
		default:
			panic(fmt.Sprintf("unexpected result type %T", res))
		}
		if p {
			// a captured panic leaves res nil: recorded above
			slots[dst] = nil
		}
		obs = append(obs, T("step", fs...))
		if chainProgress != nil {
			chainProgress(T("post", fs[npre:]...))
		}
		if slots[dst] != nil {
			// the summary of the intermediate result, as cmd/hercules/combine.go keeps it: c1.Merge(c2) on a copy
			cm := ca.Copy()
			if _, p := Catch(func() { cm.Merge(cb) }); p {
				slots[dst] = nil
			} else {
				coms[dst] = &cm
			}
		}
	}
	return obs
}

// ---------------------------------------------------------------------------------------------
// generators

// chainPeople: identity lists of the operands, literal identities only (two identities are the same string or share no
// part), so that the known finding F8 (identities that really merge) is not involved: a pool of developers, each list
// a subset in its own order; sometimes a later list brings only new developers, only known ones, or none.
func chainPeople(r *rand.Rand, n, maxIds int) [][]string {
	pool := []string{"ann|a@x.io", "bob|b@x.io", "cy|c@y.org", "dee", "e@z.net", "fay|fy|f@z.net", "gus|g@w.de"}
	res := make([][]string, n)
	fresh := 0
	for i := range res {
		k := r.Intn(maxIds + 1)
		perm := r.Perm(len(pool))
		l := []string{}
		for _, pi := range perm[:k] {
			l = append(l, pool[pi])
		}
		switch r.Intn(6) {
		case 0: // developers nobody else has
			l = nil
			for q := 1 + r.Intn(maxIds); q > 0; q-- {
				l = append(l, fmt.Sprintf("new%d|n%d@q.io", fresh, fresh))
				fresh++
			}
		case 1: // the developers of the previous list, in another order
			if i > 0 {
				l = append([]string{}, res[i-1]...)
				r.Shuffle(len(l), func(a, b int) { l[a], l[b] = l[b], l[a] })
			}
		}
		if len(l) > maxIds {
			l = l[:maxIds]
		}
		res[i] = l
	}
	return res
}

func chainCommons(r *rand.Rand, n int) []Common {
	res := make([]Common, n)
	base := int64(1500000000) + int64(r.Intn(1000))*day
	for i := range res {
		b := base + int64(r.Intn(30))*day + int64(r.Intn(int(day)))
		e := b + 2*day + int64(r.Intn(20))*day + int64(r.Intn(int(day)))
		res[i] = Common{Begin: b, End: e, Commits: 1 + r.Intn(1000), Runtime: int64(r.Intn(1000000)) * 1000000, Items: []string{}}
		for _, k := range []string{"Burndown", "Devs", "Couples", "TreeDiff"} {
			if r.Intn(2) == 0 {
				res[i].Items = append(res[i].Items, k)
			}
		}
	}
	return res
}

var chainShapes = []string{"L", "R", "LR", "V"}

func genChainCase(r *rand.Rand, an string) (string, input) {
	shape := chainShapes[r.Intn(len(chainShapes))]
	n, _ := chainSteps(shape)
	in := input{an: an, chain: shape, cs: chainCommons(r, n)}
	switch an {
	case "devs":
		people := chainPeople(r, n, 4)
		ts := tickSizes[r.Intn(len(tickSizes))]
		for i := 0; i < n; i++ {
			in.dvs = append(in.dvs, genDevs(r, people[i], ts, false))
		}
	case "couples":
		people := chainPeople(r, n, 4)
		for i := 0; i < n; i++ {
			f, _ := genFiles(r)
			if i > 0 && r.Intn(4) == 0 {
				f = append([]string{}, in.cps[i-1].Files...)
				r.Shuffle(len(f), func(a, b int) { f[a], f[b] = f[b], f[a] })
			}
			in.cps = append(in.cps, genCouples(r, people[i], f, false))
		}
	case "burndown":
		// one bit per developer history: operand k, developer i has 2^(5k+i); global history of operand k 2^(20+k)
		people := chainPeople(r, n, 5)
		ts := tickSizes[r.Intn(3)]
		hist := r.Intn(5) != 0
		for i := 0; i < n; i++ {
			b := Burndown{People: people[i], TickSize: ts, Sampling: 1, Granularity: 1, Global: [][]int64{}, PM: [][]int64{}}
			if hist {
				b.Global = [][]int64{{int64(1) << uint(20+i)}}
				for d := range people[i] {
					b.PH = append(b.PH, [][]int64{{int64(1) << uint(5*i+d)}})
				}
			}
			b.PM = genPM(r, len(people[i]))
			in.bds = append(in.bds, b)
		}
		// in a quarter of the cases an operand that is only ever a SECOND argument has no interaction matrix (the "extend"
		// branch); a first argument without one while the second has one makes the code index an empty matrix in a worker
		// goroutine (outside the domain, exercised by the pair kinds)
		if r.Intn(4) == 0 {
			second := map[string][]int{"L": {1, 2}, "R": {2}, "LR": {1, 3}, "V": {2}}[shape]
			k := second[r.Intn(len(second))]
			in.bds[k].PM = [][]int64{}
			if shape == "L" && k == 1 && r.Intn(2) == 0 {
				in.bds[2].PM = [][]int64{}
			}
		}
	}
	// the error path: in a V shape the first call sometimes gets a second result with another tick size (MergeResults
	// returns an error); the same analysis object then makes the second, legal call
	if shape == "V" && r.Intn(8) == 0 {
		switch an {
		case "devs":
			in.dvs[1].TickSize = in.dvs[0].TickSize + 1
		case "burndown":
			in.bds[1].TickSize = 3600e9 + in.bds[0].TickSize
		}
	}
	return "ch-" + an + "-" + shape, in
}

// chainS6 is the shape the seeded change C18-s6 needs, with random data: A and B with interaction matrices, C without one
// but with developers of its own, merged as (A + B) + C; and its mirror A + (B + C) / (A + B) + (C + D).
func genChainExtend(r *rand.Rand) (string, input) {
	shape := []string{"L", "L", "L", "LR", "LR", "R", "R", "L", "LR", "V"}[r.Intn(10)]
	n, _ := chainSteps(shape)
	in := input{an: "burndown", chain: shape, cs: chainCommons(r, n)}
	pool := []string{"ann|a@x.io", "bob|b@x.io", "cy|c@y.org", "dee", "e@z.net"}
	for i := 0; i < n; i++ {
		var people []string
		last := (shape != "V" && i == n-1) || (shape == "LR" && i >= 2) || (shape == "V" && i == 1)
		if last {
			for q := 1 + r.Intn(3); q > 0; q-- {
				people = append(people, fmt.Sprintf("new%d%d|n%d%d@q.io", i, q, i, q))
			}
			if r.Intn(3) == 0 {
				people = append(people, pool[r.Intn(len(pool))])
			}
		} else {
			perm := r.Perm(len(pool))
			for _, pi := range perm[:1+r.Intn(3)] {
				people = append(people, pool[pi])
			}
		}
		b := Burndown{People: people, TickSize: 24 * 3600e9, Sampling: 1, Granularity: 1, Global: [][]int64{{int64(1) << uint(20+i)}}, PM: [][]int64{}}
		for d := range people {
			b.PH = append(b.PH, [][]int64{{int64(1) << uint(5*i+d)}})
		}
		if !last || (shape == "LR" && i == 2 && r.Intn(2) == 0) {
			b.PM = genPM(r, len(people))
		}
		in.bds = append(in.bds, b)
	}
	return "ch-burndown-extend-" + shape, in
}

func chainFamily(c *Config) {
	r := c.Rng
	for i := c.Count(700, 20000); i > 0; i-- {
		k, in := genChainCase(r, "devs")
		emit(c, k, in)
	}
	for i := c.Count(700, 20000); i > 0; i-- {
		k, in := genChainCase(r, "couples")
		emit(c, k, in)
	}
	for i := c.Count(900, 20000); i > 0; i-- {
		k, in := genChainCase(r, "burndown")
		emit(c, k, in)
	}
	for i := c.Count(300, 6000); i > 0; i-- {
		k, in := genChainExtend(r)
		emit(c, k, in)
	}
}
