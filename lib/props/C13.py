CONFIG = dict(
        level='proof',
        streams=[dict(harness='c13', driver='c13', shrink_field='changes'),
                 # thorough tier only: the same harness built with `go build -race`, quick-sized case set; empty in the quick tier
                 dict(harness='c13race', driver='c13', shrink_field='changes')],
        rule='change sets given to the real RenameAnalysis.Consume (fabricated object.Change values and cached blobs; hashes are free 20-byte '
             'inputs): all change lists of length <=4 (thorough <=5) over {add h, delete h, modify} with three hashes whose bytes cross; random '
             'sets of up to 200 changes over 1..6 hashes in adversarial byte patterns (tiny blobs: stage 1 only); families of similar text and '
             'binary blobs of 30..300 bytes with thresholds -1..250 and timeouts 1 ns .. 1 h (stage 2, both winners, timeout cuts); one-line blobs '
             'on the exact boundaries of sizesAreClose and of the 32-byte minimum; 55..75 candidates with the only similar one around rank 50 '
             '(candidate cap); duplicate paths / a path both added and deleted / malformed empty changes; one set (thorough: 12) with more than '
             '1000 leftovers (cap 1); GOMAXPROCS 1 and 16 with 0..2 goroutines spinning on runtime.Gosched. Non-trivial = at least one addition '
             'and one deletion; distinct = distinct threshold, timeout, scheduling parameters, blob table and change list.',
        exhaustive_note='all change lists of length <=4 (quick) / <=5 (thorough) over add/delete of 3 crossing hashes and a modification, '
                        'with small blobs (stage 1 and the assembly), enumerated completely',
        assumptions=[
            'sort.Sort (Go standard library) returns a permutation of its input in which no later element is Less than an earlier one, '
            'provided Less is a strict total order on the elements (proved for 20-byte hashes: C13_less_total); Section hypotheses of '
            'C13_repairing (permutation only) and C13_exact',
            'blobsAreClose (diffmatchpatch / bsdiff) and sortRenameCandidates (sort.Slice, Levenshtein) are arbitrary functions in every '
            'theorem; C13_total additionally assumes that sortRenameCandidates only reorders the candidates it is given',
            'the blob cache holds every hash of an added or deleted file (BlobCache provides it; a miss is a nil dereference outside the '
            'property) and blob sizes stay below 2^49 bytes (int64 arithmetic of sizesAreClose)',
            'blobsAreClose never returns an error (it has no error return path in the code): the protocol theorems are about the error-free '
            'transition system; C13_errs_would_deadlock shows that an error would block the goroutine on the unbuffered errs channel',
            'correspondence of stage 2: the implementation\'s output must equal the model output for SOME winner and SOME timeout cut '
            '(all cuts are tried when the timeout is below 1 s, otherwise only the complete run)',
        ],
        trusted_base=[
            'hand-written Gallina model coq/theories/Plumbing/Renames.v of RenameAnalysis.Consume (renames.go), tied to the code by the replay of '
            'every harness case; matchA and matchB are one Gallina function instantiated twice',
            'hand-written transition system coq/theories/Plumbing/RenamesChan.v of the channel protocol (finished/finishedA/finishedB/errs, '
            'WaitGroup, final select): not tied to the code by replay, only by reading',
            'the OCaml port of Go 1.23 pdqsort in ocaml/c13/driver.ml that supplies the model\'s sort oracles (cross-checked on every case '
            'against the permutation the real sort.Sort produced; a wrong port can only cause a MISMATCH)',
        ],
        level_text='proof (Coq): C13_repairing, C13_exact, C13_less_total, C13_total for every input, similarity predicate, candidate order, '
                   'timeout cut and winner; C13_no_deadlock / C13_result_available / C13_runs_finite for the channel protocol; partial for '
                   'data-race freedom',
        level_note='Proved about the Gallina model, which every harness case ties to the Go code (model output = implementation output for some '
                   'winner and cut; stage 1 compared exactly). The property oracles that judge the implementation\'s own outputs '
                   '(repairing_b, exact_b) are extracted from Coq and proved sound (C13_repairing_oracle_sound, C13_exact_oracle_sound). '
                   'Modelled rather than verified: sort.Sort, sort.Slice+Levenshtein, blobsAreClose (opaque), the Go scheduler and channels '
                   '(RenamesChan.v is a hand-written transition system). PARTIAL: "without data races" in the sense of the Go memory model '
                   'cannot be stated in this model; supporting evidence only: the thorough tier runs the harness built with -race '
                   '(stream c13race) and fails on any report.',
        technique='executable Gallina model with explicit choice arguments (winner, timeout cuts) and opaque oracles (sorts, similarity, '
                  'candidate order); permutation / counting proofs; strict-total-order proof for Less with a vm_compute counterexample for the '
                  'old Less; labelled transition system with a boolean inductive invariant checked by case analysis and a decreasing measure; '
                  'extraction to OCaml and replay of harness traces; existential matching of nondeterministic outcomes',
    )
