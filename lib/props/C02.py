def _extra(stats, cov):
    # translation validation: every plan the real planner produced in this run was validated by the
    # extracted plan_ok (proved sound: C02_checker_sound); identical (graph, plan pair) outputs of the
    # 6-commit sweep are validated once and counted with their multiplicity in plans_produced
    produced = stats.get('plans_produced', 0)
    validated = stats.get('plans_validated', 0)
    accepted = stats.get('plans_accepted', 0)
    # execution stream: the Consume logs of the real Pipeline.Run judged by the extracted exec_ok
    # (proved sound: C02_exec_checker_sound); two recording items = two logs per run
    runs = stats.get('runs', 0)
    logs = stats.get('logs_judged', 0)
    return dict(programs=produced + runs, disagreements_checked=validated + logs,
                plans_produced=produced, distinct_plans_validated=validated, plans_rejected=validated - accepted,
                pipeline_runs=runs, consume_logs_judged=logs, consume_logs_rejected=logs - stats.get('logs_accepted', 0),
                # object lifecycle: runs of one Pipeline object on several commit selections (kinds reuse-*)
                reused_pipeline_cases=stats.get('reuse_cases', 0), reused_pipeline_runs=stats.get('reuse_runs', 0),
                reused_runs_same_length_and_ends_other_middle=stats.get('reuse_runs_same_length_and_ends_other_middle', 0),
                reused_runs_after_an_aborted_run=stats.get('reuse_runs_aborted_by_the_injected_failure', 0),
                consume_records=stats.get('consume_records', 0),
                # generator family scale: plans / call logs of histories with 10^3 .. 10^6 branches judged by the extracted
                # fast_c02 (C02_fast_necessary: a rejected plan violates C02)
                large_plans_validated=stats.get('scale_plans_validated', 0),
                large_plan_actions_validated=stats.get('scale_actions_validated', 0),
                large_plans_with_branch_index_ge_65536=stats.get('scale_plans_with_branch_index_ge_65536', 0),
                large_runs_judged=stats.get('scale_runs', 0), large_run_calls_judged=stats.get('scale_calls_judged', 0),
                # round 4 (content of values): real hashes that share a prefix (nonce search), commit dates beyond the wall clock
                runs_with_twin_hashes=stats.get('runs_with_twin_hashes', 0),
                twin_pairs_sharing_8_or_more_hex_digits=stats.get('twin_pairs_sharing_8_or_more_hex_digits', 0),
                twin_pairs_sharing_5_to_7_hex_digits=stats.get('twin_pairs_sharing_5_to_7_hex_digits', 0),
                runs_with_commit_dates_in_the_future_or_at_the_ends_of_the_domain=stats.get(
                    'runs_with_commit_dates_in_the_future_or_at_the_ends_of_the_domain', 0),
                runs_with_zone_offsets_and_odd_names=stats.get('runs_with_zone_offsets_author_date_differing_and_odd_names', 0))


CONFIG = dict(
    level='translation_validation',
    streams=[dict(harness='c02', driver='c02', shrink_field='edges'),
             dict(harness='c02run', driver='c02', driver_args=['run'], shrink_field='edges')],
    rule='PLAN stream (c02): one case = one commit graph (n commits, parent edges in ParentHashes order incl. duplicate, redundant and dangling '
         'edges) + one assignment of hashes (ranks: byte order of the hashes, drives every tie-break) + one slice order; the real '
         'prepareRunPlan(commits, 0) plans it twice (second time on the reversed slice; Go map order varies) and each plan is '
         'validated by the extracted plan_ok. Generators: every DAG (connected and disconnected) on <=5 commits x every hash '
         'order; thorough: every connected DAG on 6 commits x every 6th hash order (flag -full of the harness: all 720); samples '
         'of 6/7-commit DAGs; random histories up to 14 and up to 40 commits (several roots, octopus merges, criss-cross, '
         'duplicate/redundant edges, disconnected components, parents outside the set). Every fabricated commit carries a '
         'committer timestamp (field times; absent = zero time): none / all equal / growing / falling against the topological '
         'order / random / a few clocks one hour or one day behind / many ties - every mode for every <=5-commit DAG as the hash '
         'order varies, random elsewhere. wide: forks of 7..18 branches and octopus merges of as many parents (planlib.WideGraph). '
         'ffdeep: a line with side branches in which every per-th commit has fast-forward edges to ancestors per and 3*per commits '
         'behind, per in 2..17 (thorough: to 129, alternative paths of up to 140 commits). '
         'scale-<shape>: LARGE histories described by (shape, size, hmode = hashes ascending / descending / random, tmode = timestamp '
         'mode, gseed) and regenerated from these on replay (the case line carries the parent lists as field graph for the '
         'validator): comb (main line, one unmerged topic per commit), diamonds (chain of merge diamonds), star (one fork of size '
         'branches), starmerge (+ one octopus merge of all of them), roots (size unrelated roots merged one by one), spine, bush '
         '(random, many branches alive, periods 7..33), ladder (two lines with criss-cross merges every 2^k-1 / 2^k / 2^k+1 rungs), '
         'ffchain; sizes 10^3 in every shape, 10^4 in six, stars of 255/256/257, 32767/32768/32769, 65535/65536/65537 children and a '
         'comb with > 2^16 topic branches in the quick tier; thorough adds > 2^16 branches in diamonds / roots / starmerge, 10^5 in '
         'seven shapes, a spine of 10^6, a star of 3*10^5 and a comb of 2^17. A large history is planned once; the plan is judged by the '
         'extracted fast_c02 (trie-based; C02_fast_necessary: every plan it rejects violates C02 - it tests that each replay '
         'happens on a live branch whose last commit is a parent of the commit, or on a fresh branch for a parentless commit, and '
         'that merges join distinct live branches with the same last commit; the ancestor-set clauses are beyond it) and the '
         'driver checks that every commit of the (connected) history is analysed. fast_c02 also runs on every small plan (it must '
         'accept what plan_ok accepts: C02_fast_accepts_what_plan_ok_accepts; a disagreement is a MISMATCH). '
         'CONTENT of the fabricated values (round 4, harness/cmd/c02/r4.go): field hst = hash style - WHERE the hashes differ, their byte order '
         'stays the field ranks: 0 the rank in the 4 leading bytes (earlier rounds); off + 100*b + 10000*tail: b = 0 all hashes share their first '
         'off hex digits (1, 2, 4, 7, 8, 14, 16, 32) and the rank follows, b > 0 groups of 2^b neighbours in byte order share the first off '
         '(8, 16, 32) hex digits, tail = 1 pseudo-random digits after the rank (else a common suffix); 99999 pseudo-random 160-bit values '
         'sorted; hashes outside the set share the prefix too. Every <=5-commit DAG meets every style as the hash order varies (<=4 commits '
         'are swept 4..16 times), three quarters of the sampled / random / wide / ffdeep cases draw one, the scale cases cycle through them. '
         'times modes 7..11: commits dated 2100, 36 h after the moment of generation, before 1970, at the ends of the domain (Unix 0, -1, '
         '2^31-1, 2^31, 2^32, 9999-12-31, year 1), the whole history in the future; tzm = 1: non-zero zone offsets and author date != '
         'committer date. scale-starmerge of 9/10/11, 99/100/101, 999/1000/1001 children (decimal widths of branch indexes). '
         'Non-trivial = some commit has two distinct parents (scale: always); distinct = distinct input fields. '
         'EXECUTION stream (c02run): one case = one commit graph (same format; the hashes are those of a real in-memory go-git '
         'repository, salt = message salt that varies them) + hibernation distance 0..3 + slice order; the real '
         'NewPipeline/AddItem/Initialize/Run is executed with two stateful recording items (fork by ForkCopyPipelineItem + deep '
         'copy / by hand; Merge = union for every participant) and the log of every Consume (commit, set seen before, commit '
         'consumed last) is judged against the graph alone by the extracted exec_ok. Generators: every DAG on <=5 commits x '
         'distance 0..3 (thorough: every DAG on 6 commits); 1..6 unrelated root lines merged together step by step (two-parent '
         'and octopus merges, criss-cross, redundant and duplicate edges, several children per commit), random topological '
         'numbering; the random histories of the plan stream up to 14 / 40 commits; shapes of synth.GenHist. Every option Run / '
         'the planner reads varies: opts bit 0 = Pipeline.DumpPlan, bit 1 = Pipeline.PrintActions (all four combinations over every '
         '<=5-commit DAG, a third each elsewhere; the printed text goes to a no-op sink installed through the verif hook '
         'verifapi/c14.SetPlanPrinter), tmode = committer timestamps growing (0) or planlib.TimesFor modes 1..6 (equal, growing, '
         'falling, random, skewed clocks, ties). wide: forks of 7..14 branches and octopus merges of as many parents, dump / trace on '
         'in most. scale-<shape>: the large histories of the plan stream as real repositories (10^3 branches in every shape; '
         'thorough 10^4 in seven shapes and > 2^16 branches as star / comb / diamonds) run with a light recording item (instance '
         'ids, no sets); the call log (root, Fork -> clones, Consume, Merge) is read as a plan over instance ids and judged by '
         'fast_c02 against the commit graph, and every commit must be consumed. '
         'CONTENT of the values (round 4, harness/cmd/c02run/r4.go): tmode % 100 in 7..11 = committer dates 2100-01-01 for a few commits / 36 h '
         'after the moment the harness runs for a few / every commit after now / the ends of the domain (1970-01-01 00:00:00 and :01, 2^31-1, '
         '2^31, 2^32-1, 2^32, 9999-12-31) with ties / alternately one hour before and after now; tmode / 100 = 1: zone offsets +14:00, -12:00, '
         '+05:45, -03:30 .., author date earlier / later / ten years off the committer date, author != committer, names and e-mails with '
         'invalid UTF-8, U+FFFD, BOM, tab, NBSP, U+2028, U+3000, NUL, case variants, id+user@users.noreply.github.com. Every mode x zone mode is '
         'drawn in every family incl. reuse-*; exfut<n>: every DAG on <=5 commits with a mode 7..11 x distance x DumpPlan / PrintActions x zone '
         'mode. twins-ex<n> / twins (field twins = (a b k) per pair, obs twinhashes = the two hashes and the number of leading hex digits they '
         'share): two commits - two distinct parents of each merge, sometimes two arbitrary commits (roots, siblings, a commit and a '
         'descendant) - get GENUINE SHA-1 hashes that agree in their first k hex digits, by a nonce in the commit message (birthday search; a '
         'descendant is searched alone, k <= 4): every DAG on <=5 commits that has a merge with k = 4 (every 41st and thorough: 8), '
         'multi-root / random / wide histories with k in 1..8, x distance x options x timestamp modes. scale-starmerge 9/10/11, 99/100/101 '
         'children with the plan dump and the action trace on (decimal widths). '
         'reuse-* (object lifecycle, harness/cmd/c02run/reuse.go): ONE Pipeline object and the SAME two item instances analyse several commit '
         'selections of one repository one after the other (fields sels = (sel mode opts dist commits-in-slice-order) per run, obs runs = one '
         'pair of logs per run); EVERY run is judged like the run of a fresh pipeline: exec_ok against the history restricted to the commits '
         'handed to that run (renumbered; a parent outside the selection is a dangling edge), and any commit that was not handed to the run - '
         'consumed, or found in the state of the consuming instance - is a failure. How the object is prepared (mode): 0 Initialize(facts) '
         'again, 1 no Initialize (the harness resets the two original instances, Run is called again), 2 Initialize and the new selection '
         'written into the backing array of the previous slice, 3 Initialize twice; mode+10 = error path: the providing item fails at its '
         'middle Consume call, Run aborts (not judged), the runs after it re-use the aborted object. Selection families: reuse-ex4/ex5 every DAG '
         'on 4 / 5 commits x the selections that keep the first and the last commit and drop one other (same length, same ends, other middle), '
         'then everything, then the first again; reuse-sides each side of a merge of 2-3 equally long arms, alone, in pairs, the whole history; '
         'reuse-mid random equal-size selections with the same first and last slice element on multi-root / random / GenHist / wide histories; '
         'reuse-sub ancestries of one or two heads, shallow cuts; reuse-grow a history that grows between the runs and shrinks again; '
         'reuse-medium ladder / comb / bush / diamonds / ffchain of up to 60 commits with another middle commit left out per run; '
         'reuse-big-<shape> (light item, fast_c02): comb / diamonds / bush of 10^3 .. 10^4 commits run five times (thorough adds three runs each of a '
         'comb / ladder of 10^4, diamonds / roots / bush of 3000 and a comb with a main line of 2^15+1 commits), each run without one commit whose '
         'removal keeps the history connected (same length and ends).',
    exhaustive_note='all DAGs on <=5 topologically numbered commits (connected: 88 299 graph x hash-order cases, disconnected: '
                    '36 170) x all hash orders; thorough adds all connected DAGs on 6 commits x every sixth of the 720 hash orders; '
                    'execution stream: all DAGs on <=5 commits x hibernation distance 0..3 x DumpPlan/PrintActions combinations '
                    '(4 396 runs), thorough adds all DAGs on 6 commits; re-use of one Pipeline object: every DAG on 4 and 5 commits x '
                    'the run sequence (drop commit 1, drop commit 2, [drop commit 3,] everything, drop commit 1 again)',
    assumptions=['commits are numbered so that parents have smaller numbers (every finite DAG has such a numbering; the '
                 'validator checks it) and the graph given to the validator is the history restricted to the analysed commit set',
                 'prepareRunPlan reads only Hash and ParentHashes of a commit (fabricated commits are used; Committer.When / '
                 'Author.When are set and varied - incl. dates after the wall clock, before 1970 and zone offsets - so that a planner '
                 'that starts reading them is exposed; the hashes are varied in WHERE they differ, not only in their order)',
                 'timestamp modes 8, 9, 11 of the execution stream are relative to time.Now() of the harness run: a replay regenerates '
                 'them relative to the moment of the replay',
                 'large histories (family scale) are judged by fast_c02, a NECESSARY condition of C02 (C02_fast_necessary), plus '
                 '"every commit analysed"; the ancestor-set clauses of C02 are checked by plan_ok / exec_ok on graphs of up to ~150 commits only',
                 'no Gallina mirror of the planner: C02 is decided per produced plan (translation validation), not by a proof '
                 'about buildDag/mergeDag/collapseFastForwards/generatePlan themselves'],
    trusted_base=['plan stream: the abstract executor coq/theories/Plan/Exec.v as the meaning of a plan (hand-written from the '
                  'branch bookkeeping of Pipeline.Run); the execution stream does not depend on it: there Run itself is executed',
                  'the declarative specifications coq/theories/Plan/Spec.v + Graph.v (C02_spec) and ExecCheck.v (exec_spec) as the '
                  'reading of the property text',
                  'execution stream: the recording items of harness/cmd/c02run (their Fork copies the state, their Merge gives every '
                  'participant the union, Consume logs the state before the call) as the observer of what a stateful item sees',
                  're-use cases: the restriction of the repository history to the commits handed to a run (computed by the driver) as '
                  'the commit graph of that run; pipelines of recording items only (the stock TreeDiff cannot be re-run on one Pipeline: '
                  'its Initialize does not clear previousCommit)'],
    level_text='translation validation at two levels: every plan produced by the real planner, and every Consume log produced by '
               'the real Pipeline.Run executing its own plan on synthetic repositories, is accepted by a validator extracted from '
               'Coq and proved sound against the declarative C02 specification for all graphs, plans and logs',
    level_note='Proved in Coq (no axioms): plan_ok g p = true -> C02_spec g p for every graph and plan; exec_ok g log = true -> '
               'exec_spec g log for every graph and Consume log (consumed commits = the retained component; every Consume on '
               'exactly Anc(parent) with that parent last or on a fresh instance for a root; once per non-redundant parent). Not '
               'proved: that the Go planner always produces an accepted plan and that Pipeline.Run always executes it faithfully '
               '- both are checked per output (plans: exhaustively for <=5 commits, every 6th hash order for 6 commits, randomly up '
               'to 40 commits, wide forks / merges and long fast-forward paths to ~150 commits; executions: all DAGs on <=5 commits x '
               'hibernation distance 0..3 x DumpPlan / PrintActions, generated multi-root / octopus / criss-cross histories up to 40 commits; '
               'also as the 2nd..6th run of ONE Pipeline object on another commit selection of the same repository, re-initialised or not, '
               'after a completed or an aborted run). '
               'Histories with 10^3 .. 10^6 branches (family scale, incl. more than 2^16 branch indexes in one plan) are judged by '
               'fast_c02, proved to reject only plans that violate C02 (necessary conditions: replay on a live branch after a parent, '
               'merges of distinct live branches with a common last commit), not by the full validator. The execution log is judged against the commit graph only (the planner is '
               'not deterministic across calls). Trusted: Coq kernel, extraction, the OCaml driver, the Go harnesses incl. the '
               'recording items, and Exec.v/Spec.v/ExecCheck.v as the formal reading of Pipeline.Run and of the property.',
    technique='Coq-verified validators (translation validation) run on the plans of the real planner and on the Consume logs of '
              'the real Pipeline.Run',
    extra_coverage=_extra,
    search_seconds=60,
)
