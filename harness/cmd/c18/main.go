package main

import (
	"fmt"

	"gopkg.in/src-d/hercules.v10/leaves"
)

func main() {
	t, m := leaves.VerifC18MergeIdentities([]string{"b|b@b", "a|x@y"}, []string{"a|z@w"})
	fmt.Println(t, m)
}
