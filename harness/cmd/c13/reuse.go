// Re-use of one RenameAnalysis instance (tcase.warm): the observed Consume call is preceded by other calls on the
// SAME instance.  The model and the oracles see only the observed call, i.e. they play the fresh-instance twin.
package main

import (
	"time"

	"gopkg.in/src-d/go-git.v4/plumbing"
	"gopkg.in/src-d/go-git.v4/plumbing/object"
	api "gopkg.in/src-d/hercules.v10/verifapi/c13"
	. "verifharness/lib"
)

func warmUp(tc *tcase, ra *api.RenameAnalysis, changes object.Changes, cache map[plumbing.Hash]*api.CachedBlob) {
	mode := tc.warm
	reconf := false
	switch {
	case mode == 8:
		mode, reconf = 7, true
	case mode > 3 && mode < 7:
		mode -= 3
		reconf = true
	}
	// the same paths with other contents: every addition / deletion carries the blob of the next one of its kind
	rotated := func() object.Changes {
		cp := make(object.Changes, len(changes))
		var adds, dels []int
		for i, ch := range changes {
			x := *ch
			cp[i] = &x
			from, to := ch.From != (object.ChangeEntry{}), ch.To != (object.ChangeEntry{})
			if to && !from {
				adds = append(adds, i)
			} else if from && !to {
				dels = append(dels, i)
			}
		}
		for k, i := range adds {
			cp[i].To.TreeEntry.Hash = changes[adds[(k+1)%len(adds)]].To.TreeEntry.Hash
		}
		for k, i := range dels {
			cp[i].From.TreeEntry.Hash = changes[dels[(k+1)%len(dels)]].From.TreeEntry.Hash
		}
		return cp
	}
	reversed := func() object.Changes {
		cp := make(object.Changes, 0, len(changes))
		for _, ch := range changes {
			x := &object.Change{From: ch.To, To: ch.From}
			if x.From != (object.ChangeEntry{}) {
				x.From.Tree = treeFrom
			}
			if x.To != (object.ChangeEntry{}) {
				x.To.Tree = treeTo
			}
			cp = append(cp, x)
		}
		return cp
	}
	same := func() object.Changes {
		cp := make(object.Changes, len(changes))
		for i, ch := range changes {
			x := *ch
			cp[i] = &x
		}
		return cp
	}
	consume := func(cs object.Changes) {
		Catch(func() {
			ra.Consume(map[string]interface{}{api.DependencyTreeChanges: cs, api.DependencyBlobCache: cache})
		})
	}
	// the warm-up calls must not eat the time budget of a calibrated run: they run with the timeout of the case too
	switch mode {
	case 1:
		consume(reversed())
	case 2:
		consume(same())
	case 3:
		consume(append(object.Changes{&object.Change{}}, same()...)) // malformed: Consume returns an error
		consume(reversed())
	case 7:
		consume(rotated())
	}
	if reconf {
		// Configure + Initialize again, with the same options: the state of the first series of calls must be gone
		thr, to := ra.SimilarityThreshold, ra.Timeout
		if tc.timeout%int64(time.Millisecond) == 0 {
			ra.Configure(map[string]interface{}{
				api.ConfigRenameAnalysisSimilarityThreshold: tc.thr,
				api.ConfigRenameAnalysisTimeout:             int(tc.timeout / int64(time.Millisecond))})
			ra.Initialize(nil)
		} else {
			ra.Initialize(nil)
			ra.SimilarityThreshold, ra.Timeout = thr, to
		}
	}
}

// pickWarm: a third of the cases of the families that call it re-use the instance
func pickWarm(c *Config) int {
	if c.Rng.Intn(3) != 0 {
		return 0
	}
	return 1 + c.Rng.Intn(8)
}
