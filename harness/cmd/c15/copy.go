// Copy as an OPERATION (blind-spot class "copy then mutate") and re-use of a graph that a destructive
// Toposort has consumed (class "object re-use").
//
// The other streams use Graph.Copy only inside (sort) and never touch a graph after it was copied, so a
// Copy that shares structure with the original passes them.  Here several graphs are alive at once:
// (copy s d), then a mutation of EITHER side with ANY operation, then queries on BOTH; every graph is
// compared with its own model state (the model is a value: the copy is the same state once more).
//
//	copyex2, copyex3   exhaustive: every digraph on 2 nodes (with self loops) / 3 nodes (quick: without,
//	                   thorough: with), built in slot 0, copied to slot 1, then for each side and every single
//	                   mutation (each absent edge incl. self loops, each present edge removed + re-index, a new
//	                   node with an edge from each old node, the destructive sort): the mutation on that side,
//	                   the full query set on both slots, a destructive sort on one side and the full query set
//	                   on the other (both directions); in a third variant the other side gets a drawn single
//	                   mutation as well (both sides mutated)
//	copyex0, copyex1   the same for the EMPTY graph and the one-node graphs
//	copyex3chain       chains 0 -> 1 -> 2 with a mutation between and after the copies, sampled
//	copyrnd            random sequences over 2-3 slots on up to 8 nodes (copy with any source / target incl.
//	                   overwriting and s = d, sortd, addnode, addedge biased to sources that were SINKS when the
//	                   copy was taken, rmedge + reindex, a malformed minority); after every mutation a sort and
//	                   children / parents / cycle of a random node on EVERY live slot
//	reuse              the same on ONE graph: build, sortd, build on, query, sortd again ...
package main

import (
	"fmt"
	"sort"

	. "verifharness/lib"
)

// ag is the generator's own picture of one graph (so that sequences stay valid most of the time)
type ag struct {
	nodes []int
	has   map[int]bool
	edges map[[2]int]bool
	dirty map[int]bool
	sinks map[int]bool // the nodes that had no child when the last copy of / from this graph was taken
}

func newAg() *ag {
	return &ag{has: map[int]bool{}, edges: map[[2]int]bool{}, dirty: map[int]bool{}, sinks: map[int]bool{}}
}

func (a *ag) clone() *ag {
	b := newAg()
	b.nodes = append(b.nodes, a.nodes...)
	for k := range a.has {
		b.has[k] = true
	}
	for k := range a.edges {
		b.edges[k] = true
	}
	for k := range a.dirty {
		b.dirty[k] = true
	}
	for k := range a.sinks {
		b.sinks[k] = true
	}
	return b
}

func (a *ag) edgeList() [][2]int {
	l := make([][2]int, 0, len(a.edges))
	for e := range a.edges {
		l = append(l, e)
	}
	sort.Slice(l, func(i, j int) bool {
		if l[i][0] != l[j][0] {
			return l[i][0] < l[j][0]
		}
		return l[i][1] < l[j][1]
	})
	return l
}

func (a *ag) outdeg(n int) int {
	d := 0
	for e := range a.edges {
		if e[0] == n {
			d++
		}
	}
	return d
}

func (a *ag) markSinks() {
	a.sinks = map[int]bool{}
	for _, n := range a.nodes {
		if a.outdeg(n) == 0 {
			a.sinks[n] = true
		}
	}
}

// what a destructive Toposort leaves behind (inside the domain): every node Kahn's algorithm emits loses
// its outgoing edges
func (a *ag) consume() {
	indeg := map[int]int{}
	for e := range a.edges {
		indeg[e[1]]++
	}
	var queue []int
	for _, n := range a.nodes {
		if indeg[n] == 0 {
			queue = append(queue, n)
		}
	}
	el := a.edgeList()
	for len(queue) > 0 {
		n := queue[0]
		queue = queue[1:]
		for _, e := range el {
			if e[0] == n && a.edges[e] {
				delete(a.edges, e)
				indeg[e[1]]--
				if indeg[e[1]] == 0 {
					queue = append(queue, e[1])
				}
			}
		}
	}
}

func (a *ag) apply(o op) {
	switch o.kind {
	case "addnode":
		if !a.has[o.a] {
			a.has[o.a] = true
			a.nodes = append(a.nodes, o.a)
		}
	case "addedge":
		if a.has[o.a] {
			a.edges[[2]int{o.a, o.b}] = true
		}
	case "rmedge":
		if a.has[o.a] {
			delete(a.edges, [2]int{o.a, o.b})
			a.dirty[o.a] = true
		}
	case "reindex":
		delete(a.dirty, o.a)
	case "sortd":
		a.consume()
	}
}

// sort + FindCycle / FindChildren / FindParents of the nodes 0..n-1 on slot g
func fullQueries(g, n int) []op {
	ops := []op{{kind: "sort"}}
	for i := 0; i < n; i++ {
		ops = append(ops, op{kind: "cycle", a: i}, op{kind: "children", a: i}, op{kind: "parents", a: i})
	}
	return at(g, ops...)
}

// every single extra mutation of a graph on the nodes 0..n-1: each absent edge (self loops too), each present
// edge removed and the source re-indexed, the new node n alone and with an edge from each old node, the destructive sort
func singleMutations(a *ag) [][]op {
	n := len(a.nodes)
	for i := 0; i < n; i++ {
		if !a.has[i] {
			panic("singleMutations: nodes must be 0..n-1")
		}
	}
	var ms [][]op
	for x := 0; x < n; x++ {
		for y := 0; y < n; y++ {
			if !a.edges[[2]int{x, y}] {
				ms = append(ms, []op{{kind: "addedge", a: x, b: y}})
			}
		}
	}
	for _, e := range a.edgeList() {
		ms = append(ms, []op{{kind: "rmedge", a: e[0], b: e[1]}, {kind: "reindex", a: e[0]}})
	}
	ms = append(ms, []op{{kind: "addnode", a: n}})
	for x := 0; x < n; x++ {
		ms = append(ms, []op{{kind: "addnode", a: n}, {kind: "addedge", a: x, b: n}})
	}
	ms = append(ms, []op{{kind: "sortd"}})
	return ms
}

func digraphs(n int, selfLoops bool) [][][2]int {
	var pairs [][2]int
	for a := 0; a < n; a++ {
		for b := 0; b < n; b++ {
			if a != b || selfLoops {
				pairs = append(pairs, [2]int{a, b})
			}
		}
	}
	var res [][][2]int
	for mask := 0; mask < 1<<uint(len(pairs)); mask++ {
		var es [][2]int
		for i, p := range pairs {
			if mask&(1<<uint(i)) != 0 {
				es = append(es, p)
			}
		}
		res = append(res, es)
	}
	return res
}

func buildOps(n int, es [][2]int) ([]op, *ag) {
	a := newAg()
	var ops []op
	for i := 0; i < n; i++ {
		ops = append(ops, op{kind: "addnode", a: i})
	}
	for _, e := range es {
		ops = append(ops, op{kind: "addedge", a: e[0], b: e[1]})
	}
	for _, o := range ops {
		a.apply(o)
	}
	return ops, a
}

// copyExhaustive: one case per (graph, side, mutation, variant)
func copyExhaustive(c *Config, n int, selfLoops bool) {
	kind := fmt.Sprintf("copyex%d", n)
	cnt := 0
	for _, es := range digraphs(n, selfLoops) {
		base, a := buildOps(n, es)
		muts := singleMutations(a)
		for side := 0; side < 2; side++ {
			other := 1 - side
			for _, m := range muts {
				for variant := 0; variant < 3; variant++ {
					cnt++
					ops := append([]op{}, base...)
					ops = append(ops, op{kind: "copy", a: 0, b: 1})
					ops = append(ops, at(side, m...)...)
					if variant == 2 {
						// BOTH sides are mutated: a drawn single mutation of the other graph as well
						m2 := muts[c.Rng.Intn(len(muts))]
						ops = append(ops, at(other, m2...)...)
					}
					// the full query set on both graphs, the untouched one first in half of the cases
					if cnt%4 < 2 {
						ops = append(ops, fullQueries(other, n+1)...)
						ops = append(ops, fullQueries(side, n+1)...)
					} else {
						ops = append(ops, fullQueries(side, n+1)...)
						ops = append(ops, fullQueries(other, n+1)...)
					}
					// a destructive sort of one graph must not reach the other one
					if variant == 0 || (variant == 2 && cnt%2 == 0) {
						ops = append(ops, at(other, op{kind: "sortd"})...)
						ops = append(ops, fullQueries(side, n+1)...)
						ops = append(ops, at(other, op{kind: "sort"})...)
					} else {
						ops = append(ops, at(side, op{kind: "sortd"})...)
						ops = append(ops, fullQueries(other, n+1)...)
						ops = append(ops, at(side, op{kind: "sort"})...)
					}
					var nm *namer
					if variant >= 1 && cnt%3 != 0 {
						nm = tableNames(drawTable(c.Rng, n+1))
					}
					emit(c, kind, nm, ops)
				}
			}
		}
	}
}

// copyChains: 0 -> 1, a mutation of 1, 1 -> 2, mutations of 0 and 2, everything queried on all three, then the
// three graphs are consumed one after the other with the survivors queried in between
func copyChains(c *Config, n int, reps int) {
	r := c.Rng
	kind := fmt.Sprintf("copyex%dchain", n)
	for _, es := range digraphs(n, false) {
		for rep := 0; rep < reps; rep++ {
			base, a0 := buildOps(n, es)
			ops := append([]op{}, base...)
			pickMut := func(a *ag, g int) {
				ms := singleMutations(a)
				m := ms[r.Intn(len(ms))]
				for _, o := range m {
					a.apply(o)
				}
				ops = append(ops, at(g, m...)...)
			}
			ops = append(ops, op{kind: "copy", a: 0, b: 1})
			a1 := a0.clone()
			pickMut(a1, 1)
			if r.Intn(2) == 0 {
				ops = append(ops, fullQueries(0, len(a1.nodes))...)
			}
			ops = append(ops, op{kind: "copy", a: 1, b: 2})
			a2 := a1.clone()
			if r.Intn(2) == 0 {
				pickMut(a0, 0)
				pickMut(a2, 2)
			} else {
				pickMut(a2, 2)
				pickMut(a0, 0)
			}
			if r.Intn(3) == 0 {
				pickMut(a1, 1)
			}
			// every node that any of the three graphs has is asked of all of them
			nq := len(a0.nodes)
			for _, a := range []*ag{a1, a2} {
				if len(a.nodes) > nq {
					nq = len(a.nodes)
				}
			}
			order := r.Perm(3)
			for _, g := range order {
				ops = append(ops, fullQueries(g, nq)...)
			}
			order = r.Perm(3)
			ops = append(ops, at(order[0], op{kind: "sortd"})...)
			ops = append(ops, fullQueries(order[1], nq)...)
			ops = append(ops, fullQueries(order[2], nq)...)
			ops = append(ops, at(order[1], op{kind: "sortd"})...)
			ops = append(ops, fullQueries(order[2], nq)...)
			ops = append(ops, at(order[0], op{kind: "sort"})...)
			var nm *namer
			if r.Intn(2) == 0 {
				nm = tableNames(drawTable(r, n+3))
			}
			emit(c, kind, nm, ops)
		}
	}
}

// copyRandom: a random operation sequence over nslots graphs (nslots = 1: re-use of one graph across
// destructive sorts).  Node indices 0..n-1 are used, n is the "unknown node" of the malformed minority.
func copyRandom(c *Config) (string, []op, int) {
	r := c.Rng
	nslots := 2 + r.Intn(2)
	kind := "copyrnd"
	if r.Intn(6) == 0 {
		nslots, kind = 1, "reuse"
	}
	n := 2 + r.Intn(7)
	var st [nSlots]*ag
	var live [nSlots]bool
	for i := range st {
		st[i] = newAg()
	}
	live[0] = true
	var ops []op
	do := func(g int, o op) {
		st[g].apply(o)
		ops = append(ops, at(g, o)...)
		live[g] = true
	}
	// the first graph: some nodes, edges forward in the insertion order half of the time (so that destructive
	// sorts succeed and sinks exist), interleaved
	perm := r.Perm(n)
	k := 1 + r.Intn(n)
	if r.Intn(12) == 0 {
		k = 0 // the EMPTY graph is copied, everything is built afterwards
	}
	dag := r.Intn(2) == 0
	ne := r.Intn(2*k + 1)
	pos := map[int]int{}
	for i := 0; i < k; i++ {
		do(0, op{kind: "addnode", a: perm[i]})
		pos[perm[i]] = i
		for ne > 0 && r.Intn(2) == 0 {
			ne--
			x, y := perm[r.Intn(i+1)], perm[r.Intn(i+1)]
			if dag && pos[x] > pos[y] {
				x, y = y, x
			}
			if (dag && x == y) || st[0].edges[[2]int{x, y}] {
				continue
			}
			do(0, op{kind: "addedge", a: x, b: y})
		}
	}
	liveSlots := func() []int {
		var l []int
		for g := 0; g < nslots; g++ {
			if live[g] {
				l = append(l, g)
			}
		}
		return l
	}
	anyNode := func(g int) int {
		if len(st[g].nodes) > 0 && r.Intn(8) != 0 {
			return st[g].nodes[r.Intn(len(st[g].nodes))]
		}
		return r.Intn(n)
	}
	queryAll := func() {
		ls := liveSlots()
		r.Shuffle(len(ls), func(i, j int) { ls[i], ls[j] = ls[j], ls[i] })
		for _, g := range ls {
			x := anyNode(g)
			qs := []op{{kind: "children", a: x}, {kind: "parents", a: anyNode(g)}, {kind: "cycle", a: x}, {kind: "sort"}}
			r.Shuffle(len(qs), func(i, j int) { qs[i], qs[j] = qs[j], qs[i] })
			ops = append(ops, at(g, qs...)...)
		}
	}
	doCopy := func(s, d int) {
		ops = append(ops, op{kind: "copy", a: s, b: d})
		st[s].markSinks()
		if s != d {
			st[d] = st[s].clone()
		}
		live[d] = true
	}
	steps := 4 + r.Intn(10)
	for s := 0; s < steps; s++ {
		ls := liveSlots()
		g := ls[r.Intn(len(ls))]
		if nslots > 1 && r.Intn(12) == 0 {
			g = r.Intn(nslots) // perhaps a slot that is still the empty graph
		}
		a := st[g]
		w := r.Intn(100)
		if nslots > 1 && s == 0 && w < 75 {
			w = 0 // most cases copy early
		}
		switch {
		case w < 14 && nslots > 1:
			src := ls[r.Intn(len(ls))]
			if r.Intn(10) == 0 {
				src = r.Intn(nslots) // perhaps a slot that is still the empty graph
			}
			dst := r.Intn(nslots)
			if r.Intn(3) != 0 { // prefer a target other than the source
				dst = (src + 1 + r.Intn(nslots-1)) % nslots
			}
			doCopy(src, dst)
		case w < 22:
			do(g, op{kind: "sortd"})
		case w < 32:
			do(g, op{kind: "addnode", a: r.Intn(n)})
		case w < 72:
			// a new edge; two thirds of the time from a node that was a sink when the graph was copied
			var x int
			var cands []int
			for _, v := range a.nodes {
				if a.sinks[v] {
					cands = append(cands, v)
				}
			}
			if len(cands) > 0 && r.Intn(3) != 0 {
				x = cands[r.Intn(len(cands))]
			} else {
				x = anyNode(g)
			}
			y := anyNode(g)
			if !a.has[x] || !a.has[y] || a.edges[[2]int{x, y}] {
				// unknown endpoint or duplicate edge: outside the domain; keep it rarely
				if r.Intn(6) != 0 {
					if len(a.nodes) == 0 {
						do(g, op{kind: "addnode", a: x})
					}
					break
				}
			}
			do(g, op{kind: "addedge", a: x, b: y})
		case w < 90:
			el := a.edgeList()
			if len(el) == 0 {
				do(g, op{kind: "addnode", a: r.Intn(n)})
				break
			}
			e := el[r.Intn(len(el))]
			do(g, op{kind: "rmedge", a: e[0], b: e[1]})
			if r.Intn(3) == 0 { // RemoveEdge, AddEdge, ReindexNode as Pipeline.resolve does
				y := anyNode(g)
				if a.has[y] && !a.edges[[2]int{e[0], y}] {
					do(g, op{kind: "addedge", a: e[0], b: y})
				}
			}
			if r.Intn(15) != 0 { // a missing re-index rarely
				do(g, op{kind: "reindex", a: e[0]})
			}
		default:
			// malformed: unknown endpoints, absent removals, a stray re-index
			switch r.Intn(4) {
			case 0:
				do(g, op{kind: "addedge", a: n, b: anyNode(g)})
			case 1:
				do(g, op{kind: "addedge", a: anyNode(g), b: n})
			case 2:
				do(g, op{kind: "rmedge", a: anyNode(g), b: anyNode(g)})
			case 3:
				do(g, op{kind: "reindex", a: anyNode(g)})
			}
		}
		queryAll()
	}
	// consume the graphs one after the other, the survivors are sorted in between
	if r.Intn(2) == 0 {
		ls := liveSlots()
		r.Shuffle(len(ls), func(i, j int) { ls[i], ls[j] = ls[j], ls[i] })
		for _, g := range ls {
			do(g, op{kind: "sortd"})
			queryAll()
		}
	}
	return kind, ops, n + 1
}
