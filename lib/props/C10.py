CONFIG = dict(
        level='proof',
        streams=[dict(harness='c10', driver='c10', shrink_field='items')],
        rule='(i) every subset of the 9 registered leaf analyses x uast feature on/off deployed with Pipeline.DeployItem and resolved by '
             'Pipeline.Initialize (dry run), every registered item deployed alone, random synthetic roots requiring registered keys / item names / '
             'unknown keys with random features; (ii) synthetic PipelineItem sets resolved by Initialize (dry run): all 2- and 3-item sets over 2 '
             'entities, layered acyclic sets, a second / third provider added, arbitrary relations (cycles, unsatisfied requirements), same-named '
             'items, more than 12 items, malformed sets (a key listed twice, names colliding with generated node names); '
             '(iii) round 2, kind cascade: structured cascades of k = 1..8 doubly provided entities in the TreeDiff/RenameAnalysis shape (raw provider of stage i '
             'consumes the entity of stage i-1, the refiner consumes and re-provides its own) with an independent side chain of 0..8 items feeding the refiner of the last '
             'or of an inner stage, variants: refiner reading through a cache item, a consumer behind every stage, a requirement chain in front, ascending / descending / '
             'scrambled numbering, item list in generation / reversed / shuffled order (4..41 items; quick: whole (k, side) grid in the base shape + the band |side - k| <= 1 in every '
             'variant, thorough: everything); kind samenamemany: 2..14 items of ONE name (N_10 sorts before N_2); kind scale: 100, 255, 256, 257, 300 (thorough: 1000, 2000) items as '
             'one chain (ascending / descending / shuffled names, all items same-named), layers with fan-in 2, a cascade in which every entity is doubly provided, a ring, a chain with a '
             'hole - above 64 items judged by the property oracles only; (iv) round 2, kinds seqpair / seqexh / seqrandom: sequences of API calls SetFeature / AddItem / DeployItem / RemoveItem on one '
             'pipeline (two items of one name entering by AddItem / DeployItem / as a customised copy in every combination, then none / the older / the newer / both removed, the same instance '
             'added twice and removed once, redeployment, then an analysis deployed whose requirements reach that name, the uast feature off / on first / on just before the last deployment; every '
             'sequence of up to 3 (thorough 4) calls over a 9-call alphabet; random sequences of 2..12 calls over the whole registry with synthetic roots): the content of the pipeline (instance '
             'ids + names) is compared with the model after EVERY call and the deploy-closure oracle is applied to every DeployItem, then Initialize (dry run). '
             '(v) round 3, kinds seqinitexh / seqinitreal / seqinitrepair / seqinitrandom: Initialize (dry run) is called SEVERAL times within one sequence on the same Pipeline object, interleaved with '
             'RemoveItem / AddItem / DeployItem / SetFeature / restore (AddItem of the very instance RemoveItem took out): a five-item synthetic world initialised once, then every sequence of up to 3 (thorough 4) calls over a 14-call '
             'alphabet (same-named replacement, a same-named item that closes a cycle / has other requirements / requires an unknown entity, removals, restores, Initialize), then Initialize again; every leaf analysis x uast off/on deployed and initialised, '
             'each deployed item replaced by a new registry instance / a customised copy / the removed instance, Initialize, a second analysis deployed (uast switched on in between), Initialize, the first analysis removed, Initialize, the '
             'pipeline emptied and used again; fail -> repair -> retry on layered synthetic sets (cycle / unknown entity / third provider introduced by a same-named exchange, observed after the failing call, twice in a row, repaired by a new '
             'instance or by restoring the removed one); random rounds of modifications. After EVERY Initialize the outcome is judged like a final one (resolved order against the model outcomes of the item set the call saw and the property '
             'oracles), the same instances are initialised in a FRESH pipeline (twin, judged the same), and the content of the pipeline is recorded - after a FAILING call it must hold exactly the instances it held before (PROPFAIL [failed-initialize]) '
             'in name order (model), and the sequence continues from it. In the odd runs of every sequence kind a second, unrelated pipeline is driven through the same registry between the calls (shared structures). '
             'kind twopaths: the refiner of a doubly provided entity reads it through 0..4 intermediate consumers, parallel or chained, 1..3 items deep, with / without requiring the entity itself; kind namecollide: 2..4 items named X next to an item literally named X_j. '
             '(vi) round 4 (content of values, two features at once): every case of the kinds regorder / featnames / regworld / regworldreal / regorderreal / seqworld has ITS OWN registry - the maps of hercules.Registry are emptied and filled again '
             'through Registry.Register in an order the generator chooses, with synthetic registered item types (feature-gated or plain) next to, before or instead of the built-in ones; the registry table read back through Summon travels with the case '
             'and DeployItem / Initialize are judged as before (extracted deploy, closure_names, resolve, validators). regorder: exhaustive, one entity with 2 or 3 providers each plain / gated by f / by g / by both / featured without features, in every order of '
             'registration, x every subset of {f, g} switched on x requirement in the deployed item / one level below / features declared by the deployed item x the first registered provider a refiner or not; featnames: pairs (feature the provider is gated by, feature switched on) '
             'over 30+ spellings of one name (case variants, leading / trailing / inner blanks, tab, LF, CRLF, CR, NUL, BOM, invalid UTF-8 next to a real U+FFFD, NBSP, U+3000, U+2028, overlong and surrogate bytes, NFC / NFD, prefix / suffix / doubled, dotted and dotless i, sharp s, the empty string), switched on by SetFeature or declared by the deployed item, a second gated provider with the other spelling and a plain one registered behind; '
             'regworld: random worlds of 2..9 registered items with names, entity keys and features drawn from pools of such look-alikes, entities with 1..4 providers, requirements on item names, 1..3 deployments; regworldreal / regorderreal: the built-in items registered in a random order, '
             'with 0..3 synthetic (gated) providers / refiners of built-in entities among them, 1..3 leaves deployed with spellings of uast switched on; kind seqworld: the call sequences of (iv) / (v) - SetFeature of look-alike spellings between the deployments, AddItem / DeployItem of registered items and unregistered featured roots, RemoveItem, re-deployment, restore, Initialize in the middle - inside a random world; kind bytenames: the synthetic item sets of (ii) with names and keys replaced by look-alike byte strings (AddItem + Initialize); '
             'kind widths: 9, 10, 11, 99, 100, 101 (thorough 999, 1000, 1001) same-named items. Strings are %-escaped in the trace and decoded by the replay driver before they are ranked. '
             'Each case is run 4 times (Go randomises map iteration); the 4 runs also vary the other options Initialize reads: none / DAG dump to a file / DumpPlan + PrintActions + hibernation distance / all. '
             'Non-trivial = at least 2 items and at least one requirement; distinct = distinct input (item list, or feature list + deployment list, or call sequence).',
        exhaustive_note='all 512 subsets of the registered leaf analyses x {uast off, uast on} (thorough: in two deployment orders), every '
                        'registered item alone x {off, on}; all 256 ordered pairs and all 816 multisets of 3 items whose provides/requires '
                        'are subsets of {a,b} (thorough: also 2 items over 3 entities); every sequence of at most 3 (thorough 4) API calls over the alphabet '
                        '{AddItem TreeDiff, DeployItem TreeDiff, AddItem IdentityDetector, DeployItem Couples, DeployItem FileDiffRefiner, RemoveItem oldest / newest TreeDiff, '
                        'RemoveItem newest IdentityDetector, SetFeature uast}; the whole grid stages 1..8 x side chain 0..8 of the cascade family; round 3: after [AddItem C, B, E, A; Initialize] every sequence of at most 3 (thorough 4) calls over '
                        'round 4: one entity x 2 providers x 5 gate kinds each (3 providers x 3 gate kinds) in every order of registration x every subset of 2 features x 3 positions of the requirement x refiner first or not (1,040 cases); the diagonal and the first five rows / columns (thorough: all pairs) of the feature-spelling table; '
                        '{AddItem A / cyclic A / B / B with other requirements / U (unknown entity), RemoveItem oldest A / newest A / B / C / E / U, restore A / B, Initialize} followed by Initialize; every leaf x uast x deployed item x 3 ways of replacing it',
        assumptions=['item names and entity keys enter the model as integer ranks of the strings under byte-wise order (what resolve uses of '
                     'them: equality and Go string order); the replay driver computes the ranks, the bracketed key names "[k]" and the '
                     'disambiguated names "n_i"',
                     'sort.Sort of the items is the stable insertion sort (Go: at most 12 elements) or sorts pairwise distinct names; '
                     'item sets with more than 12 items AND equal names are outside the fine comparison (counted)',
                     'FindParents / BreadthSort / FindCycle iterate Go maps: the model takes the orders as choice arguments, the theorems '
                     'quantify over them; the driver accepts an implementation outcome if some of a family of 49 (on a miss up to 60) orders reproduces it (walked lazily)',
                     'AddItem appends the instance, RemoveItem deletes the first occurrence of the instance and nothing else: three lines of Go each, mirrored in the replay driver (not in Coq); '
                     'SetFeature / DeployItem are the extracted set_feature / deploy; a failing Initialize leaves the items sorted by name (stable sort in the driver), a successful one in the order it reports; the model continues from the order the implementation left',
                     'item sets with more than 64 items (kind scale) are not run through the model: judged by perm_b / chain_order_ok / unsatisfiedb on the implementation output',
                     'round 4: the registry of a world case is installed by emptying the three maps of hercules.Registry (reflect + unsafe in the harness, no hook in the repository) and calling the public Registry.Register in the chosen order; '
                     'a synthetic registered item is a Go type whose Name / Provides / Requires / Features read a table (Summon creates zero values through reflection); strings are %-escaped in the trace (injective; decoded by the driver)',
                     'registry: one registered item per name (checked per run by the extracted reg_okb on the registry table read from the implementation)'],
        trusted_base=['hand-written Gallina models coq/theories/Pipeline/Resolve.v (Pipeline.resolve) and Deploy.v (Pipeline.DeployItem, '
                      'Registry.Summon) on top of coq/theories/Toposort/Model.v, tied to the code by the replay of every harness case',
                      'C15 theorems about Toposort/Model.v (Refine.v, Reach.v, Main.v) used by C10_unambiguous / C10_errors',
                      'the greedy search of the replay driver for a strict order (untrusted: its result counts only when the extracted chain_order_ok accepts it)'],
        level_text='C10_order_checker_sound (validator order_ok: accepted order => permutation of the items, every requirement provided strictly '
                   'before, every provider not before transitively requires an output of the consumer), C10_unambiguous and C10_errors (at most one '
                   'provider per entity, all map orders, all name formattings: outcome decided completely - Unsatisfied iff a requirement has no '
                   'provider, SortFailure iff a cyclic requirement, otherwise an order with every item strictly after all its providers, a permutation), '
                   'C10_deploy_closure + C10_deploy_total (DeployItem terminates and adds exactly the least set closed under enabled providers/namesakes of requirements). '
                   'C10_strict_order_checker_sound (strict validator chain_order_ok: accepted order => permutation, every requirement provided strictly before and by no item after, implies order_ok). '
                   'The chained (two-provider) case is decided per run by the proved-sound validators: a success must pass order_ok, and chain_order_ok whenever a strict order exists; a '
                   '"topological sort failure" is a failure whenever a strict order exists (the requirements are then not cyclic in any reading): partial. '
                   'Round 3: C10_chained_two_feeders_refuted and C10_name_collision_lost_item_refuted (two further regions in which the statement is false of the current code, see level_note); every Initialize of a call sequence, '
                   'failing ones included, is judged by the same validators and must keep the set of deployed instances.',
        level_note='Partial: no general theorem for the chaining block; C10_chained_norequire_{order,lost_item,panic}_refuted and C10_chained_shared_panic_refuted prove that the full statement is '
                   'false of the current code in two input regions decided by the extracted region_of (tags [chained:no-provider-requires-entity], '
                   '[chained:item-provides-two-ambiguous-entities]: known findings C10-K1/K2), C10_chained_not_farther_refuted in a third one decided by the extracted shallow_secondb inside the remaining chained regions '
                   '(tag [chained:second-provider-not-farther-from-roots]: the BreadthSort rank picks the wrong end of the chain, "topological sort failure" for an acyclic set, random on ties: known finding C10-K3); '
                   'round 3: C10_chained_two_feeders_refuted in a fourth one decided by the extracted two_feeders_b (tag [chained:refiner-fed-by-two-consumers], known finding C10-K4: the refiner transitively requires TWO consumers of its entity, FindCycle keeps one of them in front of it: '
                   '"topological sort failure" although order_ok accepts an order; judged only there), and C10_name_collision_lost_item_refuted OUTSIDE the domain, decided by the extracted collision_only_b (tag [generated-node-name-equals-item-name], known finding C10-K5: X, X and an item literally named X_1 share a graph node, Initialize succeeds and an item is lost; only that is judged there); '
                   'every other region, all leaf subsets, all API call sequences (also with several Initialize calls, failing ones included) and all one-provider sets are clean. Not judged (counted as resolve_err_sort_chained_suffix_order_exists): a chained "topological sort failure" for a set '
                   'that has no strict order but an order with the BlobCache exception (a consumer may precede a later provider that depends on it). Modelled, not verified: the Go code (tie = replay); '
                   'fuel of BreadthSort/Toposort in the chained case is not proved sufficient (an out-of-fuel model outcome is reported as a mismatch; the deploy fuel is: C10_deploy_total).',
        technique='Coq proof over an executable model + extracted validator on implementation outputs + exhaustive replay of the finite leaf x feature scope',
        search_seconds=120,
    )
