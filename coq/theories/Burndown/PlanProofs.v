(* The invariant of plan execution (DESIGN.md, C01_global_sparse): every live branch holds, for every path,
   the lines of its last commit, each with the (author, tick) of its birth, and the shared global history is
   the sum of the contributions of the commits analysed so far.  This file: emerge / commit in normal mode /
   fork / delete / hibernate / boot, i.e. every plan without merge actions; the plan is the one validated
   by plan_okb (Replay.v). *)
From Coq Require Import List ZArith Lia Bool Permutation.
From Herc Require Import Burndown.Base Burndown.Dense Burndown.DenseProofs Burndown.Lifetimes Burndown.LifetimesFacts
  Burndown.AncFacts Burndown.Analysis Burndown.SparseFacts Burndown.AnalysisFacts Burndown.Replay
  Burndown.HunkProofs Burndown.LinearProofs Burndown.StepProofs Burndown.CommitProofs.
Import ListNotations.
Open Scope Z_scope.

Lemma vec_eqb_eq a b : vec_eqb a b = true -> a = b.
Proof.
  revert b. induction a as [|x a IH]; intros [|y b] E; cbn in E; try discriminate; auto.
  apply andb_prop in E. destruct E as [E1 E2]. apply Bool.eqb_prop in E1. subst. f_equal. auto.
Qed.

Lemma aget_fold_aset {V} (x : V) bs : forall m k,
  aget (fold_left (fun m b' => aset m b' x) bs m) k = if memz k bs then Some x else aget m k.
Proof.
  induction bs as [|b bs IH]; intros m k; cbn [fold_left memz existsb]; [reflexivity|].
  rewrite IH. unfold memz. destruct (existsb (Z.eqb k) bs) eqn:E; [rewrite orb_true_r; reflexivity|].
  rewrite orb_false_r, aget_aset. rewrite (Z.eqb_sym k b). reflexivity.
Qed.

Lemma nodup_fold_aset {V} (x : V) bs : forall m, NoDup (map fst m) -> NoDup (map fst (fold_left (fun m b' => aset m b' x) bs m)).
Proof. induction bs as [|b bs IH]; intros m Hm; cbn [fold_left]; auto. apply IH. apply nodup_aset. exact Hm. Qed.

Lemma memz_true x l : memz x l = true <-> In x l.
Proof.
  unfold memz. rewrite existsb_exists. split.
  - intros (y & Hy & E). apply Z.eqb_eq in E. subst. auto.
  - intros H. exists x. split; auto. apply Z.eqb_refl.
Qed.

Section Plan.
  Variable h : hist.
  Variable cf : cfg.
  Variable aidx : list Z.
  Hypothesis Hcf : conflict_free h = true.
  Hypothesis Hmark : forall c, 0 <= c < ncommits h -> tick_of h c < mark.
  Hypothesis Haidx : forall c, 0 <= znth 0 aidx c.
  Notation A := (ancs h).
  Notation n := (length (h_parents h)).

  Definition vecof (last : option Z) : list bool :=
    match last with Some l => znth [] A l | None => repeat false n end.

  Definition pair_ok (pb : pbranch) (lb : lbranch) : Prop :=
    lb_last lb = pb_last pb /\ bgood h cf aidx (pb_last pb) (lb_state lb) /\ pb_set pb = vecof (pb_last pb) /\
    match pb_last pb with Some l => 0 <= l < ncommits h | None => True end.

  Definition W (ps : pstate) (w : world) : Prop :=
    NoDup (map fst (ps_live ps)) /\ NoDup (map fst (w_branches w)) /\
    (forall b, match aget (ps_live ps) b, aget (w_branches w) b with
               | Some pb, Some lb => pair_ok pb lb
               | None, None => True
               | _, _ => False
               end) /\
    (forall b pb, aget (ps_live ps) b = Some pb -> memz b (ps_seen ps) = true) /\
    ps_pend ps = None /\
    (forall c, In c (ps_done ps) -> 0 <= c < ncommits h) /\
    (forall P, wsum P (s_gh (w_shared w)) = sum_z (map (contrib h P) (ps_done ps))) /\
    gh_ok mark (s_gh (w_shared w)).

  Definition no_merge (a : action) (before_rev after : list action) : Prop :=
    match a with
    | AMerge _ => False
    | ACommit c _ => is_merge_at before_rev after c = false
    | _ => True
    end.

  Lemma vecof_len last : match last with Some l => 0 <= l < ncommits h | None => True end -> length (vecof last) = n.
  Proof.
    intros Hl. unfold vecof. destruct last as [l|]; [|apply repeat_length].
    apply (row_len h (commits_ok h Hcf) l Hl).
  Qed.

  Lemma vecof_get last a : vget (vecof last) a = match last with Some l => ancb A l a | None => false end.
  Proof. unfold vecof. destruct last as [l|]; [reflexivity|apply vget_repeat_false]. Qed.

  Lemma step_W before after a ps w ps' w' :
    W ps w -> pstep h A n before after a ps = Some ps' ->
    step cf (fun c => znth 0 aidx c) (tick_of h) (changes_of h A) before after a w = Ok w' ->
    no_merge a before after -> W ps' w'.
  Proof.
    intros (W1 & W2 & W3 & W4 & W5 & W6 & W7 & W8) Ep Es Hnm.
    destruct a as [b|c b|b bs|bs|b|bs|bs]; cbn [pstep step] in Ep, Es.
    - (* emerge *)
      rewrite W5 in Ep. destruct (memz b (ps_seen ps)) eqn:Eseen; [discriminate|].
      injection Ep as <-. injection Es as <-. unfold W; cbn [ps_live ps_seen ps_pend ps_done w_branches w_shared].
      split; [apply nodup_aset; auto|]. split; [apply nodup_aset; auto|]. split.
      { intros b'. rewrite !aget_aset. destruct (Z.eqb_spec b b') as [->|Hne]; [|apply W3].
        split; [reflexivity|]. split; [|split; [reflexivity|exact I]].
        intros pl Hin. unfold pgood. cbn. reflexivity. }
      split.
      { intros b' pb. rewrite aget_aset. unfold memz. cbn [existsb]. destruct (Z.eqb_spec b b') as [->|Hne].
        - rewrite Z.eqb_refl. reflexivity.
        - intros E. apply W4 in E. unfold memz in E. rewrite E. apply orb_true_r. }
      split; auto.
    - (* commit *)
      cbn [no_merge] in Hnm.
      pose proof (W3 b) as Hb. destruct (aget (ps_live ps) b) as [pb|] eqn:Epb; [|discriminate].
      destruct (aget (w_branches w) b) as [lb|] eqn:Elb; [|destruct Hb].
      destruct Hb as (P1 & P2 & P3 & P4).
      destruct (negb (in_range (Z.of_nat n) c) || vec_get (pb_set pb) c || memz c (ps_done ps)) eqn:Eg; [discriminate|].
      apply orb_false_iff in Eg. destruct Eg as [Eg Eg3]. apply orb_false_iff in Eg. destruct Eg as [Eg1 Eg2].
      apply negb_false_iff in Eg1. unfold in_range in Eg1.
      assert (Hc : 0 <= c < ncommits h) by (unfold ncommits; lia).
      rewrite Hnm, W5 in Ep.
      destruct (vec_eqb (vec_set (pb_set pb) c) (znth [] A c)) eqn:Ev; [|discriminate].
      injection Ep as <-. apply vec_eqb_eq in Ev.
      destruct (consume cf (znth 0 aidx c) (tick_of h c) _ _ (lb_state lb) (w_shared w)) as [[b1 s1]| |] eqn:Ec; try discriminate.
      injection Es as <-. rewrite Hnm, P1 in Ec.
      unfold W; cbn [ps_live ps_seen ps_pend ps_done w_branches w_shared].
      (* the ancestry of c is c plus the ancestry of the branch *)
      assert (Hlen : length (pb_set pb) = n) by (rewrite P3; apply vecof_len; exact P4).
      assert (H1 : forall a, ancb A c a = (a =? c) || anc_last h (pb_last pb) a).
      { intros a. unfold ancb. rewrite <- Ev. unfold vec_set. destruct (Z.ltb_spec c 0); [lia|].
        fold (vget (setbit (Z.to_nat c) (pb_set pb)) a). rewrite vget_setbit, Hlen, P3, vecof_get.
        rewrite Z2Nat.id by lia. destruct (Z.ltb_spec c (Z.of_nat n)); [|lia]. rewrite andb_true_r. reflexivity. }
      assert (H2 : anc_last h (pb_last pb) c = false).
      { unfold vec_get in Eg2. fold (vget (pb_set pb) c) in Eg2. rewrite P3, vecof_get in Eg2. exact Eg2. }
      destruct (consume_good h cf aidx Hcf Hmark Haidx (pb_last pb) c Hc P4 H1 H2 (lb_state lb) (w_shared w) b1 s1 P2 Ec) as (G1 & G2 & G3 & G4).
      split; [apply nodup_aset; auto|]. split; [apply nodup_aset; auto|]. split.
      { intros b'. rewrite !aget_aset. destruct (Z.eqb_spec b b') as [->|Hne]; [|apply W3].
        split; [reflexivity|]. split; [exact G1|]. split; [exact Ev|exact Hc]. }
      split.
      { intros b' pb'. rewrite aget_aset. destruct (Z.eqb_spec b b') as [->|Hne]; [|apply W4].
        intros _. eapply W4; eauto. }
      split; auto. split.
      { intros x [<-|Hx]; auto. }
      split; [|apply G3; auto; pose proof (Hmark c Hc); lia].
      intros P. rewrite G2, W7. cbn [map]. rewrite sum_z_cons. lia.
    - (* fork *)
      rewrite W5 in Ep. pose proof (W3 b) as Hb. destruct (aget (ps_live ps) b) as [pb|] eqn:Epb; [|discriminate].
      destruct (aget (w_branches w) b) as [lb|] eqn:Elb; [|destruct Hb].
      destruct (forallb (fun b' => negb (memz b' (ps_seen ps))) bs && nodup_zb bs) eqn:Ef; [|discriminate].
      injection Ep as <-. injection Es as <-. unfold W; cbn [ps_live ps_seen ps_pend ps_done w_branches w_shared].
      split; [apply nodup_fold_aset; auto|]. split; [apply nodup_fold_aset; auto|]. split.
      { intros b'. rewrite !aget_fold_aset. destruct (memz b' bs); [exact Hb|apply W3]. }
      split.
      { intros b' pb'. rewrite aget_fold_aset. destruct (memz b' bs) eqn:Em.
        - intros _. apply memz_true. apply in_or_app. left. apply memz_true. exact Em.
        - intros E. apply W4 in E. apply memz_true. apply in_or_app. right. apply memz_true. exact E. }
      split; auto.
    - (* merge: excluded here *)
      destruct Hnm.
    - (* delete *)
      rewrite W5 in Ep. destruct (aget (ps_live ps) b) as [pb|] eqn:Epb; [|discriminate].
      injection Ep as <-. injection Es as <-. unfold W; cbn [ps_live ps_seen ps_pend ps_done w_branches w_shared].
      split; [apply nodup_adel; auto|]. split; [apply nodup_adel; auto|]. split.
      { intros b'. rewrite !aget_adel by auto. destruct (b =? b'); [exact I|apply W3]. }
      split.
      { intros b' pb'. rewrite aget_adel by auto. destruct (b =? b'); [discriminate|apply W4]. }
      split; auto.
    - injection Ep as <-. injection Es as <-. unfold W; auto 10.
    - injection Ep as <-. injection Es as <-. unfold W; auto 10.
  Qed.

  Fixpoint no_merges (before_rev plan : list action) : Prop :=
    match plan with
    | [] => True
    | a :: rest => no_merge a before_rev rest /\ no_merges (a :: before_rev) rest
    end.

  (* a decidable sufficient condition: no merge action and no commit replayed twice *)
  Definition commit_ids (plan : list action) : list Z :=
    flat_map (fun a => match a with ACommit c _ => [c] | _ => [] end) plan.
  Definition merge_freeb (plan : list action) : bool :=
    forallb (fun a => match a with AMerge _ => false | _ => true end) plan && nodup_zb (commit_ids plan).

  Lemma nearest_commit_in l c : nearest_commit l = Some c -> In c (commit_ids l).
  Proof.
    induction l as [|a l IH]; cbn [nearest_commit]; [discriminate|].
    destruct a; cbn [is_hib commit_ids flat_map app]; try discriminate; auto.
    intros E. injection E as ->. left; reflexivity.
  Qed.

  Lemma commit_ids_app l1 l2 : commit_ids (l1 ++ l2) = commit_ids l1 ++ commit_ids l2.
  Proof. unfold commit_ids. apply flat_map_app. Qed.

  Lemma commit_ids_rev_in l c : In c (commit_ids (rev l)) <-> In c (commit_ids l).
  Proof.
    unfold commit_ids. rewrite !in_flat_map. split; intros (a & Ha & Hc); exists a; split; auto.
    - apply in_rev. exact Ha.
    - apply in_rev in Ha. exact Ha.
  Qed.

  Lemma removelast_in {X} (l : list X) x : In x (removelast l) -> In x l.
  Proof.
    induction l as [|y l IH]; cbn [removelast]; [tauto|]. destruct l as [|z l]; [intros []|].
    intros [->|H]; [left; auto|right; apply IH; exact H].
  Qed.

  Lemma merge_free_no_merges : forall plan before,
    forallb (fun a => match a with AMerge _ => false | _ => true end) plan = true ->
    NoDup (commit_ids (rev before) ++ commit_ids plan) -> no_merges before plan.
  Proof.
    induction plan as [|a rest IH]; intros before Hall Hnd; cbn [no_merges]; auto.
    cbn [forallb] in Hall. apply andb_prop in Hall. destruct Hall as [Ha Hall]. split.
    - destruct a; cbn [no_merge]; auto; [|discriminate].
      (* the commit occurs neither before nor after *)
      cbn [commit_ids flat_map app] in Hnd. fold (commit_ids rest) in Hnd.
      apply NoDup_remove_2 in Hnd.
      assert (Hb : ~ In c (commit_ids before)).
      { intros Hin. apply Hnd. apply in_or_app. left. apply commit_ids_rev_in. exact Hin. }
      assert (Hr : ~ In c (commit_ids rest)).
      { intros Hin. apply Hnd. apply in_or_app. right. exact Hin. }
      unfold is_merge_at.
      assert (Hn1 : forall c', nearest_commit (removelast before) = Some c' -> c' <> c).
      { intros c' E ->. apply Hb. apply nearest_commit_in in E. unfold commit_ids in *. rewrite in_flat_map in *.
        destruct E as (x & Hx & Hc). exists x. split; auto. apply removelast_in. exact Hx. }
      assert (Hn2 : forall c', nearest_commit rest = Some c' -> c' <> c).
      { intros c' E ->. apply Hr. apply nearest_commit_in. exact E. }
      destruct (nearest_commit (removelast before)) as [c1|] eqn:E1.
      + destruct (Z.eqb_spec c1 c); [exfalso; apply (Hn1 c1 eq_refl); auto|].
        destruct (nearest_commit rest) as [c2|] eqn:E2; auto. apply Z.eqb_neq. apply Hn2. reflexivity.
      + destruct (nearest_commit rest) as [c2|] eqn:E2; auto. apply Z.eqb_neq. apply Hn2. reflexivity.
    - apply IH; auto. cbn [rev]. rewrite commit_ids_app. rewrite <- app_assoc.
      replace (commit_ids [a] ++ commit_ids rest) with (commit_ids (a :: rest)); [exact Hnd|].
      unfold commit_ids. cbn [flat_map]. rewrite app_nil_r. reflexivity.
  Qed.

  Lemma merge_freeb_no_merges plan : merge_freeb plan = true -> no_merges [] plan.
  Proof.
    unfold merge_freeb. intros E. apply andb_prop in E. destruct E as [E1 E2].
    apply merge_free_no_merges; auto. cbn. apply nodup_zb_NoDup. exact E2.
  Qed.

  Lemma run_W : forall plan before ps w ps' w',
    W ps w -> prun h A n before plan ps = Some ps' ->
    run_from cf (fun c => znth 0 aidx c) (tick_of h) (changes_of h A) before plan w = Ok w' ->
    no_merges before plan -> W ps' w'.
  Proof.
    induction plan as [|a rest IH]; intros before ps w ps' w' HW Ep Er Hnm.
    - cbn in Ep, Er. injection Ep as <-. injection Er as <-. exact HW.
    - cbn [prun run_from] in Ep, Er. destruct Hnm as [Hn1 Hn2].
      destruct (pstep h A n before rest a ps) as [ps1|] eqn:E1; [|discriminate].
      destruct (step cf _ _ _ before rest a w) as [w1| |] eqn:E2; try discriminate.
      apply (IH (a :: before) ps1 w1 ps' w'); auto. eapply step_W; eauto.
  Qed.

  Lemma W_init : W pstate0 world0.
  Proof.
    split; [constructor|]. split; [constructor|]. split; [intros b; exact I|]. split; [intros b pb E; discriminate|].
    split; [reflexivity|]. split; [intros c []|]. split; [intros P; reflexivity|apply gh_ok_nil].
  Qed.

  (* all commits, each once *)
  Lemma done_perm (done : list Z) : NoDup done -> length done = n -> (forall c, In c done -> 0 <= c < ncommits h) ->
    Permutation done (zrange (ncommits h)).
  Proof.
    intros Hnd Hl Hr. apply NoDup_Permutation_bis; auto.
    - unfold zrange. rewrite zrange_from_length. unfold ncommits. lia.
    - intros c Hc. apply zrange_in. auto.
  Qed.

  Lemma sum_map_perm (f : Z -> Z) l1 l2 : Permutation l1 l2 -> sum_z (map f l1) = sum_z (map f l2).
  Proof. unfold sum_z. induction 1; cbn [map fold_right]; lia. Qed.

  (* C01_global_sparse, merge-free case *)
  Theorem global_sparse_merge_free plan w :
    plan_okb h plan = true -> no_merges [] plan ->
    run_hist cf h aidx plan = Ok w ->
    (forall P, wsum P (s_gh (w_shared w)) = sum_z (map (contrib h P) (zrange (ncommits h)))) /\
    gh_ok mark (s_gh (w_shared w)).
  Proof.
    intros Hok Hnm Er. unfold plan_okb in Hok.
    destruct (prun h A n [] plan pstate0) as [ps|] eqn:Ep; [|discriminate].
    unfold run_hist, run in Er.
    pose proof (run_W plan [] pstate0 world0 ps w W_init Ep Er Hnm) as (W1 & W2 & W3 & W4 & W5 & W6 & W7 & W8).
    rewrite W5 in Hok. apply andb_prop in Hok. destruct Hok as [Hl Hnd].
    split; [|exact W8]. intros P.
    rewrite W7. apply sum_map_perm. apply done_perm; auto.
    - apply nodup_zb_NoDup. exact Hnd.
    - apply Z.eqb_eq in Hl. lia.
  Qed.
End Plan.
