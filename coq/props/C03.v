(* C03 - the line-interval tracker (internal/burndown/file.go: NewFile, Update, updateTime, Len, flatten)
   is equivalent to a plain array of per-line values.
   Only statements closed by [exact] and their assumptions; the proofs are in coq/theories/File.

   Vocabulary (coq/theories/File/Model.v and Spec.v, all executable):
     update t pos ins del s : result (state * list (cur, prev, delta))    File.Update on the node list s
     new_file t n, run_file t0 n0 ops                                      NewFile, NewFile followed by Updates
     flatten s, len s                                                      File.flatten, File.Len
     arr_update t pos ins del a = firstn pos a ++ repeat t ins ++ skipn (pos+del) a     the plain array edit
     hist v a = number of lines of a with value v; sumv v ds = sum of the reported deltas with previousTime = v
     WF s = first key 0, keys strictly increasing, last value TreeEnd, Len <= 2^32-1  (keys are uint32)
     is_mark v = (v land TreeMergeMark =? TreeMergeMark); values are opaque uint32 (tick | author << 14)
     validb t pos ins del a: the domain, stated on the array (C03_domain below spells it out), incl. the
       uint32 side condition "the new length fits a uint32" and "a deleted line carrying the merge mark
       carries the operation's own tick" (otherwise updateTime panics by design). *)
From Coq Require Import List ZArith.
From Herc Require Import File.Model File.Spec File.Sequences File.Unrepaired.
Import ListNotations.
Open Scope Z_scope.

(* the domain predicate and the well-formedness check say what they should *)
Theorem C03_domain : forall t pos ins del a,
  validb t pos ins del a = true <->
  (0 <= t < MaxU32 /\ 0 <= pos /\ 0 <= ins /\ 0 <= del /\ pos + del <= alen a /\
   alen a + ins - del <= MaxU32 /\
   forall v, In v (firstn (Z.to_nat del) (skipn (Z.to_nat pos) a)) -> is_mark v = true -> v = t).
Proof. exact validb_spec. Qed.
Print Assumptions C03_domain.

Theorem C03_wfb : forall s, wfb s = true <-> WF s.
Proof. exact wfb_WF. Qed.
Print Assumptions C03_wfb.

(* one operation: same lines, same length as the plain array; well-formedness is preserved *)
Theorem C03_update_refines : forall t pos ins del s,
  WF s -> validb t pos ins del (flatten s) = true ->
  exists s' ds, update t pos ins del s = Ok (s', ds) /\ WF s' /\
    flatten s' = arr_update t pos ins del (flatten s) /\ len s' = len s + ins - del.
Proof. exact update_refines_valid. Qed.
Print Assumptions C03_update_refines.

(* the running histogram: per value, the reported deltas are exactly the change of the array's histogram *)
Theorem C03_update_deltas : forall t pos ins del s s' ds,
  WF s -> validb t pos ins del (flatten s) = true -> is_mark t = false ->
  update t pos ins del s = Ok (s', ds) ->
  forall v, hist v (flatten s') = hist v (flatten s) + sumv v ds.
Proof. exact update_deltas_valid. Qed.
Print Assumptions C03_update_deltas.

(* operations stamped with the merge mark report nothing *)
Theorem C03_update_silent_on_mark : forall t pos ins del s s' ds,
  WF s -> validb t pos ins del (flatten s) = true -> is_mark t = true ->
  update t pos ins del s = Ok (s', ds) -> ds = [].
Proof. exact update_silent_valid. Qed.
Print Assumptions C03_update_silent_on_mark.

(* out-of-range requests are rejected with a panic, never silently accepted: negative arguments, tick or
   position or lengths beyond uint32, and - for every request that inserts or deletes something - a position
   beyond the end or a deletion running past the end.  The EMPTY request beyond the end is the exception:
   it is not rejected (C03_update_empty_request_beyond_end_refuted, known finding F18). *)
Theorem C03_update_rejects : forall t pos ins del s,
  WF s ->
  (t < 0 \/ MaxU32 <= t \/ pos < 0 \/ MaxU32 < pos \/ ins < 0 \/ del < 0 \/ MaxU32 < ins \/ MaxU32 < del \/
   ((ins <> 0 \/ del <> 0) /\ (len s < pos \/ len s < pos + del))) ->
  exists c, update t pos ins del s = Panic c.
Proof. exact update_rejects_prop. Qed.
Print Assumptions C03_update_rejects.

(* in range, but a deleted line carries the merge mark with a tick other than the operation's: updateTime
   panics ("previousTime cannot be TreeMergeMark"); together with C03_update_refines, C03_update_rejects and
   C03_update_empty_request this decides every request whose new length fits a uint32 *)
Theorem C03_update_mark_conflict : forall t pos ins del s,
  WF s -> in_rangeb t pos ins del (flatten s) = true -> mark_okb t pos del (flatten s) = false ->
  exists c, update t pos ins del s = Panic c.
Proof. exact update_mark_conflict. Qed.
Print Assumptions C03_update_mark_conflict.

(* the only request outside [0, Len] that does not panic is the empty one; it changes nothing and reports nothing *)
Theorem C03_update_empty_request : forall t pos s,
  0 <= t < MaxU32 -> 0 <= pos <= MaxU32 -> update t pos 0 0 s = Ok (s, []).
Proof. exact Rejects.update_noop. Qed.
Print Assumptions C03_update_empty_request.

(* ... but by the letter of the property ("a position beyond the end ... rejected with a panic and never silently
   accepted") it should panic: the clause is FALSE of the code for empty requests.  Witness: a 10-line file,
   Update(1, 12, 0, 0) returns without a panic (the `insLength|delLength == 0` return precedes the end-of-file test).
   Known finding F18; the harness kinds *-emptybeyond replay it on the Go code. *)
Theorem C03_update_empty_request_beyond_end_refuted :
  exists s t pos, WF s /\ 0 <= t < MaxU32 /\ len s < pos <= MaxU32 /\ update t pos 0 0 s = Ok (s, []).
Proof. exact empty_request_beyond_end_refuted. Qed.
Print Assumptions C03_update_empty_request_beyond_end_refuted.

(* NewFile *)
Theorem C03_new_file : forall t0 n0, 0 <= t0 <= MaxU32 -> 0 <= n0 <= MaxU32 ->
  exists s, new_file t0 n0 = Ok (s, if is_mark t0 then [] else [(t0, t0, n0)]) /\ WF s /\
    flatten s = repeat t0 (Z.to_nat n0) /\ len s = n0.
Proof. exact new_file_plain. Qed.
Print Assumptions C03_new_file.

(* arbitrary operation sequences from NewFile: every reachable state is well formed, its lines and length
   are those of the plain array, and per value the observers have accumulated exactly the histogram changes
   of the operations that are not stamped with the merge mark (plus the initial lines) *)
Theorem C03_sequences : forall t0 n0 ops,
  0 <= t0 <= MaxU32 -> 0 <= n0 <= MaxU32 ->
  ops_validb (repeat t0 (Z.to_nat n0)) ops = true ->
  exists s ds, run_file t0 n0 ops = Ok (s, ds) /\ WF s /\
    flatten s = arr_run (repeat t0 (Z.to_nat n0)) ops /\
    len s = alen (arr_run (repeat t0 (Z.to_nat n0)) ops) /\
    forall v, sumv v ds =
      (if is_mark t0 then 0 else hist v (repeat t0 (Z.to_nat n0))) + expected_sum v (repeat t0 (Z.to_nat n0)) ops.
Proof. exact sequences. Qed.
Print Assumptions C03_sequences.

(* without merge marks: the running histogram kept from the reported deltas IS the histogram of the lines *)
Theorem C03_sequences_histogram : forall t0 n0 ops,
  0 <= t0 <= MaxU32 -> 0 <= n0 <= MaxU32 -> is_mark t0 = false -> no_mark_ops ops = true ->
  ops_validb (repeat t0 (Z.to_nat n0)) ops = true ->
  exists s ds, run_file t0 n0 ops = Ok (s, ds) /\ forall v, hist v (flatten s) = sumv v ds.
Proof. exact sequences_histogram. Qed.
Print Assumptions C03_sequences_histogram.

(* the defect repaired by the F2 fix: on the model of the code before the fix the two witnesses are valid,
   accepted without a panic, and end with lines that differ from the plain array *)
Theorem C03_update_refuted_before_fix :
  forall ops, ops = [(1, 2, 3, 0); (1, 1, 0, 3)] \/ ops = [(1, 3, 1, 0); (1, 0, 1, 0); (1, 3, 2, 2)] ->
    ops_validb (repeat 0 3) ops = true /\
    exists s, run_unrepaired ops [(0, 0); (3, TreeEnd)] = Some s /\ flatten s <> arr_run (repeat 0 3) ops.
Proof. exact update_refuted_before_fix. Qed.
Print Assumptions C03_update_refuted_before_fix.

(* ---------- non-vacuity ---------- *)
(* a four-interval state with a packed author; a replacement that deletes across three intervals with the
   tick of a wholly deleted later interval *)
Definition ex_state : list (Z * Z) := [(0, 5); (2, 7 + 3 * 16384); (4, 5); (9, TreeEnd)].
Example C03_ex_wf : WF ex_state.
Proof. apply wfb_WF. vm_compute. reflexivity. Qed.
Example C03_ex_valid : validb (7 + 3 * 16384) 1 2 5 (flatten ex_state) = true.
Proof. vm_compute. reflexivity. Qed.
Example C03_ex_update :
  exists s' ds, update (7 + 3 * 16384) 1 2 5 ex_state = Ok (s', ds) /\
    flatten s' = [5; 49159; 49159; 5; 5; 5] /\ ds = [(49159, 49159, 2); (49159, 5, -1); (49159, 49159, -2); (49159, 5, -2)].
Proof. eexists. eexists. vm_compute. repeat split. Qed.
(* rejection: every listed kind of out-of-range request on that state *)
Example C03_ex_rejects :
  forallb (fun o => match o with (t, p, i, d) =>
     match update t p i d ex_state with Panic _ => true | Ok _ => false end end)
    [(-1, 0, 1, 0); (MaxU32, 0, 1, 0); (1, -1, 1, 0); (1, 10, 1, 0); (1, 9, 0, 1); (1, 3, 0, 7); (1, 0, -1, 0);
     (1, 0, 0, -1); (1, 0, 4294967296, 0); (1, 0, 0, 4294967296 + 5); (1, 4294967296, 1, 0)] = true.
Proof. vm_compute. reflexivity. Qed.
(* a valid sequence with a merge-marked operation and a later deletion of the marked lines with the mark's own tick *)
Example C03_ex_sequence :
  ops_validb (repeat 3 (Z.to_nat 6)) [(4, 2, 2, 1); (16383, 0, 3, 2); (16383, 1, 0, 2); (5, 1, 1, 4)] = true.
Proof. vm_compute. reflexivity. Qed.
Example C03_ex_mark_conflict :
  in_rangeb 9 0 0 2 [16383; 5; 5] = true /\ mark_okb 9 0 2 [16383; 5; 5] = false /\
  update 9 0 0 2 [(0, 16383); (1, 5); (3, TreeEnd)] = Panic PMark.
Proof. vm_compute. repeat split. Qed.
Example C03_ex_mark_silent :
  exists s ds, update 16383 1 2 3 ex_state = Ok (s, ds) /\ ds = [].
Proof. eexists. eexists. vm_compute. split; reflexivity. Qed.

(* ==== composition with C05 ==== *)
(* C03 above is stated on the in-order NODE LIST "that File.tree holds"; C05 (props/C05.v) says the red-black
   tree IS that list.  This block closes the gap inside Coq: File.Update is transcribed once more against the
   C05 tree API exactly as file.go uses it (coq/theories/Compose/TreeFileModel.v: tupdate) and proved to compute
   on the tree what the list model computes on the list - including the one thing C05 does not have, the
   in-place key rewrites through iterators (map_keys).  docs/COMPOSITION.md, section "C03 on C05".

   Vocabulary (coq/theories/Compose):
     tree, elems, bst, is_redblack, ids, ids_ok, item_of, next_in, prev_in, min_id, it_max, tsize, height: C05
     kvs tr = the (key, value) items of elems tr: the tracker state the tree stands for
     map_keys p f tr: f applied to the key of every node whose id satisfies p; set_key it k = map_keys (=? it) (fun _ => k)
     it_item / it_next / it_prev / t_delete / t_insert / t_find_le: Iterator.Item, Next, Prev, DeleteWithIterator,
       Insert, FindLE as Model.step of C05 defines them, with results TOk / TPanic class / TAssert / TUnspec
     tupdate alloc t pos ins del tr, tnew_file, trun_file: File.Update, NewFile, NewFile + Updates ON THE TREE
     alloc: the node index malloc() hands out, as a function of the tree at the time of the call;
       alloc_ok alloc n: on trees of at most n nodes it is a valid index that is not live (C03_tree_vocabulary) *)
From Coq Require Import Bool Lia.
From Herc Require Import RBTree.Model RBTree.Spec RBTree.Arena RBTree.InsertProofs RBTree.MapProofs
  RBTree.LookupProofs RBTree.HeightProofs.
From Herc Require Import Compose.TreeFileKeys Compose.TreeFileModel Compose.TreeFileLists Compose.TreeFileLoops
  Compose.TreeFileSim Compose.TreeFile.

Theorem C03_tree_vocabulary :
  (forall tr, kvs tr = map (fun e => (ekey e, eval e)) (elems tr)) /\
  (forall alloc n, alloc_ok alloc n <->
     forall tr', (length (ids tr') <= n)%nat -> ~ In (alloc tr') (ids tr') /\ 0 < alloc tr' < neg_limit) /\
  (forall it k tr, set_key it k tr = map_keys (Z.eqb it) (fun _ => k) tr) /\
  (forall s, ssorted s <-> match s with [] => True | (k, _) :: r => inc k r end).
Proof. exact tree_vocabulary. Qed.
Print Assumptions C03_tree_vocabulary.

(* (1) rewriting keys in place: the entry list is rewritten pointwise; ids, shape, colours and values
   (skeleton), the red-black invariant, every id-based navigation and Len are unchanged; the result is a search
   tree exactly when the rewritten in-order key list is still strictly increasing - no rebalancing *)
Theorem C03_tree_map_keys : forall p f t,
  elems (map_keys p f t) = map (rewrite_key p f) (elems t) /\
  ids (map_keys p f t) = ids t /\
  skeleton (map_keys p f t) = skeleton t /\
  (is_redblack t -> is_redblack (map_keys p f t)) /\
  (bst (map_keys p f t) <-> sorted (map (rewrite_key p f) (elems t))) /\
  (sortedb (keys (map (rewrite_key p f) (elems t))) = true -> bst (map_keys p f t)) /\
  (forall m, item_of m (map_keys p f t) =
             match item_of m t with Some (k, v) => Some ((if p m then f k else k), v) | None => None end) /\
  (forall m up, next_in m (map_keys p f t) up = next_in m t up) /\
  (forall m down, prev_in m (map_keys p f t) down = prev_in m t down) /\
  min_id (map_keys p f t) = min_id t /\ it_max (map_keys p f t) = it_max t /\
  tsize (map_keys p f t) = tsize t.
Proof. exact map_keys_spec. Qed.
Print Assumptions C03_tree_map_keys.

(* on the arena image (the cells C05 compares with the real Allocator.storage): only the key field of the
   rewritten cells changes; parent / left / right links, colours, values and the tree header stay *)
Theorem C03_tree_map_keys_arena : forall p f t,
  cells 0 (map_keys p f t) = map (rewrite_cell p f) (cells 0 t) /\ header_of (map_keys p f t) = header_of t.
Proof. exact map_keys_arena. Qed.
Print Assumptions C03_tree_map_keys_arena.

(* (2) the list primitives of C03's model are what the C05 tree does.  A tree whose entry list is a ++ e :: b
   with the iterator at e (node id eid e): Item, Next, Prev answer like the list position; a key written
   through the iterator changes that entry only; DeleteWithIterator removes that entry only and EVERY OTHER
   ENTRY KEEPS ITS NODE ID (so the iterators file.go holds across its deletes stay valid); the key-shifting
   loop from the iterator to the end rewrites exactly the entries from e on *)
Theorem C03_tree_primitives_at : forall tr a e b,
  elems tr = a ++ e :: b -> NoDup (ids tr) -> ids_ok tr ->
  it_item (eid e) tr = TOk (Some (kv e)) /\
  it_next (eid e) tr = TOk (pos_fwd (s_min b)) /\
  it_prev (eid e) tr = TOk (pos_bwd (s_max a)) /\
  (forall k, elems (set_key (eid e) k tr) = a ++ (eid e, k, eval e) :: b) /\
  (bst tr -> is_redblack tr ->
   exists tr', t_delete (eid e) tr = TOk tr' /\ elems tr' = a ++ b /\ bst tr' /\ is_redblack tr') /\
  (forall d fuel, (length (e :: b) < fuel)%nat ->
   exists tr', tshift_loop fuel d (eid e) tr = TOk tr' /\ elems tr' = a ++ map (shift_entry d) (e :: b) /\
               (is_redblack tr -> is_redblack tr')).
Proof. exact tree_primitives_at. Qed.
Print Assumptions C03_tree_primitives_at.

(* Insert is the model's sorted insert-if-absent; FindLE splits the entry list where the model's find_le splits
   the node list; Len, Min, Max *)
Theorem C03_tree_primitives_global : forall alloc tr,
  bst tr -> NoDup (ids tr) -> ids_ok tr ->
  (forall k v, kvs (fst (t_insert alloc k v tr)) = File.Model.insert k v (kvs tr)) /\
  (forall x L o R, match elems tr with e0 :: _ => ekey e0 <= x | [] => True end ->
     find_le x [] (kvs tr) = Some (L, o, R) ->
     exists a e b, elems tr = a ++ e :: b /\ t_find_le x tr = TOk (eid e) /\
                   L = map kv a /\ o = kv e /\ R = map kv b) /\
  tsize tr = Z.of_nat (length (kvs tr)) /\
  (forall e0 tl, elems tr = e0 :: tl -> deref (min_id tr) tr = TOk (kv e0)) /\
  (forall l x, elems tr = l ++ [x] -> deref (it_max tr) tr = TOk (kv x) /\ fst (kv x) = klast 0 (kvs tr)).
Proof. exact tree_primitives_global. Qed.
Print Assumptions C03_tree_primitives_global.

(* the same in the form of C05_iterators_stable: an iterator other than the one the operation is applied to
   shows the same item after DeleteWithIterator, Insert and a key rewrite *)
Theorem C03_tree_iterators_stable : forall alloc tr m,
  bst tr -> NoDup (ids tr) ->
  (forall it tr', t_delete it tr = TOk tr' -> m <> it -> item_of m tr' = item_of m tr) /\
  (forall k v, m <> alloc tr -> item_of m (fst (t_insert alloc k v tr)) = item_of m tr) /\
  (forall it k, m <> it -> item_of m (set_key it k tr) = item_of m tr).
Proof. exact tree_iterators_stable. Qed.
Print Assumptions C03_tree_iterators_stable.

(* the simulation: whenever the list model accepts a request on the items of a red-black search tree and
   returns a state with strictly increasing keys, File.Update run through the tree API returns a red-black
   search tree with exactly that state and the same Updater calls - for every choice of node indexes the
   allocator can make; and where the list model panics the tree-level Update panics with the same class *)
Theorem C03_tree_update_simulates : forall alloc t pos ins del tr s' ds,
  is_redblack tr /\ bst tr /\ NoDup (ids tr) /\ ids_ok tr -> alloc_ok alloc (S (length (ids tr))) ->
  update t pos ins del (kvs tr) = Ok (s', ds) -> ssorted s' ->
  exists tr', tupdate alloc t pos ins del tr = TOk (tr', ds) /\
    (is_redblack tr' /\ bst tr' /\ NoDup (ids tr') /\ ids_ok tr') /\ kvs tr' = s'.
Proof. exact tupdate_simulates. Qed.
Print Assumptions C03_tree_update_simulates.

Theorem C03_tree_update_panics : forall alloc t pos ins del tr c,
  is_redblack tr /\ bst tr /\ NoDup (ids tr) /\ ids_ok tr ->
  update t pos ins del (kvs tr) = Panic c -> tupdate alloc t pos ins del tr = TPanic c.
Proof. exact tupdate_panics_like_model. Qed.
Print Assumptions C03_tree_update_panics.

(* (3) the composed statement: the tracker AS A TREE is the plain array.  For a red-black search tree whose
   items are a well-formed tracker state and a valid request, Update through the tree primitives gives a
   red-black search tree (of logarithmic depth, distinct valid node ids) whose items are what the list model
   returns, and whose lines are the array edit of the lines before *)
Theorem C03_update_refines_on_tree : forall alloc t pos ins del tr,
  is_redblack tr /\ bst tr /\ NoDup (ids tr) /\ ids_ok tr ->
  WF (kvs tr) -> validb t pos ins del (flatten (kvs tr)) = true ->
  alloc_ok alloc (S (length (ids tr))) ->
  exists tr' ds, tupdate alloc t pos ins del tr = TOk (tr', ds) /\
    (is_redblack tr' /\ bst tr' /\ NoDup (ids tr') /\ ids_ok tr') /\
    Z.of_nat (height tr') <= 2 * Z.log2 (tsize tr' + 1) /\
    update t pos ins del (kvs tr) = Ok (kvs tr', ds) /\ WF (kvs tr') /\
    flatten (kvs tr') = arr_update t pos ins del (flatten (kvs tr)) /\
    len (kvs tr') = len (kvs tr) + ins - del.
Proof. exact update_refines_on_tree. Qed.
Print Assumptions C03_update_refines_on_tree.

(* out-of-range requests are rejected by the tree-level Update as well *)
Theorem C03_update_rejects_on_tree : forall alloc t pos ins del tr,
  is_redblack tr /\ bst tr /\ NoDup (ids tr) /\ ids_ok tr -> WF (kvs tr) ->
  (t < 0 \/ MaxU32 <= t \/ pos < 0 \/ MaxU32 < pos \/ ins < 0 \/ del < 0 \/ MaxU32 < ins \/ MaxU32 < del \/
   ((ins <> 0 \/ del <> 0) /\ (len (kvs tr) < pos \/ len (kvs tr) < pos + del))) ->
  exists c, tupdate alloc t pos ins del tr = TPanic c.
Proof. exact update_rejects_on_tree. Qed.
Print Assumptions C03_update_rejects_on_tree.

(* NewFile followed by any valid operation sequence, run on the tree: every call succeeds, the tree reached is
   a red-black search tree of logarithmic depth whose items are the list model's state, and its lines and
   length are those of the plain array (the statement holds for every prefix, hence for every reachable state) *)
Theorem C03_sequences_on_tree : forall alloc t0 n0 ops,
  0 <= t0 <= MaxU32 -> 0 <= n0 <= MaxU32 ->
  ops_validb (repeat t0 (Z.to_nat n0)) ops = true ->
  alloc_ok alloc (2 + 2 * length ops) ->
  exists tr ds, trun_file alloc t0 n0 ops = TOk (tr, ds) /\
    (is_redblack tr /\ bst tr /\ NoDup (ids tr) /\ ids_ok tr) /\
    Z.of_nat (height tr) <= 2 * Z.log2 (tsize tr + 1) /\
    run_file t0 n0 ops = Ok (kvs tr, ds) /\ WF (kvs tr) /\
    flatten (kvs tr) = arr_run (repeat t0 (Z.to_nat n0)) ops /\
    len (kvs tr) = alen (arr_run (repeat t0 (Z.to_nat n0)) ops).
Proof. exact sequences_on_tree. Qed.
Print Assumptions C03_sequences_on_tree.

(* the allocator hypothesis is satisfiable whenever there is room: "the smallest free positive index" is a
   valid choice on every tree of at most n nodes, n + 1 < 2^32 - 1 (it reuses just-freed indexes) *)
Theorem C03_tree_alloc_exists : forall n, Z.of_nat n + 1 < neg_limit -> alloc_ok first_free n.
Proof. exact first_free_ok. Qed.
Print Assumptions C03_tree_alloc_exists.

(* ---------- non-vacuity of the composition ---------- *)
(* the four-interval state ex_state above as a TREE: NewFile(5, 9) and one replacement, run on the tree *)
Definition ex_tree : tree :=
  match trun_file first_free 5 9 [(7 + 3 * 16384, 2, 2, 2)] with TOk (tr, _) => tr | _ => E end.
Example C03_ex_tree_state : kvs ex_tree = ex_state /\ rb_okb ex_tree = true /\ ids ex_tree = [1; 3; 4; 2].
Proof. vm_compute. repeat split. Qed.
Example C03_ex_tree_wf : is_redblack ex_tree /\ bst ex_tree /\ NoDup (ids ex_tree) /\ ids_ok ex_tree.
Proof.
  destruct (rb_okb_sound ex_tree) as [H1 H2]; [vm_compute; reflexivity|].
  split; [exact H1|]. split; [exact H2|]. replace (ids ex_tree) with [1; 3; 4; 2] by (vm_compute; reflexivity).
  unfold ids_ok. replace (ids ex_tree) with [1; 3; 4; 2] by (vm_compute; reflexivity). split.
  - repeat (constructor; [cbn [In]; intuition discriminate|]). constructor.
  - intros i H. cbn [In] in H. unfold neg_limit. intuition (subst; lia).
Qed.
Example C03_ex_tree_alloc : alloc_ok first_free (S (length (ids ex_tree))).
Proof. apply first_free_ok. vm_compute. reflexivity. Qed.
(* the replacement of C03_ex_update on the tree: the nodes 3 and 4 are deleted through iterators and both freed
   indexes are handed out again by the two Inserts that follow *)
Example C03_ex_update_on_tree :
  exists tr' ds, tupdate first_free (7 + 3 * 16384) 1 2 5 ex_tree = TOk (tr', ds) /\
    kvs tr' = [(0, 5); (1, 49159); (3, 5); (6, TreeEnd)] /\ flatten (kvs tr') = [5; 49159; 49159; 5; 5; 5] /\
    ids tr' = [1; 3; 4; 2] /\ rb_okb tr' = true /\
    ds = [(49159, 49159, 2); (49159, 5, -1); (49159, 49159, -2); (49159, 5, -2)].
Proof. eexists. eexists. vm_compute. repeat split. Qed.
(* rejection on the tree *)
Example C03_ex_rejects_on_tree :
  tupdate first_free 1 10 1 0 ex_tree = TPanic PAfterEnd /\ tupdate first_free 1 3 0 7 ex_tree = TPanic PDelAfterEnd.
Proof. vm_compute. split; reflexivity. Qed.

(* ==== run-length form of the plain array (files of 2^31 .. 2^32-1 lines; coq/theories/File/Rle.v) ====
   The replay driver cannot materialise the lines of a 3 000 000 000-line file; it judges such files with the
   run-length functions below (extracted).  A run is (value, count); expand r is the array the runs stand for;
   runs_okb r = every count is positive.  These theorems say that the run-length judgement IS the judgement of
   arr_update / validb / must_panicb / flatten on the expanded array. *)
From Herc Require Import File.Rle.

(* the run-length edit is the plain-array edit, and its result is again a list of non-empty runs *)
Theorem C03_rle_update : forall t pos ins del r, runs_okb r = true ->
  expand (rle_update t pos ins del r) = arr_update t pos ins del (expand r) /\
  runs_okb (rle_update t pos ins del r) = true.
Proof. exact rle_update_spec. Qed.
Print Assumptions C03_rle_update.

(* comparing canonical run lists is comparing the expanded lines (both directions: no missed difference, no false one) *)
Theorem C03_rle_compare : forall r1 r2, rle_norm r1 = rle_norm r2 <-> expand r1 = expand r2.
Proof. exact rle_norm_eq_iff. Qed.
Print Assumptions C03_rle_compare.

(* the runs read off the tracker's node list are its flattened lines *)
Theorem C03_rle_flatten : forall s, expand (rle_flatten s) = flatten s /\ runs_okb (rle_flatten s) = true.
Proof. exact rle_flatten_expand. Qed.
Print Assumptions C03_rle_flatten.

(* the domain predicate, the rejection predicate, the length and the deleted slice on runs are those of the expanded array *)
Theorem C03_rle_domain : forall t pos ins del r, runs_okb r = true ->
  rle_validb t pos ins del r = validb t pos ins del (expand r) /\
  rle_in_rangeb t pos ins del r = in_rangeb t pos ins del (expand r) /\
  rle_must_panicb t pos ins del r = must_panicb t pos ins del (expand r) /\
  rle_len r = alen (expand r) /\
  expand (rle_slice pos del r) = firstn (Z.to_nat del) (skipn (Z.to_nat pos) (expand r)).
Proof. exact rle_domain. Qed.
Print Assumptions C03_rle_domain.

(* non-vacuity: a 3 000 000 000-line file, a replacement near line 100 and a deletion across 2^31 *)
Example C03_ex_rle :
  rle_update 7 100 10 5 [(0, 3000000000)] = [(0, 100); (7, 10); (0, 2999999895)] /\
  rle_update 8 2147483600 0 100 [(0, 100); (7, 10); (0, 2999999895)] = [(0, 100); (7, 10); (0, 2999999795)] /\
  rle_validb 8 2147483600 0 100 [(0, 100); (7, 10); (0, 2999999895)] = true /\
  rle_must_panicb 8 3000000000 0 6 [(0, 100); (7, 10); (0, 2999999895)] = true /\
  rle_flatten [(0, 0); (100, 7); (110, 0); (3000000005, TreeEnd)] = [(0, 100); (7, 10); (0, 2999999895)].
Proof. vm_compute. repeat split. Qed.
