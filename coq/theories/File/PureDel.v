(* Code blocks "delete nodes" + "finish" for a pure deletion (insLength = 0). *)
From Coq Require Import List ZArith Lia Bool.
Import ListNotations.
From Herc Require Import File.Model File.Spec File.NodeLists File.Locate File.DelLoop File.Values.
Open Scope Z_scope.

Ltac fin := zb; try (exfalso; lia); auto; try (f_equal; lia).

Section PureDel.
Variables (t P del : Z).
Hypothesis Hdel : 0 < del.
Hypothesis HP0 : 0 <= P.
Hypothesis Ht32 : 0 <= t <= MaxU32.
Let Q := P + del.

Theorem pure_del_spec L ok ov R :
  WF2 (L ++ (ok, ov) :: R) -> ok <= P -> first_gt P R ->
  P + del <= slen (L ++ (ok, ov) :: R) -> slen (L ++ (ok, ov) :: R) <= MaxU32 ->
  compat_list t (P + del) (ok, ov) R ->
  exists s', update_body t P 0 del L (ok, ov) R = Ok (s', rep_list t P (P + del) (ok, ov) R) /\ WF2 s' /\
     slen s' = slen (L ++ (ok, ov) :: R) - del /\
     forall i, 0 <= i -> sval s' i = spec_val (L ++ (ok, ov) :: R) t P 0 del i.
Proof.
  intros (Hinc & Hend & Hz) Hok Hgt HPQ Hlen32 Hcompat.
  assert (HP32 : 0 <= P <= MaxU32) by lia.
  unfold update_body.
  replace (del =? 0) with false by (symmetry; apply Z.eqb_neq; lia).
  change (0 >? 0) with false. cbv iota.
  destruct (inc_decomp _ _ _ Hinc) as (HL & HLo & HR). cbn [fst] in *.
  set (prevOrigin := match last_opt L with Some p => p | None => (ok, ov) end).
  fold Q in Hcompat |- *.
  pose proof (take_drop Q R) as ER.
  assert (HD : inc ok (take_lt Q R)) by (apply take_lt_inc; auto).
  assert (HDk : klast ok (take_lt Q R) < Q) by (apply take_lt_lt; auto; unfold Q; lia).
  destruct (drop_lt Q R) as [|[sk sv] S'] eqn:ES.
  { exfalso. assert (klast ok R < Q) by (apply drop_nil_klast; auto; unfold Q; lia).
    unfold slen in HPQ. rewrite klast_app in HPQ. simpl in HPQ. unfold Q in *. lia. }
  rewrite (first_loop t P 0 del Hdel HP32 R ok ov prevOrigin L [] (sk, sv) S' Hok HR Hgt ES Hcompat).
  cbn [app]. fold Q.
  pose proof (drop_lt_ge Q R) as HSk. rewrite ES in HSk. simpl in HSk.
  set (D := take_lt Q R) in *.
  assert (HincS : inc (klast ok D) ((sk, sv) :: S')).
  { rewrite ER in HR. apply inc_app in HR. tauto. }
  destruct HincS as [HDS HS'].
  assert (HendS : vlast sv S' = TreeEnd).
  { rewrite vlast_app in Hend. simpl in Hend. rewrite ER in Hend. rewrite vlast_app in Hend. exact Hend. }
  assert (HlenS : slen (L ++ (ok, ov) :: R) = klast sk S').
  { unfold slen. rewrite klast_app. simpl. rewrite ER, klast_app. reflexivity. }
  set (LL := if ok <? P then L ++ [(ok, ov)] else L) in *.
  pose proof (LL_inc L R ok ov P Hinc) as HLLinc. fold LL in HLLinc.
  pose proof (LL_klast L R ok ov P Hinc Hok) as HLLk. fold LL in HLLk.
  pose proof (LL_nil L R ok ov P Hinc Hok Hz) as HLLnil. fold LL in HLLnil.
  pose proof (LL_head L R ok ov P Hinc Hok Hgt Hz) as HLLhead. fold LL in HLLhead.
  pose proof (LL_val L R ok ov P Hinc Hok Hgt Hz) as HLLval. fold LL in HLLval.
  (* value of the original state at or after Q *)
  assert (Hright : forall j, Q <= j -> sval (L ++ (ok, ov) :: R) j = vfrom (vlast ov D) ((sk, sv) :: S') j).
  { intros j Hj. rewrite ER. apply sval_right; [rewrite <- ER; auto| lia]. }
  (* the surviving nodes keep uint32 keys after the shift *)
  assert (HkS : keys_in Q (klast sk S') ((sk, sv) :: S')).
  { apply (keys_in_inc _ _ (sk - 1)); [simpl; split; [lia|auto]| lia | simpl; lia]. }
  destruct (match D with [] => special P 0 del (ok, ov) prevOrigin (sk, sv) S' | _ => false end) eqn:Esp.
  - (* the boundary node after the deleted range is fused away *)
    destruct D as [|d0 D'] eqn:ED; [|discriminate].
    unfold special in Esp. cbn [fst snd] in Esp. fold Q in Esp.
    apply andb_prop in Esp. destruct Esp as [Esp HS'ne].
    apply andb_prop in Esp. destruct Esp as [Esp Hpv].
    apply andb_prop in Esp. destruct Esp as [Esp HokP].
    apply andb_prop in Esp. destruct Esp as [HskQ _].
    apply Z.eqb_eq in HskQ, HokP, Hpv. subst sk. subst ok.
    destruct S' as [|[s2k s2v] S'']; [discriminate|]. clear HS'ne.
    cbv iota beta. rewrite (prepare_eq t P 0 del _ _ _ _ Ht32 HP32). unfold prepare_i.
    change (0 >? 0) with false. cbn [andb]. cbv iota beta.
    rewrite (finish_eq t P 0 del _ _ _ _ _ Q (klast Q ((s2k, s2v) :: S'')) Ht32 HP32)
      by (try (eapply keys_in_tail; exact HkS); unfold slen in *; cbn [klast] in *; unfold Q in *; lia).
    unfold finish_i. cbv zeta. change (0 >? 0) with false. cbv iota.
    cbn [fst snd andb]. destruct HS' as [Hs2 HS''].
    subst LL. rewrite Z.ltb_irrefl in *.
    replace (Q >? P) with true by (symmetry; apply Z.gtb_lt; unfold Q; lia).
    replace (Q + (0 - del)) with P by (unfold Q; lia).
    rewrite Z.gtb_ltb, Z.ltb_irrefl, Z.eqb_refl. cbn [andb orb].
    replace (negb (sv =? snd prevOrigin)) with false
      by (symmetry; apply negb_false_iff; apply Z.eqb_eq; auto).
    cbn [orb].
    assert (HshS : inc (P + 0) (shift (0 - del) ((s2k, s2v) :: S''))).
    { simpl. split; [unfold Q in *; lia|]. apply (inc_shift s2k S'' (0 - del)); auto. }
    destruct (Z.eqb_spec P 0) as [HP00|HPn0].
    + (* deletion at the very beginning *)
      assert (L = []).
      { destruct L as [|x L']; auto. exfalso. destruct Hz as (v & r0 & E). simpl in E. inversion E; subst.
        simpl in HL. pose proof (klast_ge _ _ (proj2 HL)). simpl in HLo. lia. }
      subst L. rewrite !app_nil_l in *. subst P.
      assert (E1 : insert 0 sv (shift (0 - del) ((s2k, s2v) :: S'')) = (0, sv) :: shift (0 - del) ((s2k, s2v) :: S'')).
      { simpl. zb; auto; exfalso; unfold Q in *; lia. }
      rewrite E1. eexists. split; [reflexivity|].
      assert (Hinc' : inc (-1) ((0, sv) :: shift (0 - del) ((s2k, s2v) :: S''))).
      { simpl. split; [lia|]. split; [unfold Q in *; lia|]. apply (inc_shift s2k S'' (0 - del)); auto. }
      split; [split; [exact Hinc'|split]|split].
      * simpl. rewrite vlast_shift. simpl in HendS. exact HendS.
      * eauto.
      * rewrite HlenS. unfold slen. rewrite shift_cons. cbn [klast]. rewrite (klast_shift s2k S'' (0 - del)). lia.
      * intros i Hi. unfold spec_val. replace (i <? 0) with false by (symmetry; apply Z.ltb_ge; lia).
        replace (i <? 0 + 0) with false by (symmetry; apply Z.ltb_ge; lia).
        rewrite Hright by (unfold Q; lia). unfold sval. rewrite shift_cons. cbn [vfrom vlast].
        rewrite vfrom_shift. unfold Q in *. fin.
    + (* in the middle: the previous interval simply continues *)
      destruct (last_opt_cases L) as [[HLn _]|(p & Hp & Hpv' & Hpk & HLne)].
      { exfalso. subst L. destruct Hz as (v & r0 & E). simpl in E. inversion E. lia. }
      assert (Hprev : prevOrigin = p) by (unfold prevOrigin; rewrite Hp; reflexivity).
      rewrite Hprev in Hpv.
      eexists. split; [reflexivity|].
      assert (Hinc' : inc (-1) (L ++ shift (0 - del) ((s2k, s2v) :: S''))).
      { apply inc_app. split; auto. simpl. split; [unfold Q in *; lia|]. apply (inc_shift s2k S'' (0 - del)); auto. }
      split; [split; [exact Hinc'|split]|split].
      * rewrite vlast_app. simpl. rewrite vlast_shift. simpl in HendS. exact HendS.
      * destruct L as [|x L']; [congruence|]. destruct Hz as (v & r0 & E). simpl in E. inversion E; subst. simpl. eauto.
      * rewrite HlenS. unfold slen. rewrite klast_app, shift_cons. cbn [klast]. rewrite (klast_shift s2k S'' (0 - del)). lia.
      * intros i Hi. unfold spec_val. rewrite shift_cons in *. rewrite sval_L_cons by exact Hinc'.
        rewrite vfrom_shift.
        destruct (Z.ltb_spec i P).
        -- rewrite HLLval by lia. unfold Q in *. fin.
        -- replace (i <? P + 0) with false by (symmetry; apply Z.ltb_ge; lia).
           rewrite Hright by (unfold Q; lia). cbn [vfrom vlast].
           rewrite (Hpv' 0). unfold Q in *. fin.
  - (* general case: origin1 = last deleted node or the containing node *)
    cbv iota beta. rewrite (prepare_eq t P 0 del _ _ _ _ Ht32 HP32). unfold prepare_i.
    change (0 >? 0) with false. cbn [andb]. cbv iota beta.
    rewrite (finish_eq t P 0 del _ _ _ _ _ Q (klast sk S') Ht32 HP32)
      by (try exact HkS; unfold slen in *; cbn [klast] in *; unfold Q in *; lia).
    unfold finish_i. cbv zeta. change (0 >? 0) with false. cbv iota.
    destruct (last_fst_snd D ok ov) as [Hdk Hdv].
    cbn [fst snd]. rewrite Hdk, Hdv. clear Hdk Hdv.
    set (dk := klast ok D) in *. set (dv := vlast ov D) in *.
    rewrite shift_cons.
    assert (HshS : inc (sk + (0 - del)) (shift (0 - del) S')) by (apply inc_shift; auto).
    assert (Hdk_cases : (D = [] /\ dk = ok) \/ (D <> [] /\ P < dk)).
    { destruct D as [|d0 D'] eqn:ED'; [left; auto|right]. split; [congruence|].
      apply (first_gt_klast P (d0 :: D') ((sk, sv) :: S') ok); auto; try congruence. }
    assert (Hcase : ((P >? (if dk >? P then dk + (0 - del) else dk)) &&
                     match last_opt LL with Some p2 => negb (snd p2 =? dv) | None => false end
                     || (P =? (if dk >? P then dk + (0 - del) else dk)) && negb (dv =? snd prevOrigin)
                     || (P =? 0)) = false -> vlast 0 LL = dv /\ LL <> []).
    { intros Hc. apply orb_false_iff in Hc. destruct Hc as [Hc Hc0].
      apply orb_false_iff in Hc. destruct Hc as [Hc1 Hc2].
      apply Z.eqb_neq in Hc0.
      assert (HLLne : LL <> []) by (intros E; apply HLLnil in E; lia).
      split; auto.
      destruct (last_opt_cases LL) as [[E _]|(p2 & Hp2 & Hp2v & _ & _)]; [congruence|].
      rewrite Hp2 in Hc1. rewrite (Hp2v 0).
      destruct Hdk_cases as [[HDn Hdko]|[HDne HdkP]].
      - rewrite Hdko in *. replace (ok >? P) with false in * by (symmetry; rewrite Z.gtb_ltb; apply Z.ltb_ge; lia).
        destruct (Z.ltb_spec ok P).
        + (* containing interval kept: its value is dv *)
          unfold LL in Hp2. replace (ok <? P) with true in Hp2 by (symmetry; apply Z.ltb_lt; lia).
          rewrite last_opt_app in Hp2. assert (Ep2 : p2 = (ok, ov)) by congruence. rewrite Ep2.
          unfold dv. rewrite HDn. reflexivity.
        + replace (P =? ok) with true in Hc2 by (symmetry; apply Z.eqb_eq; lia). cbn [andb] in Hc2.
          apply negb_false_iff in Hc2. apply Z.eqb_eq in Hc2.
          unfold LL in Hp2. replace (ok <? P) with false in Hp2 by (symmetry; apply Z.ltb_ge; lia).
          unfold prevOrigin in Hc2. rewrite Hp2 in Hc2. auto.
      - replace (dk >? P) with true in * by (symmetry; rewrite Z.gtb_ltb; apply Z.ltb_lt; lia).
        replace (P >? dk + (0 - del)) with true in Hc1
          by (symmetry; rewrite Z.gtb_ltb; apply Z.ltb_lt; unfold dk, Q in *; lia).
        cbn [andb] in Hc1. apply negb_false_iff in Hc1. apply Z.eqb_eq in Hc1. auto. }
    match goal with |- context [if ?c then insert P dv ?x else ?y] => destruct c eqn:Ec end.
    + (* the continuation node is (re)inserted at pos, or it is already there *)
      destruct (Z.eq_dec sk Q) as [HskQ|HskQ].
      * (* survivor starts exactly at the end of the deleted range: insert is a no-op *)
        assert (E1 : insert P dv (LL ++ (sk + (0 - del), sv) :: shift (0 - del) S') =
                     LL ++ (sk + (0 - del), sv) :: shift (0 - del) S').
        { replace (sk + (0 - del)) with P by (unfold Q in *; lia). apply (insert_dup _ _ _ _ _ (-1)); auto. }
        rewrite E1. eexists. split; [reflexivity|].
        assert (Hinc' : inc (-1) (LL ++ (sk + (0 - del), sv) :: shift (0 - del) S')).
        { apply inc_app. split; auto. cbn [inc]. split; [unfold Q in *; lia|auto]. }
        split; [split; [exact Hinc'|split]|split].
        -- rewrite vlast_app. cbn [vlast]. rewrite vlast_shift. exact HendS.
        -- destruct LL as [|x LL'] eqn:ELL.
           ++ assert (P = 0) by auto. subst P. replace (sk + (0 - del)) with 0 by (unfold Q in *; lia). simpl. eauto.
           ++ apply HLLhead. congruence.
        -- rewrite HlenS. unfold slen. rewrite klast_app. cbn [klast]. rewrite (klast_shift sk S' (0 - del)). lia.
        -- intros i Hi. unfold spec_val. rewrite sval_L_cons by exact Hinc'. rewrite vfrom_shift.
           destruct (Z.ltb_spec i P).
           ++ rewrite HLLval by lia. unfold Q in *. fin.
           ++ replace (i <? P + 0) with false by (symmetry; apply Z.ltb_ge; lia).
              rewrite Hright by (unfold Q; lia). cbn [vfrom]. unfold Q in *. fin.
      * assert (E1 : insert P dv (LL ++ (sk + (0 - del), sv) :: shift (0 - del) S') =
                     LL ++ (P, dv) :: (sk + (0 - del), sv) :: shift (0 - del) S').
        { apply (insert_middle _ _ _ _ (-1)); auto; try lia. cbn [inc]. split; [unfold Q in *; lia|auto]. }
        rewrite E1. eexists. split; [reflexivity|].
        assert (Hinc' : inc (-1) (LL ++ (P, dv) :: (sk + (0 - del), sv) :: shift (0 - del) S')).
        { apply inc_app. split; auto. cbn [inc]. repeat split; auto; unfold Q in *; lia. }
        split; [split; [exact Hinc'|split]|split].
        -- rewrite vlast_app. cbn [vlast]. rewrite vlast_shift. exact HendS.
        -- destruct LL as [|x LL'] eqn:ELL.
           ++ assert (P = 0) by auto. subst P. simpl. eauto.
           ++ apply HLLhead. congruence.
        -- rewrite HlenS. unfold slen. rewrite klast_app. cbn [klast]. rewrite (klast_shift sk S' (0 - del)). lia.
        -- intros i Hi. unfold spec_val. rewrite sval_L_cons by exact Hinc'. cbn [vfrom]. rewrite vfrom_shift.
           destruct (Z.ltb_spec i P).
           ++ rewrite HLLval by lia. unfold Q in *. fin.
           ++ replace (i <? P + 0) with false by (symmetry; apply Z.ltb_ge; lia).
              rewrite Hright by (unfold Q; lia). cbn [vfrom]. fold dv. unfold Q in *. fin.
    + (* nothing is inserted: the interval before pos already carries the continuing value *)
      destruct (Hcase eq_refl) as [HvLL HLLne].
      eexists. split; [reflexivity|].
      assert (Hinc' : inc (-1) (LL ++ (sk + (0 - del), sv) :: shift (0 - del) S')).
      { apply inc_app. split; auto. cbn [inc]. split; [unfold Q in *; lia|auto]. }
      split; [split; [exact Hinc'|split]|split].
      * rewrite vlast_app. cbn [vlast]. rewrite vlast_shift. exact HendS.
      * apply HLLhead. auto.
      * rewrite HlenS. unfold slen. rewrite klast_app. cbn [klast]. rewrite (klast_shift sk S' (0 - del)). lia.
      * intros i Hi. unfold spec_val. rewrite sval_L_cons by exact Hinc'. rewrite vfrom_shift.
        destruct (Z.ltb_spec i P).
        -- rewrite HLLval by lia. unfold Q in *. fin.
        -- replace (i <? P + 0) with false by (symmetry; apply Z.ltb_ge; lia).
           rewrite Hright by (unfold Q; lia). cbn [vfrom]. fold dv. rewrite HvLL. unfold Q in *. fin.
Qed.
End PureDel.
