(* C01_dense: groupSparseHistory (model in Dense.v) computes, for every sparse history, in every cell the
   sum of the deltas booked at ticks of samples <= s for births in band b - for sampling < = > granularity. *)
From Coq Require Import List ZArith Lia Bool Permutation Sorted.
From Herc Require Import Burndown.Base Burndown.Dense.
Import ListNotations.
Open Scope Z_scope.

(* ---------- get_at / set_at ---------- *)
Lemma get_at_Some {A} (l : list A) i : 0 <= i < Z.of_nat (length l) -> exists x, get_at l i = Some x.
Proof.
  intros Hi. unfold get_at. destruct (Z.ltb_spec i 0); [lia|].
  destruct (nth_error l (Z.to_nat i)) eqn:E; [eauto|].
  apply nth_error_None in E. lia.
Qed.

Lemma get_at_None {A} (l : list A) i : ~ (0 <= i < Z.of_nat (length l)) -> get_at l i = None.
Proof.
  intros Hi. unfold get_at. destruct (Z.ltb_spec i 0); [reflexivity|].
  apply nth_error_None. lia.
Qed.

Lemma get_at_range {A} (l : list A) i x : get_at l i = Some x -> 0 <= i < Z.of_nat (length l).
Proof.
  unfold get_at. destruct (Z.ltb_spec i 0); [discriminate|]. intros E.
  assert (nth_error l (Z.to_nat i) <> None) by congruence. apply nth_error_Some in H0. lia.
Qed.

Lemma set_nat_length {A} (l : list A) i x : length (set_nat l i x) = length l.
Proof. revert i; induction l as [|y l IH]; intros [|i]; cbn; auto. Qed.

Lemma set_nat_same {A} (l : list A) i x : (i < length l)%nat -> nth_error (set_nat l i x) i = Some x.
Proof. revert i; induction l as [|y l IH]; intros [|i] Hi; cbn in *; try lia; auto. apply IH. lia. Qed.

Lemma set_nat_other {A} (l : list A) i j x : i <> j -> nth_error (set_nat l i x) j = nth_error l j.
Proof. revert i j; induction l as [|y l IH]; intros [|i] [|j] Hij; cbn; auto; try congruence. Qed.

Lemma set_at_Some {A} (l : list A) i x : 0 <= i < Z.of_nat (length l) ->
  exists l', set_at l i x = Some l' /\ length l' = length l /\ get_at l' i = Some x /\
             (forall j, j <> i -> get_at l' j = get_at l j).
Proof.
  intros Hi. unfold set_at. destruct (Z.ltb_spec i 0); [lia|].
  destruct (Nat.ltb_spec (Z.to_nat i) (length l)); [|lia].
  eexists; split; [reflexivity|]. split; [apply set_nat_length|]. split.
  - unfold get_at. destruct (Z.ltb_spec i 0); [lia|]. apply set_nat_same; auto.
  - intros j Hj. unfold get_at. destruct (Z.ltb_spec j 0); auto. apply set_nat_other. lia.
Qed.

Definition zget (l : list Z) (i : Z) : Z := match get_at l i with Some v => v | None => 0 end.

Lemma cell_zget M s b row : get_at M s = Some row -> cell M s b = zget row b.
Proof. intros E. unfold cell, zget. rewrite E. reflexivity. Qed.

(* ---------- add_row ---------- *)
Lemma add_row_spec G sample row :
  (forall tv, In tv row -> 0 <= Z.quot (fst tv) G < Z.of_nat (length sample)) ->
  exists s', add_row G sample row = Some s' /\ length s' = length sample /\
             forall b, 0 <= b < Z.of_nat (length sample) -> zget s' b = zget sample b + row_band_sum G b row.
Proof.
  revert sample. induction row as [|[t v] r IH]; intros sample Hin.
  - exists sample. cbn. split; auto. split; auto. intros. unfold row_band_sum. cbn. lia.
  - cbn [add_row].
    assert (Ht : 0 <= Z.quot t G < Z.of_nat (length sample)) by (apply (Hin (t, v)); left; auto).
    destruct (get_at_Some sample _ Ht) as [old Eo]. rewrite Eo.
    destruct (set_at_Some sample _ (old + v) Ht) as (s1 & E1 & L1 & Gs & Go). rewrite E1.
    destruct (IH s1) as (s' & E' & L' & Hs').
    { intros tv Htv. rewrite L1. apply Hin. right; auto. }
    exists s'. split; auto. split; [congruence|]. intros b Hb.
    rewrite Hs' by (rewrite L1; auto). unfold row_band_sum. cbn [map sum_z fold_right fst snd].
    fold (sum_z (map (fun tv : Z * Z => if Z.quot (fst tv) G =? b then snd tv else 0) r)).
    destruct (Z.eqb_spec (Z.quot t G) b) as [<-|Hne].
    + unfold zget at 1. rewrite Gs. unfold zget. rewrite Eo. lia.
    + unfold zget at 1. rewrite (Go b) by congruence. fold (zget sample b). lia.
Qed.

(* ---------- shapes ---------- *)
Definition shape (M : dense) (samples bands : Z) : Prop :=
  Z.of_nat (length M) = samples /\ forall row, In row M -> Z.of_nat (length row) = bands.

Lemma get_at_In {A} (l : list A) i x : get_at l i = Some x -> In x l.
Proof. unfold get_at. destruct (i <? 0); [discriminate|]. apply nth_error_In. Qed.

Lemma In_get_at {A} (l : list A) x : In x l -> exists i, get_at l i = Some x.
Proof.
  intros H. apply In_nth_error in H. destruct H as [n E]. exists (Z.of_nat n).
  unfold get_at. destruct (Z.ltb_spec (Z.of_nat n) 0); [lia|]. rewrite Nat2Z.id. auto.
Qed.

Lemma shape_set M samples bands i row M' :
  shape M samples bands -> Z.of_nat (length row) = bands ->
  length M' = length M -> get_at M' i = Some row -> (forall j, j <> i -> get_at M' j = get_at M j) ->
  shape M' samples bands.
Proof.
  intros [HL HR] Hrow HL' Hi Ho. split; [lia|]. intros r Hr.
  destruct (In_get_at _ _ Hr) as [j Ej]. destruct (Z.eq_dec j i) as [->|Hne].
  - congruence.
  - rewrite Ho in Ej by auto. apply HR. eapply get_at_In; eauto.
Qed.

Lemma copy_row_same dst src : length dst = length src -> copy_row dst src = src.
Proof.
  revert src; induction dst as [|d dst IH]; intros [|s src] HL; cbn in *; try lia; auto.
  f_equal. apply IH. lia.
Qed.

(* ---------- copy_forward ---------- *)
Lemma copy_forward_spec samples bands state : Z.of_nat (length state) = bands ->
  forall n res i, shape res samples bands -> 0 <= i -> i + Z.of_nat n <= samples ->
  exists res', copy_forward res state i n = Some res' /\ shape res' samples bands /\
    (forall j, i <= j < i + Z.of_nat n -> get_at res' j = Some state) /\
    (forall j, ~ (i <= j < i + Z.of_nat n) -> get_at res' j = get_at res j).
Proof.
  intros Hst. induction n as [|n IH]; intros res i Hsh Hi Hn.
  - exists res. cbn. split; auto. split; auto. split; intros; [lia|auto].
  - cbn [copy_forward]. destruct Hsh as [HL HR].
    assert (Hir : 0 <= i < Z.of_nat (length res)) by lia.
    destruct (get_at_Some res i Hir) as [dst Ed]. rewrite Ed.
    assert (Hdst : Z.of_nat (length dst) = bands) by (apply HR; eapply get_at_In; eauto).
    rewrite copy_row_same by lia.
    destruct (set_at_Some res i state Hir) as (res1 & E1 & L1 & G1 & O1). rewrite E1.
    assert (Hsh1 : shape res1 samples bands) by (apply (shape_set res samples bands i state res1); auto; split; auto).
    destruct (IH res1 (i + 1) Hsh1) as (res' & E' & Hsh' & Hin & Hout); [lia|lia|].
    exists res'. split; auto. split; auto. split.
    + intros j Hj. destruct (Z.eq_dec j i) as [->|Hne].
      * rewrite Hout by lia. auto.
      * apply Hin. lia.
    + intros j Hj. rewrite Hout by lia. apply O1. lia.
Qed.

Lemma sum_z_app l1 l2 : sum_z (l1 ++ l2) = sum_z l1 + sum_z l2.
Proof. unfold sum_z. induction l1 as [|x l IH]; cbn [app fold_right]; lia. Qed.

(* ---------- the loop ---------- *)
Section Loop.
  Variables (G S : Z) (H : sparse) (last : Z).
  Hypothesis HG : 1 <= G.
  Hypothesis HS : 1 <= S.
  Let samples := last / S + 1.
  Let bands := last / G + 1.

  Definition contrib (t b : Z) : Z := row_band_sum G b (lookup_tick H t).
  Definition acc (done : list Z) (s b : Z) : Z :=
    sum_z (map (fun t => if Z.quot t S <=? s then contrib t b else 0) done).
  Definition pmax (done : list Z) : Z := fold_right (fun t m => Z.max (Z.quot t S) m) 0 done.

  Lemma acc_app done t s b : acc (done ++ [t]) s b = acc done s b + (if Z.quot t S <=? s then contrib t b else 0).
  Proof.
    unfold acc. rewrite map_app, sum_z_app. cbn [map sum_z fold_right]. lia.
  Qed.

  Lemma pmax_app done t : pmax (done ++ [t]) = Z.max (pmax done) (Z.quot t S).
  Proof. unfold pmax. induction done as [|x l IH]; cbn in *; lia. Qed.

  Lemma pmax_ge done t : In t done -> Z.quot t S <= pmax done.
  Proof. unfold pmax. induction done as [|x l IH]; cbn; [tauto|]. intros [->|Hin]; [lia|]. specialize (IH Hin). lia. Qed.

  Lemma pmax_nonneg done : 0 <= pmax done.
  Proof. unfold pmax. induction done as [|x l IH]; cbn; lia. Qed.

  Lemma pmax_le done B : 0 <= B -> (forall t, In t done -> Z.quot t S <= B) -> pmax done <= B.
  Proof.
    intros HB. unfold pmax. induction done as [|x l IH]; cbn; intros Hall; [lia|].
    assert (Z.quot x S <= B) by (apply Hall; left; auto).
    assert (fold_right (fun t m => Z.max (Z.quot t S) m) 0 l <= B) by (apply IH; intros; apply Hall; right; auto).
    lia.
  Qed.

  (* rows above pmax do not see anything new from [done] *)
  Lemma acc_above done s b : pmax done <= s -> acc done s b = acc done (pmax done) b.
  Proof.
    intros Hs. unfold acc. f_equal. apply map_ext_in. intros t Ht.
    pose proof (pmax_ge done t Ht).
    destruct (Z.leb_spec (Z.quot t S) s), (Z.leb_spec (Z.quot t S) (pmax done)); auto; lia.
  Qed.

  Definition Inv (done : list Z) (res : dense) : Prop :=
    shape res samples bands /\ pmax done < samples /\
    (forall s b, 0 <= s <= pmax done -> 0 <= b < bands -> cell res s b = acc done s b) /\
    (forall s b, pmax done < s < samples -> 0 <= b < bands -> cell res s b = 0).

  Definition tick_ok (t : Z) : Prop :=
    0 <= t <= last /\ forall tv, In tv (lookup_tick H t) -> 0 <= fst tv <= last.

  Lemma quot_div t d : 0 <= t -> 1 <= d -> Z.quot t d = t / d.
  Proof. intros. apply Z.quot_div_nonneg; lia. Qed.

  Lemma quot_bound t d : 0 <= t <= last -> 1 <= d -> 0 <= Z.quot t d <= last / d.
  Proof.
    intros Ht Hd. rewrite quot_div by lia. split.
    - apply Z.div_pos; lia.
    - apply Z.div_le_mono; lia.
  Qed.

  Lemma loop_step done res t :
    Inv done res -> tick_ok t -> pmax done <= Z.quot t S ->
    exists res', gsh_loop G S H [t] (pmax done) res = Some res' /\ Inv (done ++ [t]) res'.
  Proof.
    intros (Hsh & Hp & Hlow & Hhigh) [Ht Hrow] Hmono.
    pose proof (pmax_nonneg done) as Hp0.
    pose proof (quot_bound t S Ht HS) as Hsi.
    set (si := Z.quot t S) in *.
    assert (Hsis : 0 <= si < samples) by (unfold samples; lia).
    cbn [gsh_loop]. fold si.
    (* phase 1: copy forward *)
    assert (P1 : exists res1, (if pmax done <? si
                   then match get_at res (pmax done) with
                        | Some state => match copy_forward res state (pmax done + 1) (Z.to_nat (si - pmax done)) with
                                        | Some r => Some (r, si) | None => None end
                        | None => None end
                   else Some (res, pmax done)) = Some (res1, si) /\
                 shape res1 samples bands /\
                 (forall s b, 0 <= s <= si -> 0 <= b < bands -> cell res1 s b = acc done s b) /\
                 (forall s b, si < s < samples -> 0 <= b < bands -> cell res1 s b = 0)).
    { destruct (Z.ltb_spec (pmax done) si) as [Hlt|Hge].
      - destruct Hsh as [HL HR].
        assert (Hpr : 0 <= pmax done < Z.of_nat (length res)) by lia.
        destruct (get_at_Some res _ Hpr) as [state Es]. rewrite Es.
        assert (Hstl : Z.of_nat (length state) = bands) by (apply HR; eapply get_at_In; eauto).
        destruct (copy_forward_spec samples bands state Hstl (Z.to_nat (si - pmax done)) res (pmax done + 1))
          as (res1 & E1 & Hsh1 & Hin & Hout); [split; auto|lia|lia|].
        rewrite E1. exists res1. split; auto. split; auto. split.
        + intros s b Hs Hb. destruct (Z.le_gt_cases s (pmax done)) as [Hle|Hgt].
          * unfold cell. rewrite Hout by lia. apply (Hlow s b); lia.
          * rewrite (cell_zget res1 s b state) by (apply Hin; lia).
            rewrite <- (cell_zget res (pmax done) b state Es).
            rewrite Hlow by lia. symmetry. apply acc_above. lia.
        + intros s b Hs Hb. unfold cell. rewrite Hout by lia. apply (Hhigh s b); lia.
      - assert (si = pmax done) by lia. exists res. rewrite <- H0. split; auto. split; auto. split.
        + intros s b Hs Hb. apply Hlow; lia.
        + intros s b Hs Hb. apply Hhigh; lia. }
    destruct P1 as (res1 & E1 & Hsh1 & Hlow1 & Hhigh1). rewrite E1.
    (* phase 2: add the row of this tick *)
    destruct Hsh1 as [HL1 HR1].
    assert (Hsir : 0 <= si < Z.of_nat (length res1)) by lia.
    destruct (get_at_Some res1 si Hsir) as [sample Esm]. rewrite Esm.
    assert (Hsml : Z.of_nat (length sample) = bands) by (apply HR1; eapply get_at_In; eauto).
    destruct (add_row_spec G sample (lookup_tick H t)) as (sample' & Ea & La & Hadd).
    { intros tv Htv. pose proof (quot_bound (fst tv) G (Hrow tv Htv) HG). unfold bands in Hsml. lia. }
    rewrite Ea.
    destruct (set_at_Some res1 si sample' Hsir) as (res2 & E2 & L2 & G2 & O2). rewrite E2.
    exists res2. split; auto.
    assert (Hpm : pmax (done ++ [t]) = si) by (rewrite pmax_app; fold si; lia).
    unfold Inv. rewrite Hpm. split.
    { apply (shape_set res1 samples bands si sample' res2); auto; [split; auto|lia]. }
    split; [lia|]. split.
    - intros s b Hs Hb. rewrite acc_app. fold si. destruct (Z.eq_dec s si) as [->|Hne].
      + rewrite (cell_zget res2 si b sample' G2). rewrite Hadd by lia.
        rewrite <- (cell_zget res1 si b sample Esm). rewrite Hlow1 by lia.
        destruct (Z.leb_spec si si); [|lia]. reflexivity.
      + unfold cell. rewrite O2 by auto. fold (cell res1 s b). rewrite Hlow1 by lia.
        destruct (Z.leb_spec si s); [lia|]. lia.
    - intros s b Hs Hb. unfold cell. rewrite O2 by lia. apply (Hhigh1 s b); lia.
  Qed.

  Lemma gsh_loop_cons t rest p res :
    gsh_loop G S H (t :: rest) p res =
    match gsh_loop G S H [t] p res with
    | Some res' => gsh_loop G S H rest (if p <? Z.quot t S then Z.quot t S else p) res'
    | None => None
    end.
  Proof.
    cbn [gsh_loop].
    destruct (p <? Z.quot t S).
    - destruct (get_at res p); auto.
      destruct (copy_forward res l (p + 1) (Z.to_nat (Z.quot t S - p))); auto.
      destruct (get_at l0 (Z.quot t S)); auto.
      destruct (add_row G l1 (lookup_tick H t)); auto.
      destruct (set_at l0 (Z.quot t S) l2); auto.
    - destruct (get_at res (Z.quot t S)); auto.
      destruct (add_row G l (lookup_tick H t)); auto.
      destruct (set_at res (Z.quot t S) l0); auto.
  Qed.

  Lemma loop_all ticks : forall done res,
    Inv done res -> (forall t, In t ticks -> tick_ok t) ->
    StronglySorted Z.le ticks -> (forall t' t, In t' done -> In t ticks -> t' <= t) ->
    (forall t, In t done -> 0 <= t) ->
    exists res', gsh_loop G S H ticks (pmax done) res = Some res' /\ Inv (done ++ ticks) res'.
  Proof.
    induction ticks as [|t rest IH]; intros done res HI Hok Hs Hle Hd0.
    - exists res. rewrite app_nil_r. auto.
    - assert (Htok : tick_ok t) by (apply Hok; left; auto).
      assert (Hmono : pmax done <= Z.quot t S).
      { destruct Htok as [Ht _]. apply pmax_le.
        - rewrite Z.quot_div_nonneg by lia. apply Z.div_pos; lia.
        - intros t' Hin. pose proof (Hd0 t' Hin). rewrite !Z.quot_div_nonneg by lia.
          apply Z.div_le_mono; [lia|]. apply Hle; [auto|left; auto]. }
      destruct (loop_step done res t HI Htok Hmono) as (res1 & E1 & HI1).
      rewrite gsh_loop_cons, E1.
      replace (if pmax done <? Z.quot t S then Z.quot t S else pmax done) with (pmax (done ++ [t])).
      2:{ rewrite pmax_app. destruct (Z.ltb_spec (pmax done) (Z.quot t S)); lia. }
      inversion Hs as [|? ? Hs' Hall]; subst.
      destruct (IH (done ++ [t]) res1 HI1) as (res' & E' & HI'); auto.
      + intros; apply Hok; right; auto.
      + intros t' t2 Hin1 Hin2. apply in_app_or in Hin1. destruct Hin1 as [Hin1|[<-|[]]].
        * apply Hle; [auto|right; auto].
        * rewrite Forall_forall in Hall. apply Hall; auto.
      + intros t2 Hin. apply in_app_or in Hin. destruct Hin as [Hin|[<-|[]]]; [auto|]. destruct Htok; lia.
      + exists res'. rewrite <- app_assoc in HI'. auto.
  Qed.
End Loop.

(* ---------- sorting ---------- *)
Lemma insert_sorted_perm x l : Permutation (x :: l) (insert_sorted x l).
Proof.
  induction l as [|y l IH]; cbn; auto. destruct (x <=? y); auto.
  eapply perm_trans; [apply perm_swap|]. constructor. auto.
Qed.

Lemma sort_z_perm l : Permutation l (sort_z l).
Proof.
  induction l as [|x l IH]; cbn; auto.
  eapply perm_trans; [|apply insert_sorted_perm]. constructor. auto.
Qed.

Lemma insert_sorted_sorted x l : StronglySorted Z.le l -> StronglySorted Z.le (insert_sorted x l).
Proof.
  induction 1 as [|y l Hs IH Hall]; cbn.
  - constructor; constructor.
  - destruct (Z.leb_spec x y).
    + constructor; [constructor; auto|]. constructor; auto.
      rewrite Forall_forall in *. intros z Hz. specialize (Hall z Hz). lia.
    + constructor; auto. rewrite Forall_forall in *. intros z Hz.
      apply (Permutation_in _ (Permutation_sym (insert_sorted_perm x l))) in Hz.
      destruct Hz as [<-|Hz]; [lia|auto].
Qed.

Lemma sort_z_sorted l : StronglySorted Z.le (sort_z l).
Proof. induction l as [|x l IH]; cbn; [constructor|]. apply insert_sorted_sorted. auto. Qed.

Lemma last_z_app l x d : last_z (l ++ [x]) d = x.
Proof.
  induction l as [|y l IH]; cbn; auto. destruct (l ++ [x]) eqn:E; [destruct l; discriminate|]. auto.
Qed.

Lemma last_z_in l d : l <> [] -> In (last_z l d) l.
Proof.
  induction l as [|y l IH]; [congruence|]. intros _. destruct l as [|z l]; [left; auto|].
  right. apply IH. discriminate.
Qed.

Lemma last_z_max l d : StronglySorted Z.le l -> forall x, In x l -> x <= last_z l d.
Proof.
  induction 1 as [|y l Hs IH Hall]; [cbn; tauto|]. intros x [<-|Hin].
  - destruct l as [|z l]; [cbn; lia|]. rewrite Forall_forall in Hall.
    change (last_z (y :: z :: l) d) with (last_z (z :: l) d).
    apply Hall. apply last_z_in. discriminate.
  - destruct l as [|z l]; [destruct Hin|]. change (last_z (y :: z :: l) d) with (last_z (z :: l) d). auto.
Qed.

Lemma pmax_last S l d : 1 <= S -> StronglySorted Z.le l -> l <> [] -> (forall x, In x l -> 0 <= x) ->
  pmax S l = Z.quot (last_z l d) S.
Proof.
  intros HS Hs Hne H0.
  assert (Hup : forall x, In x l -> Z.quot x S <= Z.quot (last_z l d) S).
  { intros x Hx. pose proof (last_z_max l d Hs x Hx). pose proof (H0 x Hx).
    rewrite !Z.quot_div_nonneg by lia. apply Z.div_le_mono; lia. }
  assert (Hin : In (last_z l d) l) by (apply last_z_in; auto).
  assert (Z.quot (last_z l d) S <= pmax S l) by (apply pmax_ge; auto).
  assert (pmax S l <= Z.quot (last_z l d) S).
  { apply pmax_le; auto. pose proof (H0 _ Hin). rewrite Z.quot_div_nonneg by lia. apply Z.div_pos; lia. }
  lia.
Qed.

(* ---------- from the key list to spec_cell ---------- *)
Lemma nodup_zb_NoDup l : nodup_zb l = true -> NoDup l.
Proof.
  induction l as [|x l IH]; cbn; [constructor|]. intros E. apply andb_prop in E. destruct E as [E1 E2].
  constructor; auto. intros Hin. apply negb_true_iff in E1.
  assert (existsb (Z.eqb x) l = true) by (apply existsb_exists; exists x; split; auto; apply Z.eqb_refl).
  congruence.
Qed.

Lemma lookup_tick_notin H t : ~ In t (map fst H) -> lookup_tick H t = [].
Proof.
  induction H as [|[t' row] r IH]; cbn; auto. intros Hn.
  destruct (Z.eqb_spec t' t); [tauto|]. apply IH. tauto.
Qed.

Lemma spec_cell_keys G S H s b : NoDup (map fst H) ->
  spec_cell G S H s b = acc G S H (map fst H) s b.
Proof.
  unfold spec_cell, acc, contrib. intros Hnd.
  assert (forall H0, (forall tr, In tr H0 -> lookup_tick H (fst tr) = snd tr) ->
    sum_z (map (fun tr => if Z.quot (fst tr) S <=? s then row_band_sum G b (snd tr) else 0) H0) =
    sum_z (map (fun t => if Z.quot t S <=? s then row_band_sum G b (lookup_tick H t) else 0) (map fst H0))) as Hgen.
  { induction H0 as [|tr r IH]; intros Hl; [reflexivity|].
    cbn [map]. unfold sum_z in *. cbn [fold_right]. rewrite IH by (intros; apply Hl; right; auto).
    rewrite (Hl tr) by (left; auto). reflexivity. }
  apply Hgen. clear Hgen.
  induction H as [|[t row] r IH]; cbn; [tauto|]. inversion Hnd; subst.
  intros tr [<-|Hin]; cbn.
  - rewrite Z.eqb_refl. auto.
  - destruct (Z.eqb_spec t (fst tr)) as [->|Hne].
    + exfalso. match goal with Hn : ~ In _ (map fst r) |- _ => apply Hn end. apply in_map. auto.
    + apply IH; auto.
Qed.

Lemma acc_perm G S H l1 l2 s b : Permutation l1 l2 -> acc G S H l1 s b = acc G S H l2 s b.
Proof.
  unfold acc, sum_z. induction 1; cbn [map fold_right]; lia.
Qed.

Lemma alloc_fixed_shape samples bands : 0 <= samples -> 0 <= bands -> shape (alloc_fixed samples bands) samples bands.
Proof.
  intros. unfold alloc_fixed. split.
  - rewrite repeat_length. lia.
  - intros row Hr. apply repeat_spec in Hr. subst. rewrite repeat_length. lia.
Qed.

Lemma alloc_fixed_cell samples bands s b : cell (alloc_fixed samples bands) s b = 0.
Proof.
  unfold cell, alloc_fixed. destruct (get_at _ s) as [row|] eqn:E; auto.
  apply get_at_In in E. apply repeat_spec in E. subst.
  destruct (get_at _ b) as [v|] eqn:E2; auto. apply get_at_In in E2. apply repeat_spec in E2. auto.
Qed.

Lemma sparse_wfb_spec H last : sparse_wfb H last = true ->
  forall tr, In tr H -> 0 <= fst tr <= last /\ forall tv, In tv (snd tr) -> 0 <= fst tv <= last.
Proof.
  unfold sparse_wfb. rewrite forallb_forall. intros Hw tr Hin. specialize (Hw tr Hin).
  apply andb_prop in Hw. destruct Hw as [Hw1 Hw3]. apply andb_prop in Hw1. destruct Hw1 as [Hw1 Hw2].
  split; [lia|]. rewrite forallb_forall in Hw3. intros tv Htv. specialize (Hw3 tv Htv). lia.
Qed.

Lemma lookup_tick_in H t : forall tv, In tv (lookup_tick H t) -> exists tr, In tr H /\ In tv (snd tr).
Proof.
  induction H as [|[t' row] r IH]; cbn; [tauto|]. intros tv. destruct (t' =? t).
  - intros Hin. exists (t', row). auto.
  - intros Hin. destruct (IH tv Hin) as (tr & ? & ?). eauto.
Qed.

Definition gsh_go (G S : Z) (H : sparse) (ticks : list Z) (last : Z) : result (dense * Z) :=
  match gsh_loop G S H ticks 0 (alloc_fixed (Z.quot last S + 1) (Z.quot last G + 1)) with
  | None => Panic PIndex
  | Some res => Ok (res, last)
  end.

Lemma gsh_unfold G S H lastTick : H <> [] ->
  group_sparse_history G S H lastTick =
  let ticks := sort_z (map fst H) in
  let maxt := last_z ticks 0 in
  if 0 <=? lastTick then
    if maxt <? lastTick then gsh_go G S H (ticks ++ [lastTick]) lastTick
    else if lastTick <? maxt then Panic PTicksCorruption
    else gsh_go G S H ticks lastTick
  else gsh_go G S H ticks maxt.
Proof. intros Hne. destruct H; [congruence|reflexivity]. Qed.

Definition dense_last (H : sparse) (lastTick : Z) : Z :=
  if 0 <=? lastTick then lastTick else last_z (sort_z (map fst H)) 0.

Theorem C01_dense : forall G S H lastTick,
  1 <= S -> 1 <= G -> H <> [] -> nodup_zb (map fst H) = true ->
  sparse_wfb H (dense_last H lastTick) = true ->
  exists M, group_sparse_history G S H lastTick = Ok (M, dense_last H lastTick) /\
    length M = Z.to_nat (dense_last H lastTick / S + 1) /\
    (forall row, In row M -> length row = Z.to_nat (dense_last H lastTick / G + 1)) /\
    (forall s b, 0 <= s <= dense_last H lastTick / S -> 0 <= b <= dense_last H lastTick / G ->
                 cell M s b = spec_cell G S H s b).
Proof.
  intros G S H lastTick HS HG Hne Hnd Hwf.
  set (last := dense_last H lastTick) in *.
  pose proof (sparse_wfb_spec H last Hwf) as Hw.
  pose proof (nodup_zb_NoDup _ Hnd) as HND.
  set (keys := sort_z (map fst H)).
  assert (Hperm : Permutation (map fst H) keys) by apply sort_z_perm.
  assert (Hsorted : StronglySorted Z.le keys) by apply sort_z_sorted.
  assert (Hkne : keys <> []).
  { intros E. rewrite E in Hperm. apply Permutation_sym, Permutation_nil in Hperm.
    destruct H; [congruence|discriminate]. }
  assert (Hkeys : forall t, In t keys -> 0 <= t <= last).
  { intros t Ht. apply (Permutation_in _ (Permutation_sym Hperm)) in Ht.
    apply in_map_iff in Ht. destruct Ht as (tr & <- & Hin). apply (Hw tr Hin). }
  assert (Hlast0 : 0 <= last).
  { pose proof (Hkeys _ (last_z_in keys 0 Hkne)). lia. }
  assert (Htok : forall t, 0 <= t <= last -> tick_ok H last t).
  { intros t Ht. split; auto. intros tv Htv. destruct (lookup_tick_in H t tv Htv) as (tr & Hin & Hin2).
    apply (Hw tr Hin); auto. }
  (* the list of ticks the loop runs over *)
  assert (Hticks : exists ticks, Permutation ticks (keys ++ (if last_z keys 0 <? last then [last] else [])) /\
            StronglySorted Z.le ticks /\ ticks <> [] /\ last_z ticks 0 = last /\
            (forall t, In t ticks -> 0 <= t <= last) /\
            group_sparse_history G S H lastTick = gsh_go G S H ticks last).
  { rewrite gsh_unfold by auto. cbv zeta. fold keys.
    unfold last, dense_last in *. fold keys in Hkeys, Hlast0 |- *.
    destruct (Z.leb_spec 0 lastTick) as [Hl|Hl].
    - destruct (Z.ltb_spec (last_z keys 0) lastTick) as [Hlt|Hge].
      + exists (keys ++ [lastTick]). split; [apply Permutation_refl|]. split.
        { clear - Hsorted Hkeys. induction Hsorted as [|y l Hs IH Hall]; cbn.
          - constructor; constructor.
          - constructor; [apply IH; intros; apply Hkeys; right; auto|].
            rewrite Forall_forall in *. intros z Hz. apply in_app_or in Hz. destruct Hz as [Hz|[<-|[]]]; auto.
            apply Hkeys. left; auto. }
        split; [destruct keys; discriminate|]. split; [apply last_z_app|]. split; auto.
        intros t Ht. apply in_app_or in Ht. destruct Ht as [Ht|[<-|[]]]; auto. lia.
      + destruct (Z.ltb_spec lastTick (last_z keys 0)) as [Hlt2|Hge2].
        { pose proof (Hkeys _ (last_z_in keys 0 Hkne)). lia. }
        exists keys. rewrite app_nil_r. split; [apply Permutation_refl|]. split; auto. split; auto.
        split; [lia|]. split; auto.
    - exists keys. destruct (Z.ltb_spec (last_z keys 0) (last_z keys 0)); [lia|]. rewrite app_nil_r.
      split; [apply Permutation_refl|]. split; auto. }
  destruct Hticks as (ticks & Hpt & Hst & Htne & Hlt & Htr & Egsh).
  unfold gsh_go in Egsh. rewrite !Z.quot_div_nonneg in Egsh by lia.
  assert (HI0 : Inv G S H last [] (alloc_fixed (last / S + 1) (last / G + 1))).
  { assert (0 <= last / S) by (apply Z.div_pos; lia). assert (0 <= last / G) by (apply Z.div_pos; lia).
    split; [apply alloc_fixed_shape; lia|]. split; [cbn; lia|]. split.
    - intros s b Hs Hb. cbn in Hs. rewrite alloc_fixed_cell. reflexivity.
    - intros. apply alloc_fixed_cell. }
  destruct (loop_all G S H last HG HS ticks [] _ HI0) as (M & EM & HIM); auto.
  { intros t' t []. }
  { intros t []. }
  change (pmax S []) with 0 in EM. rewrite EM in Egsh. cbn [app] in HIM.
  exists M. split; auto. destruct HIM as ((HL & HR) & _ & Hlow & _).
  split; [lia|]. split; [intros row Hr; specialize (HR row Hr); lia|].
  intros s b Hs Hb.
  rewrite (pmax_last S ticks 0 HS Hst Htne) in Hlow by (intros x Hx; apply Htr in Hx; lia).
  rewrite Hlt, Z.quot_div_nonneg in Hlow by lia.
  rewrite Hlow by lia.
  rewrite spec_cell_keys by auto.
  rewrite (acc_perm G S H _ _ s b Hpt). rewrite (acc_perm G S H _ _ s b Hperm).
  destruct (last_z keys 0 <? last) eqn:El; [|rewrite app_nil_r; reflexivity].
  rewrite (acc_app G S H 0). unfold contrib. rewrite lookup_tick_notin.
  - unfold row_band_sum. cbn. destruct (Z.quot last S <=? s); lia.
  - intros Hin. apply (Permutation_in _ Hperm) in Hin.
    pose proof (last_z_max keys 0 Hsorted last Hin). apply Z.ltb_lt in El. lia.
Qed.

Lemma gsh_empty : forall alloc G S lastTick, gsh_gen alloc G S [] lastTick = Panic PEmptyHistory.
Proof. reflexivity. Qed.

Lemma gsh_ticks_corruption : forall G S H lastTick, H <> [] -> 0 <= lastTick ->
  lastTick < last_z (sort_z (map fst H)) 0 -> group_sparse_history G S H lastTick = Panic PTicksCorruption.
Proof.
  intros G S H lastTick Hne H0 Hlt. unfold group_sparse_history, gsh_gen.
  destruct H; [congruence|].
  destruct (Z.leb_spec 0 lastTick); [|lia].
  destruct (Z.ltb_spec (last_z (sort_z (map fst (p :: H))) 0) lastTick); [lia|].
  destruct (Z.ltb_spec lastTick (last_z (sort_z (map fst (p :: H))) 0)); [reflexivity|lia].
Qed.

(* The code before "fix: groupSparseHistory allocated one row per band instead of per sample" panics with an
   index out of range as soon as sampling < granularity and a second sample is reached. *)
Theorem C01_dense_refuted_before_fix : exists G S H, 1 <= S <= G /\ nodup_zb (map fst H) = true /\
  sparse_wfb H (last_z (sort_z (map fst H)) 0) = true /\ group_sparse_history_old G S H (-1) = Panic PIndex.
Proof.
  exists 2, 1, [(0, [(0, 1)]); (1, [(1, 1)])]. split; [lia|]. vm_compute. auto.
Qed.

Example C01_dense_nonvacuous :
  group_sparse_history 3 2 [(5, [(5, 2); (0, -1)]); (0, [(0, 4)]); (2, [(2, 1); (0, -1)])] 7
  = Ok ([[4; 0; 0]; [4; 0; 0]; [3; 2; 0]; [3; 2; 0]], 7).
Proof. vm_compute. reflexivity. Qed.

Print Assumptions C01_dense.
Print Assumptions C01_dense_refuted_before_fix.
