(* C16 - author identities.  Only statements closed by [exact] and their assumptions. *)
From Coq Require Import List ZArith.
From Herc Require Import Plumbing.IdStr Plumbing.Identity Plumbing.IdentityMerge.
Import ListNotations.
Open Scope Z_scope.
