(* Commit graphs: ancestry, redundant (fast-forward) parents, connected components.
   Declarative notions first, then the executable versions used by the plan checker
   (proved equivalent in GraphProofs.v). *)
From Coq Require Import List ZArith Bool Arith Lia.
From Herc Require Import Plan.Syntax.
Import ListNotations.

(* ---------- declarative ---------- *)

(* [Anc g a c]: a is c or an ancestor of c *)
Inductive Anc (g : dag) : nat -> nat -> Prop :=
| Anc_refl : forall c, Anc g c c
| Anc_step : forall a q c, In q (parents g c) -> Anc g a q -> Anc g a c.

(* a parent of c that is an ancestor of another parent of c: a fast-forward edge *)
Definition redundant (g : dag) (c q : nat) : Prop :=
  exists q', In q' (parents g c) /\ q' <> q /\ Anc g q q'.
Definition nonredundant (g : dag) (c q : nat) : Prop :=
  In q (parents g c) /\ ~ redundant g c q.

(* undirected connectivity *)
Definition adj (g : dag) (a b : nat) : Prop := In a (parents g b) \/ In b (parents g a).
Inductive conn (g : dag) : nat -> nat -> Prop :=
| conn_refl : forall a, conn g a a
| conn_step : forall a b c, conn g a b -> adj g b c -> conn g a c.

(* [A] (a list of commits, repetitions allowed) is one whole connected component of g and no
   component of g has more commits: what [leaveRootComponent] must retain *)
Definition retained (g : dag) (A : list nat) : Prop :=
  (exists c, In c A) /\
  (forall c, In c A -> c < length g) /\
  (forall c x, In c A -> (In x A <-> conn g c x)) /\
  (forall c l, c < length g -> NoDup l -> (forall x, In x l -> conn g c x) ->
     forall A', NoDup A' -> (forall x, In x A <-> In x A') -> length l <= length A').

(* a head of the analysed set: no analysed commit has it as a parent *)
Definition head (g : dag) (A : list nat) (h : nat) : Prop :=
  In h A /\ forall c, In c A -> ~ In h (parents g c).
Definition single_head (g : dag) (A : list nat) : Prop :=
  forall h1 h2, head g A h1 -> head g A h2 -> h1 = h2.

(* ---------- executable ---------- *)

Definition memn (x : nat) (l : list nat) : bool := existsb (Nat.eqb x) l.
Definition subsetn (l1 l2 : list nat) : bool := forallb (fun x => memn x l2) l1.
Definition seteqn (l1 l2 : list nat) : bool := subsetn l1 l2 && subsetn l2 l1.
Fixpoint dedupn (l : list nat) : list nat :=
  match l with
  | [] => []
  | x :: r => if memn x r then dedupn r else x :: dedupn r
  end.

(* the numbering is topological: every parent has a smaller number (so also < length g) *)
Definition topob (g : dag) : bool :=
  forallb (fun i => forallb (fun q => q <? i) (parents g i)) (seq 0 (length g)).

(* table of ancestor-or-self sets, built bottom-up along the topological numbering:
   entry c = c and everything in the entries of c's parents *)
Fixpoint anc_tab_from (rest : dag) (i : nat) (tab : list (list nat)) : list (list nat) :=
  match rest with
  | [] => tab
  | ps :: r =>
      anc_tab_from r (S i) (tab ++ [dedupn (i :: flat_map (fun q => nth q tab []) ps)])
  end.
Definition anc_tab (g : dag) : list (list nat) := anc_tab_from g 0 [].
Definition anc_of (tab : list (list nat)) (c : nat) : list nat := nth c tab [].
Definition ancb (tab : list (list nat)) (a c : nat) : bool := memn a (anc_of tab c).

Definition nonredb (g : dag) (tab : list (list nat)) (c q : nat) : bool :=
  memn q (parents g c) &&
  negb (existsb (fun q' => negb (q' =? q) && ancb tab q q') (parents g c)).
Definition nonred_list (g : dag) (tab : list (list nat)) (c : nat) : list nat :=
  filter (nonredb g tab c) (dedupn (parents g c)).

Definition children (g : dag) (x : nat) : list nat :=
  filter (fun c => memn x (parents g c)) (seq 0 (length g)).
Definition neighbours (g : dag) (x : nat) : list nat := parents g x ++ children g x.
Definition expand (g : dag) (S : list nat) : list nat := dedupn (S ++ flat_map (neighbours g) S).
Fixpoint iter {A} (n : nat) (f : A -> A) (x : A) : A :=
  match n with 0 => x | S m => iter m f (f x) end.
Definition comp (g : dag) (c : nat) : list nat := iter (length g) (expand g) [c].
(* saturation is checked, not proved: a component that was not saturated makes the checker say no *)
Definition satb (g : dag) (S : list nat) : bool := subsetn (flat_map (neighbours g) S) S.

Definition retainedb (g : dag) (A : list nat) : bool :=
  match A with
  | [] => false
  | c0 :: _ =>
      let C := comp g c0 in
      forallb (fun c => c <? length g) A && satb g C && seteqn A C &&
      forallb (fun c => memn c C ||
                        (let C' := comp g c in satb g C' && (length C' <=? length C)))
              (seq 0 (length g))
  end.

Definition headsb (g : dag) (A : list nat) : list nat :=
  filter (fun h => negb (existsb (fun c => memn h (parents g c)) A)) (dedupn A).
