(* C17 - round trip of BurndownResult through its message image.
   [burndown_roundtrip_image]: on every well-shaped in-range result, decode (encode r) = image_burndown r;
   [image_aligned]: when every file history has its ownership table and there are as many names as people
   histories, the image is normalise_burndown r (only clamping);  otherwise it differs (witnesses in props/C17.v). *)
From Coq Require Import List ZArith Bool Lia Permutation.
From Herc Require Import Results.PB Results.MapProofs Results.SparseProofs Results.DevsCouplesProofs.
Import ListNotations.
Open Scope Z_scope.

Lemma rect_nonnil : forall m, rect m = true -> m <> [].
Proof. intros m H. destruct (rect_inv m H) as [r0 [t [Hm _]]]. rewrite Hm. discriminate. Qed.

Lemma is_nil_false {A} : forall l : list A, l <> [] -> is_nil l = false.
Proof. intros [|x l] H; [contradiction | reflexivity]. Qed.

Lemma combine_map_map {A B C} (f : A -> B) (g : A -> C) : forall l,
  combine (map f l) (map g l) = map (fun x => (f x, g x)) l.
Proof. induction l as [|x l IH]; cbn; [reflexivity|]. rewrite IH. reflexivity. Qed.

Lemma no_nil_some {A} : forall l : list A, no_nil (map Some l) = Ok l.
Proof. induction l as [|x l IH]; cbn; [reflexivity|]. rewrite IH. reflexivity. Qed.

Lemma combine_fst_le {A B} : forall (ps : list A) (names : list B),
  (length ps <= length names)%nat -> map fst (combine ps names) = ps.
Proof.
  induction ps as [|p ps IH]; intros names H; [reflexivity|].
  destruct names as [|n names]; [cbn in H; lia|]. cbn. f_equal. apply IH. cbn in H. lia.
Qed.

Lemma combine_snd_le {A B} : forall (ps : list A) (names : list B),
  (length ps <= length names)%nat -> map snd (combine ps names) = firstn (length ps) names.
Proof.
  induction ps as [|p ps IH]; intros names H; [reflexivity|].
  destruct names as [|n names]; [cbn in H; lia|]. cbn. f_equal. apply IH. cbn in H. lia.
Qed.

Definition sparse_of_pair (pn : list (list Z) * list Z) : sparse_matrix := sparse_of (fst pn) (snd pn).

Lemma encode_people_ok : forall ps names,
  (forall p, In p ps -> p <> []) -> (length ps <= length names)%nat ->
  encode_people ps names = Ok (map Some (map sparse_of_pair (combine ps names))).
Proof.
  induction ps as [|p ps IH]; intros names Hne Hlen; [reflexivity|].
  destruct names as [|n names]; [cbn in Hlen; lia|].
  cbn [encode_people]. rewrite (is_nil_false p) by (apply Hne; left; reflexivity).
  rewrite to_sparse_ok by (apply Hne; left; reflexivity). cbn [bind tl].
  rewrite IH; [reflexivity | | cbn in Hlen; lia].
  intros q Hq. apply Hne. right. exact Hq.
Qed.

Section Burndown.
  Variable r : burndown_result.
  Hypothesis Hshape : shape_burndown r = true.
  Hypothesis Hrange : in_range_burndown r = true.

  Lemma shape_parts :
    rect (bd_global r) = true
    /\ forallb (fun f => rect (snd f)) (bd_files r) = true
    /\ forallb rect (bd_people r) = true
    /\ match bd_matrix r with None => true | Some m => rect m end = true
    /\ msortedb name_compare (bd_files r) = true
    /\ msortedb name_compare (bd_ownership r) = true
    /\ forallb (fun o => msortedb Z.compare (snd o)) (bd_ownership r) = true
    /\ (length (bd_people r) <=? length (bd_names r))%nat = true.
  Proof.
    pose proof Hshape as H. unfold shape_burndown in H.
    repeat (let H' := fresh "H" in apply andb_true_iff in H; destruct H as [H H']).
    repeat split; assumption.
  Qed.

  Lemma range_parts :
    cells_u32 (bd_global r) = true
    /\ forallb (fun f => cells_u32 (snd f)) (bd_files r) = true
    /\ forallb cells_u32 (bd_people r) = true
    /\ forallb (fun o => forallb pair_i32 (snd o)) (bd_ownership r) = true
    /\ in_i32 (bd_sampling r) = true /\ in_i32 (bd_granularity r) = true.
  Proof.
    pose proof Hrange as H. unfold in_range_burndown in H.
    repeat (let H' := fresh "H" in apply andb_true_iff in H; destruct H as [H H']).
    repeat split; assumption.
  Qed.

  (* every ownership table that is looked up is a canonical map with int32 entries *)
  Lemma ownership_of_ok : forall nm,
    msorted Z.compare (ownership_of r nm) /\ (forall e, In e (ownership_of r nm) -> pair_i32 e = true).
  Proof.
    intros nm. unfold ownership_of. destruct (mfind name_compare nm (bd_ownership r)) as [o|] eqn:E.
    - apply (mfind_in name_compare name_compare_ok) in E.
      destruct shape_parts as [_ [_ [_ [_ [_ [_ [H7 _]]]]]]]. destruct range_parts as [_ [_ [_ [R4 _]]]].
      rewrite forallb_forall in H7, R4. split.
      + apply (msortedb_sorted Z.compare Zcompare_ok). apply (H7 _ E).
      + intros e He. specialize (R4 _ E). cbn [snd] in R4. rewrite forallb_forall in R4. apply R4. exact He.
    - split; [constructor | intros e []].
  Qed.

  Lemma ownership_table_roundtrip : forall nm,
    map_of_list Z.compare (map_of_list Z.compare (map wrap_pair (ownership_of r nm))) = ownership_of r nm.
  Proof.
    intros nm. destruct (ownership_of_ok nm) as [Hs Hr].
    rewrite (map_id_in wrap_pair).
    - rewrite (map_of_list_id Z.compare Zcompare_ok _ Hs). apply (map_of_list_id Z.compare Zcompare_ok _ Hs).
    - intros [k v] He. specialize (Hr _ He). unfold pair_i32 in Hr. cbn [fst snd] in Hr.
      apply andb_true_iff in Hr. destruct Hr as [Hk Hv]. unfold wrap_pair. cbn [fst snd].
      rewrite !wrap_i32_id by assumption. reflexivity.
  Qed.

  Theorem burndown_roundtrip_image : bind (encode_burndown r) decode_burndown = Ok (image_burndown r).
  Proof.
    destruct shape_parts as [H1 [H2 [H3 [H4 [H5 [H6 [H7 H9]]]]]]].
    destruct range_parts as [R1 [R2 [R3 [R4 [R5 R6]]]]].
    rewrite forallb_forall in H2, H3, R2, R3. apply Nat.leb_le in H9.
    unfold encode_burndown.
    (* project *)
    rewrite (is_nil_false _ (rect_nonnil _ H1)). rewrite to_sparse_ok by (apply rect_nonnil; exact H1). cbn [bind].
    (* files *)
    rewrite (mapM_ok _ (fun f => sparse_of (snd f) (fst f))).
    2:{ intros f Hf. apply to_sparse_ok. apply rect_nonnil. apply H2. exact Hf. }
    cbn [bind].
    (* people *)
    rewrite encode_people_ok; [| intros p Hp; apply rect_nonnil; apply H3; exact Hp | exact H9].
    cbn [bind].
    (* people matrix *)
    assert (Hpm : exists inter, match bd_matrix r with
                     | None => Ok None
                     | Some m => bind (dense_to_csr m) (fun c => Ok (Some c))
                     end = Ok inter
                   /\ match inter with None => Ok None | Some c => bind (csr_to_dense c) (fun d => Ok (Some d)) end
                      = Ok (bd_matrix r)).
    { destruct (bd_matrix r) as [m|].
      - pose proof (csr_dense_roundtrip m H4) as Hc. destruct (dense_to_csr m) as [c| |]; cbn [bind] in Hc; try discriminate.
        exists (Some c). split; [reflexivity|]. rewrite Hc. reflexivity.
      - exists None. split; reflexivity. }
    destruct Hpm as [inter [Hpm1 Hpm2]]. rewrite Hpm1. cbn [bind].
    rewrite no_nil_some. cbn [bind].
    (* decode *)
    unfold decode_burndown.
    cbn [bm_project bm_files bm_people bm_interaction bm_ownership bm_tick_size bm_sampling bm_granularity].
    rewrite (of_sparse_sparse_of _ _ H1 R1). cbn [bind].
    rewrite mapM_map. rewrite (mapM_ok _ (fun f => clamp_matrix (snd f))).
    2:{ intros f Hf. apply of_sparse_sparse_of; [apply H2 | apply R2]; exact Hf. }
    cbn [bind]. rewrite !len_map, Z.ltb_irrefl.
    rewrite mapM_map. rewrite (mapM_ok _ (fun pn => clamp_matrix (fst pn))).
    2:{ intros pn Hpn. unfold sparse_of_pair. apply of_sparse_sparse_of.
        - apply H3. rewrite <- (combine_fst_le _ _ H9). apply in_map. exact Hpn.
        - apply R3. rewrite <- (combine_fst_le _ _ H9). apply in_map. exact Hpn. }
    cbn [bind]. rewrite Hpm2. cbn [bind].
    rewrite wrap_i32_id by exact R5. rewrite wrap_i32_id by exact R6.
    unfold image_burndown. f_equal.
    assert (Hsf : msorted name_compare (bd_files r)) by (apply (msortedb_sorted name_compare name_compare_ok); exact H5).
    f_equal.
    - (* FileHistories *)
      rewrite !map_map. cbn [sm_name sparse_of].
      rewrite combine_map_map. apply (map_of_list_id name_compare name_compare_ok).
      apply msorted_map_values; [reflexivity | exact Hsf].
    - (* FileOwnership *)
      rewrite !map_map. cbn [sm_name sparse_of].
      rewrite map_length. rewrite <- (map_length (fun x => map_of_list Z.compare (map wrap_pair (ownership_of r (fst x)))) (bd_files r)).
      rewrite firstn_all. rewrite map_map. rewrite combine_map_map.
      rewrite (map_ext _ (fun f => (fst f, ownership_of r (fst f)))).
      2:{ intros f. rewrite ownership_table_roundtrip. reflexivity. }
      apply (map_of_list_id name_compare name_compare_ok).
      apply msorted_map_values; [reflexivity | exact Hsf].
    - (* PeopleHistories *)
      rewrite <- (combine_fst_le _ _ H9) at 2. rewrite map_map. reflexivity.
    - (* reversedPeopleDict *)
      rewrite map_map. unfold sparse_of_pair. cbn [sm_name sparse_of].
      rewrite <- (combine_snd_le _ _ H9). reflexivity.
  Qed.
End Burndown.

(* with the two alignment conditions the image is the input with clamped histories and nothing else *)
Theorem image_aligned : forall r, shape_burndown r = true -> aligned_burndown r = true ->
  image_burndown r = normalise_burndown r.
Proof.
  intros r Hshape Hal. destruct (shape_parts r Hshape) as [_ [_ [_ [_ [_ [H6 _]]]]]].
  unfold aligned_burndown in Hal. apply andb_true_iff in Hal. destruct Hal as [Hkeys Hlen].
  apply names_eqb_eq in Hkeys. apply Nat.eqb_eq in Hlen.
  unfold image_burndown, normalise_burndown. f_equal.
  - assert (Hs : msorted name_compare (bd_ownership r)) by (apply (msortedb_sorted name_compare name_compare_ok); exact H6).
    rewrite <- (map_map fst (fun k => (k, ownership_of r k))). rewrite Hkeys. rewrite map_map.
    apply map_id_in. intros [k o] Hin. cbn [fst]. f_equal. unfold ownership_of.
    rewrite (mfind_sorted_in name_compare name_compare_ok _ _ _ Hs Hin). reflexivity.
  - rewrite <- Hlen. apply firstn_all.
Qed.

Theorem burndown_roundtrip : forall r, rectangular_burndown r = true -> in_range_burndown r = true ->
  bind (encode_burndown r) decode_burndown = Ok (normalise_burndown r).
Proof.
  intros r Hrect Hrange. unfold rectangular_burndown in Hrect. apply andb_true_iff in Hrect. destruct Hrect as [Hs Ha].
  rewrite burndown_roundtrip_image by assumption. rewrite image_aligned by assumption. reflexivity.
Qed.
