(* C07 - a remark on the first loop of File.Merge: the guard
       if ol&TreeMergeMark == TreeMergeMark { continue }
   does not influence the result.  Without it a marked value of another copy can only replace a marked value
   of mine (a real tick is always smaller than the mark), and every marked value is overwritten by the merge
   tick in the second loop.  This is why a mutant that drops the guard cannot be observed. *)
From Coq Require Import List ZArith Lia Bool.
From Herc Require Import FileMerge.Model FileMerge.LineProofs.
Import ListNotations.
Open Scope Z_scope.

Definition step_noskip (l ol : Z) : Z := if mark l || (tick l >? tick ol) then ol else l.

Lemma tick_le v : 0 <= tick v <= TreeMergeMark.
Proof.
  unfold tick, TreeMergeMark. change 16383 with (Z.ones 14). rewrite Z.land_ones by lia.
  pose proof (Z.mod_pos_bound v (2 ^ 14) ltac:(lia)) as H. change (Z.ones 14) with (2 ^ 14 - 1). lia.
Qed.

Definition sim (a b : Z) : Prop := mark a = mark b /\ (mark a = false -> a = b).

Lemma step_sim a b ol : sim a b -> sim (step a ol) (step_noskip b ol).
Proof.
  intros [Hm He]. unfold step, step_noskip. destruct (mark ol) eqn:Eo.
  - destruct (mark b) eqn:Eb; cbn [orb].
    + split; [congruence|]. intros H. congruence.
    + assert (Hlt : tick b >? tick ol = false).
      { unfold mark in Eo, Eb. apply Z.eqb_eq in Eo. apply Z.eqb_neq in Eb. pose proof (tick_le b).
        destruct (Z.gtb_spec (tick b) (tick ol)); [lia|reflexivity]. }
      rewrite Hlt. split; [congruence|exact He].
  - destruct (mark a) eqn:Ea; rewrite <- Hm; cbn [orb].
    + split; [reflexivity|]. intros _. reflexivity.
    + rewrite <- (He eq_refl). destruct (tick a >? tick ol); split; auto; intros; congruence.
Qed.

Lemma fold_sim : forall col a b, sim a b -> sim (fold_left step col a) (fold_left step_noskip col b).
Proof.
  induction col as [|ol col IH]; intros a b H; cbn [fold_left]; [exact H|]. apply IH. apply step_sim. exact H.
Qed.

Theorem skip_is_redundant : forall day col a,
  stamp day (fold_left step col a) = stamp day (fold_left step_noskip col a).
Proof.
  intros day col a. destruct (fold_sim col a a) as [Hm He]; [split; auto|].
  unfold stamp. rewrite <- Hm. destruct (mark (fold_left step col a)); [reflexivity|]. apply He. reflexivity.
Qed.
