// Name tables for C15.  The property speaks about ANY node names: "the result depends only on the sequence
// of insertions".  The model keeps nodes as integers ordered by <; the harness therefore may give the Go
// code any table of distinct strings (the empty one included), and the driver runs the model on the rank of each name in
// plain byte order (what sort.Strings implements).  The pools below are the shapes on which a "smarter"
// comparison (natural / numeric, case-insensitive, whitespace-trimming, Unicode-aware, prefix-limited,
// hash-based) ties or stops being transitive.
package main

import (
	"fmt"
	"math/rand"
	"strconv"
	"strings"

	. "verifharness/lib"
)

type namer struct {
	tab   []string
	width int
	rev   map[string]int
	limit int
}

// fixedNames: n%0<width>d, string order = integer order for all indices below 10^width.
func fixedNames(width int) *namer {
	lim := 1
	for i := 0; i < width; i++ {
		lim *= 10
	}
	return &namer{width: width, limit: lim}
}

func tableNames(tab []string) *namer {
	nm := &namer{tab: tab, width: 5, rev: make(map[string]int, len(tab))}
	for i, s := range tab {
		if _, dup := nm.rev[s]; dup {
			panic("duplicate name in a table: " + strconv.Quote(s))
		}
		nm.rev[s] = i
	}
	return nm
}

func (nm *namer) of(i int) string {
	if nm.tab != nil {
		if i < 0 || i >= len(nm.tab) {
			panic(fmt.Sprintf("node index %d outside the name table (%d names)", i, len(nm.tab)))
		}
		return nm.tab[i]
	}
	if i < 0 || i >= nm.limit {
		panic(fmt.Sprintf("node index %d does not fit the fixed width %d", i, nm.width))
	}
	return fmt.Sprintf("n%0*d", nm.width, i)
}

// un maps a string returned by the implementation back to the node index: -1 for the empty string,
// -2 for a string that is not a name of this case.
func (nm *namer) un(s string) int {
	if nm.tab != nil {
		if i, ok := nm.rev[s]; ok {
			return i
		}
	}
	if s == "" {
		return -1
	}
	if nm.tab != nil {
		return -2
	}
	if len(s) != nm.width+1 || s[0] != 'n' {
		return -2
	}
	i, err := strconv.Atoi(s[1:])
	if err != nil || i < 0 {
		return -2
	}
	return i
}

func (nm *namer) uns(l []string) []int {
	r := make([]int, len(l))
	for i, s := range l {
		r[i] = nm.un(s)
	}
	return r
}

// fields are the trace fields that describe the names: nothing for the default width 5.
func (nm *namer) fields() []Sx {
	if nm.tab != nil {
		xs := make([]Sx, len(nm.tab))
		for i, s := range nm.tab {
			xs[i] = Bytes([]byte(s))
		}
		return []Sx{T("names", xs...)}
	}
	if nm.width != 5 {
		return []Sx{T("nw", I(nm.width))}
	}
	return nil
}

func namerOfCase(cs Sx) *namer {
	if f, ok := cs.Field("names"); ok {
		var tab []string
		for _, x := range f.Args() {
			b := make([]byte, len(x.List))
			for i, v := range x.List {
				b[i] = byte(v.Int())
			}
			tab = append(tab, string(b))
		}
		return tableNames(tab)
	}
	if f, ok := cs.Field("nw"); ok {
		return fixedNames(f.Args()[0].Int())
	}
	return fixedNames(5)
}

// ---------- pools ----------

var numPrefixes = []string{"Item", "x", "job", "stage1", "a_b", "TreeDiff", "[uast]", "v", "", "_", "\u00e9", "A b"}
var numSuffixes = []string{"0", "1", "2", "3", "7", "9", "10", "11", "12", "20", "100", "07", "007", "+7", "-7", "03", "003", "+3",
	"00", "-0", "+0", "010", "1a", "1A", "a1", "7 ", " 7", "0x7", "7e0", "7.0", "", "_7", "\u0667", "7\x00", "9223372036854775807",
	"9223372036854775808", "18446744073709551616", "4294967296", "4294967303", "65543"}

var caseWords = []string{"item", "Item", "ITEM", "iTEM", "itEm", "iteM", "Burndown", "burndown", "BURNDOWN", "BurnDown", "a", "A", "z", "Z",
	"aa", "aA", "Aa", "AA", "stra\u00dfe", "STRASSE", "strasse", "\u0130", "i", "I", "\u0131", "\u01c6", "\u01c5", "\u01c4", "k", "K", "K"}
var caseSuffixes = []string{"", "_1", "_2", "_10", "x", "X"}

var spaceNames = []string{"a", " a", "a ", "a  ", "  a", "\ta", "a\t", "a\n", "\na", "a\r\n", "a b", "a  b", "ab", "a\tb", "a\u00a0b", "a\u00a0",
	"\u00a0a", "a\u200b", "\u200ba", "a\ufeff", "\ufeffa", " ", "  ", "   ", "\t", "\n", "\r", "\x00", "\x00\x00", "\u200b", "\u00a0", "\ufeff", "\x7f",
	"\u3000", "\u2028", "\v", "\f", "a\x00", "a\x00b", "a\x00\x00", "\x00a", "-", "_", ".", "\u00ad", "a\u00adb"}

var unicodeNames = []string{"\u00e9", "e\u0301", "e", "E", "\u00c9", "E\u0301", "\u00eb", "\u00ea", "\u00e8", "\u03a9", "\u03c9", "\u03a9", "\u65e5\u672c", "\u65e5", "\u672c", "\u672c\u65e5", "\u65e5\u672c\u8a9e", "\U0001d518", "\U0001d532", "\U0001F600",
	"\u00e9x", "e\u0301x", "ex", "\u00df", "ss", "\ufb01", "fi", "\uff41", "a", "\u0430" /* cyrillic */, "\u00e4", "a\u0308", "ae", "z", "zz", "\u017e", "\u00e5", "a\u030a", "\u00c5", "\u00c5",
	"\xff", "\xfe", "\xc3", "\xc3\x28", "\xe2\x82", "\xed\xa0\x80", "\xc0\xaf", "\xef\xbf\xbd", "\x80", "\u0080", "\u07ff", "\u0800", "\uffff", "\U00010000",
	"\uac00", "\uac00", "\ufdfa", "\u0661", "1", "\u2460", "\u2163", "IV"}

var bracketNames = []string{"[entity]", "[entities]", "[blob_cache]", "[ entity ]", "[entity", "entity]", "entity", "Entity", "[Entity]", "[]", "[[x]]", "[x]", "x",
	"(x)", "()", "{x}", "<x>", "\"q\"", "'q'", "`q`", "q", "file diff", "file  diff", " file diff", "file diff ", "file_diff", "file-diff", "filediff", "FileDiff",
	"a,b", "a;b", "a/b", "a\\b", "a.b", "a:b", "a|b", "a=b", "a&b", "#1", "%d", "%s_%d", "%!s(MISSING)", "*", "?", "$1", "\\n", "\\", "/", "//", "a/../b", "-1", "--", "(", ")",
	"[uast_changes]", "[changes]", "[day]", "[author]", "[line_stats]", "[languages]", "[file_diff]"}

var prefixNames = []string{"a", "ab", "abc", "abcd", "abcde", "ab_", "a_", "a_b", "a_b_c", "a_b_", "ab ", "a b", "b", "ba", "bab", "a0", "a00", "a1", "a10", "a2",
	"n", "n0", "n00", "n00000", "n000000", "n00001", "n1", "n01", "nn", "N00001", "0", "00", "000", "1", "01", "001", "10", "2", "02", "+2", "-2", "1e3", "0x10", "1.0", "1_0", "_1", "1_"}

var itemNames = []string{"Burndown", "IdentityDetector", "TreeDiff", "RenameAnalysis", "FileDiff", "BlobCache", "DaysSinceStart", "TicksSinceStart", "Couples",
	"UAST", "UASTChanges", "FileDiffRefiner", "LinesStats", "Languages", "Shotness", "Devs", "CommitsStat", "FileHistory", "Sentiment", "TyposDataset"}

func longPrefixNames(r *rand.Rand) []string {
	lens := []int{7, 8, 9, 15, 16, 17, 31, 32, 33, 63, 64, 65, 127, 128, 129, 255, 256, 257, 1000}
	tails := []string{"", "a", "b", "B", "_1", "_01", "_10", "_2", "aa", "\x00", " "}
	var res []string
	ch := []string{"p", "_", "\u00e9", "0"}[r.Intn(4)]
	for k := 0; k < 3; k++ {
		p := strings.Repeat(ch, lens[r.Intn(len(lens))])
		if len(ch) > 1 { // keep the BYTE length at the chosen boundary
			p = p[:len(p)/len(ch)]
		}
		for _, t := range tails {
			res = append(res, p+t)
		}
	}
	return res
}

func numberedNames(r *rand.Rand, nprefix int) []string {
	var res []string
	for _, pi := range r.Perm(len(numPrefixes))[:nprefix] {
		for _, s := range numSuffixes {
			res = append(res, numPrefixes[pi]+"_"+s)
		}
	}
	return res
}

func plannerNames(r *rand.Rand) []string {
	var res []string
	for _, pi := range r.Perm(len(itemNames))[:3] {
		res = append(res, itemNames[pi])
		for k := 1; k <= 12; k++ {
			res = append(res, fmt.Sprintf("%s_%d", itemNames[pi], k))
		}
	}
	return append(res, "[uast_changes]", "[changes]", "[day]", "[author]", "[blob_cache]", "[file_diff]")
}

func caseNames(r *rand.Rand) []string {
	var res []string
	suf := caseSuffixes[r.Intn(len(caseSuffixes))]
	for _, w := range caseWords {
		res = append(res, w+suf)
	}
	return res
}

const nFamilies = 9

func family(r *rand.Rand, k int) []string {
	switch k {
	case 0:
		return numberedNames(r, 1+r.Intn(2))
	case 1:
		return caseNames(r)
	case 2:
		return spaceNames
	case 3:
		return unicodeNames
	case 4:
		return bracketNames
	case 5:
		return prefixNames
	case 6:
		return longPrefixNames(r)
	case 7:
		return plannerNames(r)
	default:
		return numberedNames(r, 3)
	}
}

// take n distinct non-empty names: first from `first` (shuffled), then from `rest` (shuffled), then generated.
func takeNames(r *rand.Rand, n int, first, rest []string) []string {
	seen := map[string]bool{"": true}
	res := make([]string, 0, n)
	for _, pool := range [][]string{first, rest} {
		for _, i := range r.Perm(len(pool)) {
			if len(res) == n {
				break
			}
			if !seen[pool[i]] {
				seen[pool[i]] = true
				res = append(res, pool[i])
			}
		}
	}
	for k := 0; len(res) < n; k++ {
		s := fmt.Sprintf("fill_%d", k)
		if !seen[s] {
			seen[s] = true
			res = append(res, s)
		}
	}
	// the empty string is a legal node name (and was FindCycle's "no parent" mark until fix F26): one table in five has it
	if n > 0 && r.Intn(5) == 0 {
		res[r.Intn(n)] = ""
	}
	// the relation between node index and string order: usually random, sometimes ascending / descending
	switch r.Intn(6) {
	case 0:
		sortStrings(res, false)
	case 1:
		sortStrings(res, true)
	}
	return res
}

// plain byte order, written out (no library sort: this is harness code, the order itself is the driver's job)
func sortStrings(l []string, desc bool) {
	for i := 1; i < len(l); i++ {
		for j := i; j > 0 && ((l[j] < l[j-1]) != desc); j-- {
			l[j], l[j-1] = l[j-1], l[j]
		}
	}
}

func allPools(r *rand.Rand) []string {
	var all []string
	for k := 0; k < nFamilies; k++ {
		all = append(all, family(r, k)...)
	}
	return all
}

// drawTable: n names; half of the time mostly from one family, otherwise a mixture of all.
func drawTable(r *rand.Rand, n int) []string {
	if r.Intn(2) == 0 {
		return takeNames(r, n, family(r, r.Intn(nFamilies)), allPools(r))
	}
	return takeNames(r, n, nil, allPools(r))
}

// drawConfusable: n names from ONE family (filled up from the others only when the family is too small).
func drawConfusable(r *rand.Rand, n int) []string {
	return takeNames(r, n, family(r, r.Intn(nFamilies)), allPools(r))
}
