(* The refutation witness of the region [collision_only_b] (NameCollision.v), evaluated on the executable model. *)
From Coq Require Import List ZArith Lia Bool Permutation.
From Herc Require Import Toposort.Model Pipeline.Resolve Pipeline.Witnesses Pipeline.NameCollision.
Import ListNotations.
Open Scope Z_scope.

(* names 1 "X", 101 "X_1" (= dis0 1 1, the node name generated for the first X); keys 11 [a] 12 [b] 13 [c]:
   X provides a;  X provides b;  X_1 provides c.  The order lacks the first X. *)
Definition w_collision : list item := [ mkItem 0 1 [11] []; mkItem 1 1 [12] []; mkItem 2 101 [13] [] ].

Lemma w_collision_resolved :
  resolve ch0 dis0 w_collision = Ok [ mkItem 2 101 [13] []; mkItem 1 1 [12] [] ].
Proof. vm_compute. reflexivity. Qed.

Theorem name_collision_lost_item_refuted : exists ch dis items order,
  collision_only_b dis items = true /\ max_providers items = 1%nat /\ unsatisfiedb items = false /\ cyclicb items = false /\
  resolve ch dis items = Ok order /\ ~ Permutation order items.
Proof.
  exists ch0, dis0, w_collision. eexists.
  split; [vm_compute; reflexivity|]. split; [vm_compute; reflexivity|]. split; [vm_compute; reflexivity|].
  split; [vm_compute; reflexivity|]. split; [exact w_collision_resolved|].
  intros H. apply Permutation_length in H. cbn in H. discriminate.
Qed.

(* without the literal X_1 the two same-named items are both kept *)
Example same_named_kept : domain_okb dis0 [ mkItem 0 1 [11] []; mkItem 1 1 [12] [] ] = true /\
  resolve ch0 dis0 [ mkItem 0 1 [11] []; mkItem 1 1 [12] [] ] = Ok [ mkItem 0 1 [11] []; mkItem 1 1 [12] [] ].
Proof. split; vm_compute; reflexivity. Qed.
