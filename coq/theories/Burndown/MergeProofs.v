(* Merge commits: the replay in merge mode on the branch of each (non-redundant) parent, and
   BurndownAnalysis.Merge of those branches.  (Spike lemmas merge_good / merge_reports_births, now about the
   concrete analysis model.) *)
From Coq Require Import List ZArith Lia Bool Permutation.
From Herc Require Import Burndown.Base Burndown.Dense Burndown.Lifetimes Burndown.LifetimesFacts Burndown.AncFacts
  Burndown.Analysis Burndown.SparseFacts Burndown.AnalysisFacts Burndown.Replay Burndown.HunkProofs
  Burndown.LinearProofs Burndown.StepProofs Burndown.CommitProofs.
Import ListNotations.
Open Scope Z_scope.

(* ---------- File.Merge on arrays that are images of one line list ---------- *)
Definition comb (l ol : Z) : Z :=
  if is_mark ol then l else if is_mark l || (Z.land ol mark <? Z.land l mark) then ol else l.

Lemma merge_lines_map {X} (g f : X -> Z) (L : list X) :
  merge_lines (map g L) (map f L) = map (fun x => comb (g x) (f x)) L.
Proof. induction L as [|x L IH]; [reflexivity|]. cbn [map merge_lines]. rewrite IH. reflexivity. Qed.

Lemma merge_others_map {X} (L : list X) : forall (fs : list (X -> Z)) (g : X -> Z),
  merge_others (map g L) (map (fun f => map f L) fs) =
  Ok (map (fun x => fold_left (fun acc f => comb acc (f x)) fs (g x)) L).
Proof.
  induction fs as [|f fs IH]; intros g; cbn [map merge_others fold_left].
  - reflexivity.
  - rewrite !map_length, Nat.eqb_refl. cbn [negb]. rewrite merge_lines_map. rewrite (IH (fun x => comb (g x) (f x))).
    reflexivity.
Qed.

(* values are either the real value v (no mark) or the mark value tm *)
Lemma fold_comb v tm : is_mark v = false -> is_mark tm = true ->
  forall ys y0, (y0 = v \/ y0 = tm) -> (forall y, In y ys -> y = v \/ y = tm) ->
  fold_left comb ys y0 = if existsb (fun y => negb (is_mark y)) (y0 :: ys) then v else tm.
Proof.
  intros Hv Htm. induction ys as [|y ys IH]; intros y0 H0 Hys; cbn [fold_left existsb].
  - destruct H0 as [->| ->]; rewrite ?Hv, ?Htm; reflexivity.
  - assert (Hc : comb y0 y = v \/ comb y0 y = tm).
    { unfold comb. destruct (Hys y (or_introl eq_refl)) as [->| ->], H0 as [->| ->]; rewrite ?Hv, ?Htm; cbn; auto.
      rewrite Z.ltb_irrefl. auto. }
    rewrite (IH _ Hc) by (intros; apply Hys; right; auto). cbn [existsb].
    unfold comb. destruct (Hys y (or_introl eq_refl)) as [->| ->], H0 as [->| ->];
      rewrite ?Hv, ?Htm, ?Z.ltb_irrefl; cbn [negb orb]; rewrite ?Hv, ?Htm; cbn [negb orb]; auto.
Qed.

Section Resolve.
  Variable cf : cfg.

  Lemma resolve_marks_map {X} hd day (g : X -> Z) : forall (L : list X) s r s',
    resolve_marks cf hd day (map g L) s = Ok (r, s') ->
    r = map (fun x => if is_mark (g x) then day else g x) L /\
    (forall P, wsum P (s_gh s') = wsum P (s_gh s) + eff cf P day day (count (fun x => is_mark (g x)) L)) /\
    (forall T, gh_ok T (s_gh s) -> (is_mark day = false -> 0 <= tp cf day <= T) -> gh_ok T (s_gh s')).
  Proof.
    induction L as [|x L IH]; intros s r s' E; cbn [map resolve_marks] in E.
    - injection E as <- <-. split; [reflexivity|]. split; [intros P; unfold count; cbn; rewrite eff_0; lia|auto].
    - destruct (is_mark (g x)) eqn:Em.
      + destruct (update_time cf hd s day day 1) as [s1| |] eqn:E1; try discriminate.
        destruct (resolve_marks cf hd day (map g L) s1) as [[r1 s2]| |] eqn:E2; try discriminate.
        injection E as <- <-. destruct (IH _ _ _ E2) as (R1 & R2 & R3). split; [cbn [map]; rewrite Em, R1; reflexivity|].
        split.
        * intros P. rewrite R2, (update_time_gh cf P _ _ _ _ _ _ E1), count_cons, Em. rewrite <- (eff_add cf day P 1). lia.
        * intros T Hok Hd. apply R3; auto. eapply update_time_ok; eauto. intros Hm _. specialize (Hd Hm). lia.
      + destruct (resolve_marks cf hd day (map g L) s) as [[r1 s2]| |] eqn:E2; try discriminate.
        injection E as <- <-. destruct (IH _ _ _ E2) as (R1 & R2 & R3). split; [cbn [map]; rewrite Em, R1; reflexivity|].
        split; [|exact R3]. intros P. rewrite R2, count_cons, Em. reflexivity.
  Qed.
End Resolve.

Section Merge.
  Variable h : hist.
  Variable cf : cfg.
  Variable aidx : list Z.
  Hypothesis Hcf : conflict_free h = true.
  Hypothesis Hmark : forall c, 0 <= c < ncommits h -> tick_of h c < mark.
  Hypothesis Haidx : forall c, 0 <= znth 0 aidx c.
  Notation A := (ancs h).
  Notation valf := (val h cf aidx).

  Variable m : Z.
  Hypothesis Hm : 0 <= m < ncommits h.

  Definition tM : Z := pack cf (znth 0 aidx m) mark.
  Lemma tM_mark : is_mark tM = true.
  Proof. unfold tM. rewrite is_mark_pack by (auto; unfold mark; lia). apply Z.eqb_refl. Qed.

  Lemma eff_mark P v d : eff cf P tM v d = 0.
  Proof. unfold eff. rewrite tM_mark. destruct (is_mark v); reflexivity. Qed.
  Lemma effs_mark P vs : effs cf P tM vs = 0.
  Proof. unfold effs. induction vs as [|v r IH]; [reflexivity|]. cbn [map]. rewrite sum_z_cons, IH, eff_mark. reflexivity. Qed.

  (* the branch of parent l after the replay of m in merge mode *)
  Definition mgood (l : Z) (b : branch) : Prop :=
    forall pl, In pl (h_paths h) ->
      pgood (path_exists A m (snd pl)) (aliveb A m) (nv tM (aliveb A l) valf) (b_files b) (fst pl) (snd pl).

  Theorem consume_merge_good l b s b' s' :
    0 <= l < ncommits h -> (forall a, ancb A l a = true -> ancb A m a = true) ->
    bgood h cf aidx (Some l) b ->
    consume cf (znth 0 aidx m) (tick_of h m) true (changes_of h A (Some l) m) b s = Ok (b', s') ->
    mgood l b' /\ (forall P, wsum P (s_gh s') = wsum P (s_gh s)) /\
    (forall T, gh_ok T (s_gh s) -> gh_ok T (s_gh s')) /\
    b_tick b' = tick_of h m /\ b_mauthor b' = znth 0 aidx m /\
    b_merged b' = merged_after A (Some l) m mark (h_paths h) [].
  Proof.
    intros Hl Hsub Hg E. unfold consume in E.
    set (b1 := mkBranch (b_files b) [] (znth 0 aidx m) mark (b_prev b)) in *.
    destruct (handle_changes cf (znth 0 aidx m) (changes_of h A (Some l) m) b1 s) as [[b2 s2]| |] eqn:E2; try discriminate.
    injection E as <- <-. unfold changes_of in E2.
    destruct (paths_step cf A (Some l) m valf (znth 0 aidx m) (h_paths h) b1 s b2 s2 (paths_nodup h Hcf))
      as (Q1 & Q2 & Q3 & Q4 & Q5 & Q6 & Q7); auto.
    { intros pl Hin E. unfold old_exists, path_exists in *. apply existsb_exists in E. destruct E as (x & Hx & E).
      apply existsb_exists. exists x. split; auto. }
    change (b_tick b1) with mark in *. change (b_merged b1) with (@nil (Z * bool)) in *.
    change (b_mauthor b1) with (znth 0 aidx m) in *. fold tM in Q1, Q4, Q5.
    split; [exact Q1|]. split.
    { intros P. cbn [s_gh]. rewrite Q4, eff_mark, effs_mark. lia. }
    split.
    { intros T Hok. cbn [s_gh]. apply Q5; auto; intros Hc; rewrite tM_mark in Hc; discriminate. }
    split; [reflexivity|]. split; [exact Q7|exact Q6].
  Qed.

  (* ---------- the parents' branches ---------- *)
  Variable ls : list Z.
  Hypothesis HU : forall a, ancb A m a = (a =? m) || existsb (fun l => ancb A l a) ls.
  Hypothesis Hnew : forall l, In l ls -> ancb A l m = false.
  Hypothesis Hrange : forall l, In l ls -> 0 <= l < ncommits h.
  Hypothesis Hkill : forall pl, In pl (all_lines h) -> l_killer (snd pl) <> m.

  Lemma sub_anc l a : In l ls -> ancb A l a = true -> ancb A m a = true.
  Proof.
    intros Hl E. rewrite HU. apply orb_true_iff. right. apply existsb_exists. exists l. split; auto.
  Qed.

  Lemma born_m_alive p seq x : In (p, seq) (h_paths h) -> In x seq -> l_born x = m -> aliveb A m x = true.
  Proof.
    intros Hp Hx Hb. destruct (line_facts h Hcf p seq x Hp Hx) as [_ Hk]. unfold aliveb.
    rewrite Hb, HU, Z.eqb_refl. cbn [orb andb].
    destruct Hk as [Hk|(Hkr & Hka & Hkn)]; [rewrite Hk; reflexivity|].
    destruct (Z.leb_spec 0 (l_killer x)); [|lia]. cbn [andb]. rewrite HU.
    destruct (Z.eqb_spec (l_killer x) m) as [Ek|_]; [exfalso; apply (Hkill (p, x)); [eapply in_all_lines; eauto|exact Ek]|].
    cbn [orb]. destruct (existsb (fun l => ancb A l (l_killer x)) ls) eqn:Ee; [|reflexivity].
    apply existsb_exists in Ee. destruct Ee as (l & Hl & El). rewrite Hb in Hka.
    pose proof (Hnew l Hl) as Hn.
    rewrite (ancb_trans h (commits_ok h Hcf) l (l_killer x) m (Hrange l Hl) El Hka) in Hn. discriminate.
  Qed.

  Lemma merge_alive p seq x : In (p, seq) (h_paths h) -> In x seq -> aliveb A m x = true ->
    (l_born x =? m) = negb (existsb (fun l => aliveb A l x) ls).
  Proof.
    intros Hp Hx Ha. destruct (Z.eqb_spec (l_born x) m) as [Eb|Nb].
    - symmetry. apply negb_true_iff. destruct (existsb (fun l => aliveb A l x) ls) eqn:Ee; [|reflexivity].
      apply existsb_exists in Ee. destruct Ee as (l & Hl & El). unfold aliveb in El. rewrite Eb, (Hnew l Hl) in El. discriminate.
    - symmetry. apply negb_false_iff. unfold aliveb in Ha. apply andb_prop in Ha. destruct Ha as [Ha1 Ha2].
      rewrite HU in Ha1. destruct (Z.eqb_spec (l_born x) m); [contradiction|]. cbn [orb] in Ha1.
      apply existsb_exists in Ha1. destruct Ha1 as (l & Hl & El). apply existsb_exists. exists l. split; auto.
      unfold aliveb. rewrite El. cbn [andb]. apply negb_true_iff. apply negb_true_iff in Ha2.
      destruct (0 <=? l_killer x); [|reflexivity]. cbn [andb] in *.
      destruct (ancb A l (l_killer x)) eqn:Ek; [|reflexivity]. rewrite (sub_anc l _ Hl Ek) in Ha2. discriminate.
  Qed.

  Definition dayv : Z := pack cf (znth 0 aidx m) (tick_of h m).
  Lemma dayv_facts : is_mark dayv = false /\ tp cf dayv = tick_of h m.
  Proof.
    pose proof (tick_nonneg h Hcf m Hm). pose proof (Hmark m Hm). unfold dayv, mark in *.
    rewrite is_mark_pack, tp_pack by (auto; lia). split; auto. apply Z.eqb_neq. unfold mark. lia.
  Qed.

  (* File.Merge of the k copies of one path gives every line of m its birth value and reports the lines born at m *)
  Lemma file_merge_spec p seq (fs : list file) s f' s' :
    In (p, seq) (h_paths h) -> ls <> [] ->
    Forall2 (fun l f => f_vals f = map (nv tM (aliveb A l) valf) (filter (aliveb A m) seq)) ls fs ->
    match fs with f0 :: others => file_merge cf dayv f0 others s | [] => Err POther end = Ok (f', s') ->
    f_vals f' = map valf (filter (aliveb A m) seq) /\
    (forall P, wsum P (s_gh s') = wsum P (s_gh s) + eff cf P dayv dayv (count (fun x => l_born x =? m) seq)) /\
    (forall T, gh_ok T (s_gh s) -> tick_of h m <= T -> gh_ok T (s_gh s')).
  Proof.
    intros Hp Hne HF E. set (L := filter (aliveb A m) seq) in *.
    remember ls as ls0 eqn:Els in HF.
    destruct HF as [|l0 f0 ls' others H0 HF']; [congruence|].
    unfold file_merge in E.
    assert (Eo : map f_vals others = map (fun f => map f L) (map (fun l => nv tM (aliveb A l) valf) ls')).
    { clear - HF'. induction HF' as [|l f ls' fs' Hf HF IH]; [reflexivity|]. cbn [map]. rewrite Hf, IH. reflexivity. }
    rewrite H0, Eo, merge_others_map in E.
    set (g := fun x => fold_left (fun acc f => comb acc (f x)) (map (fun l => nv tM (aliveb A l) valf) ls') (nv tM (aliveb A l0) valf x)) in *.
    destruct (resolve_marks cf (f_hist f0) dayv (map g L) s) as [[r s1]| |] eqn:E1; try discriminate.
    injection E as <- <-. cbn [f_vals]. destruct (resolve_marks_map cf _ _ g L s r s1 E1) as (R1 & R2 & R3).
    (* the value of every line of L after the per-line rule *)
    assert (Hg : forall x, In x L -> g x = if l_born x =? m then tM else valf x).
    { intros x Hx. unfold L in Hx. apply filter_In in Hx. destruct Hx as [Hx Ha].
      destruct (val_nomark h cf aidx Hcf Hmark Haidx p seq x Hp Hx) as [Hvn _].
      unfold g.
      assert (Efold : forall (ks : list Z) y0,
                fold_left (fun acc f => comb acc (f x)) (map (fun l => nv tM (aliveb A l) valf) ks) y0 =
                fold_left comb (map (fun l => nv tM (aliveb A l) valf x) ks) y0).
      { induction ks as [|k ks IHk]; intros y0; [reflexivity|]. cbn [fold_left map]. apply IHk. }
      rewrite Efold. rewrite (fold_comb (valf x) tM Hvn tM_mark).
      - rewrite (merge_alive p seq x Hp Hx Ha). rewrite <- Els.
        assert (Eex : forall ks, existsb (fun y => negb (is_mark y)) (map (fun l => nv tM (aliveb A l) valf x) ks) =
                      existsb (fun l => aliveb A l x) ks).
        { intros ks. induction ks as [|k ks IHk]; [reflexivity|]. cbn [map existsb]. rewrite IHk. f_equal.
          unfold nv. destruct (aliveb A k x); [rewrite Hvn|rewrite tM_mark]; reflexivity. }
        change (nv tM (aliveb A l0) valf x :: map (fun l => nv tM (aliveb A l) valf x) ls') with
               (map (fun l => nv tM (aliveb A l) valf x) (l0 :: ls')).
        rewrite Eex. destruct (existsb (fun l => aliveb A l x) (l0 :: ls')); reflexivity.
      - unfold nv. destruct (aliveb A l0 x); auto.
      - intros y Hy. apply in_map_iff in Hy. destruct Hy as (k & <- & _). unfold nv. destruct (aliveb A k x); auto. }
    split.
    { rewrite R1. apply map_ext_in. intros x Hx. rewrite (Hg x Hx). assert (Hx' := Hx). unfold L in Hx'. apply filter_In in Hx'.
      destruct (Z.eqb_spec (l_born x) m) as [Eb|Nb].
      - rewrite tM_mark. unfold dayv, val. rewrite Eb. reflexivity.
      - destruct (val_nomark h cf aidx Hcf Hmark Haidx p seq x Hp (proj1 Hx')) as [Hvn _]. rewrite Hvn. reflexivity. }
    split.
    { intros P. rewrite R2. f_equal. f_equal.
      rewrite (count_ext_in _ (fun x => l_born x =? m) L).
      - unfold L. rewrite count_filter. apply count_ext_in. intros x Hx.
        destruct (Z.eqb_spec (l_born x) m) as [Eb|Nb]; [|apply andb_false_r].
        rewrite (born_m_alive p seq x Hp Hx Eb). reflexivity.
      - intros x Hx. rewrite (Hg x Hx). assert (Hx' := Hx). unfold L in Hx'. apply filter_In in Hx'.
        destruct (Z.eqb_spec (l_born x) m); [apply tM_mark|].
        destruct (val_nomark h cf aidx Hcf Hmark Haidx p seq x Hp (proj1 Hx')) as [Hvn _]. exact Hvn. }
    intros T Hok HT. apply R3; auto. intros _. destruct dayv_facts as [_ Ht]. rewrite Ht.
    pose proof (tick_nonneg h Hcf m Hm). lia.
  Qed.

  (* ---------- BurndownAnalysis.Merge over the touched paths ---------- *)
  Notation born_m := (fun x : line => l_born x =? m).
  Definition seq_of (p : Z) : list line := aget_d [] (h_paths h) p.

  Lemma seq_of_in p seq : In (p, seq) (h_paths h) -> seq_of p = seq.
  Proof.
    intros Hin. unfold seq_of, aget_d. pose proof (paths_nodup h Hcf) as Hnd.
    induction (h_paths h) as [|[p' s'] r IH]; [destruct Hin|]. cbn [aget map fst] in *. inversion Hnd; subst.
    destruct Hin as [E|Hin].
    - injection E as -> ->. rewrite Z.eqb_refl. reflexivity.
    - destruct (Z.eqb_spec p' p) as [->|Hne]; [|apply IH; auto].
      exfalso. apply H1. change p with (fst (p, seq)). apply in_map. exact Hin.
  Qed.

  (* the state of the branch of parent l when the paths in D have been merged *)
  Definition mid (D : list Z) (l : Z) (b : branch) : Prop :=
    forall pl, In pl (h_paths h) ->
      if memz (fst pl) D
      then exists hd, aget (b_files b) (fst pl) = Some (mkFile (map valf (filter (aliveb A m) (snd pl))) hd)
      else pgood (path_exists A m (snd pl)) (aliveb A m) (nv tM (aliveb A l) valf) (b_files b) (fst pl) (snd pl).

  Definition same_meta (b b' : branch) : Prop :=
    b_tick b' = b_tick b /\ b_mauthor b' = b_mauthor b /\ b_merged b' = b_merged b /\ b_prev b' = b_prev b.

  Lemma some_files_all p seq D : In (p, seq) (h_paths h) -> memz p D = false -> path_exists A m seq = true ->
    forall ks all, Forall2 (mid D) ks all ->
      Forall2 (fun l f => f_vals f = map (nv tM (aliveb A l) valf) (filter (aliveb A m) seq)) ks
              (some_files (map (fun b => aget (b_files b) p) all)).
  Proof.
    intros Hp HD Hex ks all HF. induction HF as [|l b ks' all' Hb HF IH].
    - constructor.
    - specialize (Hb (p, seq) Hp). cbn [fst snd] in Hb. rewrite HD in Hb.
      unfold pgood in Hb. rewrite Hex in Hb. destruct Hb as [hd Hb].
      cbn [map some_files]. rewrite Hb. constructor; auto.
  Qed.

  Lemma merge_keys_spec : forall keys D all s all' s',
    NoDup (map fst keys) ->
    (forall kv, In kv keys -> memz (fst kv) D = false /\ snd kv = true /\
                 exists seq, In (fst kv, seq) (h_paths h) /\ path_exists A m seq = true) ->
    ls <> [] -> Forall2 (mid D) ls all ->
    merge_keys cf dayv keys all s = Ok (all', s') ->
    Forall2 (mid (fold_left (fun D kv => fst kv :: D) keys D)) ls all' /\
    Forall2 same_meta all all' /\
    (forall P, wsum P (s_gh s') = wsum P (s_gh s) +
               sum_z (map (fun kv => eff cf P dayv dayv (count born_m (seq_of (fst kv)))) keys)) /\
    (forall T, gh_ok T (s_gh s) -> tick_of h m <= T -> gh_ok T (s_gh s')).
  Proof.
    induction keys as [|[p v] keys IH]; intros D all s all' s' Hnd Hk Hne HF E.
    - cbn in E. injection E as <- <-. cbn [fold_left map]. split; auto. split.
      { clear. induction all; constructor; auto. repeat split. }
      split; [intros P; cbn; lia|auto].
    - destruct (Hk (p, v) (or_introl eq_refl)) as (HD & Hv & seq & Hp & Hex). cbn [fst snd] in *. subst v.
      cbn [merge_keys] in E.
      pose proof (some_files_all p seq D Hp HD Hex ls all HF) as HFs.
      inversion Hnd as [|? ? Hnotin Hnd']; subst.
      destruct (some_files (map (fun b => aget (b_files b) p) all)) as [|f0 others] eqn:Efs.
      { exfalso. apply Hne. remember ls as ls0 eqn:Els in HFs. remember (@nil file) as e eqn:Ee in HFs.
        destruct HFs; [congruence|discriminate]. }
      destruct (file_merge cf dayv f0 others s) as [[f' s1]| |] eqn:Em; try discriminate.
      destruct (file_merge_spec p seq (f0 :: others) s f' s1 Hp Hne HFs Em) as (M1 & M2 & M3).
      set (all1 := map (fun b => with_files b (aset (b_files b) p f')) all) in *.
      assert (HF1 : Forall2 (mid (p :: D)) ls all1).
      { unfold all1. clear - HF M1 Hp Hcf. induction HF as [|l b ks' all0 Hb HF IH]; [constructor|].
        cbn [map]. constructor; auto. intros pl Hin. specialize (Hb pl Hin). unfold with_files. cbn [b_files].
        rewrite aget_aset. unfold memz in *. cbn [existsb]. destruct (Z.eqb_spec (fst pl) p) as [Ep|Np].
        - rewrite Ep, Z.eqb_refl. cbn [orb]. exists (f_hist f'). destruct f' as [v' h']. cbn [f_vals f_hist] in *. subst v'.
          destruct pl as [p' seq']. cbn [fst snd] in *. subst p'.
          rewrite <- (seq_of_in p seq Hp), (seq_of_in p seq' Hin). reflexivity.
        - cbn [orb]. destruct (Z.eqb_spec p (fst pl)); [congruence|]. exact Hb. }
      destruct (IH (p :: D) all1 s1 all' s' Hnd') as (R1 & R2 & R3 & R4); auto.
      { intros kv Hin. destruct (Hk kv (or_intror Hin)) as (K1 & K2 & K3). split; [|auto].
        unfold memz in *. cbn [existsb]. rewrite K1, orb_false_r. apply Z.eqb_neq. intros Eq. apply Hnotin.
        rewrite <- Eq. apply in_map. exact Hin. }
      cbn [fold_left fst]. split; [exact R1|]. split.
      { clear - R2. unfold all1 in R2. revert all' R2. induction all as [|b all0 IHa]; intros all' R2; inversion R2; subst; constructor; auto.
        destruct H1 as (T1 & T2 & T3 & T4). repeat split; auto. }
      split.
      { intros P. rewrite R3, M2. cbn [map fst]. rewrite sum_z_cons, (seq_of_in p seq Hp). lia. }
      intros T Hok HT. apply R4; auto.
  Qed.
End Merge.
