(* Specification side of C03: the plain array of per-line values, its edit, its histogram,
   the well-formedness invariant of the tracker and the domain of the property.
   Definitions only (all executable; the boolean versions are what the replay driver runs). *)
From Coq Require Import List ZArith Bool.
Import ListNotations.
From Herc Require Import File.Model.
Open Scope Z_scope.

(* File.flatten: one value per line *)
Fixpoint flat (k v : Z) (s : list node) : list Z :=
  match s with [] => [] | (k', v') :: r => repeat v (Z.to_nat (k' - k)) ++ flat k' v' r end.
Definition flatten (s : list node) : list Z := match s with [] => [] | (k, v) :: r => flat k v r end.

(* the same edit on a plain array: delete the range, then insert the new lines stamped with the tick *)
Definition arr_update (t pos ins del : Z) (a : list Z) : list Z :=
  firstn (Z.to_nat pos) a ++ repeat t (Z.to_nat ins) ++ skipn (Z.to_nat (pos + del)) a.

Definition alen (a : list Z) : Z := Z.of_nat (length a).

(* histogram: number of lines whose value is v *)
Definition hist (v : Z) (l : list Z) : Z := Z.of_nat (count_occ Z.eq_dec l v).

(* what the observers accumulate: the sum of the deltas reported with previousTime = v *)
Fixpoint sumv (v : Z) (reps : list delta_rec) : Z :=
  match reps with
  | [] => 0
  | (_, p, d) :: r => (if p =? v then d else 0) + sumv v r
  end.

(* ---------- well-formed tracker states ---------- *)
(* strictly increasing keys, all greater than k *)
Fixpoint inc (k : Z) (s : list node) : Prop :=
  match s with [] => True | (k', _) :: r => k < k' /\ inc k' r end.
Fixpoint vlast (v : Z) (s : list node) : Z :=
  match s with [] => v | (_, w) :: r => vlast w r end.

(* first key 0, keys strictly increasing, last value TreeEnd, every key a uint32 *)
Definition WF (s : list node) : Prop :=
  inc (-1) s /\ vlast 0 s = TreeEnd /\ (exists v r, s = (0, v) :: r) /\ len s <= MaxU32.

Fixpoint incb (k : Z) (s : list node) : bool :=
  match s with [] => true | (k', _) :: r => (k <? k') && incb k' r end.
Definition wfb (s : list node) : bool :=
  incb (-1) s && (vlast 0 s =? TreeEnd) && (match s with (k, _) :: _ => k =? 0 | [] => false end)
  && (len s <=? MaxU32).

(* ---------- the domain of the property, stated on the plain array ---------- *)
(* a deleted line that carries the merge mark must carry exactly the operation's tick
   (otherwise updateTime panics: "previousTime cannot be TreeMergeMark") *)
Definition mark_okb (t pos del : Z) (a : list Z) : bool :=
  forallb (fun v => negb (is_mark v) || (v =? t)) (firstn (Z.to_nat del) (skipn (Z.to_nat pos) a)).

(* the request is in range: the guards of Update, the position and the deleted range inside the file,
   and the uint32 side condition: the new length still fits a uint32 key *)
Definition in_rangeb (t pos ins del : Z) (a : list Z) : bool :=
  (0 <=? t) && (t <? MaxU32) && (0 <=? pos) && (0 <=? ins) && (0 <=? del)
  && (pos + del <=? alen a) && (alen a + ins - del <=? MaxU32).

Definition validb (t pos ins del : Z) (a : list Z) : bool :=
  in_rangeb t pos ins del a && mark_okb t pos del a.

(* a whole operation list is valid when every operation is valid on the array it meets *)
Fixpoint ops_validb (a : list Z) (ops : list op) : bool :=
  match ops with
  | [] => true
  | (t, pos, ins, del) :: r => validb t pos ins del a && ops_validb (arr_update t pos ins del a) r
  end.

Fixpoint arr_run (a : list Z) (ops : list op) : list Z :=
  match ops with
  | [] => a
  | (t, pos, ins, del) :: r => arr_run (arr_update t pos ins del a) r
  end.

(* what the observers must have accumulated for value v after the operations: the change of the
   histogram of the array under every operation that is not stamped with the merge mark *)
Fixpoint expected_sum (v : Z) (a : list Z) (ops : list op) : Z :=
  match ops with
  | [] => 0
  | (t, pos, ins, del) :: r =>
      let a' := arr_update t pos ins del a in
      (if is_mark t then 0 else hist v a' - hist v a) + expected_sum v a' r
  end.

Definition no_mark_ops (ops : list op) : bool :=
  forallb (fun o => match o with (t, _, _, _) => negb (is_mark t) end) ops.

(* requests the property wants rejected with a panic (the guards of Update, a position beyond the end, a
   deletion running past the end).  A request that neither inserts nor deletes is a no-op wherever it points. *)
Definition must_panicb (t pos ins del : Z) (a : list Z) : bool :=
  (t <? 0) || (t >=? MaxU32) || (pos <? 0) || (pos >? MaxU32) || (ins <? 0) || (del <? 0)
  || (ins >? MaxU32) || (del >? MaxU32)
  || (negb ((ins =? 0) && (del =? 0)) && ((pos >? alen a) || (pos + del >? alen a))).
