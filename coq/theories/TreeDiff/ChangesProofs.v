(* Soundness of the validator [changes_ok]: a change list that passes it, applied strictly (an
   insertion needs the path to be absent, a deletion / modification needs the exact old entry) to the
   restricted previous file set, succeeds and yields the restricted current file set. *)
From Coq Require Import List NArith Bool Lia.
From Herc Require Import TreeDiff.Model.
Import ListNotations.
Open Scope N_scope.

(* ---------- equalities ---------- *)

Lemma path_eqb_eq : forall a b, path_eqb a b = true <-> a = b.
Proof.
  induction a as [|x a IH]; destruct b as [|y b]; simpl; split; intro H; try congruence; try discriminate.
  - apply andb_true_iff in H. destruct H as [H1 H2]. apply N.eqb_eq in H1. apply IH in H2. congruence.
  - inversion H; subst. apply andb_true_iff. split. apply N.eqb_refl. apply IH. reflexivity.
Qed.

Lemma path_eqb_refl : forall a, path_eqb a a = true.
Proof. intro a. apply path_eqb_eq. reflexivity. Qed.

Lemma path_eqb_neq : forall a b, path_eqb a b = false <-> a <> b.
Proof.
  intros a b. split.
  - intros H E. apply path_eqb_eq in E. congruence.
  - intro H. destruct (path_eqb a b) eqn:E; auto. apply path_eqb_eq in E. contradiction.
Qed.

Lemma path_eqb_sym : forall a b, path_eqb a b = path_eqb b a.
Proof.
  intros a b. destruct (path_eqb a b) eqn:E.
  - apply path_eqb_eq in E. subst. symmetry. apply path_eqb_refl.
  - symmetry. apply path_eqb_neq. apply path_eqb_neq in E. congruence.
Qed.

Lemma entry_eqb_eq : forall a b, entry_eqb a b = true <-> a = b.
Proof.
  intros [pa ha ma] [pb hb mb]. unfold entry_eqb. simpl. split.
  - intro H. apply andb_true_iff in H. destruct H as [H H3]. apply andb_true_iff in H. destruct H as [H1 H2].
    apply path_eqb_eq in H1. apply N.eqb_eq in H2. apply N.eqb_eq in H3. congruence.
  - intro H. inversion H; subst. rewrite path_eqb_refl, !N.eqb_refl. reflexivity.
Qed.

Lemma entry_eqb_refl : forall a, entry_eqb a a = true.
Proof. intro a. apply entry_eqb_eq. reflexivity. Qed.

Lemma oentry_eqb_eq : forall a b, oentry_eqb a b = true <-> a = b.
Proof.
  intros [a|] [b|]; simpl; split; intro H; try congruence; try discriminate.
  - apply entry_eqb_eq in H. congruence.
  - inversion H. apply entry_eqb_refl.
Qed.

Lemma change_eqb_eq : forall a b, change_eqb a b = true <-> a = b.
Proof.
  intros [fa ta] [fb tb]. unfold change_eqb. simpl. split.
  - intro H. apply andb_true_iff in H. destruct H as [H1 H2].
    apply oentry_eqb_eq in H1. apply oentry_eqb_eq in H2. congruence.
  - intro H. inversion H; subst. apply andb_true_iff. split; apply oentry_eqb_eq; reflexivity.
Qed.

(* ---------- path lists ---------- *)

Lemma existsb_path_In : forall p l, existsb (path_eqb p) l = true <-> In p l.
Proof.
  intros p l. rewrite existsb_exists. split.
  - intros [q [Hq E]]. apply path_eqb_eq in E. subst. exact Hq.
  - intro H. exists p. split. exact H. apply path_eqb_refl.
Qed.

Lemma nodup_paths_NoDup : forall l, nodup_paths l = true <-> NoDup l.
Proof.
  induction l as [|p l IH]; simpl.
  - split; intro; [constructor | reflexivity].
  - rewrite andb_true_iff, negb_true_iff, IH. split.
    + intros [H1 H2]. constructor; auto. intro HI. apply existsb_path_In in HI. congruence.
    + intro H. inversion H; subst. split; auto.
      destruct (existsb (path_eqb p) l) eqn:E; auto. apply existsb_path_In in E. contradiction.
Qed.

(* ---------- lookup ---------- *)

Lemma lookup_some : forall p t e, lookup p t = Some e -> In e t /\ e_path e = p.
Proof.
  intros p t e H. unfold lookup in H. apply find_some in H. destruct H as [H1 H2].
  apply path_eqb_eq in H2. auto.
Qed.

Lemma lookup_none : forall p t, lookup p t = None -> forall e, In e t -> e_path e <> p.
Proof.
  intros p t H e He E. unfold lookup in H. eapply find_none in H; eauto.
  simpl in H. apply path_eqb_neq in H. contradiction.
Qed.

Lemma lookup_not_in : forall p t, ~ In p (map e_path t) -> lookup p t = None.
Proof.
  intros p t H. destruct (lookup p t) eqn:E; auto.
  apply lookup_some in E. destruct E as [E1 E2]. exfalso. apply H. rewrite <- E2. apply in_map. exact E1.
Qed.

Lemma lookup_in_unique : forall t e, NoDup (map e_path t) -> In e t -> lookup (e_path e) t = Some e.
Proof.
  induction t as [|x t IH]; intros e ND HI; simpl in *.
  - contradiction.
  - inversion ND; subst. unfold lookup. simpl. destruct HI as [->|HI].
    + rewrite path_eqb_refl. reflexivity.
    + destruct (path_eqb (e_path x) (e_path e)) eqn:E.
      * apply path_eqb_eq in E. exfalso. apply H1. rewrite E. apply in_map. exact HI.
      * apply IH; assumption.
Qed.

Lemma lookup_filter : forall q p t, NoDup (map e_path t) ->
  lookup p (filter q t) = match lookup p t with
                          | Some e => if q e then Some e else None
                          | None => None
                          end.
Proof.
  induction t as [|x t IH]; intro ND; simpl.
  - reflexivity.
  - inversion ND; subst. unfold lookup in *. simpl.
    destruct (q x) eqn:Q; simpl; destruct (path_eqb (e_path x) p) eqn:E.
    + rewrite Q. reflexivity.
    + apply IH. assumption.
    + rewrite Q. apply path_eqb_eq in E.
      assert (HN : ~ In p (map e_path (filter q t))).
      { intro HI. apply H1. rewrite E. apply in_map_iff in HI. destruct HI as [y [Hy1 Hy2]].
        apply filter_In in Hy2. destruct Hy2 as [Hy2 _]. rewrite <- Hy1. apply in_map. exact Hy2. }
      apply lookup_not_in in HN. exact HN.
    + apply IH. assumption.
Qed.

Lemma tree_wfb_NoDup : forall t, tree_wfb t = true -> NoDup (map e_path t).
Proof.
  intros t H. unfold tree_wfb in H. apply andb_true_iff in H. destruct H as [H _].
  apply nodup_paths_NoDup. exact H.
Qed.

Lemma tree_wfb_nonempty : forall t e, tree_wfb t = true -> In e t -> e_path e <> [].
Proof.
  intros t e H HI. unfold tree_wfb in H. apply andb_true_iff in H. destruct H as [_ H].
  rewrite forallb_forall in H. specialize (H e HI). destruct (e_path e); simpl in H; congruence.
Qed.

Lemma fs_of_restrict : forall f t p, tree_wfb t = true -> fs_of (restrict f t) p = rlookup f p t.
Proof.
  intros f t p H. unfold fs_of, restrict, rlookup. apply lookup_filter. apply tree_wfb_NoDup. exact H.
Qed.

Lemma rlookup_path : forall f p t e, rlookup f p t = Some e -> e_path e = p.
Proof.
  intros f p t e H. unfold rlookup in H. destruct (lookup p t) eqn:E; try discriminate.
  destruct (passes f e0); try discriminate. inversion H; subst. apply lookup_some in E. tauto.
Qed.

(* ---------- the expected change of a path ---------- *)

Lemma expected_none : forall f prev cur p, expected f prev cur p = None -> rlookup f p prev = rlookup f p cur.
Proof.
  intros f prev cur p H. unfold expected in H.
  destruct (rlookup f p prev) as [x|]; destruct (rlookup f p cur) as [y|]; try discriminate; auto.
  destruct (entry_eqb x y) eqn:E; try discriminate. apply entry_eqb_eq in E. congruence.
Qed.

(* one strict application step of the expected change *)
Lemma apply_expected_at : forall f prev cur p c m,
  expected f prev cur p = Some c ->
  m p = rlookup f p prev ->
  apply_change c m = Some (fs_upd m p (rlookup f p cur)).
Proof.
  intros f prev cur p c m HE Hm. unfold expected in HE.
  destruct (rlookup f p prev) as [x|] eqn:A; destruct (rlookup f p cur) as [y|] eqn:B.
  - destruct (entry_eqb x y) eqn:E; try discriminate. inversion HE as [HC]. clear HE.
    pose proof (rlookup_path _ _ _ _ A) as PA. pose proof (rlookup_path _ _ _ _ B) as PB.
    unfold apply_change. simpl. rewrite PA, PB, path_eqb_refl, Hm, entry_eqb_refl. reflexivity.
  - inversion HE as [HC]. clear HE. pose proof (rlookup_path _ _ _ _ A) as PA.
    unfold apply_change, del. simpl. rewrite PA, Hm, entry_eqb_refl. reflexivity.
  - inversion HE as [HC]. clear HE. pose proof (rlookup_path _ _ _ _ B) as PB.
    unfold apply_change, ins. simpl. rewrite PB, Hm. reflexivity.
  - discriminate.
Qed.

Lemma apply_expected : forall f prev cur c m,
  expected f prev cur (cpath c) = Some c ->
  m (cpath c) = rlookup f (cpath c) prev ->
  apply_change c m = Some (fs_upd m (cpath c) (rlookup f (cpath c) cur)).
Proof. intros. eapply apply_expected_at; eauto. Qed.

Definition pmem (p : list N) (l : list (list N)) : bool := existsb (path_eqb p) l.

Lemma apply_all_expected : forall f prev cur cs m,
  NoDup (map cpath cs) ->
  (forall c, In c cs -> expected f prev cur (cpath c) = Some c) ->
  (forall p, In p (map cpath cs) -> m p = rlookup f p prev) ->
  exists m', apply_all cs m = Some m' /\
             forall p, m' p = if pmem p (map cpath cs) then rlookup f p cur else m p.
Proof.
  induction cs as [|c r IH]; intros m ND HE Hm.
  - exists m. split; [reflexivity | intro p; reflexivity].
  - simpl in ND. inversion ND as [|? ? HNI ND']; subst.
    assert (HS : apply_change c m = Some (fs_upd m (cpath c) (rlookup f (cpath c) cur))).
    { apply apply_expected with (prev := prev). apply HE. left; reflexivity. apply Hm. left; reflexivity. }
    destruct (IH (fs_upd m (cpath c) (rlookup f (cpath c) cur)) ND') as [m' [HA HP]].
    + intros c' Hc'. apply HE. right; exact Hc'.
    + intros p Hp. unfold fs_upd. destruct (path_eqb (cpath c) p) eqn:E.
      * apply path_eqb_eq in E. subst. contradiction.
      * apply Hm. right; exact Hp.
    + exists m'. split.
      * simpl. rewrite HS. exact HA.
      * intro p. rewrite HP. unfold pmem. simpl. unfold fs_upd.
        rewrite (path_eqb_sym p (cpath c)).
        destruct (path_eqb (cpath c) p) eqn:E; simpl.
        -- apply path_eqb_eq in E. subst.
           destruct (existsb (path_eqb (cpath c)) (map cpath r)) eqn:E2; reflexivity.
        -- reflexivity.
Qed.

Theorem changes_ok_apply : forall f prev cur cs,
  tree_wfb prev = true -> tree_wfb cur = true ->
  changes_ok f prev cur cs = true ->
  exists m, apply_all cs (fs_of (restrict f prev)) = Some m /\
            forall p, m p = fs_of (restrict f cur) p.
Proof.
  intros f prev cur cs WP WC H. unfold changes_ok in H.
  apply andb_true_iff in H. destruct H as [H H3]. apply andb_true_iff in H. destruct H as [H1 H2].
  apply nodup_paths_NoDup in H1. rewrite forallb_forall in H2. rewrite forallb_forall in H3.
  assert (HE : forall c, In c cs -> expected f prev cur (cpath c) = Some c).
  { intros c Hc. specialize (H2 c Hc). destruct (expected f prev cur (cpath c)) as [c'|]; try discriminate.
    apply change_eqb_eq in H2. congruence. }
  destruct (apply_all_expected f prev cur cs (fs_of (restrict f prev)) H1 HE) as [m [HA HP]].
  { intros p _. apply fs_of_restrict. exact WP. }
  exists m. split. exact HA.
  intro p. rewrite HP. rewrite !fs_of_restrict by assumption.
  destruct (pmem p (map cpath cs)) eqn:PM; [reflexivity|].
  destruct (expected f prev cur p) as [c'|] eqn:EX.
  - (* a difference at p must have been reported *)
    exfalso.
    assert (HI : exists e, In e (prev ++ cur) /\ e_path e = p).
    { unfold expected in EX. unfold rlookup in EX.
      destruct (lookup p prev) as [x|] eqn:LP.
      - apply lookup_some in LP. exists x. split. apply in_or_app. left; tauto. tauto.
      - destruct (lookup p cur) as [y|] eqn:LC.
        + apply lookup_some in LC. exists y. split. apply in_or_app. right; tauto. tauto.
        + discriminate. }
    destruct HI as [e [HI HPp]]. specialize (H3 e HI). rewrite HPp in H3. rewrite EX in H3.
    rewrite existsb_exists in H3. destruct H3 as [c [Hc Hcp]].
    apply path_eqb_eq in Hcp. unfold pmem in PM.
    assert (HM : existsb (path_eqb p) (map cpath cs) = true).
    { apply existsb_path_In. rewrite <- Hcp. apply in_map. exact Hc. }
    congruence.
  - apply expected_none. exact EX.
Qed.

(* the other direction, for non-vacuity of the validator: the expected changes of all paths, each once,
   pass the validator *)
Lemma expected_cpath : forall f prev cur p c, expected f prev cur p = Some c -> cpath c = p.
Proof.
  intros f prev cur p c H. unfold expected in H.
  destruct (rlookup f p prev) as [x|] eqn:A; destruct (rlookup f p cur) as [y|] eqn:B; try discriminate.
  - destruct (entry_eqb x y); try discriminate. inversion H; subst. unfold cpath. simpl.
    eapply rlookup_path; eauto.
  - inversion H; subst. unfold cpath. simpl. eapply rlookup_path; eauto.
  - inversion H; subst. unfold cpath. simpl. eapply rlookup_path; eauto.
Qed.
