(* Proofs about the model of the .mailmap branch of GeneratePeopleDict (IdentityMailmap.v).

   Part A: every mailmap (no hypothesis): indices in range, keys persist, every author's e-mail is a key
           -> totality and same-e-mail-same-developer.
   Part B: the weak invariant WInv ("listed <-> attached", set-wise) is preserved by the commit loop from
           ANY start state.
   Part C: one step of the mailmap loop preserves WInv provided the step does not re-point an existing key
           ([step_safe]).
   Part D: in the domain MDom (boolean: mm_domb) every step is safe: loop invariant MI.
   Part E: the theorems. *)
From Coq Require Import List ZArith Lia Bool Permutation Sorted Arith.
From Herc Require Import Plumbing.IdStr Plumbing.Identity Plumbing.IdentityProofs Plumbing.IdentityMailmap.
Import ListNotations.
Local Open Scope nat_scope.

Notation names_of devs d := (fst (nth d devs (@nil (list Z), @nil (list Z)))).
Notation emails_of devs d := (snd (nth d devs (@nil (list Z), @nil (list Z)))).

(* ---------- lists of one developer: add_name / add_email / the guarded variants ---------- *)
Lemma add_name_len devs id n : length (add_name devs id n) = length devs.
Proof. revert id. induction devs as [|[ns es] r IH]; intros [|id]; simpl; auto. Qed.
Lemma add_email_len devs id n : length (add_email devs id n) = length devs.
Proof. revert id. induction devs as [|[ns es] r IH]; intros [|id]; simpl; auto. Qed.

Lemma nth_add_name_g devs id n d : id < length devs ->
  nth d (add_name devs id n) ([], []) =
  if Nat.eqb d id then (names_of devs d ++ [n], emails_of devs d) else nth d devs ([], []).
Proof.
  revert id d. induction devs as [|[ns es] r IH]; intros [|id] [|d]; simpl; try lia; try reflexivity.
  intros H. apply IH. lia.
Qed.
Lemma nth_add_email_g devs id n d : id < length devs ->
  nth d (add_email devs id n) ([], []) =
  if Nat.eqb d id then (names_of devs d, emails_of devs d ++ [n]) else nth d devs ([], []).
Proof.
  revert id d. induction devs as [|[ns es] r IH]; intros [|id] [|d]; simpl; try lia; try reflexivity.
  intros H. apply IH. lia.
Qed.

(* "if has_at key then add_email_new ... else add_name_new ..." *)
Definition list_key (b : bool) (devs : list (list str * list str)) (id : nat) (k : str) :=
  if b then add_email_new devs id k else add_name_new devs id k.

Lemma list_key_length b devs id k : length (list_key b devs id k) = length devs.
Proof.
  unfold list_key, add_email_new, add_name_new. destruct b.
  - destruct (smem k _); [reflexivity|apply add_email_len].
  - destruct (smem k _); [reflexivity|apply add_name_len].
Qed.

Lemma list_key_names b devs id k d x : id < length devs ->
  In x (names_of (list_key b devs id k) d) -> In x (names_of devs d) \/ (d = id /\ x = k).
Proof.
  intros Hid. unfold list_key, add_email_new, add_name_new. destruct b.
  - destruct (smem k _); [auto|]. rewrite nth_add_email_g by assumption.
    destruct (Nat.eqb d id); cbn [fst]; auto.
  - destruct (smem k _); [auto|]. rewrite nth_add_name_g by assumption.
    destruct (Nat.eqb_spec d id) as [->|]; cbn [fst]; [|auto].
    rewrite in_app_iff. simpl. intros [H|[H|[]]]; auto.
Qed.

Lemma list_key_emails b devs id k d x : id < length devs ->
  In x (emails_of (list_key b devs id k) d) -> In x (emails_of devs d) \/ (d = id /\ x = k).
Proof.
  intros Hid. unfold list_key, add_email_new, add_name_new. destruct b.
  - destruct (smem k _); [auto|]. rewrite nth_add_email_g by assumption.
    destruct (Nat.eqb_spec d id) as [->|]; cbn [snd]; [|auto].
    rewrite in_app_iff. simpl. intros [H|[H|[]]]; auto.
  - destruct (smem k _); [auto|]. rewrite nth_add_name_g by assumption.
    destruct (Nat.eqb d id); cbn [snd]; auto.
Qed.

Lemma list_key_names_mono b devs id k d x : id < length devs ->
  In x (names_of devs d) -> In x (names_of (list_key b devs id k) d).
Proof.
  intros Hid. unfold list_key, add_email_new, add_name_new. destruct b.
  - destruct (smem k _); [auto|]. rewrite nth_add_email_g by assumption. destruct (Nat.eqb d id); cbn [fst]; auto.
  - destruct (smem k _); [auto|]. rewrite nth_add_name_g by assumption.
    destruct (Nat.eqb d id); cbn [fst]; [|auto]. rewrite in_app_iff. auto.
Qed.

Lemma list_key_emails_mono b devs id k d x : id < length devs ->
  In x (emails_of devs d) -> In x (emails_of (list_key b devs id k) d).
Proof.
  intros Hid. unfold list_key, add_email_new, add_name_new. destruct b.
  - destruct (smem k _); [auto|]. rewrite nth_add_email_g by assumption.
    destruct (Nat.eqb d id); cbn [snd]; [|auto]. rewrite in_app_iff. auto.
  - destruct (smem k _); [auto|]. rewrite nth_add_name_g by assumption. destruct (Nat.eqb d id); cbn [snd]; auto.
Qed.

Lemma list_key_listed b devs id k : id < length devs ->
  In k (names_of (list_key b devs id k) id) \/ In k (emails_of (list_key b devs id k) id).
Proof.
  intros Hid. unfold list_key, add_email_new, add_name_new. destruct b.
  - right. destruct (smem k _) eqn:E; [apply smem_In; assumption|].
    rewrite nth_add_email_g by assumption. rewrite Nat.eqb_refl. cbn [snd]. rewrite in_app_iff. simpl. auto.
  - left. destruct (smem k _) eqn:E; [apply smem_In; assumption|].
    rewrite nth_add_name_g by assumption. rewrite Nat.eqb_refl. cbn [fst]. rewrite in_app_iff. simpl. auto.
Qed.

Lemma list_key_nd_names b devs id k d : id < length devs ->
  NoDup (names_of devs d) -> NoDup (names_of (list_key b devs id k) d).
Proof.
  intros Hid H. unfold list_key, add_email_new, add_name_new. destruct b.
  - destruct (smem k _); [auto|]. rewrite nth_add_email_g by assumption. destruct (Nat.eqb d id); cbn [fst]; auto.
  - destruct (smem k _) eqn:E; [auto|]. rewrite nth_add_name_g by assumption.
    destruct (Nat.eqb_spec d id) as [->|]; cbn [fst]; [|auto].
    apply NoDup_snoc; [assumption|]. apply smem_nIn. assumption.
Qed.

Lemma list_key_nd_emails b devs id k d : id < length devs ->
  NoDup (emails_of devs d) -> NoDup (emails_of (list_key b devs id k) d).
Proof.
  intros Hid H. unfold list_key, add_email_new, add_name_new. destruct b.
  - destruct (smem k _) eqn:E; [auto|]. rewrite nth_add_email_g by assumption.
    destruct (Nat.eqb_spec d id) as [->|]; cbn [snd]; [|auto].
    apply NoDup_snoc; [assumption|]. apply smem_nIn. assumption.
  - destruct (smem k _); [auto|]. rewrite nth_add_name_g by assumption. destruct (Nat.eqb d id); cbn [snd]; auto.
Qed.

Lemma is_empty_spec s : is_empty s = true <-> s = [].
Proof. destruct s; simpl; split; congruence. Qed.

Lemma opt_list_In s x : In x (opt_list s) <-> x = s /\ s <> [].
Proof.
  unfold opt_list. destruct s as [|c r]; simpl.
  - split; [intros []|intros [_ H]; congruence].
  - split; [intros [<-|[]]; split; [reflexivity|discriminate]|intros [-> _]; auto].
Qed.

Lemma opt_list_NoDup s : NoDup (opt_list s).
Proof. unfold opt_list. destruct (is_empty s); [constructor|constructor; [intros []|constructor]]. Qed.

Section Proofs.
  Variable lower : str -> str.

  Notation ln c := (lower (c_name c)).
  Notation le c := (lower (c_email c)).
  Notation lk e := (lkey lower e).
  Notation lE e := (ltoE lower e).
  Notation lN e := (ltoN lower e).

  Definition has_key (s : gst) (k : str) : Prop := exists d, sget (g_dict s) k = Some d.

  (* ================= Part A: facts that hold for every mailmap ================= *)
  Definition RInv (s : gst) : Prop := forall k d, sget (g_dict s) k = Some d -> d < length (g_devs s).

  Lemma g_step_RInv s c : RInv s -> RInv (g_step lower s c).
  Proof.
    intros I. unfold g_step.
    destruct (sget (g_dict s) (le c)) as [ide|] eqn:Ee; destruct (sget (g_dict s) (ln c)) as [idn|] eqn:En;
      intros k d; cbn [g_dict g_devs]; try apply I.
    - rewrite add_name_len, sget_sset. destruct (str_eqb (ln c) k); [intros [= <-]; eapply I; eassumption|apply I].
    - rewrite add_email_len, sget_sset. destruct (str_eqb (le c) k); [intros [= <-]; eapply I; eassumption|apply I].
    - rewrite !sget_sset, app_length. simpl.
      destruct (str_eqb (ln c) k); [intros [= <-]; lia|]. destruct (str_eqb (le c) k); [intros [= <-]; lia|].
      intros H. apply I in H. lia.
  Qed.

  Lemma g_step_keys_mono s c k : has_key s k -> has_key (g_step lower s c) k.
  Proof.
    intros [d Hd]. unfold g_step, has_key.
    destruct (sget (g_dict s) (le c)) as [ide|] eqn:Ee; destruct (sget (g_dict s) (ln c)) as [idn|] eqn:En;
      cbn [g_dict]; rewrite ?sget_sset; eauto.
    - destruct (str_eqb (ln c) k); eauto.
    - destruct (str_eqb (le c) k); eauto.
    - destruct (str_eqb (ln c) k); eauto. destruct (str_eqb (le c) k); eauto.
  Qed.

  Lemma g_step_email_key s c : has_key (g_step lower s c) (le c).
  Proof.
    unfold g_step, has_key.
    destruct (sget (g_dict s) (le c)) as [ide|] eqn:Ee; destruct (sget (g_dict s) (ln c)) as [idn|] eqn:En;
      cbn [g_dict]; rewrite ?sget_sset; eauto.
    - destruct (str_eqb (ln c) (le c)); eauto.
    - rewrite str_eqb_refl. eauto.
    - destruct (str_eqb (ln c) (le c)); eauto. rewrite str_eqb_refl. eauto.
  Qed.

  Lemma g_step_keys_from s c k : has_key (g_step lower s c) k -> has_key s k \/ k = ln c \/ k = le c.
  Proof.
    unfold g_step, has_key.
    destruct (sget (g_dict s) (le c)) as [ide|] eqn:Ee; destruct (sget (g_dict s) (ln c)) as [idn|] eqn:En;
      cbn [g_dict]; rewrite ?sget_sset; auto.
    - destruct (str_eqb_spec (ln c) k); auto.
    - destruct (str_eqb_spec (le c) k); auto.
    - destruct (str_eqb_spec (ln c) k); auto. destruct (str_eqb_spec (le c) k); auto.
  Qed.

  Lemma g_fold_general cs : forall s, RInv s ->
    RInv (fold_left (g_step lower) cs s) /\
    (forall k, has_key s k -> has_key (fold_left (g_step lower) cs s) k) /\
    (forall c, In c cs -> has_key (fold_left (g_step lower) cs s) (le c)) /\
    (forall k, has_key (fold_left (g_step lower) cs s) k ->
               has_key s k \/ exists c, In c cs /\ (k = ln c \/ k = le c)).
  Proof.
    induction cs as [|c cs IH]; intros s I; simpl.
    - repeat split; auto. intros c [].
    - destruct (IH (g_step lower s c) (g_step_RInv s c I)) as [I1 [I2 [I3 I4]]].
      split; [assumption|]. split; [|split].
      + intros k H. apply I2, g_step_keys_mono. assumption.
      + intros c' [<-|H]; [apply I2, g_step_email_key|apply I3; assumption].
      + intros k H. destruct (I4 k H) as [H1|[c' [Hc' H1]]].
        * destruct (g_step_keys_from s c k H1) as [H2|H2]; [auto|]. right. exists c. auto.
        * right. exists c'. auto.
  Qed.

  (* the mailmap step *)
  Lemma mm_step_dict s e :
    g_dict (mm_step lower s e) =
    match resolve lower (g_dict s) e with
    | Some id => sset (g_dict s) (lk e) id
    | None =>
        let id := length (g_devs s) in
        let d1 := if is_empty (lE e) then g_dict s else sset (g_dict s) (lE e) id in
        let d2 := if is_empty (lN e) then d1 else sset d1 (lN e) id in
        sset d2 (lk e) id
    end.
  Proof. unfold mm_step. destruct (resolve lower (g_dict s) e); reflexivity. Qed.

  Lemma mm_step_dict_some s e id : resolve lower (g_dict s) e = Some id ->
    sset (g_dict s) (lk e) id = g_dict (mm_step lower s e).
  Proof. intros R. rewrite mm_step_dict, R. reflexivity. Qed.

  Lemma mm_step_devs_length s e :
    length (g_devs (mm_step lower s e)) =
    match resolve lower (g_dict s) e with Some _ => length (g_devs s) | None => S (length (g_devs s)) end.
  Proof.
    unfold mm_step. cbn [g_devs].
    change (if has_at (lk e) then add_email_new ?a ?b ?c else add_name_new ?a ?b ?c) with (list_key (has_at (lk e)) a b c).
    rewrite list_key_length. destruct (resolve lower (g_dict s) e); cbn [g_devs]; [reflexivity|].
    rewrite app_length. simpl. lia.
  Qed.

  Definition newkey (e : mentry) (k : str) : bool :=
    str_eqb (lk e) k || (negb (is_empty (lE e)) && str_eqb (lE e) k) || (negb (is_empty (lN e)) && str_eqb (lN e) k).

  (* lookups after the "new developer" branch *)
  Lemma new_branch_get (dict : list (str * nat)) e id k :
    sget (sset (let d1 := if is_empty (lE e) then dict else sset dict (lE e) id in
                if is_empty (lN e) then d1 else sset d1 (lN e) id) (lk e) id) k =
    if newkey e k then Some id else sget dict k.
  Proof.
    unfold newkey. cbv zeta. destruct (is_empty (lE e)), (is_empty (lN e)); cbn [negb andb];
      rewrite ?sget_sset; destruct (str_eqb (lk e) k), (str_eqb (lE e) k), (str_eqb (lN e) k); reflexivity.
  Qed.

  Lemma resolve_some (dict : list (str * nat)) e id : resolve lower dict e = Some id ->
    sget dict (lE e) = Some id \/ sget dict (lN e) = Some id.
  Proof. unfold resolve. destruct (sget dict (lE e)); [intros [= ->]; auto|auto]. Qed.

  Lemma resolve_none (dict : list (str * nat)) e : resolve lower dict e = None -> sget dict (lE e) = None /\ sget dict (lN e) = None.
  Proof. unfold resolve. destruct (sget dict (lE e)); [discriminate|auto]. Qed.

  Lemma mm_step_RInv s e : RInv s -> RInv (mm_step lower s e).
  Proof.
    intros I k d. rewrite mm_step_devs_length, mm_step_dict.
    destruct (resolve lower (g_dict s) e) as [id|] eqn:R.
    - rewrite sget_sset. destruct (str_eqb (lk e) k); [|apply I].
      intros [= <-]. destruct (resolve_some _ _ _ R) as [H|H]; eapply I; eassumption.
    - rewrite new_branch_get. destruct (newkey e k); [intros [= <-]; lia|]. intros H. apply I in H. lia.
  Qed.

  Lemma mm_step_keys_from s e k : has_key (mm_step lower s e) k ->
    has_key s k \/ k = lk e \/ (k = lE e /\ lE e <> []) \/ (k = lN e /\ lN e <> []).
  Proof.
    unfold has_key. rewrite mm_step_dict. destruct (resolve lower (g_dict s) e) as [id|] eqn:R.
    - rewrite sget_sset. destruct (str_eqb_spec (lk e) k); auto.
    - rewrite new_branch_get. unfold newkey.
      destruct (str_eqb_spec (lk e) k); [auto|]. cbn [orb].
      destruct (is_empty (lE e)) eqn:E1; cbn [negb andb orb].
      + destruct (is_empty (lN e)) eqn:E2; cbn [negb andb]; [auto|].
        destruct (str_eqb_spec (lN e) k); [|auto]. intros _. right. right. right. split; [auto|].
        intros H. apply is_empty_spec in H. congruence.
      + destruct (str_eqb_spec (lE e) k).
        { intros _. right. right. left. split; [auto|]. intros H. apply is_empty_spec in H. congruence. }
        cbn [orb]. destruct (is_empty (lN e)) eqn:E2; cbn [negb andb]; [auto|].
        destruct (str_eqb_spec (lN e) k); [|auto]. intros _. right. right. right. split; [auto|].
        intros H. apply is_empty_spec in H. congruence.
  Qed.

  Lemma m_fold_general l : forall s, RInv s ->
    RInv (fold_left (mm_step lower) l s) /\
    (forall k, has_key (fold_left (mm_step lower) l s) k ->
       has_key s k \/ exists e, In e l /\ (k = lk e \/ (k = lE e /\ lE e <> []) \/ (k = lN e /\ lN e <> []))).
  Proof.
    induction l as [|e l IH]; intros s I; simpl; [auto|].
    destruct (IH (mm_step lower s e) (mm_step_RInv s e I)) as [I1 I2]. split; [assumption|].
    intros k H. destruct (I2 k H) as [H1|[e' [He' H1]]].
    - destruct (mm_step_keys_from s e k H1) as [H2|H2]; [auto|]. right. exists e. auto.
    - right. exists e'. auto.
  Qed.

  Lemma RInv_init : RInv g_init.
  Proof. intros k d. simpl. discriminate. Qed.

  Lemma gen_mm_inv order morder mm cs dict rev :
    generate_people_dict_mm lower order morder mm cs = Some (dict, rev) ->
    dict = g_dict (gm_run lower morder mm cs) /\ rev = g_reverse order (gm_run lower morder mm cs).
  Proof. destruct cs; simpl; [discriminate|]. intros [= <- <-]. split; reflexivity. Qed.

  Lemma gm_email_key order morder mm cs dict rev :
    generate_people_dict_mm lower order morder mm cs = Some (dict, rev) ->
    forall c, In c cs -> exists d, sget dict (le c) = Some d /\ d < length rev.
  Proof.
    intros H c Hc. apply gen_mm_inv in H. destruct H as [-> ->].
    destruct (m_fold_general (morder mm) g_init RInv_init) as [I0 _].
    destruct (g_fold_general cs _ I0) as [I1 [_ [I3 _]]].
    destruct (I3 c Hc) as [d Hd]. exists d. split; [exact Hd|].
    rewrite g_reverse_length. eapply I1. eassumption.
  Qed.

  Theorem gm_total order morder mm cs dict rev :
    generate_people_dict_mm lower order morder mm cs = Some (dict, rev) ->
    forall c, In c cs ->
    exists d, lookup_author lower false dict c = Some d /\ consume lower false dict c = Z.of_nat d /\ d < length rev.
  Proof.
    intros H c Hc. destruct (gm_email_key _ _ _ _ _ _ H c Hc) as [d [Hd Hlt]].
    exists d. unfold consume, lookup_author. rewrite Hd. auto.
  Qed.

  Theorem gm_same_email order morder mm cs dict rev :
    generate_people_dict_mm lower order morder mm cs = Some (dict, rev) ->
    forall c1 c2, In c1 cs -> In c2 cs -> lower (c_email c1) = lower (c_email c2) ->
    consume lower false dict c1 = consume lower false dict c2.
  Proof.
    intros H c1 c2 H1 H2 E. unfold consume, lookup_author. rewrite <- E.
    destruct (gm_email_key _ _ _ _ _ _ H c1 H1) as [d [Hd _]]. rewrite Hd. reflexivity.
  Qed.

  (* every key of PeopleDict is a lower-cased name or e-mail of a commit, or the lower-cased key, canonical
     e-mail or canonical name of a mailmap entry *)
  Theorem gm_dict_keys order morder mm cs dict rev : (forall e, In e (morder mm) -> In e mm) ->
    generate_people_dict_mm lower order morder mm cs = Some (dict, rev) ->
    forall k d, sget dict k = Some d -> key_used_mm lower cs mm k = true.
  Proof.
    intros Hm H k d Hk. apply gen_mm_inv in H. destruct H as [-> _].
    destruct (m_fold_general (morder mm) g_init RInv_init) as [I0 J0].
    destruct (g_fold_general cs _ I0) as [_ [_ [_ I4]]].
    unfold key_used_mm. apply orb_true_iff.
    destruct (I4 k (ex_intro _ d Hk)) as [H1|[c [Hc H1]]].
    - right. destruct (J0 k H1) as [[d' H2]|[e [He H2]]]; [simpl in H2; discriminate|].
      apply existsb_exists. exists e. split; [apply Hm; assumption|].
      destruct H2 as [->|[[-> H2]|[-> H2]]].
      + rewrite str_eqb_refl. reflexivity.
      + rewrite str_eqb_refl. destruct (is_empty (lE e)) eqn:E; [apply is_empty_spec in E; congruence|].
        simpl. rewrite orb_true_r. reflexivity.
      + rewrite str_eqb_refl. destruct (is_empty (lN e)) eqn:E; [apply is_empty_spec in E; congruence|].
        simpl. rewrite !orb_true_r. reflexivity.
    - left. unfold key_used. apply existsb_exists. exists c. split; [assumption|].
      destruct H1 as [->| ->]; rewrite str_eqb_refl; [reflexivity|apply orb_true_r].
  Qed.

  (* ================= Part B: the weak invariant and the commit loop ================= *)
  Record WInv (s : gst) : Prop := {
    w_nodup : keys_nodup (g_dict s);
    w_range : forall k d, sget (g_dict s) k = Some d -> d < length (g_devs s);
    w_listed : forall k d, sget (g_dict s) k = Some d ->
        In k (names_of (g_devs s) d) \/ In k (emails_of (g_devs s) d);
    w_names : forall d k, In k (names_of (g_devs s) d) -> sget (g_dict s) k = Some d;
    w_emails : forall d k, In k (emails_of (g_devs s) d) -> sget (g_dict s) k = Some d;
    w_nd_names : forall d, NoDup (names_of (g_devs s) d);
    w_nd_emails : forall d, NoDup (emails_of (g_devs s) d);
    w_inhab : forall d, d < length (g_devs s) -> exists k, sget (g_dict s) k = Some d
  }.

  Lemma WInv_init : WInv g_init.
  Proof.
    constructor; simpl; try (intros; discriminate); try (intros; lia).
    - constructor.
    - intros [|d] k; simpl; intros [].
    - intros [|d] k; simpl; intros [].
    - intros [|d]; constructor.
    - intros [|d]; constructor.
  Qed.

  Lemma nth_snoc_dev devs (x : list str * list str) d :
    nth d (devs ++ [x]) ([], []) =
    if Nat.ltb d (length devs) then nth d devs ([], []) else if Nat.eqb d (length devs) then x else ([], []).
  Proof.
    destruct (Nat.ltb_spec d (length devs)) as [Hd|Hd]; [apply app_nth1; assumption|].
    rewrite app_nth2 by assumption.
    destruct (Nat.eqb_spec d (length devs)) as [->|Hd2]; [rewrite Nat.sub_diag; reflexivity|].
    destruct (d - length devs) as [|[|y]] eqn:E; try reflexivity. lia.
  Qed.

  Lemma g_step_WInv s c : WInv s -> WInv (g_step lower s c).
  Proof.
    intros I. unfold g_step.
    destruct (sget (g_dict s) (le c)) as [ide|] eqn:Ee; destruct (sget (g_dict s) (ln c)) as [idn|] eqn:En.
    - assumption.
    - (* e-mail known, name new *)
      pose proof (w_range _ I _ _ Ee) as Hide.
      constructor; cbn [g_dict g_devs].
      + apply sset_keys_nodup, (w_nodup _ I).
      + intros k d. rewrite add_name_len, sget_sset.
        destruct (str_eqb (ln c) k); [intros [= <-]; assumption|apply (w_range _ I)].
      + intros k d. rewrite sget_sset, nth_add_name_g by assumption.
        destruct (str_eqb_spec (ln c) k) as [<-|Hk].
        * intros [= <-]. rewrite Nat.eqb_refl. cbn [fst]. left. rewrite in_app_iff. simpl. auto.
        * intros H. destruct (w_listed _ I _ _ H) as [H1|H1]; destruct (Nat.eqb d ide); cbn [fst snd]; auto.
          left. rewrite in_app_iff. auto.
      + intros d k. rewrite nth_add_name_g by assumption. rewrite sget_sset.
        destruct (Nat.eqb_spec d ide) as [->|Hd]; cbn [fst].
        * rewrite in_app_iff. simpl. intros [H|[<-|[]]]; [|rewrite str_eqb_refl; reflexivity].
          apply (w_names _ I) in H. destruct (str_eqb_spec (ln c) k) as [<-|]; [congruence|assumption].
        * intros H. apply (w_names _ I) in H. destruct (str_eqb_spec (ln c) k) as [<-|]; [congruence|assumption].
      + intros d k. rewrite nth_add_name_g by assumption. rewrite sget_sset.
        intros H. assert (H' : In k (emails_of (g_devs s) d)) by (destruct (Nat.eqb d ide); exact H).
        apply (w_emails _ I) in H'. destruct (str_eqb_spec (ln c) k) as [<-|]; [congruence|assumption].
      + intros d. destruct (Nat.ltb_spec d (length (g_devs s))) as [Hd|Hd].
        * rewrite nth_add_name_g by assumption. destruct (Nat.eqb_spec d ide) as [->|]; cbn [fst].
          -- apply NoDup_snoc; [apply (w_nd_names _ I)|]. intros H. apply (w_names _ I) in H. congruence.
          -- apply (w_nd_names _ I).
        * rewrite nth_overflow by (rewrite add_name_len; lia). constructor.
      + intros d. destruct (Nat.ltb_spec d (length (g_devs s))) as [Hd|Hd].
        * rewrite nth_add_name_g by assumption. destruct (Nat.eqb d ide); cbn [snd]; apply (w_nd_emails _ I).
        * rewrite nth_overflow by (rewrite add_name_len; lia). constructor.
      + intros d. rewrite add_name_len. intros Hd. destruct (w_inhab _ I d Hd) as [k Hk].
        exists k. rewrite sget_sset. destruct (str_eqb_spec (ln c) k) as [<-|]; [congruence|assumption].
    - (* name known, e-mail new *)
      pose proof (w_range _ I _ _ En) as Hidn.
      constructor; cbn [g_dict g_devs].
      + apply sset_keys_nodup, (w_nodup _ I).
      + intros k d. rewrite add_email_len, sget_sset.
        destruct (str_eqb (le c) k); [intros [= <-]; assumption|apply (w_range _ I)].
      + intros k d. rewrite sget_sset, nth_add_email_g by assumption.
        destruct (str_eqb_spec (le c) k) as [<-|Hk].
        * intros [= <-]. rewrite Nat.eqb_refl. cbn [snd]. right. rewrite in_app_iff. simpl. auto.
        * intros H. destruct (w_listed _ I _ _ H) as [H1|H1]; destruct (Nat.eqb d idn); cbn [fst snd]; auto.
          right. rewrite in_app_iff. auto.
      + intros d k. rewrite nth_add_email_g by assumption. rewrite sget_sset.
        intros H. assert (H' : In k (names_of (g_devs s) d)) by (destruct (Nat.eqb d idn); exact H).
        apply (w_names _ I) in H'. destruct (str_eqb_spec (le c) k) as [<-|]; [congruence|assumption].
      + intros d k. rewrite nth_add_email_g by assumption. rewrite sget_sset.
        destruct (Nat.eqb_spec d idn) as [->|Hd]; cbn [snd].
        * rewrite in_app_iff. simpl. intros [H|[<-|[]]]; [|rewrite str_eqb_refl; reflexivity].
          apply (w_emails _ I) in H. destruct (str_eqb_spec (le c) k) as [<-|]; [congruence|assumption].
        * intros H. apply (w_emails _ I) in H. destruct (str_eqb_spec (le c) k) as [<-|]; [congruence|assumption].
      + intros d. destruct (Nat.ltb_spec d (length (g_devs s))) as [Hd|Hd].
        * rewrite nth_add_email_g by assumption. destruct (Nat.eqb d idn); cbn [fst]; apply (w_nd_names _ I).
        * rewrite nth_overflow by (rewrite add_email_len; lia). constructor.
      + intros d. destruct (Nat.ltb_spec d (length (g_devs s))) as [Hd|Hd].
        * rewrite nth_add_email_g by assumption. destruct (Nat.eqb_spec d idn) as [->|]; cbn [snd].
          -- apply NoDup_snoc; [apply (w_nd_emails _ I)|]. intros H. apply (w_emails _ I) in H. congruence.
          -- apply (w_nd_emails _ I).
        * rewrite nth_overflow by (rewrite add_email_len; lia). constructor.
      + intros d. rewrite add_email_len. intros Hd. destruct (w_inhab _ I d Hd) as [k Hk].
        exists k. rewrite sget_sset. destruct (str_eqb_spec (le c) k) as [<-|]; [congruence|assumption].
    - (* a new developer *)
      set (size := length (g_devs s)).
      assert (Hget : forall k, sget (sset (sset (g_dict s) (le c) size) (ln c) size) k =
                     if str_eqb (ln c) k || str_eqb (le c) k then Some size else sget (g_dict s) k).
      { intros k. rewrite !sget_sset. destruct (str_eqb (ln c) k), (str_eqb (le c) k); reflexivity. }
      assert (Hold : forall k d, sget (g_dict s) k = Some d -> str_eqb (ln c) k || str_eqb (le c) k = false).
      { intros k d H. destruct (str_eqb_spec (ln c) k) as [<-|]; [congruence|].
        destruct (str_eqb_spec (le c) k) as [<-|]; [congruence|]. reflexivity. }
      constructor; cbn [g_dict g_devs]; fold size.
      + apply sset_keys_nodup, sset_keys_nodup, (w_nodup _ I).
      + intros k d. rewrite Hget, app_length. simpl. fold size.
        destruct (str_eqb (ln c) k || str_eqb (le c) k); [intros [= <-]; lia|].
        intros H. apply (w_range _ I) in H. fold size in H. lia.
      + intros k d. rewrite Hget, nth_snoc_dev. fold size.
        destruct (str_eqb (ln c) k || str_eqb (le c) k) eqn:E.
        * intros [= <-]. rewrite Nat.ltb_irrefl, Nat.eqb_refl. cbn [fst snd In].
          apply orb_true_iff in E. destruct E as [E|E]; apply str_eqb_eq in E; auto.
        * intros H. pose proof (w_range _ I _ _ H) as Hd. fold size in Hd.
          apply Nat.ltb_lt in Hd. rewrite Hd. apply (w_listed _ I). assumption.
      + intros d k. rewrite nth_snoc_dev, Hget. fold size.
        destruct (Nat.ltb d size).
        * intros H. apply (w_names _ I) in H. rewrite (Hold _ _ H). assumption.
        * destruct (Nat.eqb_spec d size) as [->|]; cbn [fst In]; [|intros []].
          intros [<-|[]]. rewrite str_eqb_refl. reflexivity.
      + intros d k. rewrite nth_snoc_dev, Hget. fold size.
        destruct (Nat.ltb d size).
        * intros H. apply (w_emails _ I) in H. rewrite (Hold _ _ H). assumption.
        * destruct (Nat.eqb_spec d size) as [->|]; cbn [snd In]; [|intros []].
          intros [<-|[]]. rewrite str_eqb_refl, orb_true_r. reflexivity.
      + intros d. rewrite nth_snoc_dev. fold size. destruct (Nat.ltb d size); [apply (w_nd_names _ I)|].
        destruct (Nat.eqb d size); cbn [fst]; [constructor; [intros []|constructor]|constructor].
      + intros d. rewrite nth_snoc_dev. fold size. destruct (Nat.ltb d size); [apply (w_nd_emails _ I)|].
        destruct (Nat.eqb d size); cbn [snd]; [constructor; [intros []|constructor]|constructor].
      + intros d. rewrite app_length. simpl. fold size. intros Hd.
        destruct (Nat.ltb_spec d size) as [Hd1|Hd1].
        * destruct (w_inhab _ I d Hd1) as [k Hk]. exists k. rewrite Hget, (Hold _ _ Hk). assumption.
        * exists (ln c). rewrite Hget, str_eqb_refl. simpl. f_equal. lia.
  Qed.

  Lemma g_fold_WInv cs : forall s, WInv s -> WInv (fold_left (g_step lower) cs s).
  Proof. induction cs as [|c cs IH]; intros s I; simpl; [assumption|]. apply IH, g_step_WInv, I. Qed.

  (* ================= Part C: one step of the mailmap loop ================= *)
  (* the step does not re-point a key that is already in the dictionary *)
  Definition step_safe (s : gst) (e : mentry) : Prop :=
    forall id', sget (g_dict s) (lk e) = Some id' -> resolve lower (g_dict s) e = Some id'.

  (* before the key is appended to names[id] / emails[id] *)
  Record PInv (s : gst) (key : str) (id : nat) : Prop := {
    p_nodup : keys_nodup (g_dict s);
    p_range : forall k d, sget (g_dict s) k = Some d -> d < length (g_devs s);
    p_listed : forall k d, sget (g_dict s) k = Some d ->
        (k = key /\ d = id) \/ In k (names_of (g_devs s) d) \/ In k (emails_of (g_devs s) d);
    p_names : forall d k, In k (names_of (g_devs s) d) -> sget (g_dict s) k = Some d;
    p_emails : forall d k, In k (emails_of (g_devs s) d) -> sget (g_dict s) k = Some d;
    p_nd_names : forall d, NoDup (names_of (g_devs s) d);
    p_nd_emails : forall d, NoDup (emails_of (g_devs s) d);
    p_inhab : forall d, d < length (g_devs s) -> exists k, sget (g_dict s) k = Some d;
    p_key : sget (g_dict s) key = Some id
  }.

  Lemma PInv_list s key id b : PInv s key id -> WInv (mkG (g_dict s) (list_key b (g_devs s) id key)).
  Proof.
    intros P. pose proof (p_range _ _ _ P _ _ (p_key _ _ _ P)) as Hid.
    constructor; cbn [g_dict g_devs].
    - apply (p_nodup _ _ _ P).
    - intros k d. rewrite list_key_length. apply (p_range _ _ _ P).
    - intros k d H. destruct (p_listed _ _ _ P _ _ H) as [[-> ->]|[H1|H1]].
      + apply list_key_listed. assumption.
      + left. apply list_key_names_mono; assumption.
      + right. apply list_key_emails_mono; assumption.
    - intros d k H. apply list_key_names in H; [|assumption]. destruct H as [H|[-> ->]].
      + apply (p_names _ _ _ P). assumption.
      + apply (p_key _ _ _ P).
    - intros d k H. apply list_key_emails in H; [|assumption]. destruct H as [H|[-> ->]].
      + apply (p_emails _ _ _ P). assumption.
      + apply (p_key _ _ _ P).
    - intros d. apply list_key_nd_names; [assumption|apply (p_nd_names _ _ _ P)].
    - intros d. apply list_key_nd_emails; [assumption|apply (p_nd_emails _ _ _ P)].
    - intros d. rewrite list_key_length. apply (p_inhab _ _ _ P).
  Qed.

  Lemma newkey_absent s e k : resolve lower (g_dict s) e = None -> step_safe s e ->
    newkey e k = true -> sget (g_dict s) k = None.
  Proof.
    intros R Hs. destruct (resolve_none _ _ R) as [RE RN]. unfold newkey.
    intros H. apply orb_true_iff in H. destruct H as [H|H].
    - apply orb_true_iff in H. destruct H as [H|H].
      + apply str_eqb_eq in H. subst k. destruct (sget (g_dict s) (lk e)) as [id'|] eqn:E; [|reflexivity].
        apply Hs in E. congruence.
      + apply andb_true_iff in H. destruct H as [_ H]. apply str_eqb_eq in H. subst k. assumption.
    - apply andb_true_iff in H. destruct H as [_ H]. apply str_eqb_eq in H. subst k. assumption.
  Qed.

  Lemma mm_step_WInv s e : WInv s -> step_safe s e -> WInv (mm_step lower s e).
  Proof.
    intros I Hs. unfold mm_step.
    change (if has_at (lk e) then add_email_new ?a ?b ?c else add_name_new ?a ?b ?c) with (list_key (has_at (lk e)) a b c).
    destruct (resolve lower (g_dict s) e) as [id|] eqn:R.
    - (* an existing developer *)
      apply (PInv_list (mkG (sset (g_dict s) (lk e) id) (g_devs s)) (lk e) id).
      assert (Hid : id < length (g_devs s)).
      { destruct (resolve_some _ _ _ R) as [H|H]; apply (w_range _ I) in H; assumption. }
      assert (Hmono : forall k d, sget (g_dict s) k = Some d -> sget (sset (g_dict s) (lk e) id) k = Some d).
      { intros k d H. rewrite sget_sset. destruct (str_eqb_spec (lk e) k) as [<-|]; [|assumption].
        apply Hs in H. congruence. }
      constructor; cbn [g_dict g_devs].
      + apply sset_keys_nodup, (w_nodup _ I).
      + intros k d. rewrite sget_sset. destruct (str_eqb (lk e) k); [intros [= <-]; assumption|apply (w_range _ I)].
      + intros k d. rewrite sget_sset. destruct (str_eqb_spec (lk e) k) as [<-|]; [intros [= <-]; auto|].
        intros H. right. apply (w_listed _ I). assumption.
      + intros d k H. apply Hmono, (w_names _ I). assumption.
      + intros d k H. apply Hmono, (w_emails _ I). assumption.
      + apply (w_nd_names _ I).
      + apply (w_nd_emails _ I).
      + intros d Hd. destruct (w_inhab _ I d Hd) as [k Hk]. exists k. apply Hmono. assumption.
      + apply sget_sset_same.
    - (* a new developer *)
      set (id := length (g_devs s)).
      match goal with |- WInv (mkG (g_dict ?s1) (list_key ?b (g_devs ?s1) id ?k)) => apply (PInv_list s1 k id) end.
      pose proof (newkey_absent s e) as Habs. specialize (fun k => Habs k R Hs).
      assert (Hold : forall k d, sget (g_dict s) k = Some d -> newkey e k = false).
      { intros k d H. destruct (newkey e k) eqn:E; [|reflexivity]. apply Habs in E. congruence. }
      constructor; cbn [g_dict g_devs]; fold id.
      + apply sset_keys_nodup. destruct (is_empty (lN e)), (is_empty (lE e));
          repeat apply sset_keys_nodup; apply (w_nodup _ I).
      + intros k d. rewrite new_branch_get, app_length. simpl. fold id.
        destruct (newkey e k); [intros [= <-]; lia|]. intros H. apply (w_range _ I) in H. fold id in H. lia.
      + intros k d. rewrite new_branch_get, nth_snoc_dev. fold id.
        destruct (newkey e k) eqn:E.
        * intros [= <-]. rewrite Nat.ltb_irrefl, Nat.eqb_refl. cbn [fst snd]. unfold newkey in E.
          apply orb_true_iff in E. destruct E as [E|E].
          -- apply orb_true_iff in E. destruct E as [E|E].
             ++ apply str_eqb_eq in E. auto.
             ++ apply andb_true_iff in E. destruct E as [E1 E2]. apply str_eqb_eq in E2. apply negb_true_iff in E1.
                right. right. apply opt_list_In. split; [auto|]. intros H. apply is_empty_spec in H. congruence.
          -- apply andb_true_iff in E. destruct E as [E1 E2]. apply str_eqb_eq in E2. apply negb_true_iff in E1.
             right. left. apply opt_list_In. split; [auto|]. intros H. apply is_empty_spec in H. congruence.
        * intros H. pose proof (w_range _ I _ _ H) as Hd. fold id in Hd. apply Nat.ltb_lt in Hd. rewrite Hd.
          right. apply (w_listed _ I). assumption.
      + intros d k. rewrite nth_snoc_dev, new_branch_get. fold id.
        destruct (Nat.ltb d id).
        * intros H. apply (w_names _ I) in H. rewrite (Hold _ _ H). assumption.
        * destruct (Nat.eqb_spec d id) as [->|]; cbn [fst]; [|intros []].
          intros H. apply opt_list_In in H. destruct H as [-> H].
          unfold newkey. rewrite str_eqb_refl.
          destruct (is_empty (lN e)) eqn:E; [apply is_empty_spec in E; congruence|].
          simpl. rewrite !orb_true_r. reflexivity.
      + intros d k. rewrite nth_snoc_dev, new_branch_get. fold id.
        destruct (Nat.ltb d id).
        * intros H. apply (w_emails _ I) in H. rewrite (Hold _ _ H). assumption.
        * destruct (Nat.eqb_spec d id) as [->|]; cbn [snd]; [|intros []].
          intros H. apply opt_list_In in H. destruct H as [-> H].
          unfold newkey. rewrite str_eqb_refl.
          destruct (is_empty (lE e)) eqn:E; [apply is_empty_spec in E; congruence|].
          simpl. rewrite orb_true_r. reflexivity.
      + intros d. rewrite nth_snoc_dev. fold id. destruct (Nat.ltb d id); [apply (w_nd_names _ I)|].
        destruct (Nat.eqb d id); cbn [fst]; [apply opt_list_NoDup|constructor].
      + intros d. rewrite nth_snoc_dev. fold id. destruct (Nat.ltb d id); [apply (w_nd_emails _ I)|].
        destruct (Nat.eqb d id); cbn [snd]; [apply opt_list_NoDup|constructor].
      + intros d. rewrite app_length. simpl. fold id. intros Hd.
        destruct (Nat.ltb_spec d id) as [Hd1|Hd1].
        * destruct (w_inhab _ I d Hd1) as [k Hk]. exists k. rewrite new_branch_get, (Hold _ _ Hk). assumption.
        * exists (lk e). rewrite new_branch_get. unfold newkey. rewrite str_eqb_refl. simpl. f_equal. lia.
      + rewrite new_branch_get. unfold newkey. rewrite str_eqb_refl. reflexivity.
  Qed.

  (* the dictionary only grows under a safe step *)
  Lemma mm_step_mono s e : step_safe s e ->
    forall k d, sget (g_dict s) k = Some d -> sget (g_dict (mm_step lower s e)) k = Some d.
  Proof.
    intros Hs k d H. rewrite mm_step_dict. destruct (resolve lower (g_dict s) e) as [id|] eqn:R.
    - rewrite sget_sset. destruct (str_eqb_spec (lk e) k) as [<-|]; [|assumption]. apply Hs in H. congruence.
    - rewrite new_branch_get. destruct (newkey e k) eqn:E; [|assumption].
      apply (newkey_absent s e k R Hs) in E. congruence.
  Qed.

  (* ================= Part D: in the domain every step is safe ================= *)
  Record MDom (l : list mentry) : Prop := {
    md_nodup : NoDup (map (lkey lower) l);
    md_nonempty : forall e, In e l -> lk e <> [];
    md_canon : forall e1 e2, In e1 l -> In e2 l -> lk e1 = lE e2 \/ lk e1 = lN e2 -> lE e1 = lE e2 /\ lN e1 = lN e2
  }.

  (* both canonical strings of the entry (those that are not empty) are attached to one developer *)
  Definition coherent (s : gst) (e : mentry) : Prop :=
    exists d, (lE e <> [] -> sget (g_dict s) (lE e) = Some d) /\ (lN e <> [] -> sget (g_dict s) (lN e) = Some d).

  (* the key of the entry is attached to the developer of its canonical e-mail or canonical name *)
  Definition honoured (dict : list (str * nat)) (e : mentry) : Prop :=
    exists d, sget dict (lk e) = Some d /\
              (sget dict (lE e) = Some d \/ sget dict (lN e) = Some d \/ (lE e = [] /\ lN e = [])).

  Record MI (pre : list mentry) (s : gst) : Prop := {
    mi_w : WInv s;
    mi_noempty : sget (g_dict s) [] = None;
    mi_origin : forall k d, sget (g_dict s) k = Some d ->
        (exists e, In e pre /\ k = lk e) \/
        (exists e, In e pre /\ (k = lE e \/ k = lN e) /\ coherent s e);
    mi_honoured : forall e, In e pre -> honoured (g_dict s) e
  }.

  Lemma MI_init : MI [] g_init.
  Proof. constructor; [apply WInv_init|reflexivity|simpl; intros; discriminate|intros e []]. Qed.

  Lemma MI_safe l pre e post s : MDom l -> l = pre ++ e :: post -> MI pre s -> step_safe s e.
  Proof.
    intros D -> M id' Hk.
    assert (Hin : forall x, In x pre -> In x (pre ++ e :: post)) by (intros; apply in_or_app; auto).
    assert (He : In e (pre ++ e :: post)) by (apply in_or_app; right; left; reflexivity).
    destruct (mi_origin _ _ M _ _ Hk) as [[e' [He' E]]|[e' [He' [E [d [C1 C2]]]]]].
    - (* another processed entry with the same lower-cased key: excluded *)
      exfalso. pose proof (md_nodup _ D) as N. rewrite map_app in N. simpl in N.
      apply NoDup_remove_2 in N. apply N. apply in_or_app. left. rewrite E. apply in_map. assumption.
    - (* the key is a canonical string of a coherent processed entry with the same canonical pair *)
      destruct (md_canon _ D e e' He (Hin _ He') E) as [EE EN].
      pose proof (md_nonempty _ D e He) as Hne.
      unfold resolve. rewrite EE, EN.
      destruct E as [E|E].
      + (* key = canonical e-mail *)
        rewrite <- E. rewrite Hk. reflexivity.
      + (* key = canonical name *)
        assert (HN : lN e' <> []) by congruence.
        specialize (C2 HN). rewrite <- E in C2. assert (d = id') by congruence. subst d.
        destruct (lE e') as [|x r] eqn:EE'.
        * rewrite (mi_noempty _ _ M). rewrite <- E. assumption.
        * rewrite C1 by discriminate. reflexivity.
  Qed.

  Lemma MI_step l pre e post s : MDom l -> l = pre ++ e :: post -> MI pre s -> MI (pre ++ [e]) (mm_step lower s e).
  Proof.
    intros D El M. pose proof (MI_safe l pre e post s D El M) as Hs.
    pose proof (mm_step_mono s e Hs) as Hmono.
    assert (He : In e l) by (rewrite El; apply in_or_app; right; left; reflexivity).
    pose proof (md_nonempty _ D e He) as Hne.
    constructor.
    - apply mm_step_WInv; [apply (mi_w _ _ M)|assumption].
    - rewrite mm_step_dict. destruct (resolve lower (g_dict s) e) as [id|] eqn:R.
      + rewrite sget_sset_other by assumption. apply (mi_noempty _ _ M).
      + rewrite new_branch_get. unfold newkey.
        destruct (str_eqb_spec (lk e) []) as [E|_]; [congruence|].
        destruct (lE e) as [|x r]; destruct (lN e) as [|y t]; simpl; apply (mi_noempty _ _ M).
    - assert (Hcoh : forall e', coherent s e' -> coherent (mm_step lower s e) e').
      { intros e' [d [C1 C2]]. exists d. split; intros H; apply Hmono; auto. }
      intros k d Hk.
      destruct (sget (g_dict s) k) as [d0|] eqn:Hold.
      + (* an old key *)
        destruct (mi_origin _ _ M _ _ Hold) as [[e' [He' E]]|[e' [He' [E C]]]].
        * left. exists e'. split; [apply in_or_app; auto|assumption].
        * right. exists e'. split; [apply in_or_app; auto|]. split; [assumption|apply Hcoh; assumption].
      + (* a key added by this step *)
        destruct (mm_step_keys_from s e k (ex_intro _ d Hk)) as [[d' H]|[->|H]]; [congruence| |].
        * left. exists e. split; [apply in_or_app; right; left; reflexivity|reflexivity].
        * destruct (resolve lower (g_dict s) e) as [id|] eqn:R.
          { (* no developer was created: the only new key is the key of the entry *)
            left. exists e. split; [apply in_or_app; right; left; reflexivity|].
            rewrite mm_step_dict, R, sget_sset in Hk.
            destruct (str_eqb_spec (lk e) k) as [<-|]; [reflexivity|congruence]. }
          right. exists e. split; [apply in_or_app; right; left; reflexivity|].
          split; [destruct H as [[-> _]|[-> _]]; auto|].
          (* the step created a developer: both canonical strings point to it *)
          exists (length (g_devs s)). split; intros Hx; rewrite mm_step_dict, R, new_branch_get; unfold newkey;
            rewrite str_eqb_refl.
          -- destruct (is_empty (lE e)) eqn:E1; [apply is_empty_spec in E1; congruence|].
             simpl. rewrite orb_true_r. reflexivity.
          -- destruct (is_empty (lN e)) eqn:E1; [apply is_empty_spec in E1; congruence|].
             simpl. rewrite !orb_true_r. reflexivity.
    - intros e' He'. apply in_app_or in He'. destruct He' as [He'|[<-|[]]].
      + destruct (mi_honoured _ _ M e' He') as [d [H1 H2]]. exists d. split; [apply Hmono; assumption|].
        destruct H2 as [H2|[H2|H2]]; auto.
      + destruct (resolve lower (g_dict s) e) as [id|] eqn:R.
        * exists id. split; [rewrite mm_step_dict, R; apply sget_sset_same|].
          destruct (resolve_some _ _ _ R) as [H|H]; [left|right; left]; apply Hmono; assumption.
        * exists (length (g_devs s)). rewrite mm_step_dict, R. rewrite !new_branch_get. unfold newkey. rewrite !str_eqb_refl.
          split; [reflexivity|].
          destruct (lE e) as [|x r]; [|left; simpl; rewrite orb_true_r; reflexivity].
          destruct (lN e) as [|y t]; [right; right; auto|right; left; simpl; rewrite !orb_true_r; reflexivity].
  Qed.

  Lemma MI_fold l : MDom l -> forall post pre s, l = pre ++ post -> MI pre s -> MI l (fold_left (mm_step lower) post s).
  Proof.
    intros D. induction post as [|e post IH]; intros pre s El M; simpl.
    - rewrite app_nil_r in El. subst. assumption.
    - apply (IH (pre ++ [e])).
      + rewrite <- app_assoc. assumption.
      + eapply MI_step; eassumption.
  Qed.

  (* the boolean domain predicate *)
  Lemma all_pairs_nodup_map {A} (f : A -> str) (l : list A) :
    all_pairs (fun x y => negb (str_eqb (f x) (f y))) l = true -> NoDup (map f l).
  Proof.
    induction l as [|x r IH]; simpl; intros H; [constructor|].
    apply andb_true_iff in H. destruct H as [H1 H2]. constructor; [|apply IH; assumption].
    intros Hin. apply in_map_iff in Hin. destruct Hin as [y [E Hy]].
    rewrite forallb_forall in H1. specialize (H1 _ Hy). rewrite E, str_eqb_refl in H1. discriminate.
  Qed.

  Lemma mm_domb_MDom mm : mm_domb lower mm = true -> MDom mm.
  Proof.
    unfold mm_domb. intros H. apply andb_true_iff in H. destruct H as [H H3].
    apply andb_true_iff in H. destruct H as [H1 H2].
    rewrite forallb_forall in H2, H3. constructor.
    - apply all_pairs_nodup_map. assumption.
    - intros e He E. specialize (H2 _ He). unfold lkey in *. rewrite E in H2. discriminate.
    - intros e1 e2 He1 He2 E. specialize (H3 _ He1). rewrite forallb_forall in H3. specialize (H3 _ He2).
      apply orb_true_iff in H3. destruct H3 as [H3|H3].
      + exfalso. apply negb_true_iff, orb_false_iff in H3. destruct H3 as [A B].
        apply str_eqb_neq in A. apply str_eqb_neq in B. destruct E; congruence.
      + unfold canon_eqb in H3. apply andb_true_iff in H3. destruct H3 as [A B].
        apply str_eqb_eq in A. apply str_eqb_eq in B. auto.
  Qed.

  Lemma MDom_perm l l' : Permutation l' l -> MDom l -> MDom l'.
  Proof.
    intros P D. constructor.
    - eapply Permutation_NoDup; [symmetry; apply Permutation_map; eassumption|apply (md_nodup _ D)].
    - intros e He. apply (md_nonempty _ D). eapply Permutation_in; eassumption.
    - intros e1 e2 H1 H2. apply (md_canon _ D); eapply Permutation_in; eassumption.
  Qed.

  Definition morder_ok (morder : list mentry -> list mentry) : Prop := forall l, Permutation (morder l) l.

  Lemma gm_run_WInv morder mm cs : morder_ok morder -> mm_domb lower mm = true -> WInv (gm_run lower morder mm cs).
  Proof.
    intros Hm Hd. unfold gm_run, m_run. apply g_fold_WInv.
    apply (mi_w (morder mm)). apply (MI_fold (morder mm)) with (pre := []); [|reflexivity|apply MI_init].
    eapply MDom_perm; [apply Hm|apply mm_domb_MDom; assumption].
  Qed.

  (* ================= Part E: the description theorem ================= *)
  Lemma g_reverse_nth_W order s d : order_ok order -> WInv s -> d < length (g_devs s) ->
    nth d (g_reverse order s) [] = describe (nth d (g_devs s) ([], [])).
  Proof.
    intros Ho I Hd. unfold g_reverse.
    rewrite (fold_upd_val (fun v => describe (nth v (g_devs s) ([], [])))).
    rewrite repeat_length. apply Nat.ltb_lt in Hd. rewrite Hd, andb_true_r. apply Nat.ltb_lt in Hd.
    destruct (w_inhab _ I d Hd) as [k Hk]. apply sget_In in Hk.
    assert (E : existsb (fun kv => Nat.eqb (snd kv) d) (order (g_dict s)) = true).
    { apply existsb_exists. exists (k, d). split; [|apply Nat.eqb_refl].
      eapply Permutation_in; [symmetry; apply Ho|assumption]. }
    rewrite E. reflexivity.
  Qed.

  Theorem gm_description order morder mm cs dict rev : order_ok order -> morder_ok morder ->
    mm_domb lower mm = true ->
    generate_people_dict_mm lower order morder mm cs = Some (dict, rev) ->
    forall d, d < length rev -> exists ns es,
      nth d rev [] = join ns ++ bar :: join es /\
      StronglySorted (leR str_ltb) ns /\ StronglySorted (leR str_ltb) es /\ NoDup ns /\ NoDup es /\
      (forall k, In k ns \/ In k es <-> sget dict k = Some d) /\
      (exists k, sget dict k = Some d).
  Proof.
    intros Ho Hm Hd H d Hlt. apply gen_mm_inv in H. destruct H as [-> ->].
    pose proof (gm_run_WInv morder mm cs Hm Hd) as I. set (s := gm_run lower morder mm cs) in *.
    rewrite g_reverse_length in Hlt.
    exists (sort_str (names_of (g_devs s) d)), (sort_str (emails_of (g_devs s) d)).
    split; [rewrite g_reverse_nth_W by assumption; reflexivity|].
    split; [apply sort_str_sorted|]. split; [apply sort_str_sorted|].
    split; [apply isort_NoDup, (w_nd_names _ I)|]. split; [apply isort_NoDup, (w_nd_emails _ I)|].
    split; [|apply (w_inhab _ I); assumption].
    intros k. unfold sort_str. rewrite !isort_In. split.
    - intros [H|H]; [apply (w_names _ I)|apply (w_emails _ I)]; assumption.
    - apply (w_listed _ I).
  Qed.

  Lemma g_step_mono s c k d : sget (g_dict s) k = Some d -> sget (g_dict (g_step lower s c)) k = Some d.
  Proof.
    intros H. unfold g_step.
    destruct (sget (g_dict s) (le c)) as [ide|] eqn:Ee; destruct (sget (g_dict s) (ln c)) as [idn|] eqn:En;
      cbn [g_dict]; rewrite ?sget_sset; auto.
    - destruct (str_eqb_spec (ln c) k) as [<-|]; [congruence|assumption].
    - destruct (str_eqb_spec (le c) k) as [<-|]; [congruence|assumption].
    - destruct (str_eqb_spec (ln c) k) as [<-|]; [congruence|].
      destruct (str_eqb_spec (le c) k) as [<-|]; [congruence|assumption].
  Qed.

  Lemma g_fold_mono cs : forall s k d, sget (g_dict s) k = Some d ->
    sget (g_dict (fold_left (g_step lower) cs s)) k = Some d.
  Proof. induction cs as [|c cs IH]; intros s k d H; simpl; [assumption|]. apply IH, g_step_mono, H. Qed.

  (* in the domain every entry is honoured: its key resolves to the developer of its canonical e-mail or name *)
  Theorem gm_entries_honoured order morder mm cs dict rev : morder_ok morder ->
    mm_domb lower mm = true ->
    generate_people_dict_mm lower order morder mm cs = Some (dict, rev) ->
    forall e, In e mm -> honoured dict e.
  Proof.
    intros Hm Hd H e He. apply gen_mm_inv in H. destruct H as [-> _].
    assert (M : MI (morder mm) (m_run lower morder mm)).
    { unfold m_run. apply (MI_fold (morder mm)) with (pre := []); [|reflexivity|apply MI_init].
      eapply MDom_perm; [apply Hm|apply mm_domb_MDom; assumption]. }
    destruct (mi_honoured _ _ M e) as [d [H1 H2]].
    { eapply Permutation_in; [symmetry; apply Hm|assumption]. }
    exists d. unfold gm_run. split; [apply g_fold_mono; assumption|].
    destruct H2 as [H2|[H2|H2]]; [left|right; left|right; right]; try apply g_fold_mono; assumption.
  Qed.

  Theorem gm_dict_keys_perm order morder mm cs dict rev : morder_ok morder ->
    generate_people_dict_mm lower order morder mm cs = Some (dict, rev) ->
    forall k d, sget dict k = Some d -> key_used_mm lower cs mm k = true.
  Proof.
    intros Hm. apply gm_dict_keys. intros e He. eapply Permutation_in; [apply Hm|assumption].
  Qed.

  (* without a mailmap the function is GeneratePeopleDict of Identity.v *)
  Lemma gm_no_mailmap order morder cs : morder_ok morder ->
    generate_people_dict_mm lower order morder [] cs = generate_people_dict lower false order cs.
  Proof.
    intros Hm. pose proof (Hm []) as P. apply Permutation_sym, Permutation_nil in P.
    destruct cs as [|c cs]; [reflexivity|].
    unfold generate_people_dict_mm, generate_people_dict, gm_run, m_run, g_run. rewrite P. reflexivity.
  Qed.
End Proofs.

(* ---------- the executable statement used by the replay is sound ---------- *)
Lemma strict_sortedb_sound l : strict_sortedb l = true -> StronglySorted (leR str_ltb) l /\ NoDup l.
Proof.
  induction l as [|x r IH]; simpl; [intros _; split; constructor|].
  destruct r as [|y t].
  - intros _. split; constructor; try constructor. intros [].
  - intros H. apply andb_true_iff in H. destruct H as [Hxy H]. destruct (IH H) as [S N].
    assert (F : Forall (fun z => str_ltb x z = true) (y :: t)).
    { inversion S as [|? ? St Fy]; subst. constructor; [assumption|].
      rewrite Forall_forall in Fy |- *. intros z Hz. specialize (Fy z Hz). unfold leR in Fy.
      destruct (str_ltb x z) eqn:E; [reflexivity|].
      (* not x < z, not z < y, x < y: contradiction *)
      destruct (str_ltb z x) eqn:E2.
      - pose proof (str_ltb_trans _ _ _ E2 Hxy). congruence.
      - pose proof (str_ltb_total _ _ E E2). subst. congruence. }
    split.
    + constructor; [assumption|]. rewrite Forall_forall in F |- *. intros z Hz. unfold leR.
      apply str_ltb_asym. apply F. assumption.
    + constructor; [|assumption]. intros Hin. rewrite Forall_forall in F. specialize (F _ Hin).
      rewrite str_ltb_irrefl in F. discriminate.
Qed.

Theorem description_mm_okb_sound lower cs mm dict rev : description_mm_okb lower cs mm dict rev = true ->
  (forall k d, sget dict k = Some d -> key_used_mm lower cs mm k = true /\ d < length rev) /\
  forall d, d < length rev -> exists ns es,
    nth d rev [] = join ns ++ bar :: join es /\
    StronglySorted (leR str_ltb) ns /\ StronglySorted (leR str_ltb) es /\ NoDup ns /\ NoDup es /\
    (forall k, In k ns \/ In k es <-> sget dict k = Some d).
Proof.
  unfold description_mm_okb. intros H. apply andb_true_iff in H. destruct H as [H H3].
  apply andb_true_iff in H. destruct H as [H1 H2]. apply all_pairs_keys_nodup in H1.
  rewrite forallb_forall in H2, H3. split.
  - intros k d Hk. apply sget_In in Hk. specialize (H2 _ Hk). cbn [fst snd] in H2.
    apply andb_true_iff in H2. destruct H2 as [Ha Hb]. apply Nat.ltb_lt in Hb. auto.
  - intros d Hd. specialize (H3 d). rewrite in_seq in H3. specialize (H3 ltac:(lia)).
    unfold desc_okb in H3. apply existsb_exists in H3. destruct H3 as [i [_ H3]].
    assert (C : exists ns es, desc_cand (keys_of dict d) (nth d rev []) ns es = true).
    { apply orb_true_iff in H3. destruct H3 as [H3|H3]; eauto. }
    destruct C as [ns [es C]]. unfold desc_cand in C.
    repeat (apply andb_true_iff in C; destruct C as [C ?]).
    apply str_eqb_eq in C. rewrite forallb_forall in *.
    destruct (strict_sortedb_sound ns) as [S1 N1]; [assumption|].
    destruct (strict_sortedb_sound es) as [S2 N2]; [assumption|].
    exists ns, es. repeat split; auto.
    + intros Hk. rewrite <- (keys_of_In dict d k H1). apply smem_In.
      match goal with Hx : forall x, In x (ns ++ es) -> _ |- _ => apply Hx end.
      apply in_or_app. assumption.
    + intros Hk. rewrite <- (keys_of_In dict d k H1) in Hk.
      match goal with Hx : forall x, In x (keys_of dict d) -> _ |- _ => specialize (Hx _ Hk); apply orb_true_iff in Hx;
        destruct Hx as [Hx|Hx]; apply smem_In in Hx; auto end.
Qed.

(* ---------- outside the domain the description clause is false: the witness ----------
   .mailmap = "A <a@x> <k@x>" + "K <k@x> <old@x>", one commit "Zed <K@x>".  If Go's map iteration visits
   the second entry first, developer 0 is described as "k|k@x|old@x" although k@x is attached to developer 1;
   in the other order there is ONE developer. *)
Local Open Scope Z_scope.
Definition wx_a : str := [97].                    (* "a" *)
Definition wx_k : str := [107].                   (* "k" *)
Definition wx_ax : str := [97; 64; 120].          (* "a@x" *)
Definition wx_kx : str := [107; 64; 120].         (* "k@x" *)
Definition wx_oldx : str := [111; 108; 100; 64; 120].   (* "old@x" *)
Definition wx_mm : list mentry := [(wx_kx, ([65], wx_ax)); (wx_oldx, ([75], wx_kx))].
Definition wx_cs : list commit := [([90; 101; 100], [75; 64; 120])].

Lemma mm_overlap_outside_domain : mm_domb lower_ascii wx_mm = false.
Proof. vm_compute. reflexivity. Qed.

Lemma mm_description_refuted :
  exists morder dict rev,
    morder_ok morder /\
    generate_people_dict_mm lower_ascii id_order morder wx_mm wx_cs = Some (dict, rev) /\
    (* developer 0 lists k@x ... *)
    nth 0%nat rev [] = join [wx_k] ++ bar :: join [wx_kx; wx_oldx] /\
    (* ... which PeopleDict attaches to developer 1 *)
    sget dict wx_kx = Some 1%nat.
Proof.
  exists (@rev mentry).
  eexists. eexists. split; [intros l; symmetry; apply Permutation_rev|].
  split; [vm_compute; reflexivity|]. split; vm_compute; reflexivity.
Qed.

Lemma mm_order_dependent :
  exists dict1 rev1 dict2 rev2,
    generate_people_dict_mm lower_ascii id_order (fun l => l) wx_mm wx_cs = Some (dict1, rev1) /\
    generate_people_dict_mm lower_ascii id_order (@rev mentry) wx_mm wx_cs = Some (dict2, rev2) /\
    length rev1 = 1%nat /\ length rev2 = 2%nat.
Proof. do 4 eexists. split; [vm_compute; reflexivity|]. split; [vm_compute; reflexivity|]. split; reflexivity. Qed.

(* ---------- ParseMailmap returns (after the repair 199beb1); before it, "a>" made it panic ---------- *)
Lemma parse_line_total mm l : exists mm', parse_line true mm l = Some mm'.
Proof.
  unfold parse_line.
  repeat match goal with
  | |- exists x, Some _ = Some x => eexists; reflexivity
  | |- context [if ?b then _ else _] => destruct b
  | |- context [match ?x with _ => _ end] => destruct x
  end.
Qed.

Lemma parse_lines_total ls : forall mm, exists mm', parse_lines true mm ls = Some mm'.
Proof.
  induction ls as [|l ls IH]; intros mm; simpl; [eauto|].
  destruct (parse_line_total mm l) as [mm1 ->]. apply IH.
Qed.

Theorem parse_mailmap_total s : exists mm, parse_mailmap s = Some mm.
Proof. apply parse_lines_total. Qed.

Lemma parse_mailmap_before_fix_panics : parse_mailmap_before_fix [97; 62] = None /\
  parse_mailmap_before_fix [78; 32; 62; 32; 60; 99; 64; 120; 62] = None.      (* "a>", "N > <c@x>" *)
Proof. split; vm_compute; reflexivity. Qed.
