(* Executable model of internal/plumbing/tree_diff.go (TreeDiff: Initialize / Consume / filterDiffs /
   checkLanguage / Fork) and internal/plumbing/blob_cache.go (BlobCache: Consume / getBlob / Fork),
   with internal/dummies.go (the empty placeholder blob).  Definitions only; proofs are in
   ChangesProofs.v, FilterProofs.v, ConsumeProofs.v and CacheProofs.v.

   Representation.
   - A path is its byte string ([list N]); the empty list is the empty name that go-git gives to the
     missing side of an insertion / deletion.  Hashes are opaque identifiers ([N], 0 = plumbing.ZeroHash),
     modes are the numeric git modes.
   - A tree is the list of its LEAVES with full paths, in the order of go-git's recursive tree walk:
     regular / executable / symlink files and submodule entries (go-git's merkletrie treats a submodule
     entry as a leaf; [Tree.Files()] skips it).  Directories themselves do not appear.
   - A change is a pair of optional entries (From, To): go-git's [object.Change] with the empty
     [ChangeEntry] as [None].
   External code is NOT modelled and appears as follows:
   - go-git [object.DiffTree] (merkletrie): its output [dt] is an ARGUMENT of [td_consume]; it is judged
     case by case by the validator [changes_ok] (proved sound in ChangesProofs.v);
   - [enry.IsVendor], the compiled name regexp, [enry.GetLanguage] on the first KiB of the blob, the object
     store, the parsed .gitmodules: fields of the records [fcfg] / [benv] - opaque functions over which
     every theorem quantifies. *)
From Coq Require Import List NArith Bool.
Import ListNotations.
Open Scope N_scope.

(* ---------- basic data ---------- *)

Record entry := mkE { e_path : list N; e_hash : N; e_mode : N }.
Record change := mkC { c_from : option entry; c_to : option entry }.
Record commit := mkCommit { cm_hash : N; cm_parents : list N; cm_tree : list entry }.

Inductive result (A : Type) : Type :=
| Ok (a : A)
| Err (class : N)
| Panic.
Arguments Ok {A} a.
Arguments Err {A} class.
Arguments Panic {A}.

Definition EParent : N := 1.   (* "previous > current": the commit does not descend from the previous one *)
Definition EBlob : N := 2.     (* a blob could not be loaded *)
Definition EAction : N := 3.   (* malformed change: empty from and to *)

Definition mode_submodule : N := 57344.  (* 0160000 *)

Fixpoint path_eqb (a b : list N) : bool :=
  match a, b with
  | [], [] => true
  | x :: a', y :: b' => (x =? y) && path_eqb a' b'
  | _, _ => false
  end.

Definition entry_eqb (a b : entry) : bool :=
  path_eqb (e_path a) (e_path b) && (e_hash a =? e_hash b) && (e_mode a =? e_mode b).

Definition oentry_eqb (a b : option entry) : bool :=
  match a, b with
  | None, None => true
  | Some x, Some y => entry_eqb x y
  | _, _ => false
  end.

Definition change_eqb (a b : change) : bool :=
  oentry_eqb (c_from a) (c_from b) && oentry_eqb (c_to a) (c_to b).

(* strings.HasPrefix(p, d) *)
Fixpoint prefixb (d p : list N) : bool :=
  match d, p with
  | [], _ => true
  | x :: d', y :: p' => (x =? y) && prefixb d' p'
  | _ :: _, [] => false
  end.

Definition is_submodule (e : entry) : bool := e_mode e =? mode_submodule.

Definition ins (e : entry) : change := mkC None (Some e).
Definition del (e : entry) : change := mkC (Some e) None.

(* ---------- TreeDiff ---------- *)

(* The configured filter (after Configure) and the external predicates it calls. *)
Record fcfg := mkF {
  f_skip : list (list N);            (* TreeDiff.SkipFiles *)
  f_vendor : list N -> bool;         (* enry.IsVendor *)
  f_name_set : bool;                 (* TreeDiff.NameFilter != nil *)
  f_name : list N -> bool;           (* TreeDiff.NameFilter.MatchString *)
  f_lang_all : bool;                 (* TreeDiff.Languages["all"] *)
  f_lang : list N -> N -> bool;      (* rest of checkLanguage: blob readable and Languages[lower(enry.GetLanguage(base, first KiB))] *)
  f_has_blob : N -> bool             (* repository.BlobObject(hash) succeeds *)
}.

Record td_state := mkTD { td_tree : option (list entry); td_commit : N }.

Definition td_zero : td_state := mkTD None 0.

(* Initialize: previousTree = nil and previousCommit = plumbing.ZeroHash (since commit 3598ee8; before it the previous
   commit survived, finding F24: [td_initialize_before_fix] in ReuseProofs.v). *)
Definition td_initialize (s : td_state) : td_state := mkTD None 0.

(* checkLanguage (the error is dropped by filterDiffs; in the first listing it cannot occur after
   Files() has loaded the blob) *)
Definition check_language (f : fcfg) (p : list N) (h : N) : bool :=
  f_lang_all f || f_lang f p h.

Definition name_of (e : option entry) : list N :=
  match e with Some x => e_path x | None => [] end.

Definition nilb {A} (l : list A) : bool := match l with [] => true | _ => false end.

(* the name regexp is not consulted for the empty name of a missing side *)
Definition name_hit (f : fcfg) (p : list N) : bool := negb (nilb p) && f_name f p.

(* one iteration of the loop of filterDiffs: is the change kept? *)
Definition keep (f : fcfg) (c : change) : bool :=
  let tn := name_of (c_to c) in
  let fn := name_of (c_from c) in
  if negb (nilb (f_skip f)) && (f_vendor f tn || f_vendor f fn) then false
  else if existsb (fun d => prefixb d tn || prefixb d fn) (f_skip f) then false
  else if f_name_set f && negb (name_hit f tn) && negb (name_hit f fn) then false
  else match c_to c, c_from c with
       | Some e, _ => check_language f (e_path e) (e_hash e)      (* change.To.Tree != nil *)
       | None, Some e => check_language f (e_path e) (e_hash e)
       | None, None => check_language f [] 0
       end.

Definition filter_diffs (f : fcfg) (cs : list change) : list change := filter (keep f) cs.

(* the parent check at the top of Consume *)
Definition parent_ok (s : td_state) (c : commit) : bool :=
  existsb (N.eqb (td_commit s)) (cm_parents c) || (td_commit s =? 0).

(* the first commit of a branch: tree.Files() skips directories and submodule entries and fails on a
   missing blob; every file that passes checkLanguage becomes an insertion *)
Definition is_file (e : entry) : bool := negb (is_submodule e).

Definition first_listing (f : fcfg) (t : list entry) : result (list change) :=
  if forallb (fun e => is_submodule e || f_has_blob f (e_hash e)) t
  then Ok (map ins (filter (fun e => is_file e && check_language f (e_path e) (e_hash e)) t))
  else Err EBlob.

(* Consume.  [dt] is what object.DiffTree(previousTree, tree) returned (not modelled). *)
Definition td_consume (f : fcfg) (s : td_state) (c : commit) (dt : list change)
  : result (td_state * list change) :=
  if negb (parent_ok s c) then Err EParent
  else match td_tree s with
       | Some _ => Ok (mkTD (Some (cm_tree c)) (cm_hash c), filter_diffs f dt)
       | None =>
           match first_listing f (cm_tree c) with
           | Err e => Err e
           | Panic => Panic
           | Ok l => Ok (mkTD (Some (cm_tree c)) (cm_hash c), filter_diffs f l)
           end
       end.

(* Fork: core.ForkCopyPipelineItem copies the struct by value *)
Definition td_fork (s : td_state) (n : nat) : list td_state := repeat s n.

(* ---------- the specification side: filtered file sets and the validator ---------- *)

(* does an entry belong to the configured restriction (path prefixes, name pattern, languages)? *)
Definition passes (f : fcfg) (e : entry) : bool :=
  negb (negb (nilb (f_skip f)) && f_vendor f (e_path e))
  && negb (existsb (fun d => prefixb d (e_path e)) (f_skip f))
  && (negb (f_name_set f) || f_name f (e_path e))
  && check_language f (e_path e) (e_hash e).

Definition restrict (f : fcfg) (t : list entry) : list entry := filter (passes f) t.

Definition lookup (p : list N) (t : list entry) : option entry :=
  find (fun e => path_eqb (e_path e) p) t.

Definition rlookup (f : fcfg) (p : list N) (t : list entry) : option entry :=
  match lookup p t with
  | Some e => if passes f e then Some e else None
  | None => None
  end.

(* the one change a path must show between the two restricted trees *)
Definition expected (f : fcfg) (prev cur : list entry) (p : list N) : option change :=
  match rlookup f p prev, rlookup f p cur with
  | None, None => None
  | None, Some y => Some (ins y)
  | Some x, None => Some (del x)
  | Some x, Some y => if entry_eqb x y then None else Some (mkC (Some x) (Some y))
  end.

Definition cpath (c : change) : list N :=
  match c_to c, c_from c with
  | Some e, _ => e_path e
  | None, Some e => e_path e
  | None, None => []
  end.

Fixpoint nodup_paths (l : list (list N)) : bool :=
  match l with
  | [] => true
  | p :: r => negb (existsb (path_eqb p) r) && nodup_paths r
  end.

(* a tree lists every path once and no path is empty *)
Definition tree_wfb (t : list entry) : bool :=
  nodup_paths (map e_path t) && forallb (fun e => negb (nilb (e_path e))) t.

(* the validator: every reported change is the expected change of its path, no path is reported
   twice, and every path whose restricted entries differ is reported *)
Definition changes_ok (f : fcfg) (prev cur : list entry) (cs : list change) : bool :=
  nodup_paths (map cpath cs)
  && forallb (fun c => match expected f prev cur (cpath c) with
                       | Some c' => change_eqb c c'
                       | None => false
                       end) cs
  && forallb (fun e => match expected f prev cur (e_path e) with
                       | None => true
                       | Some _ => existsb (fun c => path_eqb (cpath c) (e_path e)) cs
                       end) (prev ++ cur).

(* the configuration that lets everything through (used to validate the raw DiffTree output) *)
Definition all_pass : fcfg :=
  mkF [] (fun _ => false) false (fun _ => true) true (fun _ _ => true) (fun _ => true).

(* the language verdict of a path does not flip between the two trees *)
Definition flip_free (f : fcfg) (prev cur : list entry) : bool :=
  forallb (fun x => match lookup (e_path x) cur with
                    | Some y => Bool.eqb (check_language f (e_path x) (e_hash x))
                                         (check_language f (e_path y) (e_hash y))
                    | None => true
                    end) prev.

(* enry.IsVendor behaves on the empty name of a missing side as the filter loop silently assumes *)
Definition empty_name_inert (f : fcfg) : bool := negb (f_vendor f []).

(* file sets as finite maps and the strict application of a change list *)
Definition fset := list N -> option entry.

Definition fs_of (t : list entry) : fset := fun p => lookup p t.

Definition fs_upd (m : fset) (p : list N) (v : option entry) : fset :=
  fun q => if path_eqb p q then v else m q.

Definition apply_change (c : change) (m : fset) : option fset :=
  match c_from c, c_to c with
  | None, None => None
  | None, Some y => match m (e_path y) with
                    | None => Some (fs_upd m (e_path y) (Some y))
                    | Some _ => None
                    end
  | Some x, None => match m (e_path x) with
                    | Some x' => if entry_eqb x x' then Some (fs_upd m (e_path x) None) else None
                    | None => None
                    end
  | Some x, Some y => if path_eqb (e_path x) (e_path y) then
                        match m (e_path x) with
                        | Some x' => if entry_eqb x x' then Some (fs_upd m (e_path x) (Some y)) else None
                        | None => None
                        end
                      else None
  end.

Fixpoint apply_all (cs : list change) (m : fset) : option fset :=
  match cs with
  | [] => Some m
  | c :: r => match apply_change c m with
              | Some m' => apply_all r m'
              | None => None
              end
  end.

(* ---------- BlobCache ---------- *)

Record cblob := mkCB { cb_hash : N; cb_data : list N }.

Definition empty_cb : cblob := mkCB 0 [].    (* &CachedBlob{} *)

Fixpoint aget {V} (l : list (N * V)) (k : N) : option V :=
  match l with
  | [] => None
  | (k', v) :: r => if k' =? k then Some v else aget r k
  end.

Fixpoint aset {V} (l : list (N * V)) (k : N) (v : V) : list (N * V) :=
  match l with
  | [] => [(k, v)]
  | (k', v') :: r => if k' =? k then (k, v) :: r else (k', v') :: aset r k v
  end.

(* what a BlobCache sees of the outside while it consumes one commit *)
Record benv := mkB {
  b_store : N -> option (list N);          (* repository.BlobObject(hash) and its bytes *)
  b_fail_missing : bool;                   (* BlobCache.FailOnMissingSubmodules *)
  b_modules : option (list (list N))       (* the names in the commit's parsed .gitmodules; None: unreadable *)
}.

Inductive gb :=
| GBlob (b : list N)
| GDummy           (* internal.CreateDummyBlob *)
| GNotFound        (* plumbing.ErrObjectNotFound *)
| GOther.          (* any other error *)

Fixpoint path_mem (p : list N) (l : list (list N)) : bool :=
  match l with [] => false | q :: r => path_eqb q p || path_mem p r end.

(* getBlob *)
Definition get_blob (b : benv) (e : entry) : gb :=
  match b_store b (e_hash e) with
  | Some d => GBlob d
  | None =>
      if negb (e_mode e =? mode_submodule) then GNotFound
      else if negb (b_fail_missing b) then GDummy
      else match b_modules b with
           | None => GOther
           | Some names => if path_mem (e_path e) names then GDummy else GNotFound
           end
  end.

(* getBlob followed by CachedBlob.Cache() *)
Definition load (h : N) (g : gb) : option cblob :=
  match g with
  | GBlob d => Some (mkCB h d)
  | GDummy => Some (mkCB h [])
  | _ => None
  end.

Notation amap := (list (N * cblob)) (only parsing).

(* The per-branch memory of a BlobCache: the rotating cache, and whether the item has a logger.
   Configure / Initialize create the logger; Fork builds the clones WITHOUT one, so that every
   [blobCache.l.Errorf] of a forked item is a nil-pointer panic. *)
Record bc_state := mkBC { bc_cache : list (N * cblob); bc_log : bool }.

Definition bc_zero : bc_state := mkBC [] true.

Definition bc_initialize (s : bc_state) : bc_state := mkBC [] true.

(* an error that the code logs before it returns it *)
Definition logged {A} (lg : bool) (e : N) : result A := if lg then Err e else Panic.

(* one iteration of the loop of BlobCache.Consume; [old] is blobCache.cache *)
Definition bc_step (b : benv) (lg : bool) (old : amap) (acc : amap * amap) (c : change) : result (amap * amap) :=
  let '(cache, newc) := acc in
  match c_from c, c_to c with
  | None, None => logged lg EAction
  | None, Some t =>
      let h := e_hash t in
      match load h (get_blob b t) with
      | Some cb => Ok (aset cache h cb, aset newc h cb)
      | None => logged lg EBlob
      end
  | Some fr, None =>
      let h := e_hash fr in
      match aget old h with
      | Some cb => Ok (aset cache h cb, newc)
      | None =>
          match get_blob b fr with
          | GBlob d => Ok (aset cache h (mkCB h d), newc)
          | GDummy => Ok (aset cache h (mkCB h []), newc)
          | GNotFound => Ok (aset cache h (mkCB h []), newc)     (* dummy blob for a vanished object *)
          | GOther => logged lg EBlob
          end
      end
  | Some fr, Some t =>
      let h2 := e_hash t in
      let h1 := e_hash fr in
      match load h2 (get_blob b t) with
      | Some cb =>
          let cache1 := aset cache h2 cb in
          let new1 := aset newc h2 cb in
          match aget old h1 with
          | Some cb1 => Ok (aset cache1 h1 cb1, new1)
          | None =>
              match load h1 (get_blob b fr) with
              | Some cb1 => Ok (aset cache1 h1 cb1, new1)
              | None => logged lg EBlob
              end
          end
      | None =>
          (* the failure of the "to" side is logged at once ... *)
          if negb lg then Panic else
          let cache1 := aset cache h2 empty_cb in
          let new1 := aset newc h2 empty_cb in
          match aget old h1 with
          | Some _ => Err EBlob
          | None =>
              match load h1 (get_blob b fr) with
              | Some cb1 => Ok (aset cache1 h1 cb1, new1)    (* ... but this assignment overwrites err *)
              | None => Err EBlob
              end
          end
      end
  end.

Fixpoint bc_loop (b : benv) (lg : bool) (old : amap) (acc : amap * amap) (cs : list change) : result (amap * amap) :=
  match cs with
  | [] => Ok acc
  | c :: r => match bc_step b lg old acc c with
              | Ok acc' => bc_loop b lg old acc' r
              | Err e => Err e
              | Panic => Panic
              end
  end.

(* Consume: the new state (blobCache.cache = newCache) and the returned cache *)
Definition bc_consume (b : benv) (s : bc_state) (cs : list change) : result (bc_state * list (N * cblob)) :=
  match bc_loop b (bc_log s) (bc_cache s) ([], []) cs with
  | Ok (cache, newc) => Ok (mkBC newc (bc_log s), cache)
  | Err e => Err e
  | Panic => Panic
  end.

(* Fork copies the map; the clones have no logger *)
Definition bc_fork (s : bc_state) (n : nat) : list bc_state := repeat (mkBC (bc_cache s) false) n.

(* ---------- several branches ---------- *)

Record branch := mkBr { br_td : td_state; br_bc : bc_state }.

Definition br_zero : branch := mkBr td_zero bc_zero.

Fixpoint set_nth {A} (l : list A) (i : nat) (x : A) : list A :=
  match l, i with
  | [], _ => []
  | _ :: r, O => x :: r
  | y :: r, S j => y :: set_nth r j x
  end.

Inductive op :=
| OConsume (br : nat) (c : commit) (dt : list change) (b : benv)
| OFork (br : nat) (n : nat)
| OInit (br : nat).

(* one step of a replay over several branches; an unknown branch index or a refused commit leaves
   everything as it is *)
Definition run_op (f : fcfg) (bs : list branch) (o : op) : list branch :=
  match o with
  | OConsume i c dt b =>
      match nth_error bs i with
      | None => bs
      | Some br =>
          match td_consume f (br_td br) c dt with
          | Err _ | Panic => bs
          | Ok (s', cs) =>
              match bc_consume b (br_bc br) cs with
              | Err _ | Panic => set_nth bs i (mkBr s' (br_bc br))
              | Ok (new, _) => set_nth bs i (mkBr s' new)
              end
          end
      end
  | OFork i n =>
      match nth_error bs i with
      | None => bs
      | Some br => bs ++ map (fun sb => mkBr (fst sb) (snd sb)) (combine (td_fork (br_td br) n) (bc_fork (br_bc br) n))
      end
  | OInit i =>
      match nth_error bs i with
      | None => bs
      | Some br => set_nth bs i (mkBr (td_initialize (br_td br)) (bc_initialize (br_bc br)))
      end
  end.
