(* The value refinement: one Update on a well-formed tracker = the same edit on the plain array.
   Entry into update_body (guards, FindLE), the three cases assembled, tabulation of flatten. *)
From Coq Require Import List ZArith Lia Bool.
Import ListNotations.
From Herc Require Import File.Model File.Spec File.NodeLists File.Locate File.DelLoop File.Values
  File.InsOnly File.PureDel File.Replace.
Open Scope Z_scope.

Definition zseq (a : Z) (n : nat) : list Z := map (fun j => a + Z.of_nat j) (seq 0 n).

Lemma zseq_length a n : length (zseq a n) = n.
Proof. unfold zseq. rewrite map_length, seq_length. reflexivity. Qed.

Lemma zseq_S a n : zseq a (S n) = a :: zseq (a + 1) n.
Proof.
  unfold zseq. simpl. f_equal; [lia|]. rewrite <- seq_shift, map_map.
  apply map_ext. intros. lia.
Qed.

Lemma zseq_app a n m : zseq a (n + m) = zseq a n ++ zseq (a + Z.of_nat n) m.
Proof.
  revert a; induction n as [|n IH]; intros a.
  - simpl. replace (a + 0) with a by lia. reflexivity.
  - change (S n + m)%nat with (S (n + m)). rewrite !zseq_S, IH. simpl. do 3 f_equal. lia.
Qed.

Lemma map_zseq_ext (f g : Z -> Z) a n :
  (forall i, a <= i < a + Z.of_nat n -> f i = g i) -> map f (zseq a n) = map g (zseq a n).
Proof.
  revert a; induction n as [|n IH]; intros a H; [reflexivity|].
  rewrite zseq_S. simpl. f_equal; [apply H; lia|]. apply IH. intros. apply H. lia.
Qed.

Lemma map_zseq_const v a n (f : Z -> Z) :
  (forall i, a <= i < a + Z.of_nat n -> f i = v) -> map f (zseq a n) = repeat v n.
Proof.
  revert a; induction n as [|n IH]; intros a H; [reflexivity|].
  rewrite zseq_S. simpl. f_equal; [apply H; lia|]. apply IH. intros. apply H. lia.
Qed.

Lemma map_zseq_shift (f : Z -> Z) a d n :
  map (fun i => f (i + d)) (zseq a n) = map f (zseq (a + d) n).
Proof.
  unfold zseq. rewrite !map_map. apply map_ext. intros. f_equal. lia.
Qed.

(* flatten as the tabulation of vfrom *)
Lemma flat_tab : forall r k v, inc k r ->
  flat k v r = map (vfrom v r) (zseq k (Z.to_nat (klast k r - k))).
Proof.
  induction r as [|[k' v'] r IH]; intros k v H.
  - simpl. replace (k - k) with 0 by lia. reflexivity.
  - destruct H as [H1 H2]. pose proof (klast_ge _ _ H2).
    cbn [flat klast]. rewrite (IH k' v' H2).
    replace (Z.to_nat (klast k' r - k)) with (Z.to_nat (k' - k) + Z.to_nat (klast k' r - k'))%nat by lia.
    rewrite zseq_app, map_app. f_equal.
    + symmetry. apply map_zseq_const. intros i Hi. cbn [vfrom]. destruct (Z.ltb_spec i k'); auto. lia.
    + replace (k + Z.of_nat (Z.to_nat (k' - k))) with k' by lia.
      apply map_zseq_ext. intros i Hi. cbn [vfrom]. destruct (Z.ltb_spec i k'); auto. lia.
Qed.

Lemma flatten_tab s : WF2 s -> flatten s = map (sval s) (zseq 0 (Z.to_nat (slen s))).
Proof.
  intros (Hinc & _ & v & r & ->). simpl in Hinc. destruct Hinc as [_ Hinc].
  unfold flatten, sval, slen. cbn [klast]. rewrite (flat_tab r 0 v Hinc).
  replace (klast 0 r - 0) with (klast 0 r) by lia.
  apply map_zseq_ext. intros i Hi. cbn [vfrom]. destruct (Z.ltb_spec i 0); auto. lia.
Qed.

Lemma arr_update_tab (f : Z -> Z) t P ins del n :
  0 <= P -> 0 <= ins -> 0 <= del -> P + del <= n ->
  arr_update t P ins del (map f (zseq 0 (Z.to_nat n))) =
  map (fun i => if i <? P then f i else if i <? P + ins then t else f (i - ins + del))
      (zseq 0 (Z.to_nat (n + ins - del))).
Proof.
  intros HP Hi Hd Hn. unfold arr_update.
  replace (Z.to_nat n) with (Z.to_nat P + (Z.to_nat del + Z.to_nat (n - P - del)))%nat by lia.
  rewrite !zseq_app, !map_app.
  rewrite firstn_app. rewrite firstn_all2 by (rewrite map_length, zseq_length; lia).
  replace (Z.to_nat P - length (map f (zseq 0 (Z.to_nat P))))%nat with 0%nat
    by (rewrite map_length, zseq_length; lia).
  rewrite firstn_O, app_nil_r.
  rewrite skipn_app. rewrite skipn_all2 by (rewrite map_length, zseq_length; lia).
  rewrite map_length, zseq_length. cbn [app].
  replace (Z.to_nat (P + del) - Z.to_nat P)%nat with (Z.to_nat del) by lia.
  rewrite skipn_app. rewrite skipn_all2 by (rewrite map_length, zseq_length; lia).
  rewrite map_length, zseq_length. replace (Z.to_nat del - Z.to_nat del)%nat with 0%nat by lia.
  cbn [app skipn].
  replace (Z.to_nat (n + ins - del)) with (Z.to_nat P + (Z.to_nat ins + Z.to_nat (n - P - del)))%nat by lia.
  rewrite !zseq_app, !map_app. f_equal; [|f_equal].
  - apply map_zseq_ext. intros i H. destruct (Z.ltb_spec i P); auto. lia.
  - symmetry. apply map_zseq_const. intros i H.
    destruct (Z.ltb_spec i P); [lia|]. destruct (Z.ltb_spec i (P + ins)); auto. lia.
  - replace (0 + Z.of_nat (Z.to_nat P) + Z.of_nat (Z.to_nat del)) with (P + del) by lia.
    replace (0 + Z.of_nat (Z.to_nat P) + Z.of_nat (Z.to_nat ins)) with (P + ins) by lia.
    replace (P + del) with (P + ins + (del - ins)) by lia.
    rewrite <- (map_zseq_shift f (P + ins) (del - ins)).
    apply map_zseq_ext. intros i H.
    destruct (Z.ltb_spec i P); [lia|]. destruct (Z.ltb_spec i (P + ins)); [lia|]. f_equal. lia.
Qed.


(* ---------- the domain, on the tracker state ---------- *)
Definition in_range (s : list node) (t P ins del : Z) : Prop :=
  0 <= t < MaxU32 /\ 0 <= P /\ 0 <= ins /\ 0 <= del /\ P + del <= slen s /\ slen s + ins - del <= MaxU32.

(* a deleted line that carries the merge mark carries the operation's own tick *)
Definition compat_lines (s : list node) (t P del : Z) : Prop :=
  forall i, P <= i < P + del -> compat t (sval s i).

(* the Updater calls of an update, read off the definition *)
Definition upd_reports (t P ins del : Z) (s : list node) : list delta_rec :=
  (if ins >? 0 then rep t t ins else []) ++
  (if del =? 0 then [] else
     match find_le P [] s with
     | Some (_, o, R) => rep_list t P (P + del) o R
     | None => []
     end).

Lemma lor_nonzero a b : 0 <= a -> 0 <= b -> (a <> 0 \/ b <> 0) -> (Z.lor a b =? 0) = false.
Proof.
  intros Ha Hb H. apply Z.eqb_neq. intros E. apply Z.lor_eq_0_iff in E. lia.
Qed.

(* guards and FindLE on a well-formed state *)
Lemma update_enter_gen s t P ins del :
  WF2 s -> slen s <= MaxU32 -> 0 <= t < MaxU32 -> 0 <= P <= slen s ->
  0 <= ins <= MaxU32 -> 0 <= del <= MaxU32 -> (ins <> 0 \/ del <> 0) ->
  exists L ok ov R, s = L ++ (ok, ov) :: R /\ ok <= P /\ first_gt P R /\
    find_le P [] s = Some (L, (ok, ov), R) /\
    update t P ins del s = update_body t P ins del L (ok, ov) R.
Proof.
  intros (Hinc & Hend & v0 & r & Es) Hs32 Ht HP Hi Hd Hne. subst s.
  destruct (find_le_spec r (0, v0) [] P ltac:(simpl; lia)) as (L & [ok ov] & R & Ef & Es & Hok & Hgt).
  change ([] ++ L) with L in Ef. cbn [fst] in Hok.
  exists L, ok, ov, R. repeat split; auto.
  unfold update.
  replace (t <? 0) with false by (symmetry; apply Z.ltb_ge; lia).
  replace (t >=? MaxU32) with false by (symmetry; rewrite Z.geb_leb; apply Z.leb_gt; lia).
  replace (P <? 0) with false by (symmetry; apply Z.ltb_ge; lia).
  replace (P >? MaxU32) with false by (symmetry; rewrite Z.gtb_ltb; apply Z.ltb_ge; lia).
  replace (ins <? 0) with false by (symmetry; apply Z.ltb_ge; lia).
  replace (del <? 0) with false by (symmetry; apply Z.ltb_ge; lia).
  replace (ins >? MaxU32) with false by (symmetry; rewrite Z.gtb_ltb; apply Z.ltb_ge; lia).
  replace (del >? MaxU32) with false by (symmetry; rewrite Z.gtb_ltb; apply Z.ltb_ge; lia).
  cbn [orb]. rewrite (lor_nonzero ins del ltac:(lia) ltac:(lia) Hne).
  unfold update_core. cbn [fst]. rewrite (u32_id P) by lia.
  change (0 =? 0) with true. cbn [negb]. rewrite andb_false_r.
  replace (P >? klast 0 ((0, v0) :: r)) with false
    by (symmetry; rewrite Z.gtb_ltb; apply Z.ltb_ge; unfold slen in *; lia).
  replace (P <? 0) with false by (symmetry; apply Z.ltb_ge; lia).
  rewrite Ef. reflexivity.
Qed.

Lemma slen_nonneg s : WF2 s -> 0 <= slen s.
Proof.
  intros (Hinc & _ & v0 & r & Es). subst s. unfold slen. simpl. simpl in Hinc.
  pose proof (klast_ge _ _ (proj2 Hinc)). lia.
Qed.

Lemma update_enter s t P ins del :
  WF2 s -> slen s <= MaxU32 -> in_range s t P ins del -> (ins <> 0 \/ del <> 0) ->
  exists L ok ov R, s = L ++ (ok, ov) :: R /\ ok <= P /\ first_gt P R /\
    find_le P [] s = Some (L, (ok, ov), R) /\
    update t P ins del s = update_body t P ins del L (ok, ov) R.
Proof.
  intros HWF Hs32 (Ht & HP & Hi & Hd & Hlen & H32) Hne.
  apply update_enter_gen; auto; lia.
Qed.

(* compatibility of the deleted lines gives compatibility of the visited nodes *)
Lemma compat_list_of_lines t P Q : forall rest ck cv,
  P < Q -> inc ck rest -> first_gt P rest ->
  (forall i, Z.max ck P <= i < Q -> compat t (vfrom cv rest i)) ->
  compat_list t Q (ck, cv) rest.
Proof.
  induction rest as [|[nk nv] rest IH]; intros ck cv HPQ Hinc Hgt H; [exact I|].
  cbn [compat_list fst snd]. destruct Hinc as [Hn Hinc]. simpl in Hgt.
  destruct (Z.ltb_spec ck Q) as [Hlt|Hge]; [|exact I].
  split.
  - specialize (H (Z.max ck P) ltac:(lia)). cbn [vfrom] in H.
    destruct (Z.ltb_spec (Z.max ck P) nk); [exact H|exfalso; lia].
  - apply IH; auto.
    + destruct rest as [|[k2 v2] r2]; simpl in *; auto. lia.
    + intros i Hi. specialize (H i ltac:(lia)). cbn [vfrom] in H.
      destruct (Z.ltb_spec i nk); [exfalso; lia|exact H].
Qed.

Lemma compat_lines_of_list t P Q : forall rest ck cv,
  inc ck rest -> first_gt P rest -> Q <= klast ck rest -> compat_list t Q (ck, cv) rest ->
  forall i, Z.max ck P <= i < Q -> compat t (vfrom cv rest i).
Proof.
  induction rest as [|[nk nv] rest IH]; intros ck cv Hinc Hgt Hk Hc i Hi.
  - simpl in Hk. exfalso; lia.
  - destruct Hinc as [Hn Hinc]. simpl in Hgt, Hk. cbn [compat_list fst snd] in Hc.
    replace (ck <? Q) with true in Hc by (symmetry; apply Z.ltb_lt; lia).
    destruct Hc as [Hcv Hc]. cbn [vfrom]. destruct (Z.ltb_spec i nk); [exact Hcv|].
    apply (IH nk nv); auto; [|lia].
    destruct rest as [|[k2 v2] r2]; simpl in *; auto. lia.
Qed.

Lemma compat_list_lines L ok ov R t P del :
  inc (-1) (L ++ (ok, ov) :: R) -> ok <= P -> first_gt P R -> 0 <= P ->
  P + del <= slen (L ++ (ok, ov) :: R) ->
  compat_list t (P + del) (ok, ov) R -> compat_lines (L ++ (ok, ov) :: R) t P del.
Proof.
  intros Hinc Hok Hgt HP Hlen H i Hi. destruct (inc_decomp _ _ _ Hinc) as (HL & HLo & HR). cbn [fst] in *.
  rewrite sval_L_cons by exact Hinc.
  destruct (Z.ltb_spec i (klast (-1) L)); [exfalso; lia|].
  destruct (Z.ltb_spec i ok); [exfalso; lia|].
  apply (compat_lines_of_list t P (P + del) R ok ov); auto; [|lia].
  unfold slen in Hlen. rewrite klast_app in Hlen. exact Hlen.
Qed.

Lemma compat_lines_list L ok ov R t P del :
  inc (-1) (L ++ (ok, ov) :: R) -> ok <= P -> first_gt P R -> 0 < del ->
  compat_lines (L ++ (ok, ov) :: R) t P del -> compat_list t (P + del) (ok, ov) R.
Proof.
  intros Hinc Hok Hgt Hdel H. destruct (inc_decomp _ _ _ Hinc) as (HL & HLo & HR). cbn [fst] in *.
  apply (compat_list_of_lines t P (P + del)); auto; [lia|].
  intros i Hi. specialize (H i ltac:(lia)). rewrite sval_L_cons in H by exact Hinc.
  destruct (Z.ltb_spec i (klast (-1) L)); [exfalso; lia|].
  destruct (Z.ltb_spec i ok); [exfalso; lia|exact H].
Qed.

Theorem update_pointwise t P ins del s :
  WF s -> in_range s t P ins del -> (ins <> 0 \/ del <> 0) -> compat_lines s t P del ->
  exists s', update t P ins del s = Ok (s', upd_reports t P ins del s) /\ WF s' /\
     slen s' = slen s + ins - del /\ forall i, 0 <= i -> sval s' i = spec_val s t P ins del i.
Proof.
  intros HWF0 Hr Hne Hc. pose proof (WF_WF2 s HWF0) as HWF.
  assert (Hs32 : slen s <= MaxU32) by (destruct HWF0 as (_ & _ & _ & H); exact H).
  assert (HW' : forall s', WF2 s' -> slen s' = slen s + ins - del -> WF s').
  { intros s' W Hl. apply WF2_WF; auto. rewrite len_slen, Hl. destruct Hr as (_ & _ & _ & _ & _ & H). exact H. }
  destruct (update_enter s t P ins del HWF Hs32 Hr Hne) as (L & ok & ov & R & Es & Hok & Hgt & Ef & E).
  destruct Hr as (Ht & HP & Hi & Hd & Hlen & H32).
  rewrite E. unfold upd_reports. rewrite Ef. subst s.
  assert (Ht32 : 0 <= t <= MaxU32) by lia.
  assert (Hsl : 0 <= slen (L ++ (ok, ov) :: R)).
  { destruct HWF as (Hinc & _ & v0 & r & Es). rewrite Es in *. unfold slen. simpl. simpl in Hinc.
    pose proof (klast_ge _ _ (proj2 Hinc)). lia. }
  destruct (Z.eq_dec del 0) as [Ed|Nd].
  - subst del. assert (Hins : 0 < ins) by lia.
    destruct (ins_only_i_spec t P ins Hins ltac:(unfold TreeEnd; lia) L ok ov R HWF Hok Hgt ltac:(lia))
      as (s' & Es' & W & Hl & Hv).
    exists s'. split; [|split; [apply HW'; auto; lia|split; [lia|exact Hv]]].
    unfold update_body. replace (ins >? 0) with true by (symmetry; apply Z.gtb_lt; lia).
    rewrite update_time_self. rewrite Z.eqb_refl, app_nil_r.
    destruct HWF as (Hinc & _ & _).
    destruct (inc_decomp _ _ _ Hinc) as (HL & HLo & HR). cbn [fst] in *.
    rewrite (ins_only_eq t P ins L (ok, ov) R (slen (L ++ (ok, ov) :: R))); try lia; auto.
    + rewrite Es'. reflexivity.
    + apply (keys_in_inc _ _ (ok - 1)); [simpl; split; [lia|exact HR]| |].
      * pose proof (klast_ge _ _ HL). lia.
      * unfold slen. rewrite klast_app. simpl. lia.
  - assert (Hdel : 0 < del) by lia.
    replace (del =? 0) with false by (symmetry; apply Z.eqb_neq; lia).
    assert (Hcl : compat_list t (P + del) (ok, ov) R).
    { destruct HWF as (Hinc & _ & _). apply (compat_lines_list L); auto. }
    destruct (Z.eq_dec ins 0) as [Ei|Ni].
    + subst ins. change (0 >? 0) with false. cbn [app].
      destruct (pure_del_spec t P del Hdel HP Ht32 L ok ov R HWF Hok Hgt Hlen ltac:(lia) Hcl)
        as (s' & E' & W & Hl & Hv).
      exists s'. split; [exact E'|split; [apply HW'; auto; lia|split; [lia|exact Hv]]].
    + assert (Hins : 0 < ins) by lia.
      replace (ins >? 0) with true by (symmetry; apply Z.gtb_lt; lia).
      destruct (replace_spec t P ins del Hdel Hins HP Ht32 ltac:(unfold TreeEnd; lia) L ok ov R HWF Hok Hgt Hlen H32 Hcl)
        as (s' & E' & W & Hl & Hv).
      exists s'. split; [exact E'|split; [apply HW'; auto|split; [exact Hl|exact Hv]]].
Qed.

(* the main value-level theorem *)
Theorem update_refines t P ins del s :
  WF s -> in_range s t P ins del -> (ins <> 0 \/ del <> 0) -> compat_lines s t P del ->
  exists s', update t P ins del s = Ok (s', upd_reports t P ins del s) /\ WF s' /\
    slen s' = slen s + ins - del /\
    flatten s' = arr_update t P ins del (flatten s).
Proof.
  intros HWF Hr Hne Hc.
  destruct (update_pointwise t P ins del s HWF Hr Hne Hc) as (s' & E & W & Hl & Hv).
  destruct Hr as (Ht & HP & Hi & Hd & Hlen & H32).
  exists s'. split; [exact E|split; [exact W|split; [exact Hl|]]].
  rewrite (flatten_tab s' (WF_WF2 _ W)), (flatten_tab s (WF_WF2 _ HWF)), Hl.
  rewrite arr_update_tab; auto.
  apply map_zseq_ext. intros i Hi'. rewrite Hv by lia. reflexivity.
Qed.
