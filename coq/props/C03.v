(* C03 - line-interval tracker = plain array.  Only statements closed by [exact] and their assumptions. *)
From Coq Require Import List ZArith.
From Herc Require Import File.Model File.Spec File.Unrepaired.
Import ListNotations.
Open Scope Z_scope.

Theorem C03_update_refuted_before_fix :
  forall ops, ops = [(1, 2, 3, 0); (1, 1, 0, 3)] \/ ops = [(1, 3, 1, 0); (1, 0, 1, 0); (1, 3, 2, 2)] ->
    ops_validb (repeat 0 3) ops = true /\
    exists s, run_unrepaired ops [(0, 0); (3, TreeEnd)] = Some s /\ flatten s <> arr_run (repeat 0 3) ops.
Proof. exact update_refuted_before_fix. Qed.
Print Assumptions C03_update_refuted_before_fix.
