(* C09 - failures surface: a run that ends Ok has seen every I/O operation it performed succeed;
   Boot of an item whose temp file is missing or truncated returns an error. *)
From Coq Require Import List ZArith Bool NArith Lia.
From Herc Require Import Hibernation.Model Hibernation.Tables Hibernation.Inv.
Import ListNotations.
Open Scope Z_scope.

Section IoSurface.
  Context {S H K R byte : Type}.
  Variable o : ops S H K R byte.
  Notation item := (ist S H K).
  Notation rst := (@rstate S H K byte).
  Variable cfg : config.
  Variable io : nat -> io_choice.
  Variable adv : nat -> list (@tamper).

  Definition io_ok_between (a b : nat) : Prop := forall i, (a <= i < b)%nat -> io_result (io i) = IoOk.

  (* "the call consumed oracle entries a..b-1 and, if it succeeded, all of them were successes" *)
  Definition io_sound {A} (st : rst) (x : result A * rst) : Prop :=
    (nio st <= nio (snd x))%nat /\ (forall v, fst x = Ok v -> io_ok_between (nio st) (nio (snd x))).

  Lemma io_sound_same : forall {A} (st st' : rst) (r : result A), nio st' = nio st -> io_sound st (r, st').
  Proof.
    intros A st st' r E. split; cbn; [lia|]. intros v _ i Hi. lia.
  Qed.

  Lemma io_sound_fail_p : forall {A} (st st' : rst) c, (nio st <= nio st')%nat -> io_sound (A:=A) st (Panic c, st').
  Proof. intros A st st' c Hle. split; cbn; [exact Hle|discriminate]. Qed.
  Lemma io_sound_fail_e : forall {A} (st st' : rst) e, (nio st <= nio st')%nat -> io_sound (A:=A) st (Err e, st').
  Proof. intros A st st' e Hle. split; cbn; [exact Hle|discriminate]. Qed.

  Lemma io_sound_one : forall {A} (st st' : rst) (r : result A),
      nio st' = Datatypes.S (nio st) -> io_result (io (nio st)) = IoOk -> io_sound st (r, st').
  Proof.
    intros A st st' r E Hok. split; cbn; [lia|]. intros v _ i Hi.
    assert (i = nio st) by lia. now subst.
  Qed.

  Lemma hibernate_item_io : forall b st it, io_sound st (hibernate_item o cfg io b st it).
  Proof.
    intros b st it. unfold hibernate_item. destruct it as [s|h|k n].
    2,3: now apply io_sound_fail_p.
    destruct (disk cfg && (0 <? size o s) && (thr cfg <=? size o s)).
    - destruct (io_result (io (nio st))) as [|stage] eqn:Er.
      + cbn [tick_io fs]. destruct (fs_mem (io_name (io (nio st))) (fs st)).
        * apply io_sound_fail_e. cbn. lia.
        * destruct ((size o s <? thr cfg) || (size o s =? 0)).
          -- apply io_sound_fail_p. cbn. lia.
          -- apply io_sound_one; [reflexivity|exact Er].
      + destruct stage as [|[|[|k]]]; cbn [tick_io fs].
        * apply io_sound_fail_e. cbn. lia.
        * destruct (fs_mem (io_name (io (nio st))) (fs st)); apply io_sound_fail_e; cbn; lia.
        * destruct (fs_mem (io_name (io (nio st))) (fs st)); [apply io_sound_fail_e; cbn; lia|].
          destruct ((size o s <? thr cfg) || (size o s =? 0)); [apply io_sound_fail_p|apply io_sound_fail_e]; cbn; lia.
        * destruct (fs_mem (io_name (io (nio st))) (fs st)); [apply io_sound_fail_e; cbn; lia|].
          destruct ((size o s <? thr cfg) || (size o s =? 0)); [apply io_sound_fail_p|apply io_sound_fail_e]; cbn; lia.
    - destruct ((size o s <? thr cfg) || (size o s =? 0)); now apply io_sound_same.
  Qed.

  Lemma boot_item_io : forall b st it, io_sound st (boot_item o io b st it).
  Proof.
    intros b st it. unfold boot_item. destruct it as [s|h|k n].
    1,2: now apply io_sound_same.
    cbn [tick_io fs].
    destruct (io_result (io (nio st))) as [|stage] eqn:Er.
    - destruct (fs_get n (fs st)) as [bytes|]; [|apply io_sound_fail_e; cbn; lia].
      destruct (decode o k bytes); [|apply io_sound_fail_e; cbn; lia].
      apply io_sound_one; [reflexivity|exact Er].
    - destruct stage as [|[|k']]; try (apply io_sound_fail_e; cbn; lia).
      + destruct (fs_get n (fs st)); apply io_sound_fail_e; cbn; lia.
      + destruct (fs_get n (fs st)) as [bytes|]; [|apply io_sound_fail_e; cbn; lia].
        destruct (decode o k bytes); apply io_sound_fail_e; cbn; lia.
  Qed.

  Lemma io_ok_trans : forall a b c, io_ok_between a b -> io_ok_between b c -> io_ok_between a c.
  Proof.
    intros a b c H1 H2 i Hi. destruct (Nat.lt_ge_cases i b); [apply H1|apply H2]; lia.
  Qed.

  Lemma for_branches_io : forall (f : Z -> rst -> item -> result item * rst),
      (forall b st it, io_sound st (f b st it)) ->
      forall bs st, io_sound st (for_branches f bs st).
  Proof.
    intros f Hf. induction bs as [|b bs IH]; intros st; cbn.
    - now apply io_sound_same.
    - destruct (tget b (br st)) as [it|]; [|now apply io_sound_fail_p].
      pose proof (Hf b st it) as H1. destruct (f b st it) as [[it'|c|e] st'].
      + specialize (IH (with_br st' (tset b it' (br st')))).
        destruct H1 as [Hle1 Hok1]. destruct IH as [Hle2 Hok2]. cbn in *.
        split; [lia|]. intros v Hv. eapply io_ok_trans; [apply (Hok1 it' eq_refl)|now apply (Hok2 v)].
      + destruct H1 as [Hle _]. now apply io_sound_fail_p.
      + destruct H1 as [Hle _]. now apply io_sound_fail_e.
  Qed.

  Lemma step_io : forall done rest a st, io_sound st (step o cfg io adv done rest a st).
  Proof.
    intros done rest a st. unfold step.
    set (st1 := with_fs st (apply_tampers (fs st) (adv (length done)))).
    assert (E1 : nio st1 = nio st) by reflexivity.
    destruct a as [b c|b news|b others|b|b|b others|b others].
    - destruct (get_awake st1 b); [|now apply io_sound_same..].
      destruct (consume o c (cidx st1) (is_merge done rest c) a); now apply io_sound_same.
    - destruct (get_awake st1 b); now apply io_sound_same.
    - destruct (get_awakes st1 (b :: others)); [|now apply io_sound_same..].
      destruct (merge o a); now apply io_sound_same.
    - now apply io_sound_same.
    - now apply io_sound_same.
    - pose proof (for_branches_io _ (hibernate_item_io) (b :: others) st1) as Hx.
      unfold io_sound in *. now rewrite <- E1.
    - pose proof (for_branches_io _ (boot_item_io) (b :: others) st1) as Hx.
      unfold io_sound in *. now rewrite <- E1.
  Qed.

  Lemma exec_io : forall rest done st, io_sound st (exec o cfg io adv done rest st).
  Proof.
    induction rest as [|a rest IH]; intros done st; cbn.
    - now apply io_sound_same.
    - pose proof (step_io done rest a st) as H1.
      destruct (step o cfg io adv done rest a st) as [[u|c|e] st'].
      + specialize (IH (a :: done) st'). destruct H1 as [Hle1 Hok1]. destruct IH as [Hle2 Hok2]. cbn in *.
        split; [lia|]. intros v Hv. eapply io_ok_trans; [apply (Hok1 u eq_refl)|now apply (Hok2 v)].
      + destruct H1 as [Hle _]. now apply io_sound_fail_p.
      + destruct H1 as [Hle _]. now apply io_sound_fail_e.
  Qed.

  (* a run that ends Ok has performed successful I/O operations only *)
  Theorem run_io_ok : forall p fs0 r,
      fst (run o cfg io adv p fs0) = Ok r ->
      forall i, (i < nio (snd (run o cfg io adv p fs0)))%nat -> io_result (io i) = IoOk.
  Proof.
    intros p fs0 r. unfold run.
    pose proof (exec_io p [] (start fs0)) as Hx.
    destruct (exec o cfg io adv [] p (start fs0)) as [[u|c|e] st']; cbn; try discriminate.
    intros _ i Hi. destruct Hx as [_ Hok]. apply (Hok u eq_refl). cbn. lia.
  Qed.
End IoSurface.

Section BootDamaged.
  Context {S H K R byte : Type}.
  Variable o : ops S H K R byte.
  Notation rst := (@rstate S H K byte).
  Hypothesis truncation_detected : forall h j,
      (j < length (encode o h))%nat -> decode o (strip o h) (firstn j (encode o h)) = None.
  Variable io : nat -> io_choice.

  (* Boot of an item whose temp file is missing or was truncated to a proper prefix of what
     Hibernate wrote returns an error (os.Open fails / EOF / incomplete read), whatever the oracle *)
  Theorem boot_damaged : forall b (st : rst) h n,
      damaged o (fs st) n h ->
      exists e, fst (boot_item o io b st (HibDisk (strip o h) n)) = Err e /\ (e = EOpen \/ e = ERead).
  Proof.
    intros b st h n [Hn|(j & Hj & Hp)]; unfold boot_item; cbn [tick_io fs].
    - rewrite Hn. destruct (io_result (io (nio st))) as [|[|[|k']]]; cbn; eauto.
    - rewrite Hp, (truncation_detected _ _ Hj).
      destruct (io_result (io (nio st))) as [|[|[|k']]]; cbn; eauto.
  Qed.
End BootDamaged.
