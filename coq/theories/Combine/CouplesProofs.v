(* C18 - CouplesAnalysis.MergeResults, index form: every cell of the merged matrices is the sum of the input
   cells whose row and column are sent to it; PeopleFiles is the sorted duplicate-free union; FilesLines adds
   the entries the file table points to.  (The file table itself is characterised in LiteralProofs.v, the
   two are put together in CouplesByName.v.) *)
From Coq Require Import List ZArith Bool Lia.
From Herc Require Import Combine.Model Combine.Spec Combine.Facts.
Import ListNotations.
Open Scope Z_scope.

(* ---------- one row ---------- *)
Lemma asum_row_add b m k v :
  asum Z.eqb idZ b (row_add m k v) = asum Z.eqb idZ b m + (if b =? k then v else 0).
Proof.
  unfold row_add. rewrite (asum_aupd Z.eqb Zeqb_eq). destruct (b =? k); [|reflexivity].
  destruct (aget Z.eqb m k); unfold idZ; simpl; lia.
Qed.

Lemma row_add_nodup m k v : keys_nodup Z.eqb m = true -> keys_nodup Z.eqb (row_add m k v) = true.
Proof. apply (keys_nodup_aupd Z.eqb Zeqb_eq). Qed.

(* ---------- adding one input matrix into the accumulated rows ---------- *)
Definition add_rows (ri : Z -> result Z) (rows : list row) (i : Z) (rc : row) : result (list row) :=
  a <- ri i;
  m <- idx rows a;
  m' <- foldM (fun m e => oi <- ri (fst e); Ok (row_add m oi (snd e))) rc m;
  list_set rows a m'.

Lemma add_people_is_add_rows people rd merged :
  add_people people rd merged = add_rows (people_index people rd merged).
Proof. reflexivity. Qed.
Lemma add_files_is_add_rows ftab fdict : add_files ftab fdict = add_rows (file_index ftab fdict).
Proof. reflexivity. Qed.

Definition tot (ri : Z -> result Z) (x : Z) : Z := match ri x with Ok v => v | _ => -1 end.

Lemma pidx0_tot people rd merged x : pidx0 people rd merged x = tot (people_index people rd merged) x.
Proof. reflexivity. Qed.
Lemma fidx0_tot ftab fdict x : fidx0 ftab fdict x = tot (file_index ftab fdict) x.
Proof. reflexivity. Qed.

Lemma add_cells_spec ri rc : forall m m',
  foldM (fun m e => oi <- ri (fst e); Ok (row_add m oi (snd e))) rc m = Ok m' ->
  (forall b, asum Z.eqb idZ b m' = asum Z.eqb idZ b m + row_sum_to (tot ri) b rc) /\
  (keys_nodup Z.eqb m = true -> keys_nodup Z.eqb m' = true) /\
  (forall c, In c (map fst m') -> In c (map fst m) \/ exists e, In e rc /\ ri (fst e) = Ok c).
Proof.
  induction rc as [|[c v] r IH]; simpl; intros m m' H.
  - inversion H; subst. repeat split; intros; try lia; auto.
  - inv_bind H. inv_bind Hv. inversion Hv; subst; clear Hv.
    destruct (IH _ _ H) as (A & B & C). repeat split.
    + intros b. rewrite A, asum_row_add. unfold tot at 2. rewrite Hv0. rewrite (Z.eqb_sym v1 b). lia.
    + intros Hn. apply B, row_add_nodup, Hn.
    + intros c0 Hc. destruct (C _ Hc) as [Hin|(e & He & Hr)].
      * unfold row_add in Hin.
        assert (In c0 (map fst m) \/ c0 = v1) as [?| ->]; [|left; assumption|right; exists (c, v); split; [left; reflexivity|assumption]].
        clear -Hin. induction m as [|[k0 x] r0 IH]; simpl in *.
        -- destruct Hin as [<-|[]]. right; reflexivity.
        -- destruct (v1 =? k0) eqn:E; simpl in Hin.
           ++ destruct Hin; auto.
           ++ destruct Hin as [?|Hin]; [auto|]. destruct (IH Hin); auto.
      * right. exists e. split; [right; assumption|assumption].
Qed.

Lemma add_rows_spec ri rows i rc rows' :
  add_rows ri rows i rc = Ok rows' ->
  length rows' = length rows /\
  (forall a b, out_get rows' a b = out_get rows a b + (if tot ri i =? a then row_sum_to (tot ri) b rc else 0)) /\
  (forallb (keys_nodup Z.eqb) rows = true -> forallb (keys_nodup Z.eqb) rows' = true).
Proof.
  unfold add_rows. intros H. inv_bind H. inv_bind H. inv_bind H. unfold row in *.
  destruct (add_cells_spec _ _ _ _ Hv1) as (A & B & _).
  destruct (list_set_spec _ _ _ _ H) as (L & R & N).
  split; [assumption|]. split.
  - intros a b. unfold out_get, row. rewrite N. unfold tot at 1. rewrite Hv.
    rewrite (Z.eqb_sym v a). destruct (a =? v) eqn:E.
    + apply Z.eqb_eq in E; subst a. rewrite A. rewrite (idx_nthZ _ _ _ [] Hv0). reflexivity.
    + lia.
  - intros Hall. apply forallb_forall. intros r Hr.
    apply In_nth with (d := []) in Hr. destruct Hr as (n & Hn & <-).
    specialize (N (Z.of_nat n) []). unfold nthZ in N at 1.
    destruct (Z.of_nat n <? 0) eqn:E; [lia|]. rewrite Nat2Z.id in N. rewrite N.
    destruct (Z.of_nat n =? v) eqn:E2.
    + apply B. rewrite forallb_forall in Hall. apply Hall.
      apply idx_ok in Hv0. destruct Hv0 as [_ Hv0]. apply nth_error_In in Hv0. assumption.
    + rewrite forallb_forall in Hall. apply Hall. unfold nthZ. rewrite E, Nat2Z.id.
      apply nth_In. rewrite <- L. assumption.
Qed.

Lemma add_matrix_spec ri fm : forall i rows rows',
  foldMi (add_rows ri) fm i rows = Ok rows' ->
  length rows' = length rows /\
  (forall a b, out_get rows' a b = out_get rows a b + rows_sum (tot ri) a b fm i) /\
  (forallb (keys_nodup Z.eqb) rows = true -> forallb (keys_nodup Z.eqb) rows' = true).
Proof.
  induction fm as [|rc r IH]; simpl; intros i rows rows' H.
  - inversion H; subst. repeat split; intros; try lia; auto.
  - inv_bind H. destruct (add_rows_spec _ _ _ _ _ Hv) as (L1 & A1 & N1).
    destruct (IH _ _ _ H) as (L2 & A2 & N2). repeat split.
    + congruence.
    + intros a b. rewrite A2, A1. lia.
    + auto.
Qed.

Lemma out_get_empty n a b : out_get (repeat [] n) a b = 0.
Proof. unfold out_get. rewrite nthZ_repeat; [reflexivity|exact []]. Qed.

Lemma forallb_repeat {A} (P : A -> bool) a n : P a = true -> forallb P (repeat a n) = true.
Proof. intros H. induction n; simpl; [reflexivity|]. rewrite H, IHn. reflexivity. Qed.

Lemma rows_sum_ext ri ri' a b rows : (forall x, ri x = ri' x) -> forall i, rows_sum ri a b rows i = rows_sum ri' a b rows i.
Proof.
  intros E. induction rows as [|r rest IH]; intros i; simpl; [reflexivity|].
  rewrite IH, E. f_equal. destruct (ri' i =? a); [|reflexivity].
  clear - E. induction r as [|[c v] r IH]; simpl; [reflexivity|]. rewrite IH, E. reflexivity.
Qed.

(* ---------- PeopleFiles ---------- *)
Lemma set_add_in x y l : In y (set_add x l) <-> y = x \/ In y l.
Proof.
  unfold set_add. destruct (existsb (Z.eqb x) l) eqn:E.
  - split; [auto|]. intros [-> |H]; [|assumption].
    apply existsb_exists in E. destruct E as (z & Hz & Ez). apply Z.eqb_eq in Ez. subst. assumption.
  - rewrite in_app_iff. simpl. split; intros H; [destruct H as [H|[<-|[]]]; auto|destruct H as [-> |H]; auto].
Qed.
Lemma set_add_nodup x l : NoDup l -> NoDup (set_add x l).
Proof.
  unfold set_add. destruct (existsb (Z.eqb x) l) eqn:E; [auto|]. intros H.
  assert (~ In x l).
  { intros Hin. assert (existsb (Z.eqb x) l = true); [|congruence].
    apply existsb_exists. exists x. split; [assumption|apply Z.eqb_refl]. }
  clear E. induction l as [|a r IH]; simpl.
  - constructor; [intros []|constructor].
  - inversion H; subst. constructor.
    + rewrite in_app_iff. simpl. intros [?|[<-|[]]]; [auto|]. apply H0. left; reflexivity.
    + apply IH; [assumption|]. intros ?. apply H0. right. assumption.
Qed.

Lemma add_pf_cells fi fs : forall m m',
  foldM (fun m f => name <- fi f; Ok (set_add name m)) fs m = Ok m' ->
  (forall x, In x m' <-> In x m \/ In x (map (tot fi) fs)) /\ (NoDup m -> NoDup m').
Proof.
  induction fs as [|f r IH]; simpl; intros m m' H.
  - inversion H; subst. split; [intros x; tauto|auto].
  - inv_bind H. inv_bind Hv. inversion Hv; subst; clear Hv.
    destruct (IH _ _ H) as (A & B). split.
    + intros x. rewrite A, set_add_in. unfold tot at 2. rewrite Hv0. split; intros; intuition auto.
    + intros Hn. apply B, set_add_nodup, Hn.
Qed.

Lemma add_people_files_spec people ftab rd fdict dicts pi fs dicts' :
  add_people_files people ftab rd fdict dicts pi fs = Ok dicts' ->
  length dicts' = length dicts /\
  (forall w x, In x (nthZ dicts' w []) <->
               In x (nthZ dicts w []) \/ (pfidx0 people rd pi = w /\ In x (map (fidx0 ftab fdict) fs))) /\
  (Forall (@NoDup Z) dicts -> Forall (@NoDup Z) dicts').
Proof.
  unfold add_people_files. intros H. inv_bind H. inv_bind H. inv_bind H.
  assert (Hfold : foldM (fun m f => name <- file_index ftab fdict f; Ok (set_add name m)) fs v0 = Ok v1).
  { rewrite <- Hv1. clear. revert v0. induction fs as [|f r IH]; intros v0; simpl; [reflexivity|].
    unfold file_index at 1. destruct (idx fdict f); simpl; auto. }
  destruct (add_pf_cells _ _ _ _ Hfold) as (A & B).
  destruct (list_set_spec _ _ _ _ H) as (L & R & N).
  assert (Hpf : pfidx0 people rd pi = Final (lookup0 people v)) by (unfold pfidx0; rewrite Hv; reflexivity).
  split; [assumption|]. split.
  - intros w x. rewrite N, Hpf. destruct (w =? Final (lookup0 people v)) eqn:E.
    + apply Z.eqb_eq in E; subst w. rewrite A, (idx_nthZ _ _ _ [] Hv0).
      tauto.
    + split; [auto|]. intros [?|[<- _]]; [assumption|]. rewrite Z.eqb_refl in E. discriminate.
  - intros Hall. apply Forall_forall. intros r Hr.
    apply In_nth with (d := []) in Hr. destruct Hr as (n & Hn & <-).
    specialize (N (Z.of_nat n) []). unfold nthZ in N at 1.
    destruct (Z.of_nat n <? 0) eqn:E; [lia|]. rewrite Nat2Z.id in N. rewrite N.
    rewrite Forall_forall in Hall.
    destruct (Z.of_nat n =? Final (lookup0 people v)) eqn:E2.
    + apply B. apply Hall. apply idx_ok in Hv0. destruct Hv0 as [_ Hv0]. apply nth_error_In in Hv0. assumption.
    + apply Hall. unfold nthZ. rewrite E, Nat2Z.id. apply nth_In. rewrite <- L. assumption.
Qed.

Lemma add_all_people_files_spec people ftab rd fdict pf : forall i dicts dicts',
  foldMi (add_people_files people ftab rd fdict) pf i dicts = Ok dicts' ->
  length dicts' = length dicts /\
  (forall w x, In x (nthZ dicts' w []) <->
               In x (nthZ dicts w []) \/ In x (pf_members (pfidx0 people rd) (fidx0 ftab fdict) w pf i)) /\
  (Forall (@NoDup Z) dicts -> Forall (@NoDup Z) dicts').
Proof.
  induction pf as [|fs r IH]; simpl; intros i dicts dicts' H.
  - inversion H; subst. split; [reflexivity|]. split; [intros; tauto|auto].
  - inv_bind H. destruct (add_people_files_spec _ _ _ _ _ _ _ _ Hv) as (L1 & A1 & N1).
    destruct (IH _ _ _ H) as (L2 & A2 & N2). split; [congruence|]. split; [|auto].
    intros w x. rewrite A2, A1, in_app_iff.
    destruct (pfidx0 people rd i =? w) eqn:E.
    + apply Z.eqb_eq in E. split; intros; intuition auto.
    + assert (pfidx0 people rd i <> w) by (intros Hc; rewrite Hc, Z.eqb_refl in E; discriminate).
      simpl. split; intros; intuition auto.
Qed.

(* sort.Ints *)
Lemma ss_cons y l : strictly_sorted (y :: l) = true <-> Forall (Z.lt y) l /\ strictly_sorted l = true.
Proof.
  revert y. induction l as [|z r IH]; intros y.
  - simpl. split; [intros _; split; [constructor|reflexivity]|reflexivity].
  - change (strictly_sorted (y :: z :: r)) with ((y <? z) && strictly_sorted (z :: r)).
    rewrite andb_true_iff, Z.ltb_lt. split.
    + intros [H1 H2]. split; [|assumption]. constructor; [assumption|].
      apply IH in H2. destruct H2 as [H2 _]. eapply Forall_impl; [|exact H2]. intros; lia.
    + intros [H1 H2]. inversion H1; subst. split; assumption.
Qed.

Lemma insert_sorted_in x l y : In y (insert_sorted x l) <-> y = x \/ In y l.
Proof.
  induction l as [|z r IH]; simpl; [intuition auto|].
  destruct (x <=? z); simpl; [intuition auto|]. rewrite IH. intuition auto.
Qed.

Lemma insert_sorted_ss x l :
  strictly_sorted l = true -> ~ In x l -> strictly_sorted (insert_sorted x l) = true.
Proof.
  induction l as [|z r IH]; intros Hs Hn; [reflexivity|].
  simpl insert_sorted. destruct (x <=? z) eqn:E.
  - apply ss_cons. split; [|assumption]. apply ss_cons in Hs. destruct Hs as [Hf _].
    assert (x < z) by (assert (x <> z) by (intros ->; apply Hn; left; reflexivity); lia).
    constructor; [assumption|]. eapply Forall_impl; [|exact Hf]. intros; lia.
  - apply ss_cons in Hs. destruct Hs as [Hf Hs]. apply ss_cons. split.
    + apply Forall_forall. intros y Hy. apply insert_sorted_in in Hy. destruct Hy as [-> |Hy]; [lia|].
      rewrite Forall_forall in Hf. auto.
    + apply IH; [assumption|]. intros ?. apply Hn. right. assumption.
Qed.

Lemma sort_Z_in l y : In y (sort_Z l) <-> In y l.
Proof.
  induction l as [|x r IH]; simpl; [tauto|]. rewrite insert_sorted_in, IH. intuition auto.
Qed.
Lemma sort_Z_ss l : NoDup l -> strictly_sorted (sort_Z l) = true.
Proof.
  induction l as [|x r IH]; intros H; [reflexivity|]. inversion H; subst. simpl.
  apply insert_sorted_ss; [auto|]. rewrite sort_Z_in. assumption.
Qed.

Lemma nthZ_map {A B} (f : A -> B) l i d d' : f d = d' -> nthZ (map f l) i d' = f (nthZ l i d).
Proof.
  intros E. unfold nthZ. destruct (i <? 0); [auto|]. rewrite <- E. apply map_nth.
Qed.

(* ---------- the whole merge, index form ---------- *)
Theorem couples_merge_index people merged r1 r2 m :
  couples_merge people merged r1 r2 = Ok m ->
  exists ftab,
    literal_merge (cr_files r1) (cr_files r2) = Ok (ftab, cr_files m) /\
    cr_people m = merged /\
    (* FilesLines *)
    length (cr_fl m) = length (cr_files m) /\
    (forall n name, nth_error (cr_files m) n = Some name ->
       exists v, nth_error (cr_fl m) n = Some v /\ files_lines ftab (cr_fl r1) (cr_fl r2) name = Ok v) /\
    (* FilesMatrix *)
    length (cr_fm m) = length (cr_files m) /\ forallb (keys_nodup Z.eqb) (cr_fm m) = true /\
    (forall a b, out_get (cr_fm m) a b =
                 rows_sum (fidx0 ftab (cr_files r1)) a b (cr_fm r1) 0 +
                 rows_sum (fidx0 ftab (cr_files r2)) a b (cr_fm r2) 0) /\
    (* PeopleMatrix *)
    length (cr_pm m) = S (length merged) /\ forallb (keys_nodup Z.eqb) (cr_pm m) = true /\
    (forall a b, out_get (cr_pm m) a b =
                 rows_sum (pidx0 people (cr_people r1) merged) a b (cr_pm r1) 0 +
                 rows_sum (pidx0 people (cr_people r2) merged) a b (cr_pm r2) 0) /\
    (* PeopleFiles *)
    length (cr_pf m) = length merged /\
    (forall w, strictly_sorted (nthZ (cr_pf m) w []) = true) /\
    (forall w x, In x (nthZ (cr_pf m) w []) <->
                 In x (pf_members (pfidx0 people (cr_people r1)) (fidx0 ftab (cr_files r1)) w (cr_pf r1) 0) \/
                 In x (pf_members (pfidx0 people (cr_people r2)) (fidx0 ftab (cr_files r2)) w (cr_pf r2) 0)).
Proof.
  unfold couples_merge. intros H. inv_bind H. destruct v as [ftab mfiles]. cbn [fst snd] in H.
  inv_bind H. inv_bind H. inv_bind H. inv_bind H. inv_bind H. inv_bind H. inv_bind H.
  inversion H; subst; clear H. cbn [cr_pm cr_pf cr_fm cr_fl cr_files cr_people]. exists ftab.
  split; [assumption|]. split; [reflexivity|].
  destruct (mapM_nth _ _ _ Hv0) as (Lfl & Nfl).
  split; [assumption|]. split; [exact Nfl|].
  rewrite add_files_is_add_rows in Hv5, Hv6. rewrite add_people_is_add_rows in Hv3, Hv4.
  destruct (add_matrix_spec _ _ _ _ _ Hv5) as (F1 & F2 & F3).
  destruct (add_matrix_spec _ _ _ _ _ Hv6) as (G1 & G2 & G3).
  destruct (add_matrix_spec _ _ _ _ _ Hv3) as (P1 & P2 & P3).
  destruct (add_matrix_spec _ _ _ _ _ Hv4) as (Q1 & Q2 & Q3).
  destruct (add_all_people_files_spec _ _ _ _ _ _ _ _ Hv1) as (D1 & D2 & D3).
  destruct (add_all_people_files_spec _ _ _ _ _ _ _ _ Hv2) as (E1 & E2 & E3).
  split; [rewrite G1, F1, repeat_length; reflexivity|].
  split; [apply G3, F3, forallb_repeat; reflexivity|].
  split.
  { intros a b. rewrite G2, F2, out_get_empty. unfold tot, fidx0. lia. }
  split; [rewrite Q1, P1, repeat_length; reflexivity|].
  split; [apply Q3, P3, forallb_repeat; reflexivity|].
  split.
  { intros a b. rewrite Q2, P2.
    rewrite out_get_empty. unfold tot, pidx0. lia. }
  split; [rewrite map_length, E1, D1, repeat_length; reflexivity|].
  assert (Hnd : Forall (@NoDup Z) v1).
  { apply E3, D3. clear. induction (length merged); simpl; constructor; [constructor|assumption]. }
  split.
  - intros w. rewrite (nthZ_map sort_Z v1 w [] []) by reflexivity. apply sort_Z_ss.
    unfold nthZ. destruct (w <? 0); [constructor|].
    destruct (Nat.lt_ge_cases (Z.to_nat w) (length v1)) as [Hlt|Hge].
    + rewrite Forall_forall in Hnd. apply Hnd, nth_In, Hlt.
    + rewrite nth_overflow by assumption. constructor.
  - intros w x. rewrite (nthZ_map sort_Z v1 w [] []) by reflexivity. rewrite sort_Z_in, E2, D2.
    rewrite nthZ_repeat by exact []. simpl. tauto.
Qed.
