module verifharness

go 1.23

require gopkg.in/src-d/hercules.v10 v10.0.0

require (
	github.com/emirpasic/gods v1.9.0 // indirect
	github.com/gogo/protobuf v1.3.0 // indirect
	github.com/jbenet/go-context v0.0.0-20150711004518-d14ea06fba99 // indirect
	github.com/kevinburke/ssh_config v0.0.0-20180830205328-81db2a75821e // indirect
	github.com/mitchellh/go-homedir v1.0.0 // indirect
	github.com/pelletier/go-buffruneio v0.2.0 // indirect
	github.com/pkg/errors v0.8.0 // indirect
	github.com/sergi/go-diff v1.0.0 // indirect
	github.com/spf13/cobra v0.0.3 // indirect
	github.com/spf13/pflag v1.0.3 // indirect
	github.com/src-d/gcfg v1.4.0 // indirect
	github.com/xanzy/ssh-agent v0.2.0 // indirect
	golang.org/x/crypto v0.0.0-20180904163835-0709b304e793 // indirect
	golang.org/x/net v0.0.0-20180906233101-161cd47e91fd // indirect
	gopkg.in/src-d/go-billy.v4 v4.2.1 // indirect
	gopkg.in/src-d/go-git.v4 v4.10.0 // indirect
	gopkg.in/warnings.v0 v0.1.2 // indirect
)

replace gopkg.in/src-d/hercules.v10 => /repo

replace github.com/smacker/go-tree-sitter => github.com/dennwc/go-tree-sitter v0.0.0-20191127160809-cea124db9399
