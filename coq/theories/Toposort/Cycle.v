(* Proofs about FindCycle (find_cycle of Toposort/Model.v).

   1. cycle_ok is exactly "the result is seed :: r and seed :: r ++ [seed] is a walk of the graph".
   2. walks and non-empty paths (spath) are the same thing.
   3. find_cycle_real: whatever the map iteration order, a non-empty answer of FindCycle is a real
      cycle through the seed (soundness).
   4. find_cycle_found: if there is a cycle through the seed, FindCycle returns a non-empty answer
      (completeness), hence emptiness of the answer does not depend on the map order.  *)
From Coq Require Import List ZArith Lia Bool Permutation.
From Herc Require Import Toposort.Model Toposort.Paths.
Import ListNotations.
Open Scope Z_scope.

(* is_walk (consecutive elements are edges) and spath (non-empty path a ->+ b) come from Paths.v *)

(* ---------- 1. cycle_ok ---------- *)

Lemma path_ok_walk : forall s seed r a,
  path_ok s a r seed = true <-> is_walk s (a :: r ++ [seed]).
Proof.
  intros s seed r. induction r as [|x r IH]; intros a; cbn [path_ok app].
  - split.
    + intros He. apply walk_cons; [exact He | apply walk_one].
    + intros Hw. inversion Hw as [|a' b' l' He Hw']; subst. exact He.
  - rewrite andb_true_iff. split.
    + intros [He Hp]. apply walk_cons; [exact He|]. apply IH. exact Hp.
    + intros Hw. inversion Hw as [|a' b' l' He Hw']; subst. split; [exact He|]. apply IH. exact Hw'.
Qed.

Theorem cycle_ok_spec : forall s seed c,
  cycle_ok s seed c = true <-> exists r, c = seed :: r /\ is_walk s (seed :: r ++ [seed]).
Proof.
  intros s seed c. destruct c as [|x r]; cbn [cycle_ok].
  - split; [discriminate|]. intros [r [Hc _]]. discriminate Hc.
  - rewrite andb_true_iff. split.
    + intros [Hx Hp]. apply Z.eqb_eq in Hx. subst x. exists r. split; [reflexivity|].
      apply path_ok_walk. exact Hp.
    + intros [r' [Hc Hw]]. injection Hc as Hx Hr. subst x r'. split; [apply Z.eqb_refl|].
      apply path_ok_walk. exact Hw.
Qed.

(* ---------- 2. walks and paths ---------- *)

Theorem is_walk_spath : forall s a l b, is_walk s (a :: l ++ [b]) -> spath s a b.
Proof.
  intros s a l. revert a. induction l as [|x l IH]; intros a b Hw; cbn [app] in Hw.
  - inversion Hw as [|a' b' l' He Hw']; subst. apply spath_one. exact He.
  - inversion Hw as [|a' b' l' He Hw']; subst. eapply spath_cons; [exact He|]. apply IH. exact Hw'.
Qed.

Theorem spath_is_walk : forall s a b, spath s a b -> exists l, is_walk s (a :: l ++ [b]).
Proof.
  intros s a b Hp. induction Hp as [a b He | a b c He Hp [l IH]].
  - exists []. cbn [app]. apply walk_cons; [exact He | apply walk_one].
  - exists (b :: l). cbn [app]. apply walk_cons; [exact He | exact IH].
Qed.

(* ---------- association list facts ---------- *)

Lemma aget_aset_same : forall (V : Type) (l : list (Z * V)) k v, aget (aset l k v) k = Some v.
Proof.
  intros V l k v. induction l as [|[k' v'] l IH]; cbn [aset aget].
  - rewrite Z.eqb_refl. reflexivity.
  - destruct (Z.eqb_spec k' k) as [He|Hne]; cbn [aget].
    + rewrite Z.eqb_refl. reflexivity.
    + destruct (Z.eqb_spec k' k) as [He|_]; [contradiction|]. exact IH.
Qed.

Lemma aget_aset_other : forall (V : Type) (l : list (Z * V)) k v k',
  k <> k' -> aget (aset l k v) k' = aget l k'.
Proof.
  intros V l k v k' Hne. induction l as [|[k0 v0] l IH]; cbn [aset aget].
  - destruct (Z.eqb_spec k k') as [He|_]; [contradiction|]. reflexivity.
  - destruct (Z.eqb_spec k0 k) as [He|Hne0]; cbn [aget].
    + subst k0. destruct (Z.eqb_spec k k') as [He|_]; [contradiction|]. reflexivity.
    + rewrite IH. reflexivity.
Qed.

Lemma length_aset_none : forall (V : Type) (l : list (Z * V)) k v,
  aget l k = None -> length (aset l k v) = S (length l).
Proof.
  intros V l k v. induction l as [|[k0 v0] l IH]; cbn [aset aget length]; intros Hg.
  - reflexivity.
  - destruct (Z.eqb_spec k0 k) as [He|Hne0]; [discriminate|]. cbn [length]. rewrite IH by exact Hg. reflexivity.
Qed.

Lemma length_aset_some : forall (V : Type) (l : list (Z * V)) k v q,
  aget l k = Some q -> length (aset l k v) = length l.
Proof.
  intros V l k v q. induction l as [|[k0 v0] l IH]; cbn [aset aget length]; intros Hg.
  - discriminate.
  - destruct (Z.eqb_spec k0 k) as [He|Hne0]; cbn [length]; [reflexivity|]. rewrite IH by exact Hg. reflexivity.
Qed.

Lemma aget_in_fst : forall (V : Type) (l : list (Z * V)) k v, aget l k = Some v -> In k (map fst l).
Proof.
  intros V l k v. induction l as [|[k0 v0] l IH]; cbn [aget map fst In]; intros Hg.
  - discriminate.
  - destruct (Z.eqb_spec k0 k) as [He|Hne0]; [left; exact He | right; apply IH; exact Hg].
Qed.

Lemma aget_none_not_in : forall (V : Type) (l : list (Z * V)) k, aget l k = None -> ~ In k (map fst l).
Proof.
  intros V l k. induction l as [|[k0 v0] l IH]; cbn [aget map fst In]; intros Hg.
  - intros [].
  - destruct (Z.eqb_spec k0 k) as [He|Hne0]; [discriminate|]. intros [He|Hin]; [contradiction|].
    apply IH; assumption.
Qed.

Lemma in_fst_aget : forall (V : Type) (l : list (Z * V)) k, In k (map fst l) -> exists v, aget l k = Some v.
Proof.
  intros V l k Hin. destruct (aget l k) as [v|] eqn:Hg; [exists v; reflexivity|].
  exfalso. eapply aget_none_not_in; eassumption.
Qed.

(* ---------- edges ---------- *)

Lemma has_edge_children : forall s x m c,
  aget (outs s) x = Some m -> In c (map fst m) -> has_edge s x c = true.
Proof.
  intros s x m c Hg Hin. unfold has_edge. rewrite Hg. apply existsb_exists.
  apply in_map_iff in Hin. destruct Hin as [cr [Hc Hin]]. exists cr. split; [exact Hin|].
  apply Z.eqb_eq. exact Hc.
Qed.

Lemma has_edge_inv : forall s x c,
  has_edge s x c = true -> exists m, aget (outs s) x = Some m /\ In c (map fst m).
Proof.
  intros s x c He. unfold has_edge in He. destruct (aget (outs s) x) as [m|]; [|discriminate].
  exists m. split; [reflexivity|]. apply existsb_exists in He. destruct He as [cr [Hin Hc]].
  apply Z.eqb_eq in Hc. apply in_map_iff. exists cr. split; assumption.
Qed.

Definition children (s : st) (x : Z) : list Z :=
  match aget (outs s) x with Some m => map fst m | None => [] end.

Lemma children_edge : forall s x c, In c (children s x) <-> has_edge s x c = true.
Proof.
  intros s x c. unfold children. split.
  - intros Hin. destruct (aget (outs s) x) as [m|] eqn:Hg; [|destruct Hin].
    eapply has_edge_children; eassumption.
  - intros He. apply has_edge_inv in He. destruct He as [m [Hg Hin]]. rewrite Hg. exact Hin.
Qed.

Lemma has_edge_node : forall s x c, has_edge s x c = true -> is_node s x = true.
Proof.
  intros s x c He. apply has_edge_inv in He. destruct He as [m [Hg _]]. unfold is_node. rewrite Hg. reflexivity.
Qed.

Lemma path_ok_app : forall s l a x z,
  path_ok s a (l ++ [x]) z = path_ok s a l x && has_edge s x z.
Proof.
  intros s l. induction l as [|y l IH]; intros a x z; cbn [app path_ok].
  - reflexivity.
  - rewrite IH. rewrite andb_assoc. reflexivity.
Qed.

(* ---------- 3. soundness ---------- *)

(* the step of bfs, with the children expression folded *)
Lemma bfs_step : forall ord f s seed x p S' V,
  bfs ord (S f) s seed ((x, p) :: S') V =
  let fresh := match aget V x with None => true | Some q => q =? nobody end in
  let V' := if fresh then aset V x p else V in
  let S'' := if fresh then S' ++ map (fun c => (c, x)) (ord x (children s x)) else S' in
  if (x =? seed) && negb (p =? nobody)
  then rev (walk_back (S (length V')) V' seed p [] ++ [seed])
  else bfs ord f s seed S'' V'.
Proof. reflexivity. Qed.

Section Sound.
  Variable ord : Z -> list Z -> list Z.
  Hypothesis ord_incl : forall n l, incl (ord n l) l.
  Variable s : st.
  Variable seed : Z.
  Hypothesis nobody_not_node : is_node s nobody = false.

  (* the parent chain from x back to the seed (x first, the seed excluded) *)
  Inductive anc (V : list (Z * Z)) : Z -> list Z -> Prop :=
  | anc_seed : anc V seed []
  | anc_step x p w : x <> seed -> aget V x = Some p -> has_edge s p x = true ->
                     anc V p w -> anc V x (x :: w).

  Lemma anc_mono : forall V V' x w,
    (forall y q, y <> seed -> aget V y = Some q -> aget V' y = Some q) ->
    anc V x w -> anc V' x w.
  Proof.
    intros V V' x w Hsub Ha. induction Ha as [|x p w Hne Hg He Ha IH].
    - apply anc_seed.
    - eapply anc_step; [exact Hne | apply Hsub; [exact Hne | exact Hg] | exact He | exact IH].
  Qed.

  Lemma anc_walk_back : forall V p w, anc V p w ->
    forall fuel acc, (length w < fuel)%nat -> walk_back fuel V seed p acc = acc ++ w.
  Proof.
    intros V p w Ha. induction Ha as [|x p w Hne Hg He Ha IH]; intros fuel acc Hlen.
    - destruct fuel as [|f]; [inversion Hlen|]. cbn [walk_back]. rewrite Z.eqb_refl.
      rewrite app_nil_r. reflexivity.
    - destruct fuel as [|f]; [inversion Hlen|]. cbn [walk_back].
      destruct (Z.eqb_spec x seed) as [He'|_]; [contradiction|]. rewrite Hg.
      rewrite IH by (cbn [length] in Hlen; lia). rewrite <- app_assoc. reflexivity.
  Qed.

  Lemma anc_path_ok : forall V p w, anc V p w ->
    forall z, has_edge s p z = true -> path_ok s seed (rev w) z = true.
  Proof.
    intros V p w Ha. induction Ha as [|x p w Hne Hg He Ha IH]; intros z Hz.
    - cbn [rev path_ok]. exact Hz.
    - cbn [rev]. rewrite path_ok_app. rewrite (IH x He). rewrite Hz. reflexivity.
  Qed.

  (* an entry of the queue *)
  Definition q_ok (V : list (Z * Z)) (xp : Z * Z) : Prop :=
    snd xp <> nobody /\ has_edge s (snd xp) (fst xp) = true /\
    exists w, anc V (snd xp) w /\ (length w < length V)%nat.

  Record inv (Q V : list (Z * Z)) : Prop := {
    inv_seed : aget V seed = Some nobody;
    inv_vis : forall x q, aget V x = Some q -> x <> seed -> q <> nobody;
    inv_queue : forall xp, In xp Q -> q_ok V xp
  }.

  Lemma q_ok_mono : forall V V' xp,
    (forall y q, y <> seed -> aget V y = Some q -> aget V' y = Some q) ->
    (length V <= length V')%nat -> q_ok V xp -> q_ok V' xp.
  Proof.
    intros V V' xp Hsub Hlen [Hp [He [w [Ha Hw]]]]. split; [exact Hp|]. split; [exact He|].
    exists w. split; [eapply anc_mono; eassumption | lia].
  Qed.

  Lemma new_entries : forall x cp,
    In cp (map (fun c => (c, x)) (ord x (children s x))) ->
    snd cp = x /\ has_edge s x (fst cp) = true /\ x <> nobody.
  Proof.
    intros x cp Hin. apply in_map_iff in Hin. destruct Hin as [c [Hcp Hin]]. subst cp. cbn [fst snd].
    apply ord_incl in Hin. apply children_edge in Hin. split; [reflexivity|]. split; [exact Hin|].
    intros Hx. subst x. apply has_edge_node in Hin. rewrite nobody_not_node in Hin. discriminate.
  Qed.

  Lemma returned_ok : forall V p w,
    anc V p w -> (length w < length V)%nat -> has_edge s p seed = true ->
    cycle_ok s seed (rev (walk_back (S (length V)) V seed p [] ++ [seed])) = true.
  Proof.
    intros V p w Ha Hlen He. rewrite (anc_walk_back V p w Ha) by lia. cbn [app].
    rewrite rev_app_distr. cbn [rev app cycle_ok]. rewrite Z.eqb_refl. cbn [andb].
    eapply anc_path_ok; eassumption.
  Qed.

  Lemma inv_head : forall x p Q V, inv ((x, p) :: Q) V ->
    p <> nobody /\ has_edge s p x = true /\ exists w, anc V p w /\ (length w < length V)%nat.
  Proof.
    intros x p Q V HI. exact (inv_queue _ _ HI (x, p) (or_introl eq_refl)).
  Qed.

  (* the popped node was visited before: nothing changes *)
  Lemma inv_seen : forall xp Q V, inv (xp :: Q) V -> inv Q V.
  Proof.
    intros xp Q V [Hseed Hvis Hq]. constructor; [exact Hseed | exact Hvis |].
    intros xp' Hin. apply Hq. right. exact Hin.
  Qed.

  (* first visit of x (not the seed) *)
  Lemma inv_fresh : forall x p Q V, inv ((x, p) :: Q) V -> aget V x = None ->
    inv (Q ++ map (fun c => (c, x)) (ord x (children s x))) (aset V x p).
  Proof.
    intros x p Q V HI Hgx. destruct (inv_head x p Q V HI) as [Hp [He [w [Ha Hw]]]].
    destruct HI as [Hseed Hvis Hq].
    assert (Hx : x <> seed).
    { intros Hx. subst x. rewrite Hseed in Hgx. discriminate. }
    assert (Hsub : forall y q, y <> seed -> aget V y = Some q -> aget (aset V x p) y = Some q).
    { intros y q _ Hgy. rewrite aget_aset_other; [exact Hgy|]. intros Hxy. subst y. congruence. }
    assert (Hlen : length (aset V x p) = S (length V)) by (apply length_aset_none; exact Hgx).
    constructor.
    - rewrite aget_aset_other by exact Hx. exact Hseed.
    - intros y q Hgy Hy. destruct (Z.eq_dec x y) as [Hxy|Hxy].
      + subst y. rewrite aget_aset_same in Hgy. congruence.
      + rewrite aget_aset_other in Hgy by exact Hxy. eapply Hvis; eassumption.
    - intros cp Hin. apply in_app_or in Hin. destruct Hin as [Hin|Hin].
      + eapply q_ok_mono; [exact Hsub | lia |]. apply Hq. right. exact Hin.
      + apply new_entries in Hin. destruct cp as [c x']. cbn [fst snd] in Hin.
        destruct Hin as [Hx' [Hec Hxn]]. subst x'. split; [exact Hxn|]. split; [exact Hec|].
        cbn [fst snd]. exists (x :: w). split.
        * eapply anc_step; [exact Hx | apply aget_aset_same | exact He |].
          eapply anc_mono; [exact Hsub | exact Ha].
        * cbn [length]. lia.
  Qed.

  (* which of the three cases of the loop body applies *)
  Lemma inv_cases : forall x p Q V, inv ((x, p) :: Q) V ->
    (x = seed /\ aget V x = Some nobody) \/
    (x <> seed /\ aget V x = None) \/
    (x <> seed /\ exists q, aget V x = Some q /\ q <> nobody).
  Proof.
    intros x p Q V [Hseed Hvis _]. destruct (Z.eq_dec x seed) as [Hx|Hx].
    - left. subst x. split; [reflexivity | exact Hseed].
    - right. destruct (aget V x) as [q|] eqn:Hgx.
      + right. split; [exact Hx|]. exists q. split; [reflexivity|]. eapply Hvis; eassumption.
      + left. split; [exact Hx | reflexivity].
  Qed.

  Lemma bfs_sound : forall fuel Q V, inv Q V ->
    bfs ord fuel s seed Q V <> [] -> cycle_ok s seed (bfs ord fuel s seed Q V) = true.
  Proof.
    induction fuel as [|f IH]; intros Q V HI Hne.
    - cbn [bfs] in Hne. contradiction.
    - destruct Q as [|[x p] Q']; [cbn [bfs] in Hne; contradiction|].
      destruct (inv_head x p Q' V HI) as [Hp [He [w [Ha Hw]]]].
      rewrite bfs_step in Hne |- *. cbv zeta in Hne |- *.
      destruct (Z.eqb_spec p nobody) as [Hpn|_]; [contradiction|]. cbn [negb] in Hne |- *.
      rewrite andb_true_r in Hne |- *.
      destruct (inv_cases x p Q' V HI) as [[Hx Hgx] | [[Hx Hgx] | [Hx [q [Hgx Hq]]]]]; rewrite Hgx in Hne |- *.
      + (* the seed is reached again *)
        subst x. rewrite Z.eqb_refl. change (nobody =? nobody) with true. cbv iota.
        apply (returned_ok (aset V seed p) p w).
        * eapply anc_mono; [|exact Ha]. intros y q Hy Hgy. rewrite aget_aset_other by congruence. exact Hgy.
        * rewrite (length_aset_some _ V seed p nobody Hgx). exact Hw.
        * exact He.
      + (* first visit of x *)
        destruct (Z.eqb_spec x seed) as [Hx'|_]; [contradiction|].
        apply IH; [|exact Hne]. apply inv_fresh; assumption.
      + (* already visited *)
        destruct (Z.eqb_spec x seed) as [Hx'|_]; [contradiction|].
        destruct (Z.eqb_spec q nobody) as [Hq'|_]; [contradiction|].
        apply IH; [|exact Hne]. eapply inv_seen. exact HI.
  Qed.

  (* after the first step *)
  Lemma find_cycle_unfold :
    find_cycle ord s seed =
    bfs ord (S (2 * edge_count s)) s seed (map (fun c => (c, seed)) (ord seed (children s seed))) [(seed, nobody)].
  Proof.
    unfold find_cycle. rewrite bfs_step. cbn [aget aset app]. cbv zeta.
    rewrite (Z.eqb_refl nobody). cbn [negb]. rewrite andb_false_r. reflexivity.
  Qed.

  Lemma inv_init : inv (map (fun c => (c, seed)) (ord seed (children s seed))) [(seed, nobody)].
  Proof.
    constructor.
    - cbn [aget]. rewrite Z.eqb_refl. reflexivity.
    - intros x q Hg Hx. cbn [aget] in Hg. destruct (Z.eqb_spec seed x) as [Hsx|_]; [congruence | discriminate].
    - intros cp Hin. apply new_entries in Hin. destruct cp as [c x']. cbn [fst snd] in Hin.
      destruct Hin as [Hx' [Hec Hxn]]. subst x'. split; [exact Hxn|]. split; [exact Hec|].
      cbn [fst snd]. exists []. split; [apply anc_seed | cbn [length]; lia].
  Qed.

  Lemma find_cycle_real_sec :
    find_cycle ord s seed <> [] -> cycle_ok s seed (find_cycle ord s seed) = true.
  Proof.
    rewrite find_cycle_unfold. apply bfs_sound. exact inv_init.
  Qed.
End Sound.

Theorem find_cycle_real : forall (ord : Z -> list Z -> list Z),
  (forall n l, incl (ord n l) l) ->
  forall s seed, is_node s nobody = false ->
  find_cycle ord s seed <> [] -> cycle_ok s seed (find_cycle ord s seed) = true.
Proof.
  intros ord Hord s seed Hn. apply find_cycle_real_sec; assumption.
Qed.

Lemma perm_incl : forall (ord : Z -> list Z -> list Z),
  (forall n l, Permutation (ord n l) l) -> forall n l, incl (ord n l) l.
Proof.
  intros ord Hord n l x Hin. eapply Permutation_in; [apply Hord | exact Hin].
Qed.

Theorem find_cycle_real_perm : forall (ord : Z -> list Z -> list Z),
  (forall n l, Permutation (ord n l) l) ->
  forall s seed, is_node s nobody = false ->
  find_cycle ord s seed <> [] -> cycle_ok s seed (find_cycle ord s seed) = true.
Proof.
  intros ord Hord. apply find_cycle_real. apply perm_incl. exact Hord.
Qed.

(* ---------- 4. completeness ---------- *)

(* number of children of x in the table o *)
Definition clen (o : list (Z * list (Z * Z))) (x : Z) : nat :=
  match aget o x with Some m => length m | None => O end.

(* total size of the child tables of the nodes that are not visited yet *)
Fixpoint unvis (V : list (Z * Z)) (o : list (Z * list (Z * Z))) : nat :=
  match o with
  | [] => O
  | (n, m) :: r => ((match aget V n with Some _ => O | None => length m end) + unvis V r)%nat
  end.

Lemma children_length : forall s x, length (children s x) = clen (outs s) x.
Proof.
  intros s x. unfold children, clen. destruct (aget (outs s) x) as [m|]; [apply map_length | reflexivity].
Qed.

Lemma unvis_nil : forall s, unvis [] (outs s) = edge_count s.
Proof.
  intros s. unfold edge_count. induction (outs s) as [|[n m] r IH]; cbn [unvis fold_right aget snd].
  - reflexivity.
  - rewrite IH. reflexivity.
Qed.

Lemma unvis_aset_le : forall V x p o, (unvis (aset V x p) o <= unvis V o)%nat.
Proof.
  intros V x p o. induction o as [|[n m] r IH]; cbn [unvis].
  - lia.
  - destruct (Z.eq_dec x n) as [Hxn|Hxn].
    + subst n. rewrite aget_aset_same. destruct (aget V x); lia.
    + rewrite aget_aset_other by exact Hxn. lia.
Qed.

Lemma unvis_aset : forall V x p o, aget V x = None ->
  (unvis (aset V x p) o + clen o x <= unvis V o)%nat.
Proof.
  intros V x p o Hgx. unfold clen. induction o as [|[n m] r IH]; cbn [unvis aget].
  - lia.
  - destruct (Z.eqb_spec n x) as [Hnx|Hnx].
    + subst n. rewrite aget_aset_same. rewrite Hgx. pose proof (unvis_aset_le V x p r) as Hle. lia.
    + rewrite aget_aset_other by congruence. lia.
Qed.

Lemma rev_snoc_not_nil : forall (l : list Z) a, rev (l ++ [a]) <> [].
Proof.
  intros l a. rewrite rev_app_distr. cbn [rev app]. discriminate.
Qed.

Section Complete.
  Variable ord : Z -> list Z -> list Z.
  Hypothesis ord_perm : forall n l, Permutation (ord n l) l.
  Variable s : st.
  Variable seed : Z.
  Hypothesis nobody_not_node : is_node s nobody = false.

  Let ord_incl : forall n l, incl (ord n l) l := perm_incl ord ord_perm.

  (* every child of a visited node is a visited non-seed node or waits in the queue *)
  Definition closed (Q V : list (Z * Z)) : Prop :=
    forall x c, aget V x <> None -> has_edge s x c = true ->
      (c <> seed /\ aget V c <> None) \/ exists p, In (c, p) Q.

  Lemma in_new_entries : forall x c, has_edge s x c = true ->
    In (c, x) (map (fun c => (c, x)) (ord x (children s x))).
  Proof.
    intros x c He. apply in_map_iff. exists c. split; [reflexivity|].
    eapply Permutation_in; [apply Permutation_sym; apply ord_perm|]. apply children_edge. exact He.
  Qed.

  Lemma new_entries_length : forall x,
    length (map (fun c => (c, x)) (ord x (children s x))) = clen (outs s) x.
  Proof.
    intros x. rewrite map_length. rewrite (Permutation_length (ord_perm x (children s x))).
    apply children_length.
  Qed.

  Lemma closed_seen : forall x p q Q V, x <> seed -> aget V x = Some q ->
    closed ((x, p) :: Q) V -> closed Q V.
  Proof.
    intros x p q Q V Hx Hgx Hc y c Hy He. destruct (Hc y c Hy He) as [Hl | [p' [Heq | Hin]]].
    - left. exact Hl.
    - injection Heq as Hxc Hpp. subst c. left. split; [exact Hx | congruence].
    - right. exists p'. exact Hin.
  Qed.

  Lemma closed_fresh : forall x p Q V, x <> seed -> aget V x = None ->
    closed ((x, p) :: Q) V ->
    closed (Q ++ map (fun c => (c, x)) (ord x (children s x))) (aset V x p).
  Proof.
    intros x p Q V Hx Hgx Hc y c Hy He.
    assert (Hmono : forall z, aget V z <> None -> aget (aset V x p) z <> None).
    { intros z Hz. rewrite aget_aset_other; [exact Hz|]. intros Hxz. subst z. contradiction. }
    destruct (Z.eq_dec x y) as [Hxy|Hxy].
    - subst y. right. exists x. apply in_or_app. right. apply in_new_entries. exact He.
    - rewrite aget_aset_other in Hy by exact Hxy.
      destruct (Hc y c Hy He) as [[Hcs Hgc] | [p' [Heq | Hin]]].
      + left. split; [exact Hcs | apply Hmono; exact Hgc].
      + injection Heq as Hxc Hpp. subst c. left. split; [exact Hx|]. rewrite aget_aset_same. discriminate.
      + right. exists p'. apply in_or_app. left. exact Hin.
  Qed.

  (* when the queue is empty no path from a visited node reaches the seed *)
  Lemma closed_nil_no_path : forall V, closed [] V ->
    forall a b, spath s a b -> aget V a <> None -> b <> seed.
  Proof.
    intros V Hc a b Hp. induction Hp as [a b He | a b c He Hp IH]; intros Ha.
    - destruct (Hc a b Ha He) as [[Hb _] | [p []]]. exact Hb.
    - destruct (Hc a b Ha He) as [[_ Hb] | [p []]]. apply IH. exact Hb.
  Qed.

  Lemma bfs_complete : forall fuel Q V,
    inv s seed Q V -> closed Q V -> (length Q + unvis V (outs s) <= fuel)%nat ->
    spath s seed seed -> bfs ord fuel s seed Q V <> [].
  Proof.
    induction fuel as [|f IH]; intros Q V HI Hc Hmu Hp.
    - exfalso. destruct Q as [|xp Q']; [|cbn [length] in Hmu; lia].
      apply (closed_nil_no_path V Hc seed seed Hp); [|reflexivity].
      rewrite (inv_seed s seed _ _ HI). discriminate.
    - destruct Q as [|[x p] Q'].
      + exfalso. apply (closed_nil_no_path V Hc seed seed Hp); [|reflexivity].
        rewrite (inv_seed s seed _ _ HI). discriminate.
      + destruct (inv_head s seed x p Q' V HI) as [Hpn _].
        rewrite bfs_step. cbv zeta.
        destruct (Z.eqb_spec p nobody) as [Hpn'|_]; [contradiction|]. cbn [negb]. rewrite andb_true_r.
        cbn [length] in Hmu.
        destruct (inv_cases s seed x p Q' V HI) as [[Hx Hgx] | [[Hx Hgx] | [Hx [q [Hgx Hq]]]]]; rewrite Hgx.
        * subst x. rewrite Z.eqb_refl. apply rev_snoc_not_nil.
        * destruct (Z.eqb_spec x seed) as [Hx'|_]; [contradiction|].
          apply IH; [| |  | exact Hp].
          -- apply (inv_fresh ord ord_incl s seed nobody_not_node); assumption.
          -- apply closed_fresh; assumption.
          -- rewrite app_length. rewrite new_entries_length.
             pose proof (unvis_aset V x p (outs s) Hgx) as Hle. lia.
        * destruct (Z.eqb_spec x seed) as [Hx'|_]; [contradiction|].
          destruct (Z.eqb_spec q nobody) as [Hq'|_]; [contradiction|].
          apply IH; [| | | exact Hp].
          -- eapply inv_seen. exact HI.
          -- eapply closed_seen; eassumption.
          -- lia.
  Qed.

  Lemma closed_init : closed (map (fun c => (c, seed)) (ord seed (children s seed))) [(seed, nobody)].
  Proof.
    intros x c Hx He. right. exists seed. cbn [aget] in Hx.
    destruct (Z.eqb_spec seed x) as [Hsx|_]; [|contradiction]. subst x.
    apply in_new_entries. exact He.
  Qed.

  Lemma measure_init :
    (length (map (fun c => (c, seed)) (ord seed (children s seed))) + unvis [(seed, nobody)] (outs s)
     <= S (2 * edge_count s))%nat.
  Proof.
    rewrite new_entries_length.
    pose proof (unvis_aset [] seed nobody (outs s) eq_refl) as Hle. cbn [aset] in Hle.
    rewrite unvis_nil in Hle. lia.
  Qed.

  Lemma find_cycle_found_sec : spath s seed seed -> find_cycle ord s seed <> [].
  Proof.
    intros Hp. rewrite find_cycle_unfold. apply bfs_complete.
    - apply (inv_init ord ord_incl s seed nobody_not_node).
    - apply closed_init.
    - apply measure_init.
    - exact Hp.
  Qed.
End Complete.

(* no NoDup hypothesis on the node list is needed: aget and has_edge only see the first entry of a key,
   and shadowed entries only make the fuel bound more generous *)
Theorem find_cycle_found : forall ord, (forall n l, Permutation (ord n l) l) ->
  forall s seed, is_node s nobody = false ->
  spath s seed seed -> find_cycle ord s seed <> [].
Proof.
  intros ord Hord s seed Hn Hp. apply find_cycle_found_sec; assumption.
Qed.

(* a non-empty answer witnesses a cycle through the seed *)
Lemma find_cycle_nonempty_spath : forall ord, (forall n l, Permutation (ord n l) l) ->
  forall s seed, is_node s nobody = false ->
  find_cycle ord s seed <> [] -> spath s seed seed.
Proof.
  intros ord Hord s seed Hn Hne.
  pose proof (find_cycle_real_perm ord Hord s seed Hn Hne) as Hok.
  apply cycle_ok_spec in Hok. destruct Hok as [r [_ Hw]].
  eapply is_walk_spath. exact Hw.
Qed.

Theorem find_cycle_nonempty_iff : forall ord, (forall n l, Permutation (ord n l) l) ->
  forall s seed, is_node s nobody = false ->
  (find_cycle ord s seed <> [] <-> spath s seed seed).
Proof.
  intros ord Hord s seed Hn. split.
  - apply find_cycle_nonempty_spath; assumption.
  - apply find_cycle_found; assumption.
Qed.

Theorem find_cycle_empty_indep : forall ord1 ord2,
  (forall n l, Permutation (ord1 n l) l) -> (forall n l, Permutation (ord2 n l) l) ->
  forall s seed, is_node s nobody = false ->
  (find_cycle ord1 s seed = [] <-> find_cycle ord2 s seed = []).
Proof.
  assert (Hhalf : forall ord1 ord2,
    (forall n l, Permutation (ord1 n l) l) -> (forall n l, Permutation (ord2 n l) l) ->
    forall s seed, is_node s nobody = false ->
    find_cycle ord1 s seed = [] -> find_cycle ord2 s seed = []).
  { intros ord1 ord2 H1 H2 s seed Hn He1.
    destruct (find_cycle ord2 s seed) as [|y r] eqn:He2; [reflexivity|]. exfalso.
    assert (Hne2 : find_cycle ord2 s seed <> []) by (rewrite He2; discriminate).
    apply (find_cycle_found ord1 H1 s seed Hn); [|exact He1].
    apply (find_cycle_nonempty_spath ord2 H2 s seed Hn Hne2). }
  intros ord1 ord2 H1 H2 s seed Hn. split; apply Hhalf; assumption.
Qed.

(* the hypotheses are satisfiable on a concrete graph  1 -> 2 -> 3 -> 1, 3 -> 4 *)
Definition ex_graph : st :=
  mkSt [(1, [(2, 1)]); (2, [(3, 1)]); (3, [(4, 1); (1, 2)]); (4, [])] [(1, 1); (2, 1); (3, 1); (4, 1)].

Example ex_graph_cycle :
  is_node ex_graph nobody = false /\ NoDup (map fst (outs ex_graph)) /\ spath ex_graph 1 1 /\
  find_cycle id_ord ex_graph 1 = [1; 2; 3] /\ find_cycle (fun _ l => rev l) ex_graph 1 = [1; 2; 3] /\
  find_cycle id_ord ex_graph 4 = [].
Proof.
  split; [reflexivity|]. split.
  - cbn [ex_graph outs map fst]. repeat constructor; cbn [In]; intros H; intuition discriminate.
  - split; [|split; [|split]]; try (vm_compute; reflexivity).
    apply (spath_cons _ 1 2 1); [reflexivity|]. apply (spath_cons _ 2 3 1); [reflexivity|].
    apply spath_one. reflexivity.
Qed.

Print Assumptions cycle_ok_spec.
Print Assumptions is_walk_spath.
Print Assumptions spath_is_walk.
Print Assumptions find_cycle_real.
Print Assumptions find_cycle_real_perm.
Print Assumptions find_cycle_found.
Print Assumptions find_cycle_nonempty_iff.
Print Assumptions find_cycle_empty_indep.
