CONFIG = dict(
        level='proof',
        streams=[dict(harness='c05', driver='c05', shrink_field='ops')],
        search_seconds=150,
        rule='operation sequences on 1-3 real rbtree.RBTree sharing ONE real rbtree.Allocator: Insert / DeleteWithKey / DeleteWithIterator / FindGE / FindLE / '
             'Get / Min / Max / Next / Prev / Len / Erase / CloneDeep; iterators live in 4 registers, are obtained from Insert/FindGE/FindLE/Min/Max and advanced '
             'with Next/Prev (also over Limit and NegativeLimit, where the assertions must fire). Streams: exhaustive insert/delete sequences, random '
             'sequences of 10..400 operations with phases of different insert/delete/query weights over a key universe of 3..60 keys (one quarter '
             'scaled to the full uint32 range, values up to 2^32-1), and walks that fill a tree in ascending/descending/random order and delete '
             'through a second iterator while iterating forwards or backwards. After EVERY operation the whole arena (every cell: key, value, '
             'parent, left, right, colour), the gaps, every tree header and Item() of every live iterator are recorded. '
             'Non-trivial = at least 3 successful insertions and 1 successful deletion; distinct = distinct (number of trees, operation list).',
        exhaustive_note='every sequence of 4 Insert/DeleteWithKey operations over 6 keys (20 736) and of 5 over 4 keys (32 768) in the quick tier; of 5 over '
                        '6 keys (248 832) and of 7 over 3 keys (279 936) in the thorough tier; the arena is compared after every operation, so all shorter sequences are covered as prefixes',
        assumptions=[
            'malloc takes an arbitrary key of the gaps map: the node index actually handed out is read from the implementation (returned iterator / walk of the clone) '
            'and fed to the model as an explicit choice; the theorems quantify over every choice the model accepts (a gap if there is one, else len(storage))',
            'the theorems exclude what the Go API leaves undefined: iterators that do not point into the tree they are used with (deleted element, other tree), '
            'CloneDeep onto a slot that still owns nodes; the harness never does these (an operation on an invalidated register is skipped on both sides)',
            'hibernation / serialisation of the allocator is C06 and is not modelled here',
        ],
        trusted_base=[
            'hand-written Gallina model coq/theories/RBTree/Model.v + Arena.v of internal/rbtree/rbtree.go (recursive tree with node ids; parent links, minNode/maxNode/count derived), '
            'tied to the code by comparing, after every operation of every case, the result and the complete arena image (to_arena) with the real arena',
            'read-only hooks /repo/internal/rbtree/verif_hooks.go (VerifSnapshot, VerifHeader, VerifNode) and /repo/verifapi/rbtree.go',
            'the gap-complement and zero-cell comparison of the snapshot is done by the OCaml driver itself (allocator bookkeeping is C06)',
        ],
        level_text='Coq theorems (closed under the global context) over the executable Gallina model, for ALL trees / ALL operation sequences on any number of trees '
                   'sharing an allocator and ALL node-index choices of malloc: C05_sequences (induction over the operation list: every reachable state satisfies the invariant '
                   'and the run equals, result for result, the run of n sorted association lists), C05_step, C05_insert_map / C05_delete_map / C05_lookup_map '
                   '(entry list after Insert = sorted-list insert, after doDelete = sorted-list delete; membership, Get, FindGE, FindLE, Min, Max, Len, Next, Prev and the complete '
                   'forward/backward walks answer like the list), C05_insert_rb / C05_delete_rb / C05_rb_meaning (search-tree order, black root, no red-red, equal black height preserved), '
                   'C05_height (depth <= 2*log2(size+1)) and C05_height_pow, C05_iterators_stable and C05_iterators_stable_step (a node id keeps its key and value across every '
                   'operation on every tree unless that operation removes it - including the predecessor swap of doDelete), C05_arena_links (derived parent links consistent), '
                   'C05_frame (operations on one tree leave the others untouched), C05_oracle_sound (the snapshot oracle used on the real arena is sound).',
        level_note='Proved about the Gallina model, not about the Go text (no verified Go semantics): the tie is the replay - on the unchanged repository zero disagreements on '
                   'about 55 000 cases / 510 000 operations per quick run, node for node and link for link. Modelled rather than verified: all of rbtree.go. The model is a '
                   'recursive tree, not a pointer structure: parent links, minNode/maxNode and count are DERIVED from the shape (C05_arena_links proves the derived links consistent; '
                   'that the incrementally maintained Go fields equal the derived ones is checked by the replay and by the oracle on every snapshot). doDelete(node) is modelled as '
                   'deletion of that node\'s key (equal on search trees with distinct ids, which the invariant provides). Several trees on one allocator are separate values in the model, so '
                   'isolation holds there by construction (C05_frame, disjoint ids in Inv); that the real trees do not disturb each other in the shared arena is what the full-arena '
                   'comparison after every operation checks (every cell outside the model trees must be zero, gaps = complement). Independently of the model, an executable oracle '
                   'extracted from Coq and proved sound (C05_oracle_sound) judges every snapshot of the real arena: red-black search tree, parent/min/max/count consistent, '
                   'entries and node ids equal to a sorted-map specification driven only by the inputs; every query answer and every live iterator\'s Item() is compared with that specification (PROPFAIL).',
        technique='machine-checked proof in Coq 8.16 over a hand-written executable Gallina model (recursive red-black tree with node ids and a deficit flag; '
                  'invariant RB t ctx n, in-order entry lists, induction over operation sequences) + replay of the real trees/allocator through the extracted model '
                  '(result and complete arena after every operation) + a Coq-extracted, proved-sound oracle on the implementation\'s own snapshots and answers',
    )
