Require Extraction.
Require Import ExtrOcamlBasic.
From Herc Require Import Base.Conv LineStats.Model LineStats.Fast.
Extraction "c12_model.ml" conv_anchor line_stats lsc_consume step_stats devs_run devs_result commits_run replay_ok
  once_ok no_del_del canonical inserted deleted langs_sum_ok conserve_ok count_commit single_branch
  steps_map single_fast replay_ok_fast once_ok_fast same_keys commits_run_fast devs_result_fast.
