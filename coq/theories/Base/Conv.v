(* Anchors that every extraction includes, so that the shared OCaml helper
   (ocaml/common/conv.ml) can always convert between OCaml ints and the
   extracted nat / positive / N / Z. *)
From Coq Require Import ZArith NArith.

Definition conv_anchor (n : nat) (p : positive) (a : N) (z : Z) : Z :=
  (Z.of_nat n + Z.pos p + Z.of_N a + z)%Z.
