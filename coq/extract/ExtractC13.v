Require Extraction.
Require Import ExtrOcamlBasic.
From Herc Require Import Base.Conv Plumbing.Renames Plumbing.RenamesFast.
Extraction "c13_model.ml" conv_anchor less old_less hash_eqb entry_eqb change_eqb sizes_close effective_threshold
  mods adds dels malformed scan_with scan stage1 cap_of is_small not_small match_a match_b stage3 consume
  repairing_b exact_b wf_hashes_b
  repairing_fast_b exact_at touches hashes_of.
