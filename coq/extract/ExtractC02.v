Require Extraction.
Require Import ExtrOcamlBasic.
From Herc Require Import Base.Conv Plan.Syntax Plan.Exec Plan.Graph Plan.Checker Plan.ExecCheck Plan.FastPlan.
Extraction "c02_model.ml" conv_anchor plan_ok topob retainedb mkA exec_ok mkR fast_c02 mkFA.
