// Harness for C10: drives the real Pipeline.DeployItem / Pipeline.Initialize (dry run) - that is
// resolve() - with (i) every subset of the registered leaf analyses x the uast feature flag and
// (ii) synthetic item sets, and records the deployed items and the resolved order or the error.
package main

import (
	"fmt"
	"os"
	"sort"
	"strings"

	git "gopkg.in/src-d/go-git.v4"
	"gopkg.in/src-d/go-git.v4/plumbing/object"
	"gopkg.in/src-d/go-git.v4/storage/memory"
	hercules "gopkg.in/src-d/hercules.v10"
	_ "gopkg.in/src-d/hercules.v10/leaves"
	. "verifharness/lib"
)

// ---- synthetic items ----

type synthItem struct {
	id   int
	name string
	prov []string
	req  []string
}

func (s *synthItem) Name() string                                             { return s.name }
func (s *synthItem) Provides() []string                                       { return s.prov }
func (s *synthItem) Requires() []string                                       { return s.req }
func (s *synthItem) ListConfigurationOptions() []hercules.ConfigurationOption { return nil }
func (s *synthItem) Configure(map[string]interface{}) error                   { return nil }
func (s *synthItem) Initialize(*git.Repository) error                         { return nil }
func (s *synthItem) Consume(map[string]interface{}) (map[string]interface{}, error) {
	return nil, nil
}
func (s *synthItem) Fork(n int) []hercules.PipelineItem { return nil }
func (s *synthItem) Merge([]hercules.PipelineItem)      {}

type synthFeatured struct {
	synthItem
	feats []string
}

func (s *synthFeatured) Features() []string { return s.feats }

// ---- a logger that prints nothing ----
type quiet struct{}

func (quiet) Info(...interface{})              {}
func (quiet) Infof(string, ...interface{})     {}
func (quiet) Warn(...interface{})              {}
func (quiet) Warnf(string, ...interface{})     {}
func (quiet) Error(...interface{})             {}
func (quiet) Errorf(string, ...interface{})    {}
func (quiet) Critical(...interface{})          {}
func (quiet) Criticalf(string, ...interface{}) {}

var repo *git.Repository
var dagPath string

const runs = 4 // Go randomises map iteration per range loop: repeated runs expose order dependence

func atoms(l []string) []Sx {
	r := make([]Sx, len(l))
	for i, s := range l {
		r[i] = A(esc(s))
	}
	return r
}

// spec is the data of one item: what resolve can see of it
type spec struct {
	name  string
	prov  []string
	req   []string
	feats []string
	real  bool // a registered item, instantiated through the registry
	featd bool // implements FeaturedPipelineItem
}

func (s spec) itemSx(id int) Sx {
	return T("it", I(id), A(esc(s.name)), T("p", atoms(s.prov)...), T("r", atoms(s.req)...))
}

func specOf(it hercules.PipelineItem) spec {
	s := spec{name: it.Name(), prov: it.Provides(), req: it.Requires()}
	if f, ok := it.(hercules.FeaturedPipelineItem); ok {
		s.feats = f.Features()
		s.featd = true
	}
	return s
}

func (s spec) instantiate(id int) hercules.PipelineItem {
	if s.real {
		l := hercules.Registry.Summon(s.name)
		if len(l) == 0 {
			panic("no registered item " + s.name)
		}
		return l[len(l)-1]
	}
	base := synthItem{id: id, name: s.name, prov: s.prov, req: s.req}
	if s.featd {
		return &synthFeatured{synthItem: base, feats: s.feats}
	}
	return &base
}

// initialize runs Pipeline.Initialize in dry-run mode on a pipeline that already has its items and
// maps the result to (ok <ids in resolved order>) | (err <class>) | (panic <class>).
//
// variant selects the other options Initialize reads around resolve (bit 0: the DAG is dumped to a
// file - resolve then copies and serialises the graph; bit 1: DumpPlan, PrintActions and a hibernation
// distance): none of them may change the outcome.
func initialize(p *hercules.Pipeline, ids map[hercules.PipelineItem]int, variant int) Sx {
	facts := map[string]interface{}{
		hercules.ConfigPipelineDryRun:  true,
		hercules.ConfigPipelineCommits: []*object.Commit{},
		hercules.ConfigLogger:          quiet{},
	}
	if variant&1 != 0 {
		facts[hercules.ConfigPipelineDAGPath] = dagPath
	}
	if variant&2 != 0 {
		facts[hercules.ConfigPipelineDumpPlan] = true
		facts["Pipeline.PrintActions"] = true      // core.ConfigPipelinePrintActions
		facts["Pipeline.HibernationDistance"] = 10 // core.ConfigPipelineHibernationDistance
	}
	var err error
	msg, panicked := Catch(func() { err = p.Initialize(facts) })
	if panicked {
		if strings.Contains(msg, "index out of range") {
			return T("panic", A("index"))
		}
		return T("panic", A("other"))
	}
	if err != nil {
		switch err.Error() {
		case "unsatisfied dependency":
			return T("err", A("unsat"))
		case "ambiguous graph":
			return T("err", A("ambig"))
		case "topological sort failure":
			return T("err", A("sort"))
		}
		return T("err", A("other"))
	}
	order := p.VerifItems()
	res := make([]Sx, len(order))
	for i, it := range order {
		id, ok := ids[it]
		if !ok {
			id = -1
		}
		res[i] = I(id)
	}
	return T("ok", res...)
}

// distinct: the different outcomes of the runs of one case, each with the runs (= option variants) that
// produced it: (o <outcome> <run>...)
func distinct(outs []Sx) []Sx {
	seen := map[string]Sx{}
	who := map[string][]Sx{}
	for r, o := range outs {
		seen[o.String()] = o
		who[o.String()] = append(who[o.String()], I(r))
	}
	keys := make([]string, 0, len(seen))
	for k := range seen {
		keys = append(keys, k)
	}
	sort.Strings(keys)
	res := make([]Sx, len(keys))
	for i, k := range keys {
		res[i] = T("o", append([]Sx{seen[k]}, who[k]...)...)
	}
	return res
}

// ---- synthetic resolve cases ----

func observeSynth(items []spec) []Sx {
	var outs []Sx
	for r := 0; r < runs; r++ {
		p := hercules.NewPipeline(repo)
		ids := map[hercules.PipelineItem]int{}
		for i, s := range items {
			it := s.instantiate(i)
			ids[it] = i
			p.AddItem(it)
		}
		outs = append(outs, initialize(p, ids, r))
	}
	return distinct(outs)
}

func nontrivial(items []spec) bool {
	if len(items) < 2 {
		return false
	}
	for _, s := range items {
		if len(s.req) > 0 {
			return true
		}
	}
	return false
}

// chained tells whether some entity has exactly two providers and none has more (the chaining block
// of resolve runs and no "ambiguous graph" error is due)
func chained(items []spec) bool {
	n := map[string]int{}
	for _, s := range items {
		seen := map[string]bool{}
		for _, e := range s.prov {
			if !seen[e] {
				n[e]++
				seen[e] = true
			}
		}
	}
	two := false
	for _, k := range n {
		if k > 2 {
			return false
		}
		two = two || k == 2
	}
	return two
}

func emitSynth(c *Config, kind string, items []spec) {
	if chained(items) && !strings.HasSuffix(kind, "-chained") {
		kind += "-chained"
	}
	sx := make([]Sx, len(items))
	for i, s := range items {
		sx[i] = s.itemSx(i)
	}
	c.Emit(T("kind", A(kind)), T("nt", B(nontrivial(items))), T("items", sx...), T("obs", observeSynth(items)...))
}

func parseStrings(s Sx) []string {
	var r []string
	for _, a := range s.Args() {
		r = append(r, unesc(a.Atom))
	}
	return r
}

func parseItems(f Sx) []spec {
	var items []spec
	for _, it := range f.Args() {
		a := it.Args() // id name (p ..) (r ..)
		items = append(items, spec{name: unesc(a[1].Atom), prov: parseStrings(a[2]), req: parseStrings(a[3])})
	}
	return items
}

// ---- registry table ----

type regTable struct {
	names    []string
	entries  map[string]spec
	keys     []string
	provided map[string][]string
}

func readRegistry() *regTable {
	t := &regTable{entries: map[string]spec{}, provided: map[string][]string{}}
	var all []hercules.PipelineItem
	for _, l := range hercules.Registry.GetLeaves() {
		all = append(all, l)
	}
	all = append(all, hercules.Registry.GetPlumbingItems()...)
	keyset := map[string]bool{}
	for _, it := range all {
		s := specOf(it)
		s.real = true
		t.entries[s.name] = s
		t.names = append(t.names, s.name)
		for _, k := range s.prov {
			keyset[k] = true
		}
		for _, k := range s.req {
			keyset[k] = true
		}
	}
	sort.Strings(t.names)
	for k := range keyset {
		t.keys = append(t.keys, k)
	}
	sort.Strings(t.keys)
	for _, k := range t.keys {
		l := hercules.Registry.Summon(k)
		if _, isName := t.entries[k]; isName && len(l) > 0 {
			l = l[:len(l)-1]
		}
		for _, it := range l {
			t.provided[k] = append(t.provided[k], it.Name())
		}
	}
	return t
}

func (t *regTable) sx() Sx {
	var prov, ent []Sx
	for _, k := range t.keys {
		if len(t.provided[k]) > 0 {
			prov = append(prov, T(esc(k), atoms(t.provided[k])...))
		}
	}
	for _, n := range t.names {
		e := t.entries[n]
		ent = append(ent, T(esc(n), T("p", atoms(e.prov)...), T("r", atoms(e.req)...), T("f", atoms(e.feats)...)))
	}
	return T("reg", T("prov", prov...), T("ent", ent...))
}

// ---- deployment cases ----

func (s spec) deploySx() Sx {
	if s.real {
		return T("d", A("real"), A(esc(s.name)))
	}
	return T("d", A("synth"), A(esc(s.name)), T("p", atoms(s.prov)...), T("r", atoms(s.req)...), T("f", atoms(s.feats)...), B(s.featd))
}

func parseDeploys(f Sx) []spec {
	var res []spec
	for _, d := range f.Args() {
		a := d.Args()
		if a[0].Atom == "real" {
			res = append(res, spec{name: unesc(a[1].Atom), real: true})
		} else {
			res = append(res, spec{name: unesc(a[1].Atom), prov: parseStrings(a[2]), req: parseStrings(a[3]),
				feats: parseStrings(a[4]), featd: a[5].Atom == "1"})
		}
	}
	return res
}

// observeDeploy deploys the roots one after the other into a fresh pipeline with the given features
// switched on, then initialises it in dry-run mode.
func observeDeploy(feats []string, roots []spec) (obs []Sx, nitems int, nreq int) {
	var outs []Sx
	var added []Sx
	var itemsSx []Sx
	for r := 0; r < runs; r++ {
		p := hercules.NewPipeline(repo)
		for _, f := range feats {
			p.SetFeature(f)
		}
		var addedR []Sx
		for i, root := range roots {
			before := len(p.VerifItems())
			var after []hercules.PipelineItem
			msg, panicked := Catch(func() {
				p.DeployItem(root.instantiate(1000 + i))
				after = p.VerifItems()
			})
			if panicked {
				_ = msg
				addedR = append(addedR, T("panic"))
				break
			}
			var names []string
			for _, it := range after[before:] {
				names = append(names, it.Name())
			}
			addedR = append(addedR, T("a", atoms(names)...))
		}
		deployed := p.VerifItems()
		ids := map[hercules.PipelineItem]int{}
		var its []Sx
		nreq = 0
		for i, it := range deployed {
			ids[it] = i
			s := specOf(it)
			its = append(its, s.itemSx(i))
			nreq += len(s.req)
		}
		nitems = len(deployed)
		a, b := T("added", addedR...), T("items", its...)
		if r == 0 {
			added, itemsSx = []Sx{a}, []Sx{b}
		} else if a.String() != added[0].String() || b.String() != itemsSx[0].String() {
			// DeployItem does not iterate maps: differing deployments between runs are reported as such
			added = append(added, a)
			itemsSx = append(itemsSx, b)
		}
		outs = append(outs, initialize(p, ids, r))
	}
	if len(added) > 1 {
		return []Sx{T("nondet", append(added, itemsSx...)...)}, nitems, nreq
	}
	return []Sx{added[0], itemsSx[0], T("outs", distinct(outs)...)}, nitems, nreq
}

func emitDeploy(c *Config, kind string, reg *regTable, feats []string, roots []spec) {
	obs, nitems, nreq := observeDeploy(feats, roots)
	ds := make([]Sx, len(roots))
	for i, r := range roots {
		ds[i] = r.deploySx()
	}
	c.Emit(T("kind", A(kind)), T("nt", B(nitems >= 2 && nreq > 0)), T("feats", atoms(feats)...), reg.sx(),
		T("deploys", ds...), T("obs", obs...))
}

// ---- generators ----

var itemNames = []string{"A", "B", "C", "D", "E", "F", "G", "H", "J", "K", "L", "M", "N", "P", "Q", "R", "S", "T"}
var entNames = []string{"a", "b", "c", "d", "e", "f", "g", "h"}

func pick(c *Config, l []string, n int) []string {
	// n distinct elements in random order
	perm := c.Rng.Perm(len(l))
	if n > len(l) {
		n = len(l)
	}
	r := make([]string, n)
	for i := 0; i < n; i++ {
		r[i] = l[perm[i]]
	}
	return r
}

func shuffle(c *Config, items []spec) []spec {
	r := make([]spec, len(items))
	for i, j := range c.Rng.Perm(len(items)) {
		r[i] = items[j]
	}
	return r
}

// genLayered: an acyclic set; entity k is provided by exactly one item, requirements point to
// entities of earlier items; then optional perturbations.
func genLayered(c *Config, n int) []spec {
	names := pick(c, itemNames, n)
	ne := 1 + c.Rng.Intn(len(entNames))
	ents := pick(c, entNames, ne)
	items := make([]spec, n)
	owner := make([]int, ne)
	for e := range ents {
		owner[e] = c.Rng.Intn(n)
	}
	for i := range items {
		items[i].name = names[i]
	}
	for e, o := range owner {
		items[o].prov = append(items[o].prov, ents[e])
	}
	for i := range items {
		for e, o := range owner {
			if o < i && c.Rng.Intn(3) == 0 {
				items[i].req = append(items[i].req, ents[e])
			}
		}
	}
	return items
}

// add a second provider of an entity, in the shapes the chaining block is written for
func addSecondProvider(c *Config, items []spec) []spec {
	var provided []string
	for _, it := range items {
		provided = append(provided, it.prov...)
	}
	if len(provided) == 0 {
		return items
	}
	e := provided[c.Rng.Intn(len(provided))]
	used := map[string]bool{}
	for _, it := range items {
		used[it.name] = true
	}
	var name string
	for _, n := range itemNames {
		if !used[n] {
			name = n
			break
		}
	}
	if name == "" {
		return items
	}
	s := spec{name: name, prov: []string{e}}
	switch c.Rng.Intn(4) {
	case 0: // the inheritor consumes the entity itself (RenameAnalysis)
		s.req = []string{e}
	case 1: // ... or something derived from it (through BlobCache)
		var cands []string
		for _, it := range items {
			for _, r := range it.req {
				if r == e {
					cands = append(cands, it.prov...)
				}
			}
		}
		if len(cands) > 0 {
			s.req = []string{cands[c.Rng.Intn(len(cands))]}
		}
		if c.Rng.Intn(2) == 0 {
			s.req = append(s.req, e)
		}
	case 2: // independent second provider
	case 3: // requires something unrelated
		s.req = []string{provided[c.Rng.Intn(len(provided))]}
	}
	if c.Rng.Intn(3) == 0 {
		s.prov = append(s.prov, "z"+name)
	}
	return append(items, s)
}

func genRandom(c *Config, n int, ne int, maxDeg int) []spec {
	names := pick(c, itemNames, n)
	ents := pick(c, entNames, ne)
	items := make([]spec, n)
	for i := range items {
		items[i].name = names[i]
		items[i].prov = pick(c, ents, c.Rng.Intn(maxDeg+1))
		items[i].req = pick(c, ents, c.Rng.Intn(maxDeg+1))
	}
	return items
}

func synthetic(c *Config) {
	// exhaustive small scopes: 2 and 3 items over 2 entities (every provides/requires subset), and
	// 2 items over 3 entities
	sub := func(mask int, ents []string) []string {
		var r []string
		for i, e := range ents {
			if mask&(1<<uint(i)) != 0 {
				r = append(r, e)
			}
		}
		return r
	}
	two := []string{"a", "b"}
	for x := 0; x < 16; x++ {
		for y := 0; y < 16; y++ {
			emitSynth(c, "small2", []spec{{name: "A", prov: sub(x&3, two), req: sub(x>>2, two)}, {name: "B", prov: sub(y&3, two), req: sub(y>>2, two)}})
		}
	}
	for x := 0; x < 16; x++ {
		for y := x; y < 16; y++ {
			for z := y; z < 16; z++ {
				emitSynth(c, "small3", []spec{{name: "A", prov: sub(x&3, two), req: sub(x>>2, two)},
					{name: "B", prov: sub(y&3, two), req: sub(y>>2, two)}, {name: "C", prov: sub(z&3, two), req: sub(z>>2, two)}})
			}
		}
	}
	if c.Thorough() {
		three := []string{"a", "b", "c"}
		for x := 0; x < 64; x++ {
			for y := x; y < 64; y++ {
				emitSynth(c, "small2x3", []spec{{name: "A", prov: sub(x&7, three), req: sub(x>>3, three)}, {name: "B", prov: sub(y&7, three), req: sub(y>>3, three)}})
			}
		}
	}
	size := func() int { return 2 + c.Rng.Intn(11) }
	// acyclic, one provider per entity
	for i := c.Count(600, 6000); i > 0; i-- {
		emitSynth(c, "acyclic", shuffle(c, genLayered(c, size())))
	}
	// two providers of one entity
	for i := c.Count(900, 9000); i > 0; i-- {
		n := 2 + c.Rng.Intn(10)
		items := addSecondProvider(c, genLayered(c, n))
		if c.Rng.Intn(4) == 0 && len(items) < 12 {
			items = addSecondProvider(c, items)
		}
		emitSynth(c, "twoprov", shuffle(c, items))
	}
	// three providers
	for i := c.Count(150, 1500); i > 0; i-- {
		n := 2 + c.Rng.Intn(9)
		items := addSecondProvider(c, addSecondProvider(c, genLayered(c, n)))
		if len(items) > 0 {
			// force a third provider of what the last added item provides
			last := items[len(items)-1]
			k := c.Rng.Intn(len(items) - 1)
			has := false
			for _, e := range items[k].prov {
				has = has || e == last.prov[0]
			}
			if !has {
				items[k].prov = append(append([]string{}, items[k].prov...), last.prov[0])
			}
		}
		emitSynth(c, "threeprov", shuffle(c, items))
	}
	// arbitrary relations: cycles, unsatisfied requirements, duplicated providers
	for i := c.Count(900, 9000); i > 0; i-- {
		n := size()
		emitSynth(c, "random", genRandom(c, n, 2+c.Rng.Intn(6), 1+c.Rng.Intn(3)))
	}
	// same-named items
	for i := c.Count(500, 5000); i > 0; i-- {
		var items []spec
		if c.Rng.Intn(2) == 0 {
			items = genLayered(c, size())
		} else {
			items = genRandom(c, size(), 2+c.Rng.Intn(5), 1+c.Rng.Intn(2))
		}
		for k := 1 + c.Rng.Intn(3); k > 0; k-- {
			a, b := c.Rng.Intn(len(items)), c.Rng.Intn(len(items))
			items[a].name = items[b].name
		}
		emitSynth(c, "samename", shuffle(c, items))
	}
	// more than 12 items with distinct names (Go's sort switches algorithm above 12 elements)
	for i := c.Count(100, 1000); i > 0; i-- {
		items := genLayered(c, 13+c.Rng.Intn(5))
		if c.Rng.Intn(2) == 0 {
			items = addSecondProvider(c, items)
		}
		emitSynth(c, "large", shuffle(c, items))
	}
	// malformed: an entity listed twice by one item, names that collide with generated node names
	for i := c.Count(300, 3000); i > 0; i-- {
		items := genRandom(c, 2+c.Rng.Intn(6), 2+c.Rng.Intn(4), 1+c.Rng.Intn(2))
		switch c.Rng.Intn(4) {
		case 0:
			k := c.Rng.Intn(len(items))
			if len(items[k].prov) > 0 {
				items[k].prov = append(items[k].prov, items[k].prov[0])
			}
		case 1:
			k := c.Rng.Intn(len(items))
			if len(items[k].req) > 0 {
				items[k].req = append(items[k].req, items[k].req[0])
			}
		case 2: // "X", "X", "X_1"
			a, b, d := c.Rng.Intn(len(items)), c.Rng.Intn(len(items)), c.Rng.Intn(len(items))
			items[a].name = items[b].name
			items[d].name = items[b].name + "_" + fmt.Sprint(1+c.Rng.Intn(2))
		case 3: // an item called like an entity node
			k := c.Rng.Intn(len(items))
			items[k].name = "[" + entNames[c.Rng.Intn(3)] + "]"
		}
		emitSynth(c, "malformed", shuffle(c, items))
	}
}

func leaves(c *Config, reg *regTable) {
	ls := hercules.Registry.GetLeaves()
	var names []string
	for _, l := range ls {
		names = append(names, l.Name())
	}
	orders := 1
	if c.Thorough() {
		orders = 2
	}
	for ord := 0; ord < orders; ord++ {
		for uast := 0; uast < 2; uast++ {
			for mask := 0; mask < 1<<uint(len(names)); mask++ {
				var roots []spec
				for i := range names {
					k := i
					if ord == 1 {
						k = len(names) - 1 - i
					}
					if mask&(1<<uint(k)) != 0 {
						roots = append(roots, spec{name: names[k], real: true})
					}
				}
				var feats []string
				if uast == 1 {
					feats = []string{"uast"}
				}
				kind := "leaves"
				if ord == 1 {
					kind = "leaves-rev"
				}
				emitDeploy(c, kind, reg, feats, roots)
			}
		}
	}
	// every registered item deployed on its own (plumbing items included)
	for uast := 0; uast < 2; uast++ {
		for _, n := range reg.names {
			var feats []string
			if uast == 1 {
				feats = []string{"uast"}
			}
			emitDeploy(c, "single", reg, feats, []spec{{name: n, real: true}})
		}
	}
	// synthetic roots that require registered keys / item names / unknown keys, with features
	pool := append(append([]string{}, reg.keys...), reg.names...)
	pool = append(pool, "nonexistent")
	featPool := []string{"uast", "other"}
	for i := c.Count(300, 3000); i > 0; i-- {
		var roots []spec
		for k := 1 + c.Rng.Intn(3); k > 0; k-- {
			if c.Rng.Intn(4) == 0 {
				roots = append(roots, spec{name: reg.names[c.Rng.Intn(len(reg.names))], real: true})
				continue
			}
			s := spec{name: "Synth" + fmt.Sprint(len(roots)), req: pick(c, pool, c.Rng.Intn(4))}
			if c.Rng.Intn(3) == 0 {
				s.prov = []string{"synth_out" + fmt.Sprint(len(roots))}
			}
			if c.Rng.Intn(2) == 0 {
				s.featd = true
				s.feats = pick(c, featPool, c.Rng.Intn(3))
			}
			roots = append(roots, s)
		}
		emitDeploy(c, "deploysynth", reg, pick(c, featPool, c.Rng.Intn(3)), roots)
	}
}

func main() {
	c := Setup()
	defer c.Close()
	// resolve prints the pipeline to os.Stderr when the graph is ambiguous
	if devnull, err := os.OpenFile(os.DevNull, os.O_WRONLY, 0); err == nil {
		os.Stderr = devnull
	}
	var err error
	repo, err = git.Init(memory.NewStorage(), nil)
	if err != nil {
		panic(err)
	}
	dir := os.TempDir()
	if st, err := os.Stat("/dev/shm"); err == nil && st.IsDir() {
		dir = "/dev/shm" // thousands of small dumps: keep them off the disk
	}
	dagPath = fmt.Sprintf("%s/c10-dag-%d.dot", dir, os.Getpid())
	defer os.Remove(dagPath)
	saveRegistry()
	reg := readRegistry()
	if c.Replay != "" {
		for _, cs := range c.ReplayCases() {
			kind, _ := cs.Field("kind")
			k := kind.Args()[0].Atom
			if w, ok := cs.Field("world"); ok {
				// round 4: the case carries its own registry (the list of registrations, in order)
				feats, _ := cs.Field("feats")
				f, _ := cs.Field("deploys")
				if o, isSeq := cs.Field("ops"); isSeq {
					emitSeqWorld(c, strings.TrimSuffix(k, "-chained"), parseWorld(w), parseOps(o))
				} else {
					emitWorld(c, strings.TrimSuffix(k, "-chained"), parseWorld(w), parseStrings(feats), parseDeploys(f))
				}
			} else if f, ok := cs.Field("ops"); ok {
				emitSeq(c, k, reg, parseOps(f))
			} else if f, ok := cs.Field("deploys"); ok {
				feats, _ := cs.Field("feats")
				emitDeploy(c, k, reg, parseStrings(feats), parseDeploys(f))
			} else if f, ok := cs.Field("items"); ok {
				emitSynth(c, k, parseItems(f))
			}
		}
		return
	}
	leaves(c, reg)
	synthetic(c)
	cascades(c)
	manySameNamed(c)
	scale(c)
	sequences(c, reg)
	twoPaths(c)
	nameCollide(c)
	sequencesInit(c, reg)
	round4(c)
}
