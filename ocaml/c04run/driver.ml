(* C04, execution stream: the call log of the recording items of a real Pipeline.Run, judged per deployed item by
   the oracle [run_okb] extracted from coq/theories/Plan/RunLifecycle.v (C04_run_lifecycle_sound: an accepted
   log satisfies the declarative lifecycle statement).  There is no model-vs-implementation comparison in this
   stream: the planner is not deterministic, so only the executed call log is judged.  PROPFAIL = the oracle
   rejects the log, Run panicked or returned an error, or the value Run returns for a leaf is not the value of
   the instance that received Finalize. *)
open C04run_model
open Conv

let nn = nat_of_int

let event_of_sx (s : sx) : int * event =
  match tag s, args s with
  | "root", [it; i] -> int_of_sx it, ERoot (nn (int_of_sx i))
  | "fork", [it; i; ts] -> int_of_sx it, EFork (nn (int_of_sx i), List.map nn (ints_of_sx ts))
  | "con", [it; i; c] ->
      let c = int_of_sx c in
      if c < 0 then failwith "Consume of a commit that is not in the commit list";
      int_of_sx it, EConsume (nn (int_of_sx i), nn c)
  | "merge", [it; i; os] -> int_of_sx it, EMerge (nn (int_of_sx i), List.map nn (ints_of_sx os))
  | "hib", [it; i] -> int_of_sx it, EHibernate (nn (int_of_sx i))
  | "boot", [it; i] -> int_of_sx it, EBoot (nn (int_of_sx i))
  | "disp", [it; i] -> int_of_sx it, EDispose (nn (int_of_sx i))
  | "fin", [it; i] -> int_of_sx it, EFinalize (nn (int_of_sx i))
  | _ -> failwith ("unknown event " ^ string_of_sx s)

let show_event = function
  | ERoot i -> Printf.sprintf "root #%d" (int_of_nat i)
  | EFork (s, ts) -> Printf.sprintf "#%d.Fork -> [%s]" (int_of_nat s) (String.concat " " (List.map (fun t -> "#" ^ string_of_int (int_of_nat t)) ts))
  | EConsume (i, c) -> Printf.sprintf "#%d.Consume(commit %d)" (int_of_nat i) (int_of_nat c)
  | EMerge (i, os) -> Printf.sprintf "#%d.Merge([%s])" (int_of_nat i) (String.concat " " (List.map (fun t -> "#" ^ string_of_int (int_of_nat t)) os))
  | EHibernate i -> Printf.sprintf "#%d.Hibernate" (int_of_nat i)
  | EBoot i -> Printf.sprintf "#%d.Boot" (int_of_nat i)
  | EDispose i -> Printf.sprintf "#%d.Dispose" (int_of_nat i)
  | EFinalize i -> Printf.sprintf "#%d.Finalize" (int_of_nat i)

let mem i l = List.mem i l

(* diagnosis only (the verdict is run_okb): which clause of rl_check the state violates *)
let why (s : rstate) (e : event) : string =
  let st i =
    if not (mem i s.r_created) then "does not exist"
    else if mem i s.r_finals then "is finalized"
    else if mem i s.r_hibs then "is hibernated"
    else "is live" in
  let used = match e with
    | ERoot _ | EBoot _ -> []
    | EFork (i, _) | EConsume (i, _) | EHibernate i | EDispose i | EFinalize i -> [i]
    | EMerge (i, os) -> i :: os in
  match List.filter (fun i -> st i <> "is live") used with
  | i :: _ -> Printf.sprintf "instance #%d %s" (int_of_nat i) (st i)
  | [] ->
      (match e with
       | EBoot i -> Printf.sprintf "instance #%d %s (Boot of an instance that is not hibernated)" (int_of_nat i) (st i)
       | EMerge _ -> "the participants are not distinct or did not consume the same commit last"
       | EFinalize _ ->
           if s.r_hibs <> [] then Printf.sprintf "instance #%d is still hibernated" (int_of_nat (List.hd s.r_hibs))
           else "Finalize was already called"
       | _ -> "an instance is created twice")

(* the index and text of the first rejected call *)
let first_reject (log : event list) : string =
  let rec go k s = function
    | [] ->
        if s.r_hibs <> [] then Printf.sprintf "at the end of the run instance #%d is still hibernated" (int_of_nat (List.hd s.r_hibs))
        else (match s.r_finals with
              | [] -> "Finalize was never called"
              | _ -> "with a single head the finalized instance has not incorporated every commit")
    | e :: r ->
        (match rl_exec1 s e with
         | Some s' -> go (k + 1) s' r
         | None -> Printf.sprintf "call %d %s: %s" k (show_event e) (why s e)) in
  go 0 rinit log

let add k n = Hashtbl.replace counters k (n + try Hashtbl.find counters k with Not_found -> 0)

(* ---------- large runs ----------
   The list-based oracle is quadratic in the number of instances.  The call log of a large run is read as a plan over
   instance ids in the language of the abstract executor (Exec.v): root = emerge, s.Fork -> ts = fork of s onto ts,
   Consume = commit, i.Merge(os) = merge of i :: os, Hibernate / Boot, Finalize = delete (needs the instance live and
   awake and retires it), and judged by fast_c04 (C04_fast_exact): instances are created once, every call finds its
   instance existing, awake and not finalized, Boot only of hibernated instances, merges join distinct instances whose
   last commit is the same, nothing is left hibernated.  Not judged at this size: that the finalized instance has
   incorporated every commit. *)
let faction_of_event (it : int) (e : sx) : faction option =
  let z x = z_of_int (int_of_sx x) in
  let mk k c its = Some { fkind = k; fcommit = c; fitems = its } in
  match tag e, args e with
  | _, i :: _ when int_of_sx i <> it -> None
  | "root", [_; i] -> mk KEmerge None [z i]
  | "fork", [_; s; ts] -> mk KFork None (z s :: List.map z (list_of_sx ts))
  | "con", [_; i; c] ->
      let c = int_of_sx c in
      if c < 0 then failwith "Consume of a commit that is not in the commit list";
      mk KCommit (Some (n_of_int c)) [z i]
  | "merge", [_; i; os] -> mk KMerge None (z i :: List.map z (list_of_sx os))
  | "hib", [_; i] -> mk KHibernate None [z i]
  | "boot", [_; i] -> mk KBoot None [z i]
  | "disp", [_; _] -> None
  | "fin", [_; i] -> mk KDelete None [z i]
  | _ -> failwith ("unknown event " ^ string_of_sx e)

let first_reject_fast (p : faction list) : string =
  let rec go k m = function
    | [] -> if fnothing_hibernated m then "no single call is rejected" else "an instance is left hibernated at the end of the run"
    | a :: r ->
        if fstep_okb m a && fmerge_same m a then go (k + 1) (fstep m a) r
        else begin
          let show b = match fget m b with
            | None -> "does not exist" | Some (FLive, _) -> "is live" | Some (FHib, _) -> "is hibernated"
            | Some (FDisp, _) -> "is finalized" in
          let what = match a.fkind with
            | KCommit -> "Consume" | KFork -> "Fork" | KMerge -> "Merge" | KEmerge -> "root" | KDelete -> "Finalize"
            | KHibernate -> "Hibernate" | KBoot -> "Boot" in
          Printf.sprintf "call %d %s%s on instance(s) %s" k what
            (match a.fcommit with Some c -> Printf.sprintf "(commit %d)" (int_of_n c) | None -> "")
            (String.concat "; " (List.filteri (fun i _ -> i < 12)
               (List.map (fun b -> Printf.sprintf "#%d %s" (int_of_z b) (show b)) a.fitems)))
        end in
  go 0 finit p

let scale_case id c =
  let nitems = int_of_sx (List.hd (args (field "nitems" c))) in
  let obs = field "obs" c in
  let res = field "res" obs in
  count "scale_runs";
  match args res with
  | A "ok" :: _ ->
      count "runs_ok";
      let evs = args (field "log" obs) in
      for it = 0 to nitems - 1 do
        let plan = List.rev (List.fold_left (fun acc e -> match faction_of_event it e with Some a -> a :: acc | None -> acc) [] evs) in
        count "logs_judged"; add "scale_calls_judged" (List.length plan);
        List.iter (fun a -> match a.fkind with
          | KHibernate -> count "hibernate_calls" | KBoot -> count "boot_calls" | _ -> ()) plan;
        let ninst = List.fold_left (fun m a -> List.fold_left (fun m b -> max m (int_of_z b)) m a.fitems) 0 plan in
        if ninst >= 65536 then count "scale_runs_with_65536_instances";
        if not (List.exists (fun a -> a.fkind = KDelete) plan) then
          propfail id (Printf.sprintf "item %d: Finalize was never called in a large run" it)
        else if not (fast_c04 plan) then
          propfail id (Printf.sprintf "item %d: the call log of Pipeline.Run on a large history violates the branch lifecycle (fast_c04, instances as branches): %s"
                         it (first_reject_fast plan))
      done
  | A "panic" :: _ -> propfail id "Pipeline.Run panicked on a valid large history"
  | A "err" :: _ -> propfail id "Pipeline.Run returned an error on a valid large history with items that never fail"
  | _ -> failwith "res"

let () =
  iter_cases (fun id c ->
    if field_opt "shape" c <> None then scale_case id c else
    (* the history as the harness builds it: a parent that is not an earlier commit of the list is dropped *)
    let commits = List.map (fun x -> match list_of_sx x with
      | [i; ps] -> (int_of_sx i, ints_of_sx ps) | _ -> failwith "commit") (args (field "commits" c)) in
    let n = List.length commits in
    let ids = Array.of_list (List.map fst commits) in
    let pos = Hashtbl.create 16 in
    Array.iteri (fun k i -> if not (Hashtbl.mem pos i) then Hashtbl.add pos i k) ids;
    (* index as in the harness: the LAST commit with a given id wins in its map; ids are distinct in generated cases *)
    let pos_last = Hashtbl.create 16 in
    Array.iteri (fun k i -> Hashtbl.replace pos_last i k) ids;
    let is_parent = Array.make n false in
    List.iteri (fun k (_, ps) ->
      List.iter (fun p -> match Hashtbl.find_opt pos_last p with
        | Some j when j < k -> is_parent.(j) <- true
        | _ -> ()) ps) commits;
    let heads = Array.fold_left (fun a b -> if b then a else a + 1) 0 is_parent in
    let single = heads = 1 in
    let nitems = int_of_sx (List.hd (args (field "nitems" c))) in
    let obs = field "obs" c in
    let res = field "res" obs in
    let evs = List.map event_of_sx (args (field "log" obs)) in
    if single then count "single_head";
    (match args res with
     | A "ok" :: nres :: fins :: _ ->
         count "runs_ok";
         if int_of_sx nres <> nitems + 1 then
           propfail id (Printf.sprintf "Run returned %d results for %d leaf item(s)" (int_of_sx nres - 1) nitems);
         for it = 0 to nitems - 1 do
           let log = List.filter_map (fun (k, e) -> if k = it then Some e else None) evs in
           count "logs_judged";
           List.iter (function EHibernate _ -> count "hibernate_calls" | EBoot _ -> count "boot_calls"
                             | EMerge (_, os) -> if List.length os >= 2 then count "octopus_merge_calls" else count "merge_calls"
                             | _ -> ()) log;
           (* coverage: a boot action that covers several branches shows as consecutive Boot calls *)
           let rec multi = function EBoot _ :: EBoot _ :: _ -> true | _ :: r -> multi r | [] -> false in
           if multi log then count "logs_with_multi_branch_boot";
           if List.exists (function EHibernate _ -> true | _ -> false) log then count "logs_with_hibernation";
           if not (run_okb single (nn n) log) then
             propfail id (Printf.sprintf "item %d: the call log of Pipeline.Run violates the branch lifecycle: %s" it (first_reject log))
           else begin
             (* the value Run returns for the deployed leaf must come from the instance that received Finalize *)
             let fin = List.filter_map (function EFinalize i -> Some (int_of_nat i) | _ -> None) log in
             let got = List.filter_map (fun x -> match list_of_sx x with
               | [k; v] when int_of_sx k = it -> Some (int_of_sx v) | _ -> None) (args fins) in
             if fin <> got then
               propfail id (Printf.sprintf "item %d: the result Run returns does not come from the instance that received Finalize" it)
           end
         done
     | A "panic" :: _ -> propfail id "Pipeline.Run panicked on a valid history"
     | A "err" :: _ -> propfail id "Pipeline.Run returned an error on a valid history with items that never fail"
     | _ -> failwith "res"))
