(* handleModification's loop on a canonical script = one File.Update per hunk (piece A), and what the
   hunks of a line sequence do to the array of a file and to the global history (piece B).
   Both hold in normal and in merge mode: the inserted value t may carry the merge mark. *)
From Coq Require Import List ZArith Lia Bool.
From Herc Require Import Burndown.Base Burndown.Dense Burndown.Lifetimes Burndown.Analysis
  Burndown.SparseFacts Burndown.AnalysisFacts Burndown.Replay Burndown.LifetimesFacts.
Import ListNotations.
Open Scope Z_scope.

Section Hunks.
  Variable cf : cfg.
  Variable t : Z.

  Fixpoint run_hunks (ts : list (Z * Z * Z)) (pos : Z) (f : file) (s : shared) : result (file * shared) :=
    match ts with
    | [] => Ok (f, s)
    | (k, d, i) :: r =>
        match arr_update cf f s t (pos + k) i d with
        | Ok (f', s') => run_hunks r (pos + k + i) f' s'
        | Panic c => Panic c
        | Err c => Err c
        end
    end.

  Definition triples_ok (ts : list (Z * Z * Z)) : Prop :=
    forall k d i, In (k, d, i) ts -> 0 <= k /\ 0 <= d /\ 0 <= i.

  Lemma arr_update_00 f s pos : 0 <= pos -> arr_update cf f s t pos 0 0 = Ok (f, s).
  Proof.
    intros Hp. unfold arr_update. destruct (Z.ltb_spec pos 0); [lia|]. cbn. reflexivity.
  Qed.

  (* the deferred insertion: a pending DiffInsert is applied by the next DiffEqual or at the end *)
  Definition flush (pend : dop * Z) (pos : Z) (f : file) (s : shared) : result (file * shared) :=
    if 0 <? snd pend then arr_update cf f s t pos (snd pend) 0 else Ok (f, s).

  Lemma hm_flat : forall ts pos pend f s, triples_ok ts -> 0 <= pos ->
    (snd pend = 0 \/ (fst pend = DIns /\ 0 < snd pend)) ->
    hm_loop cf t (flat_hunks ts) pos pend f s =
    match flush pend pos f s with
    | Ok (f1, s1) => run_hunks ts (pos + snd pend) f1 s1
    | Panic c => Panic c
    | Err c => Err c
    end.
  Proof.
    induction ts as [|[[k d] i] ts IH]; intros pos pend f s Hok Hpos Hpend.
    - cbn [flat_hunks flat_map hm_loop run_hunks]. unfold flush.
      destruct Hpend as [H0|[Hi Hj]].
      + rewrite H0. cbn. reflexivity.
      + destruct (Z.ltb_spec 0 (snd pend)); [|lia]. rewrite Hi.
        destruct (arr_update cf f s t pos (snd pend) 0) as [[f1 s1]| |]; reflexivity.
    - destruct (Hok k d i (or_introl eq_refl)) as (Hk & Hd & Hi).
      assert (Hok' : triples_ok ts) by (intros a b c Hin; apply (Hok a b c); right; auto).
      cbn [flat_hunks flat_map app fst snd]. fold (flat_hunks ts).
      (* DiffEqual k *)
      cbn [hm_loop]. unfold flush.
      destruct Hpend as [H0|[Hfi Hj]].
      + (* nothing pending *)
        rewrite H0. cbn [Z.ltb Z.compare]. rewrite Z.add_0_r.
        cbn [fst snd run_hunks].
        destruct (Z.ltb_spec 0 d) as [Hd1|Hd0].
        * destruct (arr_update cf f s t (pos + k) i d) as [[f1 s1]| |] eqn:E1; auto.
          rewrite (IH (pos + k + i) (DEq, 0) f1 s1 Hok' ltac:(lia) (or_introl eq_refl)).
          unfold flush. cbn [snd Z.ltb Z.compare]. rewrite Z.add_0_r. reflexivity.
        * assert (d = 0) by lia. subst d.
          assert (Hp : snd (DIns, i) = 0 \/ fst (DIns, i) = DIns /\ 0 < snd (DIns, i))
            by (cbn [fst snd]; destruct (Z.ltb_spec 0 i); [right; split; auto|left; lia]).
          rewrite (IH (pos + k) (DIns, i) f s Hok' ltac:(lia) Hp).
          unfold flush. cbn [snd].
          destruct (Z.ltb_spec 0 i) as [Hi1|Hi0].
          -- destruct (arr_update cf f s t (pos + k) i 0) as [[f1 s1]| |]; reflexivity.
          -- assert (i = 0) by lia. subst i. rewrite arr_update_00 by lia. reflexivity.
      + (* an insertion is pending: flush it first *)
        destruct (Z.ltb_spec 0 (snd pend)); [|lia]. rewrite Hfi.
        destruct (arr_update cf f s t pos (snd pend) 0) as [[f1 s1]| |] eqn:E0; auto.
        cbn [hm_loop fst snd Z.ltb Z.compare run_hunks].
        destruct (Z.ltb_spec 0 d) as [Hd1|Hd0].
        * destruct (arr_update cf f1 s1 t (pos + snd pend + k) i d) as [[f2 s2]| |] eqn:E1; auto.
          rewrite (IH (pos + snd pend + k + i) (DEq, 0) f2 s2 Hok' ltac:(lia) (or_introl eq_refl)).
          unfold flush. cbn [snd Z.ltb Z.compare]. rewrite Z.add_0_r. reflexivity.
        * assert (d = 0) by lia. subst d.
          assert (Hp : snd (DIns, i) = 0 \/ fst (DIns, i) = DIns /\ 0 < snd (DIns, i))
            by (cbn [fst snd]; destruct (Z.ltb_spec 0 i); [right; split; auto|left; lia]).
          rewrite (IH (pos + snd pend + k) (DIns, i) f1 s1 Hok' ltac:(lia) Hp).
          unfold flush. cbn [snd].
          destruct (Z.ltb_spec 0 i) as [Hi1|Hi0].
          -- destruct (arr_update cf f1 s1 t (pos + snd pend + k) i 0) as [[f2 s2]| |]; reflexivity.
          -- assert (i = 0) by lia. subst i. rewrite arr_update_00 by lia. reflexivity.
  Qed.

  Lemma hm_flat0 ts f s : triples_ok ts ->
    hm_loop cf t (flat_hunks ts) 0 (DEq, 0) f s = run_hunks ts 0 f s.
  Proof.
    intros Hok. rewrite hm_flat by (auto; try lia; left; reflexivity). unfold flush. cbn. reflexivity.
  Qed.

  (* ---------- the shape of the global history is kept ---------- *)
  Definition vcond (vals : list Z) : Prop :=
    is_mark t = false -> forall v, In v vals -> is_mark v = false -> 0 <= tp cf v <= tp cf t.

  Lemma report_deleted_mark hd vs : is_mark t = true -> forall s s', report_deleted cf hd s t vs = Ok s' -> s_gh s' = s_gh s.
  Proof.
    intros Hm. induction vs as [|v r IH]; intros s s' E; cbn [report_deleted] in E.
    - inversion E; reflexivity.
    - destruct (update_time cf hd s t v (-1)) as [s1| |] eqn:E1; try discriminate.
      rewrite (IH _ _ E).
      destruct (update_time_cases _ _ _ _ _ _ _ E1) as [(_ & ->)|[(_ & _ & ->)|(_ & E2 & _)]]; auto; congruence.
  Qed.

  Lemma arr_update_mark f s pos ins del f' s' : is_mark t = true ->
    arr_update cf f s t pos ins del = Ok (f', s') -> s_gh s' = s_gh s.
  Proof.
    intros Hm. unfold arr_update. intros E.
    destruct ((pos <? 0) || (ins <? 0) || (del <? 0)); [discriminate|].
    destruct ((ins =? 0) && (del =? 0)); [inversion E; reflexivity|].
    destruct ((Z.of_nat (length (f_vals f)) <? pos) || (Z.of_nat (length (f_vals f)) <? pos + del)); [discriminate|].
    set (r1 := if 0 <? ins then update_time cf (f_hist f) s t t ins else Ok s) in *.
    destruct r1 as [s1| |] eqn:E1; try discriminate.
    destruct (report_deleted cf (f_hist f) s1 t _) as [s2| |] eqn:E2; try discriminate.
    inversion E; subst f' s'. rewrite (report_deleted_mark _ _ Hm _ _ E2).
    unfold r1 in E1. destruct (0 <? ins); [|inversion E1; reflexivity].
    destruct (update_time_cases _ _ _ _ _ _ _ E1) as [(_ & ->)|[(_ & _ & ->)|(_ & E3 & _)]]; auto; congruence.
  Qed.

  Lemma arr_update_ok2 T f s pos ins del f' s' :
    arr_update cf f s t pos ins del = Ok (f', s') ->
    (is_mark t = false -> 0 <= tp cf t <= T) -> vcond (f_vals f) -> gh_ok T (s_gh s) ->
    gh_ok T (s_gh s') /\ vcond (f_vals f').
  Proof.
    intros E Ht Hv Hok. split.
    - destruct (is_mark t) eqn:Hm.
      + rewrite (arr_update_mark _ _ _ _ _ _ _ Hm E). exact Hok.
      + eapply arr_update_ok; eauto.
    - intros Hm v Hin Hmv.
      destruct (arr_update_spec cf _ _ _ _ _ _ _ _ E) as [(_ & _ & -> & _)|(A0 & dead & B & F1 & F2 & _)]; [apply Hv; auto|].
      rewrite F2 in Hin. apply in_app_or in Hin. destruct Hin as [Hin|Hin].
      + apply Hv; auto. rewrite F1. apply in_or_app; auto.
      + apply in_app_or in Hin. destruct Hin as [Hin|Hin].
        * apply repeat_spec in Hin. subst v. specialize (Ht Hm). lia.
        * apply Hv; auto. rewrite F1. apply in_or_app; right; apply in_or_app; auto.
  Qed.

  Lemma run_hunks_ok T : (is_mark t = false -> 0 <= tp cf t <= T) ->
    forall ts pos f s f' s', run_hunks ts pos f s = Ok (f', s') -> vcond (f_vals f) -> gh_ok T (s_gh s) -> gh_ok T (s_gh s').
  Proof.
    intros Ht. induction ts as [|[[k d] i] ts IH]; intros pos f s f' s' E Hv Hok; cbn [run_hunks] in E.
    - inversion E; subst; auto.
    - destruct (arr_update cf f s t (pos + k) i d) as [[f1 s1]| |] eqn:E1; try discriminate.
      destruct (arr_update_ok2 T _ _ _ _ _ _ _ E1 Ht Hv Hok) as [Hok1 Hv1]. eapply IH; eauto.
  Qed.

  (* ---------- which tick keys the global history gains ---------- *)
  Definition KR (flag : bool) (s s' : shared) : Prop :=
    (is_mark t = true -> s_gh s' = s_gh s) /\
    (is_mark t = false -> forall x, In x (keys (s_gh s')) <-> In x (keys (s_gh s)) \/ (flag = true /\ x = tp cf t)).

  Lemma KR_refl s : KR false s s.
  Proof. split; [reflexivity|]. intros _ x. split; [auto|]. intros [H|[H _]]; [auto|discriminate]. Qed.

  Lemma KR_trans f1 f2 s s1 s2 : KR f1 s s1 -> KR f2 s1 s2 -> KR (f1 || f2) s s2.
  Proof.
    intros [A1 A2] [B1 B2]. split.
    - intros Hm. rewrite B1, A1; auto.
    - intros Hm x. rewrite (B2 Hm), (A2 Hm). destruct f1, f2; cbn [orb]; intuition (auto; discriminate).
  Qed.

  Lemma KR_ext f1 f2 s s' : f1 = f2 -> KR f1 s s' -> KR f2 s s'.
  Proof. intros ->. auto. Qed.

  Definition nomarks (vals : list Z) : Prop := is_mark t = false -> forall v, In v vals -> is_mark v = false.

  Lemma update_time_KR hd s cur prev d s' : update_time cf hd s cur prev d = Ok s' -> cur = t ->
    (is_mark t = false -> is_mark prev = false) -> KR true s s'.
  Proof.
    intros E -> Hp. destruct (update_time_cases _ _ _ _ _ _ _ E) as [(E1 & ->)|[(E1 & E2 & ->)|(E1 & E2 & E3)]].
    - split; [reflexivity|]. intros Hm. rewrite (Hp Hm) in E1. discriminate.
    - split; [reflexivity|]. intros Hm. congruence.
    - split; [intros Hm; congruence|]. intros _ x. rewrite E3, keys_sp_add. intuition.
  Qed.

  Lemma report_deleted_KR hd vs : nomarks vs -> forall s s', report_deleted cf hd s t vs = Ok s' ->
    KR (match vs with [] => false | _ => true end) s s'.
  Proof.
    intros Hn. induction vs as [|v r IH]; intros s s' E; cbn [report_deleted] in E.
    - injection E as <-. apply KR_refl.
    - destruct (update_time cf hd s t v (-1)) as [s1| |] eqn:E1; try discriminate.
      assert (K1 : KR true s s1).
      { eapply update_time_KR; eauto. intros Hm. apply Hn; auto. left; auto. }
      assert (K2 := IH (fun Hm x Hx => Hn Hm x (or_intror Hx)) _ _ E).
      pose proof (KR_trans _ _ _ _ _ K1 K2) as K. cbn [orb] in K. exact K.
  Qed.

  Lemma arr_update_KR f s pos ins del f' s' : arr_update cf f s t pos ins del = Ok (f', s') -> nomarks (f_vals f) ->
    KR ((0 <? ins) || (0 <? del)) s s' /\ nomarks (f_vals f').
  Proof.
    intros E Hn. split.
    - unfold arr_update in E.
      destruct ((pos <? 0) || (ins <? 0) || (del <? 0)) eqn:Eg; [discriminate|].
      apply orb_false_iff in Eg. destruct Eg as [Eg Eg3]. apply orb_false_iff in Eg. destruct Eg as [Eg1 Eg2].
      destruct ((ins =? 0) && (del =? 0)) eqn:Ez.
      { injection E as <- <-. apply andb_prop in Ez. destruct Ez as [Ez1 Ez2].
        assert (ins = 0) by lia. assert (del = 0) by lia. subst. apply KR_refl. }
      destruct ((Z.of_nat (length (f_vals f)) <? pos) || (Z.of_nat (length (f_vals f)) <? pos + del)) eqn:El; [discriminate|].
      apply orb_false_iff in El. destruct El as [El1 El2].
      set (r1 := if 0 <? ins then update_time cf (f_hist f) s t t ins else Ok s) in *.
      destruct r1 as [s1| |] eqn:E1; try discriminate.
      set (dead := firstn (Z.to_nat del) (skipn (Z.to_nat pos) (f_vals f))) in *.
      destruct (report_deleted cf (f_hist f) s1 t dead) as [s2| |] eqn:E2; try discriminate.
      injection E as _ <-.
      assert (K1 : KR (0 <? ins) s s1).
      { unfold r1 in E1. destruct (0 <? ins); [|injection E1 as <-; apply KR_refl].
        eapply update_time_KR; eauto. }
      assert (Hnd : nomarks dead).
      { intros Hm v Hv. apply Hn; auto. unfold dead in Hv. apply In_firstn in Hv. eapply In_skipn'; eauto. }
      pose proof (report_deleted_KR _ dead Hnd _ _ E2) as K2.
      assert (Ed : (match dead with [] => false | _ => true end) = (0 <? del)).
      { assert (Z.of_nat (length dead) = del) by (unfold dead; rewrite firstn_length, skipn_length; lia).
        destruct dead; cbn [length] in H; destruct (Z.ltb_spec 0 del); auto; lia. }
      rewrite Ed in K2. eapply KR_trans; eauto.
    - intros Hm v Hin.
      destruct (arr_update_spec cf _ _ _ _ _ _ _ _ E) as [(_ & _ & -> & _)|(A0 & dead & B & F1 & F2 & _)]; [apply Hn; auto|].
      rewrite F2 in Hin. apply in_app_or in Hin. destruct Hin as [Hin|Hin].
      + apply Hn; auto. rewrite F1. apply in_or_app; auto.
      + apply in_app_or in Hin. destruct Hin as [Hin|Hin].
        * apply repeat_spec in Hin. subst v. exact Hm.
        * apply Hn; auto. rewrite F1. apply in_or_app; right; apply in_or_app; auto.
  Qed.

  Definition tflag (ts : list (Z * Z * Z)) : bool :=
    existsb (fun kdi => (0 <? snd kdi) || (0 <? snd (fst kdi))) ts.

  Lemma run_hunks_KR : forall ts pos f s f' s', run_hunks ts pos f s = Ok (f', s') -> nomarks (f_vals f) ->
    KR (tflag ts) s s'.
  Proof.
    induction ts as [|[[k d] i] ts IH]; intros pos f s f' s' E Hn; cbn [run_hunks] in E.
    - injection E as _ <-. apply KR_refl.
    - destruct (arr_update cf f s t (pos + k) i d) as [[f1 s1]| |] eqn:E1; try discriminate.
      destruct (arr_update_KR _ _ _ _ _ _ _ E1 Hn) as [K1 Hn1].
      cbn [tflag existsb fst snd]. eapply KR_trans; eauto.
  Qed.

  (* ---------- piece B ---------- *)
  Variables o n : line -> bool.
  Variable ov : line -> Z.                     (* the value an old line carries *)
  Definition nv (l : line) : Z := if o l then ov l else t.
  Definition cntI (r : list line) : Z := count (fun l => negb (o l) && n l) r.
  Definition deadv (r : list line) : list Z := map ov (filter (fun l => o l && negb (n l)) r).

  Lemma hunks3_ok : forall r k d i, 0 <= k -> 0 <= d -> 0 <= i -> triples_ok (hunks3 o n r k d i).
  Proof.
    induction r as [|l r IH]; intros k d i Hk Hd Hi; cbn [hunks3].
    - intros a b c [E|[]]. inversion E; subst. auto.
    - destruct (o l), (n l); try (apply IH; lia).
      destruct (0 <? d + i); [|apply IH; lia].
      intros a b c [E|Hin]; [inversion E; subst; auto|]. apply (IH 1 0 0); auto; lia.
  Qed.

  Lemma app_inj_length {A} (l1 l2 l1' l2' : list A) : l1 ++ l2 = l1' ++ l2' -> length l1 = length l1' ->
    l1 = l1' /\ l2 = l2'.
  Proof.
    revert l1'. induction l1 as [|x l1 IH]; intros [|y l1'] E HL; cbn in *; try lia; auto.
    inversion E; subst. destruct (IH l1' H1) as [-> ->]; [lia|auto].
  Qed.

  Lemma eff_add P a b : eff cf P t t a + eff cf P t t b = eff cf P t t (a + b).
  Proof. unfold eff. destruct (is_mark t); [lia|]. destruct (P (tp cf t) (tp cf t)); lia. Qed.
  Lemma eff_0 P : eff cf P t t 0 = 0.
  Proof. unfold eff. destruct (is_mark t); [lia|]. destruct (P (tp cf t) (tp cf t)); lia. Qed.
  Lemma effs_app P l1 l2 : effs cf P t (l1 ++ l2) = effs cf P t l1 + effs cf P t l2.
  Proof. unfold effs. rewrite map_app. apply DenseProofs.sum_z_app. Qed.

  Lemma repeat_snoc {A} (x : A) m : repeat x (S m) = repeat x m ++ [x].
  Proof. induction m as [|m IH]; [reflexivity|]. cbn [repeat app] in *. rewrite <- IH. reflexivity. Qed.

  Lemma tflag_hunks3 : forall r k d i, 0 <= d -> 0 <= i ->
    tflag (hunks3 o n r k d i) = (0 <? d + i + cntI r + Z.of_nat (length (deadv r))).
  Proof.
    induction r as [|l r IH]; intros k d i Hd Hi; cbn [hunks3].
    - unfold tflag, cntI, deadv. cbn [existsb fst snd filter map length count]. rewrite orb_false_r.
      change (count (fun l => negb (o l) && n l) []) with 0.
      destruct (Z.ltb_spec 0 i), (Z.ltb_spec 0 d), (Z.ltb_spec 0 (d + i + 0 + Z.of_nat 0)); cbn [orb]; auto; lia.
    - assert (Hc : 0 <= cntI r) by apply count_nonneg.
      unfold cntI, deadv in *. rewrite count_cons. cbn [filter].
      destruct (o l) eqn:Eo, (n l) eqn:En; cbn [andb negb map length].
      + destruct (Z.ltb_spec 0 (d + i)) as [Hdi|Hdi].
        * unfold tflag. cbn [existsb fst snd]. fold (tflag (hunks3 o n r 1 0 0)).
          destruct (Z.ltb_spec 0 i), (Z.ltb_spec 0 d); cbn [orb]; try lia;
          symmetry; apply Z.ltb_lt; lia.
        * assert (d = 0) by lia. assert (i = 0) by lia. subst. rewrite IH by lia. reflexivity.
      + rewrite IH by lia. f_equal. cbn [length]. lia.
      + rewrite IH by lia. f_equal. lia.
      + rewrite IH by lia. reflexivity.
  Qed.

  Ltac fin := repeat match goal with |- context [eff cf ?P t t (?a + ?b)] => rewrite <- (eff_add P a b) end;
              rewrite ?eff_0, ?effs_app; try lia.

  Lemma run_hunks_spec : forall r k d i pre K D f s f' s',
    0 <= k -> 0 <= d -> 0 <= i -> Z.of_nat (length K) = k -> Z.of_nat (length D) = d ->
    f_vals f = pre ++ K ++ D ++ map ov (filter o r) ->
    run_hunks (hunks3 o n r k d i) (Z.of_nat (length pre)) f s = Ok (f', s') ->
    f_vals f' = pre ++ K ++ repeat t (Z.to_nat i) ++ map nv (filter n r) /\ f_hist f' = f_hist f /\
    forall P, wsum P (s_gh s') = wsum P (s_gh s) + eff cf P t t (i + cntI r) + effs cf P t (D ++ deadv r).
  Proof.
    induction r as [|l r IH]; intros k d i pre K D f s f' s' Hk Hd Hi HK HD Ef E.
    - cbn [hunks3 run_hunks] in E. cbn [filter map] in *. rewrite !app_nil_r in *.
      destruct (arr_update cf f s t (Z.of_nat (length pre) + k) i d) as [[f1 s1]| |] eqn:E1; try discriminate.
      injection E as <- <-.
      change (cntI []) with 0. rewrite Z.add_0_r.
      destruct (arr_update_spec cf _ _ _ _ _ _ _ _ E1) as [(-> & -> & -> & ->)|(A0 & dead & B & F1 & F2 & LA & LD & _ & Hh & Hw)].
      + destruct D; [|cbn in HD; lia]. cbn [Z.to_nat repeat]. rewrite app_nil_r in *. split; auto. split; auto.
        intros P. rewrite eff_0. unfold effs. cbn. lia.
      + rewrite Ef in F1. rewrite app_assoc in F1.
        destruct (app_inj_length (pre ++ K) D A0 (dead ++ B)) as [<- E2].
        { rewrite F1. reflexivity. } { rewrite app_length. lia. }
        assert (dead = D /\ B = []) as [-> ->].
        { assert (length dead = length D) by lia.
          destruct (app_inj_length D [] dead B) as [-> <-]; [rewrite app_nil_r; auto|lia|auto]. }
        rewrite F2, app_nil_r, <- app_assoc. repeat split; auto.
    - cbn [hunks3] in E. cbn [filter] in Ef.
      destruct (o l) eqn:Eo, (n l) eqn:En.
      + (* kept *)
        cbn [map] in Ef.
        destruct (Z.ltb_spec 0 (d + i)) as [Hdi|Hdi].
        * cbn [run_hunks] in E.
          destruct (arr_update cf f s t (Z.of_nat (length pre) + k) i d) as [[f1 s1]| |] eqn:E1; try discriminate.
          destruct (arr_update_spec cf _ _ _ _ _ _ _ _ E1) as [(-> & -> & _)|(A0 & dead & B & F1 & F2 & LA & LD & _ & Hh & Hw)]; [lia|].
          rewrite Ef in F1. rewrite app_assoc in F1.
          destruct (app_inj_length (pre ++ K) (D ++ ov l :: map ov (filter o r)) A0 (dead ++ B)) as [<- E2].
          { rewrite <- app_assoc. rewrite <- app_assoc in F1. exact F1. } { rewrite app_length. lia. }
          destruct (app_inj_length D (ov l :: map ov (filter o r)) dead B E2) as [<- <-]; [lia|].
          assert (Hpos : Z.of_nat (length pre) + k + i = Z.of_nat (length ((pre ++ K) ++ repeat t (Z.to_nat i)))).
          { rewrite !app_length, repeat_length. lia. }
          rewrite Hpos in E.
          destruct (IH 1 0 0 ((pre ++ K) ++ repeat t (Z.to_nat i)) [ov l] [] f1 s1 f' s') as (R1 & R2 & R3); auto; try lia.
          { rewrite F2. cbn [app]. rewrite <- !app_assoc. reflexivity. }
          split.
          { rewrite R1. cbn [filter]. rewrite En. cbn [map Z.to_nat repeat app]. unfold nv at 2. rewrite Eo.
            rewrite <- !app_assoc. reflexivity. }
          split; [congruence|].
          intros P. rewrite R3, Hw. unfold cntI, deadv. rewrite ?LifetimesFacts.count_cons. cbn [filter app].
          rewrite ?Eo, ?En. cbn [andb negb map app]. fin.
        * assert (HD0 : length D = 0%nat) by lia. assert (Hi0 : i = 0) by lia. assert (Hd0 : d = 0) by lia.
          clear Hdi. subst i. destruct D; [|discriminate]. clear HD0. subst d.
          destruct (IH (k + 1) 0 0 pre (K ++ [ov l]) [] f s f' s') as (R1 & R2 & R3); auto; try lia.
          { rewrite app_length. cbn. lia. }
          { rewrite Ef. cbn [app]. rewrite <- app_assoc. reflexivity. }
          split.
          { rewrite R1. cbn [filter]. rewrite En. cbn [map Z.to_nat repeat app]. unfold nv at 2. rewrite Eo.
            rewrite <- app_assoc. reflexivity. }
          split; auto.
          intros P. rewrite R3. unfold cntI, deadv. rewrite ?LifetimesFacts.count_cons. cbn [filter app].
          rewrite ?Eo, ?En. cbn [andb negb map app]. fin.
      + (* deleted *)
        cbn [map] in Ef.
        destruct (IH k (d + 1) i pre K (D ++ [ov l]) f s f' s') as (R1 & R2 & R3); auto; try lia.
        { rewrite app_length. cbn. lia. }
        { rewrite Ef. rewrite <- !app_assoc. reflexivity. }
        split.
        { rewrite R1. cbn [filter]. rewrite En. reflexivity. }
        split; auto.
        intros P. rewrite R3. unfold cntI, deadv. rewrite ?LifetimesFacts.count_cons. cbn [filter].
        rewrite ?Eo, ?En. cbn [andb negb map]. rewrite <- app_assoc. cbn [app]. fin.
      + (* inserted *)
        destruct (IH k d (i + 1) pre K D f s f' s') as (R1 & R2 & R3); auto; try lia.
        split.
        { rewrite R1. cbn [filter]. rewrite En. cbn [map]. unfold nv at 2. rewrite Eo.
          replace (Z.to_nat (i + 1)) with (S (Z.to_nat i)) by lia. rewrite repeat_snoc, <- app_assoc. reflexivity. }
        split; auto.
        intros P. rewrite R3. unfold cntI, deadv. rewrite ?LifetimesFacts.count_cons. cbn [filter].
        rewrite ?Eo, ?En. cbn [andb negb map]. fin.
      + (* not in either version *)
        destruct (IH k d i pre K D f s f' s') as (R1 & R2 & R3); auto.
        split.
        { rewrite R1. cbn [filter]. rewrite En. reflexivity. }
        split; auto.
        intros P. rewrite R3. unfold cntI, deadv. rewrite ?LifetimesFacts.count_cons. cbn [filter].
        rewrite ?Eo, ?En. cbn [andb negb map]. fin.
  Qed.
End Hunks.
