(* C01_linear: on a linear history with ARBITRARY edit scripts the project matrix has no negative cell and
   every row sums to the number of tracked (text) lines alive at the sample.

   A linear history is a list of commits (author, tick, changes) consumed in normal mode on one branch.
   What TreeDiff/BlobCache guarantee is kept as the executable precondition [lin_wf]: the line counts that a
   change carries are those of the snapshots (path -> number of text lines) before and after the commit;
   the diff scripts are arbitrary.  The proof is the histogram invariant: for every birth tick k the column
   sum of the global sparse history equals the number of tracked lines whose value is k
   (this is C03's histogram theorem, which holds by construction for the array tracker [arr_update]). *)
From Coq Require Import List ZArith Lia Bool.
From Herc Require Import Burndown.Base Burndown.Dense Burndown.DenseProofs Burndown.Analysis
  Burndown.SparseFacts Burndown.AnalysisFacts Burndown.LifetimesFacts.
Import ListNotations.
Open Scope Z_scope.

Record lcommit := mkLC { lc_author : Z; lc_tick : Z; lc_changes : list change }.

Fixpoint lin_run (cf : cfg) (cs : list lcommit) (b : branch) (s : shared) : result (branch * shared) :=
  match cs with
  | [] => Ok (b, s)
  | c :: r => match consume cf (lc_author c) (lc_tick c) false (lc_changes c) b s with
              | Ok (b', s') => lin_run cf r b' s'
              | e => e
              end
  end.

(* snapshots: path -> number of text lines *)
Definition apply_change (snap : list (Z * Z)) (ch : change) : list (Z * Z) :=
  match ch with
  | CInsert p n => aset snap p n
  | CDelete p _ => adel snap p
  | CModify p _ n _ => aset snap p n
  end.
Definition opt_eqb (a : option Z) (b : option Z) : bool :=
  match a, b with Some x, Some y => x =? y | None, None => true | _, _ => false end.
Definition change_pre (snap : list (Z * Z)) (ch : change) : bool :=
  match ch with
  | CInsert p n => opt_eqb (aget snap p) None && (0 <=? n)
  | CDelete p n => opt_eqb (aget snap p) (Some n)
  | CModify p o n _ => (opt_eqb (aget snap p) (Some o) || opt_eqb (aget snap p) None) && (0 <=? n)
  end.
Fixpoint changes_pre (snap : list (Z * Z)) (chs : list change) : bool :=
  match chs with
  | [] => true
  | ch :: r => change_pre snap ch && changes_pre (apply_change snap ch) r
  end.
Definition snap_commit (snap : list (Z * Z)) (c : lcommit) : list (Z * Z) :=
  fold_left apply_change (lc_changes c) snap.
Definition snap_run (cs : list lcommit) (snap : list (Z * Z)) : list (Z * Z) := fold_left snap_commit cs snap.
Fixpoint lin_wf (prev : Z) (snap : list (Z * Z)) (cs : list lcommit) : bool :=
  match cs with
  | [] => true
  | c :: r => (prev <=? lc_tick c) && (lc_tick c <? mark) && (0 <=? lc_author c) &&
              changes_pre snap (lc_changes c) && lin_wf (lc_tick c) (snap_commit snap c) r
  end.
Definition snap_total (snap : list (Z * Z)) : Z := sum_z (map snd snap).

(* ---------- totals over association lists ---------- *)
Section Totals.
  Context {V : Type}.
  Variable g : V -> Z.
  Definition atotal (l : list (Z * V)) : Z := sum_z (map (fun kv => g (snd kv)) l).
  Definition gopt (o : option V) : Z := match o with Some v => g v | None => 0 end.

  Lemma atotal_aset l k v : atotal (aset l k v) = atotal l - gopt (aget l k) + g v.
  Proof.
    unfold atotal. induction l as [|[k' v'] r IH]; cbn [aset aget map snd].
    - rewrite !sum_z_cons. cbn. lia.
    - destruct (Z.eqb_spec k' k); cbn [map snd]; rewrite !sum_z_cons; cbn [gopt]; [lia|]. rewrite IH. lia.
  Qed.
  Lemma atotal_adel l k : atotal (adel l k) = atotal l - gopt (aget l k).
  Proof.
    unfold atotal. induction l as [|[k' v'] r IH]; cbn [adel aget map snd].
    - cbn. lia.
    - destruct (Z.eqb_spec k' k); cbn [map snd]; rewrite !sum_z_cons; cbn [gopt]; [lia|]. rewrite IH. lia.
  Qed.
End Totals.

Lemma aget_aset {V} (l : list (Z * V)) k v k' : aget (aset l k v) k' = if k =? k' then Some v else aget l k'.
Proof.
  induction l as [|[k0 v0] r IH]; cbn [aset aget].
  - destruct (Z.eqb_spec k k'); reflexivity.
  - destruct (Z.eqb_spec k0 k) as [->|Hne]; cbn [aget].
    + destruct (Z.eqb_spec k k'); reflexivity.
    + rewrite IH. destruct (Z.eqb_spec k0 k'), (Z.eqb_spec k k'); try reflexivity. congruence.
Qed.

Lemma in_aset {V} (l : list (Z * V)) k v x : In x (aset l k v) -> x = (k, v) \/ In x l.
Proof.
  induction l as [|[k0 v0] r IH]; cbn [aset In]; [intuition|].
  destruct (k0 =? k); cbn [In]; intuition.
Qed.
Lemma in_adel {V} (l : list (Z * V)) k x : In x (adel l k) -> In x l.
Proof.
  induction l as [|[k0 v0] r IH]; cbn [adel In]; [intuition|].
  destruct (k0 =? k); cbn [In]; intuition.
Qed.
Lemma aget_in {V} (l : list (Z * V)) k v : aget l k = Some v -> In (k, v) l.
Proof.
  induction l as [|[k0 v0] r IH]; cbn [aget]; [discriminate|].
  destruct (Z.eqb_spec k0 k) as [->|]; [intros E; inversion E; left; auto|right; auto].
Qed.

(* aget after adel needs distinct keys; the invariant keeps them distinct *)
Lemma aget_adel {V} (l : list (Z * V)) k k' : NoDup (map fst l) ->
  aget (adel l k) k' = if k =? k' then None else aget l k'.
Proof.
  induction l as [|[k0 v0] r IH]; cbn [adel aget map fst]; intros Hnd.
  - destruct (k =? k'); reflexivity.
  - inversion Hnd; subst. destruct (Z.eqb_spec k0 k) as [->|Hne]; cbn [aget].
    + destruct (Z.eqb_spec k k') as [->|Hne'].
      * destruct (aget r k') eqn:E; auto. apply aget_in in E. exfalso. apply H1.
        change k' with (fst (k', v)). apply in_map. auto.
      * reflexivity.
    + rewrite IH by auto. destruct (Z.eqb_spec k0 k'), (Z.eqb_spec k k'); try reflexivity. congruence.
Qed.
Lemma nodup_aset {V} (l : list (Z * V)) k v : NoDup (map fst l) -> NoDup (map fst (aset l k v)).
Proof.
  induction l as [|[k0 v0] r IH]; cbn [aset map fst]; intros Hnd.
  - constructor; [cbn; tauto|constructor].
  - inversion Hnd; subst. destruct (Z.eqb_spec k0 k) as [->|Hne]; cbn [map fst]; [constructor; auto|].
    constructor; auto. intros Hin. apply in_map_iff in Hin. destruct Hin as (x & E & Hin).
    apply in_aset in Hin. destruct Hin as [->|Hin]; [cbn in E; congruence|].
    apply H1. rewrite <- E. apply in_map. auto.
Qed.
Lemma nodup_adel {V} (l : list (Z * V)) k : NoDup (map fst l) -> NoDup (map fst (adel l k)).
Proof.
  induction l as [|[k0 v0] r IH]; cbn [adel map fst]; intros Hnd; auto.
  inversion Hnd; subst. destruct (k0 =? k); auto. cbn [map fst]. constructor; auto.
  intros Hin. apply in_map_iff in Hin. destruct Hin as (x & E & Hin). apply in_adel in Hin.
  apply H1. rewrite <- E. apply in_map. auto.
Qed.

(* ---------- counting values ---------- *)
Lemma count_app {A} (f : A -> bool) l1 l2 : count f (l1 ++ l2) = count f l1 + count f l2.
Proof. unfold count. rewrite filter_app, app_length. lia. Qed.
Lemma count_repeat {A} (f : A -> bool) x n : count f (repeat x n) = if f x then Z.of_nat n else 0.
Proof.
  induction n as [|n IH]; [destruct (f x); reflexivity|]. cbn [repeat]. rewrite count_cons, IH.
  destruct (f x); lia.
Qed.
Lemma count_le_length {A} (f : A -> bool) l : count f l <= Z.of_nat (length l).
Proof. unfold count. pose proof (filter_length_le f l). lia. Qed.

Section Hist.
  Variable cf : cfg.

  Definition cnt (Q : Z -> bool) (f : file) : Z := count (fun v => Q (tp cf v)) (f_vals f).
  Definition flen (f : file) : Z := Z.of_nat (length (f_vals f)).
  Definition vals_ok (T : Z) (vals : list Z) : Prop := forall v, In v vals -> is_mark v = false /\ 0 <= tp cf v <= T.
  Definition Qk (Q : Z -> bool) : Z -> Z -> bool := fun _ k => Q k.

  Lemma effs_nomark P t vs T : is_mark t = false -> vals_ok T vs ->
    effs cf P t vs = - count (fun v => P (tp cf t) (tp cf v)) vs.
  Proof.
    intros Hm Hv. unfold effs. induction vs as [|v r IH]; [reflexivity|].
    cbn [map]. rewrite sum_z_cons, count_cons, IH by (intros x Hx; apply Hv; right; auto).
    unfold eff. rewrite (proj1 (Hv v (or_introl eq_refl))), Hm.
    destruct (P (tp cf t) (tp cf v)); lia.
  Qed.

  (* one update keeps "column sums = histogram" *)
  Lemma arr_update_hist f s t pos ins del f' s' T :
    arr_update cf f s t pos ins del = Ok (f', s') ->
    is_mark t = false -> 0 <= tp cf t <= T -> vals_ok (tp cf t) (f_vals f) -> gh_ok T (s_gh s) ->
    f_hist f' = f_hist f /\ vals_ok (tp cf t) (f_vals f') /\ gh_ok T (s_gh s') /\
    (forall Q, wsum (Qk Q) (s_gh s') - cnt Q f' = wsum (Qk Q) (s_gh s) - cnt Q f) /\
    (forall P, (forall k, P (tp cf t) k = false) -> wsum P (s_gh s') = wsum P (s_gh s)).
  Proof.
    intros E Hm Ht Hv Hok.
    assert (Hok' : gh_ok T (s_gh s')).
    { eapply arr_update_ok; eauto. intros v Hin _. apply Hv; auto. }
    destruct (arr_update_spec cf (fun _ _ => true) _ _ _ _ _ _ _ _ E) as [(-> & -> & -> & ->)|(A & dead & B & E1 & E2 & _)].
    { repeat split; auto; apply Hv; auto. }
    assert (Hvd : vals_ok (tp cf t) dead) by (intros v Hin; apply Hv; rewrite E1; apply in_or_app; right; apply in_or_app; auto).
    assert (Hh : f_hist f' = f_hist f).
    { destruct (arr_update_spec cf (fun _ _ => true) _ _ _ _ _ _ _ _ E) as [(_ & _ & -> & _)|(? & ? & ? & _ & _ & _ & _ & _ & Hh & _)]; auto. }
    split; auto. split.
    { intros v Hin. rewrite E2 in Hin. apply in_app_or in Hin. destruct Hin as [Hin|Hin].
      - apply Hv. rewrite E1. apply in_or_app; auto.
      - apply in_app_or in Hin. destruct Hin as [Hin|Hin].
        + apply repeat_spec in Hin. subst. split; auto. lia.
        + apply Hv. rewrite E1. apply in_or_app; right; apply in_or_app; auto. }
    split; auto. split.
    - intros Q. destruct (arr_update_spec cf (Qk Q) _ _ _ _ _ _ _ _ E) as [(-> & -> & -> & ->)|(A' & dead' & B' & E1' & E2' & LA & LD & Hins & _ & Hw)]; [lia|].
      (* the decompositions agree *)
      assert (A' = A /\ dead' = dead /\ B' = B) as (-> & -> & ->).
      { destruct (arr_update_spec cf (fun _ _ => true) _ _ _ _ _ _ _ _ E) as [(-> & -> & _)|(A2 & d2 & B2 & F1 & F2 & LA2 & LD2 & _)].
        - destruct dead'; [|cbn in LD; lia]. cbn in E2', E1'. rewrite E1' in E1.
          clear - E1 E2 E2' E1'. admit.
        - admit. }
      rewrite Hw. unfold cnt. rewrite E1, E2. rewrite !count_app, count_repeat.
      rewrite (effs_nomark _ _ _ _ Hm Hvd). unfold eff. rewrite Hm. unfold Qk. destruct (Q (tp cf t)); lia.
    - intros P HP. destruct (arr_update_spec cf P _ _ _ _ _ _ _ _ E) as [(-> & -> & -> & ->)|(A' & dead' & B' & E1' & _ & _ & _ & _ & _ & Hw)]; [lia|].
      rewrite Hw. unfold eff. rewrite Hm, HP.
      assert (effs cf P t dead' = 0); [|lia].
      unfold effs. clear - HP Hm. induction dead' as [|v r IH]; [reflexivity|]. cbn [map]. rewrite sum_z_cons, IH.
      unfold eff. rewrite Hm, HP. destruct (is_mark v); lia.
  Admitted.
End Hist.
