(* From "the global history is the sum of the contributions of all commits" to "every cell of the dense
   matrix is the ground-truth cell". *)
From Coq Require Import List ZArith Lia Bool Permutation.
From Herc Require Import Burndown.Base Burndown.Dense Burndown.DenseProofs Burndown.Lifetimes Burndown.LifetimesFacts
  Burndown.AncFacts Burndown.Analysis Burndown.SparseFacts Burndown.AnalysisFacts Burndown.Replay
  Burndown.LinearProofs Burndown.CommitProofs Burndown.PlanProofs.
Import ListNotations.
Open Scope Z_scope.

Section Matrix.
  Variable h : hist.
  Hypothesis Hcf : conflict_free h = true.

  Lemma killer_tick pl : In pl (all_lines h) -> has_killer (snd pl) = true ->
    birth_tick h (snd pl) <= death_tick h (snd pl).
  Proof.
    intros Hin Hk. pose proof (line_ok h Hcf pl Hin) as Hl. unfold line_okb, has_killer in *.
    apply andb_prop in Hl. destruct Hl as [_ Hl]. apply orb_prop in Hl. destruct Hl as [Hl|Hl]; [lia|].
    apply andb_prop in Hl. destruct Hl as [_ Hl]. unfold birth_tick, death_tick. lia.
  Qed.

  (* the contributions of all commits, regrouped by line *)
  Lemma contrib_sum P :
    sum_z (map (contrib h P) (zrange (ncommits h))) =
    count (fun pl => P (birth_tick h (snd pl)) (birth_tick h (snd pl))) (all_lines h) -
    count (fun pl => has_killer (snd pl) && P (death_tick h (snd pl)) (birth_tick h (snd pl))) (all_lines h).
  Proof.
    unfold contrib.
    assert (E : forall (f g : Z -> Z) l, sum_z (map (fun c => f c - g c) l) = sum_z (map f l) - sum_z (map g l)).
    { intros f g l. induction l as [|x l IH]; [reflexivity|]. cbn [map]. rewrite !sum_z_cons, IH. lia. }
    rewrite (E (fun c => if P (tick_of h c) (tick_of h c) then count (fun pl => l_born (snd pl) =? c) (all_lines h) else 0)
               (fun c => count (fun pl => (l_killer (snd pl) =? c) && P (tick_of h c) (birth_tick h (snd pl))) (all_lines h))).
    f_equal.
    - rewrite <- (sum_bands (fun pl => P (birth_tick h (snd pl)) (birth_tick h (snd pl))) (fun pl => l_born (snd pl))
                           (all_lines h) 0 (Z.to_nat (ncommits h))).
      + unfold zrange. f_equal. apply map_ext. intros c.
        destruct (P (tick_of h c) (tick_of h c)) eqn:EP.
        * apply count_ext_in. intros pl _. destruct (Z.eqb_spec (l_born (snd pl)) c) as [<-|]; [|rewrite andb_false_r; reflexivity].
          unfold birth_tick. rewrite EP. reflexivity.
        * symmetry. unfold count. rewrite (filter_ext_in _ (fun _ => false)).
          { clear. induction (all_lines h); cbn; auto. }
          intros pl _. destruct (Z.eqb_spec (l_born (snd pl)) c) as [<-|]; [|rewrite andb_false_r; reflexivity].
          unfold birth_tick. rewrite EP. reflexivity.
      + intros pl Hin _. pose proof (born_range h Hcf pl Hin). unfold ncommits in *. lia.
    - rewrite <- (sum_bands (fun pl => has_killer (snd pl) && P (death_tick h (snd pl)) (birth_tick h (snd pl)))
                           (fun pl => l_killer (snd pl)) (all_lines h) 0 (Z.to_nat (ncommits h))).
      + unfold zrange. f_equal. apply map_ext_in. intros c Hc. apply zrange_from_in in Hc.
        apply count_ext_in. intros pl _. destruct (Z.eqb_spec (l_killer (snd pl)) c) as [<-|]; [|rewrite andb_false_r; reflexivity].
        unfold has_killer, death_tick. destruct (Z.leb_spec 0 (l_killer (snd pl))); [|lia]. cbn [andb].
        rewrite andb_true_r. reflexivity.
      + intros pl Hin E0. apply andb_prop in E0. destruct E0 as [E0 _].
        pose proof (killer_range h Hcf pl Hin E0). unfold ncommits in *. lia.
  Qed.

  Lemma count_diff {X} (fa fb ft : X -> bool) l :
    (forall x, In x l -> (if fa x then 1 else 0) - (if fb x then 1 else 0) = (if ft x then 1 else 0)) ->
    count fa l - count fb l = count ft l.
  Proof.
    induction l as [|x l IH]; intros Hx; [reflexivity|]. rewrite !count_cons.
    specialize (IH (fun y Hy => Hx y (or_intror Hy))). specialize (Hx x (or_introl eq_refl)). lia.
  Qed.

  Lemma quot_le_sample S s t : 1 <= S -> 0 <= t -> (Z.quot t S <=? s) = (t <=? (s + 1) * S - 1).
  Proof.
    intros HS Ht. rewrite Z.quot_div_nonneg by lia.
    destruct (Z.leb_spec (t / S) s), (Z.leb_spec t ((s + 1) * S - 1)); auto; exfalso.
    - assert (s + 1 <= t / S) by (apply Z.div_le_lower_bound; lia). lia.
    - assert (t / S < s + 1) by (apply Z.div_lt_upper_bound; lia). lia.
  Qed.

  (* with the weight of a cell this is the ground-truth cell *)
  Lemma contrib_truth G S s b : 1 <= G -> 1 <= S ->
    sum_z (map (contrib h (fun t k => (Z.quot t S <=? s) && (Z.quot k G =? b))) (zrange (ncommits h))) =
    truth_cell h G S keep_all s b.
  Proof.
    intros HG HS. rewrite contrib_sum. unfold truth_cell. apply count_diff. intros pl Hin.
    pose proof (birth_le_last h Hcf pl Hin) as [Hb0 _].
    rewrite !(quot_le_sample S s _ HS Hb0). rewrite (Z.quot_div_nonneg (birth_tick h (snd pl)) G) by lia.
    unfold keep_all, alive_at. cbn [andb].
    destruct (has_killer (snd pl)) eqn:Ek; cbn [andb negb].
    - pose proof (killer_tick pl Hin Ek) as Hbd.
      rewrite (quot_le_sample S s (death_tick h (snd pl)) HS) by lia.
      destruct (Z.leb_spec (birth_tick h (snd pl)) ((s + 1) * S - 1)),
               (Z.leb_spec (death_tick h (snd pl)) ((s + 1) * S - 1)),
               (birth_tick h (snd pl) / G =? b); cbn [andb negb]; lia.
    - rewrite andb_true_r. destruct (birth_tick h (snd pl) <=? (s + 1) * S - 1), (birth_tick h (snd pl) / G =? b); cbn; lia.
  Qed.
End Matrix.

(* C01_matrix, plans without merges: every cell of the dense project matrix is the ground-truth cell *)
Theorem matrix_cells_merge_free h cf aidx plan w G S M last :
  conflict_free h = true -> (forall c, 0 <= c < ncommits h -> tick_of h c < mark) -> (forall c, 0 <= znth 0 aidx c) ->
  plan_okb h plan = true -> merge_freeb plan = true -> run_hist cf h aidx plan = Ok w ->
  1 <= G -> 1 <= S -> group_sparse_history G S (s_gh (w_shared w)) (-1) = Ok (M, last) ->
  forall s b, 0 <= s <= last / S -> 0 <= b <= last / G -> cell M s b = truth_cell h G S keep_all s b.
Proof.
  intros Hcf Hmark Haidx Hok Hmf Er HG HS Eg s b Hs Hb.
  destruct (global_sparse_merge_free h cf aidx Hcf Hmark Haidx plan w Hok (merge_freeb_no_merges plan Hmf) Er) as [Hsum Hgh].
  assert (Hne : s_gh (w_shared w) <> []) by (intros E0; rewrite E0 in Eg; discriminate).
  destruct (gh_ok_dense mark (s_gh (w_shared w)) G S Hgh Hne HS HG) as (M0 & last0 & E0 & Hcell & _).
  rewrite Eg in E0. injection E0 as <- <-.
  rewrite Hcell by auto. rewrite Hsum. apply contrib_truth; auto.
Qed.

Print Assumptions matrix_cells_merge_free.
