// Harness for C11 (see verifharness/c11core).
package main

import "verifharness/c11core"

func main() { c11core.Main(false) }
