(* Composition C03 on C05, part 3: the primitives.  For every list primitive of C03's model
   (item under an iterator, Next, Prev, delete the node at the iterator, sorted insert-if-absent, set the
   key at the iterator, FindLE, Min / Max / Len) the corresponding operation on a C05 tree [tr] whose
   entry list is [a ++ e :: b] (e = the entry under the iterator [eid e]) is computed, and the entry
   list of the resulting tree is the list primitive's result WITH the node ids of the untouched entries
   unchanged - which is what keeps the iterators file.go holds across its deletes and inserts valid
   (the entry-list form of C05_iterators_stable). *)
From Coq Require Import List ZArith Lia Bool.
Import ListNotations.
From Herc Require Import RBTree.Model RBTree.Spec RBTree.Arena RBTree.InsertProofs RBTree.DeleteProofs
  RBTree.MapProofs RBTree.LookupProofs RBTree.SeqProofs.
From Herc Require Import File.Model File.Spec File.NodeLists File.Locate.
From Herc Require Import Compose.TreeFileKeys Compose.TreeFileModel.
Open Scope Z_scope.

(* ---------- (id, key, value) entries and their (key, value) projection ---------- *)

(* node ids are distinct and are neither Limit nor NegativeLimit *)
Definition okl (l : list (Z * Z * Z)) : Prop :=
  NoDup (eids l) /\ forall i, In i (eids l) -> 0 < i < neg_limit.

(* strictly increasing keys (File.Spec.inc without the lower bound) *)
Definition ssorted (s : list (Z * Z)) : Prop :=
  match s with [] => True | (k, _) :: r => inc k r end.

Lemma kv_eq e : kv e = (ekey e, eval e).
Proof. reflexivity. Qed.

Lemma inc_kv : forall l k, inc k (map kv l) <-> all_gt l k /\ sorted l.
Proof.
  induction l as [|[[i k1] v] l IH]; intros k.
  - cbn [map inc sorted]. split; [intros _; split; [apply all_gt_nil|exact I]|tauto].
  - cbn [map inc sorted kv fst snd]. rewrite IH, all_gt_cons. cbn [ekey fst snd]. split.
    + intros (H1 & H2 & H3). repeat split; auto. intros k' Hk'. specialize (H2 k' Hk'). lia.
    + intros ((H1 & H2) & H3 & H4). auto.
Qed.

Lemma sorted_ssorted l : sorted l <-> ssorted (map kv l).
Proof.
  destruct l as [|[[i k] v] l]; [cbn; tauto|].
  cbn [map ssorted kv fst snd sorted]. rewrite inc_kv. cbn [ekey fst snd]. tauto.
Qed.

Lemma inc_ssorted k s : inc k s -> ssorted s.
Proof. destruct s as [|[a b] r]; cbn [inc ssorted]; tauto. Qed.

Lemma ssorted_app_l A B : ssorted (A ++ B) -> ssorted A.
Proof.
  destruct A as [|[a b] A]; cbn [app ssorted]; auto. rewrite inc_app. tauto.
Qed.

Lemma inc_insert_inv k v : forall s k0, inc k0 (File.Model.insert k v s) -> inc k0 s.
Proof.
  induction s as [|[a b] r IH]; intros k0; cbn [File.Model.insert inc]; [tauto|].
  destruct (Z.ltb_spec k a).
  - cbn [inc]. intros (H1 & H2 & H3). split; [lia|auto].
  - destruct (Z.eqb_spec k a); cbn [inc]; [tauto|]. intros [H1 H2]. split; auto.
Qed.

Lemma ssorted_insert_inv k v s : ssorted (File.Model.insert k v s) -> ssorted s.
Proof.
  destruct s as [|[a b] r]; [intros _; exact I|].
  cbn [File.Model.insert]. destruct (Z.ltb_spec k a).
  - cbn [ssorted inc]. tauto.
  - destruct (Z.eqb_spec k a); [tauto|]. cbn [ssorted]. apply inc_insert_inv.
Qed.

Lemma kv_s_insert ni k v : forall l, map kv (s_insert ni k v l) = File.Model.insert k v (map kv l).
Proof.
  induction l as [|[[i k1] v1] l IH]; [reflexivity|].
  cbn [s_insert map kv fst snd File.Model.insert].
  destruct (Z.ltb_spec k k1); [reflexivity|].
  destruct (Z.ltb_spec k1 k).
  - destruct (Z.eqb_spec k k1); [lia|]. cbn [map kv fst snd]. rewrite IH. reflexivity.
  - destruct (Z.eqb_spec k k1); [reflexivity|lia].
Qed.

Lemma eids_app a b : eids (a ++ b) = eids a ++ eids b.
Proof. apply map_app. Qed.

Lemma okl_eids l l' : eids l' = eids l -> okl l -> okl l'.
Proof. unfold okl. intros ->. auto. Qed.

Lemma okl_mid a e b : okl (a ++ e :: b) ->
  ~ In (eid e) (eids a) /\ ~ In (eid e) (eids b) /\ 0 < eid e < neg_limit.
Proof.
  intros [Hn Hr]. rewrite eids_app in *. cbn [eids map] in *.
  pose proof (NoDup_remove_2 _ _ _ Hn) as H2.
  repeat split.
  - intros Hc. apply H2. apply in_or_app. auto.
  - intros Hc. apply H2. apply in_or_app. auto.
  - apply Hr. apply in_or_app. right. left. reflexivity.
  - apply Hr. apply in_or_app. right. left. reflexivity.
Qed.

Lemma okl_remove a e b : okl (a ++ e :: b) -> okl (a ++ b).
Proof.
  intros [Hn Hr]. unfold okl. rewrite eids_app in *. cbn [eids map] in *. split.
  - eapply NoDup_remove_1; eauto.
  - intros i Hi. apply Hr. apply in_app_or in Hi. apply in_or_app. destruct Hi; [left|right; right]; auto.
Qed.

Lemma okl_insert ni nk nv l : okl l -> ~ In ni (eids l) -> 0 < ni < neg_limit -> okl (s_insert ni nk nv l).
Proof.
  intros [Hn Hr] Hf Hb. split.
  - apply eids_insert_nodup; auto.
  - intros i Hi. apply eids_insert_in in Hi. destruct Hi as [->|Hi]; auto.
Qed.

Lemma s_item_notin x : forall l, ~ In x (eids l) -> s_item x l = None.
Proof.
  induction l as [|[[i k] v] l IH]; cbn [s_item eids map eid fst In]; [reflexivity|].
  intros H. destruct (Z.eqb_spec x i); [exfalso; apply H; auto|]. apply IH. intros Hc. apply H. auto.
Qed.

Lemma s_item_at a e b : ~ In (eid e) (eids a) -> s_item (eid e) (a ++ e :: b) = Some (kv e).
Proof.
  intros H. rewrite s_item_app, (s_item_notin _ _ H). destruct e as [[i k] v].
  cbn [s_item eid fst]. rewrite Z.eqb_refl. reflexivity.
Qed.

(* ---------- a tree whose entry list is a ++ e :: b, iterator at e ---------- *)

Lemma okl_tree tr : okl (elems tr) -> NoDup (ids tr) /\ ids_ok tr.
Proof. intros [Hn Hr]. rewrite ids_eids. split; [exact Hn|]. intros i Hi. apply Hr. rewrite <- ids_eids. exact Hi. Qed.

Lemma eid_not_limits a e b : okl (a ++ e :: b) ->
  (eid e =? limit) = false /\ (eid e =? neg_limit) = false.
Proof.
  intros H. destruct (okl_mid _ _ _ H) as (_ & _ & Hr). unfold limit, neg_limit in *.
  split; apply Z.eqb_neq; lia.
Qed.

Lemma it_item_at tr a e b : elems tr = a ++ e :: b -> okl (elems tr) ->
  it_item (eid e) tr = TOk (Some (kv e)).
Proof.
  intros He Hok. rewrite He in Hok. destruct (eid_not_limits _ _ _ Hok) as [H1 H2].
  unfold it_item. rewrite H1, H2. cbn [orb]. rewrite item_of_spec, He, s_item_at; [reflexivity|].
  apply (okl_mid _ _ _ Hok).
Qed.

Lemma deref_at tr a e b : elems tr = a ++ e :: b -> okl (elems tr) -> deref (eid e) tr = TOk (kv e).
Proof. intros He Hok. unfold deref. rewrite (it_item_at _ _ _ _ He Hok). reflexivity. Qed.

Lemma it_next_at tr a e b : elems tr = a ++ e :: b -> okl (elems tr) ->
  it_next (eid e) tr = TOk (pos_fwd (s_min b)).
Proof.
  intros He Hok. rewrite He in Hok. destruct (eid_not_limits _ _ _ Hok) as [H1 H2].
  unfold it_next. rewrite H1, H2, next_in_spec, He, s_next_at by apply (okl_mid _ _ _ Hok).
  destruct (s_min b); reflexivity.
Qed.

Lemma it_prev_at tr a e b : elems tr = a ++ e :: b -> okl (elems tr) ->
  it_prev (eid e) tr = TOk (pos_bwd (s_max a)).
Proof.
  intros He Hok. rewrite He in Hok. destruct (eid_not_limits _ _ _ Hok) as [H1 H2].
  unfold it_prev. rewrite H1, H2, prev_in_spec. unfold s_prev. rewrite He, s_prev_at by apply (okl_mid _ _ _ Hok).
  destruct (s_max a); reflexivity.
Qed.

(* Next of NegativeLimit is Min, Prev of Limit is Max *)
Lemma it_next_neg tr : it_next neg_limit tr = TOk (pos_fwd (s_min (elems tr))).
Proof. unfold it_next. cbn. rewrite min_id_spec. reflexivity. Qed.

(* the first / last entry and the two ends *)
Lemma pos_fwd_cons e b : pos_fwd (s_min (e :: b)) = eid e.
Proof. reflexivity. Qed.

Lemma s_max_snoc a e : s_max (a ++ [e]) = Some e.
Proof. rewrite s_max_app. reflexivity. Qed.

Lemma pos_fwd_not_limit a e b : okl (a ++ e :: b) -> (pos_fwd (s_min (e :: b)) =? limit) = false.
Proof. intros H. apply (eid_not_limits _ _ _ H). Qed.

(* DeleteWithIterator at e: exactly e disappears, every other entry keeps its id *)
Lemma t_delete_at tr a e b : elems tr = a ++ e :: b -> okl (elems tr) -> bst tr -> is_redblack tr ->
  exists tr', t_delete (eid e) tr = TOk tr' /\ elems tr' = a ++ b /\ bst tr' /\ is_redblack tr' /\ okl (elems tr').
Proof.
  intros He Hok Hb Hrb. pose proof Hok as Hok'. rewrite He in Hok'.
  destruct (eid_not_limits _ _ _ Hok') as [H1 H2].
  unfold t_delete. rewrite H1, H2. cbn [orb]. rewrite item_of_spec, He, s_item_at by apply (okl_mid _ _ _ Hok').
  rewrite kv_eq.
  pose proof (delete_key_elems (ekey e) tr Hb) as HD.
  pose proof (delete_key_defined (ekey e) tr Hrb) as HDef.
  assert (Hs : sorted (a ++ e :: b)) by (rewrite <- He; apply bst_sorted; exact Hb).
  apply sorted_app in Hs. destruct Hs as (Sa & Sb & La & Gb).
  assert (Hm : s_mem (ekey e) (elems tr) = true).
  { rewrite He, s_mem_app. destruct e as [[i k] v]. cbn [s_mem ekey fst snd]. rewrite Z.eqb_refl.
    cbn [orb]. apply orb_true_r. }
  destruct (delete_key (ekey e) tr) as [|tr'|] eqn:ED.
  - destruct HD as [HD _]. congruence.
  - destruct HD as [_ HD]. exists tr'. split; [reflexivity|].
    assert (He' : elems tr' = a ++ b).
    { rewrite HD, He. apply s_delete_app_eq; auto. }
    split; [exact He'|]. split; [eapply delete_key_bst; eauto|]. split; [eapply delete_key_RB; eauto|].
    rewrite He'. eapply okl_remove; eauto.
  - exfalso. rewrite mem_elems, Hm in HDef by exact Hb. destruct HDef as [? HDef]. discriminate.
Qed.

(* iter.Item().Key = k at e: only that entry changes, and only in its key *)
Lemma map_rewrite_notin it k : forall l, ~ In it (eids l) -> map (rewrite_key (Z.eqb it) (fun _ => k)) l = l.
Proof.
  induction l as [|[[i k1] v] l IH]; [reflexivity|].
  cbn [eids map eid fst In]. intros H. rewrite IH by (intros Hc; apply H; auto).
  unfold rewrite_key at 1. cbn [eid ekey eval fst snd].
  destruct (Z.eqb_spec it i); [exfalso; apply H; auto|reflexivity].
Qed.

Lemma set_key_at tr a e b k : elems tr = a ++ e :: b -> okl (elems tr) ->
  elems (set_key (eid e) k tr) = a ++ (eid e, k, eval e) :: b.
Proof.
  intros He Hok. rewrite He in Hok. destruct (okl_mid _ _ _ Hok) as (Ha & Hb & _).
  unfold set_key. rewrite map_keys_elems, He, map_app. cbn [map].
  rewrite !map_rewrite_notin by auto. unfold rewrite_key. rewrite Z.eqb_refl. reflexivity.
Qed.

Lemma set_key_ok tr a e b k : elems tr = a ++ e :: b -> okl (elems tr) -> okl (elems (set_key (eid e) k tr)).
Proof.
  intros He Hok. eapply okl_eids; [|exact Hok]. rewrite <- !ids_eids. apply map_keys_ids.
Qed.

(* Insert: the sorted-list insertion with the node index alloc hands out *)
Definition fresh_for (i : Z) (tr : tree) : Prop := ~ In i (ids tr) /\ 0 < i < neg_limit.

Lemma t_insert_elems alloc k v tr : bst tr ->
  elems (fst (t_insert alloc k v tr)) = s_insert (alloc tr) k v (elems tr).
Proof.
  intros Hb. unfold t_insert. pose proof (insert_elems (alloc tr) k v tr Hb) as H.
  destruct (RBTree.Model.insert (alloc tr) k v tr) as [[tr' ok] it]. exact H.
Qed.

Lemma t_insert_it alloc k v tr : bst tr ->
  snd (t_insert alloc k v tr) = if s_mem k (elems tr) then 0 else alloc tr.
Proof.
  intros Hb. unfold t_insert. pose proof (insert_result (alloc tr) k v tr Hb) as H.
  destruct (RBTree.Model.insert (alloc tr) k v tr) as [[tr' ok] it]. cbn [snd]. tauto.
Qed.

Lemma t_insert_ok alloc k v tr : bst tr -> is_redblack tr -> okl (elems tr) -> fresh_for (alloc tr) tr ->
  bst (fst (t_insert alloc k v tr)) /\ is_redblack (fst (t_insert alloc k v tr)) /\
  okl (elems (fst (t_insert alloc k v tr))).
Proof.
  intros Hb Hrb Hok [Hf Hr]. rewrite t_insert_elems by exact Hb. unfold t_insert.
  pose proof (insert_bst (alloc tr) k v tr Hb) as H1. pose proof (insert_RB (alloc tr) k v tr Hrb) as H2.
  destruct (RBTree.Model.insert (alloc tr) k v tr) as [[tr' ok] it]. cbn [fst] in *.
  split; [exact H1|]. split; [exact H2|]. apply okl_insert; auto. rewrite <- ids_eids. exact Hf.
Qed.

Lemma t_insert_kvs alloc k v tr : bst tr ->
  map kv (elems (fst (t_insert alloc k v tr))) = File.Model.insert k v (map kv (elems tr)).
Proof. intros Hb. rewrite t_insert_elems by exact Hb. apply kv_s_insert. Qed.

Lemma s_insert_length ni nk nv : forall l, (length (s_insert ni nk nv l) <= S (length l))%nat.
Proof.
  induction l as [|[[i k] v] l IH]; cbn [s_insert length]; [lia|].
  destruct (nk <? k); cbn [length]; [lia|]. destruct (k <? nk); cbn [length]; lia.
Qed.

(* a new key that lies between the two halves goes exactly there *)
Lemma s_insert_all_lt ni nk nv : forall a, all_lt a nk -> s_insert ni nk nv a = a ++ [(ni, nk, nv)].
Proof.
  induction a as [|[[i k] v] a IH]; [reflexivity|].
  intros H. apply all_lt_cons in H. cbn [ekey fst snd] in H. destruct H as [H1 H2].
  cbn [s_insert app]. destruct (Z.ltb_spec nk k); [lia|]. destruct (Z.ltb_spec k nk); [|lia].
  rewrite IH by exact H2. reflexivity.
Qed.

Lemma s_insert_between ni nk nv a e b : all_lt a nk -> all_lt a (ekey e) -> nk < ekey e ->
  s_insert ni nk nv (a ++ e :: b) = a ++ (ni, nk, nv) :: e :: b.
Proof.
  intros H1 H2 H3. rewrite s_insert_app_lt by (destruct e as [[i k] v]; auto).
  rewrite s_insert_all_lt by exact H1. rewrite <- app_assoc. reflexivity.
Qed.

Lemma s_mem_absent_between nk a e b : all_lt a nk -> nk < ekey e -> all_gt b (ekey e) ->
  s_mem nk (a ++ e :: b) = false.
Proof.
  intros H1 H2 H3. rewrite s_mem_app. rewrite (s_mem_false_lt nk a nk) by (auto; lia).
  destruct e as [[i k] v]. cbn [s_mem orb ekey fst snd] in *.
  destruct (Z.eqb_spec k nk); [lia|]. cbn [orb]. apply (s_mem_false_gt nk b k); auto. lia.
Qed.

(* ---------- FindLE ---------- *)

Lemma s_find_le_aux_at x : forall a e b acc,
  (forall k, In k (keys a) -> k <= x) -> ekey e <= x ->
  match b with [] => True | e2 :: _ => x < ekey e2 end ->
  s_find_le_aux x (a ++ e :: b) acc = Some e.
Proof.
  induction a as [|[[i k] v] a IH]; intros e b acc Ha He Hb.
  - destruct e as [[i k] v]. cbn [app s_find_le_aux ekey fst snd] in *.
    destruct (Z.leb_spec k x); [|lia].
    destruct b as [|[[i2 k2] v2] b]; [reflexivity|]. cbn [s_find_le_aux ekey fst snd] in *.
    destruct (Z.leb_spec k2 x); [lia|reflexivity].
  - cbn [app s_find_le_aux]. assert (k <= x) by (apply Ha; left; reflexivity).
    destruct (Z.leb_spec k x); [|lia]. apply IH; auto. intros k' Hk'. apply Ha. right. exact Hk'.
Qed.

(* C03's find_le on the projection splits the entry list at the entry FindLE returns *)
Lemma find_le_entries pos : forall l acc L o R,
  find_le pos acc (map kv l) = Some (L, o, R) ->
  exists a e b, l = a ++ e :: b /\ L = acc ++ map kv a /\ o = kv e /\ R = map kv b /\
    (forall e', In e' a -> match l with e0 :: _ => ekey e' <= pos \/ e' = e0 | [] => True end) /\
    (a = [] \/ ekey e <= pos) /\
    match b with [] => True | e2 :: _ => pos < ekey e2 end.
Proof.
  induction l as [|e0 l IH]; intros acc L o R H; [discriminate|].
  destruct l as [|e1 l].
  - cbn in H. inversion H; subst. exists [], e0, []. rewrite app_nil_r. repeat split; auto. intros e' [].
  - change (map kv (e0 :: e1 :: l)) with (kv e0 :: kv e1 :: map kv l) in H.
    rewrite kv_eq with (e := e1) in H. rewrite find_le_cons2 in H.
    destruct (Z.leb_spec (ekey e1) pos) as [Hle|Hgt].
    + change ((ekey e1, eval e1) :: map kv l) with (map kv (e1 :: l)) in H.
      destruct (IH _ _ _ _ H) as (a & e & b & E1 & E2 & E3 & E4 & E5 & E6 & E7).
      exists (e0 :: a), e, b. rewrite E1. repeat split; auto.
      * rewrite E2, <- app_assoc. reflexivity.
      * intros e' [<-|Hin]; [right; reflexivity|]. left. specialize (E5 e' Hin).
        destruct E5 as [E5|E5]; [exact E5|]. subst e'. exact Hle.
      * right. destruct E6 as [->|E6]; [|exact E6]. cbn [app] in E1. inversion E1; subst. exact Hle.
    + inversion H; subst. exists [], e0, (e1 :: l). rewrite app_nil_r. repeat split; auto. intros e' [].
Qed.

Lemma find_le_at pos l L o R :
  match l with e0 :: _ => ekey e0 <= pos | [] => True end ->
  find_le pos [] (map kv l) = Some (L, o, R) ->
  exists a e b, l = a ++ e :: b /\ L = map kv a /\ o = kv e /\ R = map kv b /\
    s_find_le pos l = Some e /\ ekey e <= pos /\ match b with [] => True | e2 :: _ => pos < ekey e2 end.
Proof.
  intros H0 H. destruct (find_le_entries pos l [] L o R H) as (a & e & b & E1 & E2 & E3 & E4 & E5 & E6 & E7).
  exists a, e, b. cbn [app] in E2.
  assert (He : ekey e <= pos).
  { destruct E6 as [->|E6]; [|exact E6]. cbn [app] in E1. subst l. exact H0. }
  repeat split; auto.
  assert (Ha : forall k, In k (keys a) -> k <= pos).
  { intros k Hk. unfold keys in Hk. apply in_map_iff in Hk. destruct Hk as (e' & <- & Hin).
    specialize (E5 e' Hin). destruct l as [|e0 l']; [destruct a; discriminate|].
    destruct E5 as [E5|E5]; [exact E5|]. subst e'. exact H0. }
  unfold s_find_le. rewrite E1. apply s_find_le_aux_at; auto.
Qed.

(* ---------- iterator stability in the item_of form (C05_iterators_stable) ----------
   An iterator other than the one the operation is applied to shows the same item afterwards: across
   DeleteWithIterator (even when the deleted node has two children and its predecessor is moved into its
   place), across Insert (the new node has a fresh index) and across a key rewrite through another iterator. *)
Lemma t_delete_stable it tr tr' m : bst tr -> NoDup (ids tr) ->
  t_delete it tr = TOk tr' -> m <> it -> item_of m tr' = item_of m tr.
Proof.
  intros Hb Hn H Hm. unfold t_delete in H. destruct ((it =? limit) || (it =? neg_limit)); [discriminate|].
  destruct (item_of it tr) as [[k v0]|] eqn:Ei; [|discriminate].
  destruct (delete_key k tr) as [|t2|] eqn:Ed; try discriminate. inversion H; subst t2.
  eapply delete_stable; eauto. intros v Hc. apply Hm.
  rewrite item_of_spec in Ei, Hc. apply s_item_in in Ei. apply s_item_in in Hc.
  apply bst_sorted in Hb. eapply sorted_key_unique; eauto.
Qed.

Lemma t_insert_stable alloc k v tr m : bst tr -> m <> alloc tr ->
  item_of m (fst (t_insert alloc k v tr)) = item_of m tr.
Proof.
  intros Hb Hm. unfold t_insert. pose proof (insert_stable (alloc tr) k v tr m Hb Hm) as H.
  destruct (RBTree.Model.insert (alloc tr) k v tr) as [[tr' ok] it]. exact H.
Qed.

Lemma set_key_stable it k tr m : m <> it -> item_of m (set_key it k tr) = item_of m tr.
Proof.
  intros Hm. unfold set_key. rewrite map_keys_item_of. destruct (item_of m tr) as [[k0 v0]|]; [|reflexivity].
  destruct (Z.eqb_spec it m); [congruence|reflexivity].
Qed.
