// Harness for C06: drives real rbtree.Allocators with 1-3 real RBTrees (and "raw" owners that call
// malloc/free directly) through generated scripts and records, after every operation, what the
// implementation did: results, panics, allocator snapshots (storage, gaps, hibernation fields),
// the ids reachable from every tree root, the compressed buffers, the bytes of the hibernation file.
package main

import (
	"fmt"
	"os"
	"path/filepath"
	"sort"
	"strings"
	"time"

	"gopkg.in/src-d/hercules.v10/verifapi"
	. "verifharness/lib"
)

// ---------------------------------------------------------------------------------------------
// world

type treeRec struct {
	t *verifapi.RBTree
	a int
}

type world struct {
	allocs []*verifapi.Allocator
	trees  []treeRec
	raw    []map[int]map[uint32]bool // per allocator: raw owner -> ids it holds
	last   []string                  // last emitted state per allocator
	dir    string
	files  map[int][]byte // bytes written by the last successful Serialize of allocator i
	mallocs, frees, hibs int
}

func newWorld(dir string) *world {
	w := &world{dir: dir, files: map[int][]byte{}}
	w.addAlloc(verifapi.NewAllocator())
	return w
}

func (w *world) addAlloc(a *verifapi.Allocator) int {
	w.allocs = append(w.allocs, a)
	w.raw = append(w.raw, map[int]map[uint32]bool{})
	w.last = append(w.last, "")
	return len(w.allocs) - 1
}

func (w *world) path(a int) string { return filepath.Join(w.dir, fmt.Sprintf("a%d.bin", a)) }

func panicClass(msg string) string {
	switch {
	case msg == "hibernated allocators cannot be used":
		return "hibuse"
	case msg == "cannot clone a hibernated allocator":
		return "clonehib"
	case msg == "cannot hibernate an already hibernated Allocator":
		return "alreadyhib"
	case msg == "cannot boot a serialized Allocator":
		return "bootser"
	case msg == "node #0 is special and cannot be deallocated":
		return "freezero"
	case msg == "rbtree internal assertion failed":
		return "assert"
	case strings.Contains(msg, "index out of range"):
		return "index"
	case strings.Contains(msg, "maximum value for uint32"):
		return "maxsize"
	case strings.Contains(msg, "nil map"):
		return "nilmap"
	case msg == "serialization requires the hibernated state":
		return "serawake"
	case msg == "deserialization requires the hibernated state":
		return "deserawake"
	case strings.Contains(msg, "nil pointer"):
		return "nilptr"
	}
	return "other"
}

// inorder walks the tree with its own iterators, bounded so that a corrupted tree cannot hang us.
func inorder(t *verifapi.RBTree) (ids []uint32, ok bool) {
	limit := t.Len() + 3
	for it := t.Min(); !it.Limit(); it = it.Next() {
		ids = append(ids, it.VerifNode())
		if len(ids) > limit {
			return ids, false
		}
	}
	return ids, true
}

// reach returns the ids reachable from the root through left/right in the snapshot.
func reach(root uint32, st []verifapi.VerifNode) (ids []int, bad bool) {
	seen := map[uint32]bool{}
	stack := []uint32{root}
	for len(stack) > 0 {
		n := stack[len(stack)-1]
		stack = stack[:len(stack)-1]
		if n == 0 {
			continue
		}
		if int(n) >= len(st) || seen[n] {
			bad = true
			continue
		}
		seen[n] = true
		ids = append(ids, int(n))
		stack = append(stack, st[n].Left, st[n].Right)
	}
	sort.Ints(ids)
	return
}

func bytesSx(b []byte) Sx {
	if b == nil {
		return A("nil")
	}
	return Bytes(b)
}

func u32sSx(b []uint32) Sx {
	l := make([]Sx, len(b))
	for i, x := range b {
		l[i] = U64(uint64(x))
	}
	return L(l...)
}

// state renders everything observable about allocator i and its owners.
func (w *world) state(i int) Sx {
	a := w.allocs[i]
	s := a.VerifSnapshot()
	var st, g Sx
	if s.StorageNil {
		st = T("s", A("nil"))
	} else {
		cells := make([]Sx, len(s.Storage))
		for k, n := range s.Storage {
			cells[k] = L(U64(uint64(n.Key)), U64(uint64(n.Value)), U64(uint64(n.Left)), U64(uint64(n.Parent)), U64(uint64(n.Right)), B(n.Color))
		}
		st = T("s", cells...)
	}
	if s.GapsNil {
		g = T("g", A("nil"))
	} else {
		gs := make([]Sx, len(s.Gaps))
		for k, x := range s.Gaps {
			gs[k] = U64(uint64(x))
		}
		g = T("g", gs...)
	}
	hd := make([]Sx, 7)
	for k := 0; k < 7; k++ {
		if s.HibernatedDataNil[k] {
			hd[k] = I(-1)
		} else {
			hd[k] = I(s.HibernatedDataLens[k])
		}
	}
	used := -1
	Catch(func() { used = a.Used() })
	fields := []Sx{I(i), T("thr", I(s.HibernationThreshold)), st, g, T("hs", I(s.HibernatedStorageLen)),
		T("hg", I(s.HibernatedGapsLen)), T("hd", hd...), T("u", I(used)), T("sz", I(a.Size()))}
	for ti, tr := range w.trees {
		if tr.a != i {
			continue
		}
		h := tr.t.VerifHeader()
		if s.StorageNil {
			fields = append(fields, T("T", I(ti), U64(uint64(h.Root)), I(int(h.Count)), A("hib")))
			continue
		}
		ids, bad := reach(h.Root, s.Storage)
		fields = append(fields, T("T", I(ti), U64(uint64(h.Root)), I(int(h.Count)), B(bad), Ints(ids)))
	}
	owners := []int{}
	for o := range w.raw[i] {
		owners = append(owners, o)
	}
	sort.Ints(owners)
	for _, o := range owners {
		ids := []int{}
		for id := range w.raw[i][o] {
			ids = append(ids, int(id))
		}
		sort.Ints(ids)
		fields = append(fields, T("R", I(o), Ints(ids)))
	}
	return T("A", fields...)
}

// changed returns the states of the allocators whose rendering differs from the last emitted one.
func (w *world) changed() []Sx {
	var res []Sx
	for i := range w.allocs {
		s := w.state(i)
		str := s.String()
		if str != w.last[i] {
			w.last[i] = str
			res = append(res, s)
		}
	}
	return res
}

// ---------------------------------------------------------------------------------------------
// operations

type op struct {
	kind string
	args []int
	mode string
}

func (o op) sx() Sx {
	l := []Sx{}
	for _, x := range o.args {
		l = append(l, I(x))
	}
	if o.mode != "" {
		l = append(l, A(o.mode))
	}
	return T(o.kind, l...)
}

func parseOp(s Sx) op {
	o := op{kind: s.Tag()}
	for _, x := range s.Args() {
		if x.IsL {
			continue
		}
		if len(x.Atom) > 0 && (x.Atom[0] == '-' || (x.Atom[0] >= '0' && x.Atom[0] <= '9')) {
			o.args = append(o.args, x.Int())
		} else {
			o.mode = x.Atom
		}
	}
	return o
}

func (o op) arg(i int) int {
	if i < len(o.args) {
		return o.args[i]
	}
	return 0
}

func (w *world) okAlloc(a int) bool { return a >= 0 && a < len(w.allocs) }
func (w *world) okTree(t int) bool  { return t >= 0 && t < len(w.trees) }

func (w *world) awake(a int) bool { return !w.allocs[a].VerifSnapshot().StorageNil }

// do executes one operation on the real code and returns its result observation.
func (w *world) do(o op) Sx {
	skip := T("skip")
	switch o.kind {
	case "newtree":
		a := o.arg(0)
		if !w.okAlloc(a) || len(w.trees) >= 12 {
			return skip
		}
		w.trees = append(w.trees, treeRec{verifapi.NewRBTree(w.allocs[a]), a})
		return T("ok")
	case "ins":
		t := o.arg(0)
		if !w.okTree(t) {
			return skip
		}
		var okIns bool
		var it verifapi.Iterator
		msg, p := Catch(func() {
			okIns, it = w.trees[t].t.Insert(verifapi.Item{Key: uint32(o.arg(1)), Value: uint32(o.arg(2))})
		})
		if p {
			return T("panic", A(panicClass(msg)))
		}
		if okIns {
			w.mallocs++
			return T("ins", I(1), U64(uint64(it.VerifNode())))
		}
		return T("ins", I(0), I(0))
	case "del":
		t := o.arg(0)
		if !w.okTree(t) {
			return skip
		}
		tr := w.trees[t].t
		var found bool
		var id uint32
		msg, p := Catch(func() {
			it := tr.FindGE(uint32(o.arg(1)))
			if !it.Limit() && it.Item().Key == uint32(o.arg(1)) {
				id = it.VerifNode()
			}
			found = tr.DeleteWithKey(uint32(o.arg(1)))
		})
		if p {
			return T("panic", A(panicClass(msg)))
		}
		if found {
			w.frees++
			return T("del", I(1), U64(uint64(id)))
		}
		return T("del", I(0), I(0))
	case "fill":
		// (fill t n base period seed KEYS.VALUES): n Inserts in one step (medium arenas with the fine
		// correspondence: the state is rendered once, after the last Insert)
		t, n, base, period, seed := o.arg(0), o.arg(1), uint32(o.arg(2)), o.arg(3), uint32(o.arg(4))
		if !w.okTree(t) || n < 0 || n > 5000 {
			return skip
		}
		kp, vp := splitPats(o.mode)
		vals := genBuf(vp, n, period, seed)
		var ids []uint32
		msg, p := Catch(func() {
			for i := 0; i < n; i++ {
				ok, it := w.trees[t].t.Insert(verifapi.Item{Key: keyAt(kp, i, n, base), Value: vals[i]})
				if ok {
					ids = append(ids, it.VerifNode())
				}
			}
		})
		if p {
			if len(ids) > 0 {
				return T("panic", A("partial")) // never seen: Insert on an awake allocator does not panic
			}
			return T("panic", A(panicClass(msg)))
		}
		w.mallocs += len(ids)
		return T("fill", u32sSx(ids))
	case "drain":
		// (drain t k stride): DeleteWithKey of every stride-th key (in key order), k of them, in one step
		t, k, stride := o.arg(0), o.arg(1), o.arg(2)
		if !w.okTree(t) || stride < 1 {
			return skip
		}
		tr := w.trees[t].t
		var ids []uint32
		msg, p := Catch(func() {
			var keys []uint32
			limit := tr.Len() + 3
			i := 0
			for it := tr.Min(); !it.Limit() && i < limit; it = it.Next() {
				if i%stride == stride-1 && len(keys) < k {
					keys = append(keys, it.Item().Key)
				}
				i++
			}
			for _, key := range keys {
				it := tr.FindGE(key)
				id := it.VerifNode()
				if tr.DeleteWithKey(key) {
					ids = append(ids, id)
				}
			}
		})
		if p {
			if len(ids) > 0 {
				return T("panic", A("partial"))
			}
			return T("panic", A(panicClass(msg)))
		}
		w.frees += len(ids)
		return T("drain", u32sSx(ids))
	case "erase":
		t := o.arg(0)
		if !w.okTree(t) {
			return skip
		}
		tr := w.trees[t].t
		var ids []uint32
		msg, p := Catch(func() {
			ids, _ = inorder(tr)
			tr.Erase()
		})
		if p {
			return T("panic", A(panicClass(msg)))
		}
		w.frees += len(ids)
		return T("erase", u32sSx(ids))
	case "cdeep":
		t, a := o.arg(0), o.arg(1)
		if !w.okTree(t) || !w.okAlloc(a) || len(w.trees) >= 12 {
			return skip
		}
		if !w.awake(w.trees[t].a) && w.awake(a) && w.trees[t].t.Len() > 0 && os.Getenv("C06_REFUSED_CLONEDEEP") == "" {
			// CloneDeep of a non-empty tree whose own allocator sleeps into an awake allocator panics
			// (refused) only after it has taken one node from the destination; that node is lost.
			// A Go program does not survive the panic, so the sequence is outside the property
			// (docs/C06.md, "observation"); set C06_REFUSED_CLONEDEEP=1 to run it anyway.
			return skip
		}
		var c *verifapi.RBTree
		var ids []uint32
		msg, p := Catch(func() {
			c = w.trees[t].t.CloneDeep(w.allocs[a])
			ids, _ = inorder(c)
		})
		if p {
			// the partly built clone is unreachable; nothing is registered
			return T("panic", A(panicClass(msg)))
		}
		w.trees = append(w.trees, treeRec{c, a})
		w.mallocs += len(ids)
		return T("cdeep", u32sSx(ids))
	case "aclone":
		a := o.arg(0)
		if !w.okAlloc(a) || len(w.allocs) >= 5 || len(w.trees) >= 12 {
			return skip
		}
		var c *verifapi.Allocator
		msg, p := Catch(func() { c = w.allocs[a].Clone() })
		if p {
			return T("panic", A(panicClass(msg)))
		}
		na := w.addAlloc(c)
		nt := len(w.trees)
		for ti := 0; ti < nt; ti++ {
			if w.trees[ti].a == a {
				w.trees = append(w.trees, treeRec{w.trees[ti].t.CloneShallow(c), na})
			}
		}
		for ow, ids := range w.raw[a] {
			m := map[uint32]bool{}
			for id := range ids {
				m[id] = true
			}
			w.raw[na][ow] = m
		}
		return T("ok")
	case "rm":
		a, ow := o.arg(0), o.arg(1)
		if !w.okAlloc(a) {
			return skip
		}
		var id uint32
		msg, p := Catch(func() { id = w.allocs[a].VerifMalloc() })
		if p {
			return T("panic", A(panicClass(msg)))
		}
		if w.raw[a][ow] == nil {
			w.raw[a][ow] = map[uint32]bool{}
		}
		w.raw[a][ow][id] = true
		w.mallocs++
		return T("m", U64(uint64(id)))
	case "rf":
		a, ow, id := o.arg(0), o.arg(1), uint32(o.arg(2))
		if !w.okAlloc(a) {
			return skip
		}
		s := w.allocs[a].VerifSnapshot()
		held := w.raw[a][ow][id]
		if !s.StorageNil && !held {
			// only protocol errors that the allocator itself must refuse are tried on ids we do not hold
			isGap := false
			for _, g := range s.Gaps {
				if g == id {
					isGap = true
				}
			}
			if !(id == 0 || isGap || int(id) >= len(s.Storage)) {
				return skip
			}
		}
		msg, p := Catch(func() { w.allocs[a].VerifFree(id) })
		if p {
			return T("panic", A(panicClass(msg)))
		}
		delete(w.raw[a][ow], id)
		w.frees++
		return T("ok")
	case "thr":
		a := o.arg(0)
		if !w.okAlloc(a) {
			return skip
		}
		v := o.arg(1)
		if o.mode == "rel" {
			// relative to the current arena size (of the hibernated arena when asleep)
			s := w.allocs[a].VerifSnapshot()
			sz := len(s.Storage)
			if s.StorageNil {
				sz = s.HibernatedStorageLen
			}
			v += sz
		}
		w.allocs[a].HibernationThreshold = v
		return T("thr", I(v))
	case "hib":
		a := o.arg(0)
		if !w.okAlloc(a) {
			return skip
		}
		before := w.allocs[a].VerifSnapshot()
		msg, p := Catch(func() { w.allocs[a].Hibernate() })
		if p {
			return T("panic", A(panicClass(msg)))
		}
		after := w.allocs[a].VerifSnapshot()
		res := []Sx{}
		if !before.StorageNil && after.StorageNil {
			w.hibs++
			// exercise LZ4 for real on every buffer produced: (input, compressed bytes, decompressed again)
			data := w.allocs[a].VerifHibernatedData()
			n := len(before.Storage)
			ins := make([][]uint32, 7)
			for k := 0; k < 6; k++ {
				ins[k] = make([]uint32, n)
			}
			for i, c := range before.Storage {
				ins[0][i], ins[1][i], ins[2][i], ins[3][i], ins[4][i] = c.Key, c.Value, c.Left, c.Parent, c.Right
				if c.Color {
					ins[5][i] = 1
				}
			}
			ins[6] = before.Gaps
			for k := 0; k < 7; k++ {
				if len(ins[k]) == 0 || data[k] == nil || len(data[k]) == 0 {
					res = append(res, T("lz", A("none"), bytesSx(data[k])))
					continue
				}
				out := make([]uint32, len(ins[k]))
				verifapi.DecompressUInt32Slice(data[k], out)
				// and the compressor on its own, for determinism
				again := verifapi.CompressUInt32Slice(ins[k])
				same := string(again) == string(data[k])
				res = append(res, T("lz", u32sSx(ins[k]), bytesSx(data[k]), u32sSx(out), B(same)))
			}
		}
		return T("ok", res...)
	case "boot":
		a := o.arg(0)
		if !w.okAlloc(a) {
			return skip
		}
		msg, p := Catch(func() { w.allocs[a].Boot() })
		if p {
			return T("panic", A(panicClass(msg)))
		}
		return T("ok")
	case "ser":
		a := o.arg(0)
		if !w.okAlloc(a) {
			return skip
		}
		useDir()
		path := w.path(a)
		switch o.mode {
		case "nodir":
			path = filepath.Join(w.dir, "no-such-dir", "x.bin")
		case "isdir":
			path = w.dir
		case "full":
			// the file can be created but no byte can be written (ENOSPC): the fault arrives in the
			// middle of Serialize, after os.Create has succeeded (round 5b)
			path = "/dev/full"
			if _, e := os.Stat(path); e != nil {
				path = filepath.Join(w.dir, "no-such-dir", "x.bin")
			}
		}
		var err error
		msg, p := Catch(func() { err = w.allocs[a].Serialize(path) })
		if p {
			return T("panic", A(panicClass(msg)))
		}
		if err != nil {
			return T("err")
		}
		data, rerr := os.ReadFile(path)
		if rerr != nil {
			return T("ok", T("file", A("unreadable")))
		}
		w.files[a] = data
		return T("ok", T("file", Bytes(data)))
	case "deser":
		// (deser a src cut): cut = -1 whole file, -2 missing file, -3 a directory, k >= 0 the first k bytes
		a, src, cut := o.arg(0), o.arg(1), o.arg(2)
		if !w.okAlloc(a) {
			return skip
		}
		useDir()
		path := filepath.Join(w.dir, "in.bin")
		os.Remove(path)
		var presented Sx
		full, have := w.files[src]
		switch {
		case cut == -3:
			path = w.dir
			presented = T("file", A("none"))
		case cut == -2 || !have:
			presented = T("file", A("none"))
		default:
			data := full
			if cut >= 0 && cut < len(full) {
				data = full[:cut]
			}
			if err := os.WriteFile(path, data, 0o600); err != nil {
				panic(err)
			}
			presented = T("file", Bytes(data), I(len(full)))
		}
		var err error
		msg, p := Catch(func() { err = w.allocs[a].Deserialize(path) })
		os.Remove(path)
		if p {
			return T("panic", A(panicClass(msg)))
		}
		data := w.allocs[a].VerifHibernatedData()
		hd := make([]Sx, 7)
		for k := range hd {
			hd[k] = bytesSx(data[k])
		}
		if err != nil {
			return T("err", presented, T("hdc", hd...))
		}
		return T("ok", presented, T("hdc", hd...))
	case "used":
		a := o.arg(0)
		if !w.okAlloc(a) {
			return skip
		}
		var u int
		msg, p := Catch(func() { u = w.allocs[a].Used() })
		if p {
			return T("panic", A(panicClass(msg)))
		}
		return T("i", I(u))
	case "size":
		a := o.arg(0)
		if !w.okAlloc(a) {
			return skip
		}
		return T("i", I(w.allocs[a].Size()))
	}
	panic("unknown op " + o.kind)
}

// ---------------------------------------------------------------------------------------------
// a script under construction (the generators look at the live world to pick the next step)

type script struct {
	w   *world
	ops []op
	obs []Sx
}

var caseDir string

var dirUsed bool

// useDir creates the scratch directory on first use by a case (most cases never touch the disk).
func useDir() {
	if !dirUsed {
		if err := os.MkdirAll(caseDir, 0o700); err != nil {
			panic(err)
		}
		dirUsed = true
	}
}

func newScript() *script {
	if dirUsed {
		os.RemoveAll(caseDir)
		dirUsed = false
	}
	s := &script{w: newWorld(caseDir)}
	s.w.changed() // the initial state of A0 is known to the model (NewAllocator); do not emit it
	return s
}

func (s *script) do(kind string, mode string, args ...int) Sx {
	o := op{kind: kind, args: args, mode: mode}
	s.ops = append(s.ops, o) // recorded first: a hanging operation is then the last one of the script
	r := s.w.do(o)
	s.obs = append(s.obs, T("o", append([]Sx{r}, s.w.changed()...)...))
	return r
}

var cfg *Config

func (s *script) emit(kind string) {
	sops := make([]Sx, len(s.ops))
	for i, o := range s.ops {
		sops[i] = o.sx()
	}
	nt := s.w.mallocs >= 2 && (s.w.frees >= 1 || s.w.hibs >= 1)
	cfg.Emit(T("kind", A(kind)), T("nt", B(nt)), T("ops", sops...), T("obs", s.obs...))
}

// guarded runs f with a watchdog: an operation of a (mutated) implementation that does not terminate
// is reported as an observation instead of hanging the check.
func guarded(kind string, f func(s *script)) {
	s := newScript()
	done := make(chan bool, 1)
	go func() {
		f(s)
		done <- true
	}()
	select {
	case <-done:
		s.emit(kind)
	case <-time.After(20 * time.Second):
		ops := s.ops
		obs := append(s.obs[:len(s.obs):len(s.obs)], T("o", T("hang")))
		if len(ops) > len(obs) {
			ops = ops[:len(obs)]
		}
		(&script{w: s.w, ops: ops, obs: obs}).emit(kind)
		cfg.Close()
		os.RemoveAll(caseDir)
		os.Exit(0)
	}
}

// ---------------------------------------------------------------------------------------------
// generators

func (s *script) size(a int) int {
	sn := s.w.allocs[a].VerifSnapshot()
	if sn.StorageNil {
		return sn.HibernatedStorageLen
	}
	return len(sn.Storage)
}

func (s *script) treesOn(a int) []int {
	var r []int
	for i, t := range s.w.trees {
		if t.a == a {
			r = append(r, i)
		}
	}
	return r
}

// mutate performs n random tree / raw operations on awake allocators.
func (s *script) mutate(n int, keyRange int, delBias int) {
	r := cfg.Rng
	for i := 0; i < n; i++ {
		if len(s.w.trees) == 0 {
			s.do("newtree", "", r.Intn(len(s.w.allocs)))
			continue
		}
		t := r.Intn(len(s.w.trees))
		switch x := r.Intn(100); {
		case x < 50-delBias:
			s.do("ins", "", t, r.Intn(keyRange), r.Intn(1000))
		case x < 84:
			s.do("del", "", t, r.Intn(keyRange))
		case x < 87:
			s.do("erase", "", t)
		case x < 92:
			a := r.Intn(len(s.w.allocs))
			s.do("rm", "", a, r.Intn(2))
		case x < 97:
			a := r.Intn(len(s.w.allocs))
			ow := r.Intn(2)
			ids := []int{}
			for id := range s.w.raw[a][ow] {
				ids = append(ids, int(id))
			}
			sort.Ints(ids)
			if len(ids) > 0 {
				s.do("rf", "", a, ow, ids[r.Intn(len(ids))])
			} else {
				s.do("rf", "", a, ow, r.Intn(s.size(a)+2))
			}
		default:
			s.do("used", "", r.Intn(len(s.w.allocs)))
		}
	}
}

// roundTrip hibernates allocator a with the given threshold position, optionally through the disk
// with the given faults first, boots it again.
func (s *script) roundTrip(a int, rel int, disk bool, faults int) {
	r := cfg.Rng
	s.do("thr", "rel", a, rel)
	s.do("hib", "", a)
	if !s.w.awake(a) && disk {
		if r.Intn(4) == 0 {
			s.do("ser", []string{"nodir", "isdir", "full", "full"}[r.Intn(4)], a)
		}
		res := s.do("ser", "", a)
		if res.Tag() == "ok" {
			n := len(s.w.files[a])
			if r.Intn(3) == 0 {
				s.do("boot", "", a) // refused: serialized
			}
			if faults > 0 && n <= 600 && r.Intn(16) == 0 {
				// every proper prefix of a small file
				for c := 0; c < n; c++ {
					s.do("deser", "", a, a, c)
				}
			}
			for k := 0; k < faults; k++ {
				switch r.Intn(6) {
				case 0:
					s.do("deser", "", a, a, -2)
				case 1:
					s.do("deser", "", a, a, -3)
				default:
					s.do("deser", "", a, a, r.Intn(n))
				}
			}
			s.do("deser", "", a, a, -1)
		}
	}
	if r.Intn(5) == 0 {
		s.do("hib", "", a) // twice in a row: refused when asleep
	}
	s.do("boot", "", a)
}

func genRandom(s *script) {
	r := cfg.Rng
	nAlloc := 1 + r.Intn(2)
	for i := 1; i < nAlloc; i++ {
		s.do("aclone", "", 0) // a second, independent allocator (clone of the empty one)
	}
	nTrees := 1 + r.Intn(3)
	for i := 0; i < nTrees; i++ {
		s.do("newtree", "", r.Intn(len(s.w.allocs)))
	}
	keyRange := []int{4, 8, 16, 40}[r.Intn(4)]
	rounds := 1 + r.Intn(4)
	for k := 0; k < rounds; k++ {
		s.mutate(3+r.Intn(25), keyRange, r.Intn(30))
		switch r.Intn(8) {
		case 0:
			t := r.Intn(len(s.w.trees))
			s.do("cdeep", "", t, r.Intn(len(s.w.allocs)))
		case 1:
			a := r.Intn(len(s.w.allocs))
			s.do("aclone", "", a)
		case 2:
			for _, t := range s.treesOn(r.Intn(len(s.w.allocs))) {
				s.do("erase", "", t)
			}
		}
		a := r.Intn(len(s.w.allocs))
		rel := []int{absZero, -1, 0, 1}[r.Intn(4)]
		if rel == absZero {
			rel = -s.size(a)
		}
		s.roundTrip(a, rel, r.Intn(2) == 0, r.Intn(3))
	}
}

const absZero = -1000000

// genBoundary: one allocator state (empty, one node, gaps-only, mixed) x every threshold position x
// memory / disk with a cut at every section boundary of the file and around it.
func genBoundary(s *script, shape int, rel int, disk bool) {
	r := cfg.Rng
	s.do("newtree", "", 0)
	s.do("newtree", "", 0)
	switch shape {
	case 0: // empty arena
	case 1: // a single node
		s.do("ins", "", 0, 5, 50)
	case 2: // gaps only: everything deleted again
		for k := 0; k < 3+r.Intn(6); k++ {
			s.do("ins", "", k%2, k, k)
		}
		s.do("erase", "", 0)
		s.do("erase", "", 1)
	case 3: // live nodes and gaps
		n := 4 + r.Intn(20)
		for k := 0; k < n; k++ {
			s.do("ins", "", k%2, r.Intn(30), r.Intn(1000))
		}
		for k := 0; k < n/2; k++ {
			s.do("del", "", k%2, r.Intn(30))
		}
	case 4: // no gaps at all
		n := 2 + r.Intn(12)
		for k := 0; k < n; k++ {
			s.do("ins", "", k%2, k, r.Intn(1000))
		}
	}
	a := 0
	if rel == absZero {
		s.do("thr", "abs", a, 0)
	} else {
		s.do("thr", "rel", a, rel)
	}
	s.do("used", "", a)
	s.do("hib", "", a)
	if !s.w.awake(a) {
		// every use is refused
		s.do("used", "", a)
		s.do("size", "", a)
		s.do("aclone", "", a)
		s.do("rm", "", a, 0)
		s.do("rf", "", a, 0, 1)
		s.do("rf", "", a, 0, 0)
		s.do("ins", "", 0, 77, 1)
		s.do("del", "", 0, 5)
		s.do("hib", "", a)
		if disk {
			s.do("ser", "nodir", a)
			s.do("ser", "full", a)
			s.do("ser", "", a)
			s.do("boot", "", a)
			file := s.w.files[a]
			// section boundaries: after each varint and after each buffer
			cuts := map[int]bool{0: true, 1: true}
			pos := 0
			for sec := 0; sec < 9 && pos < len(file); sec++ {
				// a varint
				v := int(file[pos] & 0x7f)
				for file[pos]&0x80 != 0 {
					pos++
					v = ((v + 1) << 7) + int(file[pos]&0x7f)
				}
				pos++
				cuts[pos] = true
				cuts[pos-1] = true
				if sec >= 2 {
					if v > 0 {
						cuts[pos+1] = true
						cuts[pos+v-1] = true
					}
					pos += v
					cuts[pos] = true
				}
			}
			for k := 0; k < 3; k++ {
				cuts[r.Intn(len(file))] = true
			}
			if len(file) <= 4096 {
				// small files (they all are here): EVERY proper prefix, not only the section boundaries
				for c := 0; c < len(file); c++ {
					cuts[c] = true
				}
			}
			keys := []int{}
			for c := range cuts {
				if c >= 0 && c < len(file) {
					keys = append(keys, c)
				}
			}
			sort.Ints(keys)
			for _, c := range keys {
				s.do("deser", "", a, a, c)
			}
			s.do("deser", "", a, a, -2)
			s.do("deser", "", a, a, -3)
			s.do("deser", "", a, a, -1)
		}
	}
	s.do("boot", "", a)
	s.do("used", "", a)
	// life goes on: mutate and hibernate a second time
	s.mutate(4+r.Intn(8), 30, 10)
	s.roundTrip(a, []int{-1, 0}[r.Intn(2)], disk, 1)
	s.mutate(3, 30, 0)
}

// genClone: Allocator.Clone + CloneShallow, then mutate one side only; every allocator is
// re-observed after every step, so a shared slice or map shows up as a change of the other side.
func genClone(s *script) {
	r := cfg.Rng
	s.do("newtree", "", 0)
	if r.Intn(2) == 0 {
		s.do("newtree", "", 0)
	}
	s.mutate(5+r.Intn(20), 12, 5)
	s.do("thr", "abs", 0, r.Intn(5))
	s.do("aclone", "", 0)
	side := r.Intn(2)
	for k := 0; k < 6+r.Intn(20); k++ {
		ts := s.treesOn(side)
		if len(ts) == 0 {
			break
		}
		t := ts[r.Intn(len(ts))]
		switch r.Intn(10) {
		case 0, 1, 2, 3:
			s.do("ins", "", t, r.Intn(12), r.Intn(1000))
		case 4, 5, 6:
			s.do("del", "", t, r.Intn(12))
		case 7:
			s.do("rm", "", side, 0)
		case 8:
			s.do("erase", "", t)
		case 9:
			s.roundTrip(side, []int{-1, 0}[r.Intn(2)], r.Intn(2) == 0, 0)
		}
		if r.Intn(6) == 0 {
			side = 1 - side
		}
	}
	if r.Intn(2) == 0 {
		s.do("aclone", "", r.Intn(2))
		s.mutate(10, 12, 10)
	}
}

// genMedium: arenas of a few hundred to a few thousand cells with the FINE correspondence (bulk fill / drain
// steps, the model runs on everything).  Sizes straddle the widths of the varints of the file (2^7, and 2^7 gaps),
// 2^8 and 10^3; values incompressible or periodic so that the compressed buffers need 2-byte lengths as well.
func genMedium(s *script, size int, vp string, period int, disk bool) {
	r := cfg.Rng
	kp := []string{"asc", "desc", "rnd"}[r.Intn(3)]
	s.do("newtree", "", 0)
	s.do("newtree", "", 0)
	small := size / 5
	s.do("fill", kp+"."+vp, 0, size-1-small, 0, period, int(r.Int31()))
	s.do("fill", "rnd.rnd", 1, small, 3, 1, int(r.Int31()))
	gaps := r.Intn(3)
	if gaps >= 1 {
		s.do("drain", "", 1, small/3+1, 2)
	}
	if gaps == 2 {
		s.do("drain", "", 0, []int{126, 127, 128, 129, 300}[r.Intn(5)], 2)
	}
	a := 0
	s.do("used", "", a)
	s.do("thr", "rel", a, []int{-1, 0}[r.Intn(2)])
	s.do("hib", "", a)
	if disk && !s.w.awake(a) {
		s.do("ser", "", a)
		s.do("boot", "", a)
		file := s.w.files[a]
		for k := 0; k < 4; k++ {
			s.do("deser", "", a, a, r.Intn(len(file)))
		}
		s.do("deser", "", a, a, len(file)-1)
		s.do("deser", "", a, a, -1)
	}
	s.do("boot", "", a)
	s.do("used", "", a)
	// the gaps are re-used (in Go map order), then a second round trip
	s.do("fill", "asc.seq", 1, 40+r.Intn(100), 100000, 1, 0)
	s.do("drain", "", 0, 10, 7)
	s.roundTrip(a, []int{-1, 0}[r.Intn(2)], !disk, 1)
	s.mutate(5, 30, 0)
}

// exhaustive: every sequence of length <= n over a small alphabet of allocator-level operations
// (two raw owners on one allocator).
func exhaustive(n int) {
	alphabet := []op{
		{kind: "rm", args: []int{0, 0}}, {kind: "rm", args: []int{0, 1}},
		{kind: "rf", args: []int{0, 0, 1}}, {kind: "rf", args: []int{0, 0, 2}}, {kind: "rf", args: []int{0, 0, 3}},
		{kind: "rf", args: []int{0, 1, 1}}, {kind: "rf", args: []int{0, 1, 2}}, {kind: "rf", args: []int{0, 1, 3}},
		{kind: "rf", args: []int{0, 0, 0}},
		{kind: "hib", args: []int{0}}, {kind: "boot", args: []int{0}},
		{kind: "thr", args: []int{0, 3}, mode: "abs"},
	}
	var rec func(prefix []op, depth int)
	rec = func(prefix []op, depth int) {
		if len(prefix) > 0 {
			s := newScript()
			for _, o := range prefix {
				s.do(o.kind, o.mode, o.args...)
			}
			s.emit("exhaustive")
		}
		if depth == 0 {
			return
		}
		for _, o := range alphabet {
			rec(append(prefix[:len(prefix):len(prefix)], o), depth-1)
		}
	}
	rec(nil, n)
}

func main() {
	cfg = Setup()
	defer cfg.Close()
	wd, _ := os.Getwd()
	caseDir = filepath.Join(wd, fmt.Sprintf("c06-tmp-%d", os.Getpid()))
	defer os.RemoveAll(caseDir)

	if cfg.Replay != "" {
		for _, cs := range cfg.ReplayCases() {
			kind := "replay"
			if k, ok := cs.Field("kind"); ok && len(k.Args()) > 0 {
				kind = k.Args()[0].Atom
			}
			f, _ := cs.Field("ops")
			var ops []op
			for _, x := range f.Args() {
				ops = append(ops, parseOp(x))
			}
			if len(ops) > 0 && isBigOp(ops[0].kind) {
				runBig(kind, ops, 900*time.Second)
				continue
			}
			guarded(kind, func(s *script) {
				for _, o := range ops {
					s.do(o.kind, o.mode, o.args...)
				}
			})
		}
		return
	}

	genScale()
	msizes := append(straddle(1<<7, 1<<8), 300, 1000)
	if cfg.Tier == "thorough" {
		msizes = append(msizes, straddle(1<<9, 1<<10, 1<<11)...)
		msizes = append(msizes, 3000)
	}
	for i, size := range msizes {
		for j, vp := range []string{"rnd", "per", "seq", "const"} {
			guarded("medium", func(s *script) { genMedium(s, size, vp, []int{16, 33, 64, 127}[(i+j)%4], (i+j)%2 == 0) })
		}
	}
	if cfg.Tier == "thorough" {
		exhaustive(5)
	} else {
		exhaustive(4) // quick, and the search after a correspondence break (which varies the seed of the random streams)
	}
	for shape := 0; shape <= 4; shape++ {
		for _, rel := range []int{absZero, -1, 0, 1} {
			for _, disk := range []bool{false, true} {
				reps := cfg.Count(6, 30)
				for k := 0; k < reps; k++ {
					guarded("boundary", func(s *script) { genBoundary(s, shape, rel, disk) })
				}
			}
		}
	}
	for k, n := 0, cfg.Count(1500, 8000); k < n; k++ {
		guarded("clone", genClone)
	}
	for k, n := 0, cfg.Count(3000, 15000); k < n; k++ {
		guarded("random", genRandom)
	}
}
