(* C09 - hibernation never changes results and its I/O failures surface as errors.
   Only statements closed by [exact] and their assumptions.

   [run o cfg io adv p fs0] is the model of Pipeline.Run on the plan p (Hibernation/Model.v):
   o    the abstract analysis item (BurndownAnalysis seen through size / compress / decompress /
        strip / encode / decode / consume / clone / merge / finalize),
   cfg  HibernationThreshold and HibernationToDisk,
   io   the oracle that names every temp file and decides which I/O operation fails,
   adv  the adversary: files removed or truncated before every plan step,
   fs0  the content of the hibernation directory before the run.
   The first three hypotheses of every theorem are what C06 proves of the allocator
   (C06_boot_hibernate, C06_file_roundtrip, C06_truncated); the hypotheses on [io_name] say that
   ioutil.TempFile never hands out a name twice nor the name of an existing file.
   [lifecycle_ok_h p] is the branch lifecycle predicate that C04 proves of insertHibernateBoot. *)
From Coq Require Import List ZArith Bool NArith.
From Herc Require Import Hibernation.Model Hibernation.Inv Hibernation.Erasure Hibernation.Theorems
     Hibernation.Faults Hibernation.Surface Hibernation.Example.
Import ListNotations.
Open Scope Z_scope.

(* Every plan with well-placed Hibernate / Boot actions, every threshold, memory or disk: when all
   I/O succeeds and nobody touches the files, the run gives exactly what the plan without the
   Hibernate / Boot actions gives (the same result, the same error, the same panic). *)
Theorem C09_erasure :
  forall (S H K R byte : Type) (o : ops S H K R byte),
    (forall s, size o s <> 0 -> decompress o (compress o s) = s) ->
    (forall h, decode o (strip o h) (encode o h) = Some h) ->
    (forall h j, (j < length (encode o h))%nat -> decode o (strip o h) (firstn j (encode o h)) = None) ->
  forall (cfg : config) (io : nat -> io_choice) (adv : nat -> list tamper) (fs0 : list (N * list byte)),
    (forall i j, io_name (io i) = io_name (io j) -> i = j) ->
    (forall i, fs_mem (io_name (io i)) fs0 = false) ->
  forall (cfg0 : config) (io0 : nat -> io_choice) (adv0 : nat -> list tamper)
         (p : list action) (fs00 : list (N * list byte)),
    (forall i, io_result (io i) = IoOk) -> (forall i, adv i = []) ->
    lifecycle_ok_h p = true ->
    outcome (run o cfg io adv p fs0) = outcome (run o cfg0 io0 adv0 (erase_hb p) fs00).
Proof. exact @erasure. Qed.
Print Assumptions C09_erasure.

(* After a successful run - whatever failed or was tampered with on the way - every file in the
   directory was there before the run: no temporary hibernation file remains. *)
Theorem C09_no_leftover :
  forall (S H K R byte : Type) (o : ops S H K R byte),
    (forall s, size o s <> 0 -> decompress o (compress o s) = s) ->
    (forall h, decode o (strip o h) (encode o h) = Some h) ->
    (forall h j, (j < length (encode o h))%nat -> decode o (strip o h) (firstn j (encode o h)) = None) ->
  forall (cfg : config) (io : nat -> io_choice) (adv : nat -> list tamper) (fs0 : list (N * list byte)),
    (forall i j, io_name (io i) = io_name (io j) -> i = j) ->
    (forall i, fs_mem (io_name (io i)) fs0 = false) ->
  forall (cfg0 : config) (io0 : nat -> io_choice) (adv0 : nat -> list tamper) (p : list action) (r : option R),
    lifecycle_ok_h p = true ->
    outcome (run o cfg io adv p fs0) = Ok r ->
    forall n, fs_mem n (files_left (run o cfg io adv p fs0)) = true -> fs_mem n fs0 = true.
Proof. exact @no_leftover. Qed.
Print Assumptions C09_no_leftover.

Theorem C09_no_leftover_empty_directory :
  forall (S H K R byte : Type) (o : ops S H K R byte),
    (forall s, size o s <> 0 -> decompress o (compress o s) = s) ->
    (forall h, decode o (strip o h) (encode o h) = Some h) ->
    (forall h j, (j < length (encode o h))%nat -> decode o (strip o h) (firstn j (encode o h)) = None) ->
  forall (cfg : config) (io : nat -> io_choice) (adv : nat -> list tamper),
    (forall i j, io_name (io i) = io_name (io j) -> i = j) ->
  forall (p : list action) (r : option R),
    lifecycle_ok_h p = true ->
    outcome (run o cfg io adv p []) = Ok r ->
    files_left (run o cfg io adv p []) = [].
Proof. exact @no_leftover_empty. Qed.
Print Assumptions C09_no_leftover_empty_directory.

(* Under ANY sequence of I/O failures (create, close, write, open, read, remove - decided by the
   oracle) and ANY removal / truncation of files by the adversary, the run either behaves exactly
   like the plan without hibernation or returns an I/O error; it never returns another result. *)
Theorem C09_faults :
  forall (S H K R byte : Type) (o : ops S H K R byte),
    (forall s, size o s <> 0 -> decompress o (compress o s) = s) ->
    (forall h, decode o (strip o h) (encode o h) = Some h) ->
    (forall h j, (j < length (encode o h))%nat -> decode o (strip o h) (firstn j (encode o h)) = None) ->
  forall (cfg : config) (io : nat -> io_choice) (adv : nat -> list tamper) (fs0 : list (N * list byte)),
    (forall i j, io_name (io i) = io_name (io j) -> i = j) ->
    (forall i, fs_mem (io_name (io i)) fs0 = false) ->
  forall (cfg0 : config) (io0 : nat -> io_choice) (adv0 : nat -> list tamper)
         (p : list action) (fs00 : list (N * list byte)),
    lifecycle_ok_h p = true ->
    outcome (run o cfg io adv p fs0) = outcome (run o cfg0 io0 adv0 (erase_hb p) fs00) \/
    exists e, outcome (run o cfg io adv p fs0) = Err e /\ io_err e = true.
Proof. exact @faults_dichotomy. Qed.
Print Assumptions C09_faults.

Theorem C09_faults_never_another_result :
  forall (S H K R byte : Type) (o : ops S H K R byte),
    (forall s, size o s <> 0 -> decompress o (compress o s) = s) ->
    (forall h, decode o (strip o h) (encode o h) = Some h) ->
    (forall h j, (j < length (encode o h))%nat -> decode o (strip o h) (firstn j (encode o h)) = None) ->
  forall (cfg : config) (io : nat -> io_choice) (adv : nat -> list tamper) (fs0 : list (N * list byte)),
    (forall i j, io_name (io i) = io_name (io j) -> i = j) ->
    (forall i, fs_mem (io_name (io i)) fs0 = false) ->
  forall (cfg0 : config) (io0 : nat -> io_choice) (adv0 : nat -> list tamper)
         (p : list action) (fs00 : list (N * list byte)) (r : option R),
    lifecycle_ok_h p = true ->
    outcome (run o cfg io adv p fs0) = Ok r ->
    outcome (run o cfg0 io0 adv0 (erase_hb p) fs00) = Ok r.
Proof. exact @never_another_result. Qed.
Print Assumptions C09_faults_never_another_result.

(* A failing create / close / write / open / read / remove surfaces: a run that ends Ok performed
   successful I/O operations only (every plan, no hypothesis at all). *)
Theorem C09_faults_io_failure_surfaces :
  forall (S H K R byte : Type) (o : ops S H K R byte)
         (cfg : config) (io : nat -> io_choice) (adv : nat -> list tamper)
         (p : list action) (fs0 : list (N * list byte)) (r : option R),
    fst (run o cfg io adv p fs0) = Ok r ->
    forall i, (i < nio (snd (run o cfg io adv p fs0)))%nat -> io_result (io i) = IoOk.
Proof. exact @run_io_ok. Qed.
Print Assumptions C09_faults_io_failure_surfaces.

(* A missing or truncated file surfaces at Boot.  The truncations that are detected are exactly the
   truncations to a PROPER PREFIX of what Hibernate wrote (C06_truncated for the real format);
   replacing bytes or appending is not a truncation and is not detected by the format. *)
Theorem C09_faults_boot_of_damaged_file :
  forall (S H K R byte : Type) (o : ops S H K R byte),
    (forall h j, (j < length (encode o h))%nat -> decode o (strip o h) (firstn j (encode o h)) = None) ->
  forall (io : nat -> io_choice) (b : Z) (st : rstate) (h : H) (n : N),
    (fs_get n (fs st) = None \/
     exists j, (j < length (encode o h))%nat /\ fs_get n (fs st) = Some (firstn j (encode o h))) ->
    exists e, fst (boot_item o io b st (HibDisk (strip o h) n)) = Err e /\ (e = EOpen \/ e = ERead).
Proof. exact @boot_damaged. Qed.
Print Assumptions C09_faults_boot_of_damaged_file.

(* ... and at the level of the run: if, after the adversary's move before step n, the temp file of
   some hibernated branch is missing or a proper prefix, the run does not end Ok. *)
Theorem C09_faults_damaged_file_surfaces :
  forall (S H K R byte : Type) (o : ops S H K R byte),
    (forall s, size o s <> 0 -> decompress o (compress o s) = s) ->
    (forall h, decode o (strip o h) (encode o h) = Some h) ->
    (forall h j, (j < length (encode o h))%nat -> decode o (strip o h) (firstn j (encode o h)) = None) ->
  forall (cfg : config) (io : nat -> io_choice) (adv : nat -> list tamper) (fs0 : list (N * list byte)),
    (forall i j, io_name (io i) = io_name (io j) -> i = j) ->
    (forall i, fs_mem (io_name (io i)) fs0 = false) ->
  forall (p : list action) (n : nat) (done rest : list action) (st : rstate),
    lifecycle_ok_h p = true ->
    exec_n o cfg io adv n [] p (start fs0) = Some (done, rest, st) ->
    (exists b k m h, tget b (br st) = Some (HibDisk k m) /\ strip o h = k /\
                     damaged o (apply_tampers (fs st) (adv n)) m h) ->
    forall r, outcome (run o cfg io adv p fs0) <> Ok r.
Proof. exact @damaged_file_surfaces. Qed.
Print Assumptions C09_faults_damaged_file_surfaces.

(* ---------------------------------------------------------------------------------------- *)
(* Non-vacuity: a concrete item satisfies the three assumptions, a plan of the shape the planner
   produces satisfies the lifecycle predicate, and the runs behave as the theorems say. *)

Example C09_assumptions_satisfiable :
  (forall s, size ex_ops s <> 0 -> decompress ex_ops (compress ex_ops s) = s) /\
  (forall h, decode ex_ops (strip ex_ops h) (encode ex_ops h) = Some h) /\
  (forall h j, (j < length (encode ex_ops h))%nat ->
               decode ex_ops (strip ex_ops h) (firstn j (encode ex_ops h)) = None) /\
  (forall i j, io_name (ex_io i) = io_name (ex_io j) -> i = j) /\
  lifecycle_ok_h ex_plan = true.
Proof.
  exact (conj ex_boot_hibernate (conj ex_file_roundtrip (conj ex_truncation_detected (conj ex_names_inj eq_refl)))).
Qed.

(* on disk: two temp files are written, read back and removed; same result as without hibernation *)
Example C09_erasure_example :
  let x := run ex_ops on_disk ex_io no_adv ex_plan [] in
  rev (evs (snd x)) = [EvHibDisk 1 4 1 5; EvBootDisk 1 1; EvHibDisk 2 10 3 11; EvBootDisk 2 3] /\
  files_left x = [] /\
  outcome x = outcome (run ex_ops in_memory ex_io no_adv (erase_hb ex_plan) []) /\
  exists r, outcome x = Ok (Some r).
Proof. vm_compute. repeat split. eexists. reflexivity. Qed.

(* threshold above the arena size with disk on - the situation of defect F6: nothing is written *)
Example C09_threshold_above_arena_example :
  let x := run ex_ops above_arena ex_io no_adv ex_plan [] in
  rev (evs (snd x)) = [EvHibStay 1 4; EvBootNop 1; EvHibStay 2 10; EvBootNop 2] /\
  files_left x = [] /\
  outcome x = outcome (run ex_ops in_memory ex_io no_adv (erase_hb ex_plan) []).
Proof. vm_compute. repeat split. Qed.

(* faults: file removed / truncated between Hibernate and Boot, create fails, remove fails *)
Example C09_faults_examples :
  outcome (run ex_ops on_disk ex_io (adv_at 5 [TRemove 1%N]) ex_plan []) = Err EOpen /\
  outcome (run ex_ops on_disk ex_io (adv_at 5 [TTrunc 1%N 3]) ex_plan []) = Err ERead /\
  outcome (run ex_ops on_disk ex_io (adv_at 5 [TTrunc 1%N 0]) ex_plan []) = Err ERead /\
  outcome (run ex_ops on_disk (ex_io_fail 0 0) no_adv ex_plan []) = Err ECreate /\
  outcome (run ex_ops on_disk (ex_io_fail 0 5) no_adv ex_plan []) = Err EWrite /\
  outcome (run ex_ops on_disk (ex_io_fail 1 1) no_adv ex_plan []) = Err ERead /\
  outcome (run ex_ops on_disk (ex_io_fail 1 2) no_adv ex_plan []) = Err ERemove.
Proof. vm_compute. repeat split. Qed.

(* the lifecycle hypothesis is needed: a Commit on a sleeping branch panics *)
Example C09_ill_placed_example :
  lifecycle_ok_h [AEmerge 1; ACommit 1 0; AHibernate 1 []; ACommit 1 1] = false /\
  outcome (run ex_ops on_disk ex_io no_adv [AEmerge 1; ACommit 1 0; AHibernate 1 []; ACommit 1 1] []) = Panic PUseHibernated.
Proof. vm_compute. split; reflexivity. Qed.

(* ==== composition ==== *)
(* The hypotheses of the theorems above discharged inside Coq (coq/theories/Compose/PlanHib.v, AllocItem.v,
   HibComposed.v):
   - [lifecycle_ok_h p = true] for p = [fwd_plan] (the plan syntax of C04 read in the syntax of this model; Items[0]
     of an action without items reads as branch 0, excluded by C04's wf_action) of every output of C04's model of
     insertHibernateBoot on a lifecycle-sound plan without hibernate/boot actions, and of every plan C04's validator
     [c04_ok] accepts; [erase_hb] commutes with the translation;
   - the three item hypotheses for [alloc_ops]: the item whose hibernation state is the allocator model of C06
     (awake: cells and strictly increasing gap list, both shorter than 2^32; hibernated: the two lengths and the
     seven buffers) plus an arbitrary payload P, with compress / decompress / encode / decode defined by C06's
     hibernate / boot / serialize / deserialize and every other operation arbitrary.
   LZ4 stays a hypothesis, as in C06: [lz4_ok] (same statement) and [lz4_small] only for blocks shorter than 2^32
   words (implied by C06's unbounded lz4_small). *)
From Herc Require Import Compose.PlanHib Compose.AllocItem Compose.HibComposed.
From Herc Require Plan.Syntax Plan.Exec Plan.Lifecycle Plan.Hibernate Plan.HibernateProofs Plan.LifecycleProofs Alloc.Model.
From Coq Require Lia.

Theorem C09_lifecycle_composed : forall (p0 : list Plan.Syntax.action) (d : Z),
  Plan.Lifecycle.lifecycle_ok p0 -> Forall Plan.HibernateProofs.hb_kind p0 ->
  lifecycle_ok_h (fwd_plan (Plan.Hibernate.insert_hb p0 d)) = true /\
  erase_hb (fwd_plan (Plan.Hibernate.insert_hb p0 d)) = fwd_plan p0.
Proof. exact insert_hb_fwd. Qed.
Print Assumptions C09_lifecycle_composed.

Theorem C09_lifecycle_of_validated_plan : forall (g : list (list nat)) (p : list Plan.Syntax.action),
  Plan.Lifecycle.c04_ok g p = true ->
  lifecycle_ok_h (fwd_plan p) = true /\ erase_hb (fwd_plan p) = fwd_plan (Plan.Syntax.erase_hb p).
Proof. exact (fun g p H => conj (c04_ok_fwd g p H) (erase_fwd p)). Qed.
Print Assumptions C09_lifecycle_of_validated_plan.

Theorem C09_item_assumptions_composed :
  forall (lz4c : list N -> list N) (lz4d : list N -> nat -> list N),
    (forall l, l <> [] -> lz4c l <> [] /\ lz4d (lz4c l) (length l) = l) ->
    (forall l, (N.of_nat (length l) < 2 ^ 32)%N -> (N.of_nat (length (lz4c l)) < 2 ^ 63)%N) ->
  forall (P R : Type) (cons : N -> N -> bool -> AllocItem.S P -> result (AllocItem.S P))
         (cl : AllocItem.S P -> AllocItem.S P) (mg : list (AllocItem.S P) -> result (list (AllocItem.S P)))
         (fin : AllocItem.S P -> result R) (ini : AllocItem.S P),
  let o := alloc_ops lz4c lz4d P R cons cl mg fin ini in
  (forall s, size o s <> 0 -> decompress o (compress o s) = s) /\
  (forall h, decode o (strip o h) (encode o h) = Some h) /\
  (forall h j, (j < length (encode o h))%nat -> decode o (strip o h) (firstn j (encode o h)) = None).
Proof. exact (fun c dd H1 H2 P R => alloc_ops_assumptions c dd H1 H2 P R). Qed.
Print Assumptions C09_item_assumptions_composed.

(* Hibernation is transparent: for the allocator-backed item and every plan that insertHibernateBoot (C04's model)
   makes from a lifecycle-sound plan p0, any distance d, any threshold, memory or disk - when all I/O succeeds and
   nobody touches the files the run gives exactly the outcome of p0 without hibernation. *)
Theorem C09_erasure_composed :
  forall (lz4c : list N -> list N) (lz4d : list N -> nat -> list N),
    (forall l, l <> [] -> lz4c l <> [] /\ lz4d (lz4c l) (length l) = l) ->
    (forall l, (N.of_nat (length l) < 2 ^ 32)%N -> (N.of_nat (length (lz4c l)) < 2 ^ 63)%N) ->
  forall (P R : Type) (cons : N -> N -> bool -> AllocItem.S P -> result (AllocItem.S P))
         (cl : AllocItem.S P -> AllocItem.S P) (mg : list (AllocItem.S P) -> result (list (AllocItem.S P)))
         (fin : AllocItem.S P -> result R) (ini : AllocItem.S P)
         (cfg : config) (io : nat -> io_choice) (adv : nat -> list tamper) (fs0 : list (N * list N)),
    (forall i j, io_name (io i) = io_name (io j) -> i = j) ->
    (forall i, fs_mem (io_name (io i)) fs0 = false) ->
  forall (p0 : list Plan.Syntax.action) (d : Z),
    Plan.Lifecycle.lifecycle_ok p0 -> Forall Plan.HibernateProofs.hb_kind p0 ->
  forall (cfg0 : config) (io0 : nat -> io_choice) (adv0 : nat -> list tamper) (fs00 : list (N * list N)),
    (forall i, io_result (io i) = IoOk) -> (forall i, adv i = []) ->
    outcome (run (alloc_ops lz4c lz4d P R cons cl mg fin ini) cfg io adv
                 (fwd_plan (Plan.Hibernate.insert_hb p0 d)) fs0) =
    outcome (run (alloc_ops lz4c lz4d P R cons cl mg fin ini) cfg0 io0 adv0 (fwd_plan p0) fs00).
Proof. exact erasure_composed. Qed.
Print Assumptions C09_erasure_composed.

(* Under ANY I/O failures and ANY removal / truncation of files: the outcome of p0 without hibernation or an I/O
   error, never another result; and a damaged file of a sleeping branch (missing, or a proper prefix of what
   Serialize wrote) never ends in Ok. *)
Theorem C09_faults_composed :
  forall (lz4c : list N -> list N) (lz4d : list N -> nat -> list N),
    (forall l, l <> [] -> lz4c l <> [] /\ lz4d (lz4c l) (length l) = l) ->
    (forall l, (N.of_nat (length l) < 2 ^ 32)%N -> (N.of_nat (length (lz4c l)) < 2 ^ 63)%N) ->
  forall (P R : Type) (cons : N -> N -> bool -> AllocItem.S P -> result (AllocItem.S P))
         (cl : AllocItem.S P -> AllocItem.S P) (mg : list (AllocItem.S P) -> result (list (AllocItem.S P)))
         (fin : AllocItem.S P -> result R) (ini : AllocItem.S P)
         (cfg : config) (io : nat -> io_choice) (adv : nat -> list tamper) (fs0 : list (N * list N)),
    (forall i j, io_name (io i) = io_name (io j) -> i = j) ->
    (forall i, fs_mem (io_name (io i)) fs0 = false) ->
  forall (p0 : list Plan.Syntax.action) (d : Z),
    Plan.Lifecycle.lifecycle_ok p0 -> Forall Plan.HibernateProofs.hb_kind p0 ->
  forall (cfg0 : config) (io0 : nat -> io_choice) (adv0 : nat -> list tamper) (fs00 : list (N * list N)),
    (outcome (run (alloc_ops lz4c lz4d P R cons cl mg fin ini) cfg io adv
                  (fwd_plan (Plan.Hibernate.insert_hb p0 d)) fs0) =
     outcome (run (alloc_ops lz4c lz4d P R cons cl mg fin ini) cfg0 io0 adv0 (fwd_plan p0) fs00) \/
     exists e, outcome (run (alloc_ops lz4c lz4d P R cons cl mg fin ini) cfg io adv
                            (fwd_plan (Plan.Hibernate.insert_hb p0 d)) fs0) = Err e /\ io_err e = true) /\
    (forall r, outcome (run (alloc_ops lz4c lz4d P R cons cl mg fin ini) cfg io adv
                            (fwd_plan (Plan.Hibernate.insert_hb p0 d)) fs0) = Ok r ->
               outcome (run (alloc_ops lz4c lz4d P R cons cl mg fin ini) cfg0 io0 adv0 (fwd_plan p0) fs00) = Ok r).
Proof. exact faults_composed. Qed.
Print Assumptions C09_faults_composed.

Theorem C09_faults_damaged_file_composed :
  forall (lz4c : list N -> list N) (lz4d : list N -> nat -> list N),
    (forall l, l <> [] -> lz4c l <> [] /\ lz4d (lz4c l) (length l) = l) ->
    (forall l, (N.of_nat (length l) < 2 ^ 32)%N -> (N.of_nat (length (lz4c l)) < 2 ^ 63)%N) ->
  forall (P R : Type) (cons : N -> N -> bool -> AllocItem.S P -> result (AllocItem.S P))
         (cl : AllocItem.S P -> AllocItem.S P) (mg : list (AllocItem.S P) -> result (list (AllocItem.S P)))
         (fin : AllocItem.S P -> result R) (ini : AllocItem.S P)
         (cfg : config) (io : nat -> io_choice) (adv : nat -> list tamper) (fs0 : list (N * list N)),
    (forall i j, io_name (io i) = io_name (io j) -> i = j) ->
    (forall i, fs_mem (io_name (io i)) fs0 = false) ->
  forall (p0 : list Plan.Syntax.action) (d : Z),
    Plan.Lifecycle.lifecycle_ok p0 -> Forall Plan.HibernateProofs.hb_kind p0 ->
  forall (n : nat) (done rest : list action) (st : rstate),
    exec_n (alloc_ops lz4c lz4d P R cons cl mg fin ini) cfg io adv n []
           (fwd_plan (Plan.Hibernate.insert_hb p0 d)) (start fs0) = Some (done, rest, st) ->
    (exists b k m h, tget b (br st) = Some (HibDisk k m) /\
                     strip (alloc_ops lz4c lz4d P R cons cl mg fin ini) h = k /\
                     damaged (alloc_ops lz4c lz4d P R cons cl mg fin ini) (apply_tampers (fs st) (adv n)) m h) ->
    forall r, outcome (run (alloc_ops lz4c lz4d P R cons cl mg fin ini) cfg io adv
                           (fwd_plan (Plan.Hibernate.insert_hb p0 d)) fs0) <> Ok r.
Proof. exact damaged_file_composed. Qed.
Print Assumptions C09_faults_damaged_file_composed.

Theorem C09_no_leftover_composed :
  forall (lz4c : list N -> list N) (lz4d : list N -> nat -> list N),
    (forall l, l <> [] -> lz4c l <> [] /\ lz4d (lz4c l) (length l) = l) ->
    (forall l, (N.of_nat (length l) < 2 ^ 32)%N -> (N.of_nat (length (lz4c l)) < 2 ^ 63)%N) ->
  forall (P R : Type) (cons : N -> N -> bool -> AllocItem.S P -> result (AllocItem.S P))
         (cl : AllocItem.S P -> AllocItem.S P) (mg : list (AllocItem.S P) -> result (list (AllocItem.S P)))
         (fin : AllocItem.S P -> result R) (ini : AllocItem.S P)
         (cfg : config) (io : nat -> io_choice) (adv : nat -> list tamper) (fs0 : list (N * list N)),
    (forall i j, io_name (io i) = io_name (io j) -> i = j) ->
    (forall i, fs_mem (io_name (io i)) fs0 = false) ->
  forall (p0 : list Plan.Syntax.action) (d : Z),
    Plan.Lifecycle.lifecycle_ok p0 -> Forall Plan.HibernateProofs.hb_kind p0 ->
  forall r : option R,
    outcome (run (alloc_ops lz4c lz4d P R cons cl mg fin ini) cfg io adv
                 (fwd_plan (Plan.Hibernate.insert_hb p0 d)) fs0) = Ok r ->
    forall n, fs_mem n (files_left (run (alloc_ops lz4c lz4d P R cons cl mg fin ini) cfg io adv
                                        (fwd_plan (Plan.Hibernate.insert_hb p0 d)) fs0)) = true ->
              fs_mem n fs0 = true.
Proof. exact no_leftover_composed. Qed.
Print Assumptions C09_no_leftover_composed.

(* ---- non-vacuity of the composed statements ------------------------------------------------------ *)
(* a toy codec satisfies the two LZ4 hypotheses *)
Definition cx_lz4c (l : list N) : list N := 255%N :: l.
Definition cx_lz4d (dd : list N) (n : nat) : list N := firstn n (tl dd).
Example C09_composed_codec :
  (forall l, l <> [] -> cx_lz4c l <> [] /\ cx_lz4d (cx_lz4c l) (length l) = l) /\
  (forall l, (N.of_nat (length l) < 2 ^ 32)%N -> (N.of_nat (length (cx_lz4c l)) < 2 ^ 63)%N).
Proof.
  split.
  - intros l _. split; [discriminate|]. exact (firstn_all l).
  - intros l H. unfold cx_lz4c. cbn [length]. rewrite Nat2N.inj_succ.
    change (2 ^ 32)%N with 4294967296%N in H. change (2 ^ 63)%N with 9223372036854775808%N. Lia.lia.
Qed.

(* the plan: C04's garbage-collected diamond (coq/props/C04.v [diamond_gc]) with hibernation distance 0 *)
Definition cx_p0 : list Plan.Syntax.action :=
  [Plan.Syntax.emerge 1 (Some 0%nat); Plan.Syntax.commit_on 0 1;
   Plan.Syntax.mkA Plan.Syntax.KFork (Some 0%nat) [1; 2]; Plan.Syntax.commit_on 1 1; Plan.Syntax.commit_on 2 2;
   Plan.Syntax.commit_on 3 1; Plan.Syntax.commit_on 3 2; Plan.Syntax.merge_of [1; 2]; Plan.Syntax.delete 2;
   Plan.Syntax.commit_on 4 1].
Example C09_composed_plan :
  Plan.Lifecycle.lifecycle_ok cx_p0 /\ Forall Plan.HibernateProofs.hb_kind cx_p0 /\
  lifecycle_ok_h (fwd_plan (Plan.Hibernate.insert_hb cx_p0 0)) = true /\
  length (fwd_plan (Plan.Hibernate.insert_hb cx_p0 0)) = 20%nat /\
  erase_hb (fwd_plan (Plan.Hibernate.insert_hb cx_p0 0)) = fwd_plan cx_p0.
Proof.
  split; [apply Plan.LifecycleProofs.lifecycleb_sound; vm_compute; reflexivity|].
  split; [apply Plan.HibernateProofs.hb_inputb_spec; vm_compute; reflexivity|].
  vm_compute. repeat split.
Qed.

(* an allocator-backed item: every commit appends a cell to the arena and is logged in the payload *)
Definition cx_cons (c idx : N) (m : bool) (s : AllocItem.S (list N)) : result (AllocItem.S (list N)) :=
  Ok (pack av_ok adummy (mkAV (av_cells (proj1_sig (fst s)) ++ [Alloc.Model.mkcell c idx 0 0 0 m]) (av_gaps (proj1_sig (fst s)))),
      c :: snd s).
Definition cx_fin (s : AllocItem.S (list N)) : result (nat * list N) :=
  Ok (length (av_cells (proj1_sig (fst s))), snd s).
Definition cx_ops : ops (AllocItem.S (list N)) (AllocItem.H (list N)) (AllocItem.K (list N)) (nat * list N) N :=
  alloc_ops cx_lz4c cx_lz4d (list N) (nat * list N) cx_cons (fun s => s) (fun ss => Ok ss) cx_fin (adummy, []).

(* on disk, threshold 0: every Hibernate writes the arena through C06's serialize, every Boot reads it back
   through deserialize and boot; the result is the one of the plan without hibernation, no file is left *)
Example C09_composed_run :
  let x := run cx_ops on_disk ex_io no_adv (fwd_plan (Plan.Hibernate.insert_hb cx_p0 0)) [] in
  outcome x = outcome (run cx_ops in_memory ex_io no_adv (fwd_plan cx_p0) []) /\
  outcome x = Ok (Some (4%nat, [4; 3; 1; 0]%N)) /\
  files_left x = [] /\
  length (filter (fun e => match e with EvHibDisk _ _ _ _ => true | _ => false end) (evs (snd x))) = 5%nat /\
  length (filter (fun e => match e with EvBootDisk _ _ => true | _ => false end) (evs (snd x))) = 5%nat.
Proof. vm_compute. repeat split. Qed.

(* a file truncated while its branch sleeps: the run returns the read error *)
Example C09_composed_fault :
  exists k, outcome (run cx_ops on_disk ex_io (adv_at k [TTrunc 1%N 5]) (fwd_plan (Plan.Hibernate.insert_hb cx_p0 0)) [])
            = Err ERead.
Proof. exists 4%nat. vm_compute. reflexivity. Qed.

(* the two planner stages of C04 composed: for every plan as generatePlan emits them ([pre_ok]: lifecycle-sound, only
   commit / fork / merge / emerge, branch ids >= 1) the model of collectGarbage followed by insertHibernateBoot gives a
   plan that satisfies this model's predicate and erases to the garbage-collected plan *)
From Herc Require Plan.GC Plan.GCProofs.
Theorem C09_lifecycle_gc_then_hib_composed : forall (p : list Plan.Syntax.action) (d : Z), Plan.GCProofs.pre_ok p ->
  exists p', Plan.GC.collect_garbage p = Some p' /\
    lifecycle_ok_h (fwd_plan (Plan.Hibernate.insert_hb p' d)) = true /\
    erase_hb (fwd_plan (Plan.Hibernate.insert_hb p' d)) = fwd_plan p' /\
    Plan.Syntax.erase_deletes p' = p.
Proof. exact gc_then_hib_fwd. Qed.
Print Assumptions C09_lifecycle_gc_then_hib_composed.
