(* Oracle for the linear clause of C01: on a linear history with arbitrary edits the row sums of the
   project matrix equal the number of text lines alive at the sample and no cell is negative.
   A step is (tick, files); a file is its byte string.  count_lines mirrors CachedBlob.CountLines
   (internal/plumbing/blob_cache.go): empty = 0 lines, a zero byte among the first 8000 = binary (not
   tracked, 0 lines), else the number of '\n' plus one when the last byte is not '\n'.  Definitions only. *)
From Coq Require Import List ZArith Lia Bool.
From Herc Require Import Burndown.Base.
Import ListNotations.
Open Scope Z_scope.

Definition is_binary (data : list Z) : bool := existsb (Z.eqb 0) (firstn 8000 data).
Definition count_lines (data : list Z) : Z :=
  match data with
  | [] => 0
  | _ => if is_binary data then 0
         else count (Z.eqb 10) data + (if last data 10 =? 10 then 0 else 1)
  end.
Definition step_lines (files : list (list Z)) : Z := sum_z (map count_lines files).

Notation lstep := (Z * list (list Z))%type (only parsing).

(* text lines after the last step whose tick is <= e *)
Fixpoint lines_at (steps : list (Z * list (list Z))) (e : Z) (cur : Z) : Z :=
  match steps with
  | [] => cur
  | (t, files) :: r => if t <=? e then lines_at r e (step_lines files) else cur
  end.

Definition last_step_tick (steps : list (Z * list (list Z))) : Z :=
  fold_left (fun m s => Z.max m (fst s)) steps 0.

Definition has_text (steps : list (Z * list (list Z))) : bool :=
  existsb (fun s => 0 <? step_lines (snd s)) steps.

(* M: the project matrix returned by the implementation *)
Definition linear_rows_ok (steps : list (Z * list (list Z))) (S : Z) (M : list (list Z)) : bool :=
  let R := Z.of_nat (length M) in
  forallb (fun sr => sum_z (snd sr) =? lines_at steps ((fst sr + 1) * S - 1) 0)
          (combine (zrange R) M) &&
  (* nothing changes the number of lines after the last row *)
  forallb (fun s => (s <? R) || (lines_at steps ((s + 1) * S - 1) 0 =? lines_at steps (R * S - 1) 0))
          (zrange (last_step_tick steps / S + 1)) .
Definition nonneg_matrix (M : list (list Z)) : bool := forallb (forallb (fun v => 0 <=? v)) M.
