(* C09 - the statements of coq/props/C09.v in the form used there. *)
From Coq Require Import List ZArith Bool NArith Lia.
From Herc Require Import Hibernation.Model Hibernation.Tables Hibernation.Inv Hibernation.Sim Hibernation.Erasure.
Import ListNotations.
Open Scope Z_scope.

Section Theorems.
  Context {S H K R byte : Type}.
  Variable o : ops S H K R byte.
  Notation fsys := (list (N * list byte)).
  Notation rst := (@rstate S H K byte).

  (* established by C06 for the allocator and its file format *)
  Hypothesis boot_hibernate : forall s, size o s <> 0 -> decompress o (compress o s) = s.
  Hypothesis file_roundtrip : forall h, decode o (strip o h) (encode o h) = Some h.
  Hypothesis truncation_detected : forall h j,
      (j < length (encode o h))%nat -> decode o (strip o h) (firstn j (encode o h)) = None.

  Variable cfg : config.
  Variable io : nat -> io_choice.
  Variable adv : nat -> list (@tamper).
  Variable fs0 : fsys.
  Hypothesis names_inj : forall i j, io_name (io i) = io_name (io j) -> i = j.
  Hypothesis names_new : forall i, fs_mem (io_name (io i)) fs0 = false.
  Variable cfg0 : config.
  Variable io0 : nat -> io_choice.
  Variable adv0 : nat -> list (@tamper).

  Theorem erasure : forall p fs00,
      (forall i, io_result (io i) = IoOk) -> (forall i, adv i = []) ->
      lifecycle_ok_h p = true ->
      outcome (run o cfg io adv p fs0) = outcome (run o cfg0 io0 adv0 (erase_hb p) fs00).
  Proof.
    intros p fs00 Hio Hadv Hlc.
    destruct (run_sim o boot_hibernate file_roundtrip truncation_detected cfg io adv fs0 names_inj names_new
                      cfg0 io0 adv0 true (fun _ => Hio) (fun _ => Hadv) p fs00 Hlc) as [E|[E _]].
    - exact E.
    - discriminate.
  Qed.

  Theorem faults_dichotomy : forall p fs00,
      lifecycle_ok_h p = true ->
      outcome (run o cfg io adv p fs0) = outcome (run o cfg0 io0 adv0 (erase_hb p) fs00) \/
      exists e, outcome (run o cfg io adv p fs0) = Err e /\ io_err e = true.
  Proof.
    intros p fs00 Hlc.
    destruct (run_sim o boot_hibernate file_roundtrip truncation_detected cfg io adv fs0 names_inj names_new
                      cfg0 io0 adv0 false (fun E => ltac:(discriminate)) (fun E => ltac:(discriminate)) p fs00 Hlc)
      as [E|[_ E]]; auto.
  Qed.

  Corollary never_another_result : forall p fs00 r,
      lifecycle_ok_h p = true ->
      outcome (run o cfg io adv p fs0) = Ok r ->
      outcome (run o cfg0 io0 adv0 (erase_hb p) fs00) = Ok r.
  Proof.
    intros p fs00 r Hlc Hr. destruct (faults_dichotomy p fs00 Hlc) as [E|(e & E & _)].
    - now rewrite <- E.
    - rewrite Hr in E. discriminate.
  Qed.

  Theorem no_leftover : forall p r,
      lifecycle_ok_h p = true ->
      outcome (run o cfg io adv p fs0) = Ok r ->
      forall n, fs_mem n (files_left (run o cfg io adv p fs0)) = true -> fs_mem n fs0 = true.
  Proof.
    intros p r Hlc Hr.
    exact (run_no_leftover o boot_hibernate file_roundtrip truncation_detected cfg io adv fs0 names_inj names_new
                           cfg0 io0 adv0 false (fun E => ltac:(discriminate)) (fun E => ltac:(discriminate)) p r Hlc Hr).
  Qed.
End Theorems.

Lemma no_file_is_empty : forall {byte} (f : list (N * list byte)),
    (forall n, fs_mem n f = true -> False) -> f = [].
Proof.
  intros byte [|[m bs] f] Hn; [reflexivity|]. exfalso. apply (Hn m).
  unfold fs_mem. cbn. now rewrite N.eqb_refl.
Qed.

Section EmptyDir.
  Context {S H K R byte : Type}.
  Variable o : ops S H K R byte.
  Hypothesis boot_hibernate : forall s, size o s <> 0 -> decompress o (compress o s) = s.
  Hypothesis file_roundtrip : forall h, decode o (strip o h) (encode o h) = Some h.
  Hypothesis truncation_detected : forall h j,
      (j < length (encode o h))%nat -> decode o (strip o h) (firstn j (encode o h)) = None.
  Variable cfg : config.
  Variable io : nat -> io_choice.
  Variable adv : nat -> list (@tamper).
  Hypothesis names_inj : forall i j, io_name (io i) = io_name (io j) -> i = j.

  (* started on an empty directory, a successful run leaves an empty directory *)
  Theorem no_leftover_empty : forall p r,
      lifecycle_ok_h p = true ->
      outcome (run o cfg io adv p []) = Ok r ->
      files_left (run o cfg io adv p []) = [].
  Proof.
    intros p r Hlc Hr. apply no_file_is_empty. intros n Hn.
    assert (Hx : fs_mem n (@nil (N * list byte)) = true).
    { eapply (no_leftover o boot_hibernate file_roundtrip truncation_detected cfg io adv [] names_inj
                          (fun _ => eq_refl) cfg io adv); eauto. }
    discriminate.
  Qed.
End EmptyDir.
