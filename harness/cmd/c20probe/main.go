package main

import (
	"fmt"
	"os"
	"strings"

	"github.com/src-d/enry/v2"
)

func main() {
	// reads files named on the command line: name<TAB>content pairs are produced by the harness debug; here: simple determinism probe
	data, _ := os.ReadFile(os.Args[1])
	for _, rec := range strings.Split(string(data), "\x00\x00") {
		i := strings.Index(rec, "\x01")
		if i < 0 {
			continue
		}
		name, content := rec[:i], rec[i+1:]
		if len(content) > 1024 {
			content = content[:1024]
		}
		seen := map[string]int{}
		for k := 0; k < 40; k++ {
			seen[enry.GetLanguage(name, []byte(content))]++
		}
		if len(seen) > 1 {
			fmt.Println("NONDETERMINISTIC", name, len(content), seen)
		}
	}
	fmt.Println("done")
}
