(* StepProofs.v / CommitProofs.v for a view: what the replay of one commit books in the history of one file or
   of one developer.  The structural facts (which lines the files hold afterwards) are those of path_step /
   consume_good; here only the additive equation of the view is derived, from the handle invariant
   (FrameFacts.v: every file carries the handle its path has in fileHistories). *)
From Coq Require Import List ZArith Lia Bool.
From Herc Require Import Burndown.Base Burndown.Dense Burndown.Lifetimes Burndown.LifetimesFacts Burndown.AncFacts
  Burndown.Analysis Burndown.SparseFacts Burndown.AnalysisFacts Burndown.Replay Burndown.HunkProofs
  Burndown.LinearProofs Burndown.StepProofs Burndown.CommitProofs Burndown.MergeProofs Burndown.FrameFacts Burndown.ViewFacts.
Import ListNotations.
Open Scope Z_scope.

(* a view with the filter resolved per path: a report about a file of path p whose previous value is v is booked
   iff [v_kp p v] *)
Record view (cf : cfg) := mkView {
  v_proj : shared -> list (Z * list (Z * Z));
  v_flt : shared -> option Z -> Z -> bool;
  v_kp : Z -> Z -> bool;
  v_law : view_law cf v_proj v_flt;
  v_create : forall s p, NI s -> c_files cf = true -> aget (s_names s) p = None -> v_proj (create s p) = v_proj s;
  v_dels : forall s x, v_proj (with_dels s x) = v_proj s;
  v_link : forall s p hd v, NI s -> hd = (if c_files cf then aget (s_names s) p else None) ->
             (c_files cf = true -> aget (s_names s) p <> None) -> v_flt s hd v = v_kp p v
}.
Arguments v_proj {cf}. Arguments v_flt {cf}. Arguments v_kp {cf}. Arguments v_law {cf}.
Arguments v_create {cf}. Arguments v_dels {cf}. Arguments v_link {cf}.

Lemma change_of_path_no_delete A last c p seq :
  (old_exists A last seq = true -> path_exists A c seq = true) -> no_delete (change_of_path A last c p seq).
Proof.
  intros Hm ch Hin. unfold change_of_path in Hin.
  destruct (old_exists A last seq) eqn:Eo, (path_exists A c seq) eqn:En.
  - destruct (forallb _ seq); [destruct Hin|]. destruct Hin as [<-|[]]. exact I.
  - specialize (Hm eq_refl). discriminate.
  - destruct Hin as [<-|[]]. exact I.
  - destruct Hin.
Qed.

Lemma changes_of_no_delete h A last c :
  (forall pl, In pl (h_paths h) -> old_exists A last (snd pl) = true -> path_exists A c (snd pl) = true) ->
  no_delete (changes_of h A last c).
Proof.
  intros Hm. unfold changes_of. induction (h_paths h) as [|pl l IH]; [intros ch []|].
  cbn [flat_map]. apply no_delete_app.
  - apply change_of_path_no_delete. apply Hm. left; reflexivity.
  - apply IH. intros pl' Hin. apply Hm. right; exact Hin.
Qed.

Section VPath.
  Variable cf : cfg.
  Variable vw : view cf.
  Notation V := (v_proj vw).
  Notation kp := (v_kp vw).
  Notation vfeff := (feff cf).
  Notation vfeffs := (feffs cf).
  Variable A : list (list bool).
  Variable last : option Z.
  Variable c : Z.
  Notation o := (old_alive A last).
  Notation n := (aliveb A c).
  Variable ov : line -> Z.
  Variable author : Z.

  Lemma path_step_v b s p seq b' s' :
    pgood (old_exists A last seq) o ov (b_files b) p seq ->
    (old_exists A last seq = true -> path_exists A c seq = true) ->
    handle_changes cf author (change_of_path A last c p seq) b s = Ok (b', s') ->
    NI s -> hgood cf s (b_files b) ->
    forall P, wsum P (V s') = wsum P (V s) +
               vfeff P (kp p) (pack cf author (b_tick b)) (pack cf author (b_tick b)) (cntI o n seq) +
               vfeffs P (kp p) (pack cf author (b_tick b)) (deadv o n ov seq).
  Proof.
    set (t := pack cf author (b_tick b)).
    intros Hg Hmono E HNI Hhg. unfold change_of_path in E.
    destruct (old_exists A last seq) eqn:Eold, (path_exists A c seq) eqn:Enew.
    - (* both exist *)
      destruct Hg as [hd Hf]. cbn [pgood] in *.
      destruct (forallb (fun l => match lstatus A last c l with LDel | LIns => false | _ => true end) seq) eqn:Esame.
      + cbn [handle_changes] in E. injection E as <- <-.
        assert (Hon : forall l, In l seq -> o l = n l).
        { intros l Hin. rewrite forallb_forall in Esame. specialize (Esame l Hin). unfold lstatus in Esame.
          destruct (o l), (n l); auto; discriminate. }
        assert (Ec0 : cntI o n seq = 0) by (apply cntI_zero; intros l Hin; rewrite (Hon l Hin); destruct (n l); reflexivity).
        assert (Ed0 : deadv o n ov seq = []) by (apply deadv_nil; intros l Hin; rewrite (Hon l Hin); destruct (n l); reflexivity).
        intros P. rewrite Ec0, Ed0, feff_0, feffs_nil. lia.
      + cbn [handle_changes] in E.
        destruct (handle_modification cf author b s p _ _ _) as [[b1 s1]| |] eqn:E1; try discriminate.
        injection E as <- <-. unfold handle_modification in E1.
        set (b0 := if b_tick b =? mark then with_merged b (aset (b_merged b) p true) else b) in *.
        assert (Hb0 : b_files b0 = b_files b /\ b_tick b0 = b_tick b) by (unfold b0; destruct (b_tick b =? mark); auto).
        destruct Hb0 as [Hb0f Hb0t]. rewrite Hb0f, Hf, Hb0t in E1.
        set (f0 := mkFile (map ov (filter o seq)) hd) in *. cbn [f_vals] in E1.
        destruct (negb (Z.of_nat (length (f_vals f0)) =? _)); [discriminate|].
        fold t in E1. unfold hunks in E1.
        rewrite hm_flat0 in E1 by (apply hunks3_ok; lia).
        destruct (run_hunks cf t (hunks3 o n seq 0 0 0) 0 f0 s) as [[f2 s2]| |] eqn:E2; try discriminate.
        destruct (negb (Z.of_nat (length (f_vals f2)) =? _)); [discriminate|].
        injection E1 as <- <-.
        destruct (hgood_get cf s _ p f0 Hhg Hf) as [Hh1 Hh2]. cbn [f_hist] in Hh1.
        assert (Hfok : fok (v_flt vw) s (f_hist f0) (kp p)).
        { intros v. cbn [f_hist]. apply (v_link vw); auto. }
        destruct (run_hunks_spec_v cf V (v_flt vw) (v_law vw) t o n ov (kp p) seq 0 0 0 [] [] [] f0 s f2 s2
                    ltac:(lia) ltac:(lia) ltac:(lia) eq_refl eq_refl eq_refl E2 Hfok) as (R1 & R2 & R2' & R3).
        intros P. rewrite R3. cbn [app]. replace (0 + cntI o n seq) with (cntI o n seq) by lia. reflexivity.
    - specialize (Hmono eq_refl). discriminate.
    - (* a new path *)
      cbn [pgood] in Hg. cbn [handle_changes] in E.
      destruct (handle_insertion cf author b s p _) as [[b1 s1]| |] eqn:E1; try discriminate.
      injection E as <- <-. unfold handle_insertion in E1. rewrite Hg in E1.
      set (hs := if c_files cf then match aget (s_names s) p with
                   | Some h => (Some h, s)
                   | None => (Some (s_next s), with_fhs (with_names s (aset (s_names s) p (s_next s)) (s_next s + 1)) (aset (s_fhs s) (s_next s) []))
                   end else (None, s)) in *.
      assert (Hhs : V (snd hs) = V s /\ NI (snd hs) /\
                    fst hs = (if c_files cf then aget (s_names (snd hs)) p else None) /\
                    (c_files cf = true -> aget (s_names (snd hs)) p <> None)).
      { unfold hs. destruct (c_files cf) eqn:Ecf; [|cbn [fst snd]; split; auto; split; auto; split; [reflexivity|discriminate]].
        destruct (aget (s_names s) p) as [k|] eqn:En; cbn [fst snd].
        - rewrite En. split; auto. split; auto. split; [reflexivity|discriminate].
        - split; [apply (v_create vw s p HNI Ecf En)|]. split; [apply (proj2 (nm_ext_create s p En) HNI)|].
          cbn [s_names with_fhs with_names]. rewrite aget_aset, Z.eqb_refl. split; [reflexivity|discriminate]. }
      destruct hs as [hd s0]. cbn [fst snd] in Hhs. destruct Hhs as (HV0 & HNI0 & Hhd1 & Hhd2).
      rewrite pack_tick in E1. fold t in E1.
      destruct (update_time cf hd s0 t t _) as [s2| |] eqn:E2; try discriminate.
      assert (Hfok : fok (v_flt vw) s0 hd (kp p)) by (intros v; apply (v_link vw); auto).
      destruct (update_time_v cf V (v_flt vw) (v_law vw) _ _ _ _ _ _ _ E2 Hfok) as [_ W2].
      assert (Ho : forall l, In l seq -> o l = false) by (apply old_not_exists; auto).
      assert (Hs1 : V s1 = V s2).
      { destruct (b_tick b =? mark); injection E1 as _ <-; apply (v_dels vw). }
      intros P. rewrite Hs1, W2, HV0.
      rewrite deadv_nil by (intros l Hin; rewrite (Ho l Hin); reflexivity).
      assert (Ecnt : cntI o n seq = Z.of_nat (length (content A c seq))).
      { unfold cntI, count, content. f_equal. f_equal. apply filter_ext_in. intros l Hin. rewrite (Ho l Hin). reflexivity. }
      rewrite Ecnt, feffs_nil. lia.
    - cbn [handle_changes] in E. injection E as <- <-.
      assert (Ho : forall l, In l seq -> o l = false) by (apply old_not_exists; auto).
      assert (Hn : forall l, In l seq -> n l = false) by (apply new_not_exists; auto).
      intros P.
      rewrite cntI_zero by (intros l Hin; rewrite (Hn l Hin); apply andb_false_r).
      rewrite deadv_nil by (intros l Hin; rewrite (Ho l Hin); reflexivity).
      rewrite feff_0, feffs_nil. lia.
  Qed.

  Lemma paths_step_v : forall paths b s b' s',
    NoDup (map fst paths) ->
    (forall pl, In pl paths -> pgood (old_exists A last (snd pl)) o ov (b_files b) (fst pl) (snd pl)) ->
    (forall pl, In pl paths -> old_exists A last (snd pl) = true -> path_exists A c (snd pl) = true) ->
    handle_changes cf author (flat_map (fun pl => change_of_path A last c (fst pl) (snd pl)) paths) b s = Ok (b', s') ->
    NI s -> hgood cf s (b_files b) ->
    forall P, wsum P (V s') = wsum P (V s) +
      sum_z (map (fun pl => vfeff P (kp (fst pl)) (pack cf author (b_tick b)) (pack cf author (b_tick b)) (cntI o n (snd pl)) +
                            vfeffs P (kp (fst pl)) (pack cf author (b_tick b)) (deadv o n ov (snd pl))) paths).
  Proof.
    induction paths as [|[p seq] paths IH]; intros b s b' s' Hnd Hg Hmono E HNI Hhg.
    - cbn in E. injection E as <- <-. intros P. cbn. lia.
    - cbn [flat_map fst snd] in E. rewrite handle_changes_app in E.
      destruct (handle_changes cf author (change_of_path A last c p seq) b s) as [[b1 s1]| |] eqn:E1; try discriminate.
      inversion Hnd as [|? ? Hnotin Hnd']; subst.
      pose proof (Hg (p, seq) (or_introl eq_refl)) as Hg0. pose proof (Hmono (p, seq) (or_introl eq_refl)) as Hm0.
      cbn [fst snd] in Hg0, Hm0.
      destruct (path_step cf A last c ov author b s p seq b1 s1 Hg0 Hm0 E1) as (P1 & P2 & P3 & _).
      pose proof (path_step_v b s p seq b1 s1 Hg0 Hm0 E1 HNI Hhg) as PV.
      destruct (handle_changes_hgood cf author _ _ _ _ _ (change_of_path_no_delete A last c p seq Hm0) E1 Hhg) as [[_ HX] Hhg1].
      assert (Hg1 : forall pl, In pl paths -> pgood (old_exists A last (snd pl)) o ov (b_files b1) (fst pl) (snd pl)).
      { intros pl Hin. pose proof (Hg pl (or_intror Hin)) as Hpl. unfold pgood in *.
        assert (Hne : fst pl <> p).
        { intros Eq. apply Hnotin. rewrite <- Eq. apply in_map. exact Hin. }
        rewrite (P2 (fst pl) Hne). exact Hpl. }
      assert (Hm1 : forall pl, In pl paths -> old_exists A last (snd pl) = true -> path_exists A c (snd pl) = true).
      { intros pl Hin. apply Hmono. right; auto. }
      pose proof (IH b1 s1 b' s' Hnd' Hg1 Hm1 E (HX HNI) Hhg1) as QV. rewrite P3 in QV.
      intros P. rewrite QV, PV. cbn [map fst snd]. rewrite sum_z_cons. lia.
  Qed.
End VPath.

(* ---------- one commit in normal mode ---------- *)
Lemma count_all_lines h (F : Z * line -> bool) :
  count F (all_lines h) = sum_z (map (fun pl => count (fun l => F (fst pl, l)) (snd pl)) (h_paths h)).
Proof.
  unfold all_lines. induction (h_paths h) as [|[p seq] r IH]; [reflexivity|].
  cbn [map flat_map fst snd]. rewrite sum_z_cons, count_app, IH, count_map. reflexivity.
Qed.

Section VCommit.
  Variable h : hist.
  Variable cf : cfg.
  Variable aidx : list Z.
  Hypothesis Hcf : conflict_free h = true.
  Hypothesis Hmark : forall c, 0 <= c < ncommits h -> tick_of h c < mark.
  Hypothesis Haidx : forall c, 0 <= znth 0 aidx c.
  Notation A := (ancs h).
  Notation valf := (val h cf aidx).
  Variable vw : view cf.
  Notation V := (v_proj vw).
  Notation kp := (v_kp vw).
  Variable keep : Z * line -> bool.
  Hypothesis link2 : forall p seq l, In (p, seq) (h_paths h) -> In l seq -> kp p (valf l) = keep (p, l).

  (* what commit c contributes to a weighted sum of the view: the kept lines only *)
  Definition contribK (P : Z -> Z -> bool) (c : Z) : Z :=
    (if P (tick_of h c) (tick_of h c) then count (fun pl => keep pl && (l_born (snd pl) =? c)) (all_lines h) else 0)
    - count (fun pl => keep pl && ((l_killer (snd pl) =? c) && P (tick_of h c) (birth_tick h (snd pl)))) (all_lines h).

  Lemma feffs_vals P t p seq : In (p, seq) (h_paths h) -> is_mark t = false -> forall ls, (forall l, In l ls -> In l seq) ->
    feffs cf P (kp p) t (map valf ls) = - count (fun l => keep (p, l) && P (tp cf t) (birth_tick h l)) ls.
  Proof.
    intros Hp Ht. induction ls as [|l ls IH]; intros Hls; [reflexivity|].
    cbn [map]. rewrite feffs_cons, IH by (intros; apply Hls; right; auto).
    rewrite count_cons. destruct (val_nomark h cf aidx Hcf Hmark Haidx p seq l Hp (Hls l (or_introl eq_refl))) as [Hm Htp].
    unfold feff, eff. rewrite (link2 p seq l Hp (Hls l (or_introl eq_refl))), Hm, Ht, Htp. unfold birth_tick.
    destruct (keep (p, l)); cbn [andb]; [|lia]. destruct (P (tp cf t) (tick_of h (l_born l))); lia.
  Qed.

  Section Step.
    Variables (last : option Z) (c : Z).
    Hypothesis Hc : 0 <= c < ncommits h.
    Hypothesis Hlast : match last with Some l => 0 <= l < ncommits h | None => True end.
    Hypothesis H1 : forall a, ancb A c a = (a =? c) || anc_last h last a.
    Hypothesis H2 : anc_last h last c = false.

    Theorem consume_good_v b s b' s' :
      bgood h cf aidx last b ->
      consume cf (znth 0 aidx c) (tick_of h c) false (changes_of h A last c) b s = Ok (b', s') ->
      NI s -> hgood cf s (b_files b) ->
      forall P, wsum P (V s') = wsum P (V s) + contribK P c.
    Proof.
      intros Hg E HNI Hhg. unfold consume in E.
      set (b1 := on_new_tick (mkBranch (b_files b) (b_merged b) (b_mauthor b) (tick_of h c) (b_prev b))) in *.
      destruct (handle_changes cf (znth 0 aidx c) (changes_of h A last c) b1 s) as [[b2 s2]| |] eqn:E2; try discriminate.
      injection E as <- <-. unfold changes_of in E2.
      assert (Hb1t : b_tick b1 = tick_of h c) by reflexivity.
      pose proof (paths_step_v cf vw A last c valf (znth 0 aidx c) (h_paths h) b1 s b2 s2 (paths_nodup h Hcf)) as QV.
      specialize (QV Hg (fun pl _ => exists_mono h last c Hlast H1 (snd pl)) E2 HNI Hhg).
      rewrite Hb1t in QV.
      set (t := pack cf (znth 0 aidx c) (tick_of h c)) in *.
      pose proof (tick_nonneg h Hcf c Hc) as Ht0. pose proof (Hmark c Hc) as Htm.
      assert (Htn : is_mark t = false).
      { unfold t. rewrite is_mark_pack by (auto; unfold mark in *; lia). apply Z.eqb_neq. lia. }
      assert (Htt : tp cf t = tick_of h c) by (unfold t; apply tp_pack; auto; unfold mark in *; lia).
      intros P. rewrite QV. unfold contribK.
      assert (Esplit : forall (f g : Z * list line -> Z) l, sum_z (map (fun x => f x + g x) l) = sum_z (map f l) + sum_z (map g l)).
      { intros f g l. induction l as [|x l IHl]; [reflexivity|]. cbn [map]. rewrite !sum_z_cons, IHl. lia. }
      rewrite Esplit.
      (* insertions *)
      assert (EI : sum_z (map (fun pl => feff cf P (kp (fst pl)) t t (cntI (old_alive A last) (aliveb A c) (snd pl))) (h_paths h)) =
                   if P (tick_of h c) (tick_of h c) then count (fun pl => keep pl && (l_born (snd pl) =? c)) (all_lines h) else 0).
      { rewrite (count_all_lines h (fun pl => keep pl && (l_born (snd pl) =? c))).
        destruct (P (tick_of h c) (tick_of h c)) eqn:EP.
        - f_equal. apply map_ext_in. intros [p seq] Hin. cbn [fst snd].
          assert (Ecnt : cntI (old_alive A last) (aliveb A c) seq = count (fun l => l_born l =? c) seq).
          { unfold cntI. apply count_ext_in. intros l Hl. apply (ins_iff h Hcf last c Hc Hlast H1 H2 p seq l Hin Hl). }
          rewrite Ecnt. unfold feff, eff. rewrite Htn, Htt, EP.
          destruct (kp p t) eqn:Ek.
          + apply count_ext_in. intros l Hl. destruct (Z.eqb_spec (l_born l) c) as [Eb|]; [|rewrite andb_false_r; reflexivity].
            rewrite <- (link2 p seq l Hin Hl). unfold val. rewrite Eb. fold t. rewrite Ek. reflexivity.
          + symmetry. unfold count. rewrite (filter_ext_in _ (fun _ => false)); [clear; induction seq; cbn; auto|].
            intros l Hl. destruct (Z.eqb_spec (l_born l) c) as [Eb|]; [|apply andb_false_r].
            rewrite <- (link2 p seq l Hin Hl). unfold val. rewrite Eb. fold t. rewrite Ek. reflexivity.
        - transitivity (sum_z (map (fun _ : Z * list line => 0) (h_paths h))); [|clear; induction (h_paths h); cbn; auto].
          f_equal. apply map_ext. intros pl. unfold feff, eff. rewrite Htn, Htt, EP. destruct (kp (fst pl) t); reflexivity. }
      (* deletions *)
      assert (ED : sum_z (map (fun pl => feffs cf P (kp (fst pl)) t (deadv (old_alive A last) (aliveb A c) valf (snd pl))) (h_paths h)) =
                   - count (fun pl => keep pl && ((l_killer (snd pl) =? c) && P (tick_of h c) (birth_tick h (snd pl)))) (all_lines h)).
      { rewrite (count_all_lines h).
        assert (Eneg : forall (f : Z * list line -> Z) l, - sum_z (map f l) = sum_z (map (fun x => - f x) l)).
        { intros f l. induction l as [|x l IHl]; [reflexivity|]. cbn [map]. rewrite !sum_z_cons, <- IHl. lia. }
        rewrite Eneg. f_equal. apply map_ext_in. intros [p seq] Hin. cbn [fst snd].
        unfold deadv. rewrite (feffs_vals P t p seq Hin Htn) by (intros l Hl; apply filter_In in Hl; tauto).
        rewrite count_filter, Htt. f_equal. apply count_ext_in. intros l Hl.
        rewrite (del_iff h Hcf last c Hc Hlast H1 H2 p seq l Hin Hl).
        destruct (keep (p, l)), (l_killer l =? c); reflexivity. }
      rewrite EI, ED. lia.
    Qed.
  End Step.

  (* ---------- a merge commit replayed in merge mode: nothing is booked ---------- *)
  Lemma feff_mark m P fl v d : feff cf P fl (tM cf aidx m) v d = 0.
  Proof. unfold feff. rewrite (eff_mark cf aidx Haidx m). destruct (fl v); reflexivity. Qed.
  Lemma feffs_mark m P fl vs : feffs cf P fl (tM cf aidx m) vs = 0.
  Proof. unfold feffs. induction vs as [|v r IH]; [reflexivity|]. cbn [map]. rewrite sum_z_cons, IH, feff_mark. reflexivity. Qed.

  Theorem consume_merge_v m l b s b' s' :
    (forall a, ancb A l a = true -> ancb A m a = true) ->
    bgood h cf aidx (Some l) b ->
    consume cf (znth 0 aidx m) (tick_of h m) true (changes_of h A (Some l) m) b s = Ok (b', s') ->
    NI s -> hgood cf s (b_files b) ->
    forall P, wsum P (V s') = wsum P (V s).
  Proof.
    intros Hsub Hg E HNI Hhg. unfold consume in E.
    set (b1 := mkBranch (b_files b) [] (znth 0 aidx m) mark (b_prev b)) in *.
    destruct (handle_changes cf (znth 0 aidx m) (changes_of h A (Some l) m) b1 s) as [[b2 s2]| |] eqn:E2; try discriminate.
    injection E as <- <-. unfold changes_of in E2.
    pose proof (paths_step_v cf vw A (Some l) m valf (znth 0 aidx m) (h_paths h) b1 s b2 s2 (paths_nodup h Hcf)) as QV.
    assert (Hmono : forall pl, In pl (h_paths h) -> old_exists A (Some l) (snd pl) = true -> path_exists A m (snd pl) = true).
    { intros pl Hin E0. unfold old_exists, path_exists in *. apply existsb_exists in E0. destruct E0 as (x & Hx & E0).
      apply existsb_exists. exists x. split; auto. }
    specialize (QV Hg Hmono E2 HNI Hhg). change (b_tick b1) with mark in QV. fold (tM cf aidx m) in QV.
    intros P. rewrite QV.
    assert (Z0 : forall paths : list (Z * list line),
              sum_z (map (fun pl => feff cf P (kp (fst pl)) (tM cf aidx m) (tM cf aidx m) (cntI (old_alive A (Some l)) (aliveb A m) (snd pl)) +
                                    feffs cf P (kp (fst pl)) (tM cf aidx m) (deadv (old_alive A (Some l)) (aliveb A m) valf (snd pl))) paths) = 0).
    { induction paths as [|x r IH]; [reflexivity|]. cbn [map]. rewrite sum_z_cons, IH, feff_mark, feffs_mark. reflexivity. }
    rewrite Z0. lia.
  Qed.
End VCommit.
