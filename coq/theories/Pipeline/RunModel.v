(* C14 - model of Pipeline.Run (internal/core/pipeline.go) and of cloneItems / mergeItems /
   getMasterBranch / ForkSamePipelineItem / ForkCopyPipelineItem (internal/core/forks.go).

   Definitions only (no proofs): the interpreter, the recording items of harness/cmd/c14, the plan
   predicates and the log oracles.  Proofs: RunProofs.v.  Statements: coq/props/C14.v.

   The plan syntax below is private to C14 (the plan layer of C02/C04 is built independently):
   a [runAction{Action, Commit, Items}] whose Action is runActionCommit always carries a commit
   ([appendCommit] in generatePlan is its only producer), so [ACommit] has the commit as an argument;
   every other action keeps the optional [Commit] field because Run reads [plan[0].Commit]. *)
From Coq Require Import List NArith ZArith Bool Arith Lia.
Import ListNotations.

(* ------------------------------------------------------------------------------------------ *)
(* Plans *)

(* what Run reads of an *object.Commit: its hash (here: the number the harness gives it) and
   Committer.When.Unix() *)
Record commit := mkC { c_id : N; c_time : Z }.

Inductive akind := KFork | KMerge | KEmerge | KDelete | KHibernate | KBoot.

Inductive action :=
| ACommit (c : commit) (items : list N)
| AOther (k : akind) (oc : option commit) (items : list N).

Definition a_items (a : action) : list N :=
  match a with ACommit _ l => l | AOther _ _ l => l end.
Definition a_commit (a : action) : option commit :=
  match a with ACommit c _ => Some c | AOther _ oc _ => oc end.
Definition is_hb (a : action) : bool :=
  match a with AOther KHibernate _ _ => true | AOther KBoot _ _ => true | _ => false end.
Definition is_commit_of (h : N) (a : action) : bool :=
  match a with ACommit c _ => N.eqb (c_id c) h | _ => false end.
Definition is_commit (a : action) : bool :=
  match a with ACommit _ _ => true | _ => false end.

(* The isMerge closure of Run.  Backward: i = index-1 .. 1 (the loop condition is i > 0, plan[0] is
   never looked at); hibernate/boot are skipped; the first other action decides: a commit action
   with the same hash gives true, anything else false.  Then the same forward from index+1. *)
Fixpoint scan (h : N) (l : list action) : bool :=
  match l with
  | [] => false
  | a :: r => if is_hb a then scan h r else is_commit_of h a
  end.

Definition is_merge (plan : list action) (index : nat) (h : N) : bool :=
  scan h (rev (tl (firstn index plan))) || scan h (skipn (S index) plan).

(* ------------------------------------------------------------------------------------------ *)
(* Items *)

(* the static part of a PipelineItem: Name, Provides, Requires, how it forks
   (ForkCopyPipelineItem / ForkSamePipelineItem), whether it is a HibernateablePipelineItem and a
   LeafPipelineItem.  Entities are numbers; 0, 1, 2 stand for DependencyCommit, DependencyIndex,
   DependencyIsMerge. *)
Record item := mkItem { i_name : N; i_provides : list N; i_requires : list N;
                        i_copy : bool; i_hib : bool; i_leaf : bool }.

(* one element of a branch's item list: position in the resolved order, static part, and the
   identity of the Go object (instance id; shared forks keep it, copying forks get a fresh one) *)
Record binst := mkB { b_item : nat; b_desc : item; b_inst : nat }.

Definition k_commit : N := 0.
Definition k_index : N := 1.
Definition k_merge : N := 2.

Fixpoint mem (e : N) (l : list N) : bool :=
  match l with [] => false | x :: r => N.eqb x e || mem e r end.

Fixpoint zip_snoc {A} (acc : list (list A)) (xs : list A) : list (list A) :=
  match acc, xs with
  | a :: ar, x :: xr => (a ++ [x]) :: zip_snoc ar xr
  | _, _ => []
  end.

(* Go map[int][]PipelineItem *)
Section BMap.
  Context {V : Type}.
  Fixpoint bdel (k : N) (m : list (N * V)) : list (N * V) :=
    match m with
    | [] => []
    | (k', v) :: r => if N.eqb k' k then bdel k r else (k', v) :: bdel k r
    end.
  Definition bset (k : N) (v : V) (m : list (N * V)) : list (N * V) := (k, v) :: bdel k m.
  Fixpoint bfind (k : N) (m : list (N * V)) : option V :=
    match m with
    | [] => None
    | (k', v) :: r => if N.eqb k' k then Some v else bfind k r
    end.
  (* getMasterBranch: the value under the smallest key, nil for the empty map *)
  Fixpoint bmin (m : list (N * V)) : option (N * V) :=
    match m with
    | [] => None
    | (k, v) :: r => match bmin r with
                     | Some (k', v') => if N.ltb k' k then Some (k', v') else Some (k, v)
                     | None => Some (k, v)
                     end
    end.
End BMap.

(* a missing key reads as the nil slice *)
Definition bget {A} (k : N) (m : list (N * list A)) : list A :=
  match bfind k m with Some l => l | None => [] end.

(* the key sets of the branch map, for the liveness predicate *)
Definition kdel (k : N) (l : list N) : list N := filter (fun x => negb (N.eqb x k)) l.
Definition kset (k : N) (l : list N) : list N := k :: kdel k l.

(* ------------------------------------------------------------------------------------------ *)
(* The interpreter, for any item state type, any value type and any item behaviour *)

Section Interp.
  Variables St U : Type.

  (* what can sit in the state map handed to Consume *)
  Inductive value := VCommit (c : commit) | VIndex (i : N) | VMerge (b : bool) | VUser (u : U).

  Notation deps := (list (N * value)) (only parsing).

  Fixpoint dlookup (e : N) (d : deps) : option value :=
    match d with
    | [] => None
    | (k, v) :: r => if N.eqb k e then Some v else dlookup e r
    end.
  (* state[key] = val *)
  Definition dset (e : N) (v : value) (d : deps) : deps := (e, v) :: bdel e d.

  Fixpoint ulookup (e : N) (u : list (N * U)) : option U :=
    match u with
    | [] => None
    | (k, v) :: r => if N.eqb k e then Some v else ulookup e r
    end.

  Definition meta_deps (c : commit) (idx : N) (m : bool) : deps :=
    [(k_commit, VCommit c); (k_index, VIndex idx); (k_merge, VMerge m)].

  (* the result of Consume: the update map or an error *)
  Inductive cres := COk (upd : list (N * U)) | CErr (code : N).

  (* the behaviour of the items ("step functions"): everything is indexed by the position of the
     item in the resolved order; the state of one Go object is a [St] *)
  Record sem := mkSem {
    s_init : nat -> St;                               (* object of pipeline.items[j] before Run *)
    s_consume : nat -> St -> deps -> St * cres;
    s_merge : nat -> list St -> list St;              (* states of self :: others, new states *)
    s_hibernate : nat -> St -> St * option N;         (* Some code = error *)
    s_boot : nat -> St -> St * option N;
    s_finalize : nat -> St -> U
  }.

  Variable sm : sem.

  (* observable calls *)
  Record call := mkCall { k_item : nat; k_desc : item; k_inst : nat; k_deps : deps; k_out : cres }.
  Record cstep := mkStep { cs_branch : N; cs_commit : commit; cs_index : N; cs_merge : bool;
                           cs_calls : list call }.
  Inductive fcall := FCall (it inst n : nat) (clones : list nat).
  Inductive mcall := MCall (it inst : nat) (others : list nat).
  Inductive hcall := HCall (it inst : nat) (err : option N).
  Inductive fincall := FinCall (it inst : nat) (v : U).
  Inductive srec :=
  | RCommit (s : cstep) | RFork (l : list fcall) | RMerge (l : list mcall) | REmerge (l : list fcall)
  | RDelete | RHib (l : list hcall) | RBoot (l : list hcall).

  Inductive rerr :=
  | EConsume (it : nat) (code : N)      (* Consume returned an error: Run returns it *)
  | EMissing (it : nat) (e : N)         (* "<item>: Consume() did not return <key>" *)
  | EHibernate (it : nat) (code : N)
  | EBoot (it : nat) (code : N).

  Record summary := mkSum { sm_begin : Z; sm_end : Z; sm_commits : N }.
  (* (result, nil) | (nil, err) | a Go panic *)
  Inductive outcome := Done (fins : list fincall) (s : summary) | Failed (e : rerr) | Panicked.

  Notation store := (nat -> St) (only parsing).
  Definition sset (i : nat) (s : St) (m : store) : store := fun j => if Nat.eqb j i then s else m j.

  (* for _, key := range item.Provides() { val, ok := update[key]; if !ok {error}; state[key] = val } *)
  Fixpoint apply_provides (ps : list N) (upd : list (N * U)) (d : deps) : deps + N :=
    match ps with
    | [] => inl d
    | e :: r => match ulookup e upd with
                | Some u => apply_provides r upd (dset e (VUser u) d)
                | None => inr e
                end
    end.

  (* for _, item := range branches[firstItem] { update, err := item.Consume(state) ... } *)
  Fixpoint consume_loop (bs : list binst) (m : store) (d : deps) : store * list call * option rerr :=
    match bs with
    | [] => (m, [], None)
    | b :: r =>
        let '(st', res) := s_consume sm (b_item b) (m (b_inst b)) d in
        let m' := sset (b_inst b) st' m in
        let c := mkCall (b_item b) (b_desc b) (b_inst b) d res in
        match res with
        | CErr code => (m', [c], Some (EConsume (b_item b) code))
        | COk upd =>
            match apply_provides (i_provides (b_desc b)) upd d with
            | inl d' => let '(m'', calls, err) := consume_loop r m' d' in (m'', c :: calls, err)
            | inr e => (m', [c], Some (EMissing (b_item b) e))
            end
        end
    end.

  (* item.Fork(n): ForkCopyPipelineItem makes n new objects holding a copy of the origin's fields,
     ForkSamePipelineItem returns the origin n times *)
  Definition fork_inst (b : binst) (n : nat) (m : store) (next : nat) : store * nat * list nat :=
    if i_copy (b_desc b) then
      ((fun j => if Nat.leb next j && Nat.ltb j (next + n) then m (b_inst b) else m j), next + n, seq next n)
    else (m, next, repeat (b_inst b) n).

  (* cloneItems *)
  Fixpoint clone_loop (origin : list binst) (n : nat) (m : store) (next : nat) (acc : list (list binst))
    : store * nat * list (list binst) * list fcall :=
    match origin with
    | [] => (m, next, acc, [])
    | b :: r =>
        let '(m', next', ids) := fork_inst b n m next in
        let '(m'', next'', acc', calls) :=
          clone_loop r n m' next' (zip_snoc acc (map (fun i => mkB (b_item b) (b_desc b) i) ids)) in
        (m'', next'', acc', FCall (b_item b) (b_inst b) n ids :: calls)
    end.
  Definition clone_items (origin : list binst) (n : nat) (m : store) (next : nat) :=
    clone_loop origin n m next (repeat [] n).

  Fixpoint nth_all {A} (i : nat) (ls : list (list A)) : option (list A) :=
    match ls with
    | [] => Some []
    | l :: r => match nth_error l i, nth_all i r with
                | Some x, Some xs => Some (x :: xs)
                | _, _ => None
                end
    end.

  Fixpoint write_back (ids : list nat) (sts : list St) (m : store) : store :=
    match ids, sts with
    | i :: ir, s :: sr => write_back ir sr (sset i s m)
    | _, _ => m
    end.

  (* mergeItems: for i, item := range branches[0] { buffer[j] = branches[j+1][i]; item.Merge(buffer) };
     None = index out of range *)
  Fixpoint merge_loop (i : nat) (firsts : list binst) (others : list (list binst)) (m : store)
    : option (store * list mcall) :=
    match firsts with
    | [] => Some (m, [])
    | b :: r =>
        match nth_all i others with
        | None => None
        | Some os =>
            let ids := b_inst b :: map b_inst os in
            let m' := write_back ids (s_merge sm (b_item b) (map m ids)) m in
            match merge_loop (S i) r others m' with
            | None => None
            | Some (m'', calls) => Some (m'', MCall (b_item b) (b_inst b) (map b_inst os) :: calls)
            end
        end
    end.

  (* the Hibernate / Boot loops over the items of the listed branches *)
  Fixpoint hb_loop (f : nat -> St -> St * option N) (mk : nat -> N -> rerr) (bs : list binst) (m : store)
    : store * list hcall * option rerr :=
    match bs with
    | [] => (m, [], None)
    | b :: r =>
        if i_hib (b_desc b) then
          let '(st', e) := f (b_item b) (m (b_inst b)) in
          let m' := sset (b_inst b) st' m in
          match e with
          | Some code => (m', [HCall (b_item b) (b_inst b) e], Some (mk (b_item b) code))
          | None => let '(m'', calls, err) := hb_loop f mk r m' in
                    (m'', HCall (b_item b) (b_inst b) None :: calls, err)
          end
        else hb_loop f mk r m
    end.

  Record rstate := mkR { r_br : list (N * list binst); r_store : nat -> St; r_next : nat;
                         r_idx : N; r_newest : Z }.

  Inductive sres := SOk (st : rstate) (r : srec) | SFail (r : srec) (e : rerr) | SPanic.

  Fixpoint assign (ks : list N) (vs : list (list binst)) (m : list (N * list binst)) :=
    match ks, vs with
    | k :: kr, v :: vr => assign kr vr (bset k v m)
    | _, _ => m
    end.

  Section Exec.
    Variable plan : list action.
    Variables items0 rootc : list binst.   (* pipeline.items and rootClone *)

    (* one iteration of "for index, step := range plan" *)
    Definition exec (pos : nat) (a : action) (st : rstate) : sres :=
      match a_items a with
      | [] => SPanic                                  (* firstItem := step.Items[0] *)
      | first :: rest =>
          match a with
          | ACommit c _ =>
              let mg := is_merge plan pos (c_id c) in
              let d := meta_deps c (r_idx st) mg in
              let '(m', calls, err) := consume_loop (bget first (r_br st)) (r_store st) d in
              let r := RCommit (mkStep first c (r_idx st) mg calls) in
              match err with
              | Some e => SFail r e
              | None => SOk (mkR (r_br st) m' (r_next st) (r_idx st + 1) (Z.max (r_newest st) (c_time c))) r
              end
          | AOther KFork _ _ =>
              let '(m', next', clones, calls) :=
                clone_items (bget first (r_br st)) (length rest) (r_store st) (r_next st) in
              SOk (mkR (assign rest clones (r_br st)) m' next' (r_idx st) (r_newest st)) (RFork calls)
          | AOther KMerge _ _ =>
              match merge_loop 0 (bget first (r_br st)) (map (fun b => bget b (r_br st)) rest) (r_store st) with
              | None => SPanic
              | Some (m', calls) => SOk (mkR (r_br st) m' (r_next st) (r_idx st) (r_newest st)) (RMerge calls)
              end
          | AOther KEmerge _ _ =>
              if N.eqb first 1 then
                SOk (mkR (bset first items0 (r_br st)) (r_store st) (r_next st) (r_idx st) (r_newest st)) (REmerge [])
              else
                let '(m', next', clones, calls) := clone_items rootc 1 (r_store st) (r_next st) in
                match clones with
                | [] => SPanic
                | cl :: _ => SOk (mkR (bset first cl (r_br st)) m' next' (r_idx st) (r_newest st)) (REmerge calls)
                end
          | AOther KDelete _ _ =>
              SOk (mkR (bdel first (r_br st)) (r_store st) (r_next st) (r_idx st) (r_newest st)) RDelete
          | AOther KHibernate _ _ =>
              let '(m', calls, err) :=
                hb_loop (s_hibernate sm) EHibernate (flat_map (fun b => bget b (r_br st)) (first :: rest)) (r_store st) in
              match err with
              | Some e => SFail (RHib calls) e
              | None => SOk (mkR (r_br st) m' (r_next st) (r_idx st) (r_newest st)) (RHib calls)
              end
          | AOther KBoot _ _ =>
              let '(m', calls, err) :=
                hb_loop (s_boot sm) EBoot (flat_map (fun b => bget b (r_br st)) (first :: rest)) (r_store st) in
              match err with
              | Some e => SFail (RBoot calls) e
              | None => SOk (mkR (r_br st) m' (r_next st) (r_idx st) (r_newest st)) (RBoot calls)
              end
          end
      end.

    (* why the loop stopped: fell off the end with this state, an error, a panic *)
    Inductive stop := StEnd (st : rstate) | StErr (e : rerr) | StPanic.

    Fixpoint run_loop (pos : nat) (todo : list action) (st : rstate) : list srec * stop :=
      match todo with
      | [] => ([], StEnd st)
      | a :: r =>
          match exec pos a st with
          | SOk st' rc => let '(recs, s) := run_loop (S pos) r st' in (rc :: recs, s)
          | SFail rc e => ([rc], StErr e)
          | SPanic => ([], StPanic)
          end
      end.
  End Exec.

  Fixpoint items_from (j : nat) (its : list item) : list binst :=
    match its with
    | [] => []
    | it :: r => mkB j it j :: items_from (S j) r
    end.

  Fixpoint finalize_loop (bs : list binst) (m : store) : list fincall :=
    match bs with
    | [] => []
    | b :: r => if i_leaf (b_desc b)
                then FinCall (b_item b) (b_inst b) (s_finalize sm (b_item b) (m (b_inst b))) :: finalize_loop r m
                else finalize_loop r m
    end.

  Record run_out := mkOut { ro_pre : list fcall; ro_recs : list srec; ro_out : outcome }.

  (* Pipeline.Run(commits) with plan = prepareRunPlan(commits, HibernationDistance);
     [ncommits] = len(commits) *)
  Definition run (items : list item) (plan : list action) (ncommits : N) : run_out :=
    let items0 := items_from 0 items in
    let '(m1, next1, clones, pre) := clone_items items0 1 (s_init sm) (length items) in
    match clones with
    | [] => mkOut pre [] Panicked
    | rootc :: _ =>
        let '(recs, s) := run_loop plan items0 rootc 0 plan (mkR [] m1 next1 0%N 0%Z) in
        match s with
        | StPanic => mkOut pre recs Panicked
        | StErr e => mkOut pre recs (Failed e)
        | StEnd st =>
            let fins := match bmin (r_br st) with
                        | Some (_, br) => finalize_loop br (r_store st)
                        | None => []
                        end in
            match plan with
            | [] => mkOut pre recs Panicked                 (* plan[0] *)
            | a :: _ => match a_commit a with
                        | None => mkOut pre recs Panicked   (* plan[0].Commit.Committer *)
                        | Some c => mkOut pre recs (Done fins (mkSum (c_time c) (r_newest st) ncommits))
                        end
            end
        end
    end.

  (* the commit steps of a run, in order *)
  Fixpoint csteps (recs : list srec) : list cstep :=
    match recs with
    | [] => []
    | RCommit s :: r => s :: csteps r
    | _ :: r => csteps r
    end.

  (* ---------------------------------------------------------------------------------------- *)
  (* Specification vocabulary used by the theorems and by the log oracle *)

  (* the value an update offers for an entity *)
  Definition provided (e : N) (c : call) : option value :=
    match k_out c with
    | COk upd => match ulookup e upd with Some u => Some (VUser u) | None => None end
    | CErr _ => None
    end.

  (* the last call of [l] whose item declares [e] in Provides *)
  Fixpoint last_provider (e : N) (l : list call) : option call :=
    match l with
    | [] => None
    | c :: r => match last_provider e r with
                | Some p => Some p
                | None => if mem e (i_provides (k_desc c)) then Some c else None
                end
    end.

  (* what the state map must hold for [e] after the calls [pre] of a step that started from [d0] *)
  Definition expected (e : N) (pre : list call) (d0 : deps) : option value :=
    match last_provider e pre with
    | Some p => provided e p
    | None => dlookup e d0
    end.

  (* a call that returned every declared output *)
  Definition complete (c : call) : bool :=
    match k_out c with
    | COk upd => forallb (fun e => match ulookup e upd with Some _ => true | None => false end)
                         (i_provides (k_desc c))
    | CErr _ => false
    end.

  (* the error Run must return for an incomplete call *)
  Definition call_error (c : call) : option rerr :=
    match k_out c with
    | CErr code => Some (EConsume (k_item c) code)
    | COk upd => match find (fun e => match ulookup e upd with Some _ => false | None => true end)
                            (i_provides (k_desc c)) with
                 | Some e => Some (EMissing (k_item c) e)
                 | None => None
                 end
    end.
End Interp.

Arguments VCommit {U}. Arguments VIndex {U}. Arguments VMerge {U}. Arguments VUser {U}.
Arguments COk {U}. Arguments CErr {U}.
Arguments dlookup {U}. Arguments dset {U}. Arguments ulookup {U}. Arguments meta_deps {U}.
Arguments mkCall {U}. Arguments k_item {U}. Arguments k_desc {U}. Arguments k_inst {U}.
Arguments k_deps {U}. Arguments k_out {U}.
Arguments mkStep {U}. Arguments cs_branch {U}. Arguments cs_commit {U}. Arguments cs_index {U}.
Arguments cs_merge {U}. Arguments cs_calls {U}.
Arguments RCommit {U}. Arguments RFork {U}. Arguments RMerge {U}. Arguments REmerge {U}.
Arguments RDelete {U}. Arguments RHib {U}. Arguments RBoot {U}.
Arguments Done {U}. Arguments Failed {U}. Arguments Panicked {U}.
Arguments FinCall {U}.
Arguments csteps {U}. Arguments provided {U}. Arguments last_provider {U}. Arguments expected {U}.
Arguments complete {U}. Arguments call_error {U}.
Arguments ro_pre {U}. Arguments ro_recs {U}. Arguments ro_out {U}.

(* ------------------------------------------------------------------------------------------ *)
(* Plan predicates: the hypotheses of the theorems; the harness evaluates them on every real plan
   (the validator of C02/C04 implies them) *)

(* Items[0] (Run panics when there is none; the plans considered always have one) *)
Definition first_item (items : list N) : N := match items with b :: _ => b | [] => 0%N end.

(* the commit actions of a plan: (hash, branch) *)
Fixpoint replays (plan : list action) : list (N * N) :=
  match plan with
  | [] => []
  | ACommit c its :: r => (c_id c, first_item its) :: replays r
  | _ :: r => replays r
  end.

Definition replay_branches (plan : list action) (h : N) : list N :=
  nodup N.eq_dec (map snd (filter (fun p => N.eqb (fst p) h) (replays plan))).

(* plan[0] is an emerge that carries a commit *)
Definition head_emergeb (plan : list action) : bool :=
  match plan with AOther KEmerge (Some _) _ :: _ => true | _ => false end.

Fixpoint first_commit (plan : list action) : option commit :=
  match plan with
  | [] => None
  | ACommit c _ :: _ => Some c
  | _ :: r => first_commit r
  end.

(* ... and that commit is the one of the first commit step *)
Definition head_firstb (plan : list action) : bool :=
  match plan, first_commit plan with
  | AOther KEmerge (Some c) _ :: _, Some c' => N.eqb (c_id c) (c_id c') && Z.eqb (c_time c) (c_time c')
  | _, _ => false
  end.

(* the replays of one commit are contiguous up to hibernate/boot actions *)
Fixpoint after_run (h : N) (l : list action) : list action :=
  match l with
  | [] => []
  | a :: r => if is_hb a || is_commit_of h a then after_run h r else l
  end.
Fixpoint contigb (l : list action) : bool :=
  match l with
  | [] => true
  | a :: r => match a with
              | ACommit c _ => negb (existsb (is_commit_of (c_id c)) (after_run (c_id c) r)) && contigb r
              | _ => contigb r
              end
  end.

(* one commit is never replayed twice on the same branch *)
Fixpoint nodup_pairs (l : list (N * N)) : bool :=
  match l with
  | [] => true
  | (h, b) :: r => negb (existsb (fun q => N.eqb (fst q) h && N.eqb (snd q) b) r) && nodup_pairs r
  end.
Definition distinctb (plan : list action) : bool := nodup_pairs (replays plan).

(* every action has Items[0]; commits run on live branches and forks copy live branches *)
Fixpoint assign_keys (ks : list N) (live : list N) : list N :=
  match ks with [] => live | k :: r => assign_keys r (kset k live) end.
Fixpoint liveb_from (plan : list action) (live : list N) : bool :=
  match plan with
  | [] => true
  | a :: r =>
      match a_items a with
      | [] => false
      | first :: rest =>
          match a with
          | ACommit _ _ => mem first live && liveb_from r live
          | AOther KFork _ _ => mem first live && liveb_from r (assign_keys rest live)
          | AOther KMerge _ _ => forallb (fun b => mem b live) (first :: rest) && liveb_from r live
          | AOther KEmerge _ _ => liveb_from r (kset first live)
          | AOther KDelete _ _ => liveb_from r (kdel first live)
          | AOther _ _ _ => liveb_from r live
          end
      end
  end.
Definition liveb (plan : list action) : bool := liveb_from plan [].

Definition plan_okb (plan : list action) : bool :=
  head_emergeb plan && head_firstb plan && contigb plan && distinctb plan && liveb plan.

(* the committer times of the commit steps *)
Fixpoint commit_times (plan : list action) : list Z :=
  match plan with
  | [] => []
  | ACommit c _ :: r => c_time c :: commit_times r
  | _ :: r => commit_times r
  end.

(* ------------------------------------------------------------------------------------------ *)
(* The recording items of harness/cmd/c14 (state: number of Consume calls and of Hibernate/Boot
   calls seen by the Go object; values: 31-bit mixes of commit, item, inputs, call number) *)

Record rst := mkRst { calls : N; hcalls : N }.

Inductive inject :=
| INone
| IErr (it : nat) (idx : N)            (* Consume of item [it] fails at commit index [idx] *)
| IMiss (it : nat) (idx : N) (e : N)   (* ... leaves the declared output [e] out *)
| IHib (it : nat) (k : N)              (* the k-th Hibernate/Boot call on one object fails, if a Hibernate *)
| IBoot (it : nat) (k : N).

Definition mix (a b : N) : N := ((a * 1000003 + b * 7919 + 12345) mod 2147483647)%N.

Definition rec_digest (j : nat) (it : item) (d : list (N * value N)) (n : N) : N :=
  let cid := match dlookup k_commit d with Some (VCommit c) => c_id c | _ => 0%N end in
  let idx := match dlookup k_index d with Some (VIndex i) => i | _ => 0%N end in
  let mg := match dlookup k_merge d with Some (VMerge true) => 1%N | _ => 0%N end in
  fold_left (fun acc e => mix acc (match dlookup e d with
                                   | Some (VUser u) => (u + 2)%N
                                   | Some _ => 1%N
                                   | None => 0%N end))
            (i_requires it) (mix (mix (mix (mix (N.of_nat j) cid) idx) mg) n).

Definition rec_consume (items : list item) (inj : inject) (j : nat) (s : rst) (d : list (N * value N))
  : rst * cres N :=
  let s' := mkRst (calls s + 1) (hcalls s) in
  match nth_error items j with
  | None => (s', CErr 99%N)
  | Some it =>
      let idx := match dlookup k_index d with Some (VIndex i) => i | _ => 0%N end in
      let dig := rec_digest j it d (calls s') in
      let fails := match inj with IErr j' i' => Nat.eqb j j' && N.eqb idx i' | _ => false end in
      if fails then (s', CErr 1%N)
      else
        let skip e := match inj with IMiss j' i' e' => Nat.eqb j j' && N.eqb idx i' && N.eqb e e' | _ => false end in
        let outs := map (fun e => (e, mix dig e)) (filter (fun e => negb (skip e)) (i_provides it)) in
        (* one undeclared extra key: Run must not copy it into the state *)
        (s', COk (outs ++ [((1000 + N.of_nat j)%N, dig)]))
  end.

Definition rec_hb (want_hib is_hib : bool) (inj : inject) (j : nat) (s : rst) : rst * option N :=
  let s' := mkRst (calls s) (hcalls s + 1) in
  let fails := match inj with
               | IHib j' k => is_hib && Nat.eqb j j' && N.eqb (hcalls s') k
               | IBoot j' k => negb is_hib && Nat.eqb j j' && N.eqb (hcalls s') k
               | _ => false
               end in
  (s', if fails then Some 2%N else None).

Definition rec_sem (items : list item) (inj : inject) : sem rst N :=
  mkSem rst N
    (fun _ => mkRst 0 0)
    (rec_consume items inj)
    (fun _ sts => sts)
    (rec_hb true true inj)
    (rec_hb false false inj)
    (fun _ s => calls s).

Definition rec_run (items : list item) (inj : inject) (plan : list action) (ncommits : N) : run_out N :=
  run rst N (rec_sem items inj) items plan ncommits.

(* ------------------------------------------------------------------------------------------ *)
(* The oracle on an observed Consume log (any value type with a decidable equality).
   The observed log is the flat list of Consume calls in the order they happened; the oracle walks
   the plan: the k-th commit action owns the next [length items] calls. *)

Definition is_nil {A} (l : list A) : bool := match l with [] => true | _ => false end.

Section Oracle.
  Variable U : Type.
  Variable ueqb : U -> U -> bool.

  Definition veqb (a b : value U) : bool :=
    match a, b with
    | VCommit c, VCommit c' => N.eqb (c_id c) (c_id c') && Z.eqb (c_time c) (c_time c')
    | VIndex i, VIndex i' => N.eqb i i'
    | VMerge x, VMerge y => Bool.eqb x y
    | VUser u, VUser u' => ueqb u u'
    | _, _ => false
    end.
  Definition oveqb (a b : option (value U)) : bool :=
    match a, b with
    | Some x, Some y => veqb x y
    | None, None => true
    | _, _ => false
    end.

  Definition item_eqb (a b : item) : bool :=
    N.eqb (i_name a) (i_name b).

  (* the calls of one step, checked against the item list in resolved order: item j is called
     j-th, sees the metadata of the step and, for every entity it requires, for the three metadata
     keys and for every key present in the map it is handed, the value of the last earlier provider
     of this same step (so nothing of another step or branch is visible).
     [last] tells whether the step may stop early with an incomplete final call. *)
  Fixpoint step_calls_ok (j : nat) (its : list item) (cs pre : list (call U)) (d0 : list (N * value U)) : bool :=
    match its, cs with
    | [], [] => true
    | it :: ir, c :: cr =>
        Nat.eqb (k_item c) j && item_eqb (k_desc c) it &&
        forallb (fun e => oveqb (dlookup e (k_deps c)) (expected e pre d0))
                (k_commit :: k_index :: k_merge :: i_requires it ++ map fst (k_deps c)) &&
        (if complete c then step_calls_ok (S j) ir cr (pre ++ [c]) d0 else is_nil cr)
    | _, _ => false
    end.

  (* all calls of the step complete? *)
  Definition step_complete (cs : list (call U)) (n : nat) : bool :=
    Nat.eqb (length cs) n && forallb complete cs.

  (* walk the plan; [idx] counts commit steps; returns false on any deviation.  [early] = the run
     was stopped between two commit steps (a Hibernate/Boot error): the log may end at a step boundary *)
  Fixpoint log_ok (early : bool) (full : list action) (its : list item) (todo : list action) (idx : N)
                  (log : list (call U)) : bool :=
    match todo with
    | [] => is_nil log
    | ACommit c _ :: r =>
        let n := length its in
        if is_nil log && negb (Nat.eqb n 0) then early
        else
          let cs := firstn n log in
          let d0 := meta_deps c idx (Nat.leb 2 (length (replay_branches full (c_id c)))) in
          step_calls_ok 0 its cs [] d0 &&
          (if step_complete cs n then log_ok early full its r (N.succ idx) (skipn n log)
           else is_nil (skipn n log))
    | _ :: r => log_ok early full its r idx log
    end.
End Oracle.

(* the flat Consume log of a run *)
Definition consume_log {U} (recs : list (srec U)) : list (call U) :=
  flat_map (fun s => cs_calls s) (csteps recs).

(* the summary oracle: BeginTime = time of the first planned commit, EndTime = newest committer
   time of the planned commits, CommitsNumber = number of input commits *)
Definition summary_ok (plan : list action) (ncommits : N) (s : summary) : bool :=
  match first_commit plan with
  | Some c => Z.eqb (sm_begin s) (c_time c)
  | None => false
  end &&
  Z.eqb (sm_end s) (fold_right Z.max 0%Z (commit_times plan)) &&
  N.eqb (sm_commits s) ncommits.
