// Scale streams of the C06 harness: LARGE arenas (10^3 .. 10^6 cells) and large synthetic uint32 buffers.
//
// The fine script interpreter of main.go re-renders every allocator after every operation, which is
// quadratic in the arena size.  The operations of this file ("big" operations, all names start with b)
// work in bulk and are judged inside the harness by streaming comparison: the trace carries only the
// verdicts (counts, lengths, the first differing index), never the arena.  The driver turns the
// verdicts into PROPFAIL / MISMATCH lines.
//
//	(bnewtree a)                               a new RBTree on allocator a
//	(bfill t n base period seed KEYS.VALUES)   n Inserts into tree t; keys asc|desc|rnd from base, values by pattern
//	(bholes t k stride)                        DeleteWithKey of k keys of tree t, every stride-th in fill order
//	(berase t)                                 Erase
//	(bclone a)                                 Allocator.Clone + CloneShallow of every tree of a
//	(bchk)                                     property checkpoint on every allocator and tree
//	(brt a thrrel ncuts seed mem|disk)         threshold := Size()+thrrel; Hibernate; [Serialize; faults; Deserialize]; Boot
//	(blz n period seed PATTERN)                CompressUInt32Slice / DecompressUInt32Slice on a synthetic buffer
package main

import (
	"bytes"
	"math/rand"
	"os"
	"path/filepath"
	"sort"
	"strings"
	"time"

	"gopkg.in/src-d/hercules.v10/verifapi"
	. "verifharness/lib"
)

func isBigOp(kind string) bool {
	switch kind {
	case "bnewtree", "bfill", "bholes", "berase", "bclone", "bchk", "brt", "blz":
		return true
	}
	return false
}

// ---------------------------------------------------------------------------------------------
// value patterns

func mix32(x, seed uint32) uint32 {
	x = x*0x9E3779B9 + seed
	x ^= x >> 16
	x *= 0x85ebca6b
	x ^= x >> 13
	x *= 0xc2b2ae35
	x ^= x >> 16
	return x
}

func mix64(x uint64) uint64 {
	x += 0x9E3779B97F4A7C15
	x = (x ^ (x >> 30)) * 0xBF58476D1CE4E5B9
	x = (x ^ (x >> 27)) * 0x94D049BB133111EB
	return x ^ (x >> 31)
}

// genBuf builds n uint32 values.
//
//	seq    i + seed                                  const  seed
//	ramp   i mod period                              rnd    pseudo-random, incompressible
//	per    pseudo-random with a period of `period` ELEMENTS (a match exactly 4*period bytes back)
//	perb   pseudo-random BYTES with a period of `period` bytes (any distance, also odd ones)
//	steps  runs of `period` equal elements, 2..4 values in turn, four equal bytes each (byte-run path of the match finder)
//	runs   the same with ordinary small numbers
//	mix    literal runs and back references of many lengths; distances around `period` elements
func genBuf(pat string, n, period int, seed uint32) []uint32 {
	if period < 1 {
		period = 1
	}
	buf := make([]uint32, n)
	switch pat {
	case "seq":
		for i := range buf {
			buf[i] = uint32(i) + seed
		}
	case "const":
		for i := range buf {
			buf[i] = seed
		}
	case "ramp":
		for i := range buf {
			buf[i] = uint32(i % period)
		}
	case "steps", "runs":
		// runs of `period` equal elements cycling through m = 2 + seed%3 values, so that an older run of the
		// same value straddles the far edge of the 64 KiB window; "steps": the four bytes of a value are equal
		// too (0x01010101 * b, the byte-run path of the match finder), "runs": ordinary small numbers
		m := 2 + int(seed%3)
		for i := range buf {
			b := uint32((i/period)%m + 1)
			if pat == "steps" {
				buf[i] = 0x01010101 * b
			} else {
				buf[i] = 7*b + seed
			}
		}
	case "rnd":
		for i := range buf {
			buf[i] = mix32(uint32(i), seed)
		}
	case "per":
		for i := range buf {
			buf[i] = mix32(uint32(i%period), seed)
		}
	case "perb":
		tab := make([]byte, period)
		for j := range tab {
			tab[j] = byte(mix32(uint32(j), seed) >> 11)
		}
		j := 0
		for i := range buf {
			var v uint32
			for b := 0; b < 4; b++ {
				v |= uint32(tab[j]) << (8 * uint(b))
				j++
				if j == period {
					j = 0
				}
			}
			buf[i] = v
		}
	case "mix":
		r := rand.New(rand.NewSource(int64(seed)))
		lits := []int{0, 1, 3, 4, 5, 14, 15, 16, 19, 20, 67, 68, 269, 270, 271, 1000}
		lens := []int{1, 2, 4, 5, 18, 19, 20, 273, 274, 275, 5000}
		dists := []int{1, 2, 3, period - 1, period, period + 1, 16383, 16384, 16385}
		i := 0
		for i < n {
			for k := lits[r.Intn(len(lits))]; k > 0 && i < n; k-- {
				buf[i] = r.Uint32()
				i++
			}
			d := dists[r.Intn(len(dists))]
			if d < 1 || d > i {
				continue
			}
			for k := lens[r.Intn(len(lens))]; k > 0 && i < n; k-- {
				buf[i] = buf[i-d]
				i++
			}
		}
	default:
		panic("unknown value pattern " + pat)
	}
	return buf
}

func keyAt(pat string, i, n int, base uint32) uint32 {
	switch pat {
	case "asc":
		return base + uint32(i)
	case "desc":
		return base + uint32(n-1-i)
	case "rnd":
		return (base + uint32(i)) * 2654435761 // odd multiplier: a bijection of uint32, distinct keys
	}
	panic("unknown key pattern " + pat)
}

// ---------------------------------------------------------------------------------------------
// world

type bigTree struct {
	t    *verifapi.RBTree
	a    int
	keys []uint32 // in fill order
	gone []bool
	n    int    // elements the tree must hold
	sum  uint64 // sum of mix64(key, value) over the elements the tree must hold
}

type bigWorld struct {
	allocs []*verifapi.Allocator
	trees  []*bigTree
	dir    string
	dead   bool // an arena could not be restored; nothing more is run
	hibs   int
	lzs    int
}

func itemHash(k, v uint32) uint64 { return mix64(uint64(k)<<32 | uint64(v)) }

func cellSx(c verifapi.VerifNode) Sx {
	return L(U64(uint64(c.Key)), U64(uint64(c.Value)), U64(uint64(c.Left)), U64(uint64(c.Parent)), U64(uint64(c.Right)), B(c.Color))
}

func firstDiffU32(a, b []uint32) (idx int, ndiff int) {
	idx = -1
	if len(a) != len(b) {
		return 0, -1
	}
	for i := range a {
		if a[i] != b[i] {
			if idx < 0 {
				idx = i
			}
			ndiff++
		}
	}
	return
}

// lzVerdict exercises the recorded LZ4 assumption on one buffer: compress (or take the compressed bytes
// the allocator produced), decompress with the real code, compare.
func lzVerdict(in []uint32, data []byte) Sx {
	if len(in) == 0 {
		if len(data) == 0 { // nil, or the empty block an earlier Deserialize left (Boot resets it only when there are gaps)
			return A("none")
		}
		return A("spurious")
	}
	if len(data) == 0 {
		return A("empty")
	}
	out := make([]uint32, len(in))
	verifapi.DecompressUInt32Slice(data, out)
	idx, nd := firstDiffU32(in, out)
	if idx < 0 {
		return A("ok")
	}
	return T("diff", I(idx), U64(uint64(in[idx])), U64(uint64(out[idx])), I(nd))
}

func (w *bigWorld) okAlloc(a int) bool { return a >= 0 && a < len(w.allocs) }
func (w *bigWorld) okTree(t int) bool  { return t >= 0 && t < len(w.trees) }

func splitPats(mode string) (string, string) {
	p := strings.SplitN(mode, ".", 2)
	if len(p) != 2 {
		panic("bfill needs KEYS.VALUES, got " + mode)
	}
	return p[0], p[1]
}

func (w *bigWorld) do(o op) Sx {
	if w.dead {
		return T("skip")
	}
	switch o.kind {
	case "bnewtree":
		a := o.arg(0)
		if !w.okAlloc(a) || len(w.trees) >= 8 {
			return T("skip")
		}
		var t *verifapi.RBTree
		t = verifapi.NewRBTree(w.allocs[a])
		w.trees = append(w.trees, &bigTree{t: t, a: a})
		return T("ok")
	case "bfill":
		t, n, base, period, seed := o.arg(0), o.arg(1), uint32(o.arg(2)), o.arg(3), uint32(o.arg(4))
		if !w.okTree(t) || n < 0 {
			return T("skip")
		}
		kp, vp := splitPats(o.mode)
		tr := w.trees[t]
		vals := genBuf(vp, n, period, seed)
		ins := 0
		msg, p := Catch(func() {
			for i := 0; i < n; i++ {
				k := keyAt(kp, i, n, base)
				ok, _ := tr.t.Insert(verifapi.Item{Key: k, Value: vals[i]})
				if ok {
					ins++
					tr.keys = append(tr.keys, k)
					tr.gone = append(tr.gone, false)
					tr.n++
					tr.sum += itemHash(k, vals[i])
				}
			}
		})
		if p {
			return T("panic", A(panicClass(msg)), I(ins))
		}
		return T("bfill", I(ins))
	case "bholes":
		t, k, stride := o.arg(0), o.arg(1), o.arg(2)
		if !w.okTree(t) || stride < 1 {
			return T("skip")
		}
		tr := w.trees[t]
		del, lost := 0, 0
		msg, p := Catch(func() {
			for i := stride - 1; i < len(tr.keys) && del < k; i += stride {
				if tr.gone[i] {
					continue
				}
				key := tr.keys[i]
				it := tr.t.FindGE(key)
				if it.Limit() || it.Item().Key != key {
					lost++ // an element the tree must hold is not found
					continue
				}
				v := it.Item().Value
				if tr.t.DeleteWithKey(key) {
					tr.gone[i] = true
					tr.n--
					tr.sum -= itemHash(key, v)
					del++
				} else {
					lost++
				}
			}
		})
		if p {
			return T("panic", A(panicClass(msg)), I(del))
		}
		return T("bholes", I(del), I(lost))
	case "berase":
		t := o.arg(0)
		if !w.okTree(t) {
			return T("skip")
		}
		tr := w.trees[t]
		msg, p := Catch(func() { tr.t.Erase() })
		if p {
			return T("panic", A(panicClass(msg)))
		}
		for i := range tr.gone {
			tr.gone[i] = true
		}
		tr.n, tr.sum = 0, 0
		return T("ok")
	case "bclone":
		a := o.arg(0)
		if !w.okAlloc(a) || len(w.allocs) >= 3 || len(w.trees) >= 8 {
			return T("skip")
		}
		var c *verifapi.Allocator
		msg, p := Catch(func() { c = w.allocs[a].Clone() })
		if p {
			return T("panic", A(panicClass(msg)))
		}
		w.allocs = append(w.allocs, c)
		na := len(w.allocs) - 1
		for _, tr := range w.trees[:len(w.trees):len(w.trees)] {
			if tr.a == a && len(w.trees) < 8 {
				w.trees = append(w.trees, &bigTree{t: tr.t.CloneShallow(c), a: na,
					keys: append([]uint32{}, tr.keys...), gone: append([]bool{}, tr.gone...), n: tr.n, sum: tr.sum})
			}
		}
		return T("ok")
	case "bchk":
		return w.checkpoint()
	case "brt":
		return w.roundTrip(o)
	case "blz":
		n, period, seed := o.arg(0), o.arg(1), uint32(o.arg(2))
		if n < 1 {
			return T("skip")
		}
		buf := genBuf(o.mode, n, period, seed)
		keep := append([]uint32{}, buf...)
		data := verifapi.CompressUInt32Slice(buf)
		w.lzs++
		intact := true
		if idx, _ := firstDiffU32(keep, buf); idx >= 0 {
			intact = false // the compressor wrote into its input
		}
		return T("blz", I(n), I(len(data)), lzVerdict(keep, data), B(intact))
	}
	panic("unknown big op " + o.kind)
}

// checkpoint judges the property on every allocator: owners (trees) pairwise disjoint, inside the
// arena, never a gap, Used() = live + 1; every tree holds exactly the elements it must hold.
func (w *bigWorld) checkpoint() Sx {
	res := []Sx{}
	for ai, a := range w.allocs {
		s := a.VerifSnapshot()
		if s.StorageNil {
			res = append(res, T("A", I(ai), A("asleep"), I(s.HibernatedStorageLen), I(s.HibernatedGapsLen)))
			continue
		}
		size := len(s.Storage)
		owned := make([]uint64, size/64+1)
		live, dup, oob := 0, 0, 0
		trs := []Sx{}
		for ti, tr := range w.trees {
			if tr.a != ai {
				continue
			}
			h := tr.t.VerifHeader()
			reached := 0
			stack := []uint32{h.Root}
			for len(stack) > 0 {
				n := stack[len(stack)-1]
				stack = stack[:len(stack)-1]
				if n == 0 {
					continue
				}
				if int(n) >= size {
					oob++
					continue
				}
				if owned[n/64]&(1<<(n%64)) != 0 {
					dup++
					continue
				}
				owned[n/64] |= 1 << (n % 64)
				reached++
				stack = append(stack, s.Storage[n].Left, s.Storage[n].Right)
			}
			live += reached
			// the tree through its own iterators: as many elements as it must hold, ascending, the same content
			walked, sorted, sum := 0, true, uint64(0)
			msg, p := Catch(func() {
				var prev uint32
				limit := tr.t.Len() + 3
				for it := tr.t.Min(); !it.Limit(); it = it.Next() {
					item := it.Item()
					if walked > 0 && item.Key <= prev {
						sorted = false
					}
					prev = item.Key
					sum += itemHash(item.Key, item.Value)
					walked++
					if walked > limit {
						break
					}
				}
			})
			if p {
				trs = append(trs, T("T", I(ti), I(tr.n), I(tr.t.Len()), I(reached), T("panic", A(panicClass(msg)))))
				continue
			}
			trs = append(trs, T("T", I(ti), I(tr.n), I(tr.t.Len()), I(reached), I(walked), B(sorted), B(sum == tr.sum)))
		}
		gown, gbad := 0, 0
		for _, g := range s.Gaps {
			if g == 0 || int(g) >= size {
				gbad++
			} else if owned[g/64]&(1<<(g%64)) != 0 {
				gown++
			}
		}
		used := -1
		Catch(func() { used = a.Used() })
		fields := []Sx{I(ai), T("sz", I(size), I(a.Size())), T("ng", I(len(s.Gaps))), T("u", I(used)), T("live", I(live)),
			T("dup", I(dup)), T("oob", I(oob)), T("gown", I(gown)), T("gbad", I(gbad))}
		res = append(res, T("A", append(fields, trs...)...))
	}
	return T("bchk", res...)
}

// roundTrip: Hibernate (at the given threshold position), optionally through a file with faults, Boot;
// everything is compared inside the harness.
func (w *bigWorld) roundTrip(o op) Sx {
	ai, thrrel, ncuts, seed := o.arg(0), o.arg(1), o.arg(2), o.arg(3)
	disk := o.mode == "disk"
	if !w.okAlloc(ai) {
		return T("skip")
	}
	a := w.allocs[ai]
	tm := time.Now()
	lap := func(what string) {
		if os.Getenv("C06_TIMING") == "2" {
			os.Stderr.WriteString("      " + what + " " + time.Since(tm).String() + "\n")
		}
		tm = time.Now()
	}
	before := a.VerifSnapshot()
	if before.StorageNil {
		return T("skip")
	}
	lap("snapshot")
	size := len(before.Storage)
	usedBefore := a.Used()
	thr := size + thrrel
	if thr < 0 {
		thr = 0
	}
	a.HibernationThreshold = thr
	res := []Sx{T("sz", I(size)), T("ng", I(len(before.Gaps))), T("thr", I(thr))}
	msg, p := Catch(func() { a.Hibernate() })
	if p {
		return T("brt", append(res, T("hib", A("panic"), A(panicClass(msg))))...)
	}
	lap("hibernate")
	mid := a.VerifSnapshot()
	if !mid.StorageNil {
		// nothing happened: below the threshold (or empty): the arena must be untouched
		res = append(res, T("hib", A("noop")), compareArena(before, mid), T("used", I(usedBefore), I(a.Used())),
			T("after", I(mid.HibernatedStorageLen), I(mid.HibernatedGapsLen)))
		return T("brt", res...)
	}
	w.hibs++
	res = append(res, T("hib", A("ok"), I(mid.HibernatedStorageLen), I(mid.HibernatedGapsLen)))
	// the LZ4 assumption on every buffer the allocator produced
	data := a.VerifHibernatedData()
	ins := make([][]uint32, 7)
	for k := 0; k < 6; k++ {
		ins[k] = make([]uint32, size)
	}
	for i, c := range before.Storage {
		ins[0][i], ins[1][i], ins[2][i], ins[3][i], ins[4][i] = c.Key, c.Value, c.Left, c.Parent, c.Right
		if c.Color {
			ins[5][i] = 1
		}
	}
	ins[6] = before.Gaps
	bufs := make([]Sx, 7)
	restorable := true
	for k := 0; k < 7; k++ {
		clen := -1
		if data[k] != nil {
			clen = len(data[k])
		}
		v := lzVerdict(ins[k], data[k])
		if !v.IsL && v.Atom == "empty" {
			restorable = false
		}
		bufs[k] = T("b", I(k), I(len(ins[k])), I(clen), v)
	}
	res = append(res, T("bufs", bufs...))
	ins = nil
	lap("lz verdicts")
	// every use of the sleeping allocator is refused
	refused := func(f func()) Sx { _, p := Catch(f); return B(p) }
	ref := []Sx{refused(func() { a.Used() }), refused(func() { a.VerifMalloc() }), refused(func() { a.Clone() }),
		refused(func() { a.Hibernate() })}
	for _, tr := range w.trees {
		if tr.a == ai {
			ref = append(ref, refused(func() { tr.t.Insert(verifapi.Item{Key: 4000000000, Value: 1}) }))
			break
		}
	}
	res = append(res, T("refused", ref...))
	if disk {
		useDir()
		path := filepath.Join(w.dir, "big.bin")
		var err error
		msg, p := Catch(func() { err = a.Serialize(path) })
		if p || err != nil {
			res = append(res, T("ser", A("failed"), A(panicClass(msg))))
			w.dead = true
			return T("brt", res...)
		}
		file, rerr := os.ReadFile(path)
		if rerr != nil {
			panic(rerr)
		}
		// the layout, section by section: the raw varint bytes go to the driver (which encodes the
		// expected numbers with the extracted write_varint), payloads are compared here
		secs := []Sx{}
		bounds := []int{0}
		pos := 0
		readVarint := func() []byte {
			st := pos
			for pos < len(file) && file[pos]&0x80 != 0 {
				pos++
			}
			if pos < len(file) {
				pos++
			}
			return file[st:pos]
		}
		secs = append(secs, T("v", Bytes(readVarint())))
		bounds = append(bounds, pos)
		secs = append(secs, T("v", Bytes(readVarint())))
		bounds = append(bounds, pos)
		for k := 0; k < 7; k++ {
			v := readVarint()
			bounds = append(bounds, pos)
			n := len(data[k])
			ok := pos+n <= len(file) && bytes.Equal(file[pos:pos+n], data[k])
			pos += n
			if pos > len(file) {
				pos = len(file)
			}
			bounds = append(bounds, pos)
			secs = append(secs, T("v", Bytes(v), I(n), B(ok)))
		}
		res = append(res, T("file", append([]Sx{I(len(file)), I(len(file) - pos)}, secs...)...))
		lap("serialize+layout")
		_, p = Catch(func() { a.Boot() })
		res = append(res, T("bootser", B(p)))
		// faults: the file cut at every section boundary, one byte before and after, and at random offsets
		cuts := map[int]bool{}
		for i, b := range bounds {
			if len(file) > 200000 && i > 3 && i < len(bounds)-4 {
				// big files: the head (multi-byte varints), one inner boundary and the last section
				if i != 8 {
					continue
				}
			}
			cuts[b-1], cuts[b], cuts[b+1] = true, true, true
		}
		cuts[len(file)-1] = true
		if len(file) <= everyCutLimit {
			// small files: EVERY proper prefix (C06_truncated speaks about every one of them; a reader that swallows an
			// error is wrong at one particular length only)
			for c := 0; c < len(file); c++ {
				cuts[c] = true
			}
		}
		r := rand.New(rand.NewSource(int64(seed)))
		for k := 0; k < ncuts; k++ {
			cuts[r.Intn(len(file))] = true
		}
		keys := []int{}
		for c := range cuts {
			if c >= 0 && c < len(file) {
				keys = append(keys, c)
			}
		}
		sort.Ints(keys)
		in := filepath.Join(w.dir, "big-in.bin")
		cs := []Sx{}
		for _, c := range keys {
			if err := os.WriteFile(in, file[:c], 0o600); err != nil {
				panic(err)
			}
			var derr error
			_, p := Catch(func() { derr = a.Deserialize(in) })
			cs = append(cs, L(I(c), B(p || derr != nil)))
		}
		os.Remove(in)
		lap("cuts")
		var derr error
		_, p = Catch(func() { derr = a.Deserialize(in) })
		res = append(res, T("cuts", cs...), T("missing", B(p || derr != nil)))
		_, p = Catch(func() { derr = a.Deserialize(path) })
		os.Remove(path)
		sn := a.VerifSnapshot()
		back := a.VerifHibernatedData()
		same := true
		for k := 0; k < 7; k++ {
			if !bytes.Equal(back[k], data[k]) {
				same = false
				if len(back[k]) == 0 && k < 6 {
					restorable = false
				}
			}
		}
		res = append(res, T("deser", B(!p && derr == nil), I(sn.HibernatedStorageLen), I(sn.HibernatedGapsLen), B(same)))
		if p || derr != nil {
			w.dead = true
			return T("brt", res...)
		}
	}
	lap("deserialize")
	if !restorable {
		// Boot would index an empty buffer inside a goroutine and take the process down
		w.dead = true
		return T("brt", append(res, T("boot", A("impossible")))...)
	}
	msg, p = Catch(func() { a.Boot() })
	if p {
		w.dead = true
		return T("brt", append(res, T("boot", A("panic"), A(panicClass(msg))))...)
	}
	lap("boot")
	after := a.VerifSnapshot()
	usedAfter := -1
	Catch(func() { usedAfter = a.Used() })
	hdnil := true
	for k := 0; k < 6; k++ { // the seventh buffer stays as Deserialize left it when there are no gaps (as in the model)
		if !after.HibernatedDataNil[k] {
			hdnil = false
		}
	}
	res = append(res, T("boot", A("ok")), compareArena(before, after), T("used", I(usedBefore), I(usedAfter)),
		T("after", I(after.HibernatedStorageLen), I(after.HibernatedGapsLen), B(hdnil)))
	return T("brt", res...)
}

func compareArena(before, after verifapi.VerifAllocatorSnapshot) Sx {
	if after.StorageNil {
		return T("cmp", A("asleep"))
	}
	if len(before.Storage) != len(after.Storage) {
		return T("cmp", A("len"), I(len(before.Storage)), I(len(after.Storage)))
	}
	first, nd := -1, 0
	for i := range before.Storage {
		if before.Storage[i] != after.Storage[i] {
			if first < 0 {
				first = i
			}
			nd++
		}
	}
	if first >= 0 {
		return T("cmp", A("cell"), I(first), cellSx(before.Storage[first]), cellSx(after.Storage[first]), I(nd))
	}
	if len(before.Gaps) != len(after.Gaps) {
		return T("cmp", A("ngaps"), I(len(before.Gaps)), I(len(after.Gaps)))
	}
	for i := range before.Gaps {
		if before.Gaps[i] != after.Gaps[i] {
			return T("cmp", A("gap"), I(i), U64(uint64(before.Gaps[i])), U64(uint64(after.Gaps[i])))
		}
	}
	return T("cmp", A("same"))
}

// ---------------------------------------------------------------------------------------------
// running and generating

type bigScript struct {
	w   *bigWorld
	ops []op
	obs []Sx
}

func (s *bigScript) emit(kind string) {
	sops := make([]Sx, len(s.ops))
	for i, o := range s.ops {
		sops[i] = o.sx()
	}
	cfg.Emit(T("kind", A(kind)), T("nt", B(s.w.hibs+s.w.lzs > 0)), T("ops", sops...), T("obs", s.obs...))
}

// runBig executes a list of big operations with a watchdog (an operation of a mutated implementation
// that does not terminate becomes a (hang) observation).
func runBig(kind string, ops []op, limit time.Duration) {
	if os.Getenv("C06_TIMING") != "" {
		t0 := time.Now()
		defer func() {
			line := ""
			for _, o := range ops {
				if o.kind == "bfill" || o.kind == "blz" {
					line = o.sx().String()
					break
				}
			}
			os.Stderr.WriteString(time.Since(t0).String() + " " + kind + " " + line + "\n")
		}()
	}
	if dirUsed {
		os.RemoveAll(caseDir)
		dirUsed = false
	}
	s := &bigScript{w: &bigWorld{dir: caseDir}}
	s.w.allocs = append(s.w.allocs, verifapi.NewAllocator())
	done := make(chan bool, 1)
	go func() {
		for _, o := range ops {
			s.ops = append(s.ops, o)
			t1 := time.Now()
			r := s.w.do(o)
			if os.Getenv("C06_TIMING") == "2" {
				os.Stderr.WriteString("   " + time.Since(t1).String() + " " + o.sx().String() + "\n")
			}
			s.obs = append(s.obs, T("o", r))
		}
		done <- true
	}()
	select {
	case <-done:
		s.emit(kind)
	case <-time.After(limit):
		ops := s.ops
		obs := append(s.obs[:len(s.obs):len(s.obs)], T("o", T("hang")))
		if len(ops) > len(obs) {
			ops = ops[:len(obs)]
		}
		(&bigScript{w: s.w, ops: ops, obs: obs}).emit(kind)
		cfg.Close()
		os.RemoveAll(caseDir)
		os.Exit(0)
	}
}

// everyCutLimit: files up to this length are cut at every length 0 .. len-1, larger ones at the section boundaries +-1 and
// at random offsets.
const everyCutLimit = 8192

func bop(kind, mode string, args ...int) op { return op{kind: kind, args: args, mode: mode} }

// arena builds the script of one large arena of exactly `size` cells (slot 0 included):
// a big tree (keys / values by pattern), a small second tree on the same allocator, optional gaps,
// round trips at the threshold positions, life after the round trip (gaps are re-used), a second round trip.
func arenaScript(size int, kp, vp string, period int, gaps bool, disk bool, again bool, r *rand.Rand) []op {
	mode := "mem"
	if disk {
		mode = "disk"
	}
	small := 100
	if size < 400 {
		small = size / 4
	}
	n := size - 1 - small
	seed := int(r.Int31())
	if vp == "const" {
		seed = []int{0xFFFFFFFF, 0x01010101, 0, seed}[r.Intn(4)] // TreeEnd and other single-byte runs
	}
	ops := []op{bop("bnewtree", "", 0), bop("bnewtree", "", 0),
		bop("bfill", kp+"."+vp, 0, n, 0, period, seed),
		bop("bfill", "rnd.rnd", 1, small, 7, 1, seed+1)}
	if gaps {
		ops = append(ops, bop("bholes", "", 1, small/6+1, 5))
		if r.Intn(2) == 0 {
			ops = append(ops, bop("bholes", "", 0, 1+r.Intn(1+n/50), 1+r.Intn(40)))
		}
	}
	ops = append(ops, bop("bchk", ""))
	if r.Intn(3) == 0 {
		ops = append(ops, bop("brt", "mem", 0, 1, 0, 0)) // below the threshold: untouched
	}
	ops = append(ops, bop("brt", mode, 0, []int{0, -1, -size}[r.Intn(3)], 3, int(r.Int31())), bop("bchk", ""))
	if again {
		// life goes on: more gaps, some of them re-used, and a second round trip
		ops = append(ops, bop("bholes", "", 0, 1+n/100, 7), bop("bfill", "asc.seq", 1, 50+r.Intn(50), 1000000, 1, 3),
			bop("bchk", ""), bop("brt", []string{"mem", "disk"}[r.Intn(2)], 0, 0, 2, int(r.Int31())), bop("bchk", ""))
	}
	return ops
}

// lzScript: the codec alone on synthetic buffers of n elements; periods in elements (and the same
// distances +-1 in bytes); the costly "mix" and "ramp" patterns only for the periods in `rich`.
func lzScript(n int, periods []int, rich map[int]bool, r *rand.Rand) []op {
	ops := []op{}
	for _, pat := range []string{"seq", "const", "rnd"} {
		ops = append(ops, bop("blz", pat, n, 1, int(r.Int31())))
	}
	// constants whose four bytes are equal (a single byte run): 0, TreeEnd = MaxUint32, 0x01010101
	ops = append(ops, bop("blz", "const", n, 1, 0), bop("blz", "const", n, 1, 0xFFFFFFFF), bop("blz", "const", n, 1, 0x01010101))
	for _, p := range periods {
		if p > n {
			continue // no repetition inside the buffer: the same as rnd
		}
		pats := []string{"per", "perb"}
		if rich == nil || rich[p] {
			pats = append(pats, "ramp", "mix")
		}
		for _, pat := range pats {
			per := p
			if pat == "perb" {
				per = 4 * p // the same distance, measured in bytes ...
			}
			ops = append(ops, bop("blz", pat, n, per, int(r.Int31())))
			if pat == "perb" {
				// ... and the byte distances next to it, which no uint32 period can produce
				ops = append(ops, bop("blz", pat, n, per-1, int(r.Int31())), bop("blz", pat, n, per+1, int(r.Int31())))
			}
		}
	}
	// long runs of few values: run lengths around 64 KiB / 2, 3, .. 6 and 64 KiB itself
	for _, p := range append(straddle(1<<13, 1<<14), 2731, 4096, 5461, 6000, 10923, 12000, 13107, 15000) {
		if 2*p > n {
			continue
		}
		sd := int(r.Int31())
		ops = append(ops, bop("blz", "steps", n, p, sd), bop("blz", "steps", n, p, sd+1))
		if p == 6000 || p == 12000 || p == 1<<14 {
			ops = append(ops, bop("blz", "runs", n, p, sd+2)) // slow to compress: few of them
		}
	}
	return ops
}

// straddle returns c-1, c, c+1 for every c.
func straddle(cs ...int) []int {
	var r []int
	for _, c := range cs {
		r = append(r, c-1, c, c+1)
	}
	return r
}

func genScale() {
	r := cfg.Rng
	thorough := cfg.Tier == "thorough"
	lim := 120 * time.Second
	if thorough {
		lim = 900 * time.Second
	}
	// ---- the codec alone (cheap): sizes straddle the constants of lz4hc.c, in elements and in bytes:
	// MINMATCH 4, LASTLITERALS 5, MFLIMIT 12, RUN_MASK/ML_MASK 15 (+255 per extra length byte), LZ4_OPT_NUM 4096,
	// the 64 KiB window (16384 elements), the 2^15 hash table, 2^16, the /255 of LZ4_compressBound.
	small := []int{1, 2, 3, 4, 5, 6, 7, 8, 15, 16, 17, 63, 64, 65, 67, 68, 69, 127, 128, 129, 255, 256, 257, 1000}
	for _, n := range small {
		runBig("lz", lzScript(n, []int{1, 2, 3, 5, 16, 64}, nil, r), lim)
	}
	mids := append(straddle(1024, 4096, 1<<14, 1<<15, 1<<16), 10000, 40000)
	rich := map[int]bool{1: true, 100: true}
	for _, p := range straddle(1<<12, 1<<14, 1<<16) {
		rich[p] = true
	}
	for _, n := range mids {
		runBig("lz", lzScript(n, append(straddle(1<<12, 1<<13, 1<<14, 1<<15, 1<<16), 1, 7, 100), rich, r), lim)
	}
	// incompressible input around the point where srcSize/255 and srcSize/256 differ by more than the slack of 16
	bigs := []int{230000, 300000, 400001, 600000, 1000000}
	if thorough {
		bigs = append(bigs, 2000000, 4000000, 1<<24, 1<<24+1)
	}
	for _, n := range bigs {
		ops := []op{bop("blz", "rnd", n, 1, int(r.Int31())), bop("blz", "seq", n, 1, 0), bop("blz", "const", n, 1, 9),
			bop("blz", "const", n, 1, 0xFFFFFFFF), bop("blz", "steps", n, 12000, 0), bop("blz", "steps", n, 1<<14-1, 3),
			bop("blz", "per", n, 1<<14, int(r.Int31())), bop("blz", "per", n, 1<<16, int(r.Int31())),
			bop("blz", "perb", n, 1<<16, int(r.Int31())), bop("blz", "mix", n, 1<<14, int(r.Int31()))}
		if thorough {
			ops = append(ops, bop("blz", "runs", n, 6000, 1))
		}
		runBig("lz", ops, lim)
	}
	// ---- arenas
	type shape struct {
		size     int
		kp, vp   string
		period   int
		gaps, dk bool
	}
	var shapes []shape
	add := func(size int, kp, vp string, period int, gaps, dk bool) {
		shapes = append(shapes, shape{size, kp, vp, period, gaps, dk})
	}
	keys := []string{"asc", "desc", "rnd"}
	k := 0
	nextKey := func() string { k++; return keys[k%3] }
	for _, size := range []int{1000, 10000} {
		for _, vp := range []string{"seq", "const", "rnd"} {
			add(size, nextKey(), vp, 1, k%2 == 0, k%3 == 0)
		}
		for _, p := range straddle(1<<8, 1<<12) {
			add(size, nextKey(), "per", p, k%2 == 0, k%3 == 0)
		}
	}
	// around the 64 KiB window of the match finder: 2^14 cells per field buffer
	for _, size := range straddle(1 << 14) {
		for _, vp := range []string{"seq", "rnd"} {
			add(size, nextKey(), vp, 1, k%2 == 0, k%3 == 0)
		}
		for _, p := range straddle(1<<12, 1<<13) {
			add(size, nextKey(), "per", p, k%2 == 0, k%3 == 0)
		}
	}
	// 4*10^4: the dense sweep of periods around 2^12, 2^13, 2^14 nodes and 2^14, 2^16, 2^17 bytes
	for _, kp := range keys {
		add(40000, kp, "seq", 1, kp != "asc", kp == "desc")
	}
	add(40000, nextKey(), "const", 1, true, false)
	add(40000, nextKey(), "rnd", 1, true, true)
	for _, p := range straddle(1<<12, 1<<13, 1<<14) {
		add(40000, nextKey(), "per", p, k%2 == 0, k%3 == 0)
	}
	for _, p := range straddle(1 << 14) {
		add(40000, nextKey(), "ramp", p, k%2 == 0, k%3 == 0)
		add(40000, nextKey(), "steps", p-4000, k%2 == 0, k%3 == 0)
	}
	for _, p := range straddle(1<<14, 1<<16, 1<<17) { // bytes
		add(40000, nextKey(), "perb", p, k%2 == 0, k%3 == 0)
	}
	for _, size := range []int{1<<15 + 1, 1<<16 + 1} {
		add(size, "asc", "seq", 1, false, false)
		add(size, nextKey(), "rnd", 1, true, true)
		add(size, nextKey(), "per", 1<<14, true, false)
	}
	// 10^5
	add(100000, "asc", "seq", 1, false, false)
	add(100000, "desc", "seq", 1, true, true)
	add(100000, "rnd", "rnd", 1, true, true)
	add(100000, "asc", "const", 1, false, true)
	add(100000, nextKey(), "steps", 10923, false, false)
	add(100000, nextKey(), "runs", 6000, true, false)
	for _, p := range append(straddle(1<<14), 1<<15) {
		add(100000, nextKey(), "per", p, k%2 == 0, k%3 == 0)
	}
	add(100000, nextKey(), "perb", 1<<16, true, false)
	if thorough {
		add(100000, "rnd", "seq", 1, true, false)
		add(100000, nextKey(), "const", 1, true, false)
		for _, p := range []int{1<<16 - 1, 1<<16 + 1, 1 << 17} { // bytes
			add(100000, nextKey(), "perb", p, k%2 == 0, k%3 == 0)
		}
	}
	if thorough {
		// beyond: where the slack of the compression bound is used up by incompressible fields (about 2.3*10^5 cells)
		for _, size := range []int{230000, 300000, 400000, 600000, 1000000} {
			add(size, "asc", "rnd", 1, true, true)
			add(size, "rnd", "rnd", 1, true, false)
			add(size, "desc", "seq", 1, false, true)
			add(size, "asc", "const", 1, true, false)
			for _, p := range straddle(1<<14, 1<<16) {
				add(size, nextKey(), "per", p, k%2 == 0, k%3 == 0)
			}
			add(size, "asc", "perb", 1<<16, true, true)
		}
	}
	for i, sh := range shapes {
		again := sh.size <= 20000 || (i%4 == 0 && sh.size <= 100000)
		runBig("scale", arenaScript(sh.size, sh.kp, sh.vp, sh.period, sh.gaps, sh.dk, again, r), lim)
	}
	// small arenas with gaps whose file has a few hundred bytes to a few KB: cut at EVERY length (see everyCutLimit)
	for i, size := range []int{12, 40, 129, 300, 700, 1200} {
		vp := []string{"rnd", "seq", "const"}[i%3]
		runBig("scale", arenaScript(size, []string{"rnd", "asc", "desc"}[i%3], vp, 1, true, true, i%2 == 0, r), lim)
	}
	// gaps only: everything erased (size-1 gaps: the gap buffer is the long one), refilled in Go map order
	esizes := []int{1000, 1<<14 + 1, 1<<16 + 2}
	if thorough {
		esizes = append(esizes, 100000, 300000)
	}
	for _, size := range esizes {
		ops := []op{bop("bnewtree", "", 0), bop("bnewtree", "", 0), bop("bfill", "asc.rnd", 0, size-1-size/4, 0, 1, 11),
			bop("bfill", "desc.seq", 1, size/4, 0, 1, 0), bop("berase", "", 0), bop("bchk", ""),
			bop("brt", "disk", 0, 0, 2, 5), bop("bchk", ""), bop("berase", "", 1), bop("bchk", ""), bop("brt", "mem", 0, -1, 0, 0),
			bop("bfill", "rnd.per", 1, size/2, 0, 4096, 13), bop("bchk", ""), bop("brt", "mem", 0, 0, 0, 0), bop("bchk", "")}
		runBig("scale", ops, lim)
	}
	// clone at scale: the copy evolves on its own
	for _, size := range []int{1000, 1<<14 + 1, 100000} {
		ops := []op{bop("bnewtree", "", 0), bop("bfill", "rnd.rnd", 0, size-1, 0, 1, 5), bop("bclone", "", 0),
			bop("bholes", "", 0, size/10, 3), bop("bchk", ""), bop("bfill", "asc.seq", 1, size/5, 17, 1, 0), bop("bchk", ""),
			bop("brt", "mem", 0, 0, 0, 0), bop("bchk", ""), bop("brt", "disk", 1, -1, 1, 1), bop("bchk", "")}
		runBig("scale", ops, lim)
	}
}
