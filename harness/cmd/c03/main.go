// Harness for C03: drives the real internal/burndown.File (NewFile with an Updater that logs its calls,
// Update, Len, the node list of the underlying tree, the flattened lines) with generated operation
// sequences and records everything observable after every operation.
package main

import (
	"io"
	"log"
	"os"
	"strings"

	"gopkg.in/src-d/hercules.v10/verifapi"
	. "verifharness/lib"
)

type op struct{ t, pos, ins, del int }

const hugeLen = 100000
const mark = verifapi.TreeMergeMark
const maxU32 = 1<<32 - 1

// panicClass maps the panic message to the small enum the model uses.
func panicClass(msg string) string {
	switch {
	case strings.Contains(msg, "time may not be negative"):
		return "time-neg"
	case strings.Contains(msg, "time may not be >= MaxUint32"):
		return "time-big"
	case strings.Contains(msg, "negative position"):
		return "pos-neg"
	case strings.Contains(msg, "pos may not be > MaxUint32"):
		return "pos-big"
	case strings.Contains(msg, "must be non-negative"):
		return "len-neg"
	case strings.Contains(msg, "insLength and delLength may not be > MaxUint32"):
		return "len-big"
	case strings.Contains(msg, "invalid tree state"):
		return "invalid-tree"
	case strings.Contains(msg, "insert after the end"):
		return "after-end"
	case strings.Contains(msg, "delete after the end"):
		return "del-after-end"
	case strings.Contains(msg, "previousTime cannot be TreeMergeMark"):
		return "mark"
	case strings.Contains(msg, "nil pointer"):
		return "nil"
	case strings.Contains(msg, "time is out of allowed range"):
		return "new-time"
	case strings.Contains(msg, "length is out of allowed range"):
		return "new-len"
	}
	return "other"
}

type tracked struct {
	file *verifapi.File
	cbs  [][3]int
}

func observe(tr *tracked) Sx {
	f := tr.file
	var nodes []Sx
	maxKey := 0
	for it := f.VerifTree().Min(); !it.Limit(); it = it.Next() {
		nodes = append(nodes, L(I(int(it.Item().Key)), I(int(it.Item().Value))))
		if int(it.Item().Key) > maxKey {
			maxKey = int(it.Item().Key)
		}
	}
	n := f.Len()
	var lines []int
	if maxKey <= hugeLen { // flatten allocates one int per line
		lines = f.VerifFlatten()
	}
	cbs := make([]Sx, len(tr.cbs))
	for i, c := range tr.cbs {
		cbs[i] = L(I(c[0]), I(c[1]), I(c[2]))
	}
	tr.cbs = tr.cbs[:0]
	ls := make([]Sx, len(lines))
	for i, v := range lines {
		ls[i] = I(v)
	}
	return T("ok", I(n), T("nodes", nodes...), T("lines", ls...), T("cb", cbs...))
}

// newTracked runs NewFile; the observation is the first element of obs.
func newTracked(t0, n0 int) (*tracked, Sx) {
	tr := &tracked{}
	msg, p := Catch(func() {
		tr.file = verifapi.NewFile(t0, n0, verifapi.NewAllocator(), func(cur, prev, delta int) {
			tr.cbs = append(tr.cbs, [3]int{cur, prev, delta})
		})
	})
	if p {
		return nil, T("panic", A(panicClass(msg)))
	}
	return tr, observe(tr)
}

// step applies one operation; ok=false after a panic (the file is abandoned then).
func (tr *tracked) step(o op) (Sx, bool) {
	msg, p := Catch(func() { tr.file.Update(o.t, o.pos, o.ins, o.del) })
	if p {
		return T("panic", A(panicClass(msg))), false
	}
	return observe(tr), true
}

func opsSx(ops []op) Sx {
	l := make([]Sx, len(ops))
	for i, o := range ops {
		l[i] = L(I(o.t), I(o.pos), I(o.ins), I(o.del))
	}
	return T("ops", l...)
}

// runCase executes a whole case from scratch and emits it.
func runCase(c *Config, kind string, t0, n0 int, ops []op) {
	tr, ob := newTracked(t0, n0)
	obs := []Sx{ob}
	changed := false
	if tr != nil {
		for _, o := range ops {
			s, ok := tr.step(o)
			obs = append(obs, s)
			if !ok {
				break
			}
			if o.ins > 0 || o.del > 0 {
				changed = true
			}
		}
	}
	c.Emit(T("kind", A(kind)), T("nt", B(changed)), T("t0", I(t0)), T("n0", I(n0)), opsSx(ops), T("obs", obs...))
}

// ---------- exhaustive small scope ----------

// every sequence of at most depth operations on a file of n0 lines stamped t0: pos 0..len, del 0..len-pos,
// ins 0..2, ticks t0 and t0+1.  The array is tracked here only to know the length.
func exhaustive(c *Config, t0, n0, depth int) {
	var rec func(length int, prefix []op)
	rec = func(length int, prefix []op) {
		if len(prefix) > 0 {
			runCase(c, "ex", t0, n0, prefix)
		}
		if len(prefix) == depth {
			return
		}
		for _, t := range []int{t0, t0 + 1} {
			for pos := 0; pos <= length; pos++ {
				for del := 0; pos+del <= length; del++ {
					for ins := 0; ins <= 2; ins++ {
						if ins == 0 && del == 0 {
							continue
						}
						next := append(append([]op{}, prefix...), op{t, pos, ins, del})
						rec(length+ins-del, next)
					}
				}
			}
		}
	}
	rec(n0, nil)
}

// exhaustive malformed: a valid prefix of at most one operation followed by one request with pos up to len+1 and
// del up to len+1 (so beyond-the-end positions and deletions past the end are all enumerated), incl. empty requests
func exhaustiveMalformed(c *Config, t0, n0 int) {
	last := func(length int, prefix []op) {
		for pos := -1; pos <= length+1; pos++ {
			for del := -1; del <= length+1; del++ {
				for ins := -1; ins <= 1; ins++ {
					kind := "exbad"
					if ins == 0 && del == 0 && pos > length {
						// the known finding F18 (an empty request beyond the end is not rejected) has its own kind
						kind = "exbad-emptybeyond"
					}
					runCase(c, kind, t0, n0, append(append([]op{}, prefix...), op{t0 + 1, pos, ins, del}))
				}
			}
		}
	}
	last(n0, nil)
	for pos := 0; pos <= n0; pos++ {
		for del := 0; pos+del <= n0; del++ {
			for ins := 0; ins <= 1; ins++ {
				if ins+del > 0 {
					last(n0+ins-del, []op{{t0 + 1, pos, ins, del}})
				}
			}
		}
	}
}

// ---------- random sequences ----------

type gen struct {
	c      *Config
	packed bool  // ticks carry a packed author above bit 14
	marks  bool  // some operations are stamped with the merge mark
	pool   []int // when set: most values are drawn from this pool (machine-limit values)
}

func (g *gen) tick(base int) int {
	r := g.c.Rng
	t := base
	if g.pool != nil && r.Intn(4) != 0 {
		return g.pool[r.Intn(len(g.pool))]
	}
	if g.packed && r.Intn(4) != 0 {
		t = t&mark | (1+r.Intn(1000))<<14
	}
	return t
}

func (g *gen) freshTick(now int) int {
	r := g.c.Rng
	t := now
	if g.marks && r.Intn(10) == 0 {
		t = mark
	}
	return g.tick(t)
}

// one random valid operation on the array a (the harness's own copy of the lines, taken from the implementation)
func (g *gen) randomOp(a []int, now int) op {
	r := g.c.Rng
	n := len(a)
	pos := 0
	switch r.Intn(6) {
	case 0:
		pos = 0
	case 1:
		pos = n
	case 2: // near the beginning: the deletion then often starts before the interval it ends in
		pos = r.Intn(minInt(n, 3) + 1)
	case 3: // an interval boundary
		var bs []int
		for i := 1; i < n; i++ {
			if a[i] != a[i-1] {
				bs = append(bs, i)
			}
		}
		if len(bs) > 0 {
			pos = bs[r.Intn(len(bs))]
			if r.Intn(4) == 0 && pos > 0 {
				pos--
			} else if r.Intn(4) == 0 && pos < n {
				pos++
			}
		} else {
			pos = r.Intn(n + 1)
		}
	default:
		pos = r.Intn(n + 1)
	}
	del, ins := 0, 0
	switch r.Intn(5) {
	case 0: // insertion only
		ins = 1 + r.Intn(4)
	case 1: // deletion only
		del = g.delLen(a, pos)
	default:
		del = g.delLen(a, pos)
		ins = 1 + r.Intn(4)
		if r.Intn(6) == 0 {
			ins = del
		}
	}
	if ins == 0 && del == 0 {
		ins = 1
	}
	// the tick: fresh, or equal to a neighbouring / deleted interval's tick
	t := g.freshTick(now)
	var cands []int
	if pos > 0 {
		cands = append(cands, a[pos-1])
	}
	if pos+del < n {
		cands = append(cands, a[pos+del])
	}
	if del > 0 {
		cands = append(cands, a[pos], a[pos+del-1], a[pos+r.Intn(del)])
	}
	if len(cands) > 0 && r.Intn(2) == 0 {
		t = cands[r.Intn(len(cands))]
	}
	// a deleted line that carries the mark forces the tick (anything else panics); keep that panic rare
	if r.Intn(20) != 0 {
		for i := pos; i < pos+del; i++ {
			if a[i]&mark == mark && a[i] != t {
				t = a[i]
				break
			}
		}
	}
	if t >= maxU32 {
		t = now
	}
	return op{t, pos, ins, del}
}

// deletions biased to span several intervals and to end inside / exactly at the start of a later one
func (g *gen) delLen(a []int, pos int) int {
	r := g.c.Rng
	n := len(a)
	if pos >= n {
		return 0
	}
	switch r.Intn(5) {
	case 0:
		return n - pos
	case 1:
		return 1 + r.Intn(minInt(n-pos, 3))
	case 2: // up to the start of some later interval
		var bs []int
		for i := pos + 1; i < n; i++ {
			if a[i] != a[i-1] {
				bs = append(bs, i)
			}
		}
		if len(bs) > 0 {
			return bs[r.Intn(len(bs))] - pos
		}
	}
	return 1 + r.Intn(n-pos)
}

func minInt(a, b int) int {
	if a < b {
		return a
	}
	return b
}

// randomCase builds the operation list while running the implementation (the array used by the generator is
// the implementation's own flattened state), then re-runs it from scratch through runCase.
func randomCase(c *Config, kind string, maxLen, maxOps int) {
	r := c.Rng
	g := &gen{c: c, packed: r.Intn(4) == 0, marks: r.Intn(3) == 0}
	n0 := r.Intn(maxLen + 1)
	if r.Intn(5) == 0 {
		n0 = r.Intn(6)
	}
	now := 1 + r.Intn(50)
	t0 := g.tick(now - 1)
	tr, _ := newTracked(t0, n0)
	if tr == nil {
		runCase(c, kind, t0, n0, nil)
		return
	}
	var ops []op
	for k := 1 + r.Intn(maxOps); k > 0; k-- {
		a := tr.file.VerifFlatten()
		o := g.randomOp(a, now)
		ops = append(ops, o)
		if _, ok := tr.step(o); !ok {
			break
		}
		if r.Intn(3) == 0 {
			now++
		}
	}
	runCase(c, kind, t0, n0, ops)
}

// malformed: a valid random prefix followed by one request that is out of range in one way
func malformedCase(c *Config) {
	r := c.Rng
	g := &gen{c: c}
	n0 := r.Intn(30)
	t0 := r.Intn(10)
	switch r.Intn(12) {
	case 0: // NewFile itself
		bad := []struct{ t, n int }{{-1, 5}, {1 << 32, 5}, {maxU32, 5}, {0, 1 << 32}, {0, -1}, {0, -3}, {5, maxU32}, {mark, 7}, {-1, -1}, {1<<32 + 7, 1<<32 + 1}}
		b := bad[r.Intn(len(bad))]
		// a few requests on whatever came out
		runCase(c, "badnew", b.t, b.n, []op{{1, 0, 0, 0}, {1, 0, 1, 0}, {1, 0, 0, 1}})
		return
	}
	tr, _ := newTracked(t0, n0)
	var ops []op
	for k := r.Intn(6); k > 0; k-- {
		o := g.randomOp(tr.file.VerifFlatten(), 10+k)
		ops = append(ops, o)
		tr.step(o)
	}
	n := tr.file.Len()
	big := []int{1 << 32, 1<<32 + 1, 1<<32 + 5, 1<<32 + n, 1 << 33, 1<<61 + 3, maxU32, maxU32 - 1}
	pick := func(l []int) int { return l[r.Intn(len(l))] }
	t, pos, ins, del := 20, r.Intn(n+1), r.Intn(3), 0
	if pos < n {
		del = r.Intn(n - pos + 1)
	}
	switch r.Intn(14) {
	case 0:
		t = -1 - r.Intn(3)
	case 1:
		t = pick([]int{maxU32, 1 << 32, 1<<32 + 20, 1 << 40})
	case 2:
		pos = -1 - r.Intn(3)
	case 3:
		pos = n + 1 + r.Intn(3)
	case 4:
		pos = pick(big)
	case 5:
		ins = -1 - r.Intn(3)
	case 6:
		del = -1 - r.Intn(3)
	case 7:
		del = n - pos + 1 + r.Intn(3)
	case 8:
		del = pick(big)
	case 9:
		ins = pick(big)
		if ins <= maxU32 && del >= 0 && pos+del <= n {
			// passes the guards: keep the new length within uint32 (the largest admissible insertion)
			ins = maxU32 - (n - del)
			ops = append(ops, op{t, pos, ins, del})
			runCase(c, "malformed", t0, n0, ops)
			return
		}
	case 10: // an empty request at the end (in range: a no-op)
		ins, del = 0, 0
		pos = n
	case 11: // the wrapped values of F12: pos+del = 2^32 + something small
		del = 1<<32 + r.Intn(n+1) - pos
		if r.Intn(2) == 0 {
			ins = 2
		}
	case 12:
		pos, del = n+1+r.Intn(2), 0
		ins = 1
	case 13:
		pos = n
		del = 1 + r.Intn(2)
	}
	if ins == 0 && del == 0 && pos > n {
		ins = 1 // empty requests beyond the end (known finding F18) are generated by emptyBeyondCase only
	}
	ops = append(ops, op{t, pos, ins, del}, op{21, 0, 1, 0})
	runCase(c, "malformed", t0, n0, ops)
}

// emptyBeyondCase: a valid random prefix, then an empty request (ins = del = 0) at a position beyond the end,
// then one more valid operation.  The only generator (with exbad-emptybeyond) of the known finding F18.
func emptyBeyondCase(c *Config) {
	r := c.Rng
	g := &gen{c: c}
	n0 := r.Intn(30)
	t0 := r.Intn(10)
	tr, _ := newTracked(t0, n0)
	var ops []op
	for k := r.Intn(6); k > 0; k-- {
		o := g.randomOp(tr.file.VerifFlatten(), 10+k)
		ops = append(ops, o)
		tr.step(o)
	}
	n := tr.file.Len()
	pos := n + 1 + r.Intn(5)
	switch r.Intn(6) {
	case 0:
		pos = maxU32
	case 1:
		pos = n + 1 + r.Intn(1<<20)
	}
	ops = append(ops, op{20, pos, 0, 0}, op{21, 0, 1, 0})
	runCase(c, "malformed-emptybeyond", t0, n0, ops)
}

// huge files: keys near 2^32 (the uint32 boundary), all requests in range; the lines are not materialised
func hugeCase(c *Config) {
	r := c.Rng
	n0 := maxU32 - r.Intn(40)
	if r.Intn(3) == 0 {
		n0 = 1<<31 + r.Intn(100) - 50
	}
	length := n0
	var ops []op
	for k := 1 + r.Intn(8); k > 0; k-- {
		pos := 0
		switch r.Intn(4) {
		case 0:
			pos = length
		case 1:
			pos = length - r.Intn(minInt(length, 50)+1)
		case 2:
			pos = r.Intn(50)
			if pos > length {
				pos = length
			}
		default:
			pos = r.Intn(length + 1)
		}
		del := 0
		if r.Intn(2) == 0 && pos < length {
			del = 1 + r.Intn(minInt(length-pos, 30))
			if r.Intn(6) == 0 {
				del = length - pos
			}
		}
		ins := r.Intn(4)
		if room := maxU32 - (length - del); ins > room {
			ins = room
		}
		if r.Intn(4) == 0 {
			ins = minInt(maxU32-(length-del), 1+r.Intn(60))
		}
		if ins == 0 && del == 0 {
			continue
		}
		ops = append(ops, op{1 + r.Intn(3), pos, ins, del})
		length += ins - del
	}
	runCase(c, "huge", 0, n0, ops)
}

func main() {
	c := Setup()
	defer c.Close()
	log.SetOutput(io.Discard) // log.Panicf prints before it panics
	if c.Replay != "" {
		for _, cs := range c.ReplayCases() {
			var ops []op
			if f, ok := cs.Field("script"); ok { // a scale case: light observations + checkpoints
				for _, o := range f.Args() {
					ops = append(ops, op{o.List[0].Int(), o.List[1].Int(), o.List[2].Int(), o.List[3].Int()})
				}
				geti := func(name string, def int) int {
					if x, ok := cs.Field(name); ok && len(x.Args()) > 0 {
						return x.Args()[0].Int()
					}
					return def
				}
				runScale(c, "replay-scale", geti("t0", 0), geti("n0", 0), ops, geti("every", 1000), geti("flat", 1) != 0, geti("model", 1) != 0)
				continue
			}
			f, _ := cs.Field("ops")
			for _, o := range f.Args() {
				ops = append(ops, op{o.List[0].Int(), o.List[1].Int(), o.List[2].Int(), o.List[3].Int()})
			}
			t0, _ := cs.Field("t0")
			n0, _ := cs.Field("n0")
			kind := "replay"
			if k, ok := cs.Field("kind"); ok && len(k.Args()) > 0 && strings.HasSuffix(k.Args()[0].Atom, "-emptybeyond") {
				kind = "replay-emptybeyond" // the dedicated kinds of the known finding F18 keep their suffix
			}
			runCase(c, kind, t0.Args()[0].Int(), n0.Args()[0].Int(), ops)
		}
		return
	}
	if os.Getenv("C03_ONLY") == "scale" { // development aid: the scale family alone
		scaleFamily(c)
		return
	}
	if os.Getenv("C03_ONLY") == "values" { // development aid: the round-4 value streams alone
		valueFamily(c)
		return
	}
	// exhaustive small scope
	for n0 := 0; n0 <= 4; n0++ {
		depth := 2
		if c.Thorough() || n0 <= 2 {
			depth = 3
		}
		exhaustive(c, 5, n0, depth)
		exhaustiveMalformed(c, 5, n0)
	}
	for i := c.Count(4000, 20000); i > 0; i-- {
		randomCase(c, "rnd", 200, 60)
	}
	for i := c.Count(3000, 60000); i > 0; i-- {
		randomCase(c, "rndsmall", 12, 25)
	}
	for i := c.Count(2000, 30000); i > 0; i-- {
		malformedCase(c)
	}
	for i := c.Count(500, 10000); i > 0; i-- {
		hugeCase(c)
	}
	for i := c.Count(200, 1000); i > 0; i-- {
		emptyBeyondCase(c)
	}
	for i := c.Count(1500, 20000); i > 0; i-- {
		bigValueCase(c)
	}
	valueFamily(c)
	scaleFamily(c)
}
