(* Several trees on one allocator, any sequence of operations: every reachable state satisfies the
   invariant (each tree a red-black search tree, node ids of all trees distinct and inside the
   arena) and the run refines the run of the sorted-map specification, result for result. *)
From Coq Require Import List ZArith Lia Bool Arith.
Import ListNotations.
From Herc Require Import RBTree.Model RBTree.Spec RBTree.Arena RBTree.InsertProofs RBTree.DeleteProofs
  RBTree.MapProofs RBTree.LookupProofs RBTree.HeightProofs RBTree.ArenaProofs.
Open Scope Z_scope.

(* ---------- the specification state machine ---------- *)

Definition sget (m : list (list (Z * Z * Z))) (ti : nat) : list (Z * Z * Z) := nth ti m [].

Fixpoint sset (m : list (list (Z * Z * Z))) (n : nat) (l : list (Z * Z * Z)) : list (list (Z * Z * Z)) :=
  match m, n with
  | [], _ => []
  | _ :: r, O => l :: r
  | x :: r, S k => x :: sset r k l
  end.

Fixpoint relabel_list (new : list Z) (l : list (Z * Z * Z)) {struct l} : list (Z * Z * Z) :=
  match l, new with
  | (_, k, v) :: l', i :: new' => (i, k, v) :: relabel_list new' l'
  | _, _ => []
  end.

Definition spec_step (m : list (list (Z * Z * Z))) (o : op) : list (list (Z * Z * Z)) * res :=
  match o with
  | OInsert ti k v id =>
      let l := sget m ti in
      if s_mem k l then (m, RIns false 0) else (sset m ti (s_insert id k v l), RIns true id)
  | ODeleteKey ti k =>
      let l := sget m ti in
      if s_mem k l then (sset m ti (s_delete k l), RBool true) else (m, RBool false)
  | ODeleteIt ti it =>
      let l := sget m ti in
      if (it =? limit) || (it =? neg_limit) then (m, RPanic)
      else match s_item it l with
           | Some (k, _) => (sset m ti (s_delete k l), RUnit)
           | None => (m, RUnspec)
           end
  | OFindGE ti k => (m, RIt (pos_fwd (s_find_ge k (sget m ti))))
  | OFindLE ti k => (m, RIt (pos_bwd (s_find_le k (sget m ti))))
  | OGet ti k => (m, RVal (s_get k (sget m ti)))
  | OMin ti => (m, RIt (pos_fwd (s_min (sget m ti))))
  | OMax ti => (m, RIt (pos_bwd (s_max (sget m ti))))
  | ONext ti it =>
      if it =? limit then (m, RPanic)
      else if it =? neg_limit then (m, RIt (pos_fwd (s_min (sget m ti))))
      else (m, match s_next it (sget m ti) with Some o => RIt (pos_fwd o) | None => RUnspec end)
  | OPrev ti it =>
      if it =? neg_limit then (m, RPanic)
      else if it =? limit then (m, RIt (pos_bwd (s_max (sget m ti))))
      else (m, match s_prev it (sget m ti) with Some o => RIt (pos_bwd o) | None => RUnspec end)
  | OLen ti => (m, RLen (Z.of_nat (length (sget m ti))))
  | OErase ti => (sset m ti [], RUnit)
  | OClone src dst new_ids => (sset m dst (relabel_list new_ids (sget m src)), RUnit)
  end.

Fixpoint spec_run (m : list (list (Z * Z * Z))) (l : list op) : list (list (Z * Z * Z)) * list res :=
  match l with
  | [] => (m, [])
  | o :: r => let (m1, x) := spec_step m o in let (m2, xs) := spec_run m1 r in (m2, x :: xs)
  end.

(* the abstraction: every tree is its in-order list of (id, key, value) *)
Definition abs (s : state) : list (list (Z * Z * Z)) := map elems (trees s).

(* ---------- the invariant ---------- *)

Definition tree_ok (t : tree) : Prop := is_redblack t /\ bst t.

Record Inv (s : state) : Prop := mkInv {
  inv_trees : Forall tree_ok (trees s);
  inv_nodup : NoDup (live s);                               (* no node belongs to two trees *)
  inv_range : forall i, In i (live s) -> 0 < i < asize s;
  inv_asize : 0 <= asize s <= neg_limit - 1 }.

(* An operation is inside the specified domain in state s when the model does not answer
   "unspecified" (tree index out of range, key/value not uint32, an iterator that does not point
   into the tree, a node index that malloc cannot have returned, CloneDeep onto a non-empty slot)
   and malloc does not hit the 2^32 limit. *)
Definition defined (s : state) (o : op) : Prop :=
  match snd (step s o) with
  | RUnspec => False
  | RPanic => match o with OInsert _ _ _ _ | OClone _ _ _ => False | _ => True end
  | _ => True
  end.

Fixpoint all_defined (s : state) (l : list op) : Prop :=
  match l with
  | [] => True
  | o :: r => defined s o /\ all_defined (fst (step s o)) r
  end.

(* ---------- lists ---------- *)

Lemma NoDup_app_iff {A} (a b : list A) :
  NoDup (a ++ b) <-> NoDup a /\ NoDup b /\ (forall x, In x a -> ~ In x b).
Proof.
  induction a as [|x a IH]; cbn [app].
  - split; [intros H; repeat split; auto; constructor|tauto].
  - split.
    + intros H. inversion H as [|? ? Hx Hn]; subst. apply IH in Hn. destruct Hn as (H1 & H2 & H3).
      repeat split; auto.
      * constructor; auto. intros Hc. apply Hx. apply in_or_app; auto.
      * intros y [<-|Hy]; auto. intros Hc. apply Hx. apply in_or_app; auto.
    + intros (H1 & H2 & H3). inversion H1 as [|? ? Hx Hn]; subst. constructor.
      * intros Hc. apply in_app_or in Hc. destruct Hc as [Hc|Hc]; auto. apply (H3 x); simpl; auto.
      * apply IH. repeat split; auto. intros y Hy. apply H3. simpl; auto.
Qed.

Lemma nodup_replace (A X Y B : list Z) :
  NoDup (A ++ X ++ B) -> NoDup Y ->
  (forall i, In i Y -> In i X \/ (~ In i A /\ ~ In i B)) -> NoDup (A ++ Y ++ B).
Proof.
  intros H HY Hsub. apply NoDup_app_iff in H. destruct H as (HA & HXB & HAXB).
  apply NoDup_app_iff in HXB. destruct HXB as (HX & HB & HXB).
  apply NoDup_app_iff. repeat split; auto.
  - apply NoDup_app_iff. repeat split; auto.
    intros i Hi. destruct (Hsub i Hi) as [Hx|[_ Hb]]; auto.
  - intros i Hi Hc. apply in_app_or in Hc. destruct Hc as [Hc|Hc].
    + destruct (Hsub i Hc) as [Hx|[Ha _]]; auto. apply (HAXB i Hi). apply in_or_app; auto.
    + apply (HAXB i Hi). apply in_or_app; auto.
Qed.

Lemma split_nth : forall (l : list tree) n, (n < length l)%nat ->
  exists A B, l = A ++ nth n l E :: B /\ (forall x, set_nth l n x = A ++ x :: B).
Proof.
  induction l as [|y l IH]; intros n Hn; [simpl in Hn; lia|].
  destruct n as [|n].
  - exists [], l. split; reflexivity.
  - destruct (IH n) as (A & B & H1 & H2); [simpl in Hn; lia|].
    exists (y :: A), B. split.
    + cbn [nth app]. rewrite <- H1. reflexivity.
    + intros x. cbn [set_nth app]. rewrite H2. reflexivity.
Qed.

Lemma set_nth_oob : forall (l : list tree) n x, (length l <= n)%nat -> set_nth l n x = l.
Proof.
  induction l as [|y l IH]; intros n x Hn; [reflexivity|].
  destruct n as [|n]; [simpl in Hn; lia|]. cbn [set_nth]. rewrite IH; auto. simpl in Hn; lia.
Qed.

Lemma map_set_nth : forall (l : list tree) n x, map elems (set_nth l n x) = sset (map elems l) n (elems x).
Proof.
  induction l as [|y l IH]; intros n x; [reflexivity|].
  destruct n as [|n]; cbn [set_nth sset map]; [reflexivity|]. rewrite IH. reflexivity.
Qed.

Lemma sget_abs s ti : sget (abs s) ti = elems (get_tree s ti).
Proof. unfold sget, abs, get_tree. change (@nil (Z * Z * Z)) with (elems E). apply map_nth. Qed.

Lemma nth_set_nth_other : forall (l : list tree) n m x, n <> m -> nth m (set_nth l n x) E = nth m l E.
Proof.
  induction l as [|y l IH]; intros n m x Hnm; [reflexivity|].
  destruct n as [|n], m as [|m]; cbn [set_nth nth]; try congruence; auto.
Qed.

Lemma flat_map_split (A B : list tree) t :
  flat_map ids (A ++ t :: B) = flat_map ids A ++ ids t ++ flat_map ids B.
Proof. rewrite flat_map_app. reflexivity. Qed.

Lemma get_tree_ok s ti : Inv s -> tree_ok (get_tree s ti).
Proof.
  intros [H _ _ _]. unfold get_tree. destruct (Nat.lt_ge_cases ti (length (trees s))).
  - rewrite Forall_forall in H. apply H. apply nth_In; auto.
  - rewrite nth_overflow by auto. split; [exists 0%nat; constructor|exact I].
Qed.

Lemma get_tree_ids_live s ti i : In i (ids (get_tree s ti)) -> In i (live s).
Proof.
  unfold get_tree, live. intros H. destruct (Nat.lt_ge_cases ti (length (trees s))).
  - apply in_flat_map. exists (nth ti (trees s) E). split; [apply nth_In; auto|auto].
  - rewrite nth_overflow in H by auto. destruct H.
Qed.

Lemma get_tree_nodup s ti : Inv s -> NoDup (ids (get_tree s ti)).
Proof.
  intros [_ H _ _]. unfold get_tree, live in *. destruct (Nat.lt_ge_cases ti (length (trees s))).
  - destruct (split_nth (trees s) ti H0) as (A & B & H1 & _). rewrite H1 in H.
    rewrite flat_map_split in H. apply NoDup_app_iff in H. destruct H as (_ & H & _).
    apply NoDup_app_iff in H. tauto.
  - rewrite nth_overflow by auto. constructor.
Qed.

Lemma get_tree_ids_ok s ti : Inv s -> ids_ok (get_tree s ti).
Proof.
  intros HI i Hi. apply get_tree_ids_live in Hi. destruct HI as [_ _ Hr Ha].
  specialize (Hr i Hi). lia.
Qed.

(* replacing one tree by a tree whose nodes are old nodes of that tree or fresh ones *)
Lemma Inv_replace s ti t' sz' :
  Inv s -> tree_ok t' -> NoDup (ids t') ->
  (forall i, In i (ids t') -> In i (ids (get_tree s ti)) \/ (~ In i (live s) /\ 0 < i < sz')) ->
  asize s <= sz' <= neg_limit - 1 ->
  Inv (mkState (set_nth (trees s) ti t') sz').
Proof.
  intros HI Hok Hnd Hsub Hsz. destruct (Nat.lt_ge_cases ti (length (trees s))) as [Hlt|Hge].
  - destruct HI as [HF HN HR HA]. unfold get_tree in Hsub.
    destruct (split_nth (trees s) ti Hlt) as (A & B & H1 & H2).
    unfold live in *. cbn [trees asize] in *. rewrite H2. rewrite H1 in HF, HN, HR.
    rewrite flat_map_split in *. constructor; cbn [trees asize].
    + apply Forall_app in HF. destruct HF as [HFA HFB]. inversion HFB; subst.
      apply Forall_app. split; auto.
    + unfold live. cbn [trees]. rewrite flat_map_split.
      apply (nodup_replace _ (ids (nth ti (trees s) E))); auto.
      intros i Hi. destruct (Hsub i Hi) as [Hx|[Hf _]]; auto. right.
      split; intros Hc; apply Hf; rewrite H1, flat_map_split; apply in_or_app; auto.
      right. apply in_or_app; auto.
    + unfold live. cbn [trees]. rewrite flat_map_split. intros i Hi.
      apply in_app_or in Hi. destruct Hi as [Hi|Hi].
      * specialize (HR i ltac:(apply in_or_app; auto)). lia.
      * apply in_app_or in Hi. destruct Hi as [Hi|Hi].
        -- destruct (Hsub i Hi) as [Hx|[_ Hx]]; auto.
           specialize (HR i ltac:(apply in_or_app; right; apply in_or_app; auto)). lia.
        -- specialize (HR i ltac:(apply in_or_app; right; apply in_or_app; auto)). lia.
    + lia.
  - rewrite set_nth_oob by auto. destruct HI as [HF HN HR HA]. constructor; cbn [trees asize]; auto.
    + intros i Hi. specialize (HR i Hi). lia.
    + lia.
Qed.

(* ---------- malloc ---------- *)

Lemma memz_In x l : memz x l = true <-> In x l.
Proof.
  induction l as [|y l IH]; cbn [memz In]; [split; [discriminate|tauto]|].
  rewrite orb_true_iff, IH, Z.eqb_eq. split; intros [H|H]; auto.
Qed.

Lemma malloc_ok lv sz id sz' :
  (forall i, In i lv -> 0 < i < sz) -> 0 <= sz <= neg_limit - 1 ->
  malloc lv sz id = MOk sz' ->
  ~ In id lv /\ 0 < id < sz' /\ sz <= sz' <= neg_limit - 1.
Proof.
  intros Hr Hs. unfold malloc. destruct (Z.of_nat (length lv) <? sz - 1).
  - destruct ((0 <? id) && (id <? sz) && negb (memz id lv)) eqn:Ec; [|discriminate].
    intros H; inversion H; subst sz'. apply andb_prop in Ec. destruct Ec as [Ec E3].
    apply andb_prop in Ec. destruct Ec as [E1 E2].
    apply Z.ltb_lt in E1. apply Z.ltb_lt in E2. apply negb_true_iff in E3.
    split; [|lia]. intros Hc. apply memz_In in Hc. congruence.
  - destruct (Z.eqb_spec sz 0) as [->|Hz].
    + cbn. destruct (Z.eqb_spec id 1); [|discriminate]. intros H; inversion H; subst.
      split; [|unfold neg_limit; lia]. intros Hc. specialize (Hr 1 Hc). lia.
    + destruct (Z.eqb_spec sz (neg_limit - 1)); [discriminate|].
      destruct (Z.eqb_spec id sz); [|discriminate]. intros H; inversion H; subst.
      split; [|lia]. intros Hc. specialize (Hr sz Hc). lia.
Qed.

Lemma malloc_seq_ok : forall new lv sz sz',
  (forall i, In i lv -> 0 < i < sz) -> 0 <= sz <= neg_limit - 1 ->
  malloc_seq lv sz new = MOk sz' ->
  NoDup new /\ (forall i, In i new -> ~ In i lv /\ 0 < i < sz') /\ sz <= sz' <= neg_limit - 1.
Proof.
  induction new as [|id new IH]; intros lv sz sz' Hr Hs H; cbn [malloc_seq] in H.
  - inversion H; subst. split; [constructor|]. split; [intros i []|lia].
  - destruct (malloc lv sz id) as [sz1| |] eqn:Em; try discriminate.
    destruct (malloc_ok lv sz id sz1 Hr Hs Em) as (F1 & F2 & F3).
    destruct (IH (id :: lv) sz1 sz') as (N & R & S); auto.
    { intros i [<-|Hi]; [lia|]. specialize (Hr i Hi). lia. }
    { lia. }
    split; [|split; [|lia]].
    + constructor; auto. intros Hc. destruct (R id Hc) as [Hn _]. apply Hn. left; auto.
    + intros i [<-|Hi]; [split; auto; lia|]. destruct (R i Hi) as [Hn Hb]. split; auto.
      intros Hc. apply Hn. right; auto.
Qed.

(* ---------- node ids of updated lists ---------- *)

Lemma eids_insert_in ni nk nv l i : In i (eids (s_insert ni nk nv l)) -> i = ni \/ In i (eids l).
Proof.
  induction l as [|[[i0 k0] v0] r IH]; cbn [s_insert eids map eid fst].
  - intros [<-|[]]; auto.
  - destruct (nk <? k0); [cbn [map eid fst In]; intros [<-|H]; auto|].
    destruct (k0 <? nk); cbn [map eid fst In]; [|auto].
    intros [<-|H]; auto. destruct (IH H); auto.
Qed.

Lemma eids_insert_nodup ni nk nv l : NoDup (eids l) -> ~ In ni (eids l) -> NoDup (eids (s_insert ni nk nv l)).
Proof.
  induction l as [|[[i0 k0] v0] r IH]; cbn [s_insert eids map eid fst]; intros Hn Hf.
  - constructor; auto.
  - destruct (nk <? k0); [cbn [map eid fst]; constructor; auto|].
    destruct (k0 <? nk); cbn [map eid fst]; [|auto].
    inversion Hn as [|? ? Hx Hn']; subst. constructor.
    + intros Hc. apply eids_insert_in in Hc. destruct Hc as [->|Hc]; [apply Hf; left; auto|auto].
    + apply IH; auto. intros Hc. apply Hf. right; auto.
Qed.

Lemma eids_delete_in x l i : In i (eids (s_delete x l)) -> In i (eids l).
Proof.
  induction l as [|[[i0 k0] v0] r IH]; cbn [s_delete eids map eid fst]; auto.
  destruct (k0 =? x); cbn [map eid fst In]; auto. intros [<-|H]; auto.
Qed.

Lemma eids_delete_nodup x l : NoDup (eids l) -> NoDup (eids (s_delete x l)).
Proof.
  induction l as [|[[i0 k0] v0] r IH]; cbn [s_delete eids map eid fst]; auto.
  intros Hn. inversion Hn as [|? ? Hx Hn']; subst. destruct (k0 =? x); auto.
  cbn [map eid fst]. constructor; auto. intros Hc. apply Hx. eapply eids_delete_in; eauto.
Qed.

(* ---------- CloneDeep ---------- *)

Lemma relabel_list_app : forall a new b, (length a <= length new)%nat ->
  relabel_list new (a ++ b) = relabel_list new a ++ relabel_list (skipn (length a) new) b.
Proof.
  induction a as [|[[i k] v] a IH]; intros new b Hl; [reflexivity|].
  destruct new as [|j new]; [simpl in Hl; lia|].
  cbn [app relabel_list length skipn]. rewrite IH by (simpl in Hl; lia). reflexivity.
Qed.

Lemma skipn_cons_skipn : forall n (l : list Z) j r m, skipn n l = j :: r -> skipn m r = skipn (n + S m) l.
Proof.
  induction n as [|n IH]; intros [|x l] j r m H; cbn [skipn Nat.add] in *; try discriminate.
  - inversion H; subst. reflexivity.
  - apply (IH l j r m); auto.
Qed.

Lemma relabel_spec : forall t new, (length (elems t) <= length new)%nat ->
  elems (fst (relabel t new)) = relabel_list new (elems t) /\
  snd (relabel t new) = skipn (length (elems t)) new.
Proof.
  induction t as [|c l IHl i k v r IHr]; intros new Hl; [split; reflexivity|].
  cbn [elems] in Hl. rewrite app_length in Hl. cbn [length] in Hl.
  destruct (IHl new ltac:(lia)) as [E1 E2].
  cbn [relabel]. destruct (relabel l new) as [l' ids1]. cbn [fst snd] in E1, E2.
  assert (Hlen : length ids1 = (length new - length (elems l))%nat) by (rewrite E2; apply skipn_length).
  destruct ids1 as [|j ids2]; [simpl in Hlen; lia|].
  destruct (IHr ids2 ltac:(simpl in Hlen; lia)) as [E3 E4].
  destruct (relabel r ids2) as [r' ids3]. cbn [fst snd] in *.
  cbn [elems]. rewrite relabel_list_app by lia. rewrite <- E2. cbn [relabel_list].
  rewrite E1, E3. split; [reflexivity|].
  rewrite E4. rewrite app_length. cbn [length]. apply (skipn_cons_skipn _ _ j). auto.
Qed.

Lemma relabel_RB : forall t c n new, RB t c n -> (length (elems t) <= length new)%nat ->
  RB (fst (relabel t new)) c n.
Proof.
  induction t as [|col l IHl i k v r IHr]; intros c n new H Hl; [exact H|].
  cbn [elems] in Hl. rewrite app_length in Hl. cbn [length] in Hl.
  destruct (relabel_spec l new ltac:(lia)) as [_ E2].
  cbn [relabel]. specialize (IHl) . 
  pose proof (fun c n H => IHl c n new H ltac:(lia)) as IHl'.
  destruct (relabel l new) as [l' ids1]. cbn [fst snd] in *.
  assert (Hlen : length ids1 = (length new - length (elems l))%nat) by (rewrite E2; apply skipn_length).
  destruct ids1 as [|j ids2]; [simpl in Hlen; lia|].
  pose proof (fun c n H => IHr c n ids2 H ltac:(simpl in Hlen; lia)) as IHr'.
  destruct (relabel r ids2) as [r' ids3]. cbn [fst snd] in *.
  inversion H; subst; constructor; auto.
Qed.

Lemma relabel_list_keys : forall l new, (length l <= length new)%nat -> keys (relabel_list new l) = keys l.
Proof.
  induction l as [|[[i k] v] l IH]; intros new Hl; [destruct new; reflexivity|].
  destruct new as [|j new]; [simpl in Hl; lia|].
  cbn [relabel_list keys map ekey fst snd]. f_equal. apply IH. simpl in Hl; lia.
Qed.

Lemma relabel_list_eids : forall l new, length new = length l -> eids (relabel_list new l) = new.
Proof.
  induction l as [|[[i k] v] l IH]; intros new Hl; destruct new as [|j new]; try discriminate; auto.
  cbn [relabel_list eids map eid fst]. f_equal. apply IH. simpl in Hl; lia.
Qed.

Lemma sorted_keys : forall l l', keys l = keys l' -> sorted l -> sorted l'.
Proof.
  induction l as [|e l IH]; intros [|e' l'] Hk; try discriminate; auto.
  cbn [keys map] in Hk. inversion Hk as [[Hk1 Hk2]]. cbn [sorted]. intros [G S].
  split; [|apply (IH l'); auto]. unfold all_gt in *. unfold keys in *. rewrite <- Hk2, <- Hk1. auto.
Qed.

Lemma relabel_ok t new : tree_ok t -> length new = length (elems t) ->
  tree_ok (fst (relabel t new)) /\ elems (fst (relabel t new)) = relabel_list new (elems t) /\
  ids (fst (relabel t new)) = new.
Proof.
  intros [[n Hrb] Hb] Hl. destruct (relabel_spec t new ltac:(lia)) as [E _].
  split; [split|split; auto].
  - exists n. apply relabel_RB; auto. lia.
  - apply bst_sorted. rewrite E. apply (sorted_keys (elems t)); [|apply bst_sorted; auto].
    symmetry. apply relabel_list_keys. lia.
  - rewrite ids_eids, E. apply relabel_list_eids; auto.
Qed.

(* ---------- one step ---------- *)

Lemma abs_set s ti t' sz' :
  abs (mkState (set_nth (trees s) ti t') sz') = sset (abs s) ti (elems t').
Proof. unfold abs. cbn [trees]. apply map_set_nth. Qed.

Lemma E_ok : tree_ok E.
Proof. split; [exists 0%nat; constructor|exact I]. Qed.

Theorem step_refines s o : Inv s -> defined s o ->
  Inv (fst (step s o)) /\ spec_step (abs s) o = (abs (fst (step s o)), snd (step s o)).
Proof.
  intros HI Hd. unfold defined in Hd.
  destruct o as [ti k v id|ti k|ti it|ti k|ti k|ti k|ti|ti|ti it|ti it|ti|ti|src dst new];
    cbn [step spec_step] in *; rewrite ?sget_abs.
  - (* Insert *)
    pose proof (get_tree_ok s ti HI) as [Hrb Hb].
    destruct (Nat.ltb ti (length (trees s)) && is_u32 k && is_u32 v); cbn [negb] in *; [|destruct Hd].
    rewrite <- (mem_elems k _ Hb). destruct (mem k (get_tree s ti)) eqn:Hm; [split; auto|].
    destruct (malloc (live s) (asize s) id) as [sz'| |] eqn:Em; cbn [fst snd] in *; try destruct Hd.
    destruct (malloc_ok _ _ _ _ (inv_range s HI) (inv_asize s HI) Em) as (F1 & F2 & F3).
    assert (Hins : insert id k v (get_tree s ti) = (blacken (ins id k v (get_tree s ti)), true, id))
      by (unfold insert; rewrite Hm; reflexivity).
    pose proof (insert_RB id k v _ Hrb) as R1. pose proof (insert_bst id k v _ Hb) as R2.
    pose proof (insert_elems id k v _ Hb) as R3. rewrite Hins in R1, R2, R3. cbn [fst] in R1, R2, R3.
    split.
    + apply Inv_replace; auto; [split; auto| |].
      * rewrite ids_eids, R3. apply eids_insert_nodup; rewrite <- ids_eids.
        -- apply get_tree_nodup; auto.
        -- intros Hc. apply F1. eapply get_tree_ids_live; eauto.
      * intros i Hi. rewrite ids_eids, R3 in Hi. apply eids_insert_in in Hi.
        destruct Hi as [->|Hi]; [right; split; auto; lia|left; rewrite ids_eids; auto].
    + rewrite abs_set, R3. reflexivity.
  - (* DeleteWithKey *)
    pose proof (get_tree_ok s ti HI) as [Hrb Hb].
    pose proof (delete_key_elems k _ Hb) as He.
    destruct (delete_key k (get_tree s ti)) as [|t'|] eqn:Ed; cbn [fst snd] in *; [| |destruct Hd].
    + destruct He as [He _]. rewrite He. split; auto.
    + destruct He as [He1 He2]. rewrite He1. split.
      * unfold set_tree. apply Inv_replace; auto.
        -- split; [eapply delete_key_RB; eauto|eapply delete_key_bst; eauto].
        -- rewrite ids_eids, He2. apply eids_delete_nodup. rewrite <- ids_eids. apply get_tree_nodup; auto.
        -- intros i Hi. left. rewrite ids_eids, He2 in Hi. apply eids_delete_in in Hi. rewrite ids_eids; auto.
        -- pose proof (inv_asize s HI). lia.
      * unfold set_tree. rewrite abs_set, He2. reflexivity.
  - (* DeleteWithIterator *)
    destruct ((it =? limit) || (it =? neg_limit)); [split; auto|].
    pose proof (get_tree_ok s ti HI) as [Hrb Hb].
    rewrite <- item_of_spec. destruct (item_of it (get_tree s ti)) as [[k v]|] eqn:Ei; [|destruct Hd].
    pose proof (delete_key_elems k _ Hb) as He.
    destruct (delete_key k (get_tree s ti)) as [|t'|] eqn:Ed; cbn [fst snd] in *; try destruct Hd.
    destruct He as [He1 He2]. split.
    + unfold set_tree. apply Inv_replace; auto.
      * split; [eapply delete_key_RB; eauto|eapply delete_key_bst; eauto].
      * rewrite ids_eids, He2. apply eids_delete_nodup. rewrite <- ids_eids. apply get_tree_nodup; auto.
      * intros i Hi. left. rewrite ids_eids, He2 in Hi. apply eids_delete_in in Hi. rewrite ids_eids; auto.
      * pose proof (inv_asize s HI). lia.
    + unfold set_tree. rewrite abs_set, He2. reflexivity.
  - (* FindGE *)
    pose proof (get_tree_ok s ti HI) as [Hrb Hb]. cbn [fst snd]. split; auto.
    rewrite it_find_ge_spec by auto. reflexivity.
  - (* FindLE *)
    pose proof (get_tree_ok s ti HI) as [Hrb Hb]. cbn [fst snd]. split; auto.
    rewrite it_find_le_spec; auto using get_tree_nodup, get_tree_ids_ok.
  - (* Get *)
    pose proof (get_tree_ok s ti HI) as [Hrb Hb]. cbn [fst snd]. split; auto.
    rewrite get_spec by auto. reflexivity.
  - (* Min *)
    cbn [fst snd]. split; auto. rewrite min_id_spec. reflexivity.
  - (* Max *)
    cbn [fst snd]. split; auto. rewrite it_max_spec by (apply get_tree_ids_ok; auto). reflexivity.
  - (* Next *)
    destruct (it =? limit); [split; auto|]. destruct (it =? neg_limit).
    + cbn [fst snd]. split; auto. rewrite min_id_spec. reflexivity.
    + cbn [fst snd] in *. split; auto. rewrite next_in_spec.
      destruct (s_next it (elems (get_tree s ti))) as [[e|]|]; reflexivity.
  - (* Prev *)
    destruct (it =? neg_limit); [split; auto|]. destruct (it =? limit).
    + cbn [fst snd]. split; auto. rewrite it_max_spec by (apply get_tree_ids_ok; auto). reflexivity.
    + cbn [fst snd] in *. split; auto. rewrite prev_in_spec.
      destruct (s_prev it (elems (get_tree s ti))) as [[e|]|]; reflexivity.
  - (* Len *)
    cbn [fst snd]. split; auto. rewrite tsize_spec. reflexivity.
  - (* Erase *)
    cbn [fst snd]. split.
    + unfold set_tree. apply Inv_replace; auto using E_ok.
      * constructor.
      * intros i [].
      * pose proof (inv_asize s HI). lia.
    + unfold set_tree. rewrite abs_set. reflexivity.
  - (* CloneDeep *)
    destruct (Nat.ltb src (length (trees s)) && Nat.ltb dst (length (trees s))
              && is_E (get_tree s dst) && (Z.of_nat (length new) =? tsize (get_tree s src))) eqn:Ec;
      cbn [negb] in *; [|destruct Hd].
    apply andb_prop in Ec. destruct Ec as [Ec E4]. apply Z.eqb_eq in E4. rewrite tsize_spec in E4.
    destruct (malloc_seq (live s) (asize s) new) as [sz'| |] eqn:Em; cbn [fst snd] in *; try destruct Hd.
    destruct (malloc_seq_ok _ _ _ _ (inv_range s HI) (inv_asize s HI) Em) as (F1 & F2 & F3).
    destruct (relabel_ok (get_tree s src) new (get_tree_ok s src HI) ltac:(lia)) as (R1 & R2 & R3).
    split.
    + apply Inv_replace; auto.
      * rewrite R3; auto.
      * intros i Hi. rewrite R3 in Hi. right. apply F2; auto.
    + rewrite abs_set, R2. reflexivity.
Qed.

(* ---------- any sequence ---------- *)

Theorem run_refines : forall ops s, Inv s -> all_defined s ops ->
  Inv (fst (run s ops)) /\ spec_run (abs s) ops = (abs (fst (run s ops)), snd (run s ops)).
Proof.
  induction ops as [|o ops IH]; intros s HI Hd; [split; auto|].
  destruct Hd as [Hd1 Hd2]. destruct (step_refines s o HI Hd1) as [HI1 Hs].
  cbn [run spec_run]. rewrite Hs. destruct (step s o) as [s1 x]. cbn [fst snd] in *.
  destruct (IH s1 HI1 Hd2) as [HI2 Hr]. rewrite Hr. destruct (run s1 ops) as [s2 xs]. auto.
Qed.

Lemma flat_map_repeat_E n : flat_map ids (repeat E n) = [].
Proof. induction n; auto. Qed.

Theorem init_Inv n : Inv (init n).
Proof.
  constructor; unfold init, live; cbn [trees asize].
  - apply Forall_forall. intros t Ht. apply repeat_spec in Ht. subst. apply E_ok.
  - rewrite flat_map_repeat_E. constructor.
  - rewrite flat_map_repeat_E. intros i [].
  - unfold neg_limit. lia.
Qed.

(* what the invariant gives for every tree of a reachable state *)
Theorem Inv_tree s ti : Inv s ->
  let t := get_tree s ti in
  is_redblack t /\ bst t /\ NoDup (ids t) /\ ids_ok t /\
  Z.of_nat (height t) <= 2 * Z.log2 (tsize t + 1) /\
  links_consistent (root_id t) (cells 0 t) /\
  (forall tj i, tj <> ti -> In i (ids t) -> ~ In i (ids (get_tree s tj))).
Proof.
  intros HI t. destruct (get_tree_ok s ti HI) as [Hrb Hb].
  pose proof (get_tree_ids_ok s ti HI) as Hok.
  split; [auto|]. split; [auto|]. split; [apply get_tree_nodup; auto|]. split; [auto|].
  split; [apply redblack_height_log; auto|]. split.
  - apply arena_links. intros i Hi. specialize (Hok i Hi). lia.
  - (* trees on one allocator do not share nodes *)
    intros tj i Hne Hi Hj. subst t. unfold get_tree in *.
    destruct (Nat.lt_ge_cases ti (length (trees s))) as [H1|H1]; [|rewrite nth_overflow in Hi by auto; destruct Hi].
    destruct (Nat.lt_ge_cases tj (length (trees s))) as [H2|H2]; [|rewrite nth_overflow in Hj by auto; destruct Hj].
    pose proof (inv_nodup s HI) as Hn. unfold live in Hn.
    clear -Hne Hi Hj H1 H2 Hn. revert ti tj Hne Hi Hj H1 H2 Hn.
    induction (trees s) as [|y l IH]; intros ti tj Hne Hi Hj H1 H2 Hn; [simpl in H1; lia|].
    cbn [flat_map] in Hn. apply NoDup_app_iff in Hn. destruct Hn as (N1 & N2 & N3).
    destruct ti as [|ti], tj as [|tj]; cbn [nth length] in *; try congruence.
    + apply (N3 i Hi). apply in_flat_map. exists (nth tj l E). split; [apply nth_In; lia|auto].
    + apply (N3 i Hj). apply in_flat_map. exists (nth ti l E). split; [apply nth_In; lia|auto].
    + apply (IH ti tj); auto; lia.
Qed.

(* operations on one tree do not touch the others *)
Theorem step_frame s o tj :
  (match o with
   | OInsert ti _ _ _ | ODeleteKey ti _ | ODeleteIt ti _ | OErase ti => ti <> tj
   | OClone _ dst _ => dst <> tj
   | _ => True
   end) -> get_tree (fst (step s o)) tj = get_tree s tj.
Proof.
  destruct o; cbn [step]; intros H; unfold get_tree, set_tree;
  repeat match goal with
  | |- context [if ?b then _ else _] => destruct b
  | |- context [match ?x with _ => _ end] => destruct x
  end; cbn [fst trees]; auto using nth_set_nth_other.
Qed.

(* ---------- iterator stability across any operation on any tree of the allocator ---------- *)

Lemma s_item_in m l k v : s_item m l = Some (k, v) -> In (m, k, v) l.
Proof.
  induction l as [|[[i k0] v0] r IH]; cbn [s_item]; [discriminate|].
  destruct (Z.eqb_spec m i).
  - intros H. inversion H; subst. left; auto.
  - intros H. right; auto.
Qed.

Lemma sorted_key_unique : forall l i1 i2 k v1 v2, sorted l ->
  In (i1, k, v1) l -> In (i2, k, v2) l -> i1 = i2.
Proof.
  induction l as [|e l IH]; intros i1 i2 k v1 v2 HS H1 H2; [destruct H1|]. destruct HS as [G S].
  destruct H1 as [H1|H1], H2 as [H2|H2]; subst.
  - inversion H2; auto.
  - exfalso. specialize (G k). cbn [ekey fst snd] in G.
    assert (k < k); [|lia]. apply G. unfold keys. change k with (ekey (i2, k, v2)). apply in_map; auto.
  - exfalso. specialize (G k). cbn [ekey fst snd] in G.
    assert (k < k); [|lia]. apply G. unfold keys. change k with (ekey (i1, k, v1)). apply in_map; auto.
  - eapply IH; eauto.
Qed.

(* the element (tree tj, node m) is removed by the operation *)
Definition removes (o : op) (tj : nat) (m : Z) (key : Z) : Prop :=
  match o with
  | ODeleteKey ti k => ti = tj /\ k = key
  | ODeleteIt ti it => ti = tj /\ it = m
  | OErase ti => ti = tj
  | _ => False
  end.

Lemma nth_set_nth_same : forall (l : list tree) n x, (n < length l)%nat -> nth n (set_nth l n x) E = x.
Proof.
  induction l as [|y l IH]; intros n x Hn; [simpl in Hn; lia|].
  destruct n as [|n]; cbn [set_nth nth]; auto. apply IH. simpl in Hn. lia.
Qed.

Theorem step_stable s o tj m k v : Inv s -> defined s o ->
  item_of m (get_tree s tj) = Some (k, v) -> ~ removes o tj m k ->
  item_of m (get_tree (fst (step s o)) tj) = Some (k, v).
Proof.
  intros HI Hd Hm Hr. unfold defined in Hd.
  pose proof (get_tree_ok s tj HI) as [Hrb Hb].
  assert (Hin : In (m, k, v) (elems (get_tree s tj))) by (apply s_item_in; rewrite <- item_of_spec; auto).
  assert (Hlive : In m (live s)).
  { apply (get_tree_ids_live s tj). rewrite ids_eids. unfold eids.
    change m with (eid (m, k, v)). apply in_map; auto. }
  assert (Hlt : (tj < length (trees s))%nat).
  { destruct (Nat.lt_ge_cases tj (length (trees s))); auto.
    unfold get_tree in Hm. rewrite nth_overflow in Hm by auto. discriminate. }
  destruct o as [ti k0 v0 id|ti k0|ti it|ti k0|ti k0|ti k0|ti|ti|ti it|ti it|ti|ti|src dst new];
    try (cbn [step]; repeat match goal with |- context [if ?b then _ else _] => destruct b end; exact Hm).
  - (* Insert *)
    destruct (Nat.eq_dec ti tj) as [->|Hne]; [|rewrite step_frame; auto].
    cbn [step] in *.
    destruct (Nat.ltb tj (length (trees s)) && is_u32 k0 && is_u32 v0); cbn [negb] in *; [|destruct Hd].
    destruct (mem k0 (get_tree s tj)) eqn:Hmem; [exact Hm|].
    destruct (malloc (live s) (asize s) id) as [sz'| |] eqn:Em; cbn [fst snd] in *; try destruct Hd.
    destruct (malloc_ok _ _ _ _ (inv_range s HI) (inv_asize s HI) Em) as (F1 & _).
    unfold get_tree at 1. cbn [trees]. rewrite nth_set_nth_same by auto.
    pose proof (insert_stable id k0 v0 (get_tree s tj) m Hb) as St.
    unfold insert in St. rewrite Hmem in St. cbn [fst] in St. rewrite St; auto.
    intros ->. contradiction.
  - (* DeleteWithKey *)
    destruct (Nat.eq_dec ti tj) as [->|Hne]; [|rewrite step_frame; auto].
    cbn [step] in *.
    destruct (delete_key k0 (get_tree s tj)) as [|t'|] eqn:Ed; cbn [fst snd] in *; try exact Hm.
    unfold set_tree. unfold get_tree at 1. cbn [trees]. rewrite nth_set_nth_same by auto.
    rewrite (delete_stable k0 (get_tree s tj) t' m); auto.
    intros v' Hc. rewrite Hm in Hc. inversion Hc; subst. apply Hr. cbn. auto.
  - (* DeleteWithIterator *)
    destruct (Nat.eq_dec ti tj) as [->|Hne]; [|rewrite step_frame; auto].
    cbn [step] in *.
    destruct ((it =? limit) || (it =? neg_limit)); [exact Hm|].
    destruct (item_of it (get_tree s tj)) as [[k1 v1]|] eqn:Ei; [|exact Hm].
    destruct (delete_key k1 (get_tree s tj)) as [|t'|] eqn:Ed; cbn [fst snd] in *; try exact Hm.
    unfold set_tree. unfold get_tree at 1. cbn [trees]. rewrite nth_set_nth_same by auto.
    rewrite (delete_stable k1 (get_tree s tj) t' m); auto.
    intros v' Hc. rewrite Hm in Hc. inversion Hc; subst. apply Hr. cbn. split; auto.
    (* two entries with the same key in a sorted list are the same entry *)
    symmetry. apply (sorted_key_unique (elems (get_tree s tj)) m it k1 v' v1); auto.
    + apply bst_sorted; auto.
    + apply s_item_in. rewrite <- item_of_spec. auto.
  - (* Erase *)
    destruct (Nat.eq_dec ti tj) as [->|Hne]; [|rewrite step_frame; auto].
    exfalso. apply Hr. reflexivity.
  - (* CloneDeep: the destination is empty *)
    destruct (Nat.eq_dec dst tj) as [->|Hne]; [|rewrite step_frame; auto].
    cbn [step] in *.
    destruct (Nat.ltb src (length (trees s)) && Nat.ltb tj (length (trees s))
              && is_E (get_tree s tj) && (Z.of_nat (length new) =? tsize (get_tree s src))) eqn:Ec;
      cbn [negb] in *; [|exact Hm].
    apply andb_prop in Ec. destruct Ec as [Ec _]. apply andb_prop in Ec. destruct Ec as [_ Ec].
    destruct (get_tree s tj); discriminate.
Qed.

(* ---------- what "defined" excludes ---------- *)

Lemma s_next_some x l : s_item x l <> None -> s_next x l <> None.
Proof.
  induction l as [|[[i k] v] r IH]; cbn [s_item s_next]; auto.
  destruct (x =? i); [discriminate|auto].
Qed.

Lemma s_prev_aux_some x l b : s_item x l <> None -> s_prev_aux x l b <> None.
Proof.
  revert b. induction l as [|[[i k] v] r IH]; intros b; cbn [s_item s_prev_aux]; auto.
  destruct (x =? i); [discriminate|auto].
Qed.

(* the API-level preconditions are enough: in a state satisfying the invariant the model answers
   "unspecified" only for an iterator that points at no element of the tree, a tree index out of
   range, a non-uint32 key or value, a node index malloc cannot hand out, or a CloneDeep onto a
   non-empty slot / with the wrong number of indexes *)
Theorem defined_if s o : Inv s ->
  match o with
  | OInsert ti k v id =>
      (ti < length (trees s))%nat /\ is_u32 k = true /\ is_u32 v = true /\
      (mem k (get_tree s ti) = true \/ exists sz', malloc (live s) (asize s) id = MOk sz')
  | ODeleteIt ti it | ONext ti it | OPrev ti it =>
      it = limit \/ it = neg_limit \/ item_of it (get_tree s ti) <> None
  | OClone src dst new =>
      (src < length (trees s))%nat /\ (dst < length (trees s))%nat /\ get_tree s dst = E /\
      Z.of_nat (length new) = tsize (get_tree s src) /\
      exists sz', malloc_seq (live s) (asize s) new = MOk sz'
  | _ => True
  end -> defined s o.
Proof.
  intros HI H. unfold defined.
  pose proof (fun ti => get_tree_ok s ti HI) as Hok.
  destruct o as [ti k v id|ti k|ti it|ti k|ti k|ti k|ti|ti|ti it|ti it|ti|ti|src dst new]; cbn [step].
  - destruct H as (H1 & H2 & H3 & H4). apply Nat.ltb_lt in H1. rewrite H1, H2, H3. cbn [andb negb].
    destruct (mem k (get_tree s ti)); [exact I|].
    destruct H4 as [H4|[sz' H4]]; [discriminate|]. rewrite H4. exact I.
  - destruct (Hok ti) as [Hrb Hb]. pose proof (delete_key_defined k _ Hrb) as D.
    destruct (mem k (get_tree s ti)); [destruct D as [t' ->]|rewrite D]; exact I.
  - destruct (Z.eqb_spec it limit); [exact I|]. destruct (Z.eqb_spec it neg_limit); [exact I|].
    cbn [orb]. destruct H as [H|[H|H]]; try contradiction.
    destruct (item_of it (get_tree s ti)) as [[k v]|] eqn:Ei; [|congruence].
    destruct (Hok ti) as [Hrb Hb]. pose proof (delete_key_defined k _ Hrb) as D.
    rewrite (mem_elems k _ Hb) in D. rewrite item_of_spec in Ei. apply s_item_in in Ei.
    assert (Hm : s_mem k (elems (get_tree s ti)) = true).
    { clear -Ei. induction (elems (get_tree s ti)) as [|[[i0 k0] v0] r IH]; [destruct Ei|].
      cbn [s_mem]. destruct Ei as [Ei|Ei]; [inversion Ei; subst; rewrite Z.eqb_refl; reflexivity|].
      rewrite IH by auto. apply orb_true_r. }
    rewrite Hm in D. destruct D as [t' ->]. exact I.
  - exact I.
  - destruct (Hok ti) as [Hrb Hb].
    rewrite it_find_le_spec; auto using get_tree_nodup, get_tree_ids_ok.
  - exact I.
  - exact I.
  - exact I.
  - destruct (Z.eqb_spec it limit); [exact I|]. destruct (Z.eqb_spec it neg_limit); [exact I|].
    destruct H as [H|[H|H]]; try contradiction. cbn [snd]. rewrite next_in_spec.
    rewrite item_of_spec in H. apply s_next_some in H.
    destruct (s_next it (elems (get_tree s ti))); [exact I|congruence].
  - destruct (Z.eqb_spec it neg_limit); [exact I|]. destruct (Z.eqb_spec it limit); [exact I|].
    destruct H as [H|[H|H]]; try contradiction. cbn [snd]. rewrite prev_in_spec.
    rewrite item_of_spec in H. apply (s_prev_aux_some _ _ None) in H. unfold s_prev.
    destruct (s_prev_aux it (elems (get_tree s ti)) None); [exact I|congruence].
  - exact I.
  - exact I.
  - destruct H as (H1 & H2 & H3 & H4 & sz' & H5).
    apply Nat.ltb_lt in H1. apply Nat.ltb_lt in H2. rewrite H1, H2, H3. apply Z.eqb_eq in H4. rewrite H4.
    cbn [andb negb is_E]. rewrite H5. exact I.
Qed.
