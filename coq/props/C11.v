(* C11 - file diffs are valid canonical edit scripts with consistent line counts.
   Only statements closed by [exact] and their assumptions; the model is in Herc.Plumbing.LineCount / Script. *)
From Coq Require Import List ZArith Bool Arith.
From Herc Require Import Plumbing.LineCount Plumbing.LineCountProofs Plumbing.Script Plumbing.ScriptProofs
  Plumbing.StripLines Plumbing.FileDiffProofs.
Import ListNotations.

(* -- 1. the line counter used when a file is first seen agrees with the line splitting of the diff, for every
      byte string that CountLines does not sniff as binary (CRLF, no final newline, invalid UTF-8, empty, NUL
      beyond the first 8000 bytes: all just bytes) *)
Theorem C11_count_split : forall b : list Z, textb b = true ->
  count_lines b = Lines (length (split_lines b)).
Proof. exact count_split. Qed.
Print Assumptions C11_count_split.

(* the lines really are the lines: they partition the blob, each is non-empty, has no inner newline and only the
   last one may lack the final newline; the fuel of the modelled loop is enough (split_lines = lines_of) *)
Theorem C11_split_lines_partition : forall b : list Z,
  concat (split_lines b) = b /\ Forall line_shape (split_lines b) /\ split_lines b = lines_of b.
Proof. exact (fun b => conj (split_lines_concat b) (conj (split_lines_shape b) (split_lines_spec b))). Qed.
Print Assumptions C11_split_lines_partition.

Theorem C11_count_total : forall b : list Z,
  count_lines b <> CountPanic /\ (textb b = false -> b <> [] -> count_lines b = Binary).
Proof. exact (fun b => conj (count_no_panic b) (count_binary b)). Qed.
Print Assumptions C11_count_total.

(* -- 2. the validator is sound and complete for "valid canonical edit script": canonical shape, equal+delete
      counts sum to the old length, equal+insert counts to the new length, equal runs cover identical lines at
      the offsets given by the runs before them *)
Theorem C11_script_ok_iff : forall (old new : list (list Z)) (ds : list (op * nat)),
  lines_script_ok old new ds = true <->
  canonical ds = true /\ old_total ds = length old /\ new_total ds = length new /\ equal_cover old new 0 0 ds.
Proof. exact (script_ok_iff list_eqb list_eqb_spec). Qed.
Print Assumptions C11_script_ok_iff.

Theorem C11_script_applies : forall (old new : list (list Z)) (ds : list (op * nat)),
  lines_script_ok old new ds = true -> apply ds old new = Some new /\ canonical ds = true.
Proof. exact (script_applies list_eqb list_eqb_spec). Qed.
Print Assumptions C11_script_applies.

(* canonical means: every block of consecutive edits between equal runs is "", D, I or D I (runs may be empty:
   the engine of go-diff v1.0.0 emits e.g. "d1 i0" now and then, which the property does not forbid and both
   consumers tolerate - the theorems below cover such scripts) *)
Theorem C11_canonical_blocks : forall (pre blk post : list (op * nat)),
  canonical (pre ++ blk ++ post) = true -> Forall is_edit blk ->
  blk = [] \/ (exists n, blk = [(Delete, n)]) \/ (exists n, blk = [(Insert, n)])
  \/ (exists n m, blk = [(Delete, n); (Insert, m)]).
Proof. exact canonical_blocks. Qed.
Print Assumptions C11_canonical_blocks.

(* -- 3. the burndown consumer accepts every validated script: no "internal integrity error", no "DiffInsert may
      not appear after DiffInsert", no "DiffDelete may not appear after ...", no File.Update panic; the file
      afterwards has the new length, kept lines keep their labels and inserted lines carry the new label *)
Theorem C11_consumer_accepts : forall (V : Type) (v : V) (old new : list (list Z)) (arr : list V) (ds : list (op * nat)),
  lines_script_ok old new ds = true -> length arr = length old ->
  exists arr', handle_modification v (length old) (length new) arr ds = HmOk arr'
               /\ length arr' = length new /\ arr' = relabel v ds arr.
Proof. exact (fun V v old new arr ds => consumer_accepts list_eqb v old new arr ds list_eqb_spec). Qed.
Print Assumptions C11_consumer_accepts.

Theorem C11_consumer_guard : forall (V : Type) (v : V) (ds : list (op * nat)) (arr : list V) (old_loc new_loc : nat),
  length arr <> old_loc -> handle_modification v old_loc new_loc arr ds = HmErr IntegritySrc.
Proof. exact (fun V v => handle_modification_src v). Qed.
Print Assumptions C11_consumer_guard.

(* the second consumer (LinesStatsCalculator) conserves lines on every validated script *)
Theorem C11_line_stats_conserve : forall (old new : list (list Z)) (ds : list (op * nat)),
  lines_script_ok old new ds = true ->
  let s := line_stats ds in
  ls_removed s + ls_changed s = del_total ds /\ ls_added s + ls_changed s = ins_total ds
  /\ length old + ls_added s = length new + ls_removed s.
Proof. exact (fun old new ds => line_stats_conserve list_eqb old new ds list_eqb_spec). Qed.
Print Assumptions C11_line_stats_conserve.

(* -- 4. whitespace-ignore.  stripWhitespace removes every 0x20 byte and (since the repair of finding F9, commit
      3944bd2) keeps a last line made of spaces only as one space.  The diff and the line counter agree for EVERY
      text blob in EVERY configuration. *)
Theorem C11_counts_agree : forall (ws : bool) (b : list Z), textb b = true ->
  count_lines b = Lines (diff_loc ws b).
Proof. exact diff_loc_agrees. Qed.
Print Assumptions C11_counts_agree.

(* -- 5. the whole chain for one modification of a tracked file (invariant: the file has CountLines(blob) lines):
      for every configuration and every script the validator accepts, the consumer accepts, and the invariant is
      re-established for the next commit *)
Theorem C11_modification_chain : forall (V : Type) (v : V) (ws : bool) (a b : list Z) (ds : list (op * nat)) (file : list V),
  textb a = true -> textb b = true ->
  file_diff_ok ws a b ds = true ->
  count_lines a = Lines (length file) ->
  exists file', handle_modification v (diff_loc ws a) (diff_loc ws b) file ds = HmOk file'
                /\ count_lines b = Lines (length file') /\ file' = relabel v ds file.
Proof. exact (fun V => @modification_chain V). Qed.
Print Assumptions C11_modification_chain.

(* -- 6. the property-level oracle applied to the implementation's outputs: lines = the lines of the unstripped
      blobs (their number is CountLines), "identical" = equal after removing the spaces when WhitespaceIgnore is
      on.  Whatever the implementation reports, if the oracle accepts it the consumer does, for every configuration. *)
Theorem C11_spec_chain : forall (V : Type) (v : V) (ws : bool) (a b : list Z) (ds : list (op * nat)) (file : list V),
  textb a = true -> textb b = true ->
  spec_ok ws a b ds = true ->
  count_lines a = Lines (length file) ->
  exists file', handle_modification v (length (split_lines a)) (length (split_lines b)) file ds = HmOk file'
                /\ count_lines b = Lines (length file') /\ file' = relabel v ds file.
Proof. exact (fun V => @spec_chain V). Qed.
Print Assumptions C11_spec_chain.

(* both oracles coincide on every pair of blobs: stripWhitespace works line by line *)
Theorem C11_split_lines_strip : forall b : list Z,
  split_lines (strip_whitespace b) = map strip_whitespace (split_lines b).
Proof. exact split_lines_strip_whitespace. Qed.
Print Assumptions C11_split_lines_strip.

Theorem C11_spec_ok_file_diff_ok : forall (ws : bool) (a b : list Z) (ds : list (op * nat)),
  spec_ok ws a b ds = file_diff_ok ws a b ds.
Proof. exact spec_ok_file_diff_ok. Qed.
Print Assumptions C11_spec_ok_file_diff_ok.

(* -- 7. line identifiers after the shift of commit 742df3d (repair of finding F15): still distinct, never a
      UTF-16 surrogate, valid code points below 1 110 016 distinct lines *)
Theorem C11_shift_id : forall i j : Z,
  (shift_id i = shift_id j -> i = j)
  /\ ~ (55296 <= shift_id i <= 57343)%Z
  /\ (0 <= i < 1112064 - 2048 -> 0 <= shift_id i <= 1114111)%Z.
Proof. exact shift_id_spec. Qed.
Print Assumptions C11_shift_id.

(* -- 8. the repaired defect F9, as it was: removing every space changed the number of lines exactly when the last
      line was non-empty and all spaces; the clause "counts agree with the line counter" was false, the chain broke *)
Theorem C11_strip_exact_before_fix : forall b : list Z,
  length (split_lines (remove_spaces b)) + (if last_blank b then 1 else 0) = length (split_lines b).
Proof. exact strip_loc_exact. Qed.
Print Assumptions C11_strip_exact_before_fix.

Theorem C11_counts_agree_before_fix : forall (ws : bool) (b : list Z), textb b = true ->
  (ws = false \/ last_blank b = false) -> count_lines b = Lines (diff_loc_before_fix ws b).
Proof. exact diff_loc_agrees_before_fix. Qed.
Print Assumptions C11_counts_agree_before_fix.

Theorem C11_strip_refuted_before_fix :
  exists b : list Z, textb b = true /\ count_lines b = Lines 2 /\ diff_loc_before_fix true b = 1
                     /\ diff_loc_before_fix false b = 2.
Proof. exact strip_refuted_before_fix. Qed.
Print Assumptions C11_strip_refuted_before_fix.

Theorem C11_strip_always_disagreed_before_fix : forall b : list Z, textb b = true -> last_blank b = true ->
  count_lines b = Lines (S (diff_loc_before_fix true b)).
Proof. exact diff_loc_disagrees_before_fix. Qed.
Print Assumptions C11_strip_always_disagreed_before_fix.

Theorem C11_modification_chain_refuted_before_fix :
  exists (a b : list Z) (ds : list (op * nat)) (file : list bool),
    textb a = true /\ textb b = true /\ file_diff_ok_before_fix true a b ds = true /\
    count_lines a = Lines (length file) /\
    handle_modification true (diff_loc_before_fix true a) (diff_loc_before_fix true b) file ds = HmErr IntegritySrc.
Proof. exact modification_chain_refuted_before_fix. Qed.
Print Assumptions C11_modification_chain_refuted_before_fix.

Theorem C11_split_lines_strip_before_fix : forall b : list Z,
  split_lines (remove_spaces b) = filter nonempty (map remove_spaces (split_lines b))
  /\ (last_blank b = false -> split_lines (remove_spaces b) = map remove_spaces (split_lines b)).
Proof.
  exact (fun b => conj (eq_trans (split_lines_spec _) (eq_trans (lines_of_strip b)
                        (f_equal (fun l => filter nonempty (map remove_spaces l)) (eq_sym (split_lines_spec b)))))
                       (split_lines_strip b)).
Qed.
Print Assumptions C11_split_lines_strip_before_fix.

(* -- non-vacuity: concrete blobs and scripts that satisfy the hypotheses *)
Definition ex_a : list Z := [97; 13; 10; 98; 10; 255; 254; 10; 99]%Z.        (* "a\r\nb\n\xff\xfe\nc"  *)
Definition ex_b : list Z := [97; 13; 10; 120; 10; 121; 10; 255; 254; 10]%Z.  (* "a\r\nx\ny\n\xff\xfe\n" *)
Definition ex_ds : list (op * nat) := [(Equal, 1); (Delete, 1); (Insert, 2); (Equal, 1); (Delete, 1)].

Example C11_ex_count : textb ex_a = true /\ count_lines ex_a = Lines 4 /\ length (split_lines ex_a) = 4
  /\ count_lines ex_b = Lines 4 /\ count_lines [] = Lines 0 /\ count_lines [0; 10]%Z = Binary.
Proof. vm_compute. repeat split; reflexivity. Qed.
Example C11_ex_script : file_diff_ok false ex_a ex_b ex_ds = true /\ file_diff_ok true ex_a ex_b ex_ds = true
  /\ file_diff_ok false ex_a ex_b [(Equal, 1); (Insert, 2); (Delete, 1); (Equal, 1); (Delete, 1)] = false
  /\ file_diff_ok false ex_a ex_b [(Equal, 2); (Insert, 2); (Delete, 2)] = false.
Proof. vm_compute. repeat split; reflexivity. Qed.
Example C11_ex_consumer :
  handle_modification 7 4 4 [1; 2; 3; 4] ex_ds = HmOk [1; 7; 7; 3]
  /\ handle_modification 7 4 4 [1; 2; 3; 4] [(Equal, 1); (Insert, 1); (Insert, 1); (Equal, 2)] = HmErr InsertAfterInsert
  /\ handle_modification 7 4 4 [1; 2; 3; 4] [(Equal, 1); (Insert, 1); (Delete, 1); (Equal, 2)] = HmErr DeleteAfterPending
  /\ handle_modification 7 4 5 [1; 2; 3; 4] ex_ds = HmErr IntegrityDst
  /\ handle_modification 7 4 4 [1; 2; 3; 4] [(Equal, 4); (Delete, 1)] = HmPanic.
Proof. vm_compute. repeat split; reflexivity. Qed.
Example C11_ex_empty_runs :   (* an observed output of the real engine *)
  canonical [(Equal, 1); (Insert, 3); (Equal, 4); (Delete, 1); (Insert, 0); (Equal, 1); (Insert, 1); (Equal, 1); (Insert, 1)] = true
  /\ handle_modification 7 3 3 [1; 2; 3] [(Equal, 1); (Delete, 1); (Insert, 0); (Equal, 1); (Insert, 0); (Insert, 1)] = HmOk [1; 3; 7]
  /\ handle_modification 7 3 3 [1; 2; 3] [(Equal, 1); (Insert, 1); (Insert, 0); (Equal, 1)] = HmErr InsertAfterInsert.
Proof. vm_compute. repeat split; reflexivity. Qed.
Example C11_ex_stats : line_stats ex_ds = mkL 1 1 1 0.
Proof. vm_compute. reflexivity. Qed.
Example C11_ex_spec : spec_ok false ex_a ex_b ex_ds = true /\ spec_ok true ex_a ex_b ex_ds = true
  /\ spec_ok true [97; 32; 10; 98; 10]%Z [32; 97; 10; 99; 10]%Z [(Equal, 1); (Delete, 1); (Insert, 1)] = true
  /\ spec_ok false [97; 32; 10; 98; 10]%Z [32; 97; 10; 99; 10]%Z [(Equal, 1); (Delete, 1); (Insert, 1)] = false
  /\ spec_ok true f9_witness [195; 169; 10]%Z [(Equal, 1)] = false
  /\ spec_ok true f9_witness [195; 169; 10]%Z [(Equal, 1); (Delete, 1)] = true
  /\ file_diff_ok true f9_witness [195; 169; 10]%Z [(Equal, 1); (Delete, 1)] = true
  /\ strip_whitespace f9_witness = [195; 169; 10; 32]%Z /\ diff_loc true f9_witness = 2.
Proof. vm_compute. repeat split; reflexivity. Qed.
Example C11_ex_strip : last_blank f9_witness = true /\ last_blank ex_a = false
  /\ remove_spaces [32; 97; 32; 9; 10; 32]%Z = [97; 9; 10]%Z
  /\ strip_whitespace [32; 97; 32; 9; 10; 32]%Z = [97; 9; 10; 32]%Z /\ strip_whitespace [32; 32]%Z = [32]%Z
  /\ strip_whitespace [97; 32]%Z = [97]%Z /\ shift_id 55295 = 55295%Z /\ shift_id 55296 = 57344%Z.
Proof. vm_compute. repeat split; reflexivity. Qed.
