(* Branch lifecycle of a plan (C04), over the executor of Exec.v.  Definitions only.

   absent --emerge / fork target--> live <--hibernate / boot--> hibernated
                                     live --delete--> disposed (for ever)                         *)
From Coq Require Import List ZArith Bool Arith Lia.
From Herc Require Import Plan.Syntax Plan.Exec Plan.Graph Plan.Checker.
Import ListNotations.
Open Scope Z_scope.

(* branches an action needs live and awake / creates / wakes up *)
Definition uses (a : action) : list Z :=
  match kind a, items a with
  | KCommit, b :: _ | KFork, b :: _ | KDelete, b :: _ => [b]
  | KMerge, ms | KHibernate, ms => ms
  | _, _ => []
  end.
Definition creates (a : action) : list Z :=
  match kind a, items a with
  | KEmerge, b :: _ => [b]
  | KFork, _ :: ts => ts
  | _, _ => []
  end.
Definition boots (a : action) : list Z :=
  match kind a with KBoot => items a | _ => [] end.

(* what must hold of the state in which an action is executed *)
Definition step_ok (s : state) (a : action) : Prop :=
  wf_action a /\ NoDup (items a) /\
  (forall b, In b (uses a) -> awake s b) /\
  (forall b, In b (creates a) -> get s b = Absent) /\
  (forall b, In b (boots a) -> hibernated s b).

(* every action of the plan is executed in a state that allows it:
   - a branch is created only while absent, i.e. at most once and never after its disposal (a root by emerge, or the
     target of a fork whose source is live and awake);
   - commit / fork source / merge participants / delete / hibernate need the branch live and awake: never used after
     disposal, disposed only after the last use, never disposed or hibernated again while hibernated, booted before the
     next use; merge participants are pairwise distinct;
   - only hibernated branches are booted. *)
Definition lifecycle_from (s : state) (p : plan) : Prop :=
  forall p1 a p2, p = p1 ++ a :: p2 -> step_ok (run s p1) a.
Definition lifecycle_ok (p : plan) : Prop := lifecycle_from init p.

Definition nothing_hibernated (s : state) : Prop := forall b, ~ hibernated s b.

(* the branch [Run] takes the results from: getMasterBranch = smallest key of the branches map *)
Definition master_of (s : state) (b : Z) : Prop :=
  surviving s b /\ forall b', surviving s b' -> b <= b'.

(* ---------- executable ---------- *)

Definition step_okb (s : state) (a : action) : bool :=
  wf_actionb a && nodupz (items a) &&
  forallb (awakeb s) (uses a) && forallb (absentb s) (creates a) && forallb (hibernatedb s) (boots a).

Fixpoint lifecycleb (s : state) (p : plan) : bool :=
  match p with
  | [] => true
  | a :: r => step_okb s a && lifecycleb (step s a) r
  end.

Definition nothing_hibernatedb (s : state) : bool :=
  forallb (fun k => negb (hibernatedb s k)) (map fst s).

(* input of collectGarbage: no delete / hibernate / boot yet, branch ids >= rootBranchIndex *)
Definition gc_inputb (p : plan) : bool :=
  forallb (fun a => negb (is_kind KDelete a || is_kind KHibernate a || is_kind KBoot a) &&
                    forallb (fun b => 1 <=? b) (items a)) p.
Definition pre_okb (p : plan) : bool := gc_inputb p && lifecycleb init p.

(* input of insertHibernateBoot: no hibernate / boot yet *)
Definition hb_inputb (p : plan) : bool :=
  forallb (fun a => negb (is_kind KHibernate a || is_kind KBoot a)) p.

(* the checker of full plans used by ./check C04 *)
Definition c04_ok (g : dag) (p : plan) : bool :=
  lifecycleb init p && nothing_hibernatedb (run init p) && plan_ok g (erase_hb p).

(* what C04_hib promises of the output of insertHibernateBoot, executable *)
Definition hb_outb (p : plan) : bool := lifecycleb init p && nothing_hibernatedb (run init p).
