(* Proofs about the model of MergeReversedDictsIdentities (IdentityMerge.v), part 1:
   the walk computes a reachability closure whatever element is popped; the vocabulary stores valid
   indices; the fuel is never exhausted; reachability over parts = connectivity of identities;
   the oracle [connb] decides connectivity.  Nothing here needs the disjointness hypothesis. *)
From Coq Require Import List ZArith Lia Bool Permutation Relations.
From Herc Require Import Plumbing.IdStr Plumbing.IdentityMerge.
Import ListNotations.
Local Open Scope Z_scope.

(* ---------- reachability from a set of roots ---------- *)
Inductive reach (adj : list Z -> list Z -> Prop) (root : list (list Z)) : list Z -> Prop :=
| reach_root p : In p root -> reach adj root p
| reach_step p q : reach adj root p -> adj p q -> reach adj root q.

Lemma reach_ext (adj1 adj2 : str -> str -> Prop) (U : list str) root :
  incl root U ->
  (forall p q, In p U -> adj1 p q -> In q U) ->
  (forall p q, In p U -> (adj1 p q <-> adj2 p q)) ->
  forall p, reach adj1 root p <-> reach adj2 root p.
Proof.
  intros Hr Hc He p. split.
  - intros H. assert (G : reach adj2 root p /\ In p U).
    { induction H as [p Hp|p q H [IH1 IH2] Hq].
      - split; [apply reach_root; assumption|apply Hr; assumption].
      - split; [eapply reach_step; [exact IH1|apply He; assumption]|eapply Hc; eassumption]. }
    apply G.
  - intros H. assert (G : reach adj1 root p /\ In p U).
    { induction H as [p Hp|p q H [IH1 IH2] Hq].
      - split; [apply reach_root; assumption|apply Hr; assumption].
      - apply He in Hq; [|assumption]. split; [eapply reach_step; eassumption|eapply Hc; eassumption]. }
    apply G.
Qed.

(* ---------- padd and the pending fold ---------- *)
Lemma padd_In pd p x : In x (padd pd p) <-> In x pd \/ x = p.
Proof.
  unfold padd. destruct (smem p pd) eqn:E.
  - apply smem_In in E. split; [auto|]. intros [H| ->]; assumption.
  - rewrite in_app_iff. simpl. intuition.
Qed.

Lemma padd_NoDup pd p : NoDup pd -> NoDup (padd pd p).
Proof.
  unfold padd. intros H. destruct (smem p pd) eqn:E; [assumption|].
  apply NoDup_snoc; [assumption|]. apply smem_nIn. assumption.
Qed.

Lemma fold_padd_In l : forall pd x, In x (fold_left padd l pd) <-> In x pd \/ In x l.
Proof.
  induction l as [|p l IH]; intros pd x; simpl; [tauto|].
  rewrite IH, padd_In. intuition.
Qed.

Lemma fold_padd_NoDup l : forall pd, NoDup pd -> NoDup (fold_left padd l pd).
Proof. induction l as [|p l IH]; intros pd H; simpl; [assumption|]. apply IH, padd_NoDup, H. Qed.

Lemma fold_pending_In (walk : list str) l : forall pd x,
  In x (fold_left (fun pd p => if smem p walk then pd else padd pd p) l pd) <->
  In x pd \/ (In x l /\ ~ In x walk).
Proof.
  induction l as [|p l IH]; intros pd x; simpl; [tauto|].
  rewrite IH. destruct (smem p walk) eqn:E.
  - apply smem_In in E. split; [tauto|]. intros [H|[[->|H] Hn]]; tauto.
  - apply smem_nIn in E. rewrite padd_In. split; [intuition; subst; tauto|].
    intros [H|[[->|H] Hn]]; tauto.
Qed.

Lemma fold_pending_NoDup (walk : list str) l : forall pd, NoDup pd ->
  NoDup (fold_left (fun pd p => if smem p walk then pd else padd pd p) l pd).
Proof.
  induction l as [|p l IH]; intros pd H; simpl; [assumption|].
  apply IH. destruct (smem p walk); [assumption|apply padd_NoDup; assumption].
Qed.

(* ---------- the walk ---------- *)
Section WalkProofs.
  Variable succs : str -> list str.
  Variable sel : list str -> list str.
  Hypothesis sel_perm : forall l, Permutation (sel l) l.
  Variable U : list str.                       (* a universe closed under succs *)
  Hypothesis U_closed : forall p, In p U -> incl (succs p) U.

  Let adj (p q : str) : Prop := In q (succs p).

  Record WInv (root walk pending : list str) : Prop := {
    wi_nd_walk : NoDup walk;
    wi_nd_pend : NoDup pending;
    wi_disj : forall p, In p walk -> ~ In p pending;
    wi_reach : forall p, In p walk \/ In p pending -> reach adj root p;
    wi_root : forall p, In p root -> In p walk \/ In p pending;
    wi_succ : forall p q, In p walk -> In q (succs p) -> In q walk \/ In q pending
  }.

  Lemma reach_in_U root p : incl root U -> reach adj root p -> In p U.
  Proof.
    intros Hr H. induction H as [p Hp|p q H IH Hq]; [apply Hr; assumption|].
    eapply U_closed; eassumption.
  Qed.

  Lemma walk_loop_spec root : incl root U -> forall fuel walk pending,
    WInv root walk pending -> (length U < fuel + length walk)%nat ->
    exists w, walk_loop succs sel fuel walk pending = Some w /\ NoDup w /\
              forall p, In p w <-> reach adj root p.
  Proof.
    intros Hr. induction fuel as [|f IH]; intros walk pending I Hf.
    - exfalso. assert (length walk <= length U)%nat; [|lia].
      apply NoDup_incl_length; [apply (wi_nd_walk _ _ _ I)|].
      intros p Hp. eapply reach_in_U; [eassumption|]. apply (wi_reach _ _ _ I). auto.
    - cbn [walk_loop]. pose proof (sel_perm pending) as Hperm.
      destruct (sel pending) as [|e rest] eqn:Es.
      + apply Permutation_nil in Hperm. subst pending.
        exists walk. split; [reflexivity|]. split; [apply (wi_nd_walk _ _ _ I)|].
        intros p. split; [intros H; apply (wi_reach _ _ _ I); auto|].
        intros H. induction H as [p Hp|p q H IHr Hq].
        * destruct (wi_root _ _ _ I p Hp) as [?|[]]. assumption.
        * destruct (wi_succ _ _ _ I p q IHr Hq) as [?|[]]. assumption.
      + assert (Hin : forall x, In x pending <-> x = e \/ In x rest).
        { intros x. split; intros H.
          - apply (Permutation_in _ (Permutation_sym Hperm)) in H. destruct H; auto.
          - apply (Permutation_in _ Hperm). destruct H; [left; auto|right; assumption]. }
        assert (Hnd : NoDup (e :: rest)).
        { eapply Permutation_NoDup; [apply Permutation_sym; exact Hperm|apply (wi_nd_pend _ _ _ I)]. }
        inversion Hnd as [|? ? Hne Hndr]; subst.
        assert (Hew : ~ In e walk).
        { intros H. apply (wi_disj _ _ _ I e H). apply Hin. auto. }
        apply smem_nIn in Hew. rewrite Hew. apply smem_nIn in Hew.
        apply IH; [|rewrite app_length; simpl; lia].
        constructor.
        * apply NoDup_snoc; [apply (wi_nd_walk _ _ _ I)|assumption].
        * apply fold_pending_NoDup. assumption.
        * intros p Hp. rewrite fold_pending_In. rewrite in_app_iff in Hp. simpl in Hp.
          intros [H|[_ H]]; [|apply H; rewrite in_app_iff; simpl; tauto].
          destruct Hp as [Hp|[<-|[]]]; [|contradiction].
          apply (wi_disj _ _ _ I p Hp). apply Hin. auto.
        * intros p. rewrite fold_pending_In, in_app_iff. simpl.
          intros [[H|[<-|[]]]|[H|[H _]]].
          -- apply (wi_reach _ _ _ I). auto.
          -- apply (wi_reach _ _ _ I). right. apply Hin. auto.
          -- apply (wi_reach _ _ _ I). right. apply Hin. auto.
          -- eapply reach_step; [|exact H]. apply (wi_reach _ _ _ I). right. apply Hin. auto.
        * intros p Hp. rewrite fold_pending_In, in_app_iff. simpl.
          destruct (wi_root _ _ _ I p Hp) as [H|H]; [auto|].
          apply Hin in H. destruct H as [->|H]; auto.
        * intros p q Hp Hq. rewrite fold_pending_In, !in_app_iff. simpl.
          rewrite in_app_iff in Hp. simpl in Hp. destruct Hp as [Hp|[<-|[]]].
          -- destruct (wi_succ _ _ _ I p q Hp Hq) as [H|H]; [auto|].
             apply Hin in H. destruct H as [->|H]; auto.
          -- destruct (in_dec str_eq_dec q (walk ++ [e])) as [H|H].
             ++ rewrite in_app_iff in H. simpl in H. tauto.
             ++ rewrite in_app_iff in H. simpl in H. tauto.
  Qed.

  Lemma walk_from_spec root fuel : incl root U -> (length U < fuel)%nat ->
    exists w, walk_from succs sel fuel root = Some w /\ NoDup w /\
              forall p, In p w <-> reach adj root p.
  Proof.
    intros Hr Hf. unfold walk_from. apply walk_loop_spec; [assumption| |simpl; lia].
    constructor.
    - constructor.
    - apply fold_padd_NoDup. constructor.
    - intros p [].
    - intros p [[]|H]. apply fold_padd_In in H. destruct H as [[]|H]. apply reach_root. assumption.
    - intros p Hp. right. apply fold_padd_In. auto.
    - intros p q [].
  Qed.
End WalkProofs.

(* ---------- the vocabulary ---------- *)
Definition fst_of (o : option ipair) : Z := match o with Some ip => fst ip | None => -1 end.

Lemma smem_cons p q (r : list str) : smem p (q :: r) = str_eqb p q || smem p r.
Proof. reflexivity. Qed.

Lemma fold_add1 i parts : forall voc p,
  sget (fold_left (voc_add1 i) parts voc) p = if smem p parts then Some (i, -1) else sget voc p.
Proof.
  induction parts as [|q r IH]; intros voc p; [reflexivity|].
  cbn [fold_left]. rewrite IH, smem_cons. unfold voc_add1. rewrite sget_sset. rewrite (str_eqb_sym p q).
  destruct (str_eqb q p); simpl; destruct (smem p r); reflexivity.
Qed.

Lemma fold_add2 j parts : forall voc p,
  sget (fold_left (voc_add2 j) parts voc) p =
  if smem p parts then Some (fst_of (sget voc p), j) else sget voc p.
Proof.
  induction parts as [|q r IH]; intros voc p; [reflexivity|].
  cbn [fold_left]. rewrite IH, smem_cons. rewrite (str_eqb_sym p q).
  assert (E : sget (voc_add2 j voc q) p = if str_eqb q p then Some (fst_of (sget voc q), j) else sget voc p).
  { unfold voc_add2. destruct (sget voc q) as [ip|]; rewrite sget_sset; reflexivity. }
  rewrite E. destruct (str_eqb_spec q p) as [->|]; simpl.
  - destruct (smem p r); reflexivity.
  - reflexivity.
Qed.

(* vertex i contains p, or i = -1 and no vertex of that side contains p *)
Definition side_ok (vs : list (list str)) (a : Z) (p : str) : Prop :=
  (a = -1 /\ forall v, In v vs -> ~ In p v) \/ (0 <= a < Z.of_nat (length vs) /\ In p (vertex vs a)).

Lemma vertex_nat vs (n : nat) : vertex vs (Z.of_nat n) = nth n vs [].
Proof. unfold vertex. destruct (Z.leb_spec 0 (Z.of_nat n)); [|lia]. rewrite Nat2Z.id. reflexivity. Qed.

Lemma side_ok_snoc_old vs x a p : ~ In p x -> side_ok vs a p -> side_ok (vs ++ [x]) a p.
Proof.
  intros Hn [[-> H]|[Hr H]].
  - left. split; [reflexivity|]. intros v Hv. apply in_app_iff in Hv. destruct Hv as [Hv|[<-|[]]]; auto.
  - right. rewrite app_length. simpl. split; [lia|].
    unfold vertex in *. destruct (Z.leb_spec 0 a); [|lia]. rewrite app_nth1; [assumption|lia].
Qed.

Lemma side_ok_snoc_new vs x p : In p x -> side_ok (vs ++ [x]) (Z.of_nat (length vs)) p.
Proof.
  intros H. right. rewrite app_length. simpl. split; [lia|].
  rewrite vertex_nat, app_nth2, Nat.sub_diag by lia. assumption.
Qed.

Lemma build_side1_spec : forall rest pre voc,
  (forall p, match sget voc p with
             | None => forall v, In v pre -> ~ In p v
             | Some ip => snd ip = -1 /\ side_ok pre (fst ip) p /\ fst ip <> -1
             end) ->
  forall p, match sget (build_side voc_add1 voc (Z.of_nat (length pre)) rest) p with
            | None => forall v, In v (pre ++ rest) -> ~ In p v
            | Some ip => snd ip = -1 /\ side_ok (pre ++ rest) (fst ip) p /\ fst ip <> -1
            end.
Proof.
  induction rest as [|x rest IH]; intros pre voc H p; cbn [build_side].
  - rewrite app_nil_r. apply H.
  - replace (pre ++ x :: rest) with ((pre ++ [x]) ++ rest) by (rewrite <- app_assoc; reflexivity).
    replace (Z.of_nat (length pre) + 1) with (Z.of_nat (length (pre ++ [x]))) by (rewrite app_length; simpl; lia).
    apply IH. clear p. intros p. rewrite fold_add1. destruct (smem p x) eqn:E.
    + apply smem_In in E. cbn [fst snd]. split; [reflexivity|]. split; [apply side_ok_snoc_new; assumption|lia].
    + apply smem_nIn in E. specialize (H p). destruct (sget voc p) as [ip|].
      * destruct H as [H1 [H2 H3]]. split; [assumption|]. split; [apply side_ok_snoc_old; assumption|assumption].
      * intros v Hv. apply in_app_iff in Hv. destruct Hv as [Hv|[<-|[]]]; auto.
Qed.

Definition voc_ok (v1 v2 : list (list str)) (voc : list (str * ipair)) : Prop :=
  forall p, match sget voc p with
            | None => forall v, In v (v1 ++ v2) -> ~ In p v
            | Some ip => side_ok v1 (fst ip) p /\ side_ok v2 (snd ip) p
            end.

Lemma build_side2_spec v1 : forall rest pre voc,
  voc_ok v1 pre voc ->
  voc_ok v1 (pre ++ rest) (build_side voc_add2 voc (Z.of_nat (length pre)) rest).
Proof.
  induction rest as [|x rest IH]; intros pre voc H; cbn [build_side].
  - rewrite app_nil_r. apply H.
  - replace (pre ++ x :: rest) with ((pre ++ [x]) ++ rest) by (rewrite <- app_assoc; reflexivity).
    replace (Z.of_nat (length pre) + 1) with (Z.of_nat (length (pre ++ [x]))) by (rewrite app_length; simpl; lia).
    apply IH. intros p. rewrite fold_add2. specialize (H p). destruct (smem p x) eqn:E.
    + apply smem_In in E. cbn [fst snd]. split; [|apply side_ok_snoc_new; assumption].
      destruct (sget voc p) as [ip|]; cbn [fst_of]; [apply H|].
      left. split; [reflexivity|]. intros v Hv. apply H. apply in_app_iff. auto.
    + apply smem_nIn in E. destruct (sget voc p) as [ip|].
      * destruct H as [H1 H2]. split; [assumption|apply side_ok_snoc_old; assumption].
      * intros v Hv. rewrite app_assoc in Hv. apply in_app_iff in Hv. destruct Hv as [Hv|[<-|[]]]; auto.
Qed.

Lemma build_voc_ok v1 v2 : voc_ok v1 v2 (build_voc v1 v2).
Proof.
  unfold build_voc.
  apply (build_side2_spec v1 v2 [] (build_side voc_add1 [] 0 v1)).
  intros p. rewrite app_nil_r.
  assert (H0 : forall p, match sget (@nil (str * ipair)) p with
                         | None => forall v, In v (@nil (list str)) -> ~ In p v
                         | Some ip => snd ip = -1 /\ side_ok [] (fst ip) p /\ fst ip <> -1
                         end) by (intros q v []).
  pose proof (build_side1_spec v1 [] [] H0 p) as H. cbn [app length Z.of_nat] in H.
  destruct (sget (build_side voc_add1 [] 0 v1) p) as [ip|]; [|assumption].
  destruct H as [H1 [H2 H3]]. split; [assumption|]. left. split; [assumption|intros v []].
Qed.

(* every index stored in the vocabulary is -1 or in range: the reads vertices[ip.Index] and rd[ip.Index]
   of the Go code never fail *)
Lemma build_voc_range v1 v2 p a b : sget (build_voc v1 v2) p = Some (a, b) ->
  -1 <= a < Z.of_nat (length v1) /\ -1 <= b < Z.of_nat (length v2).
Proof.
  intros H. pose proof (build_voc_ok v1 v2 p) as K. rewrite H in K. cbn [fst snd] in K.
  destruct K as [[[-> _]|[? _]] [[-> _]|[? _]]]; lia.
Qed.

Lemma in_vertex vs a p : In p (vertex vs a) -> In p (concat vs).
Proof.
  unfold vertex. destruct (0 <=? a); [|intros []]. intros H.
  apply in_concat. exists (nth (Z.to_nat a) vs []). split; [|assumption].
  destruct (Nat.ltb_spec (Z.to_nat a) (length vs)); [apply nth_In; assumption|].
  rewrite nth_overflow in H by assumption. destruct H.
Qed.

Lemma vertex_In vs a : 0 <= a < Z.of_nat (length vs) -> In (vertex vs a) vs.
Proof.
  intros H. unfold vertex. destruct (Z.leb_spec 0 a); [|lia]. apply nth_In. lia.
Qed.

(* the universe of parts is closed under the vocabulary's successor function *)
Lemma succs_voc_closed v1 v2 p :
  incl (succs_voc (build_voc v1 v2) v1 v2 p) (concat v1 ++ concat v2).
Proof.
  intros q Hq. unfold succs_voc in Hq. apply in_app_iff in Hq. apply in_app_iff.
  destruct Hq as [Hq|Hq]; [left|right]; eapply in_vertex; eassumption.
Qed.

(* ---------- the fuel is never exhausted ---------- *)
Section Fuel.
  Variable sel : list str -> list str.
  Hypothesis sel_perm : forall l, Permutation (sel l) l.

  Lemma visit_fold_some succs U fuel : (forall p, In p U -> incl (succs p) U) -> (length U < fuel)%nat ->
    forall vs st, (forall v, In v vs -> incl v U) -> st <> None ->
    fold_left (visit_step succs sel fuel) vs st <> None.
  Proof.
    intros HU Hf. induction vs as [|v vs IH]; intros st Hvs Hst; simpl; [assumption|].
    apply IH; [intros; apply Hvs; right; assumption|].
    destruct st as [[walks visited]|]; [|congruence]. unfold visit_step.
    destruct (existsb _ v); [discriminate|].
    destruct (walk_from_spec succs sel sel_perm U HU v fuel (Hvs v (or_introl eq_refl)) Hf) as [w [E _]].
    rewrite E. discriminate.
  Qed.

  Theorem merge_walks_total rd1 rd2 : merge_walks sel rd1 rd2 <> None.
  Proof.
    unfold merge_walks.
    set (v1 := map split rd1). set (v2 := map split rd2).
    set (U := concat v1 ++ concat v2).
    set (step := visit_step _ sel _).
    assert (HU : forall p, In p U -> incl (succs_voc (build_voc v1 v2) v1 v2 p) U)
      by (intros p _; apply succs_voc_closed).
    assert (H : fold_left step v2 (fold_left step v1 (Some ([], []))) <> None).
    { apply (visit_fold_some _ U _ HU); [lia| |].
      - intros v Hv p Hp. apply in_app_iff. right. apply in_concat. eauto.
      - apply (visit_fold_some _ U _ HU); [lia| |discriminate].
        intros v Hv p Hp. apply in_app_iff. left. apply in_concat. eauto. }
    destruct (fold_left step v2 (fold_left step v1 (Some ([], [])))) as [[w vis]|]; congruence.
  Qed.

  Theorem merge_never_out_of_fuel rd1 rd2 : merge_reversed_dicts_identities sel rd1 rd2 <> None.
  Proof.
    unfold merge_reversed_dicts_identities. pose proof (merge_walks_total rd1 rd2).
    destruct (merge_walks sel rd1 rd2); congruence.
  Qed.
End Fuel.

(* ---------- connectivity of identities = reachability over parts ---------- *)
Definition shares (x y : list str) : Prop := exists p, In p x /\ In p y.

(* identities (strings of [ids]) are linked when they share a part; connected = reflexive transitive closure *)
Definition linked (ids : list str) (s t : str) : Prop :=
  In s ids /\ In t ids /\ shares (split s) (split t).
Definition connected (ids : list str) : str -> str -> Prop := clos_refl_trans str (linked ids).

Lemma linked_sym ids s t : linked ids s t -> linked ids t s.
Proof. intros [H1 [H2 [p [H3 H4]]]]. repeat split; try assumption. exists p. auto. Qed.

Lemma connected_sym ids s t : connected ids s t -> connected ids t s.
Proof.
  intros H. induction H as [s t H|s|s t u _ IH1 _ IH2].
  - apply rt_step, linked_sym, H.
  - apply rt_refl.
  - eapply rt_trans; eassumption.
Qed.

(* two parts are adjacent when some identity contains both *)
Definition adjT (ids : list str) (p q : str) : Prop := exists u, In u ids /\ In p (split u) /\ In q (split u).

Lemma adjT_sym ids p q : adjT ids p q -> adjT ids q p.
Proof. intros [u [H1 [H2 H3]]]. exists u. auto. Qed.

Lemma succs_true_adjT ids p q : In q (succs_true (map split ids) p) <-> adjT ids p q.
Proof.
  unfold succs_true, adjT. rewrite in_concat. split.
  - intros [v [Hv Hq]]. apply filter_In in Hv. destruct Hv as [Hv Hp]. apply smem_In in Hp.
    apply in_map_iff in Hv. destruct Hv as [u [<- Hu]]. eauto.
  - intros [u [Hu [Hp Hq]]]. exists (split u). split; [|assumption].
    apply filter_In. split; [apply in_map; assumption|apply smem_In; assumption].
Qed.

Lemma reach_connected ids s : In s ids -> forall p, reach (adjT ids) (split s) p ->
  forall t, In t ids -> In p (split t) -> connected ids s t.
Proof.
  intros Hs p H. induction H as [p Hp|p q H IH Hq]; intros t Ht Hpt.
  - apply rt_step. repeat split; try assumption. exists p. auto.
  - destruct Hq as [u [Hu [Hpu Hqu]]].
    eapply rt_trans; [apply (IH u Hu Hpu)|].
    apply rt_step. repeat split; try assumption. exists q. auto.
Qed.

Lemma connected_reach ids s t : connected ids s t -> forall root,
  (forall p, In p (split s) -> reach (adjT ids) root p) ->
  forall q, In q (split t) -> reach (adjT ids) root q.
Proof.
  intros H. induction H as [s t [Hs [Ht [p [Hps Hpt]]]]|s|s t u _ IH1 _ IH2]; intros root Hroot q Hq.
  - eapply reach_step; [apply Hroot; exact Hps|]. exists t. auto.
  - apply Hroot. assumption.
  - apply (IH2 root); [|assumption]. intros p Hp. apply (IH1 root); assumption.
Qed.

(* reachability is symmetric: whatever reaches p also reaches the root part p came from *)
Lemma reach_back ids root p : reach (adjT ids) root p ->
  exists p0, In p0 root /\ forall root', reach (adjT ids) root' p -> reach (adjT ids) root' p0.
Proof.
  intros H. induction H as [p Hp|p q H [p0 [Hp0 IH]] Hq].
  - exists p. auto.
  - exists p0. split; [assumption|]. intros root' Hr. apply IH.
    eapply reach_step; [exact Hr|apply adjT_sym; assumption].
Qed.

(* ---------- the oracle decides connectivity ---------- *)
Lemma component_spec ids x : forall p,
  In p (component (map split ids) x) <-> reach (adjT ids) x p.
Proof.
  intros p. unfold component.
  set (vs := map split ids).
  set (U := concat vs ++ x).
  assert (HU : forall p, In p U -> incl (succs_true vs p) U).
  { intros p0 _ q Hq. apply in_app_iff. left. unfold succs_true in Hq.
    apply in_concat in Hq. destruct Hq as [v [Hv Hq]]. apply filter_In in Hv.
    apply in_concat. exists v. tauto. }
  destruct (walk_from_spec (succs_true vs) (fun l => l) (fun l => Permutation_refl l) U HU x
              (S (length (concat vs) + length x))) as [w [E [_ Hw]]].
  - intros q Hq. apply in_app_iff. auto.
  - unfold U. rewrite app_length. lia.
  - rewrite E, Hw. split; intros H.
    + induction H as [q Hq|q r H IH Hr]; [apply reach_root; assumption|].
      eapply reach_step; [exact IH|]. apply succs_true_adjT. assumption.
    + induction H as [q Hq|q r H IH Hr]; [apply reach_root; assumption|].
      eapply reach_step; [exact IH|]. apply succs_true_adjT. assumption.
Qed.

Theorem connb_spec ids s t : In s ids -> In t ids ->
  (connb (map split ids) (split s) (split t) = true <-> connected ids s t).
Proof.
  intros Hs Ht. unfold connb. rewrite existsb_exists. split.
  - intros [p [Hp H]]. apply smem_In, component_spec in H.
    eapply reach_connected; eassumption.
  - intros H. destruct (split t) as [|p r] eqn:E; [exfalso; eapply split_nonempty; eassumption|].
    exists p. split; [left; reflexivity|]. apply smem_In, component_spec.
    apply (connected_reach ids s t H); [intros; apply reach_root; assumption|].
    rewrite E. left. reflexivity.
Qed.
