(* C17 - the three end-to-end statements, through proto.Marshal / proto.Unmarshal (external code:
   any pair of functions with unmarshal (marshal m) = Some m), and concrete witnesses. *)
From Coq Require Import List ZArith Bool.
From Herc Require Import Results.PB Results.MapProofs Results.SparseProofs Results.DevsCouplesProofs Results.BurndownProofs.
Import ListNotations.
Open Scope Z_scope.

Section Wire.
  Context {M B : Type}.
  Variable marshal : M -> B.
  Variable unmarshal : B -> option M.
  Hypothesis wire : forall m, unmarshal (marshal m) = Some m.

  Definition roundtrip_with {R : Type} (encode : R -> res M) (decode : M -> res R) (r : R) : res R :=
    bind (serialize_with marshal encode r) (deserialize_with unmarshal decode).

  Lemma roundtrip_with_eq {R : Type} (encode : R -> res M) (decode : M -> res R) (r : R) :
    roundtrip_with encode decode r = bind (encode r) decode.
  Proof. apply wire_roundtrip. exact wire. Qed.
End Wire.

Theorem burndown_wire : forall (B : Type) (marshal : burndown_msg -> B) (unmarshal : B -> option burndown_msg),
  (forall m, unmarshal (marshal m) = Some m) ->
  forall r, rectangular_burndown r = true -> in_range_burndown r = true ->
  roundtrip_with marshal unmarshal encode_burndown decode_burndown r = Ok (normalise_burndown r).
Proof.
  intros B marshal unmarshal wire r H1 H2. rewrite roundtrip_with_eq by exact wire.
  apply burndown_roundtrip; assumption.
Qed.

(* the same with the two alignment conditions spelled out *)
Theorem burndown_wire_explicit : forall (B : Type) (marshal : burndown_msg -> B) (unmarshal : B -> option burndown_msg),
  (forall m, unmarshal (marshal m) = Some m) ->
  forall r, shape_burndown r = true ->
  names_eqb (map fst (bd_files r)) (map fst (bd_ownership r)) = true ->
  (length (bd_names r) =? length (bd_people r))%nat = true ->
  in_range_burndown r = true ->
  roundtrip_with marshal unmarshal encode_burndown decode_burndown r = Ok (normalise_burndown r).
Proof.
  intros B marshal unmarshal wire r Hs Hk Hl Hr. apply burndown_wire; [exact wire | | exact Hr].
  unfold rectangular_burndown, aligned_burndown. rewrite Hs, Hk, Hl. reflexivity.
Qed.

Theorem burndown_wire_image : forall (B : Type) (marshal : burndown_msg -> B) (unmarshal : B -> option burndown_msg),
  (forall m, unmarshal (marshal m) = Some m) ->
  forall r, shape_burndown r = true -> in_range_burndown r = true ->
  roundtrip_with marshal unmarshal encode_burndown decode_burndown r = Ok (image_burndown r).
Proof.
  intros B marshal unmarshal wire r H1 H2. rewrite roundtrip_with_eq by exact wire.
  apply burndown_roundtrip_image; assumption.
Qed.

Theorem devs_wire : forall (B : Type) (marshal : devs_msg -> B) (unmarshal : B -> option devs_msg),
  (forall m, unmarshal (marshal m) = Some m) ->
  forall r, shape_devs r = true -> in_range_devs r = true ->
  roundtrip_with marshal unmarshal (fun r => Ok (encode_devs r)) (fun m => Ok (decode_devs m)) r = Ok r.
Proof.
  intros B marshal unmarshal wire r H1 H2. rewrite roundtrip_with_eq by exact wire.
  cbn [bind]. rewrite devs_roundtrip by assumption. reflexivity.
Qed.

Theorem couples_wire : forall (B : Type) (marshal : couples_msg -> B) (unmarshal : B -> option couples_msg),
  (forall m, unmarshal (marshal m) = Some m) ->
  forall r, shape_couples r = true -> in_range_couples r = true ->
  roundtrip_with marshal unmarshal encode_couples decode_couples r = Ok (normalise_couples r).
Proof.
  intros B marshal unmarshal wire r H1 H2. rewrite roundtrip_with_eq by exact wire.
  apply couples_roundtrip; assumption.
Qed.

(* ---------------------------------------------------------------- witnesses *)
Definition nm (l : list Z) : list Z := l.
Definition n_a : list Z := [97].           (* "a" *)
Definition n_b : list Z := [98].           (* "b" *)
Definition n_unmatched : list Z := [60; 117; 110; 109; 97; 116; 99; 104; 101; 100; 62].   (* "<unmatched>" *)

(* a result inside the domain: negative cells, trailing zeros, an all-zero row, counters next to 2^32 and
   2^31, two files with ownership tables (one held by the unmatched author, -1), two developers *)
Definition ex_burndown : burndown_result :=
  {| bd_global := [[5; 0; 0]; [-1; 4294967295; 0]; [0; 0; 0]];
     bd_files := [(n_a, [[3; -2; 0]]); (n_b, [[0; 0; 7]; [1; 0; 0]])];
     bd_ownership := [(n_a, [(-1, 2); (0, 2147483647)]); (n_b, [])];
     bd_people := [[[1; 0; 0]]; [[0; 0; 0]]];
     bd_matrix := Some [[3; 0; -4; 0]; [0; 0; 0; 9223372036854775807]];
     bd_names := [n_a; []];
     bd_tick_size := 86400000000000; bd_sampling := 30; bd_granularity := 30 |}.

(* Finalize with a people dictionary read from a file: one more name ("<unmatched>") than people histories *)
Definition ex_burndown_loaded_dict : burndown_result :=
  {| bd_global := [[1]]; bd_files := []; bd_ownership := [];
     bd_people := [[[1]]]; bd_matrix := Some [[1; 0; 0]];
     bd_names := [n_a; n_unmatched];
     bd_tick_size := 86400000000000; bd_sampling := 30; bd_granularity := 30 |}.

(* a hand-made result in which file "b" has a history but no ownership table (until the repair 909b314
   BurndownAnalysis.Finalize made such results for a file that exists on another head only) *)
Definition ex_burndown_no_ownership : burndown_result :=
  {| bd_global := [[2]]; bd_files := [(n_a, [[1]]); (n_b, [[1]])]; bd_ownership := [(n_a, [(0, 1)])];
     bd_people := []; bd_matrix := None; bd_names := [];
     bd_tick_size := 86400000000000; bd_sampling := 30; bd_granularity := 30 |}.

Definition ex_devs : devs_result :=
  {| dv_ticks := [(0, [(0, {| dt_commits := 2; dt_stats := {| ls_added := 10; ls_removed := 2147483647; ls_changed := 0 |};
                              dt_langs := [([], {| ls_added := 1; ls_removed := 0; ls_changed := 0 |});
                                           ([71; 111], {| ls_added := 9; ls_removed := 3; ls_changed := 0 |})] |});
                       (author_missing, {| dt_commits := 1; dt_stats := {| ls_added := 0; ls_removed := 0; ls_changed := 0 |};
                                           dt_langs := [] |})]);
                  (2147483647, [])];
     dv_names := [n_a; []]; dv_tick_size := 3600000000000 |}.

(* couples with a generated dictionary: PeopleNumber = 1 name, PeopleNumber + 1 = 2 rows *)
Definition ex_couples : couples_result :=
  {| cp_people_matrix := [[(0, 3); (1, 1)]; [(0, 1)]];
     cp_people_files := [[0; 1]; [1]];
     cp_files_matrix := [[(0, 2); (1, 1)]; [(0, 1); (1, 0)]];
     cp_files_lines := [10; 2147483647];
     cp_files := [n_b; n_a];
     cp_names := [n_a] |}.
