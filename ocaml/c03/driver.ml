(* C03: replay the harness trace of the real burndown.File through
   (fine)   the extracted Gallina model of NewFile / Update (node list, Len, Updater calls, panic class), and
   (coarse) the property itself: the extracted plain-array edit arr_update, the domain predicates validb /
            must_panicb and the running histogram kept from the Updater calls the implementation made. *)
open C03_model
open Conv

let z = z_of_int
let zi = int_of_z

let pclass_name = function
  | PTimeNeg -> "time-neg" | PTimeBig -> "time-big" | PPosNeg -> "pos-neg" | PPosBig -> "pos-big"
  | PLenNeg -> "len-neg" | PLenBig -> "len-big" | PInvalidTree -> "invalid-tree" | PAfterEnd -> "after-end"
  | PDelAfterEnd -> "del-after-end" | PMark -> "mark" | PNil -> "nil" | PNewTime -> "new-time" | PNewLen -> "new-len"

let show_ints l = "[" ^ String.concat ";" (List.map string_of_int l) ^ "]"
let show_pairs l = "[" ^ String.concat ";" (List.map (fun (a, b) -> Printf.sprintf "%d:%d" a b) l) ^ "]"
let show_trip l = "[" ^ String.concat ";" (List.map (fun (a, b, c) -> Printf.sprintf "(%d,%d,%d)" a b c) l) ^ "]"

(* observation of one step: (panic <class>) | (ok <len> (nodes (k v)...) (lines ...) (cb (c p d)...)) *)
type obs = OPanic of string | OOk of int * (int * int) list * int list * (int * int * int) list

let obs_of_sx (s : sx) : obs =
  match tag s with
  | "panic" -> OPanic (match args s with a :: _ -> atom a | [] -> "?")
  | "ok" ->
      let a = args s in
      let ln = int_of_sx (List.nth a 0) in
      let nodes = List.map (fun n -> match list_of_sx n with [k; v] -> (int_of_sx k, int_of_sx v) | _ -> failwith "node") (args (List.nth a 1)) in
      let lines = List.map int_of_sx (args (List.nth a 2)) in
      let cbs = List.map (fun n -> match list_of_sx n with [c; p; d] -> (int_of_sx c, int_of_sx p, int_of_sx d) | _ -> failwith "cb") (args (List.nth a 3)) in
      OOk (ln, nodes, lines, cbs)
  | t -> failwith ("obs tag " ^ t)

(* the running histogram the observers keep: previousTime -> sum of deltas *)
let bump (h : (int, int) Hashtbl.t) (k : int) (d : int) =
  let v = d + (try Hashtbl.find h k with Not_found -> 0) in
  if v = 0 then Hashtbl.remove h k else Hashtbl.replace h k v
let hist_list h = List.sort compare (Hashtbl.fold (fun k v acc -> (k, v) :: acc) h [])
let count_lines (l : int list) : (int, int) Hashtbl.t =
  let h = Hashtbl.create 16 in List.iter (fun v -> bump h v 1) l; h

let model_nodes s = List.map (fun (k, v) -> (zi k, zi v)) s
let model_reps r = List.map (fun ((c, p), d) -> (zi c, zi p, zi d)) r

exception Stop

let () =
  iter_cases (fun id c ->
    let t0 = int_of_sx (List.hd (args (field "t0" c))) and n0 = int_of_sx (List.hd (args (field "n0" c))) in
    let ops = List.map (fun o -> match ints_of_sx o with [t; p; i; d] -> (t, p, i, d) | _ -> failwith "op") (args (field "ops" c)) in
    let obs = List.map obs_of_sx (args (field "obs" c)) in
    let maxu32 = 4294967295 in
    (try
      (* ---- NewFile ---- *)
      let ob0, obs = match obs with o :: r -> (o, r) | [] -> failwith "no NewFile observation" in
      let new_in_domain = t0 >= 0 && t0 <= maxu32 && n0 >= 0 && n0 <= maxu32 in
      let st = ref [] in
      (* plain array, kept as OCaml ints; handed to the extracted functions as Z lists *)
      let arr = ref [] in
      let hobs = Hashtbl.create 16 in        (* accumulated from the implementation's Updater calls *)
      let hexp = Hashtbl.create 16 in        (* what the array says they must have accumulated *)
      (match new_file (z t0) (z n0), ob0 with
       | Panic cl, OPanic g ->
           if pclass_name cl <> g then mismatch id (Printf.sprintf "NewFile panic class: impl=%s model=%s" g (pclass_name cl));
           if new_in_domain then propfail id "NewFile panics on an admissible tick and length";
           count "newfile_panic"; raise Stop
       | Panic cl, OOk _ -> mismatch id ("NewFile: model panics " ^ pclass_name cl ^ ", implementation does not"); raise Stop
       | Ok _, OPanic g ->
           if new_in_domain then propfail id ("NewFile panics (" ^ g ^ ") on an admissible tick and length")
           else mismatch id ("NewFile: implementation panics " ^ g ^ ", model does not");
           raise Stop
       | Ok (s, r), OOk (ln, nodes, lines, cbs) ->
           List.iter (fun (_, p, d) -> bump hobs p d) cbs;
           if new_in_domain then begin
             if n0 > 100000 then begin
               (* huge files: the array is not materialised; only the fine correspondence is checked *)
               count "huge_file"; arr := []
             end else begin
               arr := List.init n0 (fun _ -> t0);
               if ln <> n0 then propfail id (Printf.sprintf "NewFile: Len()=%d for a %d-line file" ln n0)
               else if lines <> !arr then propfail id ("NewFile: lines " ^ show_ints lines);
               if not (is_mark (z t0)) then bump hexp t0 n0;
               if hist_list hobs <> hist_list hexp then
                 propfail id ("NewFile: reported deltas give histogram " ^ show_pairs (hist_list hobs) ^ " expected " ^ show_pairs (hist_list hexp))
             end
           end else count "newfile_outside_domain";
           if model_nodes s <> nodes then mismatch id ("NewFile nodes: impl=" ^ show_pairs nodes ^ " model=" ^ show_pairs (model_nodes s))
           else if zi (len s) <> ln then mismatch id "NewFile Len"
           else if model_reps r <> cbs then mismatch id ("NewFile updater calls: impl=" ^ show_trip cbs ^ " model=" ^ show_trip (model_reps r));
           st := s;
           if not new_in_domain then begin
             (* e.g. a negative length: the tree is not well formed; only the correspondence is followed *)
             arr := []
           end);
      let huge = n0 > 100000 in
      let in_domain = ref (new_in_domain && not huge) in
      if List.length obs > List.length ops then failwith "more observations than operations";
      List.iteri (fun i ob ->
        let (t, p, ins, del) = List.nth ops i in
        let here = Printf.sprintf "op#%d (%d %d %d %d)" i t p ins del in
        let zarr = List.map z !arr in
        (* ---- coarse: the property, judged on the implementation's own outputs ---- *)
        if !in_domain && ins > 1000000 && ins <= maxu32 && t >= 0 && t < maxu32 && p >= 0 && del >= 0 && p + del <= List.length !arr then begin
          (* in range but too large to materialise as an array: only the fine correspondence is followed *)
          count "huge_insert"; in_domain := false
        end;
        if !in_domain then begin
          let valid = validb (z t) (z p) (z ins) (z del) zarr in
          let inr = in_rangeb (z t) (z p) (z ins) (z del) zarr in
          let mustp = must_panicb (z t) (z p) (z ins) (z del) zarr in
          (match ob with
           | OPanic g ->
               if valid then propfail id (here ^ " a valid request panics (" ^ g ^ ")")
               else if mustp then count "rejected_out_of_range"
               else count "panic_outside_domain"
           | OOk (ln, _, lines, cbs) ->
               if mustp then propfail id (here ^ " an out-of-range request is silently accepted")
               else if valid then begin
                 count "valid_ops";
                 let arr' = List.map zi (arr_update (z t) (z p) (z ins) (z del) zarr) in
                 if ln <> List.length arr' then propfail id (here ^ Printf.sprintf " Len()=%d, the array has %d lines" ln (List.length arr'))
                 else if lines <> arr' then propfail id (here ^ " lines differ from the array: impl=" ^ show_ints lines ^ " array=" ^ show_ints arr')
                 else begin
                   if is_mark (z t) then begin
                     count "mark_ops";
                     if cbs <> [] then propfail id (here ^ " an operation stamped with the merge mark reports " ^ show_trip cbs)
                   end else begin
                     List.iter (fun (_, pv, d) -> bump hobs pv d) cbs;
                     (* expected change of the histogram: - deleted lines, + inserted lines *)
                     let rec drop n l = if n <= 0 then l else match l with [] -> [] | _ :: r -> drop (n - 1) r in
                     let rec take n l = if n <= 0 then [] else match l with [] -> [] | x :: r -> x :: take (n - 1) r in
                     List.iter (fun v -> bump hexp v (-1)) (take del (drop p !arr));
                     if ins > 0 then bump hexp t ins;
                     if hist_list hobs <> hist_list hexp then
                       propfail id (here ^ " running histogram from the reported deltas " ^ show_pairs (hist_list hobs)
                                    ^ " differs from the array's " ^ show_pairs (hist_list hexp) ^ " calls=" ^ show_trip cbs)
                   end;
                   if ins = 0 && del = 0 then count "noop_ops";
                   if del > 0 && ins > 0 then count "replace_ops" else if del > 0 then count "delete_ops" else if ins > 0 then count "insert_ops"
                 end;
                 arr := arr'
               end else if not inr && ins = 0 && del = 0 then begin
                 (* an empty request beyond the end: accepted by the implementation although the position is out of
                    range (known finding F18; generated only by the kinds *-emptybeyond); nothing may change *)
                 count "noop_beyond_end";
                 propfail id ("[empty-request-beyond-end] " ^ here ^ Printf.sprintf " an empty request (ins = del = 0) at position %d beyond the end (Len %d) is accepted without a panic" p (List.length !arr));
                 if lines <> !arr then propfail id (here ^ " an empty request changed the lines") ;
                 if cbs <> [] then propfail id (here ^ " an empty request reported deltas")
               end else begin
                 (* in range except for the uint32 side condition or the mark protocol: outside the domain *)
                 count "outside_domain"; in_domain := false
               end)
        end;
        (* ---- fine: the model ---- *)
        (match update (z t) (z p) (z ins) (z del) !st, ob with
         | Panic cl, OPanic g ->
             count ("panic_" ^ g);
             if pclass_name cl <> g then mismatch id (here ^ Printf.sprintf " panic class: impl=%s model=%s" g (pclass_name cl));
             raise Stop
         | Panic cl, OOk _ -> mismatch id (here ^ " model panics (" ^ pclass_name cl ^ "), implementation does not"); raise Stop
         | Ok _, OPanic g -> mismatch id (here ^ " implementation panics (" ^ g ^ "), model does not"); raise Stop
         | Ok (s', r), OOk (ln, nodes, _, cbs) ->
             if model_nodes s' <> nodes then begin
               mismatch id (here ^ " nodes: impl=" ^ show_pairs nodes ^ " model=" ^ show_pairs (model_nodes s')); raise Stop end
             else if zi (len s') <> ln then begin mismatch id (here ^ " Len"); raise Stop end
             else if model_reps r <> cbs then begin
               mismatch id (here ^ " updater calls: impl=" ^ show_trip cbs ^ " model=" ^ show_trip (model_reps r)); raise Stop end;
             if !in_domain && not (wfb s') then mismatch id (here ^ " reachable state is not well formed: " ^ show_pairs nodes);
             count "steps";
             st := s')) obs
    with Stop -> ()))
