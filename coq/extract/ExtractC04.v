Require Extraction.
Require Import ExtrOcamlBasic.
From Herc Require Import Base.Conv Plan.Syntax Plan.Exec Plan.Graph Plan.Checker Plan.GC Plan.Hibernate Plan.Lifecycle Plan.FastPlan.
Extraction "c04_model.ml" conv_anchor plan_ok c04_ok pre_okb lifecycleb hb_inputb hb_outb collect_garbage insert_hb erase_hb erase_deletes init mkA fast_c04 mkFA.
