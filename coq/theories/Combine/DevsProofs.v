(* C18 - DevsAnalysis.MergeResults: every figure of the merged result is the sum of the input figures that
   are sent to the same (aligned tick, merged developer); totals are conserved; tick alignment. *)
From Coq Require Import List ZArith Bool Lia.
From Herc Require Import Combine.Model Combine.Spec Combine.Facts.
Import ListNotations.
Open Scope Z_scope.

(* ---------- one DevTick ---------- *)
Lemma ls_get_add k a b : ls_get k (ls_add a b) = ls_get k a + ls_get k b.
Proof. destruct k; reflexivity. Qed.
Lemma ls_get_0 k : ls_get k ls0 = 0.
Proof. destruct k; reflexivity. Qed.

Lemma asum_lang_add k l langs e :
  asum name_eqb (ls_get k) l (lang_add langs e) =
  asum name_eqb (ls_get k) l langs + (if name_eqb l (fst e) then ls_get k (snd e) else 0).
Proof.
  unfold lang_add. rewrite (asum_aupd name_eqb name_eqb_eq).
  destruct (name_eqb l (fst e)); [|reflexivity].
  rewrite ls_get_add, (wopt_default (ls_get k)) by apply ls_get_0. lia.
Qed.

Lemma asum_fold_lang_add k l ls acc :
  asum name_eqb (ls_get k) l (fold_left lang_add ls acc) =
  asum name_eqb (ls_get k) l acc + asum name_eqb (ls_get k) l ls.
Proof.
  revert acc. induction ls as [|[l' x] r IH]; intros acc; simpl.
  - lia.
  - rewrite IH, asum_lang_add. simpl. lia.
Qed.

Lemma msum_dt_add f a s : msum f (dt_add a s) = msum f a + msum f s.
Proof.
  destruct f as [|k|l k]; simpl.
  - reflexivity.
  - apply ls_get_add.
  - apply asum_fold_lang_add.
Qed.
Lemma msum_dt0 f : msum f dt0 = 0.
Proof. destruct f as [|k|l k]; simpl; try reflexivity. apply ls_get_0. Qed.

Lemma langs_nodup_fold ls acc :
  keys_nodup name_eqb acc = true -> keys_nodup name_eqb (fold_left lang_add ls acc) = true.
Proof.
  revert acc. induction ls as [|e r IH]; intros acc H; simpl; [assumption|].
  apply IH. unfold lang_add. apply (keys_nodup_aupd name_eqb name_eqb_eq). assumption.
Qed.

(* ---------- the developers of one tick ---------- *)
Definition dm_ok (dd : devmap) : bool :=
  keys_nodup Z.eqb dd && forallb (fun e' => keys_nodup name_eqb (dt_langs (snd e'))) dd.

Lemma merge_dev_spec people rd newdd e newdd' :
  merge_dev people rd newdd e = Ok newdd' ->
  (forall f k, asum Z.eqb (msum f) k newdd' =
               asum Z.eqb (msum f) k newdd + (if newdev0 people rd (fst e) =? k then msum f (snd e) else 0)) /\
  (forall f, atotal (msum f) newdd' = atotal (msum f) newdd + msum f (snd e)) /\
  (dm_ok newdd = true -> dm_ok newdd' = true).
Proof.
  unfold merge_dev. intros H. inv_bind H. inversion H; subst; clear H.
  assert (Hnd : newdev0 people rd (fst e) = v) by (unfold newdev0; rewrite Hv; reflexivity).
  rewrite Hnd. repeat split.
  - intros f k. rewrite (asum_aupd Z.eqb Zeqb_eq). rewrite (Z.eqb_sym v k).
    destruct (k =? v); [|reflexivity].
    rewrite msum_dt_add, (wopt_default (msum f)) by apply msum_dt0. lia.
  - intros f. rewrite (atotal_aupd Z.eqb).
    rewrite msum_dt_add, (wopt_default (msum f)) by apply msum_dt0. lia.
  - unfold dm_ok. intros Hok. apply andb_true_iff in Hok. destruct Hok as [H1 H2].
    rewrite (keys_nodup_aupd Z.eqb Zeqb_eq) by assumption. simpl.
    apply (forallb_aupd Z.eqb Zeqb_eq); [assumption|].
    intros k0 _. simpl. apply langs_nodup_fold.
    destruct (aget Z.eqb newdd v) as [d|] eqn:Eg; simpl; [|reflexivity].
    (* the entry found by the lookup is one of the entries of newdd *)
    clear -H2 Eg. induction newdd as [|[k1 v1] r IH]; simpl in *; [discriminate|].
    apply andb_true_iff in H2. destruct H2 as [Ha Hb].
    destruct (v =? k1); [inversion Eg; subst; assumption|auto].
Qed.

Lemma merge_devs_spec people rd dd : forall newdd newdd',
  foldM (merge_dev people rd) dd newdd = Ok newdd' ->
  (forall f k, asum Z.eqb (msum f) k newdd' = asum Z.eqb (msum f) k newdd + dd_sum_to f people rd k dd) /\
  (forall f, atotal (msum f) newdd' = atotal (msum f) newdd + atotal (msum f) dd) /\
  (dm_ok newdd = true -> dm_ok newdd' = true).
Proof.
  induction dd as [|[d s] r IH]; simpl; intros newdd newdd' H.
  - inversion H; subst. repeat split; intros; try lia; assumption.
  - inv_bind H. destruct (merge_dev_spec _ _ _ _ _ Hv) as (A1 & A2 & A3).
    destruct (IH _ _ H) as (B1 & B2 & B3). repeat split.
    + intros f k. rewrite B1, A1. simpl. lia.
    + intros f. rewrite B2, A2. simpl. lia.
    + auto.
Qed.

(* ---------- the ticks ---------- *)
Definition tm_ok (tm : tickmap) : bool := keys_nodup Z.eqb tm && forallb (fun e => dm_ok (snd e)) tm.

Lemma tm_ok_dv_maps_ok tm : tm_ok tm = dv_maps_ok tm.
Proof. reflexivity. Qed.

Lemma aget_forallb {V} (P : Z * V -> bool) (m : list (Z * V)) k v :
  forallb P m = true -> aget Z.eqb m k = Some v -> exists k', P (k', v) = true.
Proof.
  induction m as [|[k1 v1] r IH]; simpl; intros H Hg; [discriminate|].
  apply andb_true_iff in H. destruct H as [Ha Hb].
  destruct (k =? k1); [inversion Hg; subst; eauto|auto].
Qed.

Lemma merge_tick_spec people rd off newticks e newticks' :
  merge_tick people rd off newticks e = Ok newticks' ->
  (forall f t k, out_cell f t k newticks' =
                 out_cell f t k newticks + (if fst e + off =? t then dd_sum_to f people rd k (snd e) else 0)) /\
  (forall f, dv_total f newticks' = dv_total f newticks + atotal (msum f) (snd e)) /\
  (tm_ok newticks = true -> tm_ok newticks' = true).
Proof.
  unfold merge_tick. intros H. inv_bind H. inversion H; subst; clear H.
  destruct (merge_devs_spec _ _ _ _ _ Hv) as (A1 & A2 & A3).
  unfold tickmap, devmap in *.
  remember (aget Z.eqb newticks (fst e + off)) as o eqn:Eo.
  repeat split.
  - intros f t k. unfold out_cell. rewrite (asum_aupd Z.eqb Zeqb_eq). rewrite (Z.eqb_sym (fst e + off) t).
    destruct (t =? fst e + off); [|reflexivity].
    rewrite A1, <- Eo. destruct o; simpl; lia.
  - intros f. unfold dv_total. rewrite (atotal_aupd Z.eqb). rewrite A2, <- Eo. destruct o; simpl; lia.
  - unfold tm_ok. intros Hok. apply andb_true_iff in Hok. destruct Hok as [H1 H2].
    rewrite (keys_nodup_aupd Z.eqb Zeqb_eq) by assumption. simpl.
    apply (forallb_aupd Z.eqb Zeqb_eq); [assumption|].
    intros k0 _. simpl. apply A3. destruct o as [d|]; simpl; [|reflexivity].
    symmetry in Eo. destruct (aget_forallb _ _ _ _ H2 Eo) as [k' Hk]. exact Hk.
Qed.

Lemma merge_ticks_spec people rd off ticks : forall newticks newticks',
  foldM (merge_tick people rd off) ticks newticks = Ok newticks' ->
  (forall f t k, out_cell f t k newticks' = out_cell f t k newticks + in_sum f people rd off t k ticks) /\
  (forall f, dv_total f newticks' = dv_total f newticks + dv_total f ticks) /\
  (tm_ok newticks = true -> tm_ok newticks' = true).
Proof.
  induction ticks as [|[t dd] r IH]; simpl; intros newticks newticks' H.
  - inversion H; subst. repeat split; intros; try lia; assumption.
  - inv_bind H. destruct (merge_tick_spec _ _ _ _ _ _ Hv) as (A1 & A2 & A3).
    destruct (IH _ _ H) as (B1 & B2 & B3). repeat split.
    + intros f t0 k. rewrite B1, A1. simpl. lia.
    + intros f. rewrite B2, A2. unfold dv_total. simpl. lia.
    + auto.
Qed.

(* ---------- the whole merge ---------- *)
Theorem devs_merge_conserve people merged r1 r2 c1 c2 m :
  devs_merge people merged r1 r2 c1 c2 = Ok m ->
  exists o1 o2,
    tick_offsets (c_begin c1) (c_begin c2) (dr_ticksize r1) = Ok (o1, o2) /\
    dr_ticksize r1 = dr_ticksize r2 /\ dr_ticksize m = dr_ticksize r1 /\ dr_people m = merged /\
    (forall f, dv_total f (dr_ticks m) = dv_total f (dr_ticks r1) + dv_total f (dr_ticks r2)) /\
    (forall f t k, out_cell f t k (dr_ticks m) =
                   in_sum f people (dr_people r1) o1 t k (dr_ticks r1) +
                   in_sum f people (dr_people r2) o2 t k (dr_ticks r2)) /\
    dv_maps_ok (dr_ticks m) = true.
Proof.
  unfold devs_merge. destruct (dr_ticksize r1 =? dr_ticksize r2) eqn:Ets; simpl; [|discriminate].
  intros H. inv_bind H. destruct v as [o1 o2]. inv_bind H. inv_bind H. inversion H; subst; clear H.
  simpl in *. exists o1, o2.
  destruct (merge_ticks_spec _ _ _ _ _ _ Hv0) as (A1 & A2 & A3).
  destruct (merge_ticks_spec _ _ _ _ _ _ Hv1) as (B1 & B2 & B3).
  split; [exact Hv|]. split; [apply Z.eqb_eq; assumption|]. split; [reflexivity|]. split; [reflexivity|].
  repeat split.
  - intros f. rewrite B2, A2. unfold dv_total. simpl. lia.
  - intros f t k. rewrite B1, A1. unfold out_cell. simpl. lia.
  - rewrite <- tm_ok_dv_maps_ok. apply B3, A3. reflexivity.
Qed.

(* When does it succeed?  Equal tick sizes, a non-zero tick size, every developer index in range. *)
Definition devs_in_range (rd : list name) (tm : tickmap) : bool :=
  forallb (fun e => forallb (fun e' => (fst e' =? AuthorMissing) || ((0 <=? fst e') && (fst e' <? lenZ rd))) (snd e)) tm.

Lemma reindex_dev_defined people rd d :
  ((d =? AuthorMissing) || ((0 <=? d) && (d <? lenZ rd))) = true -> exists n, reindex_dev people rd d = Ok n.
Proof.
  unfold reindex_dev. destruct (d =? AuthorMissing); simpl; [eauto|].
  intros H. apply andb_true_iff in H. destruct H as [H1 H2].
  destruct (idx_in_range rd d) as [s Hs]; [lia|]. rewrite Hs. simpl. eauto.
Qed.

Lemma merge_devs_defined people rd dd : forall newdd,
  forallb (fun e' => (fst e' =? AuthorMissing) || ((0 <=? fst e') && (fst e' <? lenZ rd))) dd = true ->
  exists r, foldM (merge_dev people rd) dd newdd = Ok r.
Proof.
  induction dd as [|[d s] r IH]; simpl; intros newdd H; [eauto|].
  apply andb_true_iff in H. destruct H as [H1 H2].
  unfold merge_dev at 1. simpl. destruct (reindex_dev_defined people rd d H1) as [n ->]. simpl. apply IH. assumption.
Qed.

Lemma merge_ticks_defined people rd off ticks : forall newticks,
  devs_in_range rd ticks = true -> exists r, foldM (merge_tick people rd off) ticks newticks = Ok r.
Proof.
  induction ticks as [|[t dd] r IH]; simpl; intros newticks H; [eauto|].
  apply andb_true_iff in H. destruct H as [H1 H2].
  unfold merge_tick at 1. simpl.
  destruct (merge_devs_defined people rd dd (default [] (aget Z.eqb newticks (t + off))) H1) as [x ->]. simpl.
  apply IH. assumption.
Qed.

Theorem devs_merge_defined people merged r1 r2 c1 c2 :
  dr_ticksize r1 = dr_ticksize r2 -> dr_ticksize r1 <> 0 ->
  devs_in_range (dr_people r1) (dr_ticks r1) = true -> devs_in_range (dr_people r2) (dr_ticks r2) = true ->
  exists m, devs_merge people merged r1 r2 c1 c2 = Ok m.
Proof.
  intros Hts Hnz H1 H2. unfold devs_merge. rewrite <- Hts, Z.eqb_refl. simpl.
  unfold tick_offsets. destruct (dr_ticksize r1 =? 0) eqn:E; [apply Z.eqb_eq in E; contradiction|]. simpl.
  match goal with |- context [foldM ?f (dr_ticks r1) []] =>
    destruct (merge_ticks_defined people (dr_people r1) (Z.quot
      (floor_time (unix_to_abs (c_begin c1)) (dr_ticksize r1) -
       (if floor_time (unix_to_abs (c_begin c2)) (dr_ticksize r1) <? floor_time (unix_to_abs (c_begin c1)) (dr_ticksize r1)
        then floor_time (unix_to_abs (c_begin c2)) (dr_ticksize r1)
        else floor_time (unix_to_abs (c_begin c1)) (dr_ticksize r1))) (dr_ticksize r1)) (dr_ticks r1) [] H1) as [x Hx]
  end.
  rewrite Hx. simpl.
  match goal with |- context [foldM ?f (dr_ticks r2) x] =>
    destruct (merge_ticks_defined people (dr_people r2) (Z.quot
      (floor_time (unix_to_abs (c_begin c2)) (dr_ticksize r1) -
       (if floor_time (unix_to_abs (c_begin c2)) (dr_ticksize r1) <? floor_time (unix_to_abs (c_begin c1)) (dr_ticksize r1)
        then floor_time (unix_to_abs (c_begin c2)) (dr_ticksize r1)
        else floor_time (unix_to_abs (c_begin c1)) (dr_ticksize r1))) (dr_ticksize r1)) (dr_ticks r2) x H2) as [y Hy]
  end.
  rewrite Hy. simpl. eauto.
Qed.

(* ---------- tick alignment by the begin dates ---------- *)
(* With a positive tick size the two results are shifted by the whole number of ticks between their
   floored begin times: the earlier one by 0, the later one by the difference. *)
Theorem tick_offsets_spec b1 b2 d :
  0 < d ->
  let q1 := unix_to_abs b1 / d in
  let q2 := unix_to_abs b2 / d in
  tick_offsets b1 b2 d = Ok (q1 - Z.min q1 q2, q2 - Z.min q1 q2).
Proof.
  intros Hd q1 q2. unfold tick_offsets, floor_time.
  destruct (d <=? 0) eqn:E; [lia|]. destruct (d =? 0) eqn:E0; [lia|].
  fold q1 q2.
  assert (Hq : forall a b, Z.quot (a * d - b * d) d = a - b).
  { intros a b. replace (a * d - b * d) with ((a - b) * d) by lia. apply Z.quot_mul. lia. }
  destruct (q2 * d <? q1 * d) eqn:El.
  - assert (q2 < q1) by nia. rewrite !Hq. rewrite Z.min_r by lia. reflexivity.
  - assert (q1 <= q2) by nia. rewrite !Hq. rewrite Z.min_l by lia. reflexivity.
Qed.
