(* C04 - branch lifecycle incl. hibernation.  (statements are completed below as the proofs land) *)
From Coq Require Import List ZArith.
From Herc Require Import Plan.Syntax Plan.Exec Plan.Graph Plan.Checker Plan.GC Plan.Hibernate Plan.Lifecycle.
Import ListNotations.
Open Scope Z_scope.

Example C04_checker_accepts_diamond :
  c04_ok [[]; [0%nat]; [0%nat]; [1%nat; 2%nat]]
    [emerge 1 (Some 0%nat); commit_on 0 1; mkA KFork (Some 0%nat) [1; 2]; commit_on 1 1; commit_on 2 2;
     commit_on 3 1; commit_on 3 2; merge_of [1; 2]; delete 2] = true.
Proof. vm_compute. reflexivity. Qed.
