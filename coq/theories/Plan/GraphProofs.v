(* Correctness of the executable graph functions of Graph.v. *)
From Coq Require Import List ZArith Bool Arith Lia Permutation.
From Herc Require Import Plan.Syntax Plan.Graph.
Import ListNotations.

(* ---------- list sets ---------- *)

Lemma memn_In x l : memn x l = true <-> In x l.
Proof.
  unfold memn. rewrite existsb_exists. split.
  - intros [y [Hy He]]. apply Nat.eqb_eq in He. subst. exact Hy.
  - intro H. exists x. split; [exact H | apply Nat.eqb_refl].
Qed.

Lemma memn_false x l : memn x l = false <-> ~ In x l.
Proof.
  rewrite <- memn_In. destruct (memn x l); split; intro H.
  - discriminate H.
  - exfalso. apply H. reflexivity.
  - intro H'. discriminate H'.
  - reflexivity.
Qed.

Lemma subsetn_incl l1 l2 : subsetn l1 l2 = true <-> forall x, In x l1 -> In x l2.
Proof.
  unfold subsetn. rewrite forallb_forall. split; intros H x Hx.
  - apply memn_In. apply H. exact Hx.
  - apply memn_In. apply H. exact Hx.
Qed.

Lemma seteqn_iff l1 l2 : seteqn l1 l2 = true <-> forall x, In x l1 <-> In x l2.
Proof.
  unfold seteqn. rewrite andb_true_iff, !subsetn_incl. split.
  - intros [H1 H2] x. split; auto.
  - intro H. split; intros x Hx; apply H; exact Hx.
Qed.

Lemma dedupn_In x l : In x (dedupn l) <-> In x l.
Proof.
  induction l as [|y r IH]; simpl; [tauto|].
  destruct (memn y r) eqn:E.
  - rewrite IH. split; [tauto|]. intros [->|H]; [apply memn_In; exact E | exact H].
  - simpl. rewrite IH. tauto.
Qed.

Lemma dedupn_NoDup l : NoDup (dedupn l).
Proof.
  induction l as [|y r IH]; simpl; [constructor|].
  destruct (memn y r) eqn:E; [exact IH|].
  constructor; [|exact IH]. rewrite dedupn_In. apply memn_false. exact E.
Qed.

(* ---------- topological numbering, ancestors ---------- *)

Lemma parents_out g c : length g <= c -> parents g c = [].
Proof. intro H. unfold parents. apply nth_overflow. exact H. Qed.

Lemma parents_lt_len g c q : In q (parents g c) -> c < length g.
Proof.
  intro H. destruct (Nat.lt_ge_cases c (length g)) as [L|L]; [exact L|].
  rewrite (parents_out g c L) in H. destruct H.
Qed.

Lemma topob_spec g : topob g = true -> forall c q, In q (parents g c) -> q < c.
Proof.
  unfold topob. rewrite forallb_forall. intros H c q Hq.
  pose proof (parents_lt_len g c q Hq) as L.
  assert (Hc : In c (seq 0 (length g))) by (apply in_seq; lia).
  specialize (H c Hc). rewrite forallb_forall in H. specialize (H q Hq).
  apply Nat.ltb_lt in H. exact H.
Qed.

Lemma Anc_inv g a c : Anc g a c <-> a = c \/ exists q, In q (parents g c) /\ Anc g a q.
Proof.
  split.
  - intro H. destruct H as [c|a q c Hq Ha]; [left; reflexivity | right; exists q; split; assumption].
  - intros [->|[q [Hq Ha]]]; [apply Anc_refl | eapply Anc_step; eassumption].
Qed.

Lemma Anc_le g : topob g = true -> forall a c, Anc g a c -> a <= c.
Proof.
  intros T a c H. induction H as [c|a q c Hq Ha IH]; [lia|].
  pose proof (topob_spec g T c q Hq). lia.
Qed.

Lemma Anc_trans g a b c : Anc g a b -> Anc g b c -> Anc g a c.
Proof.
  intros Hab Hbc. induction Hbc as [c|b q c Hq Hb IH]; [exact Hab|].
  eapply Anc_step; [exact Hq | apply IH; exact Hab].
Qed.

Section AncTab.
  Variable g : dag.
  Hypothesis T : topob g = true.

  Definition tab_ok (tab : list (list nat)) (i : nat) : Prop :=
    length tab = i /\ forall c, c < i -> forall a, In a (nth c tab []) <-> Anc g a c.

  Lemma anc_tab_from_ok : forall rest pre tab,
      g = pre ++ rest -> tab_ok tab (length pre) ->
      tab_ok (anc_tab_from rest (length pre) tab) (length g).
  Proof.
    induction rest as [|ps r IH]; intros pre tab Hg [Hl Hc]; cbn [anc_tab_from].
    - assert (E : length g = length pre) by (rewrite Hg, app_nil_r; reflexivity).
      rewrite E. split; assumption.
    - replace (S (length pre)) with (length (pre ++ [ps])) by (rewrite app_length; simpl; lia).
      apply IH.
      + rewrite Hg, <- app_assoc. reflexivity.
      + assert (Hps : parents g (length pre) = ps).
        { unfold parents. rewrite Hg. rewrite app_nth2 by lia. rewrite Nat.sub_diag. reflexivity. }
        split.
        * rewrite !app_length. simpl. lia.
        * intros c Hlt a. rewrite app_length in Hlt. simpl in Hlt.
          destruct (Nat.eq_dec c (length pre)) as [->|Hne].
          -- rewrite app_nth2 by lia. rewrite Hl, Nat.sub_diag. cbn [nth].
             rewrite dedupn_In. simpl. rewrite in_flat_map. rewrite (Anc_inv g a (length pre)), Hps.
             split.
             ++ intros [E|[q [Hq Ha]]]; [left; symmetry; exact E|].
                right. exists q. split; [exact Hq|]. apply Hc; [|exact Ha].
                apply (topob_spec g T (length pre) q). rewrite Hps. exact Hq.
             ++ intros [E|[q [Hq Ha]]]; [left; symmetry; exact E|].
                right. exists q. split; [exact Hq|]. apply Hc; [|exact Ha].
                apply (topob_spec g T (length pre) q). rewrite Hps. exact Hq.
          -- rewrite app_nth1 by lia. apply Hc. lia.
  Qed.

  Lemma anc_tab_ok : forall c, c < length g -> forall a, In a (anc_of (anc_tab g) c) <-> Anc g a c.
  Proof.
    intros c Hc a. unfold anc_of, anc_tab.
    destruct (anc_tab_from_ok g [] [] eq_refl) as [_ H].
    - split; [reflexivity|]. intros c' Hc'. simpl in Hc'. lia.
    - apply H. exact Hc.
  Qed.

  Lemma ancb_spec a c : c < length g -> (ancb (anc_tab g) a c = true <-> Anc g a c).
  Proof. intro Hc. unfold ancb. rewrite memn_In. apply anc_tab_ok. exact Hc. Qed.

  Lemma nonredb_spec c q : nonredb g (anc_tab g) c q = true <-> nonredundant g c q.
  Proof.
    unfold nonredb, nonredundant, redundant. rewrite andb_true_iff, memn_In, negb_true_iff.
    split.
    - intros [Hq Hn]. split; [exact Hq|]. intros [q' [Hq' [Hne Ha]]].
      assert (E : existsb (fun q'0 => negb (q'0 =? q) && ancb (anc_tab g) q q'0) (parents g c) = true).
      { apply existsb_exists. exists q'. split; [exact Hq'|]. apply andb_true_iff. split.
        - apply negb_true_iff. apply Nat.eqb_neq. exact Hne.
        - apply ancb_spec; [|exact Ha].
          pose proof (topob_spec g T c q' Hq'). pose proof (parents_lt_len g c q' Hq'). lia. }
      rewrite E in Hn. discriminate.
    - intros [Hq Hn]. split; [exact Hq|].
      destruct (existsb _ (parents g c)) eqn:E; [|reflexivity].
      exfalso. apply Hn. apply existsb_exists in E. destruct E as [q' [Hq' E]].
      apply andb_true_iff in E. destruct E as [E1 E2].
      exists q'. split; [exact Hq'|]. split.
      + apply Nat.eqb_neq. apply negb_true_iff. exact E1.
      + apply ancb_spec in E2; [exact E2|].
        pose proof (topob_spec g T c q' Hq'). pose proof (parents_lt_len g c q' Hq'). lia.
  Qed.

  Lemma nonred_list_spec c q : In q (nonred_list g (anc_tab g) c) <-> nonredundant g c q.
  Proof.
    unfold nonred_list. rewrite filter_In, dedupn_In, nonredb_spec.
    unfold nonredundant. tauto.
  Qed.
End AncTab.

(* ---------- connectivity ---------- *)

Lemma adj_sym g a b : adj g a b -> adj g b a.
Proof. unfold adj. tauto. Qed.

Lemma conn_trans g a b c : conn g a b -> conn g b c -> conn g a c.
Proof.
  intros Hab Hbc. induction Hbc as [b|b x c Hbx IH Hxc]; [exact Hab|].
  eapply conn_step; [apply IH; exact Hab | exact Hxc].
Qed.

Lemma conn_sym g a b : conn g a b -> conn g b a.
Proof.
  intro H. induction H as [a|a b c Hab IH Hbc]; [apply conn_refl|].
  eapply conn_trans; [|exact IH].
  eapply conn_step; [apply conn_refl | apply adj_sym; exact Hbc].
Qed.

Lemma neighbours_adj g x y : In y (neighbours g x) <-> adj g x y.
Proof.
  unfold neighbours, adj, children. rewrite in_app_iff, filter_In, memn_In, in_seq. split.
  - intros [H|[_ H]]; [right; exact H | left; exact H].
  - intros [H|H]; [right | left; exact H].
    split; [|exact H]. pose proof (parents_lt_len g y x H). lia.
Qed.

Lemma expand_incl g S x : In x S -> In x (expand g S).
Proof. intro H. unfold expand. rewrite dedupn_In, in_app_iff. left. exact H. Qed.

Lemma expand_conn g c S :
  (forall x, In x S -> conn g c x) -> forall x, In x (expand g S) -> conn g c x.
Proof.
  intros H x Hx. unfold expand in Hx. rewrite dedupn_In, in_app_iff, in_flat_map in Hx.
  destruct Hx as [Hx|[y [Hy Hn]]]; [apply H; exact Hx|].
  eapply conn_step; [apply H; exact Hy | apply neighbours_adj; exact Hn].
Qed.

Lemma iter_expand g c : forall n S,
    In c S -> (forall x, In x S -> conn g c x) ->
    In c (iter n (expand g) S) /\ forall x, In x (iter n (expand g) S) -> conn g c x.
Proof.
  induction n as [|n IH]; intros S Hc HS; simpl; [split; assumption|].
  apply IH; [apply expand_incl; exact Hc | apply expand_conn; exact HS].
Qed.

Lemma comp_sound g c : In c (comp g c) /\ forall x, In x (comp g c) -> conn g c x.
Proof.
  unfold comp. apply iter_expand.
  - left. reflexivity.
  - intros x [<-|[]]. apply conn_refl.
Qed.

Lemma iter_expand_nodup g : forall n S, NoDup S -> NoDup (iter n (expand g) S).
Proof.
  induction n as [|n IH]; intros S H; simpl; [exact H|].
  apply IH. unfold expand. apply dedupn_NoDup.
Qed.

Lemma comp_NoDup g c : NoDup (comp g c).
Proof. unfold comp. apply iter_expand_nodup. constructor; [intros []|constructor]. Qed.

Lemma sat_complete g S c : satb g S = true -> In c S -> forall x, conn g c x -> In x S.
Proof.
  intros Hs Hc x H. induction H as [c|c y x Hcy IH Hyx]; [exact Hc|].
  unfold satb in Hs. rewrite subsetn_incl in Hs. apply Hs.
  apply in_flat_map. exists y. split; [apply IH; exact Hc | apply neighbours_adj; exact Hyx].
Qed.

Lemma retainedb_sound g A : retainedb g A = true -> retained g A.
Proof.
  unfold retainedb, retained. destruct A as [|c0 A']; [discriminate|].
  set (A := c0 :: A'). set (C := comp g c0).
  rewrite !andb_true_iff. intros [[[Hlt Hsat] Heq] Hmax].
  rewrite forallb_forall in Hlt, Hmax. rewrite seteqn_iff in Heq.
  destruct (comp_sound g c0) as [Hc0 Hconn]. fold C in Hc0, Hconn.
  assert (HC : forall x, In x C <-> conn g c0 x).
  { intro x. split; [apply Hconn | apply (sat_complete g C c0 Hsat Hc0)]. }
  split; [exists c0; left; reflexivity|].
  split; [intros c Hc; apply Nat.ltb_lt; apply Hlt; exact Hc|].
  split.
  - intros c x Hc. rewrite Heq, HC. apply Heq, HC in Hc. split; intro H.
    + eapply conn_trans; [apply conn_sym; exact Hc | exact H].
    + eapply conn_trans; [exact Hc | exact H].
  - intros c l Hc Hnd Hl A1 HA1 HAA.
    assert (HCA : length C <= length A1).
    { apply NoDup_incl_length; [apply comp_NoDup|]. intros x Hx. apply HAA, Heq. exact Hx. }
    assert (Hin : In c (seq 0 (length g))) by (apply in_seq; lia).
    specialize (Hmax c Hin). apply orb_true_iff in Hmax. destruct Hmax as [Hm|Hm].
    + apply memn_In in Hm. etransitivity; [|exact HCA].
      apply NoDup_incl_length; [exact Hnd|]. intros x Hx. apply HC.
      eapply conn_trans; [apply HC; exact Hm | apply Hl; exact Hx].
    + apply andb_true_iff in Hm. destruct Hm as [Hs' Hle]. apply Nat.leb_le in Hle.
      etransitivity; [|exact HCA]. etransitivity; [|exact Hle].
      apply NoDup_incl_length; [exact Hnd|]. intros x Hx.
      destruct (comp_sound g c) as [Hcc _].
      apply (sat_complete g (comp g c) c Hs' Hcc). apply Hl. exact Hx.
Qed.

Lemma retained_ext g A B : (forall x, In x A <-> In x B) -> retained g A -> retained g B.
Proof.
  intros E [[c Hc] [Hlt [Hcomp Hmax]]]. split; [exists c; apply E; exact Hc|].
  split; [intros x Hx; apply Hlt, E; exact Hx|].
  split.
  - intros x y Hx. rewrite <- E. apply Hcomp. apply E. exact Hx.
  - intros x l Hx Hnd Hl A1 HA1 HB. apply (Hmax x l Hx Hnd Hl A1 HA1).
    intro y. rewrite E. apply HB.
Qed.

(* ---------- heads ---------- *)

Lemma headsb_spec g A h : In h (headsb g A) <-> head g A h.
Proof.
  unfold headsb, head. rewrite filter_In, dedupn_In, negb_true_iff. split.
  - intros [Hh He]. split; [exact Hh|]. intros c Hc Hin.
    assert (E : existsb (fun c0 => memn h (parents g c0)) A = true).
    { apply existsb_exists. exists c. split; [exact Hc | apply memn_In; exact Hin]. }
    rewrite E in He. discriminate.
  - intros [Hh Hn]. split; [exact Hh|].
    destruct (existsb _ A) eqn:E; [|reflexivity]. exfalso.
    apply existsb_exists in E. destruct E as [c [Hc Hm]]. apply (Hn c Hc). apply memn_In. exact Hm.
Qed.

Lemma single_head_length g A : single_head g A -> length (headsb g A) <= 1.
Proof.
  intro H.
  assert (Hnd : NoDup (headsb g A)).
  { unfold headsb. apply NoDup_filter. apply dedupn_NoDup. }
  destruct (headsb g A) as [|h1 [|h2 r]] eqn:E; simpl; try lia.
  exfalso. assert (h1 = h2).
  { apply H; apply headsb_spec; rewrite E; simpl; auto. }
  subst h2. inversion Hnd as [|? ? Hn _]. apply Hn. left. reflexivity.
Qed.
